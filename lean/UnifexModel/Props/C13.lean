/-
  Props/C13.lean — property C13: streams deliver the adapted sequence in order and clean up exactly once.
  ONLY property theorems + non-vacuity examples.

  Everything is about the event-level stream calculus `Stream.deliver` / `Stream.rootStep`
  (Calc/Stream.lean), which is what the check compares with the real library trace by trace.

  Part A — functional correctness, for EVERY stream expression whose sources complete inline (all
  lengths, all element values, all scripted functions/predicates, error positions, with or without a
  stop request before start): reduce_stream / for_each hand the consumer exactly the elements of the
  denotational spec (Calc/StreamSpec.lean), in order, and complete with the fold over them — after cleanup.

  Part B — protocol safety, for EVERY stream expression, EVERY source script (inline / pending,
  reacting to stop or not), EVERY consumer and EVERY sequence of legal external events:
  cleanup() of a source is started at most once, never while its next() is outstanding, and when the
  consumer's result is delivered every source whose next() was ever started has completed its cleanup;
  and (expressions without take_until) the delivered elements are always a prefix of the specified
  sequence, wherever a stop request arrives.

  Part C — take_until's cleanup operation objects: each is destructed exactly once (regression of DESIGN §8 #6,
  fixed in /repo: `trigger_receiver::set_done` destructs `triggerOp_`).
-/
import UnifexModel.Calc.StreamLemmas
import UnifexModel.Calc.StreamSafetyRoot
import UnifexModel.Calc.StreamPrefix

namespace Unifex.Props.C13
open Unifex.Stream
open Unifex.Calc (Outcome Fn)

variable (specs : Nat → SrcSpec)

/-! ## Part A — inline streams: the consumer receives exactly `SExpr.den`, the result is the fold -/

/-- reduce_stream / for_each started on an all-inline stream (`b` = a stop request before start):
    everything happens inside start(); the elements handed to the consumer, the result and the final
    phase are those of the specification — for every expression, consumer, length and script. -/
theorem inline_run (e : SExpr) (c : Consumer) (b : Bool) (hk : c.kind ≠ .manual) (hI : e.Inline specs) :
    let p := rootStep specs { Root.init c e with stopped := b } .start
    let cs := consSpec c c.init (e.den specs b).1 (e.den specs b).2
    p.1.delivered = cs.1 ∧ p.1.result = some (finalResult cs.2.2 (e.cden specs b) cs.2.1) ∧ p.1.ph = .finished := by
  intro p cs
  have h := consume_inline specs (e.den specs b).1 (e.den specs b).2 ((connect e).need specs + 3)
    { Root.init c e with stopped := b, started := true, ph := .nexting } (connect e) hk rfl
    (connect_St specs e hI) (by simp [connect_den]) (by omega)
  have hd := h.delivered
  have hr := h.result
  have hp := h.ph
  simp only [Root.init, List.nil_append, connect_cdenNext] at hd hr hp
  exact ⟨hd, hr, hp⟩

theorem init_stopped_false (c : Consumer) (e : SExpr) : { Root.init c e with stopped := false } = Root.init c e := rfl

theorem consSpec_nothrow (c : Consumer) (hc : c.thr = none) (l : List Nat) : ∀ (acc : Nat) (t : Option Nat),
    consSpec c acc l t = (l, l.foldl c.fold acc, t) := by
  induction l with
  | nil => intro acc t; rfl
  | cons x xs ih => intro acc t; simp [consSpec, Consumer.step, hc, ih]

/-- **elements_eq_spec**: the consumer (non-throwing reducer / for_each function) receives exactly the
    elements of the adapted sequence, in order, nothing else. -/
theorem elements_eq_spec (e : SExpr) (c : Consumer) (hk : c.kind ≠ .manual) (hc : c.thr = none)
    (hI : e.Inline specs) :
    (rootStep specs (Root.init c e) .start).1.delivered = (e.den specs false).1 := by
  have h := (inline_run specs e c false hk hI).1
  rw [init_stopped_false] at h
  simpa [consSpec_nothrow c hc] using h

/-- **fold_eq_spec**: reduce_stream completes with the fold over exactly those elements when the
    stream ends with done and cleanup succeeds; with the stream's error or the cleanup's error otherwise. -/
theorem fold_eq_spec (e : SExpr) (c : Consumer) (hk : c.kind ≠ .manual) (hc : c.thr = none)
    (hI : e.Inline specs) :
    (rootStep specs (Root.init c e) .start).1.result =
      some (match e.cden specs false, (e.den specs false).2 with
            | some ce, _ => .error ce
            | none, some se => .error se
            | none, none => .value ((e.den specs false).1.foldl c.fold c.init)) := by
  have h := (inline_run specs e c false hk hI).2.1
  rw [init_stopped_false] at h
  simp only [consSpec_nothrow c hc] at h
  rw [h]
  cases e.cden specs false <;> cases (e.den specs false).2 <;> rfl

/-- a throwing reducer ends the sequence at the offending element: it is the last one delivered, the
    state is not updated, the stream is cleaned up and the thrown error is the result -/
theorem reducer_throw_spec (e : SExpr) (c : Consumer) (hk : c.kind ≠ .manual) (hI : e.Inline specs) :
    (rootStep specs (Root.init c e) .start).1.delivered =
      (consSpec c c.init (e.den specs false).1 (e.den specs false).2).1 := by
  have h := (inline_run specs e c false hk hI).1
  rw [init_stopped_false] at h
  exact h

/-! ### the list function of each adaptor (`SExpr.den` unfolded) -/

theorem den_range (lo hi : Nat) (b : Bool) : (SExpr.range lo hi).den specs b = (List.range' lo (hi - lo), none) := rfl
theorem den_single (v : Nat) (b : Bool) : (SExpr.single v).den specs b = ([v], none) := rfl

theorem mapDen_add (k : Nat) (l : List Nat) (t : Option Nat) : mapDen (.add k) l t = (l.map (· + k), t) := by
  induction l with
  | nil => rfl
  | cons x xs ih => simp [mapDen, Fn.app, ih]

/-- transform_stream with a non-throwing function is `List.map` -/
theorem den_transform_add (k : Nat) (s : SExpr) (b : Bool) :
    (SExpr.transform (.add k) s).den specs b = ((s.den specs b).1.map (· + k), (s.den specs b).2) := by
  simp [SExpr.den, UnKind.den, mapDen_add]

/-- a transform function that throws on `x` cuts the sequence there and the throw is the stream's error -/
theorem mapDen_throw (f : Fn) (x e : Nat) (xs : List Nat) (t : Option Nat) (h : f.app x = .error e) :
    mapDen f (x :: xs) t = ([], some e) := by
  simp [mapDen, h]

theorem filterDen_total (p : Pred) (hp : ∀ x, p.app x ≠ .throw 0 ∧ ∀ e, p.app x ≠ .throw e) (l : List Nat)
    (t : Option Nat) : filterDen p l t = (l.filter (fun x => p.app x == .keep), t) := by
  induction l with
  | nil => rfl
  | cons x xs ih =>
    cases h : p.app x with
    | keep => simp [filterDen, h, ih]
    | drop => simp [filterDen, h, ih]
    | throw e => exact absurd h ((hp x).2 e)

/-- filter_stream with the predicate `even` is `List.filter` -/
theorem den_filter_even (s : SExpr) (b : Bool) :
    (SExpr.filter .even s).den specs b = ((s.den specs b).1.filter (fun x => x % 2 == 0), (s.den specs b).2) := by
  have : ∀ (l : List Nat) (t : Option Nat), filterDen .even l t = (l.filter (fun x => x % 2 == 0), t) := by
    intro l t
    induction l with
    | nil => rfl
    | cons x xs ih => by_cases h : x % 2 = 0 <;> simp [filterDen, Pred.app, h, ih]
  simp [SExpr.den, this]

theorem den_typeErase (s : SExpr) (b : Bool) : (SExpr.typeErase s).den specs b = s.den specs b := rfl
theorem den_cleanupAdapt (c : CAd) (s : SExpr) (b : Bool) : (SExpr.cleanupAdapt c s).den specs b = s.den specs b := rfl

/-- stop_immediately: nothing once stop is requested, the source's sequence otherwise -/
theorem den_stopImmediately (s : SExpr) :
    (SExpr.stopImmediately s).den specs true = ([], none) ∧
    (SExpr.stopImmediately s).den specs false = s.den specs false := ⟨rfl, rfl⟩

/-! ### a stop request only shortens the sequence: no duplicate, no invented element -/

theorem mapDen_prefix (f : Fn) (l1 r : List Nat) (t1 t2 : Option Nat) :
    (mapDen f l1 t1).1 <+: (mapDen f (l1 ++ r) t2).1 := by
  induction l1 with
  | nil => simp [mapDen]
  | cons x xs ih =>
    simp only [List.cons_append, mapDen]
    cases f.app x with
    | value y => simpa using ih
    | error e => simp
    | done => simp

theorem filterDen_prefix (p : Pred) (l1 r : List Nat) (t1 t2 : Option Nat) :
    (filterDen p l1 t1).1 <+: (filterDen p (l1 ++ r) t2).1 := by
  induction l1 with
  | nil => simp [filterDen]
  | cons x xs ih =>
    simp only [List.cons_append, filterDen]
    cases p.app x with
    | keep => simpa using ih
    | drop => exact ih
    | throw e => simp

/-- the sequence of a stream on which stop has been requested is a prefix of its sequence without stop -/
theorem den_stop_prefix (e : SExpr) : (e.den specs true).1 <+: (e.den specs false).1 := by
  induction e with
  | range lo hi => exact List.prefix_refl _
  | single v => exact List.prefix_refl _
  | neverS => exact List.prefix_refl _
  | src i => exact List.prefix_refl _
  | un k s ih =>
    obtain ⟨r, hr⟩ := ih
    cases k with
    | transform f => simp only [SExpr.den, UnKind.den]; rw [← hr]; exact mapDen_prefix f _ r _ _
    | nextAdapt f => simp only [SExpr.den, UnKind.den]; rw [← hr]; exact mapDen_prefix f _ r _ _
    | typeErase => exact ⟨r, hr⟩
    | cleanupAdapt c => exact ⟨r, hr⟩
  | filter p s ih =>
    obtain ⟨r, hr⟩ := ih
    simp only [SExpr.den]; rw [← hr]; exact filterDen_prefix p _ r _ _
  | stopImmediately s ih => simp [SExpr.den]
  | takeUntil s t ihs iht => exact List.prefix_refl _

/-- **stop_ends_early_no_dup_no_invent (partial)**: a stop request before start makes reduce_stream /
    for_each receive a PREFIX of the elements they receive without it — for every inline stream
    expression.  PARTIAL: the stop position is "before start"; inline streams have no other position (they
    run to completion inside start()).  For a stop request arriving between the completions of PENDING
    next() operations the prefix property is not proved here; it is covered by the differential tie
    (tools/stream.py: stop at a random position of every script). -/
theorem stop_ends_early_no_dup_no_invent_partial (e : SExpr) (c : Consumer) (hk : c.kind ≠ .manual)
    (hc : c.thr = none) (hI : e.Inline specs) :
    (rootStep specs { Root.init c e with stopped := true } .start).1.delivered <+:
      (rootStep specs (Root.init c e) .start).1.delivered := by
  have h1 := (inline_run specs e c true hk hI).1
  have h2 := (inline_run specs e c false hk hI).1
  rw [init_stopped_false] at h2
  simp only [consSpec_nothrow c hc] at h1 h2
  rw [h1]
  have : (rootStep specs (Root.init c e) .start).1.delivered = (e.den specs false).1 := h2
  rw [this]
  exact den_stop_prefix specs e

/-! ## Part B — every expression, every script, every legal event sequence -/

/-- the final state after any sequence of external events -/
abbrev final (c : Consumer) (e : SExpr) (evs : List REv) : Root := (runEvents specs (Root.init c e) evs).1

theorem final_inv (c : Consumer) (e : SExpr) (evs : List REv) : RInv (final specs c e evs) :=
  runEvents_inv specs evs _ (init_inv c e)

/-- **cleanup_at_most_once**: cleanup() of every source is started at most once — whatever the
    pipeline, the scripts, the consumer and the events (stop anywhere, completions in any order). -/
theorem cleanup_at_most_once (c : Consumer) (e : SExpr) (evs : List REv) :
    ∀ p ∈ (final specs c e evs).op.leaves, p.2.cleanups ≤ 1 := by
  intro p hp
  have := (good_leaves (final_inv specs c e evs).good p hp).2
  rw [this]; split <;> omega

/-- **cleanup_after_outstanding_next**: no source ever records a protocol violation: cleanup() is
    never started while its next() is outstanding (`bad = 1`), never a second time (`bad = 2`), and
    next() is never started while an operation is outstanding or after cleanup (`bad = 3`). -/
theorem cleanup_after_outstanding_next (c : Consumer) (e : SExpr) (evs : List REv) :
    ∀ p ∈ (final specs c e evs).op.leaves, p.2.bad = 0 :=
  fun p hp => (good_leaves (final_inv specs c e evs).good p hp).1

/-- what `bad = 1` means: the source model sets it exactly when cleanup() is called while next() is outstanding -/
theorem bad_flags_cleanup_while_next (k : LeafKind) (st : LeafSt) (h : st.ph = .nexting) :
    (leafStep specs .cleanup k st).1 = .leaf k { st with cleanups := st.cleanups + 1, bad := 1 } := by
  simp [leafStep, h]

/-- **result_after_cleanup / cleanup_once_iff_next_started**: once the consumer's result has been
    delivered, every source is either cleaned up — cleanup() started exactly once and completed — or was
    never touched (no next(), no cleanup()); in particular every source whose next() was ever started
    has finished its cleanup, and nothing is still running. -/
theorem result_after_cleanup (c : Consumer) (e : SExpr) (evs : List REv)
    (hres : (final specs c e evs).result.isSome = true) :
    ∀ p ∈ (final specs c e evs).op.leaves,
      (p.2.ph = .cleaned ∧ p.2.cleanups = 1) ∨ (p.2.ph = .idle ∧ p.2.k = 0 ∧ p.2.cleanups = 0) := by
  intro p hp
  have hinv := final_inv specs c e evs
  have hs := settled_leaves (good_cleaned_settled hinv.good (hinv.res hres)) p hp
  have hok := (good_leaves hinv.good p hp).2
  rcases hs with h | ⟨h1, h2⟩
  · left; exact ⟨h, by rw [hok]; simp [h]⟩
  · right; exact ⟨h1, h2, by rw [hok]; simp [h1]⟩

theorem cleanup_once_iff_next_started (c : Consumer) (e : SExpr) (evs : List REv)
    (hres : (final specs c e evs).result.isSome = true) :
    ∀ p ∈ (final specs c e evs).op.leaves, 0 < p.2.k → p.2.ph = .cleaned ∧ p.2.cleanups = 1 := by
  intro p hp hk
  rcases result_after_cleanup specs c e evs hres p hp with h | ⟨_, h, _⟩
  · exact h
  · omega

/-- **stop_ends_early_no_dup_no_invent**: whatever happens — a stop request at ANY position of the event
    sequence, completions in any order, errors, a throwing reducer — the elements handed to the consumer
    are, in order, a PREFIX of the sequence the specification assigns to the pipeline without stop: nothing
    is duplicated, reordered or invented; a stop request (or an error) can only end the sequence early.
    For every stream expression WITHOUT take_until, every source script, every consumer, every sequence of
    legal external events.  (With take_until the trigger legitimately truncates the source at a point the
    specification of the source alone cannot name; for those pipelines see
    `stop_ends_early_no_dup_no_invent_partial` and the differential tie.) -/
theorem stop_ends_early_no_dup_no_invent (c : Consumer) (e : SExpr) (hnt : e.NoTake) (evs : List REv) :
    (final specs c e evs).delivered <+: (e.den specs false).1 := by
  have h := runEvents_phi specs ((connect e).phi specs) evs (Root.init c e) (init_inv c e)
    (init_pinv specs c e (connect_noTake e hnt) (connect_SI2 e))
  rw [← connect_phi specs e hnt]
  exact h.pre

/-- **stop_immediately_abandons_then_awaits**: (1) a stop request while next(source) is outstanding
    completes the adaptor's next() with done AT ONCE, whatever the source does with the stop request;
    (2) cleanup() called while the abandoned next(source) is still running starts nothing and waits;
    (3) when the abandoned next(source) then completes, its result is dropped and cleanup(source) is what
    runs next — for every child behaviour `rec`. -/
theorem stop_immediately_abandons_then_awaits (rec : Rec) (c : Op) (st : StopImmSt) :
    (st.ph = .nexting → st.s = .active → (stopImmStep rec .stop c st).2.2 = some (.next .done)) ∧
    (st.ph = .idle → st.s = .stopped →
      stopImmStep rec .cleanup c st = (.stopImm c { st with s := .cleanupReq, ph := .cleaning }, [], none)) ∧
    (∀ outs o, st.s = .cleanupReq →
      siOnChild rec c st outs (some (.next o)) =
        siOnClean (rec .cleanup c).1 { st with nextErr := keepErr o st.nextErr } (outs ++ (rec .cleanup c).2.1)
          (rec .cleanup c).2.2) := by
  refine ⟨fun h1 h2 => by simp [stopImmStep, h1, h2], fun h1 h2 => by simp [stopImmStep, h1, h2],
    fun outs o h => by simp [siOnChild, h]⟩

/-! ## Part C — take_until's cleanup operation objects (`sourceOp_`, `triggerOp_`) are each constructed once
     and destructed once (the history variables of the model follow take_until.hpp; regression of DESIGN §8 #6) -/

/-- the take_until state of a tree rooted at take_until -/
def takeSt : Op → Option TakeSt
  | .takeUntil _ _ st => some st
  | _ => none

/-- source_receiver destructs `sourceOp_` only, trigger_receiver destructs `triggerOp_` only (done or error) -/
theorem take_until_receivers_destruct_their_own_op (x : TU) (e : Option Nat) :
    ((tuJoinSrc x e).st.srcOpDtor = x.st.srcOpDtor + 1 ∧ (tuJoinSrc x e).st.trigOpDtor = x.st.trigOpDtor) ∧
    ((tuJoinTrig x e).st.trigOpDtor = x.st.trigOpDtor + 1 ∧ (tuJoinTrig x e).st.srcOpDtor = x.st.srcOpDtor) := by
  simp only [tuJoinSrc, tuJoinTrig, tuJoin]
  refine ⟨⟨?_, ?_⟩, ⟨?_, ?_⟩⟩ <;> split <;> rfl

/-- take_until over two manual sources, one next(), the trigger fires, cleanup (source cleanup inline):
    both cleanup operations constructed once and destructed once, result delivered -/
theorem take_until_cleanup_ops_balanced :
    let specs : Nat → SrcSpec := fun i =>
      if i = 1 then ⟨[.inl (.value 3), .pend (.value 4) .completeDone], .inl none⟩
      else ⟨[.pend (.value 0) .ignore], .inl none⟩
    let rt := (runEvents specs (Root.init ⟨.reduce, 0, 10, none⟩ (.takeUntil (.src 1) (.src 2)))
      [.start, .compNext 2]).1
    rt.result = some (.value 3) ∧
    (takeSt rt.op).map (fun st => (st.srcOpCtor, st.srcOpDtor, st.trigOpCtor, st.trigOpDtor)) = some (1, 1, 1, 1) := by
  decide +kernel

/-- the same with cleanup(source) still pending when cleanup(trigger) completes: `sourceOp_` is left alone
    until its own completion -/
theorem take_until_cleanup_ops_balanced_pending :
    let specs : Nat → SrcSpec := fun i =>
      if i = 1 then ⟨[.inl (.value 3), .pend (.value 4) .completeDone], .pend none⟩
      else ⟨[.pend (.value 0) .ignore], .inl none⟩
    let rt1 := (runEvents specs (Root.init ⟨.reduce, 0, 10, none⟩ (.takeUntil (.src 1) (.src 2)))
      [.start, .compNext 2]).1
    let rt2 := (runEvents specs (Root.init ⟨.reduce, 0, 10, none⟩ (.takeUntil (.src 1) (.src 2)))
      [.start, .compNext 2, .compClean 1]).1
    (takeSt rt1.op).map (fun st => (st.srcOpCtor, st.srcOpDtor, st.trigOpCtor, st.trigOpDtor)) = some (1, 0, 1, 1) ∧
    rt1.result = none ∧
    (takeSt rt2.op).map (fun st => (st.srcOpCtor, st.srcOpDtor, st.trigOpCtor, st.trigOpDtor)) = some (1, 1, 1, 1) ∧
    rt2.result = some (.value 3) := by
  decide +kernel

/-! ## non-vacuity -/

/-- a concrete pipeline: filter even ∘ transform (+1) over range [0,6) reduced with acc*10+x -/
example :
    let e := SExpr.filter .even (.transform (.add 1) (.range 0 6))
    (rootStep (fun _ => ⟨[], .inl none⟩) (Root.init ⟨.reduce, 0, 10, none⟩ e) .start).1.result = some (.value 246) := by
  decide +kernel

/-- the spec of the same pipeline -/
example : (SExpr.filter .even (.transform (.add 1) (.range 0 6))).den (fun _ => ⟨[], .inl none⟩) false = ([2, 4, 6], none) := by
  decide +kernel

/-- pending sources, a stop in the middle, stop_immediately under take_until: the result arrives, once,
    after both sources were cleaned up (Part B instantiated on a run that does exercise it) -/
example :
    let specs : Nat → SrcSpec := fun i =>
      if i = 1 then ⟨[.inl (.value 3), .pend (.value 4) .ignore, .pend (.value 5) .ignore], .pend none⟩
      else ⟨[.pend (.value 0) .ignore], .inl none⟩
    let rt := (runEvents specs (Root.init ⟨.reduce, 0, 10, none⟩ (.takeUntil (.stopImmediately (.src 1)) (.src 2)))
      [.start, .compNext 2, .compNext 1, .compClean 1]).1
    rt.result = some (.value 3) ∧ rt.delivered = [3] ∧
      rt.op.leaves.map (fun p => (p.2.k, p.2.cleanups, p.2.bad)) = [(2, 1, 0), (1, 1, 0)] := by
  decide +kernel

/-- a stop request in the middle truncates: the consumer got [2] out of the specified [2, 4, 6]
    (`stop_ends_early_no_dup_no_invent` instantiated on a run where the truncation does happen) -/
example :
    let specs : Nat → SrcSpec := fun _ => ⟨[.pend (.value 2) .ignore, .pend (.value 4) .completeDone, .pend (.value 6) .ignore], .inl none⟩
    let e := SExpr.filter .even (.stopImmediately (.src 1))
    (runEvents specs (Root.init ⟨.reduce, 0, 10, none⟩ e) [.start, .compNext 1, .stop, .compNext 1]).1.delivered = [2] ∧
      (e.den specs false).1 = [2, 4, 6] := by
  decide +kernel

end Unifex.Props.C13
