/-
  Props/C14_ops.lean — property C14, part 2a: the per-operation state machine of async read / write
  on io_epoll_context (model Proto/EpollOp.lean), configurations WITHOUT cancellation: data before /
  after start, spurious EAGAIN, short count, write into a free / a full pipe, and syscalls failing
  with a real errno (at start, after readiness).
  `good` = `safe` (completes exactly once; the value is the byte count of the successful syscall;
  done only after a stop request; no deadlock) ∧ `clean` (no access to a completed operation, no
  event for it, no epoll registration left at the end) ∧ `errTrue` (a syscall failure with a real
  errno is reported as that errno).
  INSTANCE theorems: each quantifies over every reachable state (= every schedule of every length)
  of one configuration; closure computed and re-checked by the kernel (`decide +kernel`).
  The configurations with cancellation are in Props/C14_cancel.lean and Props/C14_race.lean.
-/
import UnifexModel.Proto.EpollOp

namespace Unifex.Props.C14
open Unifex.Core Unifex.Proto.EpollOp

/-- What `safe`, `clean`, `errTrue` say, spelled out. -/
theorem ops_spelled (cfg : Config) (s : St) (h : (safe cfg s && clean cfg s && errTrue s) = true) :
    -- every operation completes at most once; a value is the byte count transferred by the
    -- operation's successful syscall; done only after a stop request
    (∀ o ∈ s.ops, o.completions ≤ 1 ∧ (o.outcome = 1 → o.sysOk = o.val + 1) ∧ (o.outcome = 2 → o.stopReq = true))
    -- nothing waits forever
    ∧ (((sys cfg).next s).isEmpty = true → final cfg s = true)
    -- at the end every started operation has completed exactly once
    ∧ (final cfg s = true → ∀ i, i < cfg.nOps → started cfg i = true → (getOp s i).completions = 1)
    -- no access to / event for a completed operation; no registration left at the end
    ∧ s.bad = 0 ∧ (final cfg s = true → s.reg = 0)
    -- a syscall failure with a real errno is reported as that errno
    ∧ (∀ o ∈ s.ops, o.sysErr = 0 ∨ o.completions = 0 ∨ (o.outcome = 3 ∧ o.val = o.sysErr)) := by
  simp only [safe, clean, errTrue, Bool.and_eq_true, Bool.or_eq_true, Bool.not_eq_true', beq_iff_eq,
    bne_iff_ne, ne_eq, decide_eq_true_eq, List.all_eq_true, List.mem_range, Bool.not_eq_eq_eq_not,
    Bool.not_true, Bool.not_false] at h
  obtain ⟨⟨⟨⟨h1, h2⟩, h3⟩, h4, h5⟩, h6⟩ := h
  refine ⟨?_, ?_, ?_, h4, ?_, ?_⟩
  · intro o ho
    obtain ⟨⟨a, b⟩, c⟩ := h1 o ho
    refine ⟨a, fun hv => ?_, fun hd => ?_⟩
    · rcases b with b | b
      · exact absurd hv b
      · exact b
    · rcases c with c | c
      · exact absurd hd c
      · exact c
  · intro hd
    rcases h2 with h2 | h2
    · simp [hd] at h2
    · exact h2
  · intro hf i hi hst
    rcases h3 with h3 | h3
    · simp [hf] at h3
    · rcases h3 i hi with h3 | h3
      · simp [hst] at h3
      · exact h3
  · intro hf
    rcases h5 with h5 | h5
    · simp [hf] at h5
    · exact h5
  · intro o ho
    rcases h6 o ho with (h6 | h6) | h6
    · exact Or.inl h6
    · exact Or.inr (Or.inl h6)
    · exact Or.inr (Or.inr h6)

def good (cfg : Config) (s : St) : Bool := safe cfg s && clean cfg s && errTrue s

theorem rd_ready_ok : ∀ s, Reach (sys cfgRdReady) s → good cfgRdReady s = true :=
  safe_of_check _ { coded with M := 127, W := 192 } 400 _ (by decide +kernel)

theorem rd_park_ok : ∀ s, Reach (sys cfgRdPark) s → good cfgRdPark s = true :=
  safe_of_check _ { coded with M := 127, W := 192 } 400 _ (by decide +kernel)

theorem rd_eagain_fault_ok : ∀ s, Reach (sys cfgRdEagainFault) s → good cfgRdEagainFault s = true :=
  safe_of_check _ { coded with M := 127, W := 192 } 400 _ (by decide +kernel)

theorem rd_short_ok : ∀ s, Reach (sys cfgRdShort) s → good cfgRdShort s = true :=
  safe_of_check _ { coded with M := 127 } 400 _ (by decide +kernel)

theorem wr_ready_ok : ∀ s, Reach (sys cfgWrReady) s → good cfgWrReady s = true :=
  safe_of_check _ { coded with M := 127, W := 192 } 400 _ (by decide +kernel)

theorem wr_park_ok : ∀ s, Reach (sys cfgWrPark) s → good cfgWrPark s = true :=
  safe_of_check _ { coded with M := 127, W := 192 } 400 _ (by decide +kernel)

/-- The first readv fails with EIO (errno 5): in every schedule the operation never parks (no stop
    callback is constructed, nothing is registered with epoll) and — `good`, clause `errTrue` and
    the end-state clause of `safe` — completes exactly once, with error 5. -/
theorem rd_error_start_ok : ∀ s, Reach (sys cfgRdErrorStart) s →
    (good cfgRdErrorStart s && s.reg == 0 && (getOp s 0).cb == 0) = true :=
  safe_of_check _ { coded with M := 127, W := 192 } 400 _ (by decide +kernel)

/-- The readv after readiness fails with EIO (errno 5): whenever the operation has completed it has
    completed with error 5 (`errTrue`), exactly once, nothing left behind. -/
theorem rd_error_retry_ok : ∀ s, Reach (sys cfgRdErrorRetry) s → good cfgRdErrorRetry s = true :=
  safe_of_check _ { coded with M := 127, W := 192 } 400 _ (by decide +kernel)

/-- existence of a reachable state, from an explicit schedule checked by the kernel -/
theorem witness (cfg : Config) (cs : List Nat) (p : St → Bool)
    (h : (match runChoices (sys cfg) (sys cfg).init cs with | some (_, s) => p s | none => false) = true) :
    ∃ s, Reach (sys cfg) s ∧ p s = true := by
  cases hr : runChoices (sys cfg) (sys cfg).init cs with
  | none => simp [hr] at h
  | some q =>
    obtain ⟨ls, s⟩ := q
    simp only [hr] at h
    exact ⟨s, runChoices_reach _ _ _ _ _ Reach.init hr, h⟩

/-- non-vacuity: the parked write really parks (EAGAIN, epoll registration) and later completes
    with the 8 bytes after the environment drained the pipe. -/
theorem wr_park_completes : ∃ s, Reach (sys cfgWrPark) s ∧
    (final cfgWrPark s && (getOp s 0).outcome == 1 && (getOp s 0).val == 8 && s.calls == 2) = true :=
  witness cfgWrPark (List.replicate 27 0) _ (by decide +kernel)

/-- non-vacuity: the failing reads do complete, with errno 5. -/
theorem rd_error_start_completes : ∃ s, Reach (sys cfgRdErrorStart) s ∧
    (final cfgRdErrorStart s && (getOp s 0).outcome == 3 && (getOp s 0).val == 5) = true :=
  witness cfgRdErrorStart (List.replicate 16 0) _ (by decide +kernel)

theorem rd_error_retry_completes : ∃ s, Reach (sys cfgRdErrorRetry) s ∧
    (final cfgRdErrorRetry s && (getOp s 0).outcome == 3 && (getOp s 0).val == 5) = true :=
  witness cfgRdErrorRetry (List.replicate 27 0) _ (by decide +kernel)

end Unifex.Props.C14
