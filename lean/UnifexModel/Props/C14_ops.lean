/-
  Props/C14_ops.lean — property C14, part 2a: the per-operation state machine of async read / write
  on io_epoll_context (model Proto/EpollOp.lean), configurations WITHOUT cancellation and without
  injected errno failures.  For these the code delivers everything C14 asks:
  `safe` (completes exactly once; the value is the byte count of the successful syscall; no
  deadlock) ∧ `clean` (no access to a completed operation, no event for it, no epoll registration
  left at the end) ∧ `errTrue`.
  INSTANCE theorems: each quantifies over every reachable state (= every schedule of every length)
  of one configuration; closure computed and re-checked by the kernel (`decide +kernel`).
  The configurations with cancellation / errno failures are in Props/C14_cancel.lean.
-/
import UnifexModel.Proto.EpollOp

namespace Unifex.Props.C14
open Unifex.Core Unifex.Proto.EpollOp

/-- What `safe`, `clean`, `errTrue` say, spelled out. -/
theorem ops_spelled (cfg : Config) (s : St) (h : (safe cfg s && clean cfg s && errTrue s) = true) :
    -- every operation completes at most once; a value is the byte count transferred by the
    -- operation's successful syscall; done only after a stop request
    (∀ o ∈ s.ops, o.completions ≤ 1 ∧ (o.outcome = 1 → o.sysOk = o.val + 1) ∧ (o.outcome = 2 → o.stopReq = true))
    -- nothing waits forever
    ∧ (((sys cfg).next s).isEmpty = true → final cfg s = true)
    -- at the end every started operation has completed exactly once
    ∧ (final cfg s = true → ∀ i, i < cfg.nOps → started cfg i = true → (getOp s i).completions = 1)
    -- no access to / event for a completed operation; no registration left at the end
    ∧ s.bad = 0 ∧ (final cfg s = true → s.reg = 0)
    -- a syscall failure with a real errno is reported as that errno
    ∧ (∀ o ∈ s.ops, o.sysErr = 0 ∨ o.completions = 0 ∨ (o.outcome = 3 ∧ o.val = o.sysErr)) := by
  simp only [safe, clean, errTrue, Bool.and_eq_true, Bool.or_eq_true, Bool.not_eq_true', beq_iff_eq,
    bne_iff_ne, ne_eq, decide_eq_true_eq, List.all_eq_true, List.mem_range, Bool.not_eq_eq_eq_not,
    Bool.not_true, Bool.not_false] at h
  obtain ⟨⟨⟨⟨h1, h2⟩, h3⟩, h4, h5⟩, h6⟩ := h
  refine ⟨?_, ?_, ?_, h4, ?_, ?_⟩
  · intro o ho
    obtain ⟨⟨a, b⟩, c⟩ := h1 o ho
    refine ⟨a, fun hv => ?_, fun hd => ?_⟩
    · rcases b with b | b
      · exact absurd hv b
      · exact b
    · rcases c with c | c
      · exact absurd hd c
      · exact c
  · intro hd
    rcases h2 with h2 | h2
    · simp [hd] at h2
    · exact h2
  · intro hf i hi hst
    rcases h3 with h3 | h3
    · simp [hf] at h3
    · rcases h3 i hi with h3 | h3
      · simp [hst] at h3
      · exact h3
  · intro hf
    rcases h5 with h5 | h5
    · simp [hf] at h5
    · exact h5
  · intro o ho
    rcases h6 o ho with (h6 | h6) | h6
    · exact Or.inl h6
    · exact Or.inr (Or.inl h6)
    · exact Or.inr (Or.inr h6)

def good (cfg : Config) (s : St) : Bool := safe cfg s && clean cfg s && errTrue s

theorem rd_ready_ok : ∀ s, Reach (sys cfgRdReady) s → good cfgRdReady s = true :=
  safe_of_check _ { coded with M := 127, W := 192 } 400 _ (by decide +kernel)

theorem rd_park_ok : ∀ s, Reach (sys cfgRdPark) s → good cfgRdPark s = true :=
  safe_of_check _ { coded with M := 127, W := 192 } 400 _ (by decide +kernel)

theorem rd_eagain_fault_ok : ∀ s, Reach (sys cfgRdEagainFault) s → good cfgRdEagainFault s = true :=
  safe_of_check _ { coded with M := 127, W := 192 } 400 _ (by decide +kernel)

theorem rd_short_ok : ∀ s, Reach (sys cfgRdShort) s → good cfgRdShort s = true :=
  safe_of_check _ { coded with M := 127 } 400 _ (by decide +kernel)

theorem wr_ready_ok : ∀ s, Reach (sys cfgWrReady) s → good cfgWrReady s = true :=
  safe_of_check _ { coded with M := 127, W := 192 } 400 _ (by decide +kernel)

theorem wr_park_ok : ∀ s, Reach (sys cfgWrPark) s → good cfgWrPark s = true :=
  safe_of_check _ { coded with M := 127, W := 192 } 400 _ (by decide +kernel)

/-- non-vacuity: the parked write really parks (EAGAIN, epoll registration) and later completes
    with the 8 bytes after the environment drained the pipe. -/
def wrParkWitness : List Nat := List.replicate 27 0

example : ∃ s, Reach (sys cfgWrPark) s ∧ final cfgWrPark s = true ∧ (getOp s 0).outcome = 1 ∧
    (getOp s 0).val = 8 ∧ s.calls = 2 := by
  have h : (match runChoices (sys cfgWrPark) (sys cfgWrPark).init wrParkWitness with
      | some (_, s) => final cfgWrPark s && decide ((getOp s 0).outcome = 1) && decide ((getOp s 0).val = 8) && decide (s.calls = 2)
      | none => false) = true := by
    decide +kernel
  cases hr : runChoices (sys cfgWrPark) (sys cfgWrPark).init wrParkWitness with
  | none => simp [hr] at h
  | some p =>
    obtain ⟨ls, s⟩ := p
    simp only [hr, Bool.and_eq_true, decide_eq_true_eq] at h
    exact ⟨s, runChoices_reach _ _ _ _ _ Reach.init hr, h.1.1.1, h.1.1.2, h.1.2, h.2⟩

end Unifex.Props.C14
