/-
  Props/C03.lean — property C03: stop-token protocol.
  ONLY property theorems and non-vacuity examples (helper lemmas live with the model).

  Model: Proto/StopSource.lean (atomic steps of inplace_stop_source / inplace_stop_callback).
  Each `*_safe` theorem quantifies over EVERY reachable state of the instance, i.e. every
  schedule of every length of the threads' atomic steps (spin loops are disabled steps).
  The closure is computed and re-checked by Lean's kernel (`decide +kernel`), no native_decide.
-/
import UnifexModel.Proto.StopSource

namespace Unifex.Props.C03
open Unifex.Core Unifex.Proto.StopSource

/-- What `safe` says, spelled out (so the instance theorems can be read without the model file). -/
theorem safe_spelled (cfg : Config) (s : St) (h : safe cfg s = true) :
    -- no use of a freed callback, no invocation after deregistration returned, no deregistration
    -- returning to a foreign thread while the callback is still running
    s.bad = 0
    -- every callback is invoked at most once
    ∧ (∀ c ∈ s.cbs, c.runs ≤ 1)
    -- at most one request_stop() observes that it was the first
    ∧ s.firsts ≤ 1
    -- no deadlock (covers deregistration from inside the callback and all spin-waits)
    ∧ (((sys cfg).next s).isEmpty = true → final cfg s = true)
    -- at the end: invoked exactly once iff stop was requested while registered and the
    -- deregistration did not win the race for the list; exactly one first requester
    ∧ (final cfg s = true →
        (∀ c ∈ s.cbs, (decide (c.runs = 1) == (c.sawStop && !c.unlinked)) = true) ∧
        (s.stopsEnded = 0 ∨ s.firsts = 1)) := by
  unfold safe at h
  simp only [Bool.and_eq_true, decide_eq_true_eq, List.all_eq_true, Bool.or_eq_true,
    Bool.not_eq_true'] at h
  obtain ⟨⟨⟨⟨h1, h2⟩, h3⟩, h4⟩, h5⟩ := h
  refine ⟨h1, h2, h3, ?_, ?_⟩
  · intro hd
    rcases h4 with h4 | h4
    · simp [hd] at h4
    · exact h4
  · intro hf
    rcases h5 with h5 | h5
    · simp [hf] at h5
    · exact ⟨h5.1, h5.2⟩

theorem race_safe : ∀ s, Reach (sys cfgRace) s → safe cfgRace s = true :=
  safe_of_check _ { coded with M := 509 } 400 _ (by decide +kernel)

theorem two_stops_safe : ∀ s, Reach (sys cfgTwoStops) s → safe cfgTwoStops s = true :=
  safe_of_check _ { coded with M := 1021 } 400 _ (by decide +kernel)

theorem self_dereg_safe : ∀ s, Reach (sys cfgSelfDereg) s → safe cfgSelfDereg s = true :=
  safe_of_check _ { coded with M := 251 } 400 _ (by decide +kernel)

theorem dereg_other_safe : ∀ s, Reach (sys cfgDeregOther) s → safe cfgDeregOther s = true :=
  safe_of_check _ { coded with M := 751 } 400 _ (by decide +kernel)

theorem reg_after_stop_safe : ∀ s, Reach (sys cfgRegAfterStop) s → safe cfgRegAfterStop s = true :=
  safe_of_check _ { coded with M := 509 } 400 _ (by decide +kernel)

/-- non-vacuity: in the race instance a final state is reachable in which the callback really ran
    (so `safe` is not true merely because nothing happens).  The witness is an explicit schedule. -/
def raceWitness : List Nat := [0, 0, 0, 0, 0, 0, 0, 1, 1, 0, 0, 0, 0, 0, 0, 0, 0, 0, 0, 0, 0, 0, 0, 0, 0, 0, 0]

example : ∃ s, Reach (sys cfgRace) s ∧ (getCb s 0).runs = 1 ∧ final cfgRace s = true := by
  have h : (match runChoices (sys cfgRace) (sys cfgRace).init raceWitness with
      | some (_, s) => decide ((getCb s 0).runs = 1) && final cfgRace s | none => false) = true := by
    decide +kernel
  cases hr : runChoices (sys cfgRace) (sys cfgRace).init raceWitness with
  | none => simp [hr] at h
  | some p =>
    obtain ⟨ls, s⟩ := p
    simp only [hr, Bool.and_eq_true, decide_eq_true_eq] at h
    exact ⟨s, runChoices_reach _ _ _ _ _ Reach.init hr, h.1, h.2⟩

end Unifex.Props.C03
