/-
  Props/C15_v2c.lean — property C15, v2 async_mutex, part c: FIFO with three waiters; the
  uncontended path of start() with a stop request (inline scheduler).
  ONLY property theorems; model: Proto/MutexV2.lean; `safeFull` is spelled out in C15_v2a.
-/
import UnifexModel.Proto.MutexV2

namespace Unifex.Props.C15
open Unifex.Core Unifex.Proto.MutexV2

/-- three waiters (two threads, racing arrival order) behind a holder; in particular FIFO:
    set_value order = push_back order -/
theorem v2_fifo3_safe : ∀ s, Reach (sys cfgFifo3) s → safeFull cfgFifo3 s = true :=
  safe_of_check _ { coded with M := 643, W := 360 } 400 _ (by decide +kernel)

/-- uncontended start() with a stop request at ANY time, inline scheduler: unconditional -/
theorem v2_inline_stop_safe : ∀ s, Reach (sys cfgInlineStop) s → safeFull cfgInlineStop s = true :=
  safe_of_check _ { coded with M := 277, W := 192 } 400 _ (by decide +kernel)

end Unifex.Props.C15
