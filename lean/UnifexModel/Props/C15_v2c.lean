/-
  Props/C15_v2c.lean — property C15, v2 async_mutex, part c: FIFO with three waiters; the
  uncontended path of start() with a stop request (inline scheduler).
  ONLY property theorems; model: Proto/MutexV2.lean; `safe` is spelled out in
  C15_v2a.v2_safe_spelled.
-/
import UnifexModel.Proto.MutexV2

namespace Unifex.Props.C15
open Unifex.Core Unifex.Proto.MutexV2

/-- three waiters (two threads, racing arrival order) behind a holder: full property, in
    particular FIFO: set_value order = push_back order -/
theorem v2_fifo3_safe : ∀ s, Reach (sys cfgFifo3) s → (safe cfgFifo3 s && noHazard s) = true :=
  safe_of_check _ { coded with M := 643, W := 360 } 400 _ (by decide +kernel)

/-- uncontended start() with a stop request at any time, inline scheduler -/
theorem v2_inline_stop_safe_partial : ∀ s, Reach (sys cfgInlineStop) s → safe cfgInlineStop s = true :=
  safe_of_check _ { coded with M := 227, W := 192 } 400 _ (by decide +kernel)

end Unifex.Props.C15
