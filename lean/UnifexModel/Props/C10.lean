/-
  Props/C10.lean — property C10: coroutine tasks map sender results faithfully and always run their
  cleanup.  ONLY property theorems + non-vacuity examples.

  Model: the coroutine machine `Calc/Coro.lean` (programs are data; `step` = one internal transition,
  `deliver` = one external event to quiescence), spec `evalProg`.  Helper lemmas: Calc/CoroLemmas
  (run = iterated step, termination measure), Calc/CoroSim (simulation of the spec), Calc/CoroInv (THE
  invariant, preserved by every step and every event).

  Quantification: every theorem below is for ALL programs (any nesting depth, any number of awaits and
  cleanups), all leaf scripts and — where it says `runEvents` — ALL sequences of external events
  (start, stop, scheduler runs, leaf completions with any outcome, in any order, including nonsense
  events).  `task_as_sender_outcome` is for programs whose awaits complete inline (`progInline`).

  Not covered by theorems (stated gaps): `co_await schedule(s)` rescheduling; a task connected as a
  sender INSIDE another task (e.g. under done_as_optional / let_done: only the root connection is
  modelled); the generic awaitable⇄sender round trip of connect_awaitable/as_sender for arbitrary
  awaitables (exercised here only with task<> and manual senders).
-/
import UnifexModel.Calc.CoroTok

namespace Unifex.Props.C10
open Unifex.Coro
open Unifex.Calc (Outcome)

variable (specs : Nat → LeafSpec)

/-! ### 1. co_await: value / error / done -/

/-- `co_await` of a sender that completes with a value inside start(): the coroutine continues with the next
    statement, having received exactly that value (a non-affine sender first makes its `schedule()` on
    the task's scheduler, which — inline scheduler — completes at once) -/
theorem await_value (s : St) (fr : Frame) (rest : List Frame) (i v : Nat) (t : Bool) (k : Prog) (a : Bool)
    (hc : s.ctl = .exec) (hf : s.frames = fr :: rest) (hk : fr.kont = .await i t :: k)
    (hs : specs i = ⟨.inline (.value v), a⟩) (hh : a = true ∨ s.inlineSched = true) :
    iter specs 2 s =
      { s with frames := { fr with kont := k, catching := t, acc := fr.acc + v } :: rest, ctl := .exec,
               outs := s.outs ++ (if a then [.leafStart i s.srcStopped] else [.leafStart i s.srcStopped, .sched fr.sched]) } := by
  have h1 : step specs s = { s with frames := { fr with kont := k, catching := t } :: rest, ctl := .resume (.value v), outs := s.outs ++ (if a then [.leafStart i s.srcStopped] else [.leafStart i s.srcStopped, .sched fr.sched]) } := by
    cases a
    · have hi : s.inlineSched = true := by simpa using hh
      simp [step, hc, hf, execStep, hk, hs, leafDone, schedHop, hi, emit]
    · simp [step, hc, hf, execStep, hk, hs, leafDone, emit]
  show iter specs 1 (step specs s) = _
  rw [h1]
  simp [iter, step, resumeStep]

/-- the value arrives the same way when the sender completes later (any external completion event):
    the coroutine that is resumed with a value adds it and goes on -/
theorem resumed_with_value (s : St) (fr : Frame) (rest : List Frame) (v : Nat)
    (hc : s.ctl = .resume (.value v)) (hf : s.frames = fr :: rest) :
    step specs s = { s with frames := { fr with acc := fr.acc + v } :: rest, ctl := .exec } := by
  simp [step, hc, hf, resumeStep]

/-- `co_await` of a sender that completes with an error: `await_resume` rethrows it INSIDE the coroutine.
    Inside a try block the handler runs and the body goes on; otherwise the body is over: its locals
    are destroyed and the coroutine exits with that exception (its cleanups run next, then its awaiter
    gets the exception: `exit_runs_cleanups_then_awaiter`). -/
theorem await_error_rethrows (s : St) (fr : Frame) (rest : List Frame) (e : Nat)
    (hc : s.ctl = .resume (.error e)) (hf : s.frames = fr :: rest) :
    step specs s =
      (if fr.catching then { s with frames := { fr with acc := fr.acc + catchVal e } :: rest, ctl := .exec }
       else { s with frames := { fr with live := false } :: rest, ctl := .exit (.error e),
                     outs := s.outs ++ [.localsDead fr.id] }) := by
  by_cases ht : fr.catching = true <;> simp [step, hc, hf, resumeStep, ht, beginExit, emit]

/-- `co_await` of a sender that completes with done: the coroutine is NOT resumed — no handler runs even
    inside a try block, its locals stay alive (no `localsDead`), nothing is observable in this step; it is
    now unwinding as cancelled (`.exit .done`: its cleanups run, then its awaiter's done continuation) -/
theorem await_done_unwinds (s : St) (fr : Frame) (rest : List Frame)
    (hc : s.ctl = .resume .done) (hf : s.frames = fr :: rest) :
    step specs s = { s with ctl := .exit .done } := by
  simp [step, hc, hf, resumeStep]

/-- … and the cancellation goes through ALL awaiting parents to the receiver: from a coroutine unwinding as
    cancelled, with synchronous cleanups, the machine reaches `finished`, the receiver gets exactly one more
    signal, `done`, after the cleanups of every frame on the stack, innermost frame first, each frame's
    cleanups most-recently-registered first — whatever `catching` says. -/
theorem done_unwinds_to_receiver : ∀ (fs : List Frame) (s : St), s.ctl = .exit .done → s.frames = fs →
    (∀ f ∈ fs, cleanupsSync specs f.cleanups = true) → s.stopOp = false →
    ∃ m, (iter specs m s).ctl = .finished ∧
      rootTrace (iter specs m s).outs = rootTrace s.outs ++ [.done] ∧
      cleanupTrace (iter specs m s).outs = cleanupTrace s.outs ++ fs.flatMap (fun f => f.cleanups.map Prod.fst) := by
  intro fs
  induction fs with
  | nil =>
    intro s hc hf _ hso
    obtain ⟨r1, r2, r3⟩ := root_step specs s .done (by simpa [exitCtl] using hc) hf hso
    exact ⟨1, r1, r2, by simpa [iter] using r3⟩
  | cons fr rest ih =>
    intro s hc hf hsync hso
    obtain ⟨m1, hE⟩ := exit_sim specs .done fr.cleanups s fr rest hc hf rfl (hsync fr List.mem_cons_self)
    obtain ⟨m2, h2⟩ := ih (iter specs m1 s) hE.ctl hE.frames (fun f hfm => hsync f (List.mem_cons_of_mem _ hfm))
      (by rw [hE.stopOp]; exact hso)
    refine ⟨m1 + m2, ?_⟩
    rw [iter_add]
    refine ⟨h2.1, ?_, ?_⟩
    · rw [h2.2.1, hE.root]
    · rw [h2.2.2, hE.ran]; simp

/-! ### 2. a task awaited as a sender -/

/-- **A task connected to a receiver and started, whose awaits all complete inside start(), completes
    the receiver inside start() with exactly the outcome of the denotational spec `evalProg`** — its
    co_return value as set_value, its escaped exception as set_error, done as set_done — **after exactly
    the spec's cleanup actions in the spec's order** (children before parents, each frame's own cleanups
    in reverse registration order).  For every program, every leaf script, both scheduler modes. -/
theorem task_as_sender_outcome (p : Prog) (inl st ad : Bool) (hI : progInline specs inl p = true) :
    let s := deliver specs .start (St.init p inl st ad)
    s.ctl = .finished ∧ rootTrace s.outs = [(evalProg specs false p).1] ∧
      cleanupTrace s.outs = (evalProg specs false p).2 := by
  intro s
  have hs : s = onStart specs { St.init p inl st ad with rootStopped := false } := by
    show deliver specs .start (St.init p inl st ad) = _
    simp [deliver, St.init]
  rw [hs]
  exact start_inline specs p inl st ad false (Or.inl rfl) hI

/-- the same when stop was requested before start() (inline scheduler): `stop_if_requested` then cancels -/
theorem task_as_sender_outcome_stopped (p : Prog) (hI : progInline specs true p = true) :
    let s := runEvents specs (St.init p true) [.stop, .start]
    s.ctl = .finished ∧ rootTrace s.outs = [(evalProg specs true p).1] ∧
      cleanupTrace s.outs = (evalProg specs true p).2 := by
  intro s
  have hs : s = onStart specs { St.init p true with rootStopped := true } := by
    show runEvents specs (St.init p true) [.stop, .start] = _
    simp [runEvents, deliver, onStop, St.init, Ctl.callbackRegistered]
  rw [hs]
  exact start_inline specs p true true false true (Or.inr rfl) hI

/-- what the spec says about the three ways a body ends and about cleanups (readable without the model) -/
theorem evalProg_examples :
    evalProg specs false [.ret 5] = (.value 5, []) ∧
    evalProg specs false [.atExit 1 0, .atExit 2 0, .throw_ 7] = (.error 7, [2, 1]) ∧
    evalProg specs true [.atExit 1 0, .awaitTask [.atExit 2 0, .stopIfRequested] true, .ret 1] = (.done, [2, 1]) ∧
    evalProg specs false [.atExit 1 0, .awaitTask [.atExit 2 0, .throw_ 3] true, .ret 1] = (.value 104, [2, 1]) := by
  refine ⟨?_, ?_, ?_, ?_⟩ <;> simp [evalProg, evalFrame, evalStmt, absorb, catchVal]

/-! ### 3. cleanups: exactly once, reverse registration order, before the awaiter observes the result -/

/-- registration puts the cleanup in FRONT of the frame's list (most recent first) -/
theorem registration_is_lifo (s : St) (fr : Frame) (rest : List Frame) (a l : Nat) (k : Prog)
    (hc : s.ctl = .exec) (hf : s.frames = fr :: rest) (hk : fr.kont = .atExit a l :: k) :
    step specs s =
      { s with frames := { fr with kont := k, cleanups := (a, ckOf l, fr.sched) :: fr.cleanups, regd := a :: fr.regd } :: rest,
               outs := s.outs ++ [.reg fr.id a] } := by
  simp [step, hc, hf, execStep, hk, emit]

/-- EXIT ORDER.  When the body of the top frame is over with outcome `o` (co_return value, escaped
    exception, or cancelled), its registered cleanups (synchronous ones) run one after the other, most
    recently registered first, and only THEN is the frame popped and its awaiter told `o` (`exitCtl o`:
    resumed with the value / exception, or its done continuation) — nothing else changes in between. -/
theorem exit_runs_cleanups_then_awaiter (o : Outcome) (s : St) (fr : Frame) (rest : List Frame)
    (hc : s.ctl = .exit o) (hf : s.frames = fr :: rest) (hsync : cleanupsSync specs fr.cleanups = true) :
    ∃ m, Exited (iter specs m s) rest o (cleanupTrace s.outs ++ fr.cleanups.map Prod.fst)
      s.srcStopped s.inlineSched s.stopOp (rootTrace s.outs) :=
  exit_sim specs o fr.cleanups s fr rest hc hf rfl hsync

/-- a frame is popped (its awaiter can observe the result) only when no registered cleanup is left -/
theorem popped_only_after_cleanups (s : St) (fr : Frame) (rest : List Frame) (o : Outcome)
    (hc : s.ctl = .exit o) (hf : s.frames = fr :: rest) (hp : (step specs s).frames = rest) :
    fr.cleanups = [] := by
  cases hcs : fr.cleanups with
  | nil => rfl
  | cons c cs =>
    exfalso
    obtain ⟨a, ck, q⟩ := c
    have : (step specs s).frames.length = rest.length + 1 := by
      simp only [step, hc, hf, exitStep, hcs]
      split <;> (try split) <;> simp [emit]
    rw [hp] at this
    omega

/-- INVARIANT for every program and every sequence of external events: in every reachable state, every
    frame that has been exited (destroyed, or cancelled and waiting to be destroyed) has NO cleanup left,
    the cleanups that ran are exactly the registered ones most-recent-first — and that is what the
    observable trace says: its `cleanup f _` items are the reverse of its `reg f _` items.  When the
    receiver has been completed, no frame is left on the stack (so all of them satisfy this). -/
theorem cleanups_run_once_reverse_order_before_parent (p : Prog) (inl st ad : Bool) (evs : List Ev)
    (hev : ∀ ev ∈ evs, ev ≠ .destroy) :
    let s := runEvents specs (St.init p inl st ad) evs
    (∀ f ∈ s.zombies ++ s.gone,
        f.cleanups = [] ∧ f.ran = f.regd ∧
        cleanupTraceOf f.id s.outs = (regTrace f.id s.outs).reverse) ∧
    (∀ f ∈ s.frames, f.ran ++ f.cleanups.map Prod.fst = f.regd ∧
        cleanupTraceOf f.id s.outs = f.ran ∧ (regTrace f.id s.outs).reverse = f.regd) ∧
    (s.ctl = .finished → s.frames = []) ∧
    (rootTrace s.outs).length = (if s.ctl = .finished then 1 else 0) := by
  intro s
  have h : Inv s := (Inv.init p inl st ad).runEvents specs evs hev
  refine ⟨?_, ?_, ?_, h.roots⟩
  · intro f hfm
    obtain ⟨h1, h2⟩ := h.retired f hfm
    have hk : cleanupTraceOf f.id s.outs = f.ran ∧ regTrace f.id s.outs = f.regd.reverse := by
      rcases List.mem_append.mp hfm with e | e
      · have := h.okLive f (by simp [e]); exact ⟨this.cl, this.reg⟩
      · have := h.okGone f e; exact ⟨this.cl, this.reg⟩
    refine ⟨h1, h2, ?_⟩
    rw [hk.1, hk.2, h2]; simp
  · intro f hfm
    have := h.okLive f (by simp [hfm])
    refine ⟨h.hist f hfm, this.cl, ?_⟩
    rw [this.reg]; simp
  · intro hc; exact h.fin (by rw [hc]; rfl)

/-! ### 4. every coroutine frame is destroyed exactly once -/

/-- during any run: no frame is destroyed twice, a frame on the stack or cancelled has not been destroyed,
    frame ids are never reused -/
theorem frames_destroyed_at_most_once (p : Prog) (inl st ad : Bool) (evs : List Ev) (hev : ∀ ev ∈ evs, ev ≠ .destroy) :
    let s := runEvents specs (St.init p inl st ad) evs
    (∀ f ∈ s.frames ++ s.zombies, deadCount f.id s.outs = 0) ∧
    (∀ f ∈ s.gone, deadCount f.id s.outs = 1) ∧
    ((s.frames ++ (s.zombies ++ s.gone)).map (·.id)).Nodup ∧
    (s.frames ++ (s.zombies ++ s.gone)).length = s.nextId := by
  intro s
  have h : Inv s := (Inv.init p inl st ad).runEvents specs evs hev
  exact ⟨fun f hf => (h.okLive f hf).dead, fun f hf => (h.okGone f hf).dead, h.nodup, h.count⟩

/-- **At the end** (any program, any events, the receiver has been completed, then the operation state is
    destroyed): every frame that was ever created (`nextId` of them, distinct ids) has been destroyed, the
    trace contains its `frameDead` EXACTLY ONCE, and the cleanups it registered each ran exactly once, in
    reverse registration order. -/
theorem frames_destroyed_once (p : Prog) (inl st ad : Bool) (evs : List Ev) (hev : ∀ ev ∈ evs, ev ≠ .destroy)
    (hfin : (runEvents specs (St.init p inl st ad) evs).ctl = .finished) :
    let s := deliver specs .destroy (runEvents specs (St.init p inl st ad) evs)
    s.frames = [] ∧ s.zombies = [] ∧ s.gone.length = s.nextId ∧ (s.gone.map (·.id)).Nodup ∧
    ∀ f ∈ s.gone, f.id < s.nextId ∧ deadCount f.id s.outs = 1 ∧
      cleanupTraceOf f.id s.outs = (regTrace f.id s.outs).reverse := by
  have h0 : Inv (runEvents specs (St.init p inl st ad) evs) := (Inv.init p inl st ad).runEvents specs evs hev
  generalize runEvents specs (St.init p inl st ad) evs = s0 at hfin h0 ⊢
  intro s
  have h : Inv s0 := h0
  have hfr : s0.frames = [] := h.fin (by rw [hfin]; rfl)
  obtain ⟨d1, d2, d3, _, d5, d6, _, d8⟩ := destroyFrames_spec s0.zombies { s0 with frames := [], zombies := [] }
  obtain ⟨sd, hsd⟩ : ∃ sd, sd = destroyFrames { s0 with frames := [], zombies := [] } s0.zombies := ⟨_, rfl⟩
  rw [← hsd] at d1 d2 d3 d5 d6 d8
  have hs : s = if s0.adapter then emit { sd with tokRegs := 0 } (.tokRegs 0) else { sd with tokRegs := 0 } := by
    show deliver specs .destroy s0 = _
    rw [hsd]
    simp [deliver, onDestroy, hfin, hfr]
  have e1 : s.frames = sd.frames := by rw [hs]; split <;> rfl
  have e2 : s.zombies = sd.zombies := by rw [hs]; split <;> rfl
  have e3 : s.nextId = sd.nextId := by rw [hs]; split <;> rfl
  have e5 : s.gone = sd.gone := by rw [hs]; split <;> rfl
  have e6 : deadTrace s.outs = deadTrace sd.outs := by rw [hs]; split <;> simp [emit, deadTrace]
  have e8 : ∀ g, regTrace g s.outs = regTrace g sd.outs ∧ cleanupTraceOf g s.outs = cleanupTraceOf g sd.outs := by
    intro g; rw [hs]; split <;> simp [emit, regTrace, cleanupTraceOf]
  rw [← e1] at d1; rw [← e2] at d2; rw [← e3] at d3; rw [← e5] at d5; rw [← e6] at d6
  have d8 : ∀ g, regTrace g s.outs = regTrace g s0.outs ∧ cleanupTraceOf g s.outs = cleanupTraceOf g s0.outs := by
    intro g; rw [(e8 g).1, (e8 g).2]; exact d8 g
  have hnd := h.nodup
  simp only [St.all, hfr, List.nil_append, List.map_append, List.nodup_append] at hnd
  obtain ⟨ndz, ndg, hdis⟩ := hnd
  have hcount := h.count
  simp only [St.all, hfr, List.nil_append, List.length_append] at hcount
  refine ⟨d1, d2, ?_, ?_, ?_⟩
  · rw [d5, d3]; simp; omega
  · rw [d5]
    simp only [List.map_append, List.map_map, List.nodup_append]
    refine ⟨ndg, by simpa [Function.comp_def] using ndz, ?_⟩
    intro a ha b hb
    simp only [Function.comp_def, List.mem_map] at hb
    obtain ⟨z, hz, hzb⟩ := hb
    exact fun e => hdis b (List.mem_map.mpr ⟨z, hz, hzb⟩) a ha e.symm
  · intro f hfm
    rw [d5] at hfm
    have hdc : ∀ g, deadCount g s.outs = deadCount g s0.outs + (s0.zombies.map (·.id)).count g := by
      intro g; simp [deadCount, d6, List.count_append]
    rcases List.mem_append.mp hfm with e | e
    · have hk := h.okGone f e
      have hlt := h.ids_lt f (by simp [St.all, e])
      have hnz : f.id ∉ s0.zombies.map (·.id) := fun hm => hdis f.id hm f.id (List.mem_map_of_mem e) rfl
      obtain ⟨_, hr2⟩ := h.retired f (by simp [e])
      refine ⟨by rw [d3]; exact hlt, ?_, ?_⟩
      · rw [hdc, hk.dead, List.count_eq_zero_of_not_mem hnz]
      · rw [(d8 f.id).1, (d8 f.id).2, hk.cl, hk.reg, hr2]; simp
    · obtain ⟨z, hz, hzf⟩ := List.mem_map.mp e
      have hk := h.okLive z (by simp [hz])
      have hlt := h.ids_lt z (by simp [St.all, hz])
      obtain ⟨_, hr2⟩ := h.retired z (by simp [hz])
      have hid : f.id = z.id := by rw [← hzf]
      have hmem : z.id ∈ s0.zombies.map (·.id) := List.mem_map_of_mem hz
      refine ⟨by rw [d3, hid]; exact hlt, ?_, ?_⟩
      · rw [hid, hdc, hk.dead, ndz.count]; simp [hmem]
      · rw [hid, (d8 z.id).1, (d8 z.id).2, hk.cl, hk.reg, hr2]; simp

/-! ### 5. stop requests -/

/-- inline scheduler: a stop request on the receiver's token, while the innermost task is suspended in
    `co_await` of leaf `i`, reaches that leaf within the same event: the thunk's stop callback starts its
    `schedule()` on the receiver's scheduler (`sched 0`) and `leafStop i` is the next observation -/
theorem stop_reaches_current_await (s : St) (i : Nat) (hc : s.ctl = .waitLeaf i) (hst : s.stoppable = true)
    (hns : s.rootStopped = false) (hin : s.inlineSched = true) :
    (s.outs ++ [.sched 0, .leafStop i]) <+: (deliver specs .stop s).outs := by
  have h1 : (deliver specs .stop s) =
      stopOpDone (settle specs (deliverStop specs (emit { s with rootStopped := true, stopOp := true } (.sched 0)))) := by
    simp [deliver, onStop, hns, hc, Ctl.callbackRegistered, hin, hst]
  have h2 := deliverStop_waitLeaf_prefix specs (emit { s with rootStopped := true, stopOp := true } (.sched 0)) i hc
  rw [h1]
  have h3 : (emit { s with rootStopped := true, stopOp := true } (.sched 0)).outs ++ [Out.leafStop i]
      = s.outs ++ [.sched 0, .leafStop i] := by simp [emit]
  rw [h3] at h2
  exact (h2.trans (settle_outs_prefix specs _)).trans (stopOpDone_outs_prefix _)

/-- manual scheduler: the stop request is NOT delivered on the requesting context; it is queued on the
    task's scheduler (only the start of that `schedule()` is observable, the task still waits), and when
    the scheduler runs it the leaf is notified — task.hpp `inject_stop_request_thunk` -/
theorem stop_reaches_current_await_via_scheduler (s : St) (i : Nat) (hc : s.ctl = .waitLeaf i)
    (hst : s.stoppable = true) (hns : s.rootStopped = false) (hin : s.inlineSched = false) (hq : s.queue = []) :
    let s1 := deliver specs .stop s
    s1.outs = s.outs ++ [.sched 0] ∧ s1.ctl = .waitLeaf i ∧ s1.queue = [.stopReq] ∧
    (s.outs ++ [.sched 0, .leafStop i]) <+: (deliver specs .run s1).outs := by
  intro s1
  have h1 : s1 = { s with rootStopped := true, stopOp := true, queue := [.stopReq], outs := s.outs ++ [.sched 0] } := by
    show deliver specs .stop s = _
    simp [deliver, onStop, hns, hc, Ctl.callbackRegistered, hin, hq, hst, emit]
  refine ⟨by rw [h1], by rw [h1]; exact hc, by rw [h1], ?_⟩
  have h2 : deliver specs .run s1 =
      stopOpDone (settle specs (deliverStop specs { s with rootStopped := true, stopOp := true, queue := [], outs := s.outs ++ [.sched 0] })) := by
    rw [h1]; simp [deliver, onRun]
  have h3 := deliverStop_waitLeaf_prefix specs { s with rootStopped := true, stopOp := true, queue := [], outs := s.outs ++ [.sched 0] } i hc
  rw [h2]
  have h4 : ({ s with rootStopped := true, stopOp := true, queue := [], outs := s.outs ++ [.sched 0] } : St).outs ++ [Out.leafStop i]
      = s.outs ++ [.sched 0, .leafStop i] := by simp
  rw [h4] at h3
  exact (h3.trans (settle_outs_prefix specs _)).trans (stopOpDone_outs_prefix _)

/-- a receiver without a stop token: stop events do nothing at all (task.hpp connects without the thunk) -/
theorem unstoppable_receiver_ignores_stop (s : St) (hst : s.stoppable = false) : deliver specs .stop s = s := by
  simp [deliver, onStop, hst]

/-- a cleanup action is never told about the stop request (it sees an unstoppable token) -/
theorem stop_does_not_reach_cleanup (s : St) (i : Nat) (o : Outcome) (hc : s.ctl = .waitCleanup i o)
    (hst : s.stoppable = true) (hns : s.rootStopped = false) (hin : s.inlineSched = true) :
    (deliver specs .stop s).outs = s.outs ++ [.sched 0] ∧ (deliver specs .stop s).ctl = .waitCleanup i o := by
  cases s
  simp only [] at hc hns hin hst
  subst hc hns hin hst
  simp only [deliver, onStop, Ctl.callbackRegistered, deliverStop, emit]
  simp only [Bool.false_eq_true, if_false, Bool.not_true, if_true, Bool.or_self]
  rw [settle_of_halted]
  · simp [stopOpDone]
  · rfl

/-- the receiver is completed at most once, over any run -/
theorem root_completed_at_most_once (p : Prog) (inl st ad : Bool) (evs : List Ev) (hev : ∀ ev ∈ evs, ev ≠ .destroy) :
    (rootTrace (runEvents specs (St.init p inl st ad) evs).outs).length ≤ 1 := by
  have h : Inv (runEvents specs (St.init p inl st ad) evs) := (Inv.init p inl st ad).runEvents specs evs hev
  rw [h.roots]; split <;> omega

/-- the evaluator never runs out of fuel: `settle` always ends in a quiescent state -/
theorem settle_quiescent (s : St) : (settle specs s).halted = true := settle_halted specs s

/-! ### 7. both routes of stop_if_requested(), plain awaitables, nothing left on the receiver's stop token -/

/-- `stop_if_requested()` awaited directly (its awaiter) and composed with a sender algorithm first (its
    operation state: `co_await then(stop_if_requested(), f)`) do the same thing: the coroutine goes on —
    nothing observable — unless stop has been REQUESTED on the task's stop token, in which case it unwinds
    as cancelled.  Whether the token merely CAN be stopped (`stoppable`) plays no role. -/
theorem stop_if_requested_routes_agree (s : St) (fr : Frame) (rest : List Frame) (k : Prog) (viaSender : Bool)
    (hc : s.ctl = .exec) (hf : s.frames = fr :: rest)
    (hk : fr.kont = (if viaSender then Stmt.stopIfRequestedS else Stmt.stopIfRequested) :: k) :
    step specs s =
      (if s.srcStopped then { s with frames := { fr with kont := k } :: rest, ctl := .exit .done }
       else { s with frames := { fr with kont := k } :: rest }) := by
  cases viaSender <;> simp at hk <;> simp [step, hc, hf, execStep, hk]

/-- `co_await` of a plain awaitable (not a sender) that is ready or whose `await_suspend` says "not
    suspending after all": the coroutine continues inline with its value (inline scheduler: the hop that
    `with_scheduler_affinity` adds completes at once) -/
theorem await_plain_no_suspend (s : St) (fr : Frame) (rest : List Frame) (i v : Nat) (t : Bool) (k : Prog) (a : Bool)
    (hc : s.ctl = .exec) (hf : s.frames = fr :: rest) (hk : fr.kont = .awaitPlain i t :: k)
    (hs : specs i = ⟨.inline (.value v), a⟩) (hh : s.inlineSched = true) :
    iter specs 2 s =
      { s with frames := { fr with kont := k, catching := t, acc := fr.acc + v } :: rest, ctl := .exec,
               outs := s.outs ++ [.plainStart i, .sched fr.sched] } := by
  have h1 : step specs s = { s with frames := { fr with kont := k, catching := t } :: rest, ctl := .resume (.value v), outs := s.outs ++ [.plainStart i, .sched fr.sched] } := by
    simp [step, hc, hf, execStep, hk, hs, leafDone, schedHop, hh, emit, plainOutcome]
  show iter specs 1 (step specs s) = _
  rw [h1]
  simp [iter, step, resumeStep]

/-- a suspended plain awaitable cannot see a stop request (it has no receiver, hence no stop token) -/
theorem stop_does_not_reach_plain_awaitable (s : St) (i : Nat) (hc : s.ctl = .waitPlain i)
    (hst : s.stoppable = true) (hns : s.rootStopped = false) (hin : s.inlineSched = true) :
    (deliver specs .stop s).outs = s.outs ++ [.sched 0] ∧ (deliver specs .stop s).ctl = .waitPlain i := by
  cases s
  simp only [] at hc hns hin hst
  subst hc hns hin hst
  simp only [deliver, onStop, Ctl.callbackRegistered, deliverStop, emit]
  simp only [Bool.false_eq_true, if_false, Bool.not_true, if_true, Bool.or_self]
  rw [settle_of_halted]
  · simp [stopOpDone]
  · rfl

/-- NOTHING IS LEFT BEHIND on the receiver's stop token (any program, any receiver kind, any events): at most
    one stop callback is ever registered there on behalf of the task (the thunk's, or the adapter's for a
    foreign token type); when the receiver has been completed with a VALUE or an EXCEPTION none is registered
    any more; after a `done` completion only the adapter may still be, and once the operation state has been
    destroyed none is. -/
theorem nothing_left_on_receiver_stop_token (p : Prog) (inl st ad : Bool) (evs : List Ev)
    (hev : ∀ ev ∈ evs, ev ≠ .destroy) :
    let s := runEvents specs (St.init p inl st ad) evs
    s.tokRegs ≤ 1 ∧
    (∀ o, s.ctl = .finished → rootTrace s.outs = [o] → o ≠ .done → s.tokRegs = 0) ∧
    (s.ctl = .idle → s.tokRegs = 0) ∧
    (s.ctl = .finished ∨ s.ctl = .idle → (deliver specs .destroy s).tokRegs = 0) := by
  intro s
  have h : Inv s := (Inv.init p inl st ad).runEvents specs evs hev
  have t : TokInv s := (TokInv.init p inl st ad).runEvents specs (Inv.init p inl st ad) evs hev
  refine ⟨t.le, ?_, t.idle, ?_⟩
  · intro o _ hr ho
    rcases t.fin (by rw [hr]; simp) with h0 | ⟨_, hd⟩
    · exact h0
    · rw [hr] at hd; cases hd; exact absurd rfl ho
  · intro hc
    simp only [deliver, onDestroy, hc, if_true]
    split <;> rfl

/-! ### 6. non-vacuity: concrete runs (kernel-evaluated) that exercise the interesting paths; the same
    cases are in corpus/coro/c10.txt and are replayed on the real library by every check run -/

/-- two frames with cleanups; the inner task is suspended on a leaf that completes with done when it is
    told to stop; `stop` arrives: the thunk schedules the request (`sched 0`), the leaf is notified, its
    result hops through the task's scheduler, frame 1's cleanups run (3 before 2), then frame 0's, then the
    receiver gets done; the frames are destroyed (inner first) only with the operation -/
example :
    (runEvents (fun _ => ⟨.pending (some .done), false⟩)
      (St.init [.atExit 1 0, .awaitTask [.atExit 2 0, .atExit 3 0, .await 1 false, .ret 1] false, .atExit 4 0, .ret 5] true)
      [.start, .stop, .destroy]).outs =
    [.frameStart 0, .reg 0 1, .frameStart 1, .reg 1 2, .reg 1 3, .leafStart 1 false,
     .sched 0, .leafStop 1, .sched 0, .cleanup 1 3, .cleanupSched 0, .cleanup 1 2, .cleanupSched 0, .cleanup 0 1, .cleanupSched 0, .root .done,
     .localsDead 1, .frameDead 1, .localsDead 0, .frameDead 0] := by decide

/-- the child's exception (leaf completed externally with error 7) is caught by the parent's try block:
    child locals, child cleanups (3 before 2), child frame destroyed, THEN the parent goes on -/
example :
    (runEvents (fun _ => ⟨.pending none, false⟩)
      (St.init [.atExit 1 0, .awaitTask [.atExit 2 0, .atExit 3 0, .await 1 false, .ret 1] true, .atExit 4 0, .ret 5] true)
      [.start, .complete 1 (.error 7), .destroy]).outs =
    [.frameStart 0, .reg 0 1, .frameStart 1, .reg 1 2, .reg 1 3, .leafStart 1 false, .sched 0,
     .localsDead 1, .cleanup 1 3, .cleanupSched 0, .cleanup 1 2, .cleanupSched 0, .frameDead 1, .reg 0 4,
     .localsDead 0, .cleanup 0 4, .cleanupSched 0, .cleanup 0 1, .cleanupSched 0, .frameDead 0, .root (.value 112)] := by decide

/-- manual scheduler, stop requested before start: the stop request is queued on the scheduler; the task
    finishes (error) but the receiver is completed only when the queued stop request has run (thunk join) -/
example :
    let s := runEvents (fun _ => ⟨.inline (.error 1), true⟩) (St.init [.await 1 false] false) [.stop, .start]
    s.ctl = .waitJoin (.error 1) ∧ rootTrace s.outs = [] ∧
    rootTrace (deliver (fun _ => ⟨.inline (.error 1), true⟩) .run s).outs = [.error 1] := by decide

/-- manual scheduler, non-affine leaf: the value takes one hop through the scheduler -/
example :
    let sp : Nat → LeafSpec := fun _ => ⟨.pending none, false⟩
    let s := runEvents sp (St.init [.await 1 false, .ret 1] false) [.start, .complete 1 (.value 4)]
    s.ctl = .waitHop ∧ rootTrace (deliver sp .run s).outs = [.value 5] := by decide

/-- `co_await schedule(2)` (manual schedulers): the task moves to scheduler 2, its later hops use scheduler 2,
    and at exit — after the cleanup registered later (2, which sees scheduler 2), before the one registered earlier (1, sees
    scheduler 0) — the library's own cleanup takes it back to scheduler 0 (`reg`/`cleanup` with label 0 are that internal cleanup) -/
example :
    (runEvents (fun _ => ⟨.pending none, false⟩)
      (St.init [.atExit 1 0, .resched 2, .atExit 2 0, .await 1 false, .ret 1] false)
      [.start, .run, .complete 1 (.value 3), .run, .run]).outs =
    [.frameStart 0, .reg 0 1, .reg 0 0, .sched 2, .reg 0 2, .leafStart 1 false, .sched 2,
     .localsDead 0, .cleanup 0 2, .cleanupSched 2, .cleanup 0 0, .sched 0, .cleanup 0 1, .cleanupSched 0, .frameDead 0, .root (.value 4)] := by decide

/-- foreign stop-token type (`adapter`): on a value completion the adapter is unsubscribed BEFORE the receiver is
    completed (`tokRegs 0` precedes `root`); on done it is still subscribed then and released with the operation -/
example :
    let sp : Nat → LeafSpec := fun _ => ⟨.pending none, true⟩
    (runEvents sp (St.init [.await 1 false, .ret 2] true true true) [.start, .complete 1 (.value 2), .destroy]).outs =
      [.frameStart 0, .leafStart 1 false, .localsDead 0, .frameDead 0, .tokRegs 0, .root (.value 4), .tokRegs 0] ∧
    (runEvents sp (St.init [.await 1 false, .ret 2] true true true) [.start, .complete 1 .done, .destroy]).outs =
      [.frameStart 0, .leafStart 1 false, .tokRegs 1, .root .done, .localsDead 0, .frameDead 0, .tokRegs 0] := by decide

/-- the sender route of stop_if_requested with a stoppable token and NO stop request continues; plain
    awaitables: one that does not suspend (1) and one that suspends (2) and is resumed later -/
example :
    let sp : Nat → LeafSpec := fun i => if i = 1 then ⟨.inline (.value 3), false⟩ else ⟨.pending none, false⟩
    (runEvents sp (St.init [.stopIfRequestedS, .awaitPlain 1 false, .awaitPlain 2 false, .stopIfRequestedS, .ret 1] true)
      [.start, .stop, .complete 2 (.value 4)]).outs =
    [.frameStart 0, .plainStart 1, .sched 0, .plainStart 2, .sched 0, .sched 0, .root .done] := by decide

end Unifex.Props.C10
