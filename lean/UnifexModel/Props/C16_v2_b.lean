/-
  Props/C16_v2_b.lean — property C16, v2 event: instance theorem by reflection (split from
  Props/C16_v2.lean so that the kernel evaluations run in parallel).
-/
import UnifexModel.Proto.EventV2
import UnifexModel.Lemmas.ReflectFast

namespace Unifex.Props.C16
open Unifex.Core Unifex.Proto.EventV2

/-- one cancellable waiter, a stop request racing with a set(): `safe` and `affine` in every
    reachable state — exactly one of the two wins (the removal from the list arbitrates,
    try_complete confirms): a waiter removed by stop() never gets value, a waiter popped by set()
    never gets done, no wake-up is lost, and both completions run on the waiter's scheduler. -/
theorem v2_cancel_vs_set_safe_inst :
    ∀ s, Reach (sys cfgCancelVsSet) s → (safe cfgCancelVsSet s && affine s) = true :=
  safe_of_checkC _ { coded with M := 1091, W := 240 } 400 _ (by decide +kernel)

end Unifex.Props.C16
