/-
  Props/C07_Clock.lean — property C07, clock part: `monotonic_clock::time_point` arithmetic is exact
  and totally ordered.  ONLY property theorems.

  Every theorem is about the definitions in Generated/Clock.lean, which tools/cxx2lean_clock.py
  REGENERATES from include/unifex/linux/monotonic_clock.hpp on every `./check C07` before this file
  is re-checked; they hold for ALL integer operands (mathematical integers: the precondition is
  absence of signed 64-bit overflow, which is undefined behaviour in the source).
  Durations are tick counts of monotonic_clock::duration (100 ns).

  `Canonical` is the normal form as the CODE defines it: |nanoseconds_| < 10^9 and nanoseconds_
  carries the sign of seconds_ (sign-magnitude), NOT 0 ≤ nanoseconds_ < 10^9.
  `value t = seconds_ * 10^9 + nanoseconds_`.
-/
import UnifexModel.Lemmas.ClockArith

namespace Unifex.Props.C07_Clock
open Unifex.Generated.Clock Unifex.Lemmas.ClockArith

/-- what `Canonical` says, spelled out -/
theorem canonical_spelled (t : TimePoint) : Canonical t ↔
    (-1000000000 < t.nanoseconds_ ∧ t.nanoseconds_ < 1000000000 ∧
     (0 < t.seconds_ → 0 ≤ t.nanoseconds_) ∧ (t.seconds_ < 0 → t.nanoseconds_ ≤ 0)) := Iff.rfl


/-- normalize() establishes the canonical form, for every input -/
theorem normalize_canonical (t : TimePoint) : Canonical (normalize t) := by clock_arith
/-- normalize() does not change the denoted instant -/
theorem normalize_value (t : TimePoint) : value (normalize t) = value t := by clock_arith

/-- the canonical form is a normal form: one representation per instant (so == is equality of instants) -/
theorem canonical_unique (a b : TimePoint) (ha : Canonical a) (hb : Canonical b)
    (h : value a = value b) : a = b := by
  apply tp_ext <;> clock_arith

theorem normalize_idem (t : TimePoint) (h : Canonical t) : normalize t = t := by
  apply tp_ext <;> clock_arith

theorem from_canonical (s n : Int) : Canonical (fromSecondsAndNanoseconds s n) ∧
    value (fromSecondsAndNanoseconds s n) = s * 1000000000 + n := by
  constructor <;> clock_arith

/-- on canonical values `operator<` is the numeric order of the denoted instants -/
theorem lt_iff_value_lt (a b : TimePoint) (ha : Canonical a) (hb : Canonical b) :
    lt a b = true ↔ value a < value b := by
  clock_arith

theorem eq_iff (a b : TimePoint) : eq a b = true ↔ a = b := by
  constructor
  · intro h; apply tp_ext <;> clock_arith
  · intro h; subst h; clock_arith

theorem ne_iff (a b : TimePoint) : ne a b = true ↔ a ≠ b := by
  cases he : eq a b with
  | true => have h := (eq_iff a b).mp he; subst h; simp [Unifex.Generated.Clock.ne, he]
  | false =>
    have h : a ≠ b := fun h => by rw [(eq_iff a b).mpr h] at he; cases he
    simp [Unifex.Generated.Clock.ne, he, h]

/-- `operator<` is a strict total order (on all representations, canonical or not) -/
theorem lt_irrefl (a : TimePoint) : lt a a = false := by clock_arith
theorem lt_trans (a b c : TimePoint) (h1 : lt a b = true) (h2 : lt b c = true) : lt a c = true := by clock_arith
theorem lt_asymm (a b : TimePoint) (h1 : lt a b = true) : lt b a = false := by clock_arith
theorem lt_trichotomy (a b : TimePoint) : lt a b = true ∨ a = b ∨ lt b a = true := by
  by_cases h1 : lt a b = true
  · exact Or.inl h1
  · by_cases h2 : lt b a = true
    · exact Or.inr (Or.inr h2)
    · refine Or.inr (Or.inl ?_); apply tp_ext <;> clock_arith
theorem gt_iff (a b : TimePoint) : gt a b = lt b a := by clock_arith
theorem le_iff (a b : TimePoint) : le a b = true ↔ (lt a b = true ∨ a = b) := by
  constructor
  · intro h
    rcases lt_trichotomy a b with h1 | h1 | h1
    · exact Or.inl h1
    · exact Or.inr h1
    · clock_arith
  · rintro (h | h)
    · clock_arith
    · subst h; clock_arith
theorem ge_iff (a b : TimePoint) : ge a b = le b a := by clock_arith

/-- tp + d denotes the instant d ticks later and is canonical -/
theorem add_value (tp : TimePoint) (d : Int) : value (add tp d) = value tp + 100 * d ∧ Canonical (add tp d) := by
  constructor <;> clock_arith
theorem sub_value (tp : TimePoint) (d : Int) : value (sub tp d) = value tp - 100 * d ∧ Canonical (sub tp d) := by
  constructor <;> clock_arith

/-- (tp + d) - d = tp -/
theorem add_sub_cancel (tp : TimePoint) (d : Int) (h : Canonical tp) : sub (add tp d) d = tp := by
  apply canonical_unique _ _ (sub_value _ _).2 h
  rw [(sub_value _ _).1, (add_value _ _).1]; omega

/-- (tp + d) - tp = d (exact for tick-valued d) -/
theorem add_diff (tp : TimePoint) (d : Int) (h : Canonical tp) : diff (add tp d) tp = d := by
  clock_arith

/-- b + (a - b) = a when the two instants differ by whole ticks (operator- truncates to ticks) -/
theorem diff_add (a b : TimePoint) (ha : Canonical a) (_hb : Canonical b)
    (hticks : (100 : Int) ∣ (value a - value b)) : add b (diff a b) = a := by
  apply canonical_unique _ _ (add_value _ _).2 ha
  rw [(add_value _ _).1]
  clock_arith

/-- + is strictly monotone in the duration -/
theorem add_strict_mono (tp : TimePoint) (d1 d2 : Int) (h : d1 < d2) :
    lt (add tp d1) (add tp d2) = true := by
  rw [lt_iff_value_lt _ _ (add_value _ _).2 (add_value _ _).2, (add_value _ _).1, (add_value _ _).1]
  omega

theorem add_mono (tp : TimePoint) (d1 d2 : Int) (h : d1 ≤ d2) :
    le (add tp d1) (add tp d2) = true := by
  rcases Int.lt_or_eq_of_le h with h | h
  · exact (le_iff _ _).mpr (Or.inl (add_strict_mono tp d1 d2 h))
  · subst h; exact (le_iff _ _).mpr (Or.inr rfl)

theorem add_zero (tp : TimePoint) (h : Canonical tp) : add tp 0 = tp := by
  apply canonical_unique _ _ (add_value _ _).2 h
  rw [(add_value _ _).1]; omega

theorem add_add (tp : TimePoint) (d1 d2 : Int) : add (add tp d1) d2 = add tp (d1 + d2) := by
  apply canonical_unique _ _ (add_value _ _).2 (add_value _ _).2
  rw [(add_value _ _).1, (add_value _ _).1, (add_value _ _).1]; omega

end Unifex.Props.C07_Clock
