/-
  Props/C08_v1.lean — property C08 for `unifex::v1::async_scope` (model Proto/ScopeV1.lean):
  instance theorems by reflection.  `safeQ` = `safe` ∧ never a late touch of the scope.  `ScopeV1.safe` = the clauses of
  `ScopeV2.safe` (see `C08.safe_spelled`) + stop delivery (`safe_spelled_stop`).
-/
import UnifexModel.Proto.ScopeV1

namespace Unifex.Props.C08_v1
open Unifex.Core Unifex.Proto.ScopeV1

/-- The clause `ScopeV1.safe` adds to `ScopeV2.safe`: once a request_stop() has returned, every
    started operation whose spawn has returned and which has not begun to complete has seen the
    stop request.  (cleanup()/request_stop() deliver stop to all outstanding work.) -/
theorem safe_spelled_stop (cfg : Config) (s : St) (h : safe cfg s = true) :
    s.stopRet = true → ∀ o ∈ s.ops, o.phase = 2 → o.ret = true → o.stopSeen = true := by
  unfold safe at h
  simp only [Bool.and_eq_true, decide_eq_true_eq, List.all_eq_true, Bool.or_eq_true,
    Bool.not_eq_true', Bool.and_eq_false_iff, decide_eq_false_iff_not] at h
  obtain ⟨⟨⟨_, h5⟩, _⟩, _⟩ := h
  intro hs o ho hp hr
  rcases h5 o ho with h | h
  · rcases h with (h | h) | h
    · simp [hs] at h
    · exact absurd hp h
    · simp [hr] at h
  · exact h

/-- complete() racing with admission, start and completion of one attached operation -/
theorem v1_complete_safe : ∀ s, Reach (sys cfgComplete) s → safeQ cfgComplete s = true :=
  safe_of_check _ { coded with M := 251 } 400 _ (by decide +kernel)

/-- cleanup() racing with the completion of the outstanding operation: cleanup completes only after
    the operation finished, exactly once, stop is delivered, and — although cleanup() runs
    `end_scope` twice (in `request_stop()` and in `scope_.join()`) — the completing operation never
    touches the scope after cleanup completed (the second `end_scope` leaves the event alone). -/
theorem v1_cleanup_safe : ∀ s, Reach (sys cfgCleanup) s → safeQ cfgCleanup s = true :=
  safe_of_check _ { coded with M := 509 } 400 _ (by decide +kernel)

/-- non-vacuity: cleanup delivers the stop request to the outstanding operation, which then
    completes and is released, and cleanup completes. -/
def cleanupStopWitness : List Nat :=
  [0, 0, 0, 0, 0, 0, 0, 0, 0, 0, 0, 0, 0, 0, 0, 0, 1, 1, 1, 1, 1, 1, 0]

example : ∃ s, Reach (sys cfgCleanup) s ∧ final cfgCleanup s = true ∧
    (getOp s 0).stopSeen = true ∧ (getOp s 0).phase = 5 ∧ s.jdone = [1] := by
  have h : (match runChoices (sys cfgCleanup) (sys cfgCleanup).init cleanupStopWitness with
      | some (_, s) => final cfgCleanup s && (getOp s 0).stopSeen && decide ((getOp s 0).phase = 5)
          && decide (s.jdone = [1]) | none => false) = true := by
    decide +kernel
  cases hr : runChoices (sys cfgCleanup) (sys cfgCleanup).init cleanupStopWitness with
  | none => simp [hr] at h
  | some p =>
    obtain ⟨ls, s⟩ := p
    simp only [hr, Bool.and_eq_true, decide_eq_true_eq] at h
    exact ⟨s, runChoices_reach _ _ _ _ _ Reach.init hr, h.1.1.1, h.1.1.2, h.1.2, h.2⟩

end Unifex.Props.C08_v1
