/-
  Props/C01_AtomicInst.lean — property C01 at the schedule level, when_all instances by kernel-evaluated
  reflection (`decide +kernel`): the full Boolean predicate `safe` of Proto/WhenAll.lean for EVERY reachable
  state (= every schedule of unbounded length) of fixed small configurations.  Compared with the parametric
  theorems of Props/C01_Atomic.lean this adds deadlock-freedom: no blocking deregistration (the leaf's, or
  `stopCallback_.destruct()`) can wait forever.  ONLY property theorems.
-/
import UnifexModel.Proto.WhenAll

namespace Unifex.Props.C01AtomicInst
open Unifex.Core

section WhenAllInstances
open Unifex.Proto.WhenAll

/-- What `safe` says, spelled out. -/
theorem safe_spelled (cfg : Config) (s : St) (h : safe cfg s = true) :
    -- nothing touches the operation state after the receiver was signalled
    s.bad = 0
    -- at most one completion signal
    ∧ s.delivered ≤ 1
    -- and only after every child has finished its completion call
    ∧ (s.delivered = 0 ∨ ∀ c ∈ s.ch, c.ph = .fin)
    -- no deadlock: every blocking deregistration eventually proceeds
    ∧ (((sys cfg).next s).isEmpty = true → final cfg s = true)
    -- exactly once at the end
    ∧ (final cfg s = true → s.delivered = 1)
    -- result precedence: receiver stop > first error/done > values
    ∧ resultOk cfg s = true := by
  unfold safe at h
  simp only [Bool.and_eq_true, decide_eq_true_eq, List.all_eq_true, Bool.or_eq_true, Bool.not_eq_true'] at h
  obtain ⟨⟨⟨⟨⟨⟨⟨⟨⟨h1, h2⟩, h3⟩, _⟩, h5⟩, h6⟩, h7⟩, _⟩, _⟩, _⟩ := h
  refine ⟨h1, h2, ?_, ?_, ?_, h7⟩
  · rcases h3 with h3 | h3
    · exact .inl h3
    · exact .inr h3
  · intro hd
    rcases h5 with h5 | h5
    · simp [hd] at h5
    · exact h5
  · intro hf
    rcases h6 with h6 | h6
    · simp [hf] at h6
    · exact h6

theorem wa2_race_safe : ∀ s, Reach (sys cfgWa2Race) s → safe cfgWa2Race s = true :=
  safe_of_check _ { coded with M := 67, W := 120 } 400 _ (by decide +kernel)

theorem wa1_stop_safe : ∀ s, Reach (sys cfgWa1Stop) s → safe cfgWa1Stop s = true :=
  safe_of_check _ { coded with M := 251, W := 100 } 400 _ (by decide +kernel)

theorem wa2_valinl_stop_safe : ∀ s, Reach (sys cfgWa2ValInlStop) s → safe cfgWa2ValInlStop s = true :=
  safe_of_check _ { coded with M := 307, W := 120 } 400 _ (by decide +kernel)

theorem wa3_fail_inl_safe : ∀ s, Reach (sys cfgWa3FailInl) s → safe cfgWa3FailInl s = true :=
  safe_of_check _ { coded with M := 421, W := 140 } 400 _ (by decide +kernel)

end WhenAllInstances

end Unifex.Props.C01AtomicInst
