/-
  Props/C15_v2legacy.lean — LEGACY.  NOTHING IN THIS FILE IS ABOUT THE CURRENT CODE.

  These theorems are about `cfgLeakSeqLegacy` = the regression scenario `v2_leak_seq` with
  `fwdStop := true`, a HAND-TRANSCRIBED model of completion_forwarder as it was BEFORE the repair of
  DESIGN §8 #3 (/repo commit "fix: completion_forwarder: the reschedule of an already decided
  completion could be cancelled"): the rescheduling receiver forwarded the waiter's own stop token.
  They record why the repair was needed: with that forwarder the lock was leaked.  No scenario on the
  real code is tied to this configuration; for the code as it stands the same scenario satisfies the
  full property (C15_v2a.v2_leak_seq_safe), and the scenario's "lock leaked" monitor would report a
  regression as a plain violation.
-/
import UnifexModel.Proto.MutexV2

namespace Unifex.Props.C15
open Unifex.Core Unifex.Proto.MutexV2

/-- LEGACY (pre-repair forwarder): everything except the end-state clause held -/
theorem v2_legacy_leak_seq_safe_partial : ∀ s, Reach (sys cfgLeakSeqLegacy) s → safe cfgLeakSeqLegacy s = true :=
  safe_of_check _ { coded with M := 71, W := 264 } 400 _ (by decide +kernel)

/-- LEGACY (pre-repair forwarder): every execution that ran to the end leaked the lock -/
theorem v2_legacy_leak_seq_always_leaks : ∀ s, Reach (sys cfgLeakSeqLegacy) s →
    (!final cfgLeakSeqLegacy s || leaked cfgLeakSeqLegacy s) = true :=
  safe_of_check _ { coded with M := 71, W := 264 } 400 _ (by decide +kernel)

def legacyLeakSchedule : List Nat := List.replicate 34 0

/-- LEGACY (pre-repair forwarder): the concrete leak — waiter 0 completed with set_done although
    the lock had been handed to it, the mutex is locked, nobody holds it, no step is enabled, and
    waiter 1 is queued forever.  (This history was replayed on the real mutex before the repair.) -/
theorem v2_legacy_lock_leak_witness :
    ∃ ls s, runChoices (sys cfgLeakSeqLegacy) (sys cfgLeakSeqLegacy).init legacyLeakSchedule = some (ls, s) ∧
      Reach (sys cfgLeakSeqLegacy) s ∧
      ls.filterMap obsOf = ["T0 t0.value", "T1 lock0", "T1 lock1", "T0 t0.unlock", "T2 stop0",
                            "T2 stop0.end", "T0 run", "T0 w0.done", "T0 t9.fail"] ∧
      final cfgLeakSeqLegacy s = true ∧ s.locked = true ∧ s.holders = 0 ∧
      (getW s 0).outcome = 2 ∧ (getW s 0).granted = true ∧ (getW s 0).canc = false ∧
      s.queue = [1] ∧ (getW s 1).comps = 0 ∧ (sys cfgLeakSeqLegacy).next s = [] := by
  have h : (match runChoices (sys cfgLeakSeqLegacy) (sys cfgLeakSeqLegacy).init legacyLeakSchedule with
      | some (ls, s) =>
        decide (ls.filterMap obsOf = ["T0 t0.value", "T1 lock0", "T1 lock1", "T0 t0.unlock", "T2 stop0",
                            "T2 stop0.end", "T0 run", "T0 w0.done", "T0 t9.fail"]) &&
        final cfgLeakSeqLegacy s && s.locked && decide (s.holders = 0) &&
        decide ((getW s 0).outcome = 2) && (getW s 0).granted && !(getW s 0).canc &&
        decide (s.queue = [1]) && decide ((getW s 1).comps = 0) && ((sys cfgLeakSeqLegacy).next s).isEmpty
      | none => false) = true := by decide +kernel
  cases hr : runChoices (sys cfgLeakSeqLegacy) (sys cfgLeakSeqLegacy).init legacyLeakSchedule with
  | none => simp [hr] at h
  | some p =>
    obtain ⟨ls, s⟩ := p
    simp only [hr, Bool.and_eq_true, decide_eq_true_eq, Bool.not_eq_true', List.isEmpty_iff] at h
    obtain ⟨⟨⟨⟨⟨⟨⟨⟨⟨h1, h2⟩, h3⟩, h4⟩, h5⟩, h6⟩, h7⟩, h8⟩, h9⟩, h10⟩ := h
    exact ⟨ls, s, rfl, runChoices_reach _ _ _ _ _ Reach.init hr, h1, h2, h3, h4, h5, h6, h7, h8, h9, h10⟩

end Unifex.Props.C15
