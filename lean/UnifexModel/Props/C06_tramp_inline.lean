/-
  Props/C06_tramp_inline.lean — a trampoline whose maximum depth exceeds the number of items never defers:
  every `start()` completes its item inline, i.e. the trampoline then behaves like `inline_scheduler`
  (no `defer` event in any reachable log, for every tree).
-/
import UnifexModel.Lemmas.Trampoline

namespace Unifex.Props.C06
open Unifex.Core Unifex.Proto.Trampoline

theorem trampoline_exec_reached (cfg : Config) : Reach (sys cfg) (exec cfg) ∧ (exec cfg).fin = true :=
  ⟨iter_reach cfg _ _ Reach.init, iter_fin cfg _ _ (mu_init cfg)⟩

structure InvNoDefer (s : St) : Prop where
  depth_le : s.depth ≤ (runsOf s.log).length
  none : ∀ i, Ev.defer i ∉ s.log

theorem runs_le_size (cfg : Config) {s : St} (h : Reach (sys cfg) s) :
    (runsOf s.log).length ≤ cfg.root.ids.length := by
  have hp := ((invOnce_reach cfg h).perm).length_eq
  simp only [List.length_append] at hp
  omega

theorem trampoline_never_defers_when_depth_exceeds_items (cfg : Config)
    (hbig : cfg.root.ids.length < cfg.maxDepth) {s : St} (h : Reach (sys cfg) s) : InvNoDefer s := by
  induction h with
  | init =>
    refine ⟨by simp [sys, init, execute, runsOf], ?_⟩
    intro i; simp [sys, init, execute]
  | step hr hm ih =>
    rename_i s0 l s1
    obtain ⟨_, rfl⟩ := sys_step hm
    have hsz := runs_le_size cfg hr
    obtain ⟨h1, h2⟩ := ih
    apply reach_step
    · intro c rest fs hs hd
      refine ⟨by simp [execute, runsOf_append, runsOf]; omega, ?_⟩
      intro i; simp [execute, h2 i]
    · intro c rest fs hs hd
      omega
    · intro fs hs
      exact ⟨h1, h2⟩
    · intro c ds hs hdq
      refine ⟨by simp [execute, runsOf_append, runsOf], ?_⟩
      intro i; simp [execute, h2 i]
    · intro hs hdq
      exact ⟨h1, h2⟩

/-- … in particular the complete run of the outermost start() logs only `run` events, one per item -/
theorem trampoline_big_depth_runs_all_inline (cfg : Config) (hbig : cfg.root.ids.length < cfg.maxDepth) :
    (∀ i, Ev.defer i ∉ (exec cfg).log) ∧ (runsOf (exec cfg).log).Perm cfg.root.ids :=
  ⟨(trampoline_never_defers_when_depth_exceeds_items cfg hbig (trampoline_exec_reached cfg).1).none,
   by
    have h := (trampoline_exec_reached cfg)
    have hi := invOnce_reach cfg h.1
    have := hi.fin h.2
    have hp := hi.perm
    rw [this.1, this.2] at hp
    simpa [pend, idsL] using hp⟩

/-- non-vacuity: the hypothesis is satisfiable and the bound matters — with maxDepth 2 the same tree defers -/
example : ((Tree.node 0 false [.node 1 false [.node 2 false []]]).ids.length < 4) ∧
    (exec ⟨2, .node 0 false [.node 1 false [.node 2 false []]]⟩).log.any (fun e => match e with | .defer _ => true | _ => false) = true := by
  decide

end Unifex.Props.C06
