/-
  Props/C15_v2a.lean — property C15, v2 (cancellable) async_mutex, part a: what the property
  predicates say, and the hand-off through completion_forwarder (ONLY property theorems; the model
  is Proto/MutexV2.lean).

  Every `v2_*_safe` theorem states the FULL property `safeFull` (mutual exclusion, at-most-once,
  cancelled-never-owns, a granted waiter never gets done, FIFO, no deadlock, and at the end: every
  started waiter completed exactly once, lock not leaked) for EVERY reachable state of the
  instance, i.e. every schedule of every length of the threads' atomic steps.  The closure is computed and re-checked by
  Lean's kernel (`decide +kernel`).
-/
import UnifexModel.Proto.MutexV2

namespace Unifex.Props.C15
open Unifex.Core Unifex.Proto.MutexV2

/-- What `safe` says, spelled out. -/
theorem v2_safe_spelled (cfg : Config) (s : St) (h : safe cfg s = true) :
    -- mutual exclusion (unconditional): never two parties between acquisition and unlock()
    s.holders ≤ 1
    -- every waiter completes at most once
    ∧ (∀ w ∈ s.ws, w.comps ≤ 1)
    -- a waiter cancelled by its stop request never was granted the lock, never completes with value
    ∧ (∀ w ∈ s.ws, w.canc = true → w.granted = false ∧ w.outcome ≠ 1)
    -- a waiter to which the lock was granted never receives set_done (only the LEGACY pre-repair
    -- forwarder, `fwdStop = true`, could do that, and only under the `hazard`)
    ∧ (∀ w ∈ s.ws, w.granted = true → w.outcome = 2 → cfg.fwdStop = true ∧ w.hazard = true)
    -- resume_'s "popped but already completed" branch is never taken
    ∧ s.deadBranch = 0
    -- FIFO: queued waiters get set_value in push_back order (cancelled ones removed)
    ∧ isPrefix s.values (s.arrivals.filter (fun i => !(getW s i).canc)) = true
    -- no deadlock
    ∧ (((sys cfg).next s).isEmpty = true → final cfg s = true)
    -- at the end (in `safe` guarded by `noHazard`; `safeFull` drops the guard, see
    -- `v2_safeFull_spelled`): every started waiter completed exactly once, nobody is queued, and
    -- the lock is not leaked (locked only if a party still holds it)
    ∧ (final cfg s = true → noHazard s = true →
        (∀ w ∈ s.ws, startedW w = true → w.comps = 1) ∧ s.queue = [] ∧ s.schedQ = [] ∧
        (s.locked = true → s.holders = 1)) := by
  unfold safe endOk at h
  simp only [Bool.and_eq_true, decide_eq_true_eq, List.all_eq_true, Bool.or_eq_true,
    Bool.not_eq_eq_eq_not, Bool.not_true, ne_eq, List.isEmpty_iff, Bool.and_eq_false_imp] at h
  obtain ⟨⟨⟨⟨⟨⟨⟨h1, h2⟩, h3⟩, h4⟩, h5⟩, h6⟩, h7⟩, h8⟩ := h
  refine ⟨h1, h2, ?_, ?_, h5, h6, ?_, ?_⟩
  · intro w hw hc
    rcases h3 w hw with h | h
    · simp [hc] at h
    · exact h
  · intro w hw hg ho
    rcases h4 w hw with h | h
    · simp [hg, ho] at h
    · exact h
  · intro hd
    rcases h7 with h | h
    · simp [List.isEmpty_iff] at hd; simp [hd] at h
    · exact h
  · intro hf hn
    rcases h8 with h | h
    · simp [hf, hn] at h
    · obtain ⟨⟨⟨ha, hb⟩, hc⟩, hd⟩ := h
      refine ⟨?_, hb, hc, ?_⟩
      · intro w hw hs
        rcases ha w hw with h | h
        · simp [hs] at h
        · exact h
      · intro hl
        rcases hd with h | h
        · simp [hl] at h
        · exact h

/-- `safeFull` = `safe` plus the end-state clause WITHOUT the `noHazard` guard: at the end every
    started waiter completed exactly once, nobody is queued or scheduled, lock not leaked. -/
theorem v2_safeFull_spelled (cfg : Config) (s : St) (h : safeFull cfg s = true) :
    safe cfg s = true ∧
    (final cfg s = true →
      (∀ w ∈ s.ws, startedW w = true → w.comps = 1) ∧ s.queue = [] ∧ s.schedQ = [] ∧
      (s.locked = true → s.holders = 1)) := by
  unfold safeFull at h
  simp only [Bool.and_eq_true, Bool.or_eq_true, Bool.not_eq_eq_eq_not, Bool.not_true] at h
  refine ⟨h.1, fun hf => ?_⟩
  have he : endOk s = true := by
    rcases h.2 with h2 | h2
    · simp [hf] at h2
    · exact h2
  unfold endOk at he
  simp only [Bool.and_eq_true, List.all_eq_true, Bool.or_eq_true, Bool.not_eq_eq_eq_not, Bool.not_true,
    decide_eq_true_eq, List.isEmpty_iff] at he
  obtain ⟨⟨⟨ha, hb⟩, hc⟩, hd⟩ := he
  refine ⟨?_, hb, hc, ?_⟩
  · intro w hw hs
    rcases ha w hw with h | h
    · simp [hs] at h
    · exact h
  · intro hl
    rcases hd with h | h
    · simp [hl] at h
    · exact h

/-- hand-off to a queued waiter through the deferred scheduler -/
theorem v2_handoff_safe : ∀ s, Reach (sys cfgHandoff) s → safeFull cfgHandoff s = true :=
  safe_of_check _ { coded with M := 337, W := 192 } 400 _ (by decide +kernel)

/-- hand-off (inline scheduler) while another thread probes with try_lock -/
theorem v2_handoff_try_safe : ∀ s, Reach (sys cfgHandoffTry) s → safeFull cfgHandoffTry s = true :=
  safe_of_check _ { coded with M := 157, W := 192 } 400 _ (by decide +kernel)

/-- the regression scenario of DESIGN §8 #3: the stop request arrives after the hand-off and before
    the re-scheduled completion runs; the waiter still gets set_value, the next waiter is served,
    the lock is not leaked -/
theorem v2_leak_seq_safe : ∀ s, Reach (sys cfgLeakSeq) s → safeFull cfgLeakSeq s = true :=
  safe_of_check _ { coded with M := 101, W := 264 } 400 _ (by decide +kernel)

end Unifex.Props.C15
