/-
  Props/C15_v2a.lean — property C15, v2 (cancellable) async_mutex, part a:
  the hand-off through completion_forwarder, with and without stop requests, and the lock leak
  of DESIGN §8 #3 (ONLY property theorems; the model is Proto/MutexV2.lean).

  `*_safe` / `*_safe_partial` quantify over EVERY reachable state of the instance, i.e. every
  schedule of every length of the threads' atomic steps.  The closure is computed and re-checked by
  Lean's kernel (`decide +kernel`).
-/
import UnifexModel.Proto.MutexV2

namespace Unifex.Props.C15
open Unifex.Core Unifex.Proto.MutexV2

/-- What `safe` says, spelled out. -/
theorem v2_safe_spelled (cfg : Config) (s : St) (h : safe cfg s = true) :
    -- mutual exclusion (unconditional): never two parties between acquisition and unlock()
    s.holders ≤ 1
    -- every waiter completes at most once
    ∧ (∀ w ∈ s.ws, w.comps ≤ 1)
    -- a waiter cancelled by its stop request never was granted the lock, never completes with value
    ∧ (∀ w ∈ s.ws, w.canc = true → w.granted = false ∧ w.outcome ≠ 1)
    -- set_done with the lock granted happens only when a stop request was pending between the
    -- hand-off and the delivery of the re-scheduled completion (`hazard`)
    ∧ (∀ w ∈ s.ws, w.granted = true → w.outcome = 2 → cfg.fwdStop = true ∧ w.hazard = true)
    -- resume_'s "popped but already completed" branch is never taken
    ∧ s.deadBranch = 0
    -- FIFO: queued waiters get set_value in push_back order (cancelled ones removed)
    ∧ isPrefix s.values (s.arrivals.filter (fun i => !(getW s i).canc)) = true
    -- no deadlock
    ∧ (((sys cfg).next s).isEmpty = true → final cfg s = true)
    -- at the end, PROVIDED no waiter ever had a stop request pending while the lock was granted to
    -- it and its completion was still in flight: every started waiter completed exactly once,
    -- nobody is queued, and the lock is not leaked (locked only if a party still holds it)
    ∧ (final cfg s = true → noHazard s = true →
        (∀ w ∈ s.ws, startedW w = true → w.comps = 1) ∧ s.queue = [] ∧ s.schedQ = [] ∧
        (s.locked = true → s.holders = 1)) := by
  unfold safe endOk at h
  simp only [Bool.and_eq_true, decide_eq_true_eq, List.all_eq_true, Bool.or_eq_true,
    Bool.not_eq_eq_eq_not, Bool.not_true, ne_eq, List.isEmpty_iff, Bool.and_eq_false_imp] at h
  obtain ⟨⟨⟨⟨⟨⟨⟨h1, h2⟩, h3⟩, h4⟩, h5⟩, h6⟩, h7⟩, h8⟩ := h
  refine ⟨h1, h2, ?_, ?_, h5, h6, ?_, ?_⟩
  · intro w hw hc
    rcases h3 w hw with h | h
    · simp [hc] at h
    · exact h
  · intro w hw hg ho
    rcases h4 w hw with h | h
    · simp [hg, ho] at h
    · exact h
  · intro hd
    rcases h7 with h | h
    · simp [List.isEmpty_iff] at hd; simp [hd] at h
    · exact h
  · intro hf hn
    rcases h8 with h | h
    · simp [hf, hn] at h
    · obtain ⟨⟨⟨ha, hb⟩, hc⟩, hd⟩ := h
      refine ⟨?_, hb, hc, ?_⟩
      · intro w hw hs
        rcases ha w hw with h | h
        · simp [hs] at h
        · exact h
      · intro hl
        rcases hd with h | h
        · simp [hl] at h
        · exact h

/-- no stop request: the full property (no hazard ever, so every guarded clause is in force) -/
theorem v2_handoff_safe : ∀ s, Reach (sys cfgHandoff) s → (safe cfgHandoff s && noHazard s) = true :=
  safe_of_check _ { coded with M := 337, W := 192 } 400 _ (by decide +kernel)

theorem v2_leak_seq_safe_partial : ∀ s, Reach (sys cfgLeakSeq) s → safe cfgLeakSeq s = true :=
  safe_of_check _ { coded with M := 71, W := 264 } 400 _ (by decide +kernel)

/-- hand-off (inline scheduler) while another thread probes with try_lock: full property -/
theorem v2_handoff_try_safe : ∀ s, Reach (sys cfgHandoffTry) s → (safe cfgHandoffTry s && noHazard s) = true :=
  safe_of_check _ { coded with M := 157, W := 192 } 400 _ (by decide +kernel)

/-- `lock not leaked` is FALSE for the code as it stands: in the sequential reproducer EVERY
    execution that runs to the end leaks the lock (DESIGN §8 #3). -/
theorem v2_leak_seq_always_leaks : ∀ s, Reach (sys cfgLeakSeq) s →
    (!final cfgLeakSeq s || leaked cfgLeakSeq s) = true :=
  safe_of_check _ { coded with M := 71, W := 264 } 400 _ (by decide +kernel)

/-- the schedule of the witness (thread choices among the enabled ones; the run is sequential) -/
def leakSchedule : List Nat := List.replicate 34 0

/-- The lock leak, concretely: a reachable state (after the observable history below — the one the
    real mutex produces in harness/rt/scn_c15.cpp:v2_leak_seq) in which waiter 0 completed with
    set_done although the lock had been handed to it (it was never cancelled: `canc = false`), the
    mutex is locked, nobody holds it, every thread has finished, NO step is enabled any more
    (nobody can ever acquire the lock), and waiter 1 is still queued and never completes. -/
theorem v2_lock_leak_witness :
    ∃ ls s, runChoices (sys cfgLeakSeq) (sys cfgLeakSeq).init leakSchedule = some (ls, s) ∧
      Reach (sys cfgLeakSeq) s ∧
      ls.filterMap obsOf = ["T0 t0.value", "T1 lock0", "T1 lock1", "T0 t0.unlock", "T2 stop0",
                            "T2 stop0.end", "T0 run", "T0 w0.done", "T0 t9.fail"] ∧
      final cfgLeakSeq s = true ∧ s.locked = true ∧ s.holders = 0 ∧
      (getW s 0).outcome = 2 ∧ (getW s 0).granted = true ∧ (getW s 0).canc = false ∧
      s.queue = [1] ∧ (getW s 1).comps = 0 ∧ (sys cfgLeakSeq).next s = [] := by
  have h : (match runChoices (sys cfgLeakSeq) (sys cfgLeakSeq).init leakSchedule with
      | some (ls, s) =>
        decide (ls.filterMap obsOf = ["T0 t0.value", "T1 lock0", "T1 lock1", "T0 t0.unlock", "T2 stop0",
                            "T2 stop0.end", "T0 run", "T0 w0.done", "T0 t9.fail"]) &&
        final cfgLeakSeq s && s.locked && decide (s.holders = 0) &&
        decide ((getW s 0).outcome = 2) && (getW s 0).granted && !(getW s 0).canc &&
        decide (s.queue = [1]) && decide ((getW s 1).comps = 0) && ((sys cfgLeakSeq).next s).isEmpty
      | none => false) = true := by decide +kernel
  cases hr : runChoices (sys cfgLeakSeq) (sys cfgLeakSeq).init leakSchedule with
  | none => simp [hr] at h
  | some p =>
    obtain ⟨ls, s⟩ := p
    simp only [hr, Bool.and_eq_true, decide_eq_true_eq, Bool.not_eq_true', List.isEmpty_iff] at h
    obtain ⟨⟨⟨⟨⟨⟨⟨⟨⟨h1, h2⟩, h3⟩, h4⟩, h5⟩, h6⟩, h7⟩, h8⟩, h9⟩, h10⟩ := h
    exact ⟨ls, s, rfl, runChoices_reach _ _ _ _ _ Reach.init hr, h1, h2, h3, h4, h5, h6, h7, h8, h9, h10⟩

end Unifex.Props.C15
