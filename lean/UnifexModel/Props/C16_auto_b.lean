/-
  Props/C16_auto_b.lean — property C16, auto-reset event: instance theorem by reflection
  (split from Props/C16_auto.lean so that the kernel evaluations run in parallel).
-/
import UnifexModel.Proto.AutoReset
import UnifexModel.Lemmas.ReflectFast

namespace Unifex.Props.C16
open Unifex.Core Unifex.Proto.AutoReset

/-- one consumer whose next() is cancelled through its stop token: `safe` in every reachable state
    (in particular no deadlock between the stop callback, which holds the mutex inside set_done(),
    and the continuation, which destroys the callback and then takes the mutex). -/
theorem ar_cancel_safe_inst : ∀ s, Reach (sys cfgCancel) s → safe cfgCancel s = true :=
  safe_of_checkC _ { coded with M := 331, W := 224 } 400 _ (by decide +kernel)

end Unifex.Props.C16
