/-
  Props/C19.lean — property C19: completion vs cancellation races have one winner in the cancel
  wrappers.  This file spells out what the `safe` / `core` predicates of the four protocol models
  say (so that the instance theorems can be read without the model files) and derives the named
  statements of DESIGN §5 from them, generically in the configuration.  The instance theorems
  (kernel-evaluated closure of the reachable state space of each scenario configuration — a fixed
  small number of parties, so the closure is the complete proof) are in the parts:

    Props/C19_sync.lean    cancellable: synchronous completion (c_sync, c_sync_early), completion
                           during start() without any stop request (c_complete_during_start)
    Props/C19_race.lean    cancellable: start / completion / stop, receiver destroys the op (c_race)
    Props/C19_early.lean   the same with StopsEarly (c_early)
    Props/C19_noarb.lean   cancellable: try_complete as the only arbiter (c_noarb)
    Props/C19_detach.lean  detach_on_cancel (d_race, d_detach, d_sync)
    Props/C19_canary.lean  canary / watcher / guard (k_guard, k_dtors)
    Props/C19_sor.lean     stop_on_request (s_two, s_ext)

  FINDING recorded by the theorems: for `cancellable`, `core` (one winner, hook at most once, no
  deadlock, exactly-once at the end) holds in every configuration, but the memory-safety half of
  `safe` does NOT hold when the nested operation completes on another thread: `*_touch_after_free`
  and `*_hook_on_completed_op` are reachability witnesses (see the parts).
-/
import UnifexModel.Proto.Cancellable
import UnifexModel.Proto.DetachOnCancel
import UnifexModel.Proto.Canary
import UnifexModel.Proto.StopOnRequest

namespace Unifex.Props.C19
open Unifex.Core

/-- `(dead → final)` as it appears in the `safe` predicates -/
theorem not_or_imp {a b : Bool} (h : (!a || b) = true) : a = true → b = true := by
  cases a <;> cases b <;> simp_all

/-- a concrete schedule (choice list) that ends in a state satisfying `p` is a reachability witness -/
theorem reach_of_choices {σ lbl : Type} (sys : LSys σ lbl) (cs : List Nat) (p : σ → Bool)
    (h : (match runChoices sys sys.init cs with | some (_, s) => p s | none => false) = true) :
    ∃ s, Reach sys s ∧ p s = true := by
  cases hr : runChoices sys sys.init cs with
  | none => simp [hr] at h
  | some q =>
    obtain ⟨ls, s⟩ := q
    simp only [hr] at h
    exact ⟨s, runChoices_reach _ _ _ _ _ Reach.init hr, h⟩

namespace Cancellable
open Unifex.Proto.Cancellable

/-- What `core` says. -/
theorem core_spelled (cfg : Config) (s : St) (h : core cfg s = true) :
    -- one winner: the receiver is completed at most once, try_complete returns true at most once
    s.completions ≤ 1 ∧ s.tcTrue ≤ 1
    -- the user's stop() hook runs at most once; the nested start() at most once
    ∧ s.hookRuns ≤ 1 ∧ s.nestedStarts ≤ 1
    -- start() is never called after the hook (skip-start mode: the hook runs instead of start())
    ∧ s.startAfterHook = false
    -- every call of the hook was decided on a state_ value without `completed`
    ∧ s.hookLate = false
    -- a completion with done comes from the hook
    ∧ (s.doneWins = 0 ∨ s.hookRuns = 1)
    -- no deadlock: spin on the stack-local flag, wait for a running stop callback in cleanup_
    ∧ (((sys cfg).next s).isEmpty = true → final cfg s = true)
    -- at the end: completed exactly once and the op state destroyed
    ∧ (final cfg s = true → s.completions = 1 ∧ s.freed = true) := by
  unfold core at h
  simp only [Bool.and_eq_true, decide_eq_true_eq, Bool.or_eq_true, Bool.not_eq_true'] at h
  obtain ⟨⟨⟨⟨⟨⟨⟨⟨h1, h2⟩, h3⟩, h4⟩, h5⟩, hl⟩, h6⟩, h7⟩, h8⟩ := h
  refine ⟨h1, h2, h3, h4, h5, hl, h6, ?_, ?_⟩
  · intro hd
    rcases h7 with h7 | h7
    · simp [hd] at h7
    · exact h7
  · intro hf
    rcases h8 with h8 | h8
    · simp [hf] at h8
    · exact h8

/-- What `safe` adds to `core`: `bad = 0`, i.e. no access to the op state after the receiver
    destroyed it (1), the hook is never entered / running on a destroyed op (2) nor entered after the
    receiver was completed (3), no store to start()'s dead stack local (4), the stop callback is
    destructed exactly once (6), no completion after destruction (8). -/
theorem safe_spelled (cfg : Config) (s : St) (h : safe cfg s = true) : s.bad = 0 ∧ core cfg s = true := by
  unfold safe at h
  simpa only [Bool.and_eq_true, decide_eq_true_eq] using h

/-- `one_winner` (DESIGN §5): however start(), the completion and the stop request interleave,
    exactly one of them completes the receiver. -/
theorem one_winner (cfg : Config) (hc : ∀ s, Reach (sys cfg) s → core cfg s = true) :
    ∀ s, Reach (sys cfg) s → s.completions ≤ 1 ∧ s.tcTrue ≤ 1 ∧ (final cfg s = true → s.completions = 1) := by
  intro s hs
  have h := core_spelled cfg s (hc s hs)
  exact ⟨h.1, h.2.1, fun hf => (h.2.2.2.2.2.2.2.2 hf).1⟩

/-- `stop_hook_at_most_once_only_started_uncompleted`: the hook runs at most once, never before a
    later start(), and (from `safe`) is never entered for an op whose receiver is completed. -/
theorem stop_hook_at_most_once (cfg : Config) (hc : ∀ s, Reach (sys cfg) s → core cfg s = true) :
    ∀ s, Reach (sys cfg) s → s.hookRuns ≤ 1 ∧ s.nestedStarts ≤ 1 ∧ s.startAfterHook = false := by
  intro s hs
  have h := core_spelled cfg s (hc s hs)
  exact ⟨h.2.2.1, h.2.2.2.1, h.2.2.2.2.1⟩

/-- the hook is only called for an operation whose completion nobody has claimed: the `state_` value
    observed by the deciding atomic operation (stop callback's `fetch_or(stopped)`, start()'s
    `fetch_or(started)`, the StopsEarly load) never has the `completed` bit -/
theorem stop_hook_only_unclaimed (cfg : Config) (hc : ∀ s, Reach (sys cfg) s → core cfg s = true) :
    ∀ s, Reach (sys cfg) s → s.hookLate = false := by
  intro s hs
  exact (core_spelled cfg s (hc s hs)).2.2.2.2.2.1

/-- `no_touch_after_winner`: in a configuration whose `safe` closure check succeeds nothing touches
    the op state after the winner completed the receiver. -/
theorem no_touch_after_winner (cfg : Config) (hs : ∀ s, Reach (sys cfg) s → safe cfg s = true) :
    ∀ s, Reach (sys cfg) s → s.bad = 0 := fun s h => (safe_spelled cfg s (hs s h)).1

theorem no_deadlock (cfg : Config) (hc : ∀ s, Reach (sys cfg) s → core cfg s = true) :
    ∀ s, Reach (sys cfg) s → ((sys cfg).next s).isEmpty = true → final cfg s = true := by
  intro s hs
  exact (core_spelled cfg s (hc s hs)).2.2.2.2.2.2.2.1

end Cancellable

namespace DetachOnCancel
open Unifex.Proto.DetachOnCancel

theorem safe_spelled (cfg : Config) (s : St) (h : safe cfg s = true) :
    -- no access to the parent op after the receiver destroyed it (1), none to the detached state
    -- after it was freed (2), the stop callback destructed exactly once (6)
    s.bad = 0
    -- one winner; the detached state is freed at most once; the child is started at most once
    ∧ s.completions ≤ 1 ∧ s.frees ≤ 1 ∧ s.childStarts ≤ 1
    -- done is delivered only after the stop request was forwarded to the child's stop source
    ∧ (s.doneWins = 0 ∨ s.childStop = true)
    -- the detached state is never freed while the started child has not finished
    ∧ (s.frees = 0 ∨ s.childStarts = 0 ∨ s.childDone = 1)
    -- no deadlock (with `waitRcv`: the stop path does not wait for the child — "done at once")
    ∧ (((sys cfg).next s).isEmpty = true → final cfg s = true)
    -- at the end: completed once, parent destroyed, the abandoned child finished and its state
    -- freed exactly once, nothing left owned
    ∧ (final cfg s = true →
        s.completions = 1 ∧ s.parentFreed = true ∧ s.frees = 1 ∧ s.childDone = 1 ∧ s.owned = false) := by
  unfold safe at h
  simp only [Bool.and_eq_true, decide_eq_true_eq, Bool.or_eq_true, Bool.not_eq_true'] at h
  obtain ⟨⟨⟨⟨⟨⟨⟨h1, h2⟩, h3⟩, h4⟩, h5⟩, h6⟩, h7⟩, h8⟩ := h
  refine ⟨h1, h2, h3, h4, h5, ?_, ?_, ?_⟩
  · rcases h6 with (h6 | h6) | h6
    · exact Or.inl h6
    · exact Or.inr (Or.inl h6)
    · exact Or.inr (Or.inr h6)
  · intro hd
    rcases h7 with h7 | h7
    · simp [hd] at h7
    · exact h7
  · intro hf
    rcases h8 with h8 | h8
    · simp [hf] at h8
    · obtain ⟨⟨⟨⟨a, b⟩, c⟩, d⟩, e⟩ := h8
      exact ⟨a, b, c, d, e⟩

/-- `detach_done_at_once_child_freed_once` -/
theorem detach_done_at_once_child_freed_once (cfg : Config) (hs : ∀ s, Reach (sys cfg) s → safe cfg s = true) :
    ∀ s, Reach (sys cfg) s →
      s.completions ≤ 1 ∧ s.frees ≤ 1 ∧
      (((sys cfg).next s).isEmpty = true → final cfg s = true) ∧
      (final cfg s = true → s.completions = 1 ∧ s.frees = 1 ∧ s.childDone = 1) := by
  intro s h
  have hh := safe_spelled cfg s (hs s h)
  exact ⟨hh.2.1, hh.2.2.1, hh.2.2.2.2.2.2.1, fun hf =>
    let r := hh.2.2.2.2.2.2.2 hf; ⟨r.1, r.2.2.1, r.2.2.2.1⟩⟩

end DetachOnCancel

namespace Canary
open Unifex.Proto.Canary

theorem safe_spelled (cfg : Config) (s : St) (h : safe cfg s = true) :
    -- neither side touches the other object after it is gone; ~canary never returns under a guard
    s.bad = 0
    -- `guard_blocks_destructor_only_while_held` (first half): while a guard is held the canary's
    -- memory is not released
    ∧ (s.guardHeld = true → s.canaryFreed = false)
    -- `canary_dead_iff_destroyed`: alive() is falsy only if the canary's destructor has begun
    ∧ (s.aliveRes = 2 → s.deadAtAlive = true)
    -- `canary_no_deadlock` (second half of guard_blocks…: the destructor is blocked ONLY while held)
    ∧ (((sys cfg).next s).isEmpty = true → final cfg s = true)
    ∧ (final cfg s = true → s.canaryFreed = true ∧ s.watcherFreed = true ∧ s.guardHeld = false)
    -- guard objects: at most one refers to the watcher's state (a moved-from guard does not), and
    -- only while the guard is held
    ∧ (s.g1 = true → s.g2 = false)
    ∧ (s.g1 = true ∨ s.g2 = true → s.guardHeld = true) := by
  unfold safe at h
  simp only [Bool.and_eq_true, decide_eq_true_eq, Bool.or_eq_true, Bool.not_eq_true', ne_eq,
    decide_not] at h
  obtain ⟨⟨⟨⟨⟨⟨h1, h2⟩, hA⟩, hB⟩, h3⟩, h4⟩, h5⟩ := h
  refine ⟨h1, ?_, ?_, ?_, ?_, ?_, ?_⟩
  rotate_left 4
  · intro hg; revert hA; cases s.g2 <;> simp [hg]
  · intro hg; revert hB; cases s.guardHeld <;> rcases hg with hg | hg <;> simp [hg]
  · intro hg
    rcases h2 with h2 | h2
    · simp [hg] at h2
    · exact h2
  · intro ha
    rcases h3 with h3 | h3
    · simp [ha] at h3
    · exact h3
  · intro hd
    rcases h4 with h4 | h4
    · simp [hd] at h4
    · exact h4
  · intro hf
    rcases h5 with h5 | h5
    · simp [hf] at h5
    · exact ⟨h5.1.1, h5.1.2, h5.2⟩

end Canary

namespace StopOnRequest
open Unifex.Proto.StopOnRequest

theorem safe_spelled (cfg : Config) (s : St) (h : safe cfg s = true) :
    -- nobody touches the op after the receiver destroyed it; callbacks destructed exactly once
    s.bad = 0
    -- the first stop callback (or start() on its behalf) completes, once
    ∧ s.completions ≤ 1
    -- no deadlock: complete() waits only for callbacks that are running on other threads
    ∧ (((sys cfg).next s).isEmpty = true → final cfg s = true)
    ∧ (final cfg s = true → s.completions = 1 ∧ s.freed = true) := by
  unfold safe at h
  simp only [Bool.and_eq_true, decide_eq_true_eq, Bool.or_eq_true, Bool.not_eq_true'] at h
  obtain ⟨⟨⟨h1, h2⟩, h3⟩, h4⟩ := h
  refine ⟨h1, h2, ?_, ?_⟩
  · intro hd
    rcases h3 with h3 | h3
    · simp [hd] at h3
    · exact h3
  · intro hf
    rcases h4 with h4 | h4
    · simp [hf] at h4
    · exact h4

end StopOnRequest

end Unifex.Props.C19
