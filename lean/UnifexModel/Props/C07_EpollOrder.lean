/-
  Props/C07_EpollOrder.lean — property C07, io_epoll_context timers: two timers started in
  descending due-time order (the second becomes the earliest: timersAreDirty_, the OS timer is
  re-armed), clock 0..2.  ONLY property theorems.  `safe`: see `Props.C07_Epoll.safe_spelled`
  (never early, one completion each, timers_ sorted, no timer that is due waits for the clock).
-/
import UnifexModel.Proto.EpollTimer

namespace Unifex.Props.C07_EpollOrder
open Unifex.Core Unifex.Proto.EpollTimer

theorem ep_two_order_safe : ∀ s, Reach (sys cfgTwoOrder) s → safe cfgTwoOrder s = true :=
  safe_of_check _ { coded with M := 877 } 400 _ (by decide +kernel)

end Unifex.Props.C07_EpollOrder
