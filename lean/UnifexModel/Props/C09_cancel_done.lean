/-
  Props/C09_cancel_done.lean — property C09: await ‖ request_stop ‖ completion with DONE.
  See Props/C09_cancel.lean.
-/
import UnifexModel.Proto.SpawnFuture

namespace Unifex.Props.C09
open Unifex.Core Unifex.Proto.SpawnFuture

theorem cancel_done_safe : ∀ s, Reach (sys cfgCancelDone) s → safe cfgCancelDone s = true :=
  safe_of_check _ { coded with M := 1531 } 400 _ (by decide +kernel)

end Unifex.Props.C09
