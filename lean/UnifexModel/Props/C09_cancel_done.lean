/-
  Props/C09_cancel_done.lean — property C09: await ‖ request_stop ‖ completion with DONE.
  See Props/C09_cancel.lean.
-/
import UnifexModel.Proto.SpawnFuture

namespace Unifex.Props.C09
open Unifex.Core Unifex.Proto.SpawnFuture

theorem cancel_done_safe_modulo_uaf :
    ∀ s, Reach (sys cfgCancelDone) s → safeModUaf cfgCancelDone s = true :=
  safe_of_check _ { coded with M := 1531 } 400 _ (by decide +kernel)

theorem cancel_done_uaf :
    ∃ s, Reach (sys cfgCancelDone) s ∧ (s.uaf && final cfgCancelDone s) = true :=
  reach_of_run _ [1, 1, 0, 0, 1, 0, 0, 0, 2, 0, 2, 1, 1, 0, 0, 1, 0, 0] _ (by decide +kernel)

end Unifex.Props.C09
