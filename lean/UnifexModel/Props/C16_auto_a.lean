/-
  Props/C16_auto_a.lean — property C16, auto-reset event: instance theorem by reflection
  (split from Props/C16_auto.lean so that the kernel evaluations run in parallel).
-/
import UnifexModel.Proto.AutoReset
import UnifexModel.Lemmas.ReflectFast

namespace Unifex.Props.C16
open Unifex.Core Unifex.Proto.AutoReset

/-- one consumer (two next() calls), a producer calling set() twice, T0 ending the stream: `safe`
    (at most one next() per set(), DONE permanent, no deadlock = no stranded next(), done only when
    DONE) in every reachable state. -/
theorem ar_one_consumer_safe_inst : ∀ s, Reach (sys cfgOneConsumer) s → safe cfgOneConsumer s = true :=
  safe_of_checkC _ { coded with M := 809, W := 224 } 400 _ (by decide +kernel)

end Unifex.Props.C16
