/-
  Props/C07_EpollRace.lean — property C07, io_epoll_context timers: the ELECTION between
  `update_timers` (`fetch_add(timer_elapsed_flag)` on the I/O thread) and `request_stop_remote`
  (`fetch_add(cancel_pending_flag)` on a foreign thread), with the canceller sleeping until the due
  time so that both become possible at the same instant.  ONLY property theorems + non-vacuity.
  `safe`: see `Props.C07_Epoll.safe_spelled`; in particular `bad = 0` and `enq ≤ 1`: the operation
  is never enqueued twice, never executed after its completion, completes exactly once.
-/
import UnifexModel.Proto.EpollTimer

namespace Unifex.Props.C07_EpollRace
open Unifex.Core Unifex.Proto.EpollTimer

theorem ep_cancel_at_due_safe : ∀ s, Reach (sys cfgCancelAtDue) s → safe cfgCancelAtDue s = true :=
  safe_of_check _ { coded with M := 1307 } 400 _ (by decide +kernel)

/-- non-vacuity: a final state is reachable in which BOTH fetch_adds have happened (the timer
    elapsed and the remote cancel arrived) — the race is really inside the instance. -/
def bothFlagsWitness : List Nat :=
  [1, 1, 1, 0, 0, 0, 1, 0, 1, 0, 1, 1, 0, 0, 0, 0, 1, 0, 0, 0, 0, 0, 0, 1, 1, 1, 1, 0, 0, 0, 0, 0, 0, 0, 1, 0]

example : ∃ s, Reach (sys cfgCancelAtDue) s ∧ final cfgCancelAtDue s = true ∧
    (getOp s 0).elapsed = true ∧ (getOp s 0).cancelP = true ∧ (getOp s 0).completions = 1 := by
  have h : (match runChoices (sys cfgCancelAtDue) (sys cfgCancelAtDue).init bothFlagsWitness with
      | some (_, s) => final cfgCancelAtDue s && (getOp s 0).elapsed && (getOp s 0).cancelP &&
          decide ((getOp s 0).completions = 1)
      | none => false) = true := by decide +kernel
  cases hr : runChoices (sys cfgCancelAtDue) (sys cfgCancelAtDue).init bothFlagsWitness with
  | none => simp [hr] at h
  | some p =>
    obtain ⟨ls, s⟩ := p
    simp only [hr, Bool.and_eq_true, decide_eq_true_eq] at h
    exact ⟨s, runChoices_reach _ _ _ _ _ Reach.init hr, h.1.1.1, h.1.1.2, h.1.2, h.2⟩

/-- NEGATIVE theorem (the model is sensitive to the election): in the variant of the instance in
    which update_timers does NOT test `cancel_pending_flag` of the old state (the branch
    "already cancelled by a remote thread → continue" is dead), a state with `bad = 2` is reachable:
    the operation is put on the ready queue while it is already on the remote queue — two winners. -/
def slipWitness : List Nat := [1, 1, 1, 0, 0, 0, 1, 0, 1, 0, 1, 1, 0, 0, 1, 0]

theorem election_test_needed : ∃ s, Reach (sys cfgCancelAtDueSlip) s ∧ s.bad = 2 ∧
    safe cfgCancelAtDueSlip s = false := by
  have h : (match runChoices (sys cfgCancelAtDueSlip) (sys cfgCancelAtDueSlip).init slipWitness with
      | some (_, s) => decide (s.bad = 2) && !safe cfgCancelAtDueSlip s
      | none => false) = true := by decide +kernel
  cases hr : runChoices (sys cfgCancelAtDueSlip) (sys cfgCancelAtDueSlip).init slipWitness with
  | none => simp [hr] at h
  | some p =>
    obtain ⟨ls, s⟩ := p
    simp only [hr, Bool.and_eq_true, decide_eq_true_eq, Bool.not_eq_true'] at h
    exact ⟨s, runChoices_reach _ _ _ _ _ Reach.init hr, h.1, h.2⟩

end Unifex.Props.C07_EpollRace
