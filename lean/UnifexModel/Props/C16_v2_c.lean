/-
  Props/C16_v2_c.lean — property C16, v2 event: instance theorem by reflection (split from
  Props/C16_v2.lean so that the kernel evaluations run in parallel).
-/
import UnifexModel.Proto.EventV2
import UnifexModel.Lemmas.ReflectFast

namespace Unifex.Props.C16
open Unifex.Core Unifex.Proto.EventV2

/-- the event is constructed signalled and never reset; two ready() probes race with a late wait
    (whose push_front_unless_latched goes through the head link) and a redundant set(): `safe` and
    `affine` in every reachable state — in particular `bad ≠ 7`: ready() never answers false when a
    set() had returned before the call began and no reset() began before it returned (ready() is a
    linearizable observation of "the event is set"), and the late wait completes with value. -/
theorem v2_ready_busy_safe_inst :
    ∀ s, Reach (sys cfgReadyBusy) s → (safe cfgReadyBusy s && affine s) = true :=
  safe_of_checkC _ { coded with M := 401, W := 240 } 400 _ (by decide +kernel)

end Unifex.Props.C16
