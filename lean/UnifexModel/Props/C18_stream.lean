/-
  Props/C18_stream.lean — property C18, type_erased_stream with elements that have a lifetime:
  the consumer of `type_erase<T>(S)` — any number of erasure layers deep — is handed live objects
  carrying exactly the values the wrapped stream produced.  ONLY property theorems + examples.
  Model: Proto/ErasedStream.lean (the wrapped next() operation keeps the element in its operation
  state and completes with a reference to it; each layer copies, destroys the wrapped operation,
  forwards the copy).  For EVERY number of layers L and EVERY sequence of next / fire / cleanup
  operations, including scripted throwing element moves.
-/
import UnifexModel.Proto.ErasedStreamLemmas

namespace Unifex.Props.C18
open Unifex.Proto.ErasedStream

/-- **The consumer never sees a destroyed (or not yet constructed) element and always reads the
    element's own value**: over a whole run no read of / move from a dead object and no read of a
    wrong value ever happens (the two history counters are folds of the event trace). -/
theorem erased_stream_reads_live (L : Nat) (ops : List Op) :
    (run L St.init ops).1.deadReads = 0 ∧ (run L St.init ops).1.wrongReads = 0 :=
  ⟨(run_inv L St.init ops init_inv).dead, (run_inv L St.init ops init_inv).wrong⟩

/-- **Every element object (the one in the source's operation state and every by-value copy a layer
    makes) is destroyed exactly once by the end of the operation that created it**, and none before
    it exists. -/
theorem erased_stream_elements_destroyed_once (L : Nat) (ops : List Op) (id : Nat) :
    (run L St.init ops).1.dcnt id = if id < (run L St.init ops).1.next then 1 else 0 := by
  have h := run_inv L St.init ops init_inv
  by_cases hlt : id < (run L St.init ops).1.next
  · simp [hlt, h.done id hlt]
  · simp [hlt, h.hi id (by omega)]

/-- the layers move the element, they never copy it -/
theorem erased_stream_no_copies (L : Nat) (ops : List Op) : (run L St.init ops).1.copies = 0 :=
  (run_inv L St.init ops init_inv).nocopy

/-- **type_erased_stream is transparent for the consumer**: for every number of layers and every
    op sequence without a scripted throwing move, the per-operation results (value / done / error /
    pending / cleanup result / rejected) and the values the consumer read are exactly those of the
    wrapped stream used directly (L = 0). -/
theorem erased_stream_transparent (L : Nat) (ops : List Op) (h : ∀ op ∈ ops, op.noThrow = true) :
    (run L St.init ops).2.map Out.obs = (run 0 St.init ops).2.map Out.obs :=
  run_obs L ops St.init St.init rfl rfl (by intro it thr hp; simp [St.init] at hp) h

/-- a layer whose by-value copy throws forwards the exception as set_error and the consumer reads
    nothing: exceptions of the element's move propagate, they are not swallowed -/
theorem erased_stream_throw_becomes_error (L n v : Nat) :
    (completeEvs (L + 1) n 1 (.value v)).2 = .error v ∧ readsOf (completeEvs (L + 1) n 1 (.value v)).1 = [] := by
  simp [completeEvs, deliverEvs, readsOf]

/-- non-vacuity (and the worked example of the line protocol): two layers, one inline value, one
    pending value whose second move throws -/
example :
    (run 2 St.init [.next (.value 5) false 0, .next (.value 7) true 2, .fire, .cleanup none]).2 =
      [⟨[.ctor 0 5, .move 1 0, .dtor 0, .move 2 1, .read 2 5, .dtor 2, .dtor 1], .value 5⟩,
       ⟨[], .pending⟩,
       ⟨[.ctor 3 7, .move 4 3, .dtor 3, .sigErr 7, .dtor 4], .error 7⟩,
       ⟨[], .cleaned⟩] := by decide

end Unifex.Props.C18
