/-
  Props/C16_pass.lean — property C16, part 4: async_pass (tagged-word rendezvous + cancellable<> +
  completion_forwarder).  ONLY property theorems and examples.  Model: Proto/AsyncPass.lean.

  All theorems are PER INSTANCE (kernel-evaluated closure, every schedule of every length); the two
  cancellation instances are in Props/C16_pass_a.lean / Props/C16_pass_b.lean.

  `call_value_iff_accepted` holds in both directions (`safe` gives value ⇒ handed over and
  cancelled ⇒ untouched, `faithful` gives handed over ⇒ not done) in every instance, including the
  two cancellation instances, for the code as it stands since /repo commit b17d5ba
  (completion_forwarder's reschedule is unstoppable).  Before that fix the converse direction
  failed (DESIGN §8 #3); the scenarios' monitors for it are kept, so a regression is a VIOLATION.
-/
import UnifexModel.Proto.AsyncPass
import UnifexModel.Lemmas.ReflectFast

namespace Unifex.Props.C16
open Unifex.Core Unifex.Proto.AsyncPass

/-- What `faithful` says, spelled out. -/
theorem pass_faithful_spelled (s : St) (h : faithful s = true) :
    -- `call_value_iff_accepted` (⇐): a call whose payload was handed over does not report done …
    (s.transferred = true → (getP s 0).outcome ≠ 2)
    -- … and an accept that was handed a payload does not report done (the payload is not dropped)
    ∧ ((getP s 1).payload ≠ 0 → (getP s 1).outcome ≠ 2)
    -- (the same for a second acceptor, where a configuration has one)
    ∧ ((getP s 2).payload ≠ 0 → (getP s 2).outcome ≠ 2) := by
  unfold faithful at h
  simp only [Bool.and_eq_true, Bool.not_eq_true', Bool.and_eq_false_iff, beq_eq_false_iff_ne,
    bne_eq_false_iff_eq, ne_eq] at h
  refine ⟨fun ht => ?_, fun hp => ?_, fun hp => ?_⟩
  · rcases h.1.1 with h1 | h1
    · rw [ht] at h1; cases h1
    · exact h1
  · rcases h.1.2 with h2 | h2
    · exact absurd h2 hp
    · exact h2
  · rcases h.2 with h2 | h2
    · exact absurd h2 hp
    · exact h2

/-- What `slotOk` says, spelled out. -/
theorem pass_slot_spelled (s : St) (h : slotOk s = true) :
    -- a party is marked parked (stored itself, neither claimed nor un-claimed since) exactly when it IS
    -- the content of the word: nobody is wiped out of the slot, nobody is in it without having parked
    (∀ k, k < s.ps.length → ((getP s k).parked = true ↔ s.word = k + 1))
    ∧ s.word ≤ s.ps.length := by
  unfold slotOk at h
  simp only [Bool.and_eq_true, List.all_eq_true, List.mem_range, decide_eq_true_eq, beq_iff_eq] at h
  refine ⟨fun k hk => ?_, h.2⟩
  have := h.1 k hk
  constructor
  · intro hp; rw [hp] at this; exact of_decide_eq_true this.symm
  · intro hw; rw [this]; exact decide_eq_true hw

/-- What `safe` says, spelled out. -/
theorem pass_safe_spelled (cfg : Config) (s : St) (h : safe cfg s = true) :
    s.bad = 0
    ∧ (((sys cfg).next s).isEmpty = true → final cfg s = true)
    ∧ (final cfg s = true →
        (cfg.present.getD 0 false = true → (getP s 0).count = 1) ∧
        (cfg.present.getD 1 false = true →
          (getP s 1).count = 1 ∨ (cfg.gatedAcceptor = true ∧ s.transferred = false)))
    ∧ ((getP s 0).outcome = 1 → s.transferred = true)
    ∧ ((getP s 1).outcome = 1 → (getP s 1).got ≠ 0 ∧ ((getP s 1).got = 1 → s.transferred = true))
    ∧ ((getP s 0).cancelled = true → s.transferred = false)
    ∧ ((getP s 1).cancelled = true → (getP s 1).payload = 0)
    ∧ slotOk s = true := by
  unfold safe at h
  simp only [Bool.and_eq_true, Bool.or_eq_true, decide_eq_true_eq, Bool.not_eq_true', beq_iff_eq,
    bne_iff_ne, ne_eq, Bool.not_eq_eq_eq_not, Bool.not_true] at h
  obtain ⟨⟨⟨⟨⟨⟨⟨⟨h1, h2⟩, h3⟩, h4⟩, h5⟩, h6⟩, h7⟩, _⟩, h9⟩ := h
  refine ⟨h1, ?_, ?_, ?_, ?_, ?_, ?_, h9⟩
  · intro hd
    rcases h2 with h2 | h2
    · rw [hd] at h2; cases h2
    · exact h2
  · intro hf
    rcases h3 with h3 | h3
    · rw [hf] at h3; cases h3
    · refine ⟨fun hp => ?_, fun hp => ?_⟩
      · rcases h3.1.1 with h | h
        · rw [hp] at h; cases h
        · exact h
      · rcases h3.1.2 with (h | h) | h
        · rw [hp] at h; cases h
        · exact Or.inl h
        · exact Or.inr h
  · intro ho
    rcases h4 with h | h
    · exact absurd ho h
    · exact h
  · intro ho
    rcases h5 with h | h
    · exact absurd ho h
    · refine ⟨h.1, fun hg => ?_⟩
      rcases h.2 with h' | h'
      · exact absurd hg h'
      · exact h'
  · intro hc
    rcases h6 with h | h
    · rw [hc] at h; cases h
    · exact h
  · intro hc
    rcases h7 with h | h
    · rw [hc] at h; cases h
    · exact h
/-- one call meets one accept, no stop tokens: `safe` and `faithful` (here the full
    `call_value_iff_accepted` / `pass_payload_to_exactly_one`) in every reachable state. -/
theorem pass_rendezvous_safe_inst :
    ∀ s, Reach (sys cfgRendezvous) s → (safe cfgRendezvous s && faithful s) = true :=
  safe_of_checkC _ { coded with M := 83, W := 192 } 400 _ (by decide +kernel)

/-- try_call racing with the start of an accept (`try_succeeds_iff_counterpart_waiting`: the try
    claims exactly when the word holds the acceptor; T0's later try must succeed). -/
theorem pass_try_call_safe_inst :
    ∀ s, Reach (sys cfgTryCall) s → (safe cfgTryCall s && faithful s) = true :=
  safe_of_checkC _ { coded with M := 127, W := 192 } 400 _ (by decide +kernel)

/-- try_accept racing with the start of a call. -/
theorem pass_try_accept_safe_inst :
    ∀ s, Reach (sys cfgTryAccept) s → (safe cfgTryAccept s && faithful s) = true :=
  safe_of_checkC _ { coded with M := 127, W := 192 } 400 _ (by decide +kernel)

/-- non-vacuity of `cancel_leaves_other_waiting`: the call is cancelled before any hand-over, the
    acceptor stays claimable and later receives T0's try_call payload (2). -/
def passCancelWitness : List Nat := [0, 1, 2, 2, 0, 0, 0, 0, 0, 0, 0, 0, 0, 0, 0, 0, 0, 0, 0, 0, 0, 0, 0, 0]

example : ∃ s, Reach (sys cfgCancelCall) s ∧ final cfgCancelCall s = true ∧ s.transferred = false ∧
    (getP s 0).outcome = 2 ∧ (getP s 1).got = 2 := by
  have h : (match runChoices (sys cfgCancelCall) (sys cfgCancelCall).init passCancelWitness with
      | some (_, s) => final cfgCancelCall s && !s.transferred && decide ((getP s 0).outcome = 2) &&
                       decide ((getP s 1).got = 2)
      | none => false) = true := by
    decide +kernel
  cases hr : runChoices (sys cfgCancelCall) (sys cfgCancelCall).init passCancelWitness with
  | none => simp [hr] at h
  | some p =>
    obtain ⟨ls, s⟩ := p
    simp only [hr, Bool.and_eq_true, decide_eq_true_eq, Bool.not_eq_true'] at h
    exact ⟨s, runChoices_reach _ _ _ _ _ Reach.init hr, h.1.1.1, h.1.1.2, h.1.2, h.2⟩

/-- non-vacuity of the late-stop case: the stop request for the caller arrives AFTER the hand-over
    (during the reschedule window); the call still completes with value and the acceptor got payload 1. -/
def passLateStopWitness : List Nat := [0, 0, 1, 1, 0, 0, 0, 0, 0, 0, 0, 0, 0, 0, 0, 0, 0]

example : ∃ s, Reach (sys cfgCancelCall) s ∧ final cfgCancelCall s = true ∧ s.transferred = true ∧
    (getP s 0).stopReq = true ∧ (getP s 0).outcome = 1 ∧ (getP s 1).got = 1 := by
  have h : (match runChoices (sys cfgCancelCall) (sys cfgCancelCall).init passLateStopWitness with
      | some (_, s) => final cfgCancelCall s && s.transferred && (getP s 0).stopReq &&
                       decide ((getP s 0).outcome = 1) && decide ((getP s 1).got = 1)
      | none => false) = true := by
    decide +kernel
  cases hr : runChoices (sys cfgCancelCall) (sys cfgCancelCall).init passLateStopWitness with
  | none => simp [hr] at h
  | some p =>
    obtain ⟨ls, s⟩ := p
    simp only [hr, Bool.and_eq_true, decide_eq_true_eq] at h
    exact ⟨s, runChoices_reach _ _ _ _ _ Reach.init hr, h.1.1.1.1, h.1.1.1.2, h.1.1.2, h.1.2, h.2⟩

end Unifex.Props.C16
