/-
  Props/C07.lean — property C07: timers never fire early, fire in due-time order, cancel promptly,
  once.  ONLY property theorems and non-vacuity examples.

  Part 1 (PARAMETRIC — every queue, every item, by induction): the sorted timer queue
  `Proto/TimerQueue.insertStable / remove / pop / cancel`, the one definition that
  timed_single_thread_context::enqueue, thread_unsafe_event_loop::enqueue and
  intrusive_heap::insert/remove/pop are differentially compared against on every check.

  Part 2 (INSTANCES, by reflection — every schedule of every length of the instance, the reachable
  set is computed and re-checked by Lean's kernel): `Proto/TimerOp`, the monitor-step model of
  timed_single_thread_context with the clock as an environment step.  More instances in
  Props/C07_Cancel.lean and Props/C07_TwoCancel.lean (separate files: they build in parallel).

  Clock arithmetic (about GENERATED code): Props/C07_Clock.lean.
-/
import UnifexModel.Proto.TimerQueue
import UnifexModel.Proto.TimerOp

namespace Unifex.Props.C07
open Unifex.Core Unifex.Proto
open Unifex.Proto.TimerQueue (Item Queue Sorted insertStable remove pop cancel find Op step run)

/-! ### Part 1: the sorted, stable timer queue (parametric) -/

/-- inserting keeps the queue in ascending due-time order -/
theorem insert_sorted (x : Item) (q : Queue) (h : Sorted q) : Sorted (insertStable x q) :=
  TimerQueue.insert_sorted x q h

/-- inserting adds exactly the new item: the result is a permutation of `x :: q` -/
theorem insert_perm (x : Item) (q : Queue) : (insertStable x q).Perm (x :: q) :=
  TimerQueue.insert_perm x q

/-- inserting is STABLE: in every class of equal due times the items already queued keep their
    order and the new item goes last in its class — ties are first-in first-out -/
theorem insert_stable (x : Item) (q : Queue) (h : Sorted q) (d : Int) :
    (insertStable x q).filter (fun y => decide (y.due = d)) =
      q.filter (fun y => decide (y.due = d)) ++ (if x.due = d then [x] else []) :=
  TimerQueue.insert_stable x q h d

/-- inserting never reorders the items already queued -/
theorem insert_keeps_order (x : Item) (q : Queue) : q.Sublist (insertStable x q) :=
  TimerQueue.insert_sublist x q

/-- `pop` returns an item whose due time is minimal, and leaves a sorted queue -/
theorem pop_min (q r : Queue) (x : Item) (h : Sorted q) (hp : pop q = some (x, r)) :
    (∀ y ∈ r, x.due ≤ y.due) ∧ Sorted r ∧ q = x :: r :=
  TimerQueue.pop_min q r x h hp

/-- removing an item keeps the queue sorted and the others in order -/
theorem remove_sorted (i : Nat) (q : Queue) (h : Sorted q) :
    Sorted (remove i q) ∧ (remove i q).Sublist q ∧ ∀ y, y ∈ remove i q ↔ (y ∈ q ∧ y.id ≠ i) :=
  ⟨TimerQueue.remove_sorted i q h, TimerQueue.remove_sublist i q, TimerQueue.mem_remove i q⟩

/-- the stop callback ("due := now, unlink, insert again" if not yet due) keeps the queue sorted,
    and neither loses nor duplicates an item -/
theorem cancel_sorted_perm (now : Int) (i : Nat) (q : Queue) (h : Sorted q)
    (hnd : (q.map (·.id)).Nodup) :
    Sorted (cancel now i q) ∧ ((cancel now i q).map (·.id)).Perm (q.map (·.id)) :=
  ⟨TimerQueue.cancel_sorted now i q h, TimerQueue.cancel_ids now i q hnd⟩

/-- a cancelled item that was not yet due ends up due `now`, behind the items already due and in
    front of EVERY item due later than `now`: it does not wait for its original due time -/
theorem cancel_overtakes_later (now : Int) (i : Nat) (q : Queue) (h : Sorted q) (it : Item)
    (hf : find i q = some it) (hlt : now < it.due) :
    ∃ pre post, cancel now i q = pre ++ { it with due := now } :: post ∧
      (∀ y ∈ pre, y.due ≤ now) ∧ (∀ y ∈ post, now < y.due) :=
  TimerQueue.cancel_before_later now i q h it hf hlt

/-- whatever sequence of insert / remove / pop / cancel operations is applied, the queue stays
    sorted — hence every `pop` in the sequence returned a minimum of the queue at that moment, and
    draining yields non-decreasing due times -/
theorem machine_sorted (os : List Op) : Sorted (run [] os).1 :=
  TimerQueue.run_sorted [] os (by simp [Sorted])

theorem drain_nondecreasing (q : Queue) (h : Sorted q) : (q.map (·.due)).Pairwise (· ≤ ·) :=
  TimerQueue.drain_nondecreasing q h

/-! ### Part 2: timed_single_thread_context, all interleavings (instances) -/

open Unifex.Proto.TimerOp in
/-- What `TimerOp.safe` says, spelled out. -/
theorem safe_spelled (cfg : TimerOp.Config) (s : TimerOp.St) (h : TimerOp.safe cfg s = true) :
    -- no set_value before the due time; every dequeued item was a minimum of the queue; a stop
    -- callback is never destroyed before it was constructed; no completion is delivered while the
    -- context still links the item; no set_value after request_stop() had returned
    s.bad = 0
    -- every operation completes at most once
    ∧ (∀ c ∈ s.items, c.completions ≤ 1)
    -- the queue is in ascending due-time order
    ∧ sortedB s.queue = true
    -- after its completion nothing refers to an item: not linked, callback destroyed, no thread
    -- inside its stop callback
    ∧ (∀ i, i < s.items.length → (getIt s i).completions ≠ 0 →
         (getIt s i).queued = false ∧ (getIt s i).cb = 4 ∧ inCallback s i = false)
    -- cancel promptly / no lost wake-up: while a due item is queued, or request_stop() has
    -- returned for an item that has not completed, some THREAD can move (progress does not
    -- wait for the clock)
    ∧ ((s.queue.any (fun y => decide (y.due ≤ (s.now : Int))) = true ∨
        s.items.any (fun c => c.stopRet && c.completions == 0) = true) →
         (threadSteps cfg s).isEmpty = false)
    -- no deadlock
    ∧ (((sys cfg).next s).isEmpty = true → final cfg s = true)
    -- at the end every operation has completed exactly once and the queue is empty
    ∧ (final cfg s = true → (∀ c ∈ s.items, c.completions = 1) ∧ s.queue = []) := by
  unfold TimerOp.safe at h
  simp only [Bool.and_eq_true, decide_eq_true_eq, List.all_eq_true, Bool.or_eq_true,
    Bool.not_eq_true', List.mem_range, beq_iff_eq] at h
  obtain ⟨⟨⟨⟨⟨⟨⟨h1, h2⟩, h3⟩, _h4⟩, h5⟩, h6⟩, h7⟩, h8⟩ := h
  refine ⟨h1, h2, h3, ?_, ?_, ?_, ?_⟩
  · intro i hi hc
    rcases h5 i hi with h | h
    · exact absurd h hc
    · exact ⟨h.1.1, h.1.2, h.2⟩
  · intro hq
    rcases h6 with h | h
    · rcases hq with hq | hq
      · rw [h.1] at hq; cases hq
      · rw [h.2] at hq; cases hq
    · exact h
  · intro hd
    rcases h7 with h | h
    · rw [hd] at h; cases h
    · exact h
  · intro hf
    rcases h8 with h | h
    · rw [hf] at h; cases h
    · exact ⟨h.1, List.isEmpty_iff.mp h.2⟩

open Unifex.Proto.TimerOp in
/-- two timers with equal due times: every interleaving of start, the timer thread and the clock -/
theorem two_equal_safe : ∀ s, Reach (sys cfgTwoEqual) s → safe cfgTwoEqual s = true :=
  safe_of_check _ { coded with M := 251 } 400 _ (by decide +kernel)

open Unifex.Proto.TimerOp in
/-- two timers started in descending due-time order (the second becomes the new head) -/
theorem two_order_safe : ∀ s, Reach (sys cfgTwoOrder) s → safe cfgTwoOrder s = true :=
  safe_of_check _ { coded with M := 509 } 400 _ (by decide +kernel)

end Unifex.Props.C07
