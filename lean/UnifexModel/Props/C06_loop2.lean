/-
  Props/C06_loop2.lean — C06, manual_event_loop / single_thread_context instances (part 2):
  stop() racing with the producers (what was accepted before the stop still runs before run()
  returns), and single_thread_context (destructor = stop + join).
-/
import UnifexModel.Proto.EventLoop

namespace Unifex.Props.C06
open Unifex.Core Unifex.Proto.EventLoop

theorem loop_stop_race_safe : ∀ s, Reach (sys cfgLoopStopRace) s → safe cfgLoopStopRace s = true :=
  safe_of_check _ { coded with M := 751, W := 200 } 400 _ (by decide +kernel)

/-- single_thread_context, client waits for each completion, then destroys the context -/
theorem stc_wait_safe : ∀ s, Reach (sys cfgStcWait) s → safe cfgStcWait s = true :=
  safe_of_check _ { coded with M := 127, W := 200 } 400 _ (by decide +kernel)

end Unifex.Props.C06
