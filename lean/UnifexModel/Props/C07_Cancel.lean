/-
  Props/C07_Cancel.lean — property C07, instances of Proto/TimerOp with a stop request:
  a remote `request_stop()` racing `start()`, the timer thread's dequeue and the clock; and stop
  requested BEFORE start (callback executed inline in its constructor).
  ONLY property theorems + non-vacuity examples.  `safe` is spelled out in `Props.C07.safe_spelled`.
  Every `*_safe` theorem quantifies over every reachable state = every schedule of every length.
-/
import UnifexModel.Proto.TimerOp

namespace Unifex.Props.C07_Cancel
open Unifex.Core Unifex.Proto.TimerOp

/-- one timer (due 1), canceller thread, timer thread, clock 0..1 -/
theorem one_cancel_safe : ∀ s, Reach (sys cfgOneCancel) s → safe cfgOneCancel s = true :=
  safe_of_check _ { coded with M := 1021 } 400 _ (by decide +kernel)

/-- stop requested before start(), due time in the future -/
theorem stop_before_start_safe :
    ∀ s, Reach (sys cfgStopBeforeStart) s → safe cfgStopBeforeStart s = true :=
  safe_of_check _ { coded with M := 251 } 400 _ (by decide +kernel)

/-- non-vacuity: in `one_cancel` a final state is reachable in which the operation has completed
    at time 0 — before its due time 1 — after `request_stop()` returned: the cancelled timer did
    not wait (by `bad = 0` it completed with set_done). -/
def oneCancelWitness : List Nat := [0, 2, 2, 1, 0, 0, 0, 0, 0, 0, 0, 0, 0, 0, 0]

example : ∃ s, Reach (sys cfgOneCancel) s ∧ final cfgOneCancel s = true ∧ s.now = 0 ∧
    (getIt s 0).completions = 1 ∧ (getIt s 0).stopRet = true := by
  have h : (match runChoices (sys cfgOneCancel) (sys cfgOneCancel).init oneCancelWitness with
      | some (_, s) => final cfgOneCancel s && decide (s.now = 0) && decide ((getIt s 0).completions = 1) &&
          (getIt s 0).stopRet
      | none => false) = true := by decide +kernel
  cases hr : runChoices (sys cfgOneCancel) (sys cfgOneCancel).init oneCancelWitness with
  | none => simp [hr] at h
  | some p =>
    obtain ⟨ls, s⟩ := p
    simp only [hr, Bool.and_eq_true, decide_eq_true_eq] at h
    exact ⟨s, runChoices_reach _ _ _ _ _ Reach.init hr, h.1.1.1, h.1.1.2, h.1.2, h.2⟩

/-- non-vacuity: stop before start completes (done) at time 0 although the due time is 1 -/
def stopBeforeStartWitness : List Nat := [0, 0, 0, 0, 0, 0, 0, 0, 0, 0, 0, 0, 0, 0, 0]

example : ∃ s, Reach (sys cfgStopBeforeStart) s ∧ final cfgStopBeforeStart s = true ∧ s.now = 0 := by
  have h : (match runChoices (sys cfgStopBeforeStart) (sys cfgStopBeforeStart).init stopBeforeStartWitness with
      | some (_, s) => final cfgStopBeforeStart s && decide (s.now = 0)
      | none => false) = true := by decide +kernel
  cases hr : runChoices (sys cfgStopBeforeStart) (sys cfgStopBeforeStart).init stopBeforeStartWitness with
  | none => simp [hr] at h
  | some p =>
    obtain ⟨ls, s⟩ := p
    simp only [hr, Bool.and_eq_true, decide_eq_true_eq] at h
    exact ⟨s, runChoices_reach _ _ _ _ _ Reach.init hr, h.1, h.2⟩

end Unifex.Props.C07_Cancel
