/-
  Props/C12.lean — property C12: receiver queries reach all children.
  ONLY property theorems + non-vacuity examples.  Model: Calc/Sem.lean (`Env.tag` is the answer to a
  user-defined query CPO; `leafStart i stopped tag` is what leaf `i` observes through its receiver
  at start()).  Invariant machinery: Calc/TagInv.lean.
-/
import UnifexModel.Calc.TagInv

namespace Unifex.Props.C12
open Unifex.Calc

variable (specs : Nat → LeafSpec)

/-- the documented answer for each leaf: the root receiver's answer, except below a
    `with_query_value`, which replaces it for exactly its own subtree (innermost wins) -/
def leafTags : Expr → Nat → List (Nat × Nat)
  | .const _, _ => []
  | .leaf i, t => [(i, t)]
  | .un k c, t => leafTags c (k.childTag t)
  | .bin _ a b, t => leafTags a t ++ leafTags b t

theorem tagInv_connect (Exp : Nat → Nat → Prop) :
    ∀ (e : Expr) (t : Nat), (∀ p ∈ leafTags e t, Exp p.1 p.2) → TagInv Exp (connect e) t
  | .const _, _, _ => by simp [connect, TagInv]
  | .leaf i, t, h => by simpa [connect, TagInv, leafTags] using h
  | .un k c, t, h => by
    simp only [connect, TagInv]
    exact tagInv_connect Exp c _ (by simpa [leafTags] using h)
  | .bin k a b, t, h => by
    simp only [connect, TagInv, BinSt.init]
    refine ⟨tagInv_connect Exp a t ?_, tagInv_connect Exp b t ?_, by simp⟩
    · intro p hp; exact h p (by simp [leafTags, hp])
    · intro p hp; exact h p (by simp [leafTags, hp])

/-- run a list of events, collecting all outputs -/
def allOuts (op : Op) : List Ev → List Out
  | [] => []
  | ev :: evs => (deliver specs (op.height + 1) ev op).2.1 ++ allOuts (deliver specs (op.height + 1) ev op).1 evs

/-- **Queries are forwarded**: in every run of every expression — whatever the leaf scripts and the
    external events — every leaf observes, through the receiver it was connected with, exactly the
    documented answer: the root receiver's, or the innermost enclosing with_query_value's. -/
theorem queries_forwarded (e : Expr) (t : Nat) (evs : List Ev)
    (hev : ∀ ev ∈ evs, ∀ env, ev = .start env → env.tag = t) :
    ∀ i s g, Out.leafStart i s g ∈ allOuts specs (connect e) evs → (i, g) ∈ leafTags e t := by
  let Exp : Nat → Nat → Prop := fun i g => (i, g) ∈ leafTags e t
  have key : ∀ (evs : List Ev) (op : Op), TagInv Exp op t →
      (∀ ev ∈ evs, ∀ env, ev = .start env → env.tag = t) → OutsOk Exp (allOuts specs op evs) := by
    intro evs
    induction evs with
    | nil => intro op _ _; exact outsOk_nil Exp
    | cons ev evs ih =>
      intro op hop hevs
      have := (recTag_deliver specs Exp (op.height + 1)).inv ev op t hop (hevs ev List.mem_cons_self)
      exact outsOk_append Exp this.2 (ih _ this.1 (fun ev' h' => hevs ev' (List.mem_cons_of_mem _ h')))
  exact key evs (connect e) (tagInv_connect Exp e t (fun p hp => hp)) hev

/-- **The replacement is exactly the documented one**: an adaptor other than with_query_value does
    not change the answer its child sees … -/
theorem only_with_query_value_replaces (k : UnKind) (t : Nat) (h : ∀ q, k ≠ .withTag q) : k.childTag t = t := by
  cases k <;> simp_all [UnKind.childTag]

/-- … and with_query_value replaces it for its own subtree, whatever is above -/
theorem with_query_value_replaces (q t : Nat) (c : Expr) : leafTags (.un (.withTag q) c) t = leafTags c q := rfl

/-- without any with_query_value, every leaf sees the root receiver's answer -/
def NoTag : Expr → Prop
  | .const _ => True
  | .leaf _ => True
  | .un k c => (∀ q, k ≠ .withTag q) ∧ NoTag c
  | .bin _ a b => NoTag a ∧ NoTag b

theorem root_answer_everywhere : ∀ (e : Expr) (t : Nat), NoTag e → ∀ p ∈ leafTags e t, p.2 = t
  | .const _, _, _, p, hp => by simp [leafTags] at hp
  | .leaf i, t, _, p, hp => by simp [leafTags] at hp; simp [hp]
  | .un k c, t, h, p, hp => by
    simp only [leafTags, only_with_query_value_replaces k t h.1] at hp
    exact root_answer_everywhere c t h.2 p hp
  | .bin _ a b, t, h, p, hp => by
    simp only [leafTags, List.mem_append] at hp
    rcases hp with hp | hp
    · exact root_answer_everywhere a t h.1 p hp
    · exact root_answer_everywhere b t h.2 p hp

/-- the stop token is the one query that unstoppable / when_all / stop_when / let_value_with_stop_source
    replace; the custom query is untouched by them -/
example : leafTags (.un .unstoppable (.bin .whenAll (.leaf 1) (.un (.withTag 9) (.bin .stopWhen (.leaf 2) (.leaf 3))))) 7
    = [(1, 7), (2, 9), (3, 9)] := by decide

end Unifex.Props.C12
