/-
  Props/C05.lean — property C05: algorithm results equal the documented function of their
  children's results.  ONLY property theorems + non-vacuity examples.
-/
import UnifexModel.Calc.Spec
import UnifexModel.Calc.Lemmas

namespace Unifex.Props.C05
open Unifex.Calc

variable (specs : Nat → LeafSpec)

/-! ### 1. Unary adaptors: the function runs exactly on the matching channel; the other channels are
    forwarded unchanged (then / upon_error / upon_done / done_as_optional / materialize∘dematerialize /
    unstoppable / with_query_value / let_value_with_stop_source / type erasure). -/

theorem then_runs_iff_value (f : Fn) (o : Outcome) :
    (UnKind.thenF f).map o = (match o with | .value v => f.app v | o => o) := by
  cases o <;> rfl

theorem upon_error_runs_iff_error (f : Fn) (o : Outcome) :
    (UnKind.uponError f).map o = (match o with | .error e => f.app e | o => o) := by
  cases o <;> rfl

theorem upon_done_runs_iff_done (f : Fn) (o : Outcome) :
    (UnKind.uponDone f).map o = (match o with | .done => f.app 0 | o => o) := by
  cases o <;> rfl

/-- upon_done with a callable that returns v / that throws e -/
theorem upon_done_value (v : Nat) : (UnKind.uponDone (.const v)).map .done = .value v := rfl
theorem upon_done_throw_becomes_set_error (e : Nat) : (UnKind.uponDone (.throwAlways e)).map .done = .error e := rfl

/-- materialize() turns every completion of its child into a VALUE (observed here by `then`): in particular a child
    that completes with done does not make the materialized sender complete with done -/
theorem materialize_turns_every_channel_into_a_value (o : Outcome) :
    UnKind.matObs.map o = (match o with | .value v => .value v | .error e => .value (e + 100) | .done => .value 77) := by
  cases o <;> rfl

/-- a throwing callable becomes set_error -/
theorem throw_becomes_set_error (e v : Nat) : (UnKind.thenF (.throwAlways e)).map (.value v) = .error e := rfl

theorem transparent_adaptors (o : Outcome) :
    UnKind.matDemat.map o = o ∧ UnKind.unstoppable.map o = o ∧ UnKind.withSrc.map o = o ∧
    UnKind.erase.map o = o ∧ ∀ q, (UnKind.withTag q).map o = o := by
  cases o <;> simp [UnKind.map]

/-- whenever the child signals `o` while the adaptor is running, the adaptor signals `map o` in the
    same event — for every event and every child behaviour (`rec` arbitrary) -/
theorem unary_signals_map (rec : Rec) (k : UnKind) (c : Op) (env : Env) (i : Nat) (oi o : Outcome)
    (h : (rec (.complete i oi) c).2.2 = some o) :
    (unStep rec (.complete i oi) k c .running env).2.2 = some (k.map o) := by
  simp [unStep, unWrap, h]

/-! ### 2. Sequencing: the next step is started only after the previous one finished, and only on
    the matching channel. -/

theorem successor_not_started_while_first_runs (rec : Rec) (k : BinKind) (b : Op) (st : BinSt)
    (env : Env) (ra : Res) (h : ra.2.2 = none) :
    seqAfterFirst rec k b st env ra = (.bin k ra.1 b { st with ph := .running, second := false, env := env }, ra.2.1, none) := by
  simp [seqAfterFirst, h]

theorem short_circuit (rec : Rec) (k : BinKind) (b : Op) (st : BinSt) (env : Env) (ra : Res) (o : Outcome)
    (h : ra.2.2 = some o) (hk : k.takes o = false) :
    (seqAfterFirst rec k b st env ra).2.2 = some o ∧
    (seqAfterFirst rec k b st env ra).1 = .bin k ra.1 b { st with ph := .finished, env := env } := by
  simp [seqAfterFirst, h, hk]

theorem takes_table :
    (BinKind.letValue.takes (.value 1) = true ∧ BinKind.letValue.takes (.error 1) = false ∧ BinKind.letValue.takes .done = false) ∧
    (BinKind.letError.takes (.error 1) = true ∧ BinKind.letError.takes (.value 1) = false ∧ BinKind.letError.takes .done = false) ∧
    (BinKind.letDone.takes .done = true ∧ BinKind.letDone.takes (.value 1) = false ∧ BinKind.letDone.takes (.error 1) = false) ∧
    (BinKind.seq.takes (.value 1) = true ∧ BinKind.seq.takes (.error 1) = false ∧ BinKind.seq.takes .done = false) ∧
    (∀ o, BinKind.fin.takes o = true) := by
  refine ⟨by decide, by decide, by decide, by decide, ?_⟩
  intro o; cases o <;> rfl

/-- finally: the source's result is delivered iff the completion operation succeeds; its error or
    done overrides -/
theorem finally_rules (saved : Outcome) :
    (∀ v, finResult (some saved) (.value v) = saved) ∧
    (∀ e, finResult (some saved) (.error e) = .error e) ∧
    finResult (some saved) .done = .done := by
  refine ⟨fun _ => rfl, fun _ => rfl, rfl⟩

/-! ### 3. when_all / stop_when result rules -/

/-- when_all: a stop request on the receiver wins; else the first error/done; else all values -/
theorem when_all_result_rules (st : BinSt) :
    whenAllResult true st = .done ∧
    (st.doe = true → st.err = none → whenAllResult false st = .done) ∧
    (∀ e, st.doe = true → st.err = some e → whenAllResult false st = .error e) ∧
    (∀ x y, st.doe = false → st.ra = some (.value x) → st.rb = some (.value y) →
        whenAllResult false st = .value ((x * 1000 + y) % 1000003)) := by
  refine ⟨by simp [whenAllResult], ?_, ?_, ?_⟩
  · intro h1 h2; simp [whenAllResult, h1, h2]
  · intro e h1 h2; simp [whenAllResult, h1, h2]
  · intro x y h1 h2 h3; simp [whenAllResult, h1, h2, h3]

/-- only the FIRST failure is recorded (doneOrError_.exchange) -/
theorem when_all_first_failure_wins (st : BinSt) (isA : Bool) (o : Outcome) (h : st.doe = true) :
    (waRecord false st isA o).1.err = st.err ∧ (waRecord false st isA o).1.doe = true := by
  cases o <;> cases isA <;> simp [waRecord, h]

/-- when_any: a value that was produced is delivered even if the underlying when_all reports done
    (because the others were stopped, or the receiver's token was); an error that came first wins -/
theorem when_any_result_rules (st : BinSt) :
    (∀ v, st.val = some v → anyResult st .done = .value v) ∧
    (st.val = none → anyResult st .done = .done) ∧
    (∀ e, anyResult st (.error e) = .error e) := by
  refine ⟨fun v h => by simp [anyResult, h], fun h => by simp [anyResult, h], fun e => rfl⟩

/-- when_any stores only the FIRST value -/
theorem when_any_first_value_wins (st : BinSt) (isA : Bool) (v w : Nat) (h : st.val = some v) :
    (waRecord true st isA (.value w)).1.val = some v := by
  cases isA <;> simp [waRecord, h] <;> split <;> simp [h]

/-- stop_when delivers the SOURCE's result, whatever the trigger did -/
theorem stop_when_source_result (a b : Op) (st : BinSt) (outs : List Out) (o : Outcome)
    (h : (swFinish a b st outs).2.2 = some o) : st.ra = some o := by
  unfold swFinish at h
  split at h <;> simp_all

/-! ### 4. Inline expressions: start() completes with exactly the documented function `evalI`. -/

theorem connect_height (e : Expr) : (connect e).height = e.height := by
  induction e with
  | const k => rfl
  | leaf i => rfl
  | un k c ih => simp [connect, Op.height, Expr.height, ih]
  | bin k a b iha ihb => simp [connect, Op.height, Expr.height, iha, ihb]


theorem waStart_inline (rec : Rec) (a b : Op) (env0 : Env) (oa ob : Outcome)
    (ha : (rec (.start { env0 with stoppable := true }) a).2.2 = some oa)
    (hb : (rec (.start { env0 with stopped := env0.stopped || !oa.isValue, stoppable := true }) b).2.2 = some ob) :
    (waStart rec .whenAll a b BinSt.init env0).2.2 = some (if env0.stopped then .done else whenAllSpec oa ob) := by
  obtain ⟨s0, sb, tg, ar⟩ := env0
  cases oa <;> cases ob <;> cases s0 <;>
    simp_all [waStart, waAfterChild, waRec, waRecord_false, markSrc, recIf, waFinish, whenAllResult, whenAllSpec, BinSt.init, BinKind.isAny,
      Outcome.isValue]

theorem anyStart_inline (rec : Rec) (a b : Op) (env0 : Env) (oa ob : Outcome)
    (ha : (rec (.start { env0 with stoppable := true }) a).2.2 = some oa)
    (hb : (rec (.start { env0 with stopped := true, stoppable := true }) b).2.2 = some ob) :
    (waStart rec .whenAny a b BinSt.init env0).2.2 = some (whenAnySpec env0.stopped oa ob) := by
  obtain ⟨s0, sb, tg, ar⟩ := env0
  cases oa <;> cases ob <;> cases s0 <;>
    simp_all [waStart, waAfterChild, waRec, waRecord_true, waRecord_false, markSrc, recIf, waFinish, whenAllResult, anyResult, BinSt.init,
      BinKind.isAny, whenAnySpec]

theorem swStart_inline (rec : Rec) (a b : Op) (env0 : Env) (oa ob : Outcome)
    (ha : (rec (.start { env0 with stoppable := true }) a).2.2 = some oa)
    (hb : (rec (.start { env0 with stopped := true, stoppable := true }) b).2.2 = some ob) :
    (swStart rec a b BinSt.init env0).2.2 = some oa := by
  obtain ⟨s0, sb, tg, ar⟩ := env0
  simp_all [swStart, swAfterChild, setRa, setRb, markSrc, recIf, swFinish, BinSt.init]

theorem seq_inline (rec : Rec) (k : BinKind) (a b : Op) (env : Env) (oa ob : Outcome)
    (ha : (rec (.start env) a).2.2 = some oa) (hb : (rec (.start (k.succEnv env oa)) b).2.2 = some ob) :
    (seqStep rec (.start env) k a b BinSt.init).2.2 =
      some (if k.takes oa then k.finish (some oa) ob else oa) := by
  simp only [seqStep, BinSt.init, seqAfterFirst, ha]
  split <;> simp_all

theorem binStep_seq (rec : Rec) (ev : Ev) (k : BinKind) (a b : Op) (st : BinSt)
    (h1 : k ≠ .whenAll) (h2 : k ≠ .stopWhen) (h3 : k ≠ .whenAny) : binStep rec ev k a b st = seqStep rec ev k a b st := by
  cases k <;> simp_all [binStep]

theorem evalI_seq (k : BinKind) (a b : Expr) (env : Env) (h1 : k ≠ .whenAll) (h2 : k ≠ .stopWhen) (h3 : k ≠ .whenAny) :
    evalI specs (.bin k a b) env =
      (if k.takes (evalI specs a env) then k.finish (some (evalI specs a env)) (evalI specs b (k.succEnv env (evalI specs a env)))
       else evalI specs a env) := by
  cases k <;> simp_all [evalI]

/-- **start() of an expression whose leaves all complete inline completes inside start() with
    exactly the documented function of the leaves' results** — for every expression over the
    algorithm set, every environment, every scripted callable. -/
theorem start_refines_evalI (e : Expr) (hI : Inline specs e) :
    ∀ (env : Env) (fuel : Nat), e.height < fuel →
      (deliver specs fuel (.start env) (connect e)).2.2 = some (evalI specs e env) := by
  induction e with
  | const k =>
    intro env fuel hf
    cases fuel with
    | zero => omega
    | succ n => simp [connect, deliver, constStep, evalI]
  | leaf i =>
    intro env fuel hf
    obtain ⟨o, ho⟩ := hI
    cases fuel with
    | zero => omega
    | succ n => simp [connect, deliver, leafStep, evalI, ho]
  | un k c ih =>
    intro env fuel hf
    cases fuel with
    | zero => omega
    | succ n =>
      have hc := ih hI (k.childEnv env) n (by simp [Expr.height] at hf; omega)
      simp [connect, deliver, unStep, unWrap, evalI, hc]
  | bin k a b iha ihb =>
    intro env fuel hf
    cases fuel with
    | zero => omega
    | succ n =>
      have hha : a.height < n := by simp [Expr.height] at hf; omega
      have hhb : b.height < n := by simp [Expr.height] at hf; omega
      by_cases hany : k = .whenAny
      · subst hany
        have h1 := iha hI.1 { env with stoppable := true } n hha
        have h2 := ihb hI.2 { env with stopped := true, stoppable := true } n hhb
        have := anyStart_inline (deliver specs n) (connect a) (connect b) env _ _ h1 h2
        simpa [connect, deliver, binStep, waStep, BinSt.init, evalI] using this
      by_cases hwa : k = .whenAll
      · subst hwa
        have h1 := iha hI.1 { env with stoppable := true } n hha
        let sb : Bool := env.stopped || !(evalI specs a { env with stoppable := true }).isValue
        have h2 := ihb hI.2 { env with stopped := sb, stoppable := true } n hhb
        have := waStart_inline (deliver specs n) (connect a) (connect b) env _ _ h1 h2
        simpa [connect, deliver, binStep, waStep, BinSt.init, evalI, BinKind.isAny] using this
      · by_cases hsw : k = .stopWhen
        · subst hsw
          have h1 := iha hI.1 { env with stoppable := true } n hha
          have h2 := ihb hI.2 { env with stopped := true, stoppable := true } n hhb
          have := swStart_inline (deliver specs n) (connect a) (connect b) env _ _ h1 h2
          simpa [connect, deliver, binStep, swStep, BinSt.init, evalI] using this
        · have h1 := iha hI.1 env n hha
          have h2 := ihb hI.2 (k.succEnv env (evalI specs a env)) n hhb
          have := seq_inline (deliver specs n) k (connect a) (connect b) env _ _ h1 h2
          rw [evalI_seq specs k a b env hwa hsw hany]
          simp only [connect, deliver, binStep_seq _ _ k _ _ _ hwa hsw hany]
          exact this

/-- non-vacuity / sanity: the spec on a concrete nested expression -/
example : evalI (fun _ => .inline (.value 3))
    (.bin .letValue (.bin .whenAll (.leaf 1) (.const (.just 4))) (.un (.thenF (.add 1)) (.const (.argv 0)))) rootEnv
    = .value 3005 := by decide

end Unifex.Props.C05
