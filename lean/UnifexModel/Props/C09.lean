/-
  Props/C09.lean — property C09: a future yields its operation's result or done; the shared heap
  state is freed exactly once.  ONLY property theorems and non-vacuity examples (the model and its
  helper lemma `reach_of_run` live in Proto/SpawnFuture.lean).  The `cancel_*` instances are in
  Props/C09_cancel.lean, C09_cancel_error.lean, C09_cancel_done.lean and the connect/stop/destroy
  instance in Props/C09_term.lean (one big instance per file: they build in parallel).

  Model: Proto/SpawnFuture.lean (atomic steps of `_spawn_future_op_base::state_`, `evt_`, the
  stop source of the spawned operation, the abandon stop callback, the heap block).  The protocol
  has a fixed number of parties (operation, future owner, canceller), so each `*_safe` theorem —
  EVERY reachable state of the instance, i.e. every schedule of every length — is the complete
  proof for that usage.  Closure computed and re-checked by Lean's kernel (`decide +kernel`).

  Every instance theorem states the FULL property `safe` (read it in `safe_spelled`).
-/
import UnifexModel.Proto.SpawnFuture

namespace Unifex.Props.C09
open Unifex.Core Unifex.Proto.SpawnFuture

/-- What `safe` says, spelled out. -/
theorem safe_spelled (cfg : Config) (s : St) (h : safe cfg s = true) :
    -- the heap block is never touched after it was freed
    s.uaf = false
    -- std::terminate() is reached only by spawn_detached for an error completion — and then it is
    ∧ (s.term = true → cfg.detached = true ∧ cfg.kind = 1)
    ∧ (cfg.detached = true → cfg.kind = 1 → final cfg s = true → s.term = true)
    -- the block is never deleted twice
    ∧ s.bad = 0 ∧ s.freed ≤ 1
    -- the stored result is destroyed at most as often as constructed, constructed at most once
    ∧ s.resD ≤ s.resC ∧ s.resC ≤ 1
    -- the future's receiver is completed at most once
    ∧ s.outN ≤ 1
    -- abandonment only happens after a stop request on the awaiting receiver
    ∧ (s.abandonWon = true → s.fStop = true)
    -- stop is requested on the spawned operation only by drop() / a winning abandon()
    ∧ (s.opStop = true → s.abandonWon = true ∨ s.dropSawInit = true)
    -- no deadlock (covers `while (!evt_.ready())` and the stop-callback deregistration)
    ∧ (((sys cfg).next s).isEmpty = true → final cfg s = true)
    -- at the end (of a process that did not terminate)
    ∧ (final cfg s = true → s.term = false →
        -- the block was deleted exactly once, the result destroyed exactly as often as constructed
        s.freed = 1 ∧ s.resD = s.resC
        -- an awaited future completed exactly once: with done iff cancelled in time (else the
        -- operation's own completion: value -> 1, error -> 2, done -> 3); if stop could only be
        -- requested after the operation had finished (`late`), the operation's result is delivered
        ∧ (cfg.detached = false → cfg.owner = 0 →
            s.outN = 1 ∧ s.out = expectedOut cfg s ∧ (cfg.late = true → s.out = cfg.kind + 1))
        -- a future that was never started (or does not exist) completes nothing
        ∧ (cfg.detached = true ∨ cfg.owner ≠ 0 → s.outN = 0)
        -- stop was requested on the spawned operation iff dropped before completion / cancelled
        ∧ (s.opStop = true ↔ (s.abandonWon = true ∨ s.dropSawInit = true))) := by
  unfold safe safeRest at h
  simp only [Bool.and_eq_true, decide_eq_true_eq, Bool.or_eq_true, Bool.not_eq_true',
    beq_iff_eq] at h
  obtain ⟨⟨⟨hu, ht⟩, ⟨⟨⟨⟨⟨⟨⟨⟨h1, h2⟩, h3⟩, h4⟩, h5⟩, h6⟩, h7⟩, h8⟩, h9⟩⟩, hd⟩ := h
  refine ⟨hu, ?_, ?_, h1, h2, h3, h4, h5, ?_, ?_, ?_, ?_⟩
  · intro hterm
    rcases ht with ht | ht
    · rw [hterm] at ht; cases ht
    · exact ht
  · intro hdet hk hf
    rcases hd with hd | hd
    · simp [hdet, hk, hf] at hd
    · exact hd
  · intro ha; rcases h6 with h6 | h6
    · rw [ha] at h6; cases h6
    · exact h6
  · intro ho; rcases h7 with (h7 | h7) | h7
    · rw [ho] at h7; cases h7
    · exact Or.inl h7
    · exact Or.inr h7
  · intro hdl; rcases h8 with h8 | h8
    · simp [hdl] at h8
    · exact h8
  · intro hf hnt
    rcases h9 with (h9 | h9) | h9
    · rw [hf] at h9; cases h9
    · rw [hnt] at h9; cases h9
    · obtain ⟨⟨⟨hfr, hres⟩, hout⟩, hstop⟩ := h9
      refine ⟨hfr, hres, ?_, ?_, ?_⟩
      · intro hnd ho
        simp only [hnd, ho, if_true, Bool.false_eq_true, if_false, Bool.and_eq_true, decide_eq_true_eq,
          Bool.or_eq_true, Bool.not_eq_true'] at hout
        refine ⟨hout.1.1, hout.1.2, ?_⟩
        intro hl; rcases hout.2 with h | h
        · rw [hl] at h; cases h
        · exact h
      · intro hor
        rcases hor with hdt | ho
        · simp only [hdt, if_true, decide_eq_true_eq] at hout
          exact hout
        · cases hdt : cfg.detached
          · simp only [hdt, ho, Bool.false_eq_true, if_false, decide_eq_true_eq] at hout
            exact hout
          · simp only [hdt, if_true, decide_eq_true_eq] at hout
            exact hout
      · cases hos : s.opStop <;> cases haw : s.abandonWon <;> cases hds : s.dropSawInit <;>
          simp_all

/-! ### await / drop / connect-then-destroy without a canceller -/

theorem await_value_safe : ∀ s, Reach (sys cfgAwaitValue) s → safe cfgAwaitValue s = true :=
  safe_of_check _ { coded with M := 251 } 400 _ (by decide +kernel)
theorem await_error_safe : ∀ s, Reach (sys cfgAwaitError) s → safe cfgAwaitError s = true :=
  safe_of_check _ { coded with M := 251 } 400 _ (by decide +kernel)
theorem await_done_safe : ∀ s, Reach (sys cfgAwaitDone) s → safe cfgAwaitDone s = true :=
  safe_of_check _ { coded with M := 251 } 400 _ (by decide +kernel)
theorem drop_value_safe : ∀ s, Reach (sys cfgDropValue) s → safe cfgDropValue s = true :=
  safe_of_check _ { coded with M := 251 } 400 _ (by decide +kernel)
theorem drop_error_safe : ∀ s, Reach (sys cfgDropError) s → safe cfgDropError s = true :=
  safe_of_check _ { coded with M := 251 } 400 _ (by decide +kernel)
theorem drop_done_safe : ∀ s, Reach (sys cfgDropDone) s → safe cfgDropDone s = true :=
  safe_of_check _ { coded with M := 251 } 400 _ (by decide +kernel)
/-- connect, then destroy without start, nobody cancels -/
theorem connect_drop_value_safe : ∀ s, Reach (sys cfgConnectDropValue) s → safe cfgConnectDropValue s = true :=
  safe_of_check _ { coded with M := 251 } 400 _ (by decide +kernel)

/-! ### stop requested only after the operation finished: the result is delivered -/

/-- T2 requests stop only after T1 has finished: in every schedule the future delivers the
    operation's value although stop was requested (`late` clause of `safe`), and nothing is touched
    after the block was freed. -/
theorem late_cancel_value_safe :
    ∀ s, Reach (sys cfgLateCancelValue) s → safe cfgLateCancelValue s = true :=
  safe_of_check _ { coded with M := 251 } 400 _ (by decide +kernel)

/-! ### spawn_detached: state deleted once by the completing thread; terminates only on error -/

theorem detached_value_safe : ∀ s, Reach (sys cfgDetachedValue) s → safe cfgDetachedValue s = true :=
  safe_of_check _ { coded with M := 31 } 400 _ (by decide +kernel)
theorem detached_done_safe : ∀ s, Reach (sys cfgDetachedDone) s → safe cfgDetachedDone s = true :=
  safe_of_check _ { coded with M := 31 } 400 _ (by decide +kernel)
/-- an error completion reaches std::terminate() (and `safe` demands exactly that) -/
theorem detached_error_safe : ∀ s, Reach (sys cfgDetachedError) s → safe cfgDetachedError s = true :=
  safe_of_check _ { coded with M := 31 } 400 _ (by decide +kernel)
theorem detached_error_terminates :
    ∃ s, Reach (sys cfgDetachedError) s ∧ (s.term && final cfgDetachedError s) = true :=
  reach_of_run _ [0, 0] _ (by decide +kernel)

/-! ### non-vacuity: interesting final states are reachable -/

/-- the future is dropped while the operation is still running: stop requested, the operation
    deletes the block -/
example : ∃ s, Reach (sys cfgDropValue) s ∧
    (final cfgDropValue s && s.dropSawInit && s.opStop && decide (s.freed = 1)) = true :=
  reach_of_run _ [0, 0, 0, 0, 1, 1, 1, 1, 0] _ (by decide +kernel)

/-- the future is dropped after the operation stored its value: drop() destroys it and the block -/
example : ∃ s, Reach (sys cfgDropValue) s ∧
    (final cfgDropValue s && !s.dropSawInit && decide (s.resD = 1) && decide (s.freed = 1)) = true :=
  reach_of_run _ [1, 1, 0, 0, 0, 0, 0, 0, 0] _ (by decide +kernel)

/-- an awaited future delivers the operation's error -/
example : ∃ s, Reach (sys cfgAwaitError) s ∧ (final cfgAwaitError s && decide (s.out = 2)) = true :=
  reach_of_run _ [1, 1, 0, 0, 1, 0, 0, 0, 0, 0, 0, 0, 0] _ (by decide +kernel)

/-- a stop request that comes after the operation finished: the value is delivered all the same -/
example : ∃ s, Reach (sys cfgLateCancelValue) s ∧
    (final cfgLateCancelValue s && decide (s.out = 1) && s.fStop) = true :=
  reach_of_run _ [1, 1, 0, 0, 1, 0, 0, 0, 1, 0, 1, 0, 1, 0, 1, 0] _ (by decide +kernel)

end Unifex.Props.C09
