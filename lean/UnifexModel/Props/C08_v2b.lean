/-
  Props/C08_v2b.lean — property C08, v2 instance with two racing joins (separate file so that it
  builds in parallel).  See Props/C08.lean for what `safe` says.
-/
import UnifexModel.Proto.ScopeV2

namespace Unifex.Props.C08_v2b
open Unifex.Core Unifex.Proto.ScopeV2

/-- two racing joins: all C08 clauses and no late touch of the scope (the second `end_scope` does
    not set the event) -/
theorem v2_two_joins_safe : ∀ s, Reach (sys cfgTwoJoins) s → safeQ cfgTwoJoins s = true :=
  safe_of_check _ { coded with M := 751 } 400 _ (by decide +kernel)

end Unifex.Props.C08_v2b
