/-
  Props/C18.lean — property C18: type-erased wrappers behave exactly like the object they wrap.
  ONLY property theorems + non-vacuity examples.

  Part 1 (any_object / any_unique, model Proto/AnyObject.lean): for EVERY instantiation `cfg`
  (inline size, alignment, RequireNoexceptMove, allocator, any_unique) and EVERY sequence of
  construct / move-construct / move-assign / value-assign / swap / invoke / destroy / arm operations
  on the three wrapper variables — including sequences the API forbids (rejected, no effect) and
  sequences in which the payload's move constructor throws — statements about the observable event
  trace (payload constructions, moves, copies, destructions, allocations, deallocations).

  Part 2 (any_sender_of, model Calc/Sem.lean): the `erase` node is observationally transparent.
-/
import UnifexModel.Proto.AnyObjectLemmas
import UnifexModel.Proto.AnyObjectFrame
import UnifexModel.Calc.Erase

namespace Unifex.Props.C18

/-! ### 1. any_object / any_unique -/
section AnyObject
open Unifex.Proto.AnyObject

/-- **Every payload is destroyed at most once, at any time; exactly once when all wrapper variables
    are gone; never before it exists.**  `id` ranges over the payload ids (`next` = number of
    payloads constructed so far, temporaries and moved-from remainders included). -/
theorem wrapped_destroyed_once (cfg : Cfg) (ops : List Op) (id : Nat) :
    (trace (run cfg St.init ops).2).count (.dtor id) ≤ 1 ∧
    ((∀ i, i < 3 → (run cfg St.init ops).1.slot i = .none) → id < (run cfg St.init ops).1.next →
        (trace (run cfg St.init ops).2).count (.dtor id) = 1) ∧
    ((run cfg St.init ops).1.next ≤ id → (trace (run cfg St.init ops).2).count (.dtor id) = 0) := by
  have hinv := run_inv cfg St.init ops init_inv
  have htmp := run_tmp cfg St.init ops rfl
  have hc := (dtorC id).run cfg St.init ops
  have h0 : (dtorC id).get St.init = 0 := rfl
  rw [h0, Nat.zero_add] at hc
  rw [count_dtor, ← hc]
  refine ⟨dcnt_le_one hinv id, ?_, ?_⟩
  · intro hnone hlt
    apply hinv.dead id hlt
    intro i hi
    have : i < 3 ∨ i = 3 := by omega
    rcases this with h3 | rfl
    · rw [hnone i h3]; simp [Slot.ref]
    · rw [htmp]; simp [Slot.ref]
  · intro hge; exact hinv.fresh id hge

/-- the number of payloads ever constructed is the number of construction events in the trace -/
theorem constructed_count (cfg : Cfg) (ops : List Op) :
    (run cfg St.init ops).1.next = (trace (run cfg St.init ops).2).countP Event.isBirth := by
  have := birthC.run cfg St.init ops
  simpa [birthC, St.init] using this

/-- after the scope exit of the three variables (`cleanup`) every payload constructed during ANY
    op sequence has been destroyed exactly once -/
theorem destroyed_exactly_once_after_cleanup (cfg : Cfg) (ops : List Op) (id : Nat)
    (h : id < (run cfg St.init (ops ++ cleanup)).1.next) :
    (trace (run cfg St.init (ops ++ cleanup)).2).count (.dtor id) = 1 := by
  refine (wrapped_destroyed_once cfg (ops ++ cleanup) id).2.1 ?_ h
  intro i hi
  rw [run_append]
  exact cleanup_none cfg _ i hi

/-- **The wrappers never copy the wrapped object.** -/
theorem no_copies_ever (cfg : Cfg) (ops : List Op) :
    ∀ e ∈ trace (run cfg St.init ops).2, e.isCopy = false := by
  have hinv := run_inv cfg St.init ops init_inv
  have hc := copyC.run cfg St.init ops
  have h0 : copyC.get St.init = 0 := rfl
  have h1 : copyC.get (run cfg St.init ops).1 = 0 := hinv.nocopy
  rw [h0, h1, Nat.zero_add] at hc
  intro e he
  cases hcp : e.isCopy with
  | false => rfl
  | true =>
    have : 0 < (trace (run cfg St.init ops).2).countP copyC.hit := List.countP_pos_iff.mpr ⟨e, he, hcp⟩
    omega

/-- **Allocation balance, per allocator**: never more deallocations than allocations; the
    difference is exactly the number of heap states the three variables currently own, hence zero
    when all of them are destroyed. -/
theorem alloc_balance (cfg : Cfg) (ops : List Op) (a : Nat) :
    (trace (run cfg St.init ops).2).count (.de a) ≤ (trace (run cfg St.init ops).2).count (.al a) ∧
    (trace (run cfg St.init ops).2).count (.al a) = (trace (run cfg St.init ops).2).count (.de a) +
        (((run cfg St.init ops).1.slot 0).hcA a + ((run cfg St.init ops).1.slot 1).hcA a +
         ((run cfg St.init ops).1.slot 2).hcA a) ∧
    ((∀ i, i < 3 → (run cfg St.init ops).1.slot i = .none) →
        (trace (run cfg St.init ops).2).count (.al a) = (trace (run cfg St.init ops).2).count (.de a)) := by
  have hinv := run_inv cfg St.init ops init_inv
  have htmp := run_tmp cfg St.init ops rfl
  have ha := (allocC a).run cfg St.init ops
  have hd := (deallocC a).run cfg St.init ops
  have ha0 : (allocC a).get St.init = 0 := rfl
  have hd0 : (deallocC a).get St.init = 0 := rfl
  rw [ha0, Nat.zero_add] at ha
  rw [hd0, Nat.zero_add] at hd
  have hb := hinv.bal a
  rw [htmp] at hb
  have hb' : (allocC a).get (run cfg St.init ops).1 = (deallocC a).get (run cfg St.init ops).1 +
      (((run cfg St.init ops).1.slot 0).hcA a + ((run cfg St.init ops).1.slot 1).hcA a +
       ((run cfg St.init ops).1.slot 2).hcA a) := by
    simpa [allocC, deallocC, Slot.hcA] using hb
  rw [count_al, count_de, ← ha, ← hd]
  refine ⟨by omega, hb', ?_⟩
  intro hnone
  rw [hb', hnone 0 (by omega), hnone 1 (by omega), hnone 2 (by omega)]
  simp [Slot.hcA]

/-- **A payload that fits the inline buffer is never heap-allocated**: constructing or
    value-assigning a payload of a class that `can_be_stored_inplace` emits no allocation
    (`htmp`: no caller temporary is pending, true between operations — `run_tmp`). -/
theorem inline_never_allocates (cfg : Cfg) (s : St) (c : Cls) (h : cfg.inplace c = true) (htmp : s.slot 3 = .none) :
    (∀ j v m a, Event.al a ∉ (step cfg s (.ctor j c v m)).2.events) ∧
    (∀ i v a, Event.al a ∉ (step cfg s (.assignValue i c v)).2.events) := by
  constructor
  · intro j v m a
    simp only [step, compile]
    by_cases hv : vacant s j = true
    · have hj : j < 3 := ((vacant_iff s j).mp hv).1
      have hj4 : tmp ≠ j := by simp only [tmp]; omega
      have hj4' : j ≠ tmp := by simp only [tmp]; omega
      have htmp' : s.slot tmp = .none := htmp
      have hsj : s.slot j = .none := ((vacant_iff s j).mp hv).2
      cases hm : m.isConv
      · simp [hv, runPrims, primEff, St.apply, h, hj, hsj, Slot.hollow]
      · cases hth : (decide (c = Cls.st) && s.armed) <;>
          simp [hv, hth, runPrims, primEff, St.apply, St.record, upd, h, hj, hj4, hj4', hsj, htmp', Slot.hollow, destroyEvs]
    · simp [hv, St.apply, St.bad]
  · intro i v a
    simp only [step, compile]
    by_cases hv : (!cfg.unique && engaged s i) = true
    · simp only [Bool.and_eq_true] at hv
      have hi : i < 3 := ((engaged_iff s i).mp hv.2).1
      have hi4 : i < 4 := by omega
      have h3i : tmp ≠ i := by simp only [tmp]; omega
      have htmp' : s.slot tmp = .none := htmp
      cases hth : (decide (c = Cls.st) && s.armed) <;> cases hs : s.slot i <;>
        simp [hv, hth, hs, runPrims, primEff, St.apply, St.record, upd, h, hi, hi4, h3i, h3i.symm, htmp', Slot.hollow, destroyEvs]
    · simp [hv, St.apply, St.bad]
/-- moving, move-assigning or swapping wrappers never allocates and never copies -/
theorem move_never_allocates (cfg : Cfg) (s : St) (i j : Nat) (e : Event)
    (h : e ∈ (step cfg s (.moveCtor j i)).2.events ∨ e ∈ (step cfg s (.moveAssign i j)).2.events ∨
         e ∈ (step cfg s (.swap i j)).2.events) :
    (∀ a, e ≠ .al a) ∧ e.isCopy = false := by
  rcases h with h | h | h
  · simp only [step, compile] at h
    by_cases hg : (vacant s j && engaged s i) = true
    · simp only [hg, if_true] at h
      exact runPrims_noalloc cfg s _ (by simp [Prim.noAlloc]) e h
    · simp [hg, St.apply, St.bad] at h
  · simp only [step, compile] at h
    by_cases hg : (engaged s i && engaged s j) = true
    · simp only [hg, if_true] at h
      exact runPrims_noalloc cfg s _ (by split <;> simp [Prim.noAlloc]) e h
    · simp [hg, St.apply, St.bad] at h
  · simp only [step, compile] at h
    by_cases hg : (cfg.unique && engaged s i && engaged s j) = true
    · simp only [hg, if_true] at h
      exact runPrims_noalloc cfg s _ (by simp [Prim.noAlloc]) e h
    · simp [hg, St.apply, St.bad] at h
/-- **Invoking a CPO through the wrapper is invoking it on the wrapped object**: the call returns
    the wrapped payload's current value (or propagates the payload's exception unchanged), whether
    the payload is stored inline or on the heap, and changes nothing. -/
theorem invoke_transparent (cfg : Cfg) (s : St) (i id : Nat) (hi : i < 3)
    (h : (s.slot i).ref = some id) :
    (step cfg s (.invoke i)).2 = ⟨[], .val (s.val id)⟩ ∧
    (step cfg s (.invokeThrow i)).2 = ⟨[], .exc (s.val id)⟩ ∧
    (step cfg s (.invoke i)).1.slot = s.slot ∧ (step cfg s (.invoke i)).1.val = s.val ∧
    (step cfg s (.invoke i)).1.dcnt = s.dcnt ∧ (step cfg s (.invoke i)).1.next = s.next := by
  have he : engaged s i = true := by
    cases hs : s.slot i <;> simp_all [engaged, Slot.ref]
  cases hs : s.slot i <;> simp_all [step, invokeEff, St.apply, Slot.ref]

/-- **Wrappers do not interfere**: ANY sequence of operations that never names variable k leaves
    variable k as it is and the value of the payload it owns unchanged — whatever happens to the other
    variables (moves, assignments, swaps, throwing moves, destruction). -/
theorem untouched_wrapper_keeps_value (cfg : Cfg) (s : St) (ops : List Op) (k id : Nat) (hinv : Inv s)
    (hk : k < 3) (href : (s.slot k).ref = some id) (hm : ∀ op ∈ ops, op.mentions k = false) :
    (run cfg s ops).1.slot k = s.slot k ∧ (run cfg s ops).1.val id = s.val id := by
  induction ops generalizing s with
  | nil => simp [run]
  | cons op ops ih =>
    have h1 := step_frame cfg s op k id hinv hk href (hm op List.mem_cons_self)
    have h2 := ih (step cfg s op).1 (step_inv cfg s op hinv) (by rw [h1.1]; exact href)
      (fun q hq => hm q (List.mem_cons_of_mem _ hq))
    simp only [run]
    exact ⟨h2.1.trans h1.1, h2.2.trans h1.2⟩

/-- hence: invoking through a wrapper after any amount of unrelated activity still yields the
    wrapped payload's value -/
theorem invoke_after_unrelated_ops (cfg : Cfg) (s : St) (ops : List Op) (k id : Nat) (hinv : Inv s)
    (hk : k < 3) (href : (s.slot k).ref = some id) (hm : ∀ op ∈ ops, op.mentions k = false) :
    (step cfg (run cfg s ops).1 (.invoke k)).2 = ⟨[], .val (s.val id)⟩ := by
  have h := untouched_wrapper_keeps_value cfg s ops k id hinv hk href hm
  have := (invoke_transparent cfg (run cfg s ops).1 k id hk (by rw [h.1]; exact href)).1
  rw [this, h.2]

/-- a freshly constructed wrapper yields the value it was constructed from — in-place or converting,
    inline or heap, default or explicit allocator -/
theorem construct_then_invoke (cfg : Cfg) (s : St) (j : Nat) (c : Cls) (v : Nat) (m : Mode)
    (hv : vacant s j = true) (htmp : s.slot 3 = .none)
    (hok : (step cfg s (.ctor j c v m)).2.res = .ok) :
    (step cfg (step cfg s (.ctor j c v m)).1 (.invoke j)).2.res = .val v := by
  have hj : j < 3 := ((vacant_iff s j).mp hv).1
  have hj4 : tmp ≠ j := by simp only [tmp]; omega
  have hj4' : j ≠ tmp := by simp only [tmp]; omega
  have htmp : s.slot tmp = .none := htmp
  have hsj : s.slot j = .none := ((vacant_iff s j).mp hv).2
  simp only [step, compile, hv, if_true] at hok ⊢
  cases hm : m.isConv
  · cases hin : cfg.inplace c <;>
      simp [hm, hin, runPrims, primEff, St.apply, St.record, upd, Cfg.place, hj, hsj, Slot.hollow,
        engaged, invokeEff]
  · simp only [hm, if_true] at hok ⊢
    cases hth : (decide (c = Cls.st) && s.armed)
    · cases hin : cfg.inplace c <;>
        simp [hin, hth, runPrims, primEff, St.apply, St.record, upd, Cfg.place, hj, hj4, hj4', hsj, htmp,
          Slot.hollow, engaged, invokeEff, destroyEvs]
    · exfalso
      cases hin : cfg.inplace c <;>
        simp [hin, hth, runPrims, primEff, St.apply, St.record, upd, Cfg.place, hj, hj4, hj4', hsj, htmp,
          Slot.hollow] at hok

/-- **Moving a wrapper transfers the wrapped value**: after a successful `W(std::move(slot i))` into
    slot j, invoking slot j yields what slot i held; slot i is left with a null heap pointer or with
    the moved-from remainder of the inline payload (value 0), which is destroyed with slot i. -/
theorem move_transfers_value (cfg : Cfg) (s : St) (j i id : Nat) (hinv : Inv s)
    (hv : vacant s j = true) (he : engaged s i = true) (href : (s.slot i).ref = some id)
    (hok : (step cfg s (.moveCtor j i)).2.res = .ok) :
    (step cfg (step cfg s (.moveCtor j i)).1 (.invoke j)).2.res = .val (s.val id) ∧
    ((step cfg s (.moveCtor j i)).1.slot i = .heapNull ∨
     ((step cfg s (.moveCtor j i)).1.slot i = .inl id ∧ (step cfg s (.moveCtor j i)).1.val id = 0)) := by
  have hj : j < 3 := ((vacant_iff s j).mp hv).1
  have hsj : s.slot j = .none := ((vacant_iff s j).mp hv).2
  have hi : i < 3 := ((engaged_iff s i).mp he).1
  have hij : i ≠ j := by intro h; subst h; exact ((engaged_iff s i).mp he).2 hsj
  have hlt : id < s.next := hinv.own_lt i id (by omega) href
  have hne : s.next ≠ id := by omega
  simp only [step, compile, hv, he, Bool.and_self, if_true] at hok ⊢
  cases hs : s.slot i with
  | inl id' =>
    have : id' = id := by simpa [hs, Slot.ref] using href
    subst this
    cases hth : (decide (s.cls id' = Cls.st) && s.armed)
    · simp [runPrims, primEff, St.apply, St.record, upd, hj, hi, hij, hij.symm, hsj, hs, Slot.hollow, moveFrom, hth,
        engaged, invokeEff, hne, hne.symm]
    · exfalso
      simp [runPrims, primEff, St.apply, hj, hi, hij, hsj, hs, Slot.hollow, moveFrom, hth] at hok
  | heap id' a =>
    have : id' = id := by simpa [hs, Slot.ref] using href
    subst this
    simp [runPrims, primEff, St.apply, upd, hj, hi, hij, hij.symm, hsj, hs, Slot.hollow, moveFrom,
      engaged, invokeEff]
  | none => simp [hs, Slot.ref] at href
  | heapNull => simp [hs, Slot.ref] at href
  | invalid => simp [hs, Slot.ref] at href

/-- the same for move-assignment `slot i = std::move(slot j)` (i ≠ j): whatever slot i held before
    is destroyed, then the value is transferred -/
theorem move_assign_transfers_value (cfg : Cfg) (s : St) (i j id : Nat) (hinv : Inv s) (hij : i ≠ j)
    (hei : engaged s i = true) (hej : engaged s j = true) (href : (s.slot j).ref = some id)
    (hok : (step cfg s (.moveAssign i j)).2.res = .ok) :
    (step cfg (step cfg s (.moveAssign i j)).1 (.invoke i)).2.res = .val (s.val id) ∧
    ((step cfg s (.moveAssign i j)).1.slot j = .heapNull ∨
     ((step cfg s (.moveAssign i j)).1.slot j = .inl id ∧ (step cfg s (.moveAssign i j)).1.val id = 0)) := by
  have hi : i < 3 := ((engaged_iff s i).mp hei).1
  have hi4 : i < 4 := by omega
  have hj : j < 3 := ((engaged_iff s j).mp hej).1
  have hlt : id < s.next := hinv.own_lt j id (by omega) href
  have hne : s.next ≠ id := by omega
  simp only [step, compile, hei, hej, Bool.and_self, if_true, hij, if_false] at hok ⊢
  cases hs : s.slot j with
  | inl id' =>
    have : id' = id := by simpa [hs, Slot.ref] using href
    subst this
    cases hth : (decide (s.cls id' = Cls.st) && s.armed)
    · cases hsi : s.slot i <;>
        simp [runPrims, primEff, St.apply, St.record, upd, hj, hi, hi4, hij, hij.symm, hs, hsi, Slot.hollow, moveFrom,
          hth, engaged, invokeEff, hne, hne.symm, destroyEvs]
    · exfalso
      cases hsi : s.slot i <;>
        simp [runPrims, primEff, St.apply, St.record, upd, hj, hi, hi4, hij, hij.symm, hs, hsi, Slot.hollow, moveFrom,
          hth, destroyEvs] at hok
  | heap id' a =>
    have : id' = id := by simpa [hs, Slot.ref] using href
    subst this
    cases hsi : s.slot i <;>
      simp [runPrims, primEff, St.apply, St.record, upd, hj, hi, hi4, hij, hij.symm, hs, hsi, Slot.hollow, moveFrom,
        engaged, invokeEff, destroyEvs]
  | none => simp [hs, Slot.ref] at href
  | heapNull => simp [hs, Slot.ref] at href
  | invalid => simp [hs, Slot.ref] at href

/-- self-move-assignment is a no-op -/
theorem self_move_assign_noop (cfg : Cfg) (s : St) (i : Nat) (he : engaged s i = true) :
    (step cfg s (.moveAssign i i)).2 = ⟨[], .ok⟩ ∧ (step cfg s (.moveAssign i i)).1.slot = s.slot ∧
    (step cfg s (.moveAssign i i)).1.val = s.val := by
  simp [step, compile, he, runPrims]

/-! non-vacuity: concrete runs (also the worked examples of the line protocol) -/

/-- basic_any_object<8,8,true>: inline move leaves a remainder, a large payload lives on the heap and
    moves by pointer; after scope exit everything constructed has been destroyed -/
example :
    (run cfgSmall St.init ([.ctor 0 .sn 5 .inplace, .moveCtor 1 0, .invoke 1, .invoke 0,
        .ctor 2 .lg 9 .conv, .moveAssign 1 2, .invoke 1, .invoke 2] ++ cleanup)).2.map (·.res) =
      [.ok, .ok, .val 5, .val 0, .ok, .ok, .val 9, .bad, .ok, .ok, .ok] := by decide

/-- RequireNoexceptMove = false: a throwing inline move during assignment leaves `invalid` -/
example :
    ((run cfgThrow St.init [.ctor 0 .st 5 .inplace, .ctor 1 .st 4 .inplace, .arm, .moveAssign 1 0]).1.slot 1,
     (run cfgThrow St.init [.ctor 0 .st 5 .inplace, .ctor 1 .st 4 .inplace, .arm, .moveAssign 1 0]).2.map (·.res)) =
      (.invalid, [.ok, .ok, .ok, .threw]) := by decide

end AnyObject

/-! ### 2. any_sender_of: the `erase` node is transparent -/
section Erase
open Unifex.Calc

variable (specs : Nat → LeafSpec)

/-- One event: an erase wrapper whose recorded phase agrees with the wrapped operation produces
    exactly the wrapped operation's outputs and completion signal, and stays in agreement. -/
theorem erase_transparent_step (f : Nat) (ev : Ev) (c : Op) (env : Env) :
    ∃ env', deliver specs (f + 2) ev (.un .erase c c.phase env) =
      (.un .erase (deliver specs (f + 1) ev c).1 (deliver specs (f + 1) ev c).1.phase env',
        (deliver specs (f + 1) ev c).2.1, (deliver specs (f + 1) ev c).2.2) := by
  simp only [deliver]
  cases hph : c.phase with
  | idle =>
    cases ev with
    | start env0 =>
      refine ⟨env0, ?_⟩
      have hp := start_phase specs f env0 c hph
      simp only [unStep, UnKind.childEnv, unWrap]
      unfold PhaseOk at hp
      cases hr : (deliver specs (f + 1) (.start env0) c).2.2 with
      | none => simp [hr] at hp ⊢; simp [hp]
      | some o => simp [hr] at hp ⊢; simp [hp, UnKind.map]
    | stop =>
      refine ⟨env, ?_⟩
      rw [idle_silent specs f .stop c hph (by intro e h; cases h)]
      simp [unStep, hph]
    | complete i o =>
      refine ⟨env, ?_⟩
      rw [idle_silent specs f (.complete i o) c hph (by intro e h; cases h)]
      simp [unStep, hph]
  | running =>
    cases ev with
    | start env0 =>
      refine ⟨env, ?_⟩
      rw [running_ignores_start specs f env0 c hph]
      simp [unStep, hph]
    | stop =>
      refine ⟨env.stop, ?_⟩
      have hp := running_phase specs f .stop c hph
      unfold PhaseOk at hp
      simp only [unStep, UnKind.forwardsStop, if_true, unWrap]
      cases hr : (deliver specs (f + 1) .stop c).2.2 with
      | none => simp [hr] at hp ⊢; simp [hp]
      | some o => simp [hr] at hp ⊢; simp [hp, UnKind.map]
    | complete i o =>
      refine ⟨env, ?_⟩
      have hp := running_phase specs f (.complete i o) c hph
      unfold PhaseOk at hp
      simp only [unStep, unWrap]
      cases hr : (deliver specs (f + 1) (.complete i o) c).2.2 with
      | none => simp [hr] at hp ⊢; simp [hp]
      | some o' => simp [hr] at hp ⊢; simp [hp, UnKind.map]
  | finished =>
    refine ⟨env, ?_⟩
    rw [finished_silent specs f ev c hph]
    cases ev <;> simp [unStep, hph]

/-- whole runs: for every operation tree `c`, every leaf script and EVERY event sequence the wrapped
    run produces the same per-event outputs and the same root completion signals -/
theorem erase_transparent_run (c : Op) (env : Env) (evs : List Ev) :
    runEvents specs (.un .erase c c.phase env) evs = runEvents specs c evs := by
  induction evs generalizing c env with
  | nil => simp [runEvents]
  | cons ev evs ih =>
    obtain ⟨env', h⟩ := erase_transparent_step specs c.height ev c env
    simp only [runEvents, Op.height, h]
    rw [ih]

/-- **any_sender_of is observationally transparent**: for every sender expression `e`, every leaf
    script and every sequence of external events, connecting and running `any_sender_of(e)` gives
    exactly the outputs (leaf starts with the stop state and query answer they observe, stop
    notifications reaching the leaves) and the root completion of running `e` itself. -/
theorem erase_transparent (e : Expr) (evs : List Ev) :
    runEvents specs (connect (.un .erase e)) evs = runEvents specs (connect e) evs := by
  have := erase_transparent_run specs (connect e) Env.dflt evs
  rw [connect_idle] at this
  simpa [connect] using this

/-- non-vacuity: a stop request passes through two erase layers and reaches the pending leaf -/
example :
    runEvents (fun _ => .pending .completeDone) (connect (.un .erase (.un .erase (.leaf 1)))) [.start rootEnv, .stop]
      = [([.leafStart 1 false 7], none), ([.leafStop 1], some .done)] := by decide

end Erase
end Unifex.Props.C18
