/-
  Props/C06_newthread.lean — C06, new_thread_context instances: every item runs once on its own
  new thread, and the destructor returns only after every thread it created has been joined.
-/
import UnifexModel.Proto.NewThread

namespace Unifex.Props.C06
open Unifex.Core

section NewThread
open Unifex.Proto.NewThread

/-- What `NewThread.safe` says. -/
theorem newthread_safe_spelled (cfg : Config) (s : St) (h : safe cfg s = true) :
    -- the destructor never returns while a thread of the context is still running
    s.bad = 0
    ∧ (∀ it ∈ s.items, it.runs ≤ 1)
    -- the destructor sleeping without a pending notification ⇒ some thread has yet to retire
    ∧ (s.dwait = true → s.dsig = false → s.count > 0)
    ∧ (((sys cfg).next s).isEmpty = true → final cfg s = true)
    -- at the end every started item ran exactly once on its own thread and that thread was joined
    ∧ (final cfg s = true → ∀ i ∈ started cfg, (getI s i).runs = 1 ∧ (getI s i).phase = 8) := by
  unfold safe at h
  simp only [Bool.and_eq_true, decide_eq_true_eq, Bool.or_eq_true, Bool.not_eq_true',
    List.all_eq_true, List.isEmpty_iff] at h
  obtain ⟨⟨⟨⟨h1, h2⟩, h3⟩, h4⟩, h5⟩ := h
  refine ⟨h1, h2, ?_, ?_, ?_⟩
  · intro hw hs
    rcases h3 with h | h
    · simp [hw, hs] at h
    · exact h
  · intro hd
    rcases h4 with h | h
    · simp [List.isEmpty_iff] at hd; simp [hd] at h
    · exact h
  · intro hf i hi
    rcases h5 with h | h
    · simp [hf] at h
    · exact h i hi

theorem newthread_1_joins_all : ∀ s, Reach (sys cfgNt1) s → safe cfgNt1 s = true :=
  safe_of_check _ { coded with M := 127, W := 120 } 400 _ (by decide +kernel)

theorem newthread_2_joins_all : ∀ s, Reach (sys cfgNt2) s → safe cfgNt2 s = true :=
  safe_of_check _ { coded with M := 881, W := 120 } 400 _ (by decide +kernel)

end NewThread

end Unifex.Props.C06
