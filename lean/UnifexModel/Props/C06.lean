/-
  Props/C06.lean — property C06: schedulers run every scheduled item once, on their own context,
  losing none.  This file holds the PARAMETRIC theorems (all configurations, all schedules):
    * manual_event_loop / single_thread_context (model Proto/EventLoop, invariant Lemmas/EventLoop):
      any number of producer threads, items, stop() callers, every interleaving;
    * trampoline_scheduler (model Proto/Trampoline, lemmas Lemmas/Trampoline): every nesting tree,
      every maximum depth;
    * atomic_intrusive_queue (model Proto/AtomicQueue, invariant Lemmas/AtomicQueue): any number of
      producers and items, both consumer loops, initially active or inactive, every interleaving of
      the individual atomic operations.
  The per-instance theorems (deadlock freedom, end states) proved by kernel-evaluated closure are in
  Props/C06_loop, C06_loop2 (event loop), C06_queue, C06_queue2 (atomic_intrusive_queue),
  C06_pool (static_thread_pool, new_thread_context).
-/
import UnifexModel.Lemmas.EventLoop
import UnifexModel.Lemmas.Trampoline
import UnifexModel.Lemmas.AtomicQueue

namespace Unifex.Props.C06
open Unifex.Core

section Loop
open Unifex.Proto.EventLoop

/-- FIFO, at most once, nothing dropped — in every reachable state of every configuration the
    acceptance order equals: completed items ++ the item being executed ++ pending queue. -/
theorem loop_fifo (cfg : Config) (s : St) (h : Reach (sys cfg) s) :
    s.enq = s.ran ++ cur s.phase ++ s.queue :=
  (inv_reach cfg h).sh.fifo

/-- Items complete in exactly the order in which their enqueue took the lock, each position once:
    the completion sequence is a prefix of the acceptance sequence. -/
theorem loop_runs_each_once (cfg : Config) (s : St) (h : Reach (sys cfg) s) : s.ran <+: s.enq := by
  rw [loop_fifo cfg s h, List.append_assoc]
  exact List.prefix_append _ _

/-- … hence no item completes twice when the accepted items are distinct. -/
theorem loop_no_duplicate (cfg : Config) (s : St) (h : Reach (sys cfg) s) (hd : s.enq.Nodup) :
    s.ran.Nodup :=
  ((loop_runs_each_once cfg s h).sublist).nodup hd

/-- No lost wake-up (stated as safety, so no fairness assumption): whenever the worker is inside
    `cv_.wait` and no notification is pending, the queue is empty and stop() has not been called. -/
theorem loop_no_lost_wakeup (cfg : Config) (s : St) (h : Reach (sys cfg) s)
    (hw : s.phase = .waiting) (hs : s.sig = false) : s.queue = [] ∧ s.stop = false :=
  (inv_reach cfg h).sh.wake hw hs

/-- stop ⇒ run returns / work ⇒ it is executed: while there is something to do (a pending item or
    the stop flag) and `run()` has not returned, the worker thread has an enabled step. -/
theorem loop_worker_progress (cfg : Config) (s : St) (h : Reach (sys cfg) s)
    (hw : s.stop = true ∨ s.queue ≠ []) (hne : s.phase ≠ .exited) :
    (workerStep cfg s).isSome = true :=
  worker_enabled_of_work cfg (inv_reach cfg h).sh hw hne

/-- `run()` returns only after stop(), and every item accepted before that stop() took the lock
    has completed by then (`ran` is a prefix of `enq`, so these are exactly the first
    `accAtStop` accepted items). -/
theorem loop_returns_after_stop_drained (cfg : Config) (s : St) (h : Reach (sys cfg) s)
    (hr : s.phase = .retd ∨ s.phase = .exited) : s.stop = true ∧ s.accAtStop ≤ s.ran.length :=
  (inv_reach cfg h).sh.ret hr

/-- At the end nothing is in limbo: accepted = completed ++ still queued (the latter only items
    enqueued after the stop). -/
theorem loop_final_conservation (cfg : Config) (s : St) (h : Reach (sys cfg) s)
    (hf : final cfg s = true) : s.enq = s.ran ++ s.queue := by
  have := loop_fifo cfg s h
  simp only [final, Bool.and_eq_true, beq_iff_eq] at hf
  rw [hf.1] at this
  simpa [cur] using this

/-- Done instead of value when stop was requested first: `bad` becomes 2 exactly when an item's
    stop-token check answers "not requested" although request_stop() had already returned; it never
    does (and `tokEnded → tok`). -/
theorem loop_done_if_stop_first (cfg : Config) (s : St) (h : Reach (sys cfg) s) :
    s.bad = 0 ∧ (s.tokEnded = true → s.tok = true) :=
  ⟨(inv_reach cfg h).sh.bad0, (inv_reach cfg h).sh.tokE⟩

/-- What `safe` (used by the instance theorems) says. -/
theorem loop_safe_spelled (cfg : Config) (s : St) (h : safe cfg s = true) :
    s.bad = 0
    ∧ s.ran ++ cur s.phase ++ s.queue = s.enq
    ∧ s.ran.Nodup
    ∧ (s.phase = .waiting → s.sig = false → s.queue = [] ∧ s.stop = false)
    ∧ (s.phase = .retd ∨ s.phase = .exited → s.stop = true ∧ s.accAtStop ≤ s.ran.length)
    -- no deadlock
    ∧ (((sys cfg).next s).isEmpty = true → final cfg s = true)
    -- at the end every item ran (configurations where every enqueue happens-before the stop)
    ∧ (final cfg s = true → cfg.allRun = true → s.ran.length = nEnq cfg) := by
  unfold safe at h
  simp only [Bool.and_eq_true, decide_eq_true_eq, Bool.or_eq_true, Bool.not_eq_true',
    beq_iff_eq, List.isEmpty_iff] at h
  obtain ⟨⟨⟨⟨⟨⟨h1, h2⟩, h3⟩, h4⟩, h5⟩, h6⟩, h7⟩ := h
  refine ⟨h1, h2, by simpa using h3, ?_, ?_, ?_, ?_⟩
  · intro hp hs
    rcases h4 with h4 | h4
    · simp [hp, hs] at h4
    · simpa using h4
  · intro hp
    rcases h5 with h5 | h5
    · rcases hp with hp | hp <;> simp [hp] at h5
    · exact h5
  · intro hd
    rcases h6 with h6 | h6
    · simp [List.isEmpty_iff] at hd; simp [hd] at h6
    · exact h6
  · intro hf ha
    rcases h7 with (h7 | h7) | h7
    · simp [hf] at h7
    · simp [ha] at h7
    · exact h7

/-- non-vacuity: in `loop_1x2` the worker really goes to sleep first (state after two worker steps)
    and the schedule "worker whenever enabled" ends in a final state where both items ran in order. -/
example : ∃ s, Reach (sys cfgLoop1x2) s ∧ s.phase = .waiting ∧ s.sig = false := by
  have h : (match runChoices (sys cfgLoop1x2) (sys cfgLoop1x2).init [0] with
      | some (_, s) => decide (s.phase = .waiting) && !s.sig | none => false) = true := by decide +kernel
  cases hr : runChoices (sys cfgLoop1x2) (sys cfgLoop1x2).init [0] with
  | none => simp [hr] at h
  | some p =>
    obtain ⟨ls, s⟩ := p
    simp only [hr, Bool.and_eq_true, decide_eq_true_eq, Bool.not_eq_true'] at h
    exact ⟨s, runChoices_reach _ _ _ _ _ Reach.init hr, h.1, h.2⟩

def loopWitness : List Nat := [0, 0, 0, 0, 0, 0, 0, 0, 0, 0, 0, 0, 0, 0, 0, 0, 0, 0, 0, 0, 0, 0, 0, 0]

example : ∃ s, Reach (sys cfgLoop1x2) s ∧ s.ran = [0, 1] ∧ final cfgLoop1x2 s = true := by
  have h : (match runChoices (sys cfgLoop1x2) (sys cfgLoop1x2).init loopWitness with
      | some (_, s) => decide (s.ran = [0, 1]) && final cfgLoop1x2 s | none => false) = true := by decide +kernel
  cases hr : runChoices (sys cfgLoop1x2) (sys cfgLoop1x2).init loopWitness with
  | none => simp [hr] at h
  | some p =>
    obtain ⟨ls, s⟩ := p
    simp only [hr, Bool.and_eq_true, decide_eq_true_eq] at h
    exact ⟨s, runChoices_reach _ _ _ _ _ Reach.init hr, h.1, h.2⟩

end Loop

section Tramp
open Unifex.Proto.Trampoline

/-- The recursion counter never exceeds max(maxDepth, 1); the real call-stack nesting never exceeds
    the counter; every logged completion ran with fewer than max(maxDepth, 1) completions below it. -/
theorem trampoline_depth_le (cfg : Config) (s : St) (h : Reach (sys cfg) s) :
    s.depth ≤ max cfg.maxDepth 1 ∧ s.stack.length ≤ s.depth ∧
    ∀ i n d, Ev.run i n d ∈ s.log → n + 1 ≤ max cfg.maxDepth 1 :=
  ⟨(invDepth_reach cfg h).le, (invDepth_reach cfg h).nest, (invDepth_reach cfg h).logged⟩

/-- Every item of the nesting tree has run exactly once when the outermost start() returns: the
    sequence of completed ids is a permutation of the tree's ids (for every tree and depth). -/
theorem trampoline_runs_each_once (cfg : Config) (s : St) (h : Reach (sys cfg) s)
    (hf : s.fin = true) : (runsOf s.log).Perm cfg.root.ids := by
  have hi := invOnce_reach cfg h
  have := hi.fin hf
  have hp := hi.perm
  rw [this.1, this.2] at hp
  simpa [pend, idsL] using hp

/-- … and before that no item has run twice or out of thin air: completed ++ not yet started ++
    deferred is always a permutation of the tree's ids. -/
theorem trampoline_conservation (cfg : Config) (s : St) (h : Reach (sys cfg) s) :
    (runsOf s.log ++ pend s.stack ++ idsL s.deferred).Perm cfg.root.ids :=
  (invOnce_reach cfg h).perm

/-- All deferred items are drained before the outermost start() returns. -/
theorem trampoline_drains_before_outermost_returns (cfg : Config) (s : St) (h : Reach (sys cfg) s)
    (hf : s.fin = true) : s.deferred = [] ∧ s.stack = [] :=
  ⟨((invOnce_reach cfg h).fin hf).2, ((invOnce_reach cfg h).fin hf).1⟩

/-- The outermost start() does return: the run the driver computes (`exec`, at most
    3·size+2 steps) is a reachable state with `fin = true`. -/
theorem trampoline_terminates (cfg : Config) : Reach (sys cfg) (exec cfg) ∧ (exec cfg).fin = true :=
  ⟨iter_reach cfg _ _ Reach.init, iter_fin cfg _ _ (mu_init cfg)⟩

/-- non-vacuity: with maxDepth 2 the tree (()(()(()))()) really defers items (2, 4 and 6) and runs them
    from drain(). -/
example : (exec ⟨2, .node 0 false [.node 1 false [], .node 2 false [.node 3 false [], .node 4 false [.node 5 false []]],
    .node 6 false []]⟩).log.filter (fun e => match e with | .defer _ => true | _ => false)
    = [.defer 2, .defer 6, .defer 4] := by decide +kernel

end Tramp

section Queue
open Unifex.Proto.AtomicQueue

/-- Conservation, in FIFO order: the items pushed so far (in the order of their successful CAS) are
    exactly the items received ++ the batch in the consumer's hands ++ the pending ones, oldest
    first — nothing lost, nothing duplicated, nothing reordered. -/
theorem queue_conservation (cfg : Config) (s : St) (h : Reach (sys cfg) s) :
    s.enqd = s.deq ++ s.batch ++ s.head.items.reverse :=
  (inv_reach cfg h).sh.cons

/-- The inactive→active transition is reported to exactly one caller: the number of callers told
    "you woke the queue up" plus (1 if the queue is inactive now) equals the number of inactive
    periods begun (successful mark-inactive operations, plus 1 if constructed inactive). -/
theorem queue_inactive_told_to_exactly_one (cfg : Config) (s : St) (h : Reach (sys cfg) s) :
    s.told + b2n (s.head == .inactive) = s.inact + b2n cfg.initInactive :=
  (inv_reach cfg h).sh.told1

/-- No item is lost when an enqueue races with try_mark_inactive: whenever the sentinel is in
    `head_`, everything pushed so far has been received and the consumer is (about to be) asleep. -/
theorem queue_inactive_means_drained (cfg : Config) (s : St) (h : Reach (sys cfg) s)
    (hi : s.head = .inactive) : s.enqd = s.deq ∧ (s.cpc = cSleepObs ∨ s.cpc = cSleep) := by
  have hv := (inv_reach cfg h).sh
  have hc := hv.inact hi
  have hb : s.batch = [] := hv.bat (by rcases hc with hc | hc <;> omega)
  have := hv.cons
  rw [hb, hi] at this
  exact ⟨by simpa [Head.items] using this, hc⟩

/-- No lost wake-up: if the consumer sleeps while the queue is active (somebody pushed), then a
    wake-up is pending or a producer that was told has yet to send it (its next step is enabled). -/
theorem queue_no_lost_wakeup (cfg : Config) (s : St) (h : Reach (sys cfg) s)
    (hc : s.cpc = cSleep) (hn : s.head ≠ .inactive) : s.wake > 0 ∨ s.told > s.sigs := by
  have hv := (inv_reach cfg h).sh
  have h1 := hv.told1
  have h2 := hv.wk
  have h3 := hv.phase
  have hc' : s.cpc = 5 := hc
  rw [if_pos (Or.inr hc')] at h3
  have : (s.head == Head.inactive) = false := by
    cases hh : s.head with
    | inactive => exact absurd hh hn
    | list l => rfl
  rw [this] at h1
  simp only [b2n, Bool.false_eq_true, if_false] at h1
  unfold periods at h1 h3
  omega

/-- The consumer's `exchange(nullptr)` never meets the sentinel or an empty queue (the code's
    UNIFEX_ASSERTs hold), and wake-ups are sent only by producers that were told. -/
theorem queue_exchange_safe (cfg : Config) (s : St) (h : Reach (sys cfg) s) :
    s.bad = 0 ∧ s.sigs ≤ s.told := by
  have hv := inv_reach cfg h
  exact ⟨hv.sh.bad0, by have := hv.th.sg; omega⟩

end Queue

end Unifex.Props.C06
