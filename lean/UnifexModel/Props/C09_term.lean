/-
  Props/C09_term.lean — property C09: connect / stop request by a third thread / destroy the
  connected future without starting it.  See Props/C09.lean for the reading of `safe`.
-/
import UnifexModel.Proto.SpawnFuture

namespace Unifex.Props.C09
open Unifex.Core Unifex.Proto.SpawnFuture

/-- The abandon callback is registered at connect time, so the stop request may move `state_` to
    `abandoned` (and the completing operation then to `complete`) although the future is never
    started; `drop()` then negotiates deletion.  In every schedule: std::terminate() is never
    reached, the block is deleted exactly once by exactly one side and never touched afterwards,
    the receiver is never completed, stop is forwarded to the operation. -/
theorem connect_stop_drop_value_safe :
    ∀ s, Reach (sys cfgConnectStopDropValue) s → safe cfgConnectStopDropValue s = true :=
  safe_of_check _ { coded with M := 1531 } 400 _ (by decide +kernel)

/-- non-vacuity: the stop request does reach the connected future (`abandoned`), `drop()` hands
    deletion to the still running operation (`complete`), which deletes the block. -/
example : ∃ s, Reach (sys cfgConnectStopDropValue) s ∧
    (final cfgConnectStopDropValue s && s.abandonWon && decide (s.freed = 1) && decide (s.st = sComplete)) = true :=
  reach_of_run _ [2, 2, 0, 0, 0, 0, 0, 0, 1, 0, 1, 0, 1, 0, 1, 0, 1, 0] _ (by decide +kernel)

end Unifex.Props.C09
