/-
  Props/C09_term.lean — property C09: connect / stop request by a third thread / destroy the
  connected future without starting it.  See Props/C09.lean for the reading of `safe`.
-/
import UnifexModel.Proto.SpawnFuture

namespace Unifex.Props.C09
open Unifex.Core Unifex.Proto.SpawnFuture

/-- connect; a third thread requests stop; the connected future is destroyed without being
    started: everything except "std::terminate() is never reached" holds (in particular no
    use-after-free, no double delete, no deadlock, and — when the process survives — exactly one
    deletion). -/
theorem connect_stop_drop_value_safe_modulo_terminate :
    ∀ s, Reach (sys cfgConnectStopDropValue) s → safeModTerm cfgConnectStopDropValue s = true :=
  safe_of_check _ { coded with M := 1021 } 400 _ (by decide +kernel)

/-- VIOLATION in the code as it is (witness schedule): the abandon callback is registered at
    CONNECT time; a stop request before the future is destroyed moves `state_` to `abandoned`;
    `drop()` then reads a state it does not expect and calls `std::terminate()`. -/
theorem connect_stop_drop_terminates :
    ∃ s, Reach (sys cfgConnectStopDropValue) s ∧ (s.term && final cfgConnectStopDropValue s) = true :=
  reach_of_run _ [2, 2, 0, 0, 0, 0, 1, 0, 1, 0, 1, 0, 1, 0, 1, 0] _ (by decide +kernel)

end Unifex.Props.C09
