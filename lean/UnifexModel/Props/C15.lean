/-
  Props/C15.lean — property C15: async_mutex gives mutual exclusion and never loses a waiter.
  This file: the v1 mutex (Proto/MutexV1.lean).  ONLY property theorems and non-vacuity examples;
  the inductive invariant lives in Lemmas/MutexV1Inv.lean.  The v2 (cancellable) mutex is in
  Props/C15_v2a.lean … C15_v2d.lean (split so that they build in parallel).

  PARAMETRIC theorems (`v1_mutual_exclusion`, `v1_no_lost_waiter`, `v1_fifo`,
  `v1_queue_asserts_hold`): for EVERY configuration — any number of threads, any scripts of
  async_lock / try_lock+unlock / waitAll operations, any number of waiters — and every schedule of
  every length (invariant induction over `Reach`).
  INSTANCE theorems (`v1_*_safe`): the whole `safe` predicate including deadlock freedom and
  "every started lock completes exactly once", by kernel-evaluated closure of the reachable set.
-/
import UnifexModel.Lemmas.MutexV1Inv

namespace Unifex.Props.C15
open Unifex.Core Unifex.Proto.MutexV1

/-- The invariant holds in every reachable state of every configuration. -/
theorem v1_invariant (cfg : Config) (s : St) (h : Reach (sys cfg) s) : Inv s :=
  invariant Inv (inv_init cfg) (fun s l s' hI hm => inv_step cfg s s' l hI hm) h

/-- Mutual exclusion, parametric: at most one party is between its acquisition (set_value of an
    async_lock / successful try_lock) and its call of unlock(). -/
theorem v1_mutual_exclusion (cfg : Config) (s : St) (h : Reach (sys cfg) s) : s.holders ≤ 1 := by
  have hI := v1_invariant cfg s h
  have h1 : s.thrs.countP inCs ≤ s.thrs.countP owner :=
    List.countP_mono_left (fun th _ hp => by simp only [inCs, beq_iff_eq] at hp; simp [owner, hp])
  have h2 := hI.owners
  have h3 := hI.holders
  split at h2 <;> omega

/-- No lost waiter, parametric: whenever the mutex is unlocked (queue word = inactive sentinel)
    the holder's pending batch is empty, everybody whose enqueue CAS has happened has been granted
    the lock, and nobody holds it. -/
theorem v1_no_lost_waiter (cfg : Config) (s : St) (h : Reach (sys cfg) s) (hq : s.q = none) :
    s.pending = [] ∧ s.grants = s.arrivals ∧ s.holders = 0 := by
  have hI := v1_invariant cfg s h
  have hp := hI.unlocked hq
  have hf := hI.fifo
  have h1 : s.thrs.countP inCs ≤ s.thrs.countP owner :=
    List.countP_mono_left (fun th _ hp => by simp only [inCs, beq_iff_eq] at hp; simp [owner, hp])
  have h2 := hI.owners
  have h3 := hI.holders
  refine ⟨hp, ?_, ?_⟩
  · simp [hf, hp, hq]
  · have h2' : s.thrs.countP owner = 0 := by rw [h2, hq]; rfl
    omega

/-- FIFO, parametric: the completions (set_value) happen in the order of the enqueue CASes — the
    grants are a prefix of the arrivals; what is left is the pending batch followed by the inbox
    in reverse (oldest first).  In particular FIFO within a batch and across batches. -/
theorem v1_fifo (cfg : Config) (s : St) (h : Reach (sys cfg) s) :
    s.arrivals = s.grants ++ (s.pending ++ (s.q.getD []).reverse) := by
  have hI := v1_invariant cfg s h
  simpa [List.append_assoc] using hI.fifo

/-- The assertions of atomic_intrusive_queue (unlock of an active queue, exchange returns a
    non-null chain) never fail, parametric. -/
theorem v1_queue_asserts_hold (cfg : Config) (s : St) (h : Reach (sys cfg) s) : s.bad = 0 :=
  (v1_invariant cfg s h).ok

/-- What `safe` says, spelled out. -/
theorem v1_safe_spelled (cfg : Config) (s : St) (h : safe cfg s = true) :
    s.bad = 0
    ∧ s.holders ≤ 1
    ∧ (∀ c ∈ s.comps, c ≤ 1)
    -- unlocked ⇒ nobody queued or pending, nobody holds
    ∧ (s.q = none → s.pending = [] ∧ s.grants = s.arrivals ∧ s.holders = 0)
    ∧ isPrefix s.grants s.arrivals = true
    -- no deadlock
    ∧ (((sys cfg).next s).isEmpty = true → final cfg s = true)
    -- at the end: unlocked, everybody served, every started async_lock completed exactly once
    ∧ (final cfg s = true → s.q = none ∧ s.grants = s.arrivals ∧
        ∀ i, i < cfg.nw → s.comps.getD i 0 = (if cfg.scripts.any (fun sc => sc.contains (.lock i)) then 1 else 0)) := by
  unfold safe at h
  simp only [Bool.and_eq_true, decide_eq_true_eq, List.all_eq_true, Bool.or_eq_true,
    Bool.not_eq_eq_eq_not, Bool.not_true, List.isEmpty_iff, beq_iff_eq, Option.isSome_iff_ne_none,
    ne_eq, Option.isNone_iff_eq_none, List.mem_range] at h
  obtain ⟨⟨⟨⟨⟨⟨h1, h2⟩, h3⟩, h4⟩, h5⟩, h6⟩, h7⟩ := h
  refine ⟨h1, h2, h3, ?_, h5, ?_, ?_⟩
  · intro hq
    rcases h4 with h | h
    · exact absurd hq h
    · exact ⟨h.1.1, h.1.2, h.2⟩
  · intro hd
    rcases h6 with h | h
    · simp [List.isEmpty_iff] at hd; simp [hd] at h
    · exact h
  · intro hf
    rcases h7 with h | h
    · simp [hf] at h
    · exact ⟨h.1.1, h.1.2, h.2⟩

theorem v1_two_safe : ∀ s, Reach (sys cfgTwo) s → safe cfgTwo s = true :=
  safe_of_check _ { coded with M := 173, W := 128 } 400 _ (by decide +kernel)

theorem v1_try_safe : ∀ s, Reach (sys cfgTry) s → safe cfgTry s = true :=
  safe_of_check _ { coded with M := 127, W := 112 } 400 _ (by decide +kernel)

theorem v1_batch_safe : ∀ s, Reach (sys cfgBatch) s → safe cfgBatch s = true :=
  safe_of_check _ { coded with M := 307, W := 104 } 400 _ (by decide +kernel)

/-- non-vacuity: in `v1_two` a final state is reachable by a schedule in which waiter 1 enqueues while
    T1 is inside unlock() (after its `pendingQueue_.empty()` test), so T1's try_mark_inactive does
    not mark the queue inactive, the exchange fetches waiter 1 and T1 hands the lock over: waiter 1
    completes on T1's thread.  (So `safe` is not true merely because nothing happens.) -/
def twoWitness : List Nat := [0, 0, 0, 0, 0, 1, 1, 0, 0, 0, 0, 0, 0, 0, 0, 0, 0, 0, 0]

example : ∃ ls s, runChoices (sys cfgTwo) (sys cfgTwo).init twoWitness = some (ls, s) ∧ Reach (sys cfgTwo) s ∧
    final cfgTwo s = true ∧ s.grants = [0, 1] ∧
    ls.filterMap obsOf = ["T1 lock0", "T1 w0.value", "T1 w0.unlock", "T2 lock1", "T1 w1.value", "T1 w1.unlock",
                          "T0 t9.value", "T0 t9.unlock"] := by
  have h : (match runChoices (sys cfgTwo) (sys cfgTwo).init twoWitness with
      | some (ls, s) => final cfgTwo s && decide (s.grants = [0, 1]) &&
          decide (ls.filterMap obsOf = ["T1 lock0", "T1 w0.value", "T1 w0.unlock", "T2 lock1", "T1 w1.value",
                                        "T1 w1.unlock", "T0 t9.value", "T0 t9.unlock"])
      | none => false) = true := by decide +kernel
  cases hr : runChoices (sys cfgTwo) (sys cfgTwo).init twoWitness with
  | none => simp [hr] at h
  | some p =>
    obtain ⟨ls, s⟩ := p
    simp only [hr, Bool.and_eq_true, decide_eq_true_eq] at h
    exact ⟨ls, s, rfl, runChoices_reach _ _ _ _ _ Reach.init hr, h.1.1, h.1.2, h.2⟩

end Unifex.Props.C15
