/-
  Props/C19_detach.lean — detach_on_cancel: start() on T0, the child finished by hand on T1 (thread A),
  stop request on T2 (thread B); the receiver destroys the parent op when it is completed.
-/
import UnifexModel.Props.C19

namespace Unifex.Props.C19.DetachOnCancel
open Unifex.Core Unifex.Proto.DetachOnCancel

theorem d_race_safe : ∀ s, Reach (sys cfgRace) s → safe cfgRace s = true :=
  safe_of_check _ { coded with M := 509 } 400 _ (by decide +kernel)

/-- thread A finishes the child only after the receiver was completed: the stop path never waits for
    the child (no deadlock), the receiver gets done, the abandoned child's state is freed exactly once
    when it finishes -/
theorem d_detach_safe : ∀ s, Reach (sys cfgDetach) s → safe cfgDetach s = true :=
  safe_of_check _ { coded with M := 251 } 400 _ (by decide +kernel)

/-- the child completes inside its start() -/
theorem d_sync_safe : ∀ s, Reach (sys cfgSync) s → safe cfgSync s = true :=
  safe_of_check _ { coded with M := 251 } 400 _ (by decide +kernel)

theorem d_detach_done_at_once_child_freed_once :
    ∀ s, Reach (sys cfgDetach) s →
      s.completions ≤ 1 ∧ s.frees ≤ 1 ∧
      (((sys cfgDetach).next s).isEmpty = true → final cfgDetach s = true) ∧
      (final cfgDetach s = true → s.completions = 1 ∧ s.frees = 1 ∧ s.childDone = 1) :=
  detach_done_at_once_child_freed_once cfgDetach d_detach_safe

theorem d_race_done_at_once_child_freed_once :
    ∀ s, Reach (sys cfgRace) s →
      s.completions ≤ 1 ∧ s.frees ≤ 1 ∧
      (((sys cfgRace).next s).isEmpty = true → final cfgRace s = true) ∧
      (final cfgRace s = true → s.completions = 1 ∧ s.frees = 1 ∧ s.childDone = 1) :=
  detach_done_at_once_child_freed_once cfgRace d_race_safe

/-- non-vacuity (d_detach): the receiver was completed with done by the stop callback while the child
    was still running; the child finished later and its state was freed by `delete this`. -/
example : ∃ s, Reach (sys cfgDetach) s ∧
    (final cfgDetach s && decide (s.doneWins = 1) && decide (s.frees = 1) && decide (s.childDone = 1)) = true :=
  reach_of_choices _ [0, 0, 0, 0, 0, 0, 0, 0, 0, 0, 0, 0, 0, 1, 1, 0, 0, 0, 0] _ (by decide +kernel)

/-- non-vacuity (d_race): the branch "callback owns the detached state" (`refCount == 1` → reset()):
    the child finishes between the callback's CAS and its fetch_sub. -/
example : ∃ s, Reach (sys cfgRace) s ∧
    (final cfgRace s && decide (s.doneWins = 1) && decide (s.frees = 1) && decide (s.childDone = 1)) = true :=
  reach_of_choices _ [0, 0, 0, 0, 1, 1, 1, 1, 1, 0, 0, 0, 0, 0, 0, 0, 0, 0] _ (by decide +kernel)

end Unifex.Props.C19.DetachOnCancel
