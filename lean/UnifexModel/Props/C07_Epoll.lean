/-
  Props/C07_Epoll.lean — property C07 for the timers of io_epoll_context (Proto/EpollTimer: the
  schedule_at operation, update_timers, request_stop_local / request_stop_remote, the I/O loop and
  the kernel's timerfd / eventfd as ASSUMED environment).  ONLY property theorems + non-vacuity.

  `safe_spelled` unfolds the state predicate; the instances here: stop before start, LOCAL cancel
  (stop requested from the I/O thread).  The REMOTE-cancel election is in Props/C07_EpollRace.lean
  and Props/C07_EpollRace2.lean, due-time order / re-arming in Props/C07_EpollOrder.lean (separate
  files: they build in parallel).  Every `*_safe` theorem quantifies over every reachable state of
  the instance = every schedule of every length (closure computed and re-checked by the kernel).
-/
import UnifexModel.Proto.EpollTimer

namespace Unifex.Props.C07_Epoll
open Unifex.Core Unifex.Proto.EpollTimer

/-- What `EpollTimer.safe` says, spelled out. -/
theorem safe_spelled (cfg : Config) (s : St) (h : safe cfg s = true) :
    -- no set_value before the due time; NO OPERATION IS PUT ON A QUEUE WHILE IT IS ALREADY ENQUEUED
    -- (one winner of the elapsed-vs-cancelled election); no item of a completed operation and no item
    -- with a null execute_ is executed; no completion while the context still references the
    -- operation; no set_value after request_stop() returned; no set_done without a stop request
    s.bad = 0
    -- exactly-once: at most one completion, enqueued_ never exceeds 1
    ∧ (∀ c ∈ s.ops, c.completions ≤ 1 ∧ c.enq ≤ 1)
    -- timers_ is in ascending due-time order
    ∧ sortedB s.timers = true
    -- after its completion nothing refers to an operation: not in timers_, on no queue
    -- (enqueued_ = 0), stop callback never constructed or destroyed, the I/O thread not inside it
    ∧ (∀ i, i < s.ops.length → (getOp s i).completions ≠ 0 →
         (getOp s i).inTimers = false ∧ (getOp s i).enq = 0 ∧
         ((getOp s i).cb = 0 ∨ (getOp s i).cb = 4) ∧ inItem s i = false)
    -- cancel promptly / no lost wake-up: while an elapsed timer is linked in timers_, or
    -- request_stop() has returned for an operation that has not completed, some THREAD can move
    ∧ ((s.timers.any (fun y => decide (y.due ≤ (s.now : Int))) = true ∨
        s.ops.any (fun c => c.stopRet && c.completions == 0) = true) →
         (threadSteps cfg s).isEmpty = false)
    -- no deadlock
    ∧ (((sys cfg).next s).isEmpty = true → final cfg s = true)
    -- at the end: every operation completed exactly once, nothing left in timers_ or the queues
    ∧ (final cfg s = true → (∀ c ∈ s.ops, c.completions = 1) ∧ s.timers = [] ∧ s.lq = [] ∧ s.rq = []) := by
  unfold safe at h
  simp only [Bool.and_eq_true, decide_eq_true_eq, List.all_eq_true, Bool.or_eq_true,
    Bool.not_eq_true', List.mem_range, beq_iff_eq] at h
  obtain ⟨⟨⟨⟨⟨⟨h1, h2⟩, h3⟩, h4⟩, h5⟩, h6⟩, h7⟩ := h
  refine ⟨h1, h2, h3, ?_, ?_, ?_, ?_⟩
  · intro i hi hc
    rcases (h4 i hi).2 with h | h
    · exact absurd h hc
    · exact ⟨h.1.1.1, h.1.1.2, h.1.2, h.2⟩
  · intro hq
    rcases h5 with h | h
    · rcases hq with hq | hq
      · rw [h.1] at hq; cases hq
      · rw [h.2] at hq; cases hq
    · exact h
  · intro hd
    rcases h6 with h | h
    · rw [hd] at h; cases h
    · exact h
  · intro hf
    rcases h7 with h | h
    · rw [hf] at h; cases h
    · exact ⟨h.1.1.1, List.isEmpty_iff.mp h.1.1.2, List.isEmpty_iff.mp h.1.2, List.isEmpty_iff.mp h.2⟩

/-- stop requested before start(): start_local sees stop_requested() and completes with done -/
theorem ep_stop_before_start_safe :
    ∀ s, Reach (sys cfgStopBeforeStart) s → safe cfgStopBeforeStart s = true :=
  safe_of_check _ { coded with M := 251 } 400 _ (by decide +kernel)

/-- LOCAL cancel: the stop request comes from an item running on the I/O thread -/
theorem ep_local_cancel_safe : ∀ s, Reach (sys cfgLocalCancel) s → safe cfgLocalCancel s = true :=
  safe_of_check _ { coded with M := 809 } 400 _ (by decide +kernel)

/-- non-vacuity: the locally cancelled timer (due 1) completes at time 0 -/
def localCancelWitness : List Nat :=
  [1, 1, 0, 0, 0, 0, 0, 0, 0, 0, 0, 0, 0, 0, 0, 0, 0, 0, 0, 1, 1, 1, 1, 0, 0, 0, 0, 0, 0, 0, 0, 0, 0, 0, 0, 0, 0, 0]

example : ∃ s, Reach (sys cfgLocalCancel) s ∧ final cfgLocalCancel s = true ∧ s.now = 0 ∧
    (getOp s 0).completions = 1 := by
  have h : (match runChoices (sys cfgLocalCancel) (sys cfgLocalCancel).init localCancelWitness with
      | some (_, s) => final cfgLocalCancel s && decide (s.now = 0) && decide ((getOp s 0).completions = 1)
      | none => false) = true := by decide +kernel
  cases hr : runChoices (sys cfgLocalCancel) (sys cfgLocalCancel).init localCancelWitness with
  | none => simp [hr] at h
  | some p =>
    obtain ⟨ls, s⟩ := p
    simp only [hr, Bool.and_eq_true, decide_eq_true_eq] at h
    exact ⟨s, runChoices_reach _ _ _ _ _ Reach.init hr, h.1.1, h.1.2, h.2⟩

end Unifex.Props.C07_Epoll
