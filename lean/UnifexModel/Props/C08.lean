/-
  Props/C08.lean — property C08: async_scope join completes only after all nested work has
  finished.  ONLY property theorems and non-vacuity examples (helper lemmas live with the models).

  Models: Proto/ScopeV2.lean (atomic steps of v2::async_scope + the v1 manual reset event it
  waits on + nest/spawn_detached), Proto/ScopeCounter.lean (the same protocol with N workers and J
  joiners, state as functions, for the parametric invariant proofs).

  * `*_safe` (per instance, by reflection): every reachable state of the instance — every schedule
    of every length — satisfies `ScopeV2.safe` (spelled out in `safe_spelled`).
    The instance theorems are about `safeQ` = `safe` ∧ `noLateTouch`: additionally the scope is
    never touched by a completing operation after its owner may have destroyed it (every join
    completed, every call on the scope returned).  (Before /repo commit 5b08c2e a second
    `end_scope()` could set the event while the last operation still had to; the models follow the
    fixed code: only the call that actually ends the scope sets the event.)
  * the parametric theorems (all N, all J, all schedules) are in the second half of the file.
-/
import UnifexModel.Proto.ScopeV2
import UnifexModel.Proto.ScopeCounter

namespace Unifex.Props.C08
open Unifex.Core

section V2
open Unifex.Proto.ScopeV2

/-- What `ScopeV2.safe` says, spelled out. -/
theorem safe_spelled (cfg : Config) (s : St) (h : safe cfg s = true) :
    -- a join has completed only if the scope is closed, the count is zero and no admitted
    -- operation is still unreleased
    ((∃ d ∈ s.jdone, d ≠ 0) → s.ended = true ∧ s.count = 0 ∧ ∀ o ∈ s.ops, o.counted = false)
    -- every join completes at most once
    ∧ (∀ d ∈ s.jdone, d ≤ 1)
    -- nest() that began after the close is never admitted (so never started)
    ∧ (∀ o ∈ s.ops, o.lateNest = true → o.phase = 0 ∨ o.phase = 6)
    -- the use count is the number of admitted, unreleased operations
    ∧ s.count = (s.ops.filter OpSt.counted).length
    -- no deadlock
    ∧ (((sys cfg).next s).isEmpty = true → final cfg s = true)
    -- at the end every started join completed exactly once, every operation was rejected or
    -- released, the count is zero
    ∧ (final cfg s = true →
        (∀ j < s.jdone.length, s.jbegun.getD j 0 = s.jdone.getD j 0) ∧
        (∀ o ∈ s.ops, o.phase = 0 ∨ o.phase = 5 ∨ o.phase = 6) ∧ s.count = 0) := by
  unfold safe at h
  simp only [Bool.and_eq_true, decide_eq_true_eq, List.all_eq_true, Bool.or_eq_true,
    Bool.not_eq_true', List.mem_range] at h
  obtain ⟨⟨⟨⟨⟨h1, h2⟩, h3⟩, h4⟩, h5⟩, h6⟩ := h
  refine ⟨?_, h2, ?_, h4, ?_, ?_⟩
  · rintro ⟨d, hd, hne⟩
    rcases h1 with h1 | h1
    · exact absurd (h1 d hd) hne
    · exact ⟨h1.1.1, h1.1.2, fun o ho => by simpa using h1.2 o ho⟩
  · intro o ho hl
    rcases h3 o ho with (h | h) | h
    · simp [hl] at h
    · exact Or.inl h
    · exact Or.inr h
  · intro hd
    rcases h5 with h5 | h5
    · simp [hd] at h5
    · exact h5
  · intro hf
    rcases h6 with h6 | h6
    · simp [hf] at h6
    · refine ⟨h6.1.1, fun o ho => ?_, h6.2⟩
      rcases h6.1.2 o ho with (h | h) | h
      · exact Or.inl h
      · exact Or.inr (Or.inl h)
      · exact Or.inr (Or.inr h)

theorem v2_race1_safe : ∀ s, Reach (sys cfgRace1) s → safeQ cfgRace1 s = true :=
  safe_of_check _ { coded with M := 251 } 400 _ (by decide +kernel)

theorem v2_late_nest_safe : ∀ s, Reach (sys cfgLateNest) s → safeQ cfgLateNest s = true :=
  safe_of_check _ { coded with M := 251 } 400 _ (by decide +kernel)

/-- non-vacuity: in `v2_race2` a final state is reachable in which both operations were admitted,
    started, completed and released and the join completed. -/
def race2Witness : List Nat := [0, 0, 0, 0, 0, 1, 1, 1, 0, 1, 1, 1, 1, 1, 1, 1, 1, 0]

example : ∃ s, Reach (sys cfgRace2) s ∧ final cfgRace2 s = true ∧
    (getOp s 0).phase = 5 ∧ (getOp s 1).phase = 5 ∧ s.jdone = [1] := by
  have h : (match runChoices (sys cfgRace2) (sys cfgRace2).init race2Witness with
      | some (_, s) => final cfgRace2 s && decide ((getOp s 0).phase = 5) && decide ((getOp s 1).phase = 5)
          && decide (s.jdone = [1]) | none => false) = true := by
    decide +kernel
  cases hr : runChoices (sys cfgRace2) (sys cfgRace2).init race2Witness with
  | none => simp [hr] at h
  | some p =>
    obtain ⟨ls, s⟩ := p
    simp only [hr, Bool.and_eq_true, decide_eq_true_eq] at h
    exact ⟨s, runChoices_reach _ _ _ _ _ Reach.init hr, h.1.1.1, h.1.1.2, h.1.2, h.2⟩

/-- non-vacuity: in `v2_late_nest` the operation nested after the close is rejected. -/
def lateNestWitness : List Nat := [0, 0, 0, 0, 0, 0, 1, 1, 1, 1, 0, 0, 0, 0]

example : ∃ s, Reach (sys cfgLateNest) s ∧ final cfgLateNest s = true ∧
    (getOp s 1).lateNest = true ∧ (getOp s 1).phase = 6 := by
  have h : (match runChoices (sys cfgLateNest) (sys cfgLateNest).init lateNestWitness with
      | some (_, s) => final cfgLateNest s && (getOp s 1).lateNest && decide ((getOp s 1).phase = 6)
      | none => false) = true := by
    decide +kernel
  cases hr : runChoices (sys cfgLateNest) (sys cfgLateNest).init lateNestWitness with
  | none => simp [hr] at h
  | some p =>
    obtain ⟨ls, s⟩ := p
    simp only [hr, Bool.and_eq_true, decide_eq_true_eq] at h
    exact ⟨s, runChoices_reach _ _ _ _ _ Reach.init hr, h.1.1, h.1.2, h.2⟩

end V2

/-! ## Parametric theorems: N workers, J joiners, every schedule (invariant induction)

  Model: Proto/ScopeCounter.lean — the step relation of Proto/ScopeV2 for worker `i < N` running
  `nest; start; complete` and joiner `j < J` running `join`, each on its own thread (see the header
  of that file for what exactly is abstracted).  Worker pc 3..6 = admitted and the scope reference
  not yet released (`counted`), 7 = committed to `evt_.set()`, 9 = released, 10 = rejected. -/
section Parametric
open Unifex.Proto.ScopeCounter

/-- The use count is exactly the number of admitted operations whose reference has not been
    released yet: work admitted before the close is counted, however admission races with the
    close and with other admissions/completions. -/
theorem admitted_before_close_counted {N J : Nat} {s : St} (h : Reach (sys N J) s) :
    s.count = outstanding s N := (invA h).cnt_eq

/-- A join receiver has completed only if the scope is closed, the count is zero and no admitted
    operation is still outstanding — i.e. every admitted operation has completed and released. -/
theorem join_only_when_closed_and_zero {N J : Nat} {s : St} (h : Reach (sys N J) s) (j : Nat)
    (hd : 1 ≤ s.jdone j) :
    s.ended = true ∧ s.count = 0 ∧ ∀ i, i < N → counted (s.wpc i) = false := by
  have ha := invA h
  have hs := ha.done_sig j hd
  have hc := ha.sig_closed hs
  refine ⟨hc.1, hc.2, fun i hi => ?_⟩
  have h0 : outstanding s N = 0 := by rw [← ha.cnt_eq]; exact hc.2
  exact cnt_zero _ N h0 i hi

/-- Every join completes at most once, however many joins race. -/
theorem join_at_most_once {N J : Nat} {s : St} (h : Reach (sys N J) s) (j : Nat) :
    s.jdone j ≤ 1 := ((invB h).done_pc j).2.2

/-- An operation whose nest() began when the scope was already closed is never admitted (never
    counted, never started): it is still before its CAS having read "ended", or already rejected. -/
theorem nest_after_close_never_started {N J : Nat} {s : St} (h : Reach (sys N J) s) (i : Nat)
    (hl : s.wlate i = true) :
    s.wpc i = 1 ∨ (s.wpc i = 2 ∧ s.wseenE i = true) ∨ s.wpc i = 10 := ((invA h).late i hl).2

/-- … and the only step it can take from pc 2 is the rejection (completes with done). -/
theorem nest_after_close_is_done {s s' : St} {i : Nat} (hpc : s.wpc i = 2) (hE : s.wseenE i = true)
    (hs : stepW s i = some s') : s'.wpc i = 10 := by
  unfold stepW at hs
  simp [hpc, hE] at hs
  subst hs
  simp

/-- No thread ever blocks inside the scope: a state without successor is one in which every worker
    has finished (released or rejected) and every joiner has returned from starting its join. -/
theorem no_deadlock {N J : Nat} {s : St} (h : (sys N J).next s = []) :
    (∀ i, i < N → 9 ≤ s.wpc i) ∧ (∀ j, j < J → 6 ≤ s.jpc j) := terminal_of_no_next h

/-- The join does fire: once all workers are finished and all joiners have returned from start,
    every join receiver has been completed exactly once (no lost wake-up, no double completion). -/
theorem join_fires_when_closed_and_zero {N J : Nat} {s : St} (h : Reach (sys N J) s)
    (hw : ∀ i, i < N → 9 ≤ s.wpc i) (hj : ∀ j, j < J → 6 ≤ s.jpc j) (j : Nat) (hjJ : j < J) :
    s.jdone j = 1 := by
  have ha := invA h
  have hb := invB h
  have hc := invC h
  have he := invE h
  have hle := ((hb.done_pc j).2.2)
  have h67 : s.jpc j = 6 ∨ s.jpc j = 7 := by have := hj j hjJ; have := he.jle j; omega
  rcases h67 with h6 | h7
  · by_cases hd : s.jdone j = 0
    · exfalso
      have hcount : s.count = 0 := by
        rw [ha.cnt_eq]
        exact cnt_false _ N (fun k hk => by
          have h9 := hw k hk
          have h10 := he.wle k
          simp only [counted, decide_eq_false_iff_not]; omega)
      have hended : s.ended = true := ha.jended j (by omega)
      have notodoW : ∀ i, s.wtodo i = [] := by
        intro i
        by_cases hne : s.wtodo i = []
        · exact hne
        · have h8 := (hb.wtodo_set i hne).1
          by_cases hi : i < N
          · have := hw i hi; omega
          · have := he.wout i (by omega); omega
      have notodoJ : ∀ k, s.jtodo k = [] := by
        intro k
        by_cases hne : s.jtodo k = []
        · exact hne
        · have h3 := (hb.jtodo_set k hne).1
          by_cases hk : k < J
          · have := hj k hk; omega
          · have := he.jout k (by omega); omega
      have hmem : j ∈ s.waiters := by
        rcases hb.pending j h6 hd with hm | ⟨i, hm⟩ | ⟨k, hm⟩
        · exact hm
        · rw [notodoW i] at hm; cases hm
        · rw [notodoJ k] at hm; cases hm
      have hsig : s.sig = false := by
        cases hs : s.sig with
        | false => rfl
        | true => rw [hb.sig_nowait hs] at hmem; cases hmem
      rcases hc hended hcount hsig with ⟨i, hi, h7⟩ | ⟨k, hk, h2⟩
      · have := hw i hi; omega
      · have := hj k hk; omega
    · omega
  · exact ((hb.done_pc j).2.1) h7

/-- However many joins / end_scope calls race: once ANY join receiver has its completion, no worker
    is still about to call `evt_.set()` — a completing operation never touches the scope after a
    join has completed (the thread committed to setting the event is unique: the one `end_scope`
    call that actually ended the scope with count 0, or else the last completing operation). -/
theorem join_done_no_late_touch {N J : Nat} {s : St} (h : Reach (sys N J) s) (j : Nat)
    (hd : 1 ≤ s.jdone j) (i : Nat) : s.wpc i ≠ 7 := by
  intro h7
  have hs := (invA h).done_sig j hd
  have := ((invD h).claim i h7).1
  rw [hs] at this
  cases this

/-- At most one thread is ever committed to setting the event at a time, and none once it is set. -/
theorem evt_setter_unique {N J : Nat} {s : St} (h : Reach (sys N J) s) (i : Nat) (h7 : s.wpc i = 7) :
    s.sig = false ∧ (∀ j, s.jpc j ≠ 2) ∧ (∀ i', s.wpc i' = 7 → i' = i) :=
  ⟨((invD h).claim i h7).1, ((invD h).claim i h7).2, fun i' h' => (invD h).uniq i' i h' h7⟩

/-- non-vacuity of the parametric model: with one worker and one joiner a state is reachable in
    which the worker was admitted, ran and released, and the join completed. -/
example : ∃ s, Reach (sys 1 1) s ∧ s.wpc 0 = 9 ∧ s.jdone 0 = 1 := by
  have h : (match runChoices (sys 1 1) (sys 1 1).init [0, 0, 0, 0, 0, 0, 1, 1, 0, 0, 0, 0] with
      | some (_, s) => decide (s.wpc 0 = 9) && decide (s.jdone 0 = 1) | none => false) = true := by
    decide +kernel
  cases hr : runChoices (sys 1 1) (sys 1 1).init [0, 0, 0, 0, 0, 0, 1, 1, 0, 0, 0, 0] with
  | none => simp [hr] at h
  | some p =>
    obtain ⟨ls, s⟩ := p
    simp only [hr, Bool.and_eq_true, decide_eq_true_eq] at h
    exact ⟨s, runChoices_reach _ _ _ _ _ Reach.init hr, h.1, h.2⟩

end Parametric

end Unifex.Props.C08
