/-
  Props/C08.lean — property C08: async_scope join completes only after all nested work has
  finished.  ONLY property theorems and non-vacuity examples (helper lemmas live with the models).

  Models: Proto/ScopeV2.lean (atomic steps of v2::async_scope + the v1 manual reset event it
  waits on + nest/spawn_detached), Proto/ScopeCounter.lean (the same protocol with N workers and J
  joiners, state as functions, for the parametric invariant proofs).

  * `*_safe` (per instance, by reflection): every reachable state of the instance — every schedule
    of every length — satisfies `ScopeV2.safe` (spelled out in `safe_spelled`).
  * `*_quiet` (per instance): additionally the scope is never touched after its owner may have
    destroyed it.
  * `v2_two_joins_late_touch`: with two racing joins that last clause is FALSE for the code as it
    is (witness schedule; replayed on the real code by harness/rt/scn_c08.cpp:v2_two_joins).
  * the parametric theorems (all N, all J, all schedules) are in the second half of the file.
-/
import UnifexModel.Proto.ScopeV2

namespace Unifex.Props.C08
open Unifex.Core

section V2
open Unifex.Proto.ScopeV2

/-- What `ScopeV2.safe` says, spelled out. -/
theorem safe_spelled (cfg : Config) (s : St) (h : safe cfg s = true) :
    -- a join has completed only if the scope is closed, the count is zero and no admitted
    -- operation is still unreleased
    ((∃ d ∈ s.jdone, d ≠ 0) → s.ended = true ∧ s.count = 0 ∧ ∀ o ∈ s.ops, o.counted = false)
    -- every join completes at most once
    ∧ (∀ d ∈ s.jdone, d ≤ 1)
    -- nest() that began after the close is never admitted (so never started)
    ∧ (∀ o ∈ s.ops, o.lateNest = true → o.phase = 0 ∨ o.phase = 6)
    -- the use count is the number of admitted, unreleased operations
    ∧ s.count = (s.ops.filter OpSt.counted).length
    -- no deadlock
    ∧ (((sys cfg).next s).isEmpty = true → final cfg s = true)
    -- at the end every started join completed exactly once, every operation was rejected or
    -- released, the count is zero
    ∧ (final cfg s = true →
        (∀ j < s.jdone.length, s.jbegun.getD j 0 = s.jdone.getD j 0) ∧
        (∀ o ∈ s.ops, o.phase = 0 ∨ o.phase = 5 ∨ o.phase = 6) ∧ s.count = 0) := by
  unfold safe at h
  simp only [Bool.and_eq_true, decide_eq_true_eq, List.all_eq_true, Bool.or_eq_true,
    Bool.not_eq_true', List.mem_range] at h
  obtain ⟨⟨⟨⟨⟨h1, h2⟩, h3⟩, h4⟩, h5⟩, h6⟩ := h
  refine ⟨?_, h2, ?_, h4, ?_, ?_⟩
  · rintro ⟨d, hd, hne⟩
    rcases h1 with h1 | h1
    · exact absurd (h1 d hd) hne
    · exact ⟨h1.1.1, h1.1.2, fun o ho => by simpa using h1.2 o ho⟩
  · intro o ho hl
    rcases h3 o ho with (h | h) | h
    · simp [hl] at h
    · exact Or.inl h
    · exact Or.inr h
  · intro hd
    rcases h5 with h5 | h5
    · simp [hd] at h5
    · exact h5
  · intro hf
    rcases h6 with h6 | h6
    · simp [hf] at h6
    · refine ⟨h6.1.1, fun o ho => ?_, h6.2⟩
      rcases h6.1.2 o ho with (h | h) | h
      · exact Or.inl h
      · exact Or.inr (Or.inl h)
      · exact Or.inr (Or.inr h)

theorem v2_race1_safe : ∀ s, Reach (sys cfgRace1) s → safeQ cfgRace1 s = true :=
  safe_of_check _ { coded with M := 251 } 400 _ (by decide +kernel)

theorem v2_late_nest_safe : ∀ s, Reach (sys cfgLateNest) s → safeQ cfgLateNest s = true :=
  safe_of_check _ { coded with M := 251 } 400 _ (by decide +kernel)

/-- Two racing joins (the C08 clauses themselves hold: `C08_v2.v2_two_joins_safe`): the code as it is lets the last completing operation call `evt_.set()` after both joins
    have completed and every call on the scope has returned (both `end_scope` calls and the last
    `record_completion` decide to set the event; the second `end_scope` sees count 0 while the
    completing operation is still between its `fetch_sub` and its `evt_.set()`).  The owner may
    have destroyed the scope by then.  Witness: an explicit schedule. -/
def twoJoinsWitness : List Nat := [0, 0, 0, 0, 0, 0, 1, 1, 1, 2, 2, 2, 0, 1, 0]

theorem v2_two_joins_late_touch :
    ∃ s, Reach (sys cfgTwoJoins) s ∧ noLateTouch s = false ∧ s.jdone = [1, 1] := by
  have h : (match runChoices (sys cfgTwoJoins) (sys cfgTwoJoins).init twoJoinsWitness with
      | some (_, s) => !noLateTouch s && decide (s.jdone = [1, 1]) | none => false) = true := by
    decide +kernel
  cases hr : runChoices (sys cfgTwoJoins) (sys cfgTwoJoins).init twoJoinsWitness with
  | none => simp [hr] at h
  | some p =>
    obtain ⟨ls, s⟩ := p
    simp only [hr, Bool.and_eq_true, decide_eq_true_eq, Bool.not_eq_true'] at h
    exact ⟨s, runChoices_reach _ _ _ _ _ Reach.init hr, h.1, h.2⟩

/-- non-vacuity: in `v2_race2` a final state is reachable in which both operations were admitted,
    started, completed and released and the join completed. -/
def race2Witness : List Nat := [0, 0, 0, 0, 0, 1, 1, 1, 0, 1, 1, 1, 1, 1, 1, 1, 1, 0]

example : ∃ s, Reach (sys cfgRace2) s ∧ final cfgRace2 s = true ∧
    (getOp s 0).phase = 5 ∧ (getOp s 1).phase = 5 ∧ s.jdone = [1] := by
  have h : (match runChoices (sys cfgRace2) (sys cfgRace2).init race2Witness with
      | some (_, s) => final cfgRace2 s && decide ((getOp s 0).phase = 5) && decide ((getOp s 1).phase = 5)
          && decide (s.jdone = [1]) | none => false) = true := by
    decide +kernel
  cases hr : runChoices (sys cfgRace2) (sys cfgRace2).init race2Witness with
  | none => simp [hr] at h
  | some p =>
    obtain ⟨ls, s⟩ := p
    simp only [hr, Bool.and_eq_true, decide_eq_true_eq] at h
    exact ⟨s, runChoices_reach _ _ _ _ _ Reach.init hr, h.1.1.1, h.1.1.2, h.1.2, h.2⟩

/-- non-vacuity: in `v2_late_nest` the operation nested after the close is rejected. -/
def lateNestWitness : List Nat := [0, 0, 0, 0, 0, 0, 1, 1, 1, 1, 0, 0, 0, 0]

example : ∃ s, Reach (sys cfgLateNest) s ∧ final cfgLateNest s = true ∧
    (getOp s 1).lateNest = true ∧ (getOp s 1).phase = 6 := by
  have h : (match runChoices (sys cfgLateNest) (sys cfgLateNest).init lateNestWitness with
      | some (_, s) => final cfgLateNest s && (getOp s 1).lateNest && decide ((getOp s 1).phase = 6)
      | none => false) = true := by
    decide +kernel
  cases hr : runChoices (sys cfgLateNest) (sys cfgLateNest).init lateNestWitness with
  | none => simp [hr] at h
  | some p =>
    obtain ⟨ls, s⟩ := p
    simp only [hr, Bool.and_eq_true, decide_eq_true_eq] at h
    exact ⟨s, runChoices_reach _ _ _ _ _ Reach.init hr, h.1.1, h.1.2, h.2⟩

end V2

end Unifex.Props.C08
