/-
  Props/C04_Atomic.lean — property C04 at the SCHEDULE level: "stop requests reach running children;
  completion never outlives a callback", for when_all / when_all_range (Proto/WhenAll.lean: PARAMETRIC in
  the number of children, the configuration and the schedule) and stop_when (Proto/StopWhen.lean:
  instances by reflection).  ONLY property theorems + non-vacuity examples (invariants:
  Lemmas/WhenAllInv*.lean).

  Reading guide for the when_all state: `cbReg` = `stopCallback_` constructed and not yet destructed;
  `cbRunning` = `cancel_operation` is executing (on the stop thread, thread id `stopTid cfg`);
  `ownStop` = `stopSource_.stop_requested()` of the operation's own source, i.e. what every child sees on
  the token it was given; `notified` = the child's stop callback ran; `firstFail` = the child that won the
  `doneOrError_` exchange; `bad = 1` would mean that some step read or wrote the operation state after the
  receiver was signalled (when the receiver may already have destroyed it).
-/
import UnifexModel.Lemmas.WhenAllInvC
import UnifexModel.Lemmas.Witness
import UnifexModel.Proto.StopWhen

namespace Unifex.Props.C04Atomic
open Unifex.Core

namespace WhenAllN
open Unifex.Proto.WhenAll

/-- **Completion never outlives the callback**: at the instant the receiver is signalled — and ever
    after — `stopCallback_` has been destructed (deregistered from the receiver's stop source), and the
    callback is not executing on any other thread: if it is still on a stack at all, it is the stop thread's
    own stack and the stop thread itself sent the signal from inside the callback (after deregistering). -/
theorem no_callback_registered_at_delivery (cfg : Config) (hn : 0 < cfg.n) :
    ∀ s, Reach (sys cfg) s → 1 ≤ s.delivered →
      s.cbReg = false ∧ (s.cbRunning = true → s.dlvBy = stopTid cfg) :=
  fun _ hs hd => ⟨(inv_reach hn hs).b.nd hd, (inv_reach hn hs).b.dr hd⟩

/-- the thread that runs `deliver_result()` has destructed the callback before it reads the receiver's
    token / signals, and (unless it is the stop thread itself) the callback is not running then -/
theorem destructed_before_signal (cfg : Config) (hn : 0 < cfg.n) :
    ∀ s, Reach (sys cfg) s → ∀ c ∈ s.ch, (c.ph = .dlv2 ∨ c.ph = .dlv3) →
      s.cbReg = false ∧ s.cbRunning = false :=
  fun _ hs => (inv_reach hn hs).b.c2

/-- **Nothing touches the operation state after the completion signal** (the receiver may destroy it):
    no late `fetch_add`/`fetch_sub`/`exchange`/`request_stop`/`destruct` — in particular the stop callback's
    `fetch_add` that observes 0 happens strictly before the signal, because `destruct()` waits for it. -/
theorem no_touch_after_delivery (cfg : Config) (hn : 0 < cfg.n) :
    ∀ s, Reach (sys cfg) s → s.bad = 0 :=
  fun _ hs => (inv_reach hn hs).c

/-- **Losers are stopped**: the child that won the `doneOrError_` exchange (the first error/done) has
    requested stop on the operation's own source by the time its completion call proceeds to the decrement;
    the token every sibling holds then reports `stop_requested()`. -/
theorem failure_stops_running_siblings (cfg : Config) (hn : 0 < cfg.n) :
    ∀ s, Reach (sys cfg) s → ∀ k c, s.firstFail = some k → s.ch[k]? = some c →
      c.out ≠ .value ∧ (c.ph.pastStop = true → s.ownStop = true) := by
  intro s hs k c hk hc
  have := (inv_reach hn hs).d.ff k c hk hc
  exact ⟨this.1, this.2.2⟩

/-- a failure is always recorded: `doneOrError_` set ⇔ some child won the exchange -/
theorem failed_iff_winner (cfg : Config) (hn : 0 < cfg.n) :
    ∀ s, Reach (sys cfg) s → (s.doe = true ↔ s.firstFail ≠ none) := by
  intro s hs
  have hd := (inv_reach hn hs).d
  constructor
  · exact hd.winner
  · intro h
    cases hdoe : s.doe with
    | true => rfl
    | false => exact absurd (hd.doeff hdoe) h

/-- when the first requester has returned from `stopSource_.request_stop()`, every child that is still
    running has had its stop callback executed -/
theorem notified_when_notifier_done (cfg : Config) (hn : 0 < cfg.n) :
    ∀ s, Reach (sys cfg) s → s.notifyDone = true →
      s.ownStop = true ∧ ∀ c ∈ s.ch, c.ph = .run → c.notified = true := by
  intro s hs hnd
  have hd := (inv_reach hn hs).d
  obtain ⟨h1, h2⟩ := hd.nd2 hnd
  exact ⟨h2, fun c hc hr => hd.gone c hc (h1 c hc) hr⟩

/-- at the completion signal: if any child failed, the own stop source had been requested -/
theorem stopped_at_delivery_if_failed (cfg : Config) (hn : 0 < cfg.n) :
    ∀ s, Reach (sys cfg) s → s.delivered = 1 → ∀ k, s.firstFail = some k → s.ownStop = true := by
  intro s hs hd k hk
  have hi := inv_reach hn hs
  have hlt := hi.d.ffk k hk
  have hc : s.ch[k]? = some s.ch[k] := List.getElem?_eq_getElem hlt
  have hfin := all_fin_of_delivered hi hd s.ch[k] (List.getElem_mem hlt)
  exact (hi.d.ff k _ hk hc).2.2 (by rw [hfin]; rfl)

/-- **An external stop request reaches the running children**: when `request_stop()` on the receiver's
    source has returned, every child that is still running sees `stop_requested()` on its token (the
    callback either requested stop on the own source, or found the operation already past its last
    decrement, in which case no child is running). -/
theorem external_stop_reaches_children (cfg : Config) (hn : 0 < cfg.n) :
    ∀ s, Reach (sys cfg) s → (s.stopPh = .cbRet ∨ s.stopPh = .ret ∨ s.stopPh = .fin) →
      ∀ c ∈ s.ch, c.ph = .run → s.ownStop = true := by
  intro s hs hp c hc hr
  have hi := inv_reach hn hs
  have : s.stopPh.after = true := by rcases hp with h | h | h <;> simp [h]
  rcases hi.d.es2 this with h | h
  · exact h
  · exact absurd hr (not_run_of_zeroed hi h c hc)

/-- while the stop callback is past its `stopSource_.request_stop()` call the own source is requested -/
theorem stop_callback_requests_own_source (cfg : Config) (hn : 0 < cfg.n) :
    ∀ s, Reach (sys cfg) s → s.stopPh.pastOwn = true → s.ownStop = true :=
  fun _ hs => (inv_reach hn hs).d.es1

end WhenAllN

/-! ### non-vacuity and the documented deviation of stop_when -/

section NonVacuity
open Unifex.Proto

/-- when_all: `destruct()` really has to wait — a child is elected (`dlv1`) while the stop callback is
    executing on the stop thread. -/
example : ∃ s, Reach (WhenAll.sys WhenAll.cfgWa1Stop) s ∧
    (s.cbRunning && s.ch.any (fun c => decide (c.ph = .dlv1))) = true :=
  reach_of_runSat _ [0, 0, 0, 0, 1, 1] _ (by decide +kernel)

/-- when_all: `deliver_result()` runs INSIDE the stop callback (self-deregistration), the receiver gets
    done because its stop flag is set. -/
example : ∃ s, Reach (WhenAll.sys WhenAll.cfgWa1Stop) s ∧
    (decide (s.delivered = 1) && decide (s.dlvBy = 2) && decide (s.result = some .done) &&
      WhenAll.final WhenAll.cfgWa1Stop s) = true :=
  reach_of_runSat _ [0, 0, 0, 1, 1, 1, 0, 0, 0, 0, 0, 0, 0, 0] _ (by decide +kernel)

/-- stop_when as it IS: on the `cancel_callback` path the receiver is signalled while `stopCallback_` is
    still engaged (no `reset()` before `deliver_result()`): the literal reading of "every stop callback is
    deregistered before the receiver is completed" does NOT hold there.  (Replayed on the real code by
    scenario `sw_stop_inl`: history `… ; T3 root.done cb-alive ; T3 stop.end`.) -/
theorem stop_when_cancel_path_signals_with_callback_alive :
    ∃ s, Reach (StopWhen.sys StopWhen.cfgSwStopInl) s ∧
      (decide (s.delivered = 1) && s.aliveAtDlv && s.cbAlive && StopWhen.final StopWhen.cfgSwStopInl s) = true :=
  reach_of_runSat _ [0, 0, 0, 0, 0, 0, 0, 0, 0, 0, 0, 0, 0, 0, 0, 0, 0, 0] _ (by decide +kernel)

end NonVacuity

end Unifex.Props.C04Atomic
