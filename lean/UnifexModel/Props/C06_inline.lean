/-
  Props/C06_inline.lean — C06 for `inline_scheduler` (model Proto/InlineSched): for EVERY nesting
  tree of schedule operations,
    * every item completes exactly once, in the order the operations were started (preorder);
    * every item completes inside its own `start()` — on the caller's stack, at the nesting depth
      of its position in the tree — and no `start()` ever returns with its item not yet run;
    * an item completes with done instead of value exactly when stop was requested before its
      `start()` (by an item that completed earlier).
  Tied to include/unifex/inline_scheduler.hpp by harness/seq/tramp_c06.cpp -DUSE_INLINE (event log of
  generated trees on the real scheduler = `InlineSched.answer`).
-/
import UnifexModel.Proto.InlineSched

namespace Unifex.Props.C06
open Unifex.Proto.Trampoline (Tree Ev runsOf)
open Unifex.Proto.InlineSched

/-- the complete log of the outermost start() is the left-to-right scan of the tree's preorder:
    `run id depth stopped-so-far` for every item, nothing else -/
theorem inline_log_eq_spec (t : Tree) : exec t = scan false (flat 0 t) := by
  simp [exec, runTree_eq]

/-- each item completes exactly once, in start (preorder) order -/
theorem inline_runs_each_once_in_start_order (t : Tree) : runsOf (exec t) = t.ids := by
  rw [inline_log_eq_spec, runsOf_scan, flat_ids]

/-- no start() returns before its item has completed -/
theorem inline_completes_inside_start (t : Tree) (i : Nat) : Ev.defer i ∉ exec t := by
  rw [inline_log_eq_spec]; exact scan_no_defer _ _ i

theorem mem_scan {s : Bool} {l : List (Nat × Nat × Bool)} {i k : Nat} {d : Bool}
    (h : Ev.run i k d ∈ scan s l) :
    ∃ pre sh post, l = pre ++ (i, k, sh) :: post ∧ d = scanEnd s pre := by
  induction l generalizing s with
  | nil => simp [scan] at h
  | cons x r ih =>
    obtain ⟨j, m, sh⟩ := x
    simp only [scan, List.mem_cons] at h
    rcases h with h | h
    · injection h with h1 h2 h3
      exact ⟨[], sh, r, by simp [h1, h2], by simp [scanEnd, h3]⟩
    · obtain ⟨pre, sh', post, hl, hd⟩ := ih h
      exact ⟨(j, m, sh) :: pre, sh', post, by simp [hl], by simp [scanEnd, hd]⟩

theorem scanEnd_eq (s : Bool) (l : List (Nat × Nat × Bool)) :
    scanEnd s l = (s || l.any (·.2.2)) := by
  induction l generalizing s with
  | nil => simp [scanEnd]
  | cons x r ih => obtain ⟨i, k, sh⟩ := x; simp [scanEnd, ih, Bool.or_assoc]

/-- a completion `run i k d` is the completion of a node at depth `k` of the tree (so exactly `k`
    enclosing completions are on the call stack: it runs inline), and it is a done completion iff
    some item earlier in start order requested stop -/
theorem inline_nest_is_depth_and_done_iff_stopped_before (t : Tree) (i k : Nat) (d : Bool)
    (h : Ev.run i k d ∈ exec t) :
    ∃ pre sh post, flat 0 t = pre ++ (i, k, sh) :: post ∧ d = pre.any (·.2.2) := by
  rw [inline_log_eq_spec] at h
  obtain ⟨pre, sh, post, hl, hd⟩ := mem_scan h
  exact ⟨pre, sh, post, hl, by simp [hd, scanEnd_eq]⟩

/-- non-vacuity: (0 (1! (2)) (3)) — item 1 requests stop, so 2 and 3 complete with done; 2 runs two
    levels deep, 3 one level deep, all inside the outermost start() -/
example : exec (.node 0 false [.node 1 true [.node 2 false []], .node 3 false []])
    = [.run 0 0 false, .run 1 1 false, .run 2 2 true, .run 3 1 true] := by decide

end Unifex.Props.C06
