/-
  Props/C16.lean — property C16, part 1: the v1 async_manual_reset_event (Treiber stack of waiters).
  ONLY property theorems and non-vacuity examples.

  Model: Proto/EventV1.lean; inductive invariant and its preservation: Lemmas/EventV1Inv.lean.
  The `v1_*` theorems below are PARAMETRIC: they hold for every configuration (any number of
  waiter threads, any number of controller threads with arbitrary set/reset/ready scripts, event
  initially set or not) and every reachable state, i.e. every schedule of every length.
  The `*_inst` theorems re-establish `safe` for two scenario instances by the kernel-evaluated
  closure checker (an independent path to the same Boolean).
-/
import UnifexModel.Lemmas.EventV1Inv
import UnifexModel.Lemmas.ReflectFast

namespace Unifex.Props.C16
open Unifex.Core Unifex.Proto.EventV1

/-- What `safe` says, spelled out. -/
theorem v1_safe_spelled (cfg : Config) (s : St) (h : safe cfg s = true) :
    -- every operation is resumed at most once, and only if a set() covered it
    (∀ w ∈ s.ws, w.resumed ≤ 1 ∧ (w.resumed = 0 ∨ w.covered = true))
    -- no deadlock
    ∧ (((sys cfg).next s).isEmpty = true → final cfg s = true)
    -- at the end every covered operation has been resumed (exactly once by the first clause)
    ∧ (final cfg s = true → ∀ w ∈ s.ws, w.covered = true → w.resumed = 1) := by
  unfold safe at h
  simp only [Bool.and_eq_true, Bool.or_eq_true, List.all_eq_true, decide_eq_true_eq,
    Bool.not_eq_true', beq_iff_eq] at h
  obtain ⟨⟨h1, h2⟩, h3⟩ := h
  refine ⟨h1, ?_, ?_⟩
  · intro hd
    rcases h2 with h2 | h2
    · simp [hd] at h2
    · exact h2
  · intro hf w hw hc
    rcases h3 with h3 | h3
    · simp [hf] at h3
    · rcases h3 w hw with h4 | h4
      · simp [hc] at h4
      · exact h4

/-- `each_waiter_once` (upper half): in every reachable state of every configuration every
    waiting operation has been resumed at most once. -/
theorem v1_each_waiter_at_most_once (cfg : Config) (s : St) (h : Reach (sys cfg) s)
    (i : Nat) (w : Wt) (hw : s.ws[i]? = some w) : w.resumed ≤ 1 :=
  resumed_le_one_of_inv ((inv_reach h).wi i w hw)

/-- `wait_completes_iff_set` (only-if): an operation is never resumed unless a set() exchange
    happened while it was pushed, or its own start read the event as set. -/
theorem v1_resumed_only_if_set (cfg : Config) (s : St) (h : Reach (sys cfg) s)
    (i : Nat) (w : Wt) (hw : s.ws[i]? = some w) (hr : 1 ≤ w.resumed) : w.covered = true :=
  ((inv_reach h).wi i w hw).resCov hr

/-- `no_stranded_waiter`, any reachable state: an operation that was pushed before a set()
    exchange (or saw the event set) has been resumed, or is still in the captured stack of a
    set() call that is in its pop loop — it is never lost. -/
theorem v1_no_stranded_waiter (cfg : Config) (s : St) (h : Reach (sys cfg) s)
    (i : Nat) (w : Wt) (hw : s.ws[i]? = some w) (hc : w.covered = true) :
    w.resumed = 1 ∨ 1 ≤ capCount i s.cs :=
  covered_resumed_or_pending ((inv_reach h).wi i w hw) hc

/-- `no_stranded_waiter`, at quiescence: once every call has returned, every covered operation
    has been resumed exactly once. -/
theorem v1_no_stranded_waiter_final (cfg : Config) (s : St) (h : Reach (sys cfg) s)
    (hf : final cfg s = true) (i : Nat) (w : Wt) (hw : s.ws[i]? = some w) (hc : w.covered = true) :
    w.resumed = 1 := by
  have hI := inv_reach h
  rcases covered_resumed_or_pending (hI.wi i w hw) hc with h1 | h1
  · exact h1
  · have := capCount_zero_of_final hI hf i; omega

/-- a pushed, not yet covered operation is still on the event's stack (it waits for the next set) -/
theorem v1_uncovered_waiter_still_queued (cfg : Config) (s : St) (h : Reach (sys cfg) s)
    (i : Nat) (w : Wt) (hw : s.ws[i]? = some w) (hp : w.pushed = true) (hc : w.covered = false) :
    i ∈ s.word.lst := by
  have hW := (inv_reach h).wi i w hw
  have h3 : 3 ≤ w.pc := by
    rcases Nat.lt_or_ge w.pc 3 with h0 | h0
    · have := (hW.early (by omega)).1; rw [hp] at this; cases this
    · exact h0
  have h1 := hW.latePushed h3 hp
  have hr : w.resumed = 0 := by
    rcases Nat.eq_zero_or_pos w.resumed with h0 | h0
    · exact h0
    · have := hW.resCov h0; rw [hc] at this; cases this
  have hcz : capCount i s.cs = 0 := by
    rcases Nat.eq_zero_or_pos (capCount i s.cs) with h0 | h0
    · exact h0
    · have := hW.capCov h0; rw [hc] at this; cases this
  simp only [occ] at h1
  exact List.count_pos_iff.mp (by omega)

/-- no ABA in the CAS loop: whenever the pointer comparison of the CAS would succeed, the stack the
    waiter read (and stored in `next_`) is the current stack. -/
theorem v1_cas_no_aba (cfg : Config) (s : St) (h : Reach (sys cfg) s)
    (k : Nat) (w : Wt) (hw : s.ws[k]? = some w) (hpc : w.pc = 2)
    (hp : Proto.EventV1.ptrEq w.seen s.word = true) : w.seen = s.word :=
  ((inv_reach h).wi k w hw).seenOk hpc hp

/-- `reset_affects_only_later`: the CAS of reset() changes no waiter record, no pending wake-up
    and no stack entry — only the signalled flag; when the event is not set it changes nothing. -/
theorem v1_reset_affects_only_later (cfg : Config) (s s' : St) (j : Nat) (c : Ct) (l : Lbl)
    (hc : s.cs[j]? = some c) (hpc : c.pc = 3) (hstep : stepC cfg s j = some (l, s')) :
    s'.ws = s.ws ∧ s'.word.lst = s.word.lst ∧ (∀ i, capCount i s'.cs = capCount i s.cs) ∧
    (s.word ≠ .set → s'.word = s.word) := by
  simp only [stepC, hc, hpc, Option.some.injEq, Prod.mk.injEq] at hstep
  obtain ⟨_, rfl⟩ := hstep
  refine ⟨rfl, ?_, fun i => capCount_set_same (c' := { c with pc := 4 }) hc rfl i, ?_⟩
  · by_cases hw : s.word = .set
    · simp [hw]
    · simp [hw]
  · intro hw; simp [hw]

/-- no deadlock (nothing in the v1 event blocks): a state without an enabled step is final. -/
theorem v1_no_deadlock (cfg : Config) (s : St) (h : Reach (sys cfg) s)
    (hd : ((sys cfg).next s).isEmpty = true) : final cfg s = true :=
  no_deadlock_of_inv (inv_reach h) hd

/-- The whole `safe` predicate, for every configuration and every reachable state. -/
theorem v1_safe_all (cfg : Config) (s : St) (h : Reach (sys cfg) s) : safe cfg s = true := by
  have hI := inv_reach h
  unfold safe
  simp only [Bool.and_eq_true, Bool.or_eq_true, List.all_eq_true, decide_eq_true_eq,
    Bool.not_eq_true', beq_iff_eq]
  refine ⟨⟨?_, ?_⟩, ?_⟩
  · intro w hw
    obtain ⟨i, hi, rfl⟩ := List.mem_iff_getElem.mp hw
    have hW := hI.wi i _ (List.getElem?_eq_getElem hi)
    refine ⟨resumed_le_one_of_inv hW, ?_⟩
    rcases Nat.eq_zero_or_pos (s.ws[i]).resumed with h0 | h0
    · exact Or.inl h0
    · exact Or.inr (hW.resCov h0)
  · cases hd : ((sys cfg).next s).isEmpty with
    | false => exact Or.inl rfl
    | true => exact Or.inr (no_deadlock_of_inv hI hd)
  · cases hf : final cfg s with
    | false => exact Or.inl rfl
    | true =>
      refine Or.inr ?_
      intro w hw
      obtain ⟨i, hi, rfl⟩ := List.mem_iff_getElem.mp hw
      cases hc : (s.ws[i]).covered with
      | false => exact Or.inl rfl
      | true =>
        exact Or.inr (v1_no_stranded_waiter_final cfg s h hf i _ (List.getElem?_eq_getElem hi) hc)

/-! ### instances by reflection (kernel-evaluated closure; independent of the invariant proof) -/

theorem v1_two_waiters_safe_inst : ∀ s, Reach (sys cfgTwoWaiters) s → safe cfgTwoWaiters s = true :=
  safe_of_checkC _ { coded with M := 509 } 400 _ (by decide +kernel)

theorem v1_set_reset_safe_inst : ∀ s, Reach (sys cfgSetReset) s → safe cfgSetReset s = true :=
  safe_of_checkC _ { coded with M := 641 } 400 _ (by decide +kernel)

/-- non-vacuity: in the two-waiter instance a final state is reachable in which both operations
    were pushed first and then resumed by the set() call (not inline). -/
def v1Witness : List Nat := [0, 0, 0, 0, 0, 0, 0, 0, 0, 0, 0, 0, 0]

example : ∃ s, Reach (sys cfgTwoWaiters) s ∧ final cfgTwoWaiters s = true ∧
    s.ws.all (fun w => w.pushed && w.resumed == 1) = true := by
  have h : (match runChoices (sys cfgTwoWaiters) (sys cfgTwoWaiters).init v1Witness with
      | some (_, s) => final cfgTwoWaiters s && s.ws.all (fun w => w.pushed && w.resumed == 1)
      | none => false) = true := by
    decide +kernel
  cases hr : runChoices (sys cfgTwoWaiters) (sys cfgTwoWaiters).init v1Witness with
  | none => simp [hr] at h
  | some p =>
    obtain ⟨ls, s⟩ := p
    simp only [hr, Bool.and_eq_true] at h
    exact ⟨s, runChoices_reach _ _ _ _ _ Reach.init hr, h.1, h.2⟩

end Unifex.Props.C16
