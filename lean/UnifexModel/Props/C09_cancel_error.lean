/-
  Props/C09_cancel_error.lean — property C09: await ‖ request_stop ‖ completion with an ERROR.
  See Props/C09_cancel.lean.
-/
import UnifexModel.Proto.SpawnFuture

namespace Unifex.Props.C09
open Unifex.Core Unifex.Proto.SpawnFuture

theorem cancel_error_safe_modulo_uaf :
    ∀ s, Reach (sys cfgCancelError) s → safeModUaf cfgCancelError s = true :=
  safe_of_check _ { coded with M := 1531 } 400 _ (by decide +kernel)

theorem cancel_error_uaf :
    ∃ s, Reach (sys cfgCancelError) s ∧ (s.uaf && final cfgCancelError s) = true :=
  reach_of_run _ [1, 1, 0, 0, 1, 0, 0, 0, 2, 0, 2, 1, 1, 0, 0, 1, 0, 0] _ (by decide +kernel)

end Unifex.Props.C09
