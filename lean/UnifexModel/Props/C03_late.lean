/-
  Props/C03_late.lean — property C03, instances with a LATE second request_stop() caller (added
  after an independently written mutation — hoisting `notifyingThreadId_ = this_thread::get_id()`
  above the lock — slipped through the first scenario set).  ONLY property theorems.
-/
import UnifexModel.Proto.StopSource

namespace Unifex.Props.C03
open Unifex.Core Unifex.Proto.StopSource

/-- a late request_stop() caller deregisters the callback that the first caller is executing: the
    deregistration returns only after the callback finished -/
theorem late_stop_dereg_safe : ∀ s, Reach (sys cfgLateStopDereg) s → safe cfgLateStopDereg s = true :=
  safe_of_check _ { coded with M := 509 } 400 _ (by decide +kernel)

/-- two request_stop() callers and a callback that destroys its own registration: no deadlock -/
theorem late_stop_self_dereg_safe :
    ∀ s, Reach (sys cfgLateStopSelfDereg) s → safe cfgLateStopSelfDereg s = true :=
  safe_of_check _ { coded with M := 509 } 400 _ (by decide +kernel)

end Unifex.Props.C03
