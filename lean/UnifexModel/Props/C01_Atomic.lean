/-
  Props/C01_Atomic.lean — property C01 at the SCHEDULE level: "every started operation completes exactly
  once" for the algorithms whose completion is decided by an atomic protocol.
  ONLY property theorems + non-vacuity examples (the invariants are in Lemmas/WhenAllInv*.lean).

  Models: Proto/WhenAll.lean (when_all and when_all_range, N children, completer threads, one external
  stop thread); stop_when (Proto/StopWhen.lean) is in Props/C01_AtomicSW.lean.  `Reach (sys cfg) s` = s is reachable by SOME finite interleaving of
  the threads' atomic steps, so every theorem below quantifies over ALL schedules of unbounded length.

  * PARAMETRIC theorems (namespace `WhenAllN`): for every number of children N ≥ 1 and every configuration
    (outcomes of the children, which leaves complete inside their stop callback, with/without external
    stop, when_all/when_all_range), by invariant induction.
  * INSTANCE theorems (`*_safe`, in Props/C01_AtomicInst.lean and Props/C01_AtomicSW.lean so that they
    build in parallel): the full Boolean predicate `safe` (it adds deadlock-freedom — no blocking
    deregistration can wait forever — and exactly-once at the end) for fixed small configurations, by
    kernel-evaluated reflection (`decide +kernel`).
-/
import UnifexModel.Lemmas.WhenAllInvE
import UnifexModel.Lemmas.Witness

namespace Unifex.Props.C01Atomic
open Unifex.Core

namespace WhenAllN
open Unifex.Proto.WhenAll

/-- **At most one completion signal**, for every N, configuration and schedule. -/
theorem deliver_at_most_once (cfg : Config) (hn : 0 < cfg.n) :
    ∀ s, Reach (sys cfg) s → s.delivered ≤ 1 := by
  intro s hs
  obtain ⟨_, _, _, hone⟩ := (inv_reach hn hs).a
  cases hz : s.zeroed <;> simp [hz] at hone <;> omega

/-- **Exactly one thread is elected** (its `fetch_sub` returned 1): the number of threads inside
    `deliver_result()` plus the number of signals sent is 1 after the election and 0 before. -/
theorem elected_once (cfg : Config) (hn : 0 < cfg.n) :
    ∀ s, Reach (sys cfg) s →
      cntD s.ch + s.stopPh.sd + s.delivered = (if s.zeroed then 1 else 0) :=
  fun _ hs => (inv_reach hn hs).a.one

/-- **`refCount_` counts the owners**: until the election it equals the number of children that have not
    yet done their `fetch_sub`, plus one while the stop callback is between its `fetch_add` and its
    `fetch_sub`; and it is never 0 (so no decrement underflows and no second thread can see 1 → 0). -/
theorem refcount_counts_owners (cfg : Config) (hn : 0 < cfg.n) :
    ∀ s, Reach (sys cfg) s → s.zeroed = false →
      s.refCount = cntP s.ch + s.stopPh.hold ∧ 1 ≤ s.refCount :=
  fun _ hs => (inv_reach hn hs).a.rc

/-- **No completion before all children completed**: when the receiver has been signalled, each of the N
    children has finished its completion call into the operation. -/
theorem deliver_only_after_all_children (cfg : Config) (hn : 0 < cfg.n) :
    ∀ s, Reach (sys cfg) s → s.delivered = 1 → s.ch.length = cfg.n ∧ ∀ c ∈ s.ch, c.ph = .fin :=
  fun _ hs hd => ⟨(inv_reach hn hs).a.len, all_fin_of_delivered (inv_reach hn hs) hd⟩

/-- **No lost completion**: in every reachable state in which all children have finished their completion
    calls and the stop callback is not in the middle of `request_stop()`/`deliver_result()`, the receiver HAS
    been signalled. -/
theorem deliver_happens (cfg : Config) (hn : 0 < cfg.n) :
    ∀ s, Reach (sys cfg) s → (∀ c ∈ s.ch, c.ph = .fin) →
      (s.stopPh = .idle ∨ s.stopPh = .begun ∨ s.stopPh = .cbEnter ∨ s.stopPh = .cbRet ∨ s.stopPh = .ret ∨
        s.stopPh = .fin) →
      s.delivered = 1 := by
  intro s hs hall hp
  apply delivered_of_all_fin (inv_reach hn hs) hall <;> rcases hp with h | h | h | h | h | h <;> simp [h]

/-- in particular: exactly once when all threads have run to the end -/
theorem exactly_once_at_end (cfg : Config) (hn : 0 < cfg.n) :
    ∀ s, Reach (sys cfg) s → final cfg s = true → s.delivered = 1 := by
  intro s hs hf
  unfold final at hf
  simp only [Bool.and_eq_true, List.all_eq_true, decide_eq_true_eq, Bool.or_eq_true, Bool.not_eq_true'] at hf
  apply deliver_happens cfg hn s hs hf.1
  rcases hf.2 with h | h
  · exact .inr (.inr (.inr (.inr (.inr h))))
  · exact .inl h.2

/-- **Result precedence** (receiver stop > first error/done > values), for every N and schedule:
    * a value result means that every child completed with a value and the receiver's stop flag was clear
      when `deliver_result()` looked at it;
    * `error k` means that child k won the `doneOrError_` exchange with an error (again with the flag clear);
    * `done` means that the flag was set (when_all only; when_all_range never looks at it), or else that
      the winner of the exchange completed with done. -/
theorem result_precedence (cfg : Config) (hn : 0 < cfg.n) :
    ∀ s, Reach (sys cfg) s →
      (s.result = some .value → (∀ c ∈ s.ch, c.out = .value) ∧ s.recvAtDlv = false) ∧
      (∀ k, s.result = some (.error k) →
        s.firstFail = some k ∧ s.recvAtDlv = false ∧ ∀ c, s.ch[k]? = some c → c.out = .error) ∧
      (s.result = some .done →
        (cfg.checksRecv = true ∧ s.recvAtDlv = true) ∨
        (s.recvAtDlv = false ∧ s.firstFail ≠ none ∧
          ∀ k, s.firstFail = some k → ∀ c, s.ch[k]? = some c → c.out = .done)) := by
  intro s hs
  have he := invE_reach hn hs
  exact ⟨he.rv, he.re, he.rd⟩

/-- nothing is reported before the signal -/
theorem no_result_before_signal (cfg : Config) (hn : 0 < cfg.n) :
    ∀ s, Reach (sys cfg) s → s.delivered = 0 → s.result = none :=
  fun _ hs hd => ((invE_reach hn hs).e6 hd).1

end WhenAllN

/-! ### non-vacuity: interesting final states are reachable (explicit schedules) -/

section NonVacuity
open Unifex.Proto

/-- N = 3: the error of child 0 is delivered, once, after the loser of the `doneOrError_` race (child 1,
    done) and the stopped leaf (child 2) completed. -/
example : ∃ s, Reach (WhenAll.sys WhenAll.cfgWa3FailInl) s ∧
    (decide (s.delivered = 1) && decide (s.result = some (.error 0)) && WhenAll.final WhenAll.cfgWa3FailInl s) = true :=
  reach_of_runSat _ [0, 0, 0, 0, 1, 0, 0, 0, 0, 0, 0, 0, 0, 0, 0, 0, 0, 0] _ (by decide +kernel)

/-- the other winner: child 1's done is delivered. -/
example : ∃ s, Reach (WhenAll.sys WhenAll.cfgWa3FailInl) s ∧
    (decide (s.delivered = 1) && decide (s.result = some .done) && WhenAll.final WhenAll.cfgWa3FailInl s) = true :=
  reach_of_runSat _ [0, 0, 1, 1, 1, 0, 0, 0, 0, 0, 0, 0, 0, 0, 0, 0, 0, 0] _ (by decide +kernel)

/-- stop racing the last child: the stop callback's `fetch_add` comes after the election (old value 0,
    early return; `refCount_` is 1 at the end) and the receiver is still signalled exactly once. -/
example : ∃ s, Reach (WhenAll.sys WhenAll.cfgWa1Stop) s ∧
    (s.zeroed && decide (s.refCount = 1) && decide (s.delivered = 1) && WhenAll.final WhenAll.cfgWa1Stop s) = true :=
  reach_of_runSat _ [0, 0, 0, 0, 1, 1, 0, 0, 0, 0, 0] _ (by decide +kernel)

/-- stop racing the last child, other order: the stop callback takes the count from 1 to 0 and delivers. -/
example : ∃ s, Reach (WhenAll.sys WhenAll.cfgWa1Stop) s ∧
    (decide (s.delivered = 1) && decide (s.dlvBy = 2) && WhenAll.final WhenAll.cfgWa1Stop s) = true :=
  reach_of_runSat _ [0, 0, 0, 1, 1, 1, 0, 0, 0, 0, 0, 0, 0, 0] _ (by decide +kernel)

end NonVacuity

end Unifex.Props.C01Atomic
