/-
  Props/C02.lean — property C02 (event-level part): an operation never touches its own state after
  it has delivered its completion signal; a child operation is never re-used after it completed.
  ONLY property theorems + non-vacuity examples.  (Object-table lifetimes: Props/C02_Lifetime.lean.)
-/
import UnifexModel.Calc.Lemmas

namespace Unifex.Props.C02
open Unifex.Calc

variable (specs : Nat → LeafSpec)

/-- **No touch after completion**: once processing an event made an operation signal its receiver,
    every later event — of any kind — leaves that operation's state exactly as it was and produces
    no further signal from it.  (For every expression, leaf script and event sequence.) -/
theorem no_access_after_completion (fuel fuel' : Nat) (ev ev' : Ev) (op : Op) (o : Outcome)
    (h : (deliver specs fuel ev op).2.2 = some o) :
    (deliver specs fuel' ev' (deliver specs fuel ev op).1).1 = (deliver specs fuel ev op).1 ∧
    (deliver specs fuel' ev' (deliver specs fuel ev op).1).2.2 = none :=
  finished_inert specs fuel' ev' _ (signal_finishes specs fuel ev op o h)

/-- the same for a child of a unary adaptor: after the child signalled, the adaptor is finished and
    never forwards another event into the child -/
theorem adaptor_never_reenters_finished_child (rec : Rec) (ev : Ev) (k : UnKind) (c : Op) (env : Env) (o : Outcome)
    (h : (unStep rec ev k c .running env).2.2 = some o) :
    (unStep rec ev k c .running env).1.phase = .finished :=
  unStep_sigFin rec ev k c .running env o h

example : (deliver (fun _ => .inline (.value 1)) 3 (.start rootEnv) (connect (.un (.thenF (.add 1)) (.leaf 1)))).2.2
    = some (.value 2) := by decide

end Unifex.Props.C02
