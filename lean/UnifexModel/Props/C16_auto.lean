/-
  Props/C16_auto.lean — property C16, part 2: async_auto_reset_event (mutex-protected
  UNSET/SET/DONE state driving a v1 manual-reset event).  ONLY property theorems and examples.

  Model: Proto/AutoReset.lean; counting invariant: Lemmas/AutoResetInv.lean.
  `auto_reset_*` / `done_is_permanent*` are PARAMETRIC (every configuration: any number of consumers,
  next() calls, producer scripts, cancellations; every schedule).  The `*_safe_inst` theorems
  (which add deadlock freedom = no stranded next(), and "done only when DONE" for a single
  consumer) are per instance, by the kernel-evaluated closure checker (here and in
  Props/C16_auto_a.lean, Props/C16_auto_b.lean — split so that they build in parallel).
-/
import UnifexModel.Lemmas.AutoResetInv
import UnifexModel.Lemmas.ReflectFast

namespace Unifex.Props.C16
open Unifex.Core Unifex.Proto.AutoReset

/-- What `safe` says, spelled out. -/
theorem auto_safe_spelled (cfg : Config) (s : St) (h : safe cfg s = true) :
    s.bad = 0
    ∧ s.values + (if s.st = 1 then 1 else 0) ≤ s.ups + (if cfg.startReady then 1 else 0)
    ∧ (s.doneSeen = true → s.st = 2)
    ∧ (((sys cfg).next s).isEmpty = true → final cfg s = true)
    ∧ (cfg.nNext.length ≤ 1 → s.spurious = false) := by
  unfold safe at h
  simp only [Bool.and_eq_true, Bool.or_eq_true, decide_eq_true_eq, Bool.not_eq_true', beq_iff_eq] at h
  obtain ⟨⟨⟨⟨⟨h1, h2⟩, _⟩, h4⟩, h5⟩, h6⟩ := h
  refine ⟨h1, h2, ?_, ?_, ?_⟩
  · intro hd
    rcases h4 with h4 | h4
    · rw [hd] at h4; cases h4
    · exact h4
  · intro hd
    rcases h5 with h5 | h5
    · rw [hd] at h5; cases h5
    · exact h5
  · intro hl
    rcases h6 with h6 | h6
    · omega
    · exact h6

/-- `auto_reset_at_most_one_next_per_set`: in every reachable state of every configuration the
    number of next() calls that obtained a value, plus one if the event is currently SET, is at most
    the number of UNSET→SET transitions (each performed by one set() call) plus one if the event
    started ready.  So every set() is handed to at most one next(). -/
theorem auto_reset_at_most_one_next_per_set (cfg : Config) (s : St) (h : Reach (sys cfg) s) :
    s.values + (if s.st = 1 then 1 else 0) ≤ s.ups + (if cfg.startReady then 1 else 0) :=
  (inv_reach h).1

/-- … and nothing is lost before set_done: as long as no set_done region has run, every
    UNSET→SET transition is either still pending (state SET) or was consumed by exactly one next(). -/
theorem auto_reset_no_set_lost_before_done (cfg : Config) (s : St) (h : Reach (sys cfg) s)
    (hd : s.doneSeen = false) :
    s.values + (if s.st = 1 then 1 else 0) = s.ups + (if cfg.startReady then 1 else 0) :=
  (inv_reach h).2.1 hd

/-- `done_is_permanent`: once a set_done region (explicit set_done(), a stream cleanup, or a
    cancelled next()) has run, the state is DONE in every later reachable state … -/
theorem done_is_permanent (cfg : Config) (s : St) (h : Reach (sys cfg) s) (hd : s.doneSeen = true) :
    s.st = 2 :=
  (inv_reach h).2.2.1 hd

/-- … and no try_reset() ever succeeds afterwards (`bad = 2` is never reached): no next() obtains
    a value after DONE. -/
theorem done_is_permanent_no_value_after (cfg : Config) (s : St) (h : Reach (sys cfg) s) :
    s.bad ≠ 2 := by
  have := (inv_reach h).2.2.2.1
  simp only [coreOf, beq_eq_false_iff_ne] at this
  exact this

/-! ### instances: the whole `safe` predicate incl. deadlock freedom (no stranded next()) -/

theorem ar_start_ready_safe_inst : ∀ s, Reach (sys cfgStartReady) s → safe cfgStartReady s = true :=
  safe_of_checkC _ { coded with M := 173, W := 224 } 400 _ (by decide +kernel)

/-- non-vacuity: both set() calls of the one-consumer instance can be consumed by the two next() calls -/
def arWitness : List Nat := [0, 0, 1, 1, 0, 0, 0, 0, 0, 0, 0, 0, 1, 1, 1, 0, 0, 0, 0, 0, 0, 0, 0, 0, 0, 0, 0]

example : ∃ s, Reach (sys cfgOneConsumer) s ∧ final cfgOneConsumer s = true ∧ s.values = 2 := by
  have h : (match runChoices (sys cfgOneConsumer) (sys cfgOneConsumer).init arWitness with
      | some (_, s) => final cfgOneConsumer s && decide (s.values = 2) | none => false) = true := by
    decide +kernel
  cases hr : runChoices (sys cfgOneConsumer) (sys cfgOneConsumer).init arWitness with
  | none => simp [hr] at h
  | some p =>
    obtain ⟨ls, s⟩ := p
    simp only [hr, Bool.and_eq_true, decide_eq_true_eq] at h
    exact ⟨s, runChoices_reach _ _ _ _ _ Reach.init hr, h.1, h.2⟩

/-- As coded (not a violation of C16's statement, recorded for the report): with TWO simultaneous
    next() senders one set() wakes both; the loser's try_reset() finds UNSET and its next()
    completes with done although the event is not DONE. -/
def arSpuriousWitness : List Nat := [0, 0, 1, 1, 2, 2, 0, 0, 0, 0, 0, 0, 0, 0, 1]

example : ∃ s, Reach (sys cfgTwoConsumers) s ∧ s.spurious = true ∧ s.st ≠ 2 := by
  have h : (match runChoices (sys cfgTwoConsumers) (sys cfgTwoConsumers).init arSpuriousWitness with
      | some (_, s) => s.spurious && decide (s.st ≠ 2) | none => false) = true := by
    decide +kernel
  cases hr : runChoices (sys cfgTwoConsumers) (sys cfgTwoConsumers).init arSpuriousWitness with
  | none => simp [hr] at h
  | some p =>
    obtain ⟨ls, s⟩ := p
    simp only [hr, Bool.and_eq_true, decide_eq_true_eq] at h
    exact ⟨s, runChoices_reach _ _ _ _ _ Reach.init hr, h.1, h.2⟩

end Unifex.Props.C16
