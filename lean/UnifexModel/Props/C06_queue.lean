/-
  Props/C06_queue.lean — C06, atomic_intrusive_queue instances (part 1).
-/
import UnifexModel.Proto.AtomicQueue

namespace Unifex.Props.C06
open Unifex.Core Unifex.Proto.AtomicQueue

/-- What `AtomicQueue.safe` says. -/
theorem queue_safe_spelled (cfg : Config) (s : St) (h : safe cfg s = true) :
    -- the consumer's exchange never hits the sentinel / an empty queue
    s.bad = 0
    -- conservation in FIFO order: pushed = received ++ in the consumer's hands ++ pending (oldest first)
    ∧ s.enqd = s.deq ++ s.batch ++ s.head.items.reverse
    ∧ (s.enqd ++ s.direct).Nodup
    -- the inactive→active transition is reported to exactly one caller per inactive period
    ∧ s.told + b2n (s.head == .inactive) = s.inact + b2n cfg.initInactive
    -- no lost wake-up: consumer asleep while the queue is active ⇒ a wake-up is pending or a told
    -- producer has yet to send it
    ∧ (s.cpc = cSleep → s.head ≠ .inactive → s.wake > 0 ∨ s.told > s.sigs)
    -- no deadlock
    ∧ (((sys cfg).next s).isEmpty = true → final cfg s = true)
    -- at the end every item was received or handled directly, exactly once
    ∧ (final cfg s = true → s.deq.length + s.direct.length = cfg.total ∧
         ∀ i ∈ allItems cfg, i ∈ s.deq ++ s.direct) := by
  unfold safe at h
  simp only [Bool.and_eq_true, decide_eq_true_eq, Bool.or_eq_true, Bool.not_eq_true',
    beq_iff_eq, bne_iff_ne] at h
  obtain ⟨⟨⟨⟨⟨⟨h1, h2⟩, h3⟩, h4⟩, h5⟩, h6⟩, h7⟩ := h
  refine ⟨h1, h2, by simpa using h3, h4, ?_, ?_, ?_⟩
  · intro hp hn
    rcases h5 with h5 | h5
    · simp [hp, hn] at h5
    · exact h5
  · intro hd
    rcases h6 with h6 | h6
    · simp [hd] at h6
    · exact h6
  · intro hf
    rcases h7 with h7 | h7
    · simp [hf] at h7
    · exact h7

theorem aq_1x2_safe : ∀ s, Reach (sys cfgAq1x2) s → safe cfgAq1x2 s = true :=
  safe_of_check _ { coded with M := 409, W := 200 } 400 _ (by decide +kernel)

theorem aq_eoma_safe : ∀ s, Reach (sys cfgAqEoma) s → safe cfgAqEoma s = true :=
  safe_of_check _ { coded with M := 367, W := 200 } 400 _ (by decide +kernel)

/-- non-vacuity: in `aq_2x1` the schedule "consumer first" makes the consumer mark itself inactive
    twice; each time exactly one producer is told and wakes it; both items arrive. -/
def aqWitness : List Nat := [0, 0, 0, 0, 0, 0, 0, 0, 0, 0, 0, 0, 0, 0, 0, 0, 0, 0, 0, 0, 0, 0, 0, 0, 0, 0, 0, 0, 0, 0, 0]

example : ∃ s, Reach (sys cfgAq2x1) s ∧ s.inact = 2 ∧ s.told = 2 ∧ s.deq = [0, 1] ∧ final cfgAq2x1 s = true := by
  have h : (match runChoices (sys cfgAq2x1) (sys cfgAq2x1).init aqWitness with
      | some (_, s) => decide (s.inact = 2) && decide (s.told = 2) && decide (s.deq = [0, 1]) && final cfgAq2x1 s
      | none => false) = true := by decide +kernel
  cases hr : runChoices (sys cfgAq2x1) (sys cfgAq2x1).init aqWitness with
  | none => simp [hr] at h
  | some p =>
    obtain ⟨ls, s⟩ := p
    simp only [hr, Bool.and_eq_true, decide_eq_true_eq] at h
    exact ⟨s, runChoices_reach _ _ _ _ _ Reach.init hr, h.1.1.1, h.1.1.2, h.1.2, h.2⟩

end Unifex.Props.C06
