/-
  Props/C14_race.lean — property C14, part 2c: a parked read raced by data arrival and cancellation
  from another thread (868 reachable states; in its own file so that it builds in parallel).
  INSTANCE theorem: every schedule of `rd_cancel_race`: the `fetch_add` election on `state_` lets
  exactly one of {I/O completion, cancellation} complete the operation, exactly once; a value is
  the byte count of the successful readv; nothing waits forever.  (`clean` does NOT hold here:
  see Props/C14_cancel.lean — both cancellation defects are reachable in this instance.)
-/
import UnifexModel.Proto.EpollOp

namespace Unifex.Props.C14
open Unifex.Core Unifex.Proto.EpollOp

theorem rd_cancel_race_safe : ∀ s, Reach (sys cfgRdCancelRace) s → safe cfgRdCancelRace s = true :=
  safe_of_check _ { coded with M := 1741, W := 192 } 400 _ (by decide +kernel)


theorem race_witness (cs : List Nat) (good : St → Bool)
    (h : (match runChoices (sys cfgRdCancelRace) (sys cfgRdCancelRace).init cs with | some (_, s) => good s | none => false) = true) :
    ∃ s, Reach (sys cfgRdCancelRace) s ∧ good s = true := by
  cases hr : runChoices (sys cfgRdCancelRace) (sys cfgRdCancelRace).init cs with
  | none => simp [hr] at h
  | some p =>
    obtain ⟨ls, s⟩ := p
    simp only [hr] at h
    exact ⟨s, runChoices_reach _ _ _ _ _ Reach.init hr, h⟩

/-- VIOLATION reachable by a race (no inline execution needed): the cancellation's
    `epoll_ctl(DEL)` runs between `stopCallback_.construct` and `epoll_ctl(ADD)` of `start_io`; the
    registration made afterwards outlives the operation and the kernel delivers an event for it. -/
theorem cancel_race_VIOLATES_no_stale_event :
    ∃ s, Reach (sys cfgRdCancelRace) s ∧ ((getOp s 0).freed && s.bad == 2) = true :=
  race_witness [0, 0, 1, 1, 1, 1, 1, 1, 0, 0, 1, 1, 1, 1, 0, 0, 1, 0, 0, 0, 0, 1, 1, 1] _ (by decide +kernel)

/-- VIOLATION, same race, data arriving earlier: the readiness event is handled while the
    cancellation is in flight (`on_read_complete` sees the cancel flag and returns WITHOUT
    `epoll_ctl(DEL)`), the registration made after the cancellation's DEL is still there and the
    descriptor still readable, so the next epoll_wait reports the operation again — but
    `execute_pending_local` has already nulled its `execute_`: the loop calls a null function
    pointer (`bad = 3`; on the real code: SIGSEGV, turned into a monitor by the harness). -/
theorem cancel_race_VIOLATES_no_null_handler :
    ∃ s, Reach (sys cfgRdCancelRace) s ∧ ((getOp s 0).completions == 0 && s.bad == 3) = true :=
  race_witness [0, 0, 1, 1, 1, 1, 1, 1, 0, 0, 1, 1, 1, 1, 0, 0, 0, 0, 0, 0, 0, 0, 0, 0, 0, 0, 0] _ (by decide +kernel)

/-- VIOLATION: the stop source's store to `callbackCompleted_` after the operation was destroyed. -/
theorem cancel_race_VIOLATES_no_touch_after_completion :
    ∃ s, Reach (sys cfgRdCancelRace) s ∧ ((getOp s 0).freed && s.bad == 1) = true :=
  race_witness [0, 0, 1, 1, 1, 1, 1, 1, 1, 1, 1, 2, 2, 2, 2, 2, 1, 1, 1, 1, 2] _ (by decide +kernel)

end Unifex.Props.C14
