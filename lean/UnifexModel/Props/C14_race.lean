/-
  Props/C14_race.lean — property C14, part 2c: a parked read raced by data arrival and cancellation
  from another thread (554 reachable states; in its own file so that it builds in parallel).
  INSTANCE theorem, every schedule of `rd_cancel_race`: the `fetch_add` election on `state_` lets
  exactly one of {I/O completion, cancellation} complete the operation, exactly once; a value is
  the byte count of the successful readv; the operation state is never touched after the
  completion; no registration survives; the kernel never reports the operation after its handler
  was consumed (`bad` stays 0); nothing waits forever.
-/
import UnifexModel.Props.C14_ops

namespace Unifex.Props.C14
open Unifex.Core Unifex.Proto.EpollOp

theorem rd_cancel_race_ok : ∀ s, Reach (sys cfgRdCancelRace) s → good cfgRdCancelRace s = true :=
  safe_of_check _ { coded with M := 1123, W := 192 } 400 _ (by decide +kernel)

/-- non-vacuity: all three outcomes of the race are reachable —
    cancellation wins while the operation is parked (the 5 bytes stay in the pipe), -/
theorem race_done_parked : ∃ s, Reach (sys cfgRdCancelRace) s ∧
    (final cfgRdCancelRace s && (getOp s 0).outcome == 2 && s.avail == 5) = true :=
  witness cfgRdCancelRace
    [0, 0, 1, 1, 1, 1, 1, 1, 0, 1, 1, 0, 0, 0, 0, 0, 0, 0, 0, 0, 0, 0, 0, 0, 0, 0, 1, 0, 0, 0, 0, 0, 0, 0, 0] _
    (by decide +kernel)

/-- the I/O wins although stop was requested, -/
theorem race_value : ∃ s, Reach (sys cfgRdCancelRace) s ∧
    (final cfgRdCancelRace s && (getOp s 0).outcome == 1 && (getOp s 0).stopReq) = true :=
  witness cfgRdCancelRace [0, 0, 0, 0, 0, 0, 0, 0, 0, 0, 0, 0, 0, 1, 1, 1, 0, 0, 0, 0, 0, 0, 0, 0] _ (by decide +kernel)

/-- cancellation wins after the readiness handler already ran (`ioF = 1`): the handler backed off,
    `complete_with_done` completes with done. -/
theorem race_done_after_readiness : ∃ s, Reach (sys cfgRdCancelRace) s ∧
    (final cfgRdCancelRace s && (getOp s 0).outcome == 2 && (getOp s 0).ioF == 1) = true :=
  witness cfgRdCancelRace
    [0, 0, 1, 1, 1, 1, 1, 1, 0, 0, 1, 1, 1, 1, 0, 0, 0, 1, 0, 0, 0, 0, 0, 0, 0, 0, 0, 0, 0, 0, 0, 0, 0, 0, 1, 0, 0, 0,
     0, 0, 0, 0, 0] _ (by decide +kernel)

end Unifex.Props.C14
