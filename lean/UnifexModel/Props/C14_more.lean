/-
  Props/C14_more.lean — property C14, part 2d (added when two seeded changes were missed):
  * stop requested BEFORE START on the WRITE side, followed by a second write on the same
    descriptor that has to park (and the same with reads): the cancelled operation leaves no epoll
    registration, so the later operation's `epoll_ctl(ADD)` takes effect and it is the one that is
    woken when the descriptor becomes ready;
  * an operation of context B started from the thread running ANOTHER context's loop.
  INSTANCE theorems (kernel-evaluated closures, every schedule): `good` = `safe ∧ clean ∧ errTrue`.
-/
import UnifexModel.Proto.EpollOp2
import UnifexModel.Props.C14_ops

namespace Unifex.Props.C14
open Unifex.Core Unifex.Proto.EpollOp

theorem wr_cancel_before_start_ok :
    ∀ s, Reach (sys cfgWrCancelBeforeStart) s → good cfgWrCancelBeforeStart s = true :=
  safe_of_check _ { coded with M := 251 } 400 _ (by decide +kernel)

theorem rd_cancel_before_start_park_ok :
    ∀ s, Reach (sys cfgRdCancelBeforeStartPark) s → good cfgRdCancelBeforeStartPark s = true :=
  safe_of_check _ { coded with M := 251 } 400 _ (by decide +kernel)

theorem x2_read_ok : ∀ s, Reach (sys cfgX2Read) s → good cfgX2Read s = true :=
  safe_of_check _ { coded with M := 127, W := 192 } 400 _ (by decide +kernel)

/-- In every schedule, once the cancelled first write has completed there is no registration that
    points to it: the registration is either absent or belongs to the second write (`reg = 2`). -/
theorem wr_cancel_before_start_no_stale_registration :
    ∀ s, Reach (sys cfgWrCancelBeforeStart) s → ((getOp s 0).completions == 0 || s.reg != 1) = true :=
  safe_of_check _ { coded with M := 251 } 400 _ (by decide +kernel)

end Unifex.Props.C14
