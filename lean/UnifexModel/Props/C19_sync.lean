/-
  Props/C19_sync.lean — cancellable<>: the small instances.
  Each `*_safe` / `*_core` theorem quantifies over EVERY reachable state of the instance, i.e. every
  schedule of every length of the threads' atomic steps (kernel-evaluated closure, `decide +kernel`).
-/
import UnifexModel.Props.C19

namespace Unifex.Props.C19.Cancellable
open Unifex.Core Unifex.Proto.Cancellable

/-- the nested op completes synchronously inside start() while another thread requests stop: full
    property, including "start() does not touch the op after the completion destroyed it" -/
theorem c_sync_safe : ∀ s, Reach (sys cfgSync) s → safe cfgSync s = true :=
  safe_of_check _ { coded with M := 251 } 400 _ (by decide +kernel)

/-- the same with StopsEarly (the hook may run instead of start()) -/
theorem c_sync_early_safe : ∀ s, Reach (sys cfgSyncEarly) s → safe cfgSyncEarly s = true :=
  safe_of_check _ { coded with M := 251 } 400 _ (by decide +kernel)

/-- no stop request at all, completion from another thread: one winner etc. hold … -/
theorem c_complete_during_start_core : ∀ s, Reach (sys cfgCompleteDuringStart) s → core cfgCompleteDuringStart s = true :=
  safe_of_check _ { coded with M := 251 } 400 _ (by decide +kernel)

/-- … but start() executes `state_.fetch_or(started)` on the op state after the completion on the
    other thread has destroyed it (FINDING D1; schedule: T0 up to the `sync_complete` load, T1
    claims + try_complete + set_value + destruction, T0 `fetch_or`). -/
theorem c_complete_during_start_touch_after_free :
    ∃ s, Reach (sys cfgCompleteDuringStart) s ∧ (decide (s.bad = 1) && s.freed) = true :=
  reach_of_choices _ [0, 0, 0, 0, 1, 1, 1, 1, 1, 1, 0] _ (by decide +kernel)

/-- non-vacuity: in c_sync_early a final state is reachable in which the stop() hook ran instead of
    start() and completed the receiver with done. -/
example : ∃ s, Reach (sys cfgSyncEarly) s ∧
    (final cfgSyncEarly s && decide (s.hookRuns = 1) && decide (s.nestedStarts = 0) && decide (s.doneWins = 1)) = true :=
  reach_of_choices _ [1, 1, 1, 0, 0, 0, 0, 0, 0, 0, 0, 0, 0, 0, 0, 0, 0] _ (by decide +kernel)

/-- `no_touch_after_winner` for synchronous completion inside start() -/
theorem c_sync_no_touch_after_winner : ∀ s, Reach (sys cfgSync) s → s.bad = 0 :=
  no_touch_after_winner cfgSync c_sync_safe

theorem c_sync_early_no_touch_after_winner : ∀ s, Reach (sys cfgSyncEarly) s → s.bad = 0 :=
  no_touch_after_winner cfgSyncEarly c_sync_early_safe

end Unifex.Props.C19.Cancellable
