/-
  Props/C16_pass_c.lean — property C16, async_pass: instance theorem by reflection (split from
  Props/C16_pass.lean so that the kernel evaluations run in parallel).
-/
import UnifexModel.Proto.AsyncPass
import UnifexModel.Lemmas.ReflectFast

namespace Unifex.Props.C16
open Unifex.Core Unifex.Proto.AsyncPass

/-- the cancellable-call instance with a scheduler that IGNORES stop tokens (so the forwarder's
    schedule operation always reaches forward_set_value): here the full property holds — `safe` and
    `faithful` (`call_value_iff_accepted` in both directions) in every reachable state.  Together
    with `pass_call_done_although_accepted_witness` this isolates the defect: it is the stop-token
    check of the rescheduling operation, nothing in the rendezvous protocol itself. -/
theorem pass_cancel_call_plain_safe_inst :
    ∀ s, Reach (sys cfgCancelCallPlain) s → (safe cfgCancelCallPlain s && faithful s) = true :=
  safe_of_checkC _ { coded with M := 1481, W := 192 } 400 _ (by decide +kernel)

end Unifex.Props.C16
