/-
  Props/C16_pass_c.lean — property C16, async_pass: instance theorem by reflection (split from
  Props/C16_pass.lean so that the kernel evaluations run in parallel).
-/
import UnifexModel.Proto.AsyncPass
import UnifexModel.Lemmas.ReflectFast

namespace Unifex.Props.C16
open Unifex.Core Unifex.Proto.AsyncPass

/-- a stop request for a call that has ALREADY been claimed (by T3's try_accept) races with an
    acceptor that parks in the idle slot and with the rest of the rendezvous: `safe` (incl. `slotOk`:
    the late stop() leaves the parked acceptor in the word — `cancel_leaves_other_waiting`,
    `try_succeeds_iff_counterpart_waiting`: T0's try_call finds it, no deadlock) and `faithful` in
    every reachable state. -/
theorem pass_late_stop_safe_inst :
    ∀ s, Reach (sys cfgLateStop) s → (safe cfgLateStop s && faithful s) = true :=
  safe_of_checkC _ { coded with M := 1721, W := 208 } 400 _ (by decide +kernel)

/-- non-vacuity: the critical window is reachable — the stop callback of the already claimed call is
    about to execute its un-claim CAS while the acceptor is parked in the word and the call has not
    been completed yet (with `exchange(0)` instead of the CAS this step would wipe the acceptor). -/
def passWindowWitness : List Nat := [0, 0, 0, 0, 0, 1, 1, 1, 1, 1, 1, 3, 3, 3, 2]

example : ∃ s, Reach (sys cfgLateStop) s ∧ (getT s 2).pc = 3 ∧ s.word = 2 ∧ (getP s 0).completed = false := by
  have h : (match runChoices (sys cfgLateStop) (sys cfgLateStop).init passWindowWitness with
      | some (_, s) => decide ((getT s 2).pc = 3) && decide (s.word = 2) && !(getP s 0).completed
      | none => false) = true := by
    decide +kernel
  cases hr : runChoices (sys cfgLateStop) (sys cfgLateStop).init passWindowWitness with
  | none => simp [hr] at h
  | some p =>
    obtain ⟨ls, s⟩ := p
    simp only [hr, Bool.and_eq_true, decide_eq_true_eq, Bool.not_eq_true'] at h
    exact ⟨s, runChoices_reach _ _ _ _ _ Reach.init hr, h.1.1, h.1.2, h.2⟩

end Unifex.Props.C16
