/-
  Props/C08_v2.lean — property C08, the larger v2 instance theorems (separate file so that they
  build in parallel with Props/C08.lean).  See Props/C08.lean for what `safe` / `safeQ` say.
-/
import UnifexModel.Proto.ScopeV2

namespace Unifex.Props.C08_v2
open Unifex.Core Unifex.Proto.ScopeV2

theorem v2_race2_safe : ∀ s, Reach (sys cfgRace2) s → safeQ cfgRace2 s = true :=
  safe_of_check _ { coded with M := 509 } 400 _ (by decide +kernel)

theorem v2_detached_safe : ∀ s, Reach (sys cfgDetached) s → safeQ cfgDetached s = true :=
  safe_of_check _ { coded with M := 509 } 400 _ (by decide +kernel)

end Unifex.Props.C08_v2
