/-
  Props/C09_cancel.lean — property C09: the future is awaited while a third thread requests stop on
  the awaiting receiver's stop source at an arbitrary moment; the operation completes with a VALUE.
  (error: Props/C09_cancel_error.lean, done: Props/C09_cancel_done.lean; one instance per file so
  that they build in parallel.)  See Props/C09.lean for the reading of `safe` (`safe_spelled`);
  `safeModUaf` is `safe` without "the heap block is never used after deletion", which the code as it
  is violates (`cancel_value_uaf`).
-/
import UnifexModel.Proto.SpawnFuture

namespace Unifex.Props.C09
open Unifex.Core Unifex.Proto.SpawnFuture

/-- all schedules of completion(value) ‖ connect;start ‖ request_stop: everything but the
    use-after-free clause holds (one winner of every CAS race, block deleted exactly once, result
    destroyed exactly once, outcome = done iff abandon() won else the value, stop forwarded). -/
theorem cancel_value_safe_modulo_uaf :
    ∀ s, Reach (sys cfgCancelValue) s → safeModUaf cfgCancelValue s = true :=
  safe_of_check _ { coded with M := 1531 } 400 _ (by decide +kernel)

/-- VIOLATION in the code as it is (witness schedule): the operation's `evt_.set()` resumes the
    future's continuation on T1, which frees the block; T2's `request_stop()` finds the abandon
    callback still registered and runs `abandon()` (a CAS on `state_`) on the freed block. -/
theorem cancel_value_uaf :
    ∃ s, Reach (sys cfgCancelValue) s ∧ (s.uaf && final cfgCancelValue s) = true :=
  reach_of_run _ [1, 1, 0, 0, 1, 0, 0, 0, 2, 0, 2, 1, 1, 0, 0, 1, 0, 0] _ (by decide +kernel)

/-- non-vacuity: the cancellation can win (future completes with done, operation is told to stop,
    no use-after-free on that schedule) … -/
example : ∃ s, Reach (sys cfgCancelValue) s ∧
    (final cfgCancelValue s && decide (s.out = 3) && s.abandonWon && s.opStop && !s.uaf) = true :=
  reach_of_run _ [2, 2, 0, 0, 0, 0, 0, 0, 0, 0, 1, 0, 1, 1, 1, 0, 0, 0, 0] _ (by decide +kernel)

/-- … and can lose (stop requested, but the value was already there and is delivered). -/
example : ∃ s, Reach (sys cfgCancelValue) s ∧
    (final cfgCancelValue s && decide (s.out = 1) && s.fStop && !s.uaf) = true :=
  reach_of_run _ [1, 1, 0, 0, 1, 0, 0, 0, 0, 0, 2, 2, 1, 0, 1, 0] _ (by decide +kernel)

end Unifex.Props.C09
