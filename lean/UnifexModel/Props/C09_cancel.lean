/-
  Props/C09_cancel.lean — property C09: the future is awaited while a third thread requests stop on
  the awaiting receiver's stop source at an arbitrary moment; the operation completes with a VALUE.
  (error: Props/C09_cancel_error.lean, done: Props/C09_cancel_done.lean; one instance per file so
  that they build in parallel.)  See Props/C09.lean for the reading of `safe` (`safe_spelled`).
-/
import UnifexModel.Proto.SpawnFuture

namespace Unifex.Props.C09
open Unifex.Core Unifex.Proto.SpawnFuture

/-- all schedules of completion(value) ‖ connect;start ‖ request_stop: one winner of every CAS race,
    the block is deleted exactly once and never touched afterwards (the abandon callback is gone
    before the continuation reads `state_`), the result is destroyed exactly once, the outcome is
    done iff abandon() won and the value otherwise, cancelling requests stop on the operation. -/
theorem cancel_value_safe : ∀ s, Reach (sys cfgCancelValue) s → safe cfgCancelValue s = true :=
  safe_of_check _ { coded with M := 1531 } 400 _ (by decide +kernel)

/-- non-vacuity: the cancellation can win (future completes with done, the operation is told to
    stop) … -/
example : ∃ s, Reach (sys cfgCancelValue) s ∧
    (final cfgCancelValue s && decide (s.out = 3) && s.abandonWon && s.opStop) = true :=
  reach_of_run _ [2, 2, 0, 0, 0, 0, 0, 0, 0, 0, 0, 0, 1, 1, 1, 1, 0, 0, 0] _ (by decide +kernel)

/-- … and can lose (stop requested, but the value was already there and is delivered). -/
example : ∃ s, Reach (sys cfgCancelValue) s ∧
    (final cfgCancelValue s && decide (s.out = 1) && s.fStop) = true :=
  reach_of_run _ [1, 1, 0, 0, 1, 0, 0, 0, 1, 0, 1, 0, 1, 0, 1, 0] _ (by decide +kernel)

end Unifex.Props.C09
