/-
  Props/C19_noarb.lean — cancellable<>: the nested op does not arbitrate; thread A and the stop() hook
  both call try_complete and the state byte alone elects the winner.  The op is destroyed by the
  starter at the very end (so both callers may touch it).
-/
import UnifexModel.Props.C19

namespace Unifex.Props.C19.Cancellable
open Unifex.Core Unifex.Proto.Cancellable

theorem c_noarb_core : ∀ s, Reach (sys cfgNoArb) s → core cfgNoArb s = true :=
  safe_of_check _ { coded with M := 2039 } 400 _ (by decide +kernel)

/-- `one_winner` by the `completed` bit alone: of the two try_complete calls exactly one returns true -/
theorem c_noarb_one_winner :
    ∀ s, Reach (sys cfgNoArb) s → s.completions ≤ 1 ∧ s.tcTrue ≤ 1 ∧ (final cfgNoArb s = true → s.completions = 1) :=
  one_winner cfgNoArb c_noarb_core

/-- FINDING D2 without destruction: the hook called by start() is entered after the receiver was
    completed by thread A (`stop_hook_…_only_…_uncompleted` fails for this instance). -/
theorem c_noarb_hook_on_completed_op :
    ∃ s, Reach (sys cfgNoArb) s ∧ (decide (s.bad = 3) && decide (s.completions = 1)) = true :=
  reach_of_choices _ [1, 1, 1, 0, 0, 0, 0, 0, 0, 0, 1, 1, 1, 1, 1, 0] _ (by decide +kernel)

/-- non-vacuity: a final state in which try_complete was called by both sides, the hook won and the
    completer's call returned false. -/
example : ∃ s, Reach (sys cfgNoArb) s ∧ (final cfgNoArb s && decide (s.doneWins = 1) && decide (s.tcTrue = 1)) = true :=
  reach_of_choices _ [0, 0, 0, 0, 0, 0, 1, 1, 1, 1, 1, 1, 1, 1, 1, 1, 1, 1, 0, 0, 0, 0] _ (by decide +kernel)

/-- in every schedule the stop() hook is only called for an operation whose completion nobody has
    claimed (the deciding atomic operation observed `state_` without the `completed` bit) -/
theorem c_noarb_stop_hook_only_unclaimed : ∀ s, Reach (sys cfgNoArb) s → s.hookLate = false :=
  stop_hook_only_unclaimed cfgNoArb c_noarb_core

end Unifex.Props.C19.Cancellable
