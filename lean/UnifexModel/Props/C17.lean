/-
  Props/C17.lean — property C17: bulk operations visit each index once before completing;
  find_if is exact.   ONLY property theorems and non-vacuity examples.

  The theorems are about the GENERATED definitions (Generated/BulkLoop.lean, Generated/FindIfChunks.lean,
  regenerated from the C++ text by tools/cxx2lean_bulk.py before every proof gate), assembled into
  programs by Proto/Bulk.lean (the loop nest of `_schedule_receiver::set_value`) and Proto/FindIf.lean
  (sequential and parallel `find_if_helper::operator()`).  All of them hold for EVERY count / distance
  (no bound), by induction + omega.

  find_if, parallel overload: since fix 64fd49b both chunk bounds are clamped to the distance and the chunks
  tile the range for EVERY distance (`chunks_tile_range`).  The pre-fix arithmetic (DESIGN §8 #1) survives only
  as hand-transcribed LEGACY definitions in the "history" section at the end; nothing there is about the
  current code.
-/
import UnifexModel.Proto.Bulk
import UnifexModel.Proto.FindIf
import UnifexModel.Generated.BulkPolicy
import UnifexModel.Lemmas.BulkLoop
import UnifexModel.Lemmas.FindIfTiles

namespace Unifex.Props.C17
open Unifex.Proto Unifex.Proto.Bulk Unifex.Proto.FindIf Unifex.Generated.FindIfChunks
open Unifex.Generated.BulkLoop (bulk_cancellation_chunk_size)

/-! ## bulk_schedule -/

/-- Without a stop request, `bulk_schedule(n)` calls set_next for 0, 1, …, n-1 — each index exactly
    once, in order — and then set_value; for both loop variants (`u`: unsequenced policies) and both
    paths (`stoppable`: the receiver's stop token can be requested / cannot). -/
theorem bulk_visits_each_once_in_order (u stoppable : Bool) (n : Nat) :
    run u stoppable none n = (List.range n).map Ev.next ++ [Ev.value] := by
  rw [run_closed]
  cases stoppable <;> simp [outerSpec, nexts, List.range_eq_range']

/-- the same, as a statement about the index list -/
theorem bulk_indices_range (u stoppable : Bool) (n : Nat) :
    indices (run u stoppable none n) = List.range n := by
  rw [run_closed]
  cases stoppable <;>
    simp [outerSpec, indices_append_single, indices_nexts, List.range_eq_range']

/-- With a stop flag that becomes visible after `t` set_next calls (t arbitrary, 0 = before start),
    the visited indices are exactly the prefix `0 … k-1` where `k` is the first multiple of
    `bulk_cancellation_chunk_size` at or after `t` — then set_done — or, if that boundary is not
    below `n`, all of `0 … n-1` — then set_value. -/
theorem bulk_stop_cuts_at_chunk_boundary (u : Bool) (n t : Nat) :
    run u true (some t) n =
      if boundaryAfter t < n then (List.range (boundaryAfter t)).map Ev.next ++ [Ev.done]
      else (List.range n).map Ev.next ++ [Ev.value] := by
  rw [run_closed]
  simp [outerSpec, nexts, List.range_eq_range']

/-- the cut point spelled out: a multiple of the chunk size, at or after the stop point, less than one
    chunk later -/
theorem bulk_stop_cut_point (t : Nat) :
    boundaryAfter t % bulk_cancellation_chunk_size = 0 ∧ t ≤ boundaryAfter t ∧
    boundaryAfter t < t + bulk_cancellation_chunk_size := by
  obtain ⟨a, b, c⟩ := boundaryAfter_spec t
  exact ⟨c, a, b⟩

/-- Exactly one terminal signal, and it is the last event: no set_next after (or instead of) the
    terminal signal, for every count, policy variant, path and stop point; set_done only if a stop was
    requested; the set_next indices are a prefix of 0 … n-1 (so no index twice, none out of range). -/
theorem no_next_after_terminal (u stoppable : Bool) (stopAt : Option Nat) (n : Nat) :
    ∃ k term, run u stoppable stopAt n = (List.range k).map Ev.next ++ [term] ∧ k ≤ n ∧
      ((term = Ev.value ∧ k = n) ∨ (term = Ev.done ∧ stoppable = true ∧ stopAt ≠ none)) := by
  cases stopAt with
  | none => exact ⟨n, Ev.value, bulk_visits_each_once_in_order u stoppable n, Nat.le_refl _, Or.inl ⟨rfl, rfl⟩⟩
  | some t =>
    cases stoppable with
    | false =>
      refine ⟨n, Ev.value, ?_, Nat.le_refl _, Or.inl ⟨rfl, rfl⟩⟩
      rw [run_closed]; simp [nexts, List.range_eq_range']
    | true =>
      rw [bulk_stop_cuts_at_chunk_boundary]
      by_cases h : boundaryAfter t < n
      · exact ⟨boundaryAfter t, Ev.done, by rw [if_pos h], by omega, Or.inr ⟨rfl, rfl, by simp⟩⟩
      · exact ⟨n, Ev.value, by rw [if_neg h], Nat.le_refl _, Or.inl ⟨rfl, rfl⟩⟩

/-! ## execution policies (Generated/BulkPolicy.lean: bulk_transform / bulk_join / default / bulk_schedule) -/

section policies
open Unifex.Proto.PolicyLattice Unifex.Generated.BulkPolicy

/-- The policy that `bulk_transform(src, f, func_policy)` advertises to its source, above a receiver
    advertising `receiver_policy`, is the MEET of the two — for all 16 pairs: it permits concurrent
    (interleaved) invocation iff BOTH the function's policy and the receiver's policy do. -/
theorem bulk_transform_policy_is_meet (receiver_policy func_policy : Policy) :
    tfx_policy receiver_policy func_policy = meet receiver_policy func_policy := by
  cases receiver_policy <;> cases func_policy <;> decide

/-- spelled out: never more permissive than the function's or the receiver's policy, and the most
    permissive policy with that property -/
theorem bulk_transform_policy_is_glb (r f : Policy) :
    (tfx_policy r f).le f = true ∧ (tfx_policy r f).le r = true ∧
    ∀ q : Policy, q.le r = true → q.le f = true → q.le (tfx_policy r f) = true := by
  refine ⟨?_, ?_, ?_⟩
  · cases r <;> cases f <;> decide
  · cases r <;> cases f <;> decide
  · intro q; cases r <;> cases f <;> cases q <;> decide

/-- a function registered with a policy that forbids concurrent invocation is never advertised to
    the source as parallelisable, whatever is downstream (and likewise for interleaving) -/
theorem bulk_transform_never_parallelises_a_sequential_function (r f : Policy) :
    (f.allowsPar = false → (tfx_policy r f).allowsPar = false) ∧
    (f.allowsUnseq = false → (tfx_policy r f).allowsUnseq = false) ∧
    (r.allowsPar = false → (tfx_policy r f).allowsPar = false) ∧
    (r.allowsUnseq = false → (tfx_policy r f).allowsUnseq = false) := by
  cases r <;> cases f <;> decide

/-- a chain `src | bulk_transform(f₁,P₁) | … | bulk_transform(fₖ,Pₖ) | receiver`: the policy seen by
    the source (`ps` lists the function policies from the receiver outwards: Pₖ, …, P₁) is the meet of
    all of them with the receiver's policy — for chains of every length -/
def chainPolicy (r : Policy) (ps : List Policy) : Policy := ps.foldl tfx_policy r

theorem chain_policy_is_meet (r : Policy) (ps : List Policy) : chainPolicy r ps = ps.foldl meet r := by
  unfold chainPolicy
  induction ps generalizing r with
  | nil => rfl
  | cons p ps ih => simp only [List.foldl_cons, bulk_transform_policy_is_meet, ih]

theorem chain_never_parallelises_a_sequential_function (r : Policy) (ps : List Policy) (p : Policy)
    (hp : p ∈ ps) (h : p.allowsPar = false) : (chainPolicy r ps).allowsPar = false := by
  rw [chain_policy_is_meet]
  have mono : ∀ (qs : List Policy) (a : Policy), a.allowsPar = false → (qs.foldl meet a).allowsPar = false := by
    intro qs
    induction qs with
    | nil => intro a ha; exact ha
    | cons q qs ih => intro a ha; exact ih (meet a q) (by rw [meet_allowsPar, ha, Bool.false_and])
  induction ps generalizing r with
  | nil => cases hp
  | cons q qs ih =>
    simp only [List.foldl_cons]
    rcases List.mem_cons.mp hp with rfl | hq
    · exact mono qs _ (by rw [meet_allowsPar, h, Bool.and_false])
    · exact ih _ hq

/-- bulk_join advertises par_unseq, an uncustomised receiver seq; bulk_schedule takes the vectorised
    loop exactly for the policies that allow interleaving (both loop variants) -/
theorem policy_constants :
    join_policy = Policy.par_unseq ∧ default_policy = Policy.seq ∧
    (∀ p, schedule_vectorised_stop p = p.allowsUnseq) ∧ (∀ p, schedule_vectorised_plain p = p.allowsUnseq) := by
  refine ⟨by decide, by decide, ?_, ?_⟩ <;> intro p <;> cases p <;> decide

/-- find_if's composition `bulk_join(bulk_transform(bulk_schedule(…), chunk-lambda, par))`: the chunk
    lambda's receiver advertises `par`, so bulk_schedule runs the non-vectorised loop (the `u = false`
    with which Proto/FindIf.lean instantiates the bulk loop model) -/
theorem find_if_bulk_policy_is_par :
    tfx_policy join_policy Policy.par = Policy.par ∧
    schedule_vectorised_stop (tfx_policy join_policy Policy.par) = false := by decide

end policies

/-! ## find_if -/

/-- What `tilesB d` says (so the theorems can be read without the model file): there is at least one
    chunk; perChunkState and the bulk count have one entry per chunk; chunk 0 starts at offset 0; every
    chunk `[begin, end)` is a well-formed interval that does not exceed `d`; consecutive chunks are
    adjacent (no gap, no overlap); the last chunk ends at `d`. -/
theorem tiles_spelled (d : Nat) (h : tilesB d = true) :
    1 ≤ num_chunks (d : Int) ∧ per_chunk_len (d : Int) = num_chunks d ∧ bulk_count (d : Int) = num_chunks d ∧
    chunk_begin_it (d : Int) 0 = 0 ∧
    (∀ i : Nat, (i : Int) < num_chunks (d : Int) →
       chunk_begin_it (d : Int) i ≤ chunk_end_it (d : Int) i ∧ chunk_end_it (d : Int) i ≤ d) ∧
    (∀ i : Nat, (i : Int) + 1 < num_chunks (d : Int) →
       chunk_end_it (d : Int) i = chunk_begin_it (d : Int) ((i : Int) + 1)) ∧
    chunk_end_it (d : Int) (num_chunks (d : Int) - 1) = d := by
  have t := Lemmas.FindIfTiles.tileFacts d h
  have hn := t.npos
  refine ⟨t.npos, t.len, t.cnt, t.b0, ?_, ?_, ?_⟩
  · intro i hi
    exact ⟨t.le i (by omega), t.hi i (by omega)⟩
  · intro i hi
    have := t.nxt i (by omega)
    rw [this]; push_cast; rfl
  · have := t.last ((num_chunks (d : Int)).toNat - 1) (by omega)
    have e : (((num_chunks (d : Int)).toNat - 1 : Nat) : Int) = num_chunks (d : Int) - 1 := by omega
    rw [e] at this
    exact this

/-- The chunks of the parallel overload tile `[0,d)` — cover it exactly, in order, without overlap and
    without exceeding `d` — for EVERY distance. -/
theorem chunks_tile_range (d : Nat) : tilesB d = true := Lemmas.FindIfTiles.tilesB_all d

/-- For EVERY predicate and distance the parallel find_if returns exactly what std::find_if returns
    (`firstSat`, see `first_sat_is_std_find_if`: the least offset in `[0,d)` satisfying `p`, or `d`),
    evaluates the predicate only on offsets of the range, terminates, and stores only inside
    perChunkState.  This covers the cancellation of later chunks by the first hit (the bulk loop model
    with the stop requested from inside the chunk's set_next) and the scan of perChunkState in chunk
    order. -/
theorem find_if_returns_first (d : Nat) (p : Int → Bool) :
    (findIfPar p d (d + 1)).res = firstSat p d ∧
    (∀ j ∈ (findIfPar p d (d + 1)).evals, 0 ≤ j ∧ j < d) ∧
    (findIfPar p d (d + 1)).ranOut = false ∧ (findIfPar p d (d + 1)).storeOob = false :=
  Lemmas.FindIfTiles.findIfPar_correct d p (d + 1) (by omega)

/-- The sequential overload returns the first match for every distance and predicate and evaluates the
    predicate only inside the range. -/
theorem find_if_seq_returns_first (d : Nat) (p : Int → Bool) :
    (findIfSeq p d (d + 1)).res = firstSat p d ∧
    (∀ j ∈ (findIfSeq p d (d + 1)).evals, 0 ≤ j ∧ j < d) ∧ (findIfSeq p d (d + 1)).ranOut = false :=
  Lemmas.FindIfTiles.findIfSeq_correct d p (d + 1) (by omega)

/-- `firstSat` is std::find_if (restated here so that the property file is self-contained) -/
theorem first_sat_is_std_find_if (p : Int → Bool) (d : Nat) :
    (firstSat p d = d ∧ ∀ j : Int, 0 ≤ j → j < d → p j = false) ∨
    (0 ≤ firstSat p d ∧ firstSat p d < d ∧ p (firstSat p d) = true ∧
      ∀ j : Int, 0 ≤ j → j < firstSat p d → p j = false) :=
  firstSat_spec p d

/-! ## non-vacuity -/

/-- the stop path really cuts: two full chunks and a bit, stop seen right after the first chunk ⇒ exactly
    two chunks are visited, then set_done (stated relative to the generated constant) -/
example : run false true (some (bulk_cancellation_chunk_size + 1)) (2 * bulk_cancellation_chunk_size + 8)
    = (List.range (2 * bulk_cancellation_chunk_size)).map Ev.next ++ [Ev.done] := by decide

/-- a find with several matches and cancellation: d = 126, matches at 70 and 5 ⇒ 5; the chunks after the
    match that belong to the same cancellation group are still scanned (more than 6 evaluations), the
    later groups are not (with the current constants: 62 evaluations, offsets 0…5 and 8…63) -/
example : (findIfPar (fun j => j == 70 || j == 5) 126 127).res = 5 ∧
    6 < (findIfPar (fun j => j == 70 || j == 5) 126 127).evals.length ∧
    (findIfPar (fun j => j == 70 || j == 5) 126 127).evals.length < 126 := by decide +kernel

/-- the distances of the former defect are handled: 160 is cut into 27 non-empty chunks of 6 (the last one
    [156,160)) followed by 5 empty chunks at 160; an all-false predicate is evaluated on 0…159 only -/
example : num_chunks 160 = 32 ∧ chunk_size 160 = 6 ∧ chunk_begin_it 160 26 = 156 ∧ chunk_end_it 160 26 = 160 ∧
    chunk_begin_it 160 27 = 160 ∧ chunk_end_it 160 31 = 160 := by decide

example : (findIfPar (fun _ => false) 160 161).res = 160 ∧ (findIfPar (fun _ => false) 160 161).evals.length = 160 := by
  decide +kernel

/-! ## history (LEGACY definitions, hand-transcribed from the code before fix 64fd49b — NOT the current code) -/

/-- DESIGN §8 #1 as it was: for distance 160 the pre-fix arithmetic gave 32 chunks of 6; chunk 26 was
    [156,162) (exceeds the range), chunk 27 started at 162 > 160, the last chunk was "[186,160)", which the
    `it != chunk_end_it` scan never leaves. -/
theorem legacy_chunks_of_160_left_the_range :
    chunkSizeLegacy 160 = 6 ∧ chunkEndLegacy 160 26 = 162 ∧ chunkBeginLegacy 160 27 = 162 ∧
    chunkBeginLegacy 160 31 = 186 ∧ chunkEndLegacy 160 31 = 160 := by decide

/-- the fix changed exactly the bounds that exceeded the distance: the current bounds are the legacy ones
    clamped, wherever the legacy chunk was not the last one -/
theorem current_bounds_are_legacy_clamped (d : Nat) (i : Nat) (h : (i : Int) + 1 < num_chunks (d : Int)) :
    chunk_begin_it (d : Int) i = min (chunkBeginLegacy d i) d ∧
    chunk_end_it (d : Int) i = min (chunkEndLegacy d i) d := by
  have hn := Lemmas.FindIfTiles.num_chunks_pos d
  have h0 : (0 : Int) ≤ d := Int.natCast_nonneg d
  have hl : chunkSizeLegacy (d : Int) = chunk_size (d : Int) := by
    rw [Lemmas.FindIfTiles.chunk_size_nf]
    simp (disch := omega) only [chunkSizeLegacy, Int.tdiv_eq_ediv_of_nonneg]
    exact Lemmas.FindIfTiles.add_self_ediv _ _ hn
  rw [Lemmas.FindIfTiles.chunk_begin_nf, Lemmas.FindIfTiles.chunk_end_nf]
  simp only [chunkEndLegacy, chunkBeginLegacy, hl]
  rw [if_pos (by omega), Int.mul_add, Int.mul_one]
  exact ⟨trivial, rfl⟩

end Unifex.Props.C17
