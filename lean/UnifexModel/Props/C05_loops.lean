/-
  Props/C05_loops.lean — property C05 for the looping algorithms repeat_effect_until and retry_when, for EVERY script
  (any number of iterations / attempts).  ONLY property theorems.
-/
import UnifexModel.Proto.Loops

namespace Unifex.Props.C05Loops
open Unifex.Proto.Loops

/-- iterations whose source yields a value and whose predicate says "not yet" are skipped, however many -/
theorem repeat_skips_undecided (pre : List Iter) (h : ∀ it ∈ pre, (∃ v, it.src = .value v) ∧ it.pred = .no) (rest : List Iter) :
    repeatUntil (pre ++ rest) = repeatUntil rest := by
  induction pre with
  | nil => rfl
  | cons it pre ih =>
    obtain ⟨⟨v, hv⟩, hp⟩ := h it (by simp)
    rcases it with ⟨s, p⟩
    simp only at hv hp
    subst hv; subst hp
    simpa [repeatUntil] using ih (fun x hx => h x (by simp [hx]))

/-- a throwing predicate is reported as set_error (never escapes, never completes with a value) -/
theorem repeat_predicate_throw_becomes_error (pre : List Iter) (h : ∀ it ∈ pre, (∃ v, it.src = .value v) ∧ it.pred = .no)
    (v e : Nat) (rest : List Iter) : repeatUntil (pre ++ ⟨.value v, .throws e⟩ :: rest) = some (.error e) := by
  rw [repeat_skips_undecided pre h]; rfl

theorem repeat_completes_when_predicate_true (pre : List Iter) (h : ∀ it ∈ pre, (∃ v, it.src = .value v) ∧ it.pred = .no)
    (v : Nat) (rest : List Iter) : repeatUntil (pre ++ ⟨.value v, .yes⟩ :: rest) = some (.value 0) := by
  rw [repeat_skips_undecided pre h]; rfl

theorem repeat_source_error_ends_loop (pre : List Iter) (h : ∀ it ∈ pre, (∃ v, it.src = .value v) ∧ it.pred = .no)
    (e : Nat) (p : Pred) (rest : List Iter) : repeatUntil (pre ++ ⟨.error e, p⟩ :: rest) = some (.error e) := by
  rw [repeat_skips_undecided pre h]; rfl

theorem repeat_source_done_ends_loop (pre : List Iter) (h : ∀ it ∈ pre, (∃ v, it.src = .value v) ∧ it.pred = .no)
    (p : Pred) (rest : List Iter) : repeatUntil (pre ++ ⟨.done, p⟩ :: rest) = some .done := by
  rw [repeat_skips_undecided pre h]; rfl

/-- retry_when: the first attempt decides unless its source fails and the trigger asks for a retry -/
theorem retry_value_passes (v : Nat) (t : Out) (c : Option Nat) (rest : List Attempt) :
    retryWhen (⟨.value v, t, c⟩ :: rest) = some (.value v) := rfl
theorem retry_done_passes (t : Out) (c : Option Nat) (rest : List Attempt) : retryWhen (⟨.done, t, c⟩ :: rest) = some .done := rfl
theorem retry_trigger_error_ends (e e' : Nat) (c : Option Nat) (rest : List Attempt) :
    retryWhen (⟨.error e, .error e', c⟩ :: rest) = some (.error e') := rfl
theorem retry_trigger_done_ends (e : Nat) (c : Option Nat) (rest : List Attempt) :
    retryWhen (⟨.error e, .done, c⟩ :: rest) = some .done := rfl
/-- a retry whose re-connect throws is reported as set_error with that exception -/
theorem retry_reconnect_throw_becomes_error (e v x : Nat) (c : Option Nat) (b : Attempt) (hb : b.connectThrows = some x) (rest : List Attempt) :
    retryWhen (⟨.error e, .value v, c⟩ :: b :: rest) = some (.error x) := by
  simp [retryWhen, hb]
/-- after any number of failed attempts that were retried, the operation behaves like the remaining attempts -/
theorem retry_skips_retried_attempts (pre : List Attempt)
    (h : ∀ a ∈ pre, (∃ e, a.src = .error e) ∧ (∃ v, a.trig = .value v) ∧ a.connectThrows = none)
    (b : Attempt) (hb : b.connectThrows = none) (rest : List Attempt) :
    retryWhen (pre ++ b :: rest) = retryWhen (b :: rest) := by
  induction pre with
  | nil => rfl
  | cons a pre ih =>
    obtain ⟨⟨e, he⟩, ⟨v, hv⟩, _⟩ := h a (by simp)
    rcases a with ⟨s, t, c⟩
    simp only at he hv; subst he; subst hv
    have ih' := ih (fun x hx => h x (by simp [hx]))
    cases pre with
    | nil => simp [retryWhen, hb]
    | cons a2 pre2 =>
      have h2 : a2.connectThrows = none := (h a2 (by simp)).2.2
      simp only [List.cons_append] at ih' ⊢
      simp only [retryWhen, h2]
      exact ih'

example : repeatUntil [⟨.value 1, .no⟩, ⟨.value 1, .throws 7⟩] = some (.error 7) := by decide
example : retryWhen [⟨.error 1, .value 0, none⟩, ⟨.error 2, .value 0, none⟩, ⟨.value 9, .done, none⟩] = some (.value 9) := by decide

end Unifex.Props.C05Loops
