/-
  Props/C19_canary.lean — canary / watcher / guard: the watcher's thread (T1) against ~canary (T2).
-/
import UnifexModel.Props.C19

namespace Unifex.Props.C19.Canary
open Unifex.Core Unifex.Proto.Canary

/-- alive() + guarded work + ~guard + ~watcher against ~canary: all of `safe`
    (`canary_dead_iff_destroyed`, `guard_blocks_destructor_only_while_held`, `canary_no_deadlock`,
    no access to the other object after it is gone) in every schedule -/
theorem k_guard_safe : ∀ s, Reach (sys cfgGuard) s → safe cfgGuard s = true :=
  safe_of_check _ { coded with M := 251 } 400 _ (by decide +kernel)

/-- the two destructors alone (both lock orders, the canary yields on deadlock) -/
theorem k_dtors_safe : ∀ s, Reach (sys cfgDtors) s → safe cfgDtors s = true :=
  safe_of_check _ { coded with M := 127 } 400 _ (by decide +kernel)

/-- the guard returned by alive() is moved into a second guard object and the moved-from object is
    destroyed before the guarded work: all of `safe` again — in particular `~canary` still does not
    return while the (moved-to) guard is held, and the moved-from guard refers to nothing -/
theorem k_move_safe : ∀ s, Reach (sys cfgMove) s → safe cfgMove s = true :=
  safe_of_check _ { coded with M := 251 } 400 _ (by decide +kernel)

/-- `guard_blocks_destructor_while_held` across a move of the guard -/
theorem guard_move_keeps_blocking :
    ∀ s, Reach (sys cfgMove) s → (s.guardHeld = true → s.canaryFreed = false) ∧ (s.g1 = true → s.g2 = false) :=
  fun s h => let r := safe_spelled cfgMove s (k_move_safe s h); ⟨r.2.1, r.2.2.2.2.2.1⟩

theorem canary_no_deadlock :
    ∀ s, Reach (sys cfgGuard) s → ((sys cfgGuard).next s).isEmpty = true → final cfgGuard s = true :=
  fun s h => (safe_spelled cfgGuard s (k_guard_safe s h)).2.2.2.1

theorem guard_blocks_destructor_while_held :
    ∀ s, Reach (sys cfgGuard) s → s.guardHeld = true → s.canaryFreed = false :=
  fun s h => (safe_spelled cfgGuard s (k_guard_safe s h)).2.1

theorem canary_dead_iff_destroyed :
    ∀ s, Reach (sys cfgGuard) s → s.aliveRes = 2 → s.deadAtAlive = true :=
  fun s h => (safe_spelled cfgGuard s (k_guard_safe s h)).2.2.1

/-- non-vacuity: a state in which the guard is held and ~canary is blocked in its spin (only the
    watcher's thread can move) … -/
example : ∃ s, Reach (sys cfgGuard) s ∧
    (s.guardHeld && decide (s.pcn = 6) && decide (((sys cfgGuard).next s).length = 1)) = true :=
  reach_of_choices _ [0, 1, 1, 1, 1, 1] _ (by decide +kernel)

/-- non-vacuity (k_move): the moved-from guard has been destroyed, the moved-to guard is held and
    ~canary is blocked in its spin. -/
example : ∃ s, Reach (sys cfgMove) s ∧
    (s.guardHeld && s.g2 && !s.g1 && decide (s.pw = 12) && decide (s.pcn = 6) &&
      decide (((sys cfgMove).next s).length = 1)) = true :=
  reach_of_choices _ [0, 0, 1, 1, 1, 1, 1] _ (by decide +kernel)

/-- … and the deadlock-resolution path (watcher holds canary_, canary holds watcher_ and yields) runs
    to the end. -/
example : ∃ s, Reach (sys cfgDtors) s ∧ final cfgDtors s = true :=
  reach_of_choices _ [0, 0, 1, 1, 1, 0, 0, 0, 0, 0, 0, 0] _ (by decide +kernel)

end Unifex.Props.C19.Canary
