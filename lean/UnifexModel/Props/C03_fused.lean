/-
  Props/C03_fused.lean — property C03/C04 for fused_stop_source (the stop source let_value_with_stop_source and the
  stop-token adaptors build on): for EVERY set of upstream tokens and EVERY sequence of register / deregister /
  upstream stop requests.  ONLY property theorems.
-/
import UnifexModel.Proto.Fused

namespace Unifex.Props.C03Fused
open Unifex.Proto.Fused

/-- the fused source never reports stop unless some upstream token that can stop had stop requested -/
theorem fused_stop_only_after_an_upstream_stop (possible : Nat → Bool) (ops : List Op) :
    (run possible ops).fused = true → (run possible ops).upAny = true :=
  (inv_run possible ops).1

/-- while the callbacks are registered, ANY upstream stop request (before or after the registration) has reached the
    fused source — in particular when other upstream tokens can never stop -/
theorem registered_upstream_stop_reaches_fused (possible : Nat → Bool) (ops : List Op) :
    (run possible ops).reg = true → (run possible ops).upAny = true → (run possible ops).fused = true :=
  (inv_run possible ops).2

/-- one live token among never-stoppable ones is enough -/
theorem one_live_token_suffices (possible : Nat → Bool) (i : Nat) (hi : possible i = true) (ops : List Op) :
    (run possible (ops ++ [.register, .stop i])).fused = true := by
  unfold run
  simp only [List.foldl_append, List.foldl_cons, List.foldl_nil]
  generalize List.foldl (step possible) init ops = s
  rcases s with ⟨r, u, f⟩
  cases r <;> cases u <;> cases f <;> simp [step, hi]

/-- a stop requested before the registration is seen at registration -/
theorem earlier_stop_seen_at_registration (possible : Nat → Bool) (i : Nat) (hi : possible i = true) :
    (run possible [.stop i, .register]).fused = true := by
  simp [run, step, hi, init]

example : (run (fun i => i == 1) [.register, .stop 0]).fused = false := by decide   -- a token that cannot stop changes nothing
example : (run (fun i => i == 1) [.register, .stop 0, .stop 1]).fused = true := by decide

end Unifex.Props.C03Fused
