/-
  Props/C04_AtomicInst.lean — property C04 at the schedule level, instances by kernel-evaluated reflection:
  the Boolean predicates `safe` of Proto/WhenAll.lean and Proto/StopWhen.lean for every reachable state of
  fixed small configurations (adds deadlock-freedom of the blocking deregistrations to the parametric
  theorems of Props/C04_Atomic.lean, and covers stop_when).  ONLY property theorems.
-/
import UnifexModel.Proto.StopWhen

namespace Unifex.Props.C04AtomicInst
open Unifex.Core

section WhenAllInstances
open Unifex.Proto.WhenAll

/-- What `safe` says about C04, spelled out. -/
theorem safe_spelled (cfg : Config) (s : St) (h : safe cfg s = true) :
    s.bad = 0
    -- at delivery: callback destructed, not running elsewhere
    ∧ (s.delivered = 0 ∨ (s.cbReg = false ∧ (s.cbRunning = false ∨ s.dlvBy = stopTid cfg)))
    -- no deadlock (the blocking destruct()/leaf deregistrations always get through)
    ∧ (((sys cfg).next s).isEmpty = true → final cfg s = true)
    -- the first requester ran the callbacks of all running children
    ∧ (s.notifyDone = true → ∀ c ∈ s.ch, c.ph = .run → c.notified = true)
    -- after request_stop() on the receiver's source returned, running children see the stop request
    ∧ (s.stopPh = .fin → ∀ c ∈ s.ch, c.ph = .run → s.ownStop = true) := by
  unfold safe at h
  simp only [Bool.and_eq_true, decide_eq_true_eq, List.all_eq_true, Bool.or_eq_true, Bool.not_eq_true',
    bne_iff_ne, ne_eq] at h
  obtain ⟨⟨⟨⟨⟨⟨⟨⟨⟨h1, _⟩, _⟩, h4⟩, h5⟩, _⟩, _⟩, _⟩, h9⟩, h10⟩ := h
  refine ⟨h1, ?_, ?_, ?_, ?_⟩
  · rcases h4 with h4 | h4
    · exact .inl h4
    · exact .inr ⟨h4.1, h4.2⟩
  · intro hd
    rcases h5 with h5 | h5
    · simp [hd] at h5
    · exact h5
  · intro hnd c hc hr
    rcases h9 with h9 | h9
    · simp [hnd] at h9
    · rcases h9 c hc with h | h
      · exact absurd hr h
      · exact h
  · intro hf c hc hr
    rcases h10 with h10 | h10
    · simp [hf] at h10
    · rcases h10 c hc with h | h
      · exact absurd hr h
      · exact h

theorem wa2_done_inl_safe : ∀ s, Reach (sys cfgWa2DoneInl) s → safe cfgWa2DoneInl s = true :=
  safe_of_check _ { coded with M := 31, W := 120 } 400 _ (by decide +kernel)

theorem wa2_err_inl_safe : ∀ s, Reach (sys cfgWa2ErrInl) s → safe cfgWa2ErrInl s = true :=
  safe_of_check _ { coded with M := 31, W := 120 } 400 _ (by decide +kernel)

theorem wa2_stop_inl_safe : ∀ s, Reach (sys cfgWa2StopInl) s → safe cfgWa2StopInl s = true :=
  safe_of_check _ { coded with M := 97, W := 120 } 400 _ (by decide +kernel)

theorem wa2_errinl_stop_safe : ∀ s, Reach (sys cfgWa2ErrInlStop) s → safe cfgWa2ErrInlStop s = true :=
  safe_of_check _ { coded with M := 599, W := 120 } 400 _ (by decide +kernel)

end WhenAllInstances

section StopWhenInstances
open Unifex.Proto.StopWhen

/-- What the stop_when `safe` says about C04, spelled out.  NOTE the second clause: on the
    `cancel_callback` path the receiver is signalled while `stopCallback_` is still engaged
    (`aliveAtDlv`); what holds is that its registration has been dequeued by the running `request_stop()`
    and that it executes on the signalling thread itself. -/
theorem sw_safe_spelled (cfg : Config) (s : St) (h : safe cfg s = true) :
    s.bad = 0
    ∧ (s.delivered = 0 ∨
        ((s.aliveAtDlv = false ∨ (s.cbTaken = true ∧ s.dlvBy = stopTid)) ∧
         (s.cbRunning = false ∨ s.dlvBy = stopTid)))
    -- the callback object is alive at the signal exactly when the callback itself delivers
    ∧ (s.delivered = 0 ∨ (s.aliveAtDlv = true ↔ s.dlvBy = stopTid))
    ∧ (((sys cfg).next s).isEmpty = true → final cfg s = true)
    -- each completion (source or trigger, any outcome) requests stop on the other child
    ∧ (∀ c ∈ s.ch, c.ph.pastStop = true → s.ownStop = true)
    ∧ (s.notifyDone = true → ∀ c ∈ s.ch, c.ph = .run → c.notified = true)
    -- a stop request on the receiver's token reaches both children
    ∧ (s.stopPh = .fin → ∀ c ∈ s.ch, c.ph = .run → s.ownStop = true) := by
  unfold safe at h
  simp only [Bool.and_eq_true, decide_eq_true_eq, List.all_eq_true, Bool.or_eq_true, Bool.not_eq_true',
    bne_iff_ne, ne_eq, beq_iff_eq] at h
  obtain ⟨⟨⟨⟨⟨⟨⟨⟨⟨h1, _⟩, _⟩, h4⟩, h5⟩, h6⟩, _⟩, h8⟩, h9⟩, h10⟩ := h
  refine ⟨h1, ?_, ?_, ?_, ?_, ?_, ?_⟩
  · rcases h4 with h4 | h4
    · exact .inl h4
    · exact .inr ⟨h4.1, h4.2⟩
  · rcases h5 with h5 | h5
    · exact .inl h5
    · refine .inr ?_
      rw [h5]
      simp
  · intro hd
    rcases h6 with h6 | h6
    · simp [hd] at h6
    · exact h6
  · intro c hc hp
    rcases h8 c hc with h | h
    · simp [hp] at h
    · exact h
  · intro hnd c hc hr
    rcases h9 with h9 | h9
    · simp [hnd] at h9
    · rcases h9 c hc with h | h
      · exact absurd hr h
      · exact h
  · intro hf c hc hr
    rcases h10 with h10 | h10
    · simp [hf] at h10
    · rcases h10 c hc with h | h
      · exact absurd hr h
      · exact h

theorem sw_stop_inl_safe : ∀ s, Reach (sys cfgSwStopInl) s → safe cfgSwStopInl s = true :=
  safe_of_check _ { coded with M := 67, W := 112 } 400 _ (by decide +kernel)

theorem sw_trg_stop_safe : ∀ s, Reach (sys cfgSwTrgStop) s → safe cfgSwTrgStop s = true :=
  safe_of_check _ { coded with M := 421, W := 112 } 400 _ (by decide +kernel)

end StopWhenInstances

end Unifex.Props.C04AtomicInst
