/-
  Props/C14.lean — property C14, part 1: remote scheduling / wake-up protocol of io_epoll_context
  (model Proto/RemoteQueue.lean).  ONLY property theorems and non-vacuity examples; the inductive
  invariant and its preservation proofs are in Lemmas/RemoteQueue*.lean.

  All theorems named `remote_*`, `wakeup_*`, `run_*` are PARAMETRIC: they hold for every
  configuration (any number of producers, any number of items per producer, stop requested at any
  time or after the producers returned) and every reachable state, i.e. every schedule of every
  length.  `rq_one_safe_inst` is an independent kernel-evaluated instance (cross-check).
  Part 2 (the per-operation state machine) is Props/C14_ops.lean.  io_uring is NOT modelled
  (no `…_partial` theorems): see tools/checks/c14.py for what is covered for it (nothing) and why.
-/
import UnifexModel.Lemmas.RemoteQueueThms

namespace Unifex.Props.C14
open Unifex.Core Unifex.Proto.RemoteQueue

/-- What `safe` says, spelled out. -/
theorem safe_spelled (cfg : Config) (s : St) (h : safe cfg s = true) :
    -- executed ++ still queued (in execution order) = the order of the enqueue CASes: nothing lost,
    -- nothing duplicated, FIFO; and no item was enqueued twice
    (s.ran ++ pending s = s.enq ∧ s.enq.Nodup)
    -- no lost wake-up
    ∧ (loopBlocked s = true → sigPending s = false → s.inactive = true ∧ s.rq = [])
    -- exactly one eventfd write per inactive period, counter never above 1
    ∧ (s.marks = s.writes + (if sigPending s then 1 else 0) + (if s.inactive then 1 else 0)
        ∧ s.efd ≤ 1 ∧ s.writes = s.reads + s.efd)
    -- no deadlock: nothing enabled ⇒ every thread returned, in particular run(stop_token)
    ∧ (((sys cfg).next s).isEmpty = true → final cfg s = true)
    -- at the end the stop operation ran; with stop after the producers, every item ran
    ∧ (final cfg s = true → stopItem cfg ∈ s.ran ∧
        (cfg.early = false → s.ran = s.enq ∧
          ∀ p, p < nprod cfg → ∀ j, j < quotaOf cfg p → (p, j) ∈ s.ran)) := by
  unfold safe at h
  simp only [Bool.and_eq_true, Bool.or_eq_true, Bool.not_eq_true', beq_iff_eq, decide_eq_true_eq,
    List.all_eq_true, List.mem_range, List.contains_iff_mem, List.isEmpty_iff] at h
  obtain ⟨⟨⟨⟨⟨⟨⟨h1, h2⟩, h3⟩, h4⟩, h5⟩, h6⟩, h7⟩, h8⟩ := h
  refine ⟨⟨h1, h2⟩, ?_, ⟨h4, h5, h6⟩, ?_, ?_⟩
  · intro hb hn
    rcases h3 with h3 | h3
    · simp [hb, hn] at h3
    · exact h3
  · intro hd
    rcases h7 with h7 | h7
    · rw [List.isEmpty_iff] at hd; simp [hd] at h7
    · exact h7
  · intro hf
    rcases h8 with h8 | h8
    · simp [hf] at h8
    · refine ⟨h8.1, fun he => ?_⟩
      rcases h8.2 with h9 | h9
      · simp [he] at h9
      · exact h9

/-- PARAMETRIC.  Every reachable state of every configuration is safe. -/
theorem remote_queue_safe (cfg : Config) : ∀ s, Reach (sys cfg) s → safe cfg s = true :=
  fun _ hs => safe_of_inv (inv_reach hs)

/-- PARAMETRIC.  A remotely scheduled item is never lost: when the loop is blocked in epoll_wait
    and no producer owes the eventfd write, the remote queue is marked inactive and empty — so
    every enqueued item has already been moved to the loop's side, and the next producer will see
    "inactive" and write the eventfd. -/
theorem remote_item_never_lost (cfg : Config) (s : St) (hs : Reach (sys cfg) s)
    (hb : loopBlocked s = true) (hn : sigPending s = false) : s.inactive = true ∧ s.rq = [] :=
  no_lost_wakeup (inv_reach hs) hb hn

/-- PARAMETRIC.  Each item runs at most once, on the loop, in enqueue order; nothing disappears:
    the executed items followed by the queued ones are exactly the enqueue history, which has no
    duplicates. -/
theorem remote_items_run_once_in_order (cfg : Config) (s : St) (hs : Reach (sys cfg) s) :
    s.ran ++ pending s = s.enq ∧ s.enq.Nodup ∧ s.ran.Nodup := by
  have h := inv_reach hs
  have hb : s.ran ++ pending s = s.enq := h.2.1
  have hn : s.enq.Nodup := h.2.2.2.1.1
  refine ⟨hb, hn, ?_⟩
  rw [← hb] at hn
  exact (List.nodup_append.mp hn).1

/-- PARAMETRIC.  The wake-up is written exactly once per inactive period: the number of successful
    "mark inactive" CASes equals the eventfd writes done, plus the one owed, plus the period that is
    still open; the eventfd counter is 0 or 1 and every write is read once. -/
theorem wakeup_written_exactly_once_per_inactive_period (cfg : Config) (s : St) (hs : Reach (sys cfg) s) :
    s.marks = s.writes + (if s.sigBy = 0 then 0 else 1) + (if s.inactive = true then 1 else 0)
    ∧ s.writes = s.reads + s.efd ∧ s.efd ≤ 1 := by
  have h := inv_reach hs
  have hs' := (safe_spelled cfg s (safe_of_inv h)).2.2.1
  exact ⟨h.1.2.2.2.2.2.2.2.2.2.2.2.2.2.2.1, hs'.2.2, hs'.2.1⟩

/-- PARAMETRIC.  run(stop_token) returns after stop: the system never gets stuck before every
    thread — in particular the loop — has returned. -/
theorem run_returns_after_stop (cfg : Config) (s : St) (hs : Reach (sys cfg) s)
    (hd : (sys cfg).next s = []) : final cfg s = true ∧ s.lpc = 13 := by
  have hf := no_deadlock (inv_reach hs) hd
  refine ⟨hf, ?_⟩
  simp only [final, Bool.and_eq_true, beq_iff_eq] at hf
  exact hf.2

/-- PARAMETRIC.  When stop is requested after the producers returned, at the end every scheduled
    item has run (exactly once by `remote_items_run_once_in_order`) and the queues are empty. -/
theorem remote_all_items_ran (cfg : Config) (s : St) (hs : Reach (sys cfg) s) (hf : final cfg s = true)
    (he : cfg.early = false) :
    s.ran = s.enq ∧ pending s = [] ∧ ∀ p, p < nprod cfg → ∀ j, j < quotaOf cfg p → (p, j) ∈ s.ran :=
  (final_ran (inv_reach hs) hf).2 he

/-- non-vacuity: in `rq_two` a final state is reachable in which the loop went to sleep twice and
    was woken twice by an eventfd write, and both items ran. -/
def twoWitness : List Nat :=
  [0, 0, 0, 0, 0, 0, 0, 0, 0, 0, 0, 0, 0, 0, 0, 0, 0, 0, 0, 0, 0, 0, 0, 0, 0, 0, 0, 0, 0, 0, 0, 0, 0, 1, 0, 0, 0, 0,
   0, 0, 0, 0, 0, 0, 0]

example : ∃ s, Reach (sys cfgTwo) s ∧ final cfgTwo s = true ∧ s.marks ≥ 2 ∧ s.writes ≥ 2 ∧ s.ran.length = 3 := by
  have h : (match runChoices (sys cfgTwo) (sys cfgTwo).init twoWitness with
      | some (_, s) => final cfgTwo s && decide (s.marks ≥ 2) && decide (s.writes ≥ 2) && decide (s.ran.length = 3)
      | none => false) = true := by
    decide +kernel
  cases hr : runChoices (sys cfgTwo) (sys cfgTwo).init twoWitness with
  | none => simp [hr] at h
  | some p =>
    obtain ⟨ls, s⟩ := p
    simp only [hr, Bool.and_eq_true, decide_eq_true_eq] at h
    exact ⟨s, runChoices_reach _ _ _ _ _ Reach.init hr, h.1.1.1, h.1.1.2, h.1.2, h.2⟩

end Unifex.Props.C14
