/-
  Props/C06_loop.lean — C06, manual_event_loop instances (part 1): every reachable state of the
  instance (all schedules, unbounded length) satisfies `EventLoop.safe` — spelled out in
  `Props/C06.lean: loop_safe_spelled`; beyond the parametric theorems this adds deadlock freedom
  (a lost wake-up would be a deadlock) and "at the end every item ran exactly once".
-/
import UnifexModel.Proto.EventLoop

namespace Unifex.Props.C06
open Unifex.Core Unifex.Proto.EventLoop

theorem loop_1x2_safe : ∀ s, Reach (sys cfgLoop1x2) s → safe cfgLoop1x2 s = true :=
  safe_of_check _ { coded with M := 211, W := 200 } 400 _ (by decide +kernel)

theorem loop_2x1_safe : ∀ s, Reach (sys cfgLoop2x1) s → safe cfgLoop2x1 s = true :=
  safe_of_check _ { coded with M := 509, W := 200 } 400 _ (by decide +kernel)

/-- the client waits for each completion before it enqueues the next item / stops: here deadlock
    freedom IS the absence of lost wake-ups -/
theorem loop_wait_safe : ∀ s, Reach (sys cfgLoopWait) s → safe cfgLoopWait s = true :=
  safe_of_check _ { coded with M := 127, W := 200 } 400 _ (by decide +kernel)

end Unifex.Props.C06
