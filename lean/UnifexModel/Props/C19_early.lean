/-
  Props/C19_early.lean — cancellable<Sender, true> (StopsEarly): start() on T0, natural completion on T1 (thread A),
  stop request on T2 (thread B); the receiver destroys the operation state when it is completed.
-/
import UnifexModel.Props.C19

namespace Unifex.Props.C19.Cancellable
open Unifex.Core Unifex.Proto.Cancellable

/-- every schedule: one winner, try_complete true once, hook at most once and never before start(),
    done only through the hook, no deadlock, completed exactly once at the end -/
theorem c_early_core : ∀ s, Reach (sys cfgEarly) s → core cfgEarly s = true :=
  safe_of_check _ { coded with M := 2039 } 400 _ (by decide +kernel)

/-- `one_winner` for the three-party race -/
theorem c_early_one_winner :
    ∀ s, Reach (sys cfgEarly) s → s.completions ≤ 1 ∧ s.tcTrue ≤ 1 ∧ (final cfgEarly s = true → s.completions = 1) :=
  one_winner cfgEarly c_early_core

theorem c_early_stop_hook_at_most_once :
    ∀ s, Reach (sys cfgEarly) s → s.hookRuns ≤ 1 ∧ s.nestedStarts ≤ 1 ∧ s.startAfterHook = false :=
  stop_hook_at_most_once cfgEarly c_early_core

/-- FINDING D1 (negation of `no_touch_after_winner` for this instance): start() performs
    `state_.fetch_or(started)` after thread A's completion destroyed the op state. -/
theorem c_early_touch_after_free : ∃ s, Reach (sys cfgEarly) s ∧ (decide (s.bad = 1) && s.freed) = true :=
  reach_of_choices _ [0, 0, 0, 0, 0, 1, 1, 1, 1, 1, 1, 0] _ (by decide +kernel)

/-- FINDING D2: stop requested after the StopsEarly load; start() observes `stopped` in `fetch_or(started)` and then calls
    the stop() hook with nothing preventing thread A from completing (and the receiver from
    destroying the op) in between: the hook is entered on a destroyed operation. -/
theorem c_early_hook_on_completed_op :
    ∃ s, Reach (sys cfgEarly) s ∧ (decide (s.bad = 2) && s.freed && decide (s.completions = 1)) = true :=
  reach_of_choices _ [0, 0, 0, 1, 1, 1, 1, 1, 1, 0, 0, 0, 1, 1, 1, 1, 1, 0] _ (by decide +kernel)

/-- in every schedule the stop() hook is only called for an operation whose completion nobody has
    claimed (the deciding atomic operation observed `state_` without the `completed` bit) -/
theorem c_early_stop_hook_only_unclaimed : ∀ s, Reach (sys cfgEarly) s → s.hookLate = false :=
  stop_hook_only_unclaimed cfgEarly c_early_core

end Unifex.Props.C19.Cancellable
