/-
  Props/C15_v2f.lean — property C15, v2 async_mutex, part f: unlock() racing with the start() of an
  async_lock (the Dekker window: the waiter's push_back lands between the unlocker's pop_front and
  its `queue_.empty()` re-check, so the unlocker has to re-acquire `locked_` before handing over)
  while a third thread probes with try_lock.
  ONLY property theorems; model: Proto/MutexV2.lean; `safeFull` is spelled out in C15_v2a.
-/
import UnifexModel.Proto.MutexV2

namespace Unifex.Props.C15
open Unifex.Core Unifex.Proto.MutexV2

/-- full property; in particular `holders ≤ 1`: the prober's try_lock never succeeds while the
    waiter handed over inside the Dekker window owns the lock -/
theorem v2_unlock_race_try_safe : ∀ s, Reach (sys cfgUnlockRaceTry) s → safeFull cfgUnlockRaceTry s = true :=
  safe_of_check _ { coded with M := 521, W := 200 } 400 _ (by decide +kernel)

end Unifex.Props.C15
