/-
  Props/C07_TwoCancel.lean — property C07, the largest Proto/TimerOp instance: two timers with
  equal due times, the second one cancelled remotely while the first is queued / being executed.
  ONLY property theorems + a non-vacuity example.  `safe`: see `Props.C07.safe_spelled`.
-/
import UnifexModel.Proto.TimerOp

namespace Unifex.Props.C07_TwoCancel
open Unifex.Core Unifex.Proto.TimerOp

theorem two_cancel_safe : ∀ s, Reach (sys cfgTwoCancel) s → safe cfgTwoCancel s = true :=
  safe_of_check _ { coded with M := 2039 } 400 _ (by decide +kernel)

/-- non-vacuity: the cancelled second timer overtakes the first: a state is reachable at time 0 in
    which item 1 has completed and item 0 (same original due time, submitted earlier) has not. -/
def overtakeWitness : List Nat := [0, 0, 0, 2, 2, 1, 0, 0, 0, 0, 0]

example : ∃ s, Reach (sys cfgTwoCancel) s ∧ s.now = 0 ∧ (getIt s 1).completions = 1 ∧
    (getIt s 0).completions = 0 := by
  have h : (match runChoices (sys cfgTwoCancel) (sys cfgTwoCancel).init overtakeWitness with
      | some (_, s) => decide (s.now = 0) && decide ((getIt s 1).completions = 1) &&
          decide ((getIt s 0).completions = 0)
      | none => false) = true := by decide +kernel
  cases hr : runChoices (sys cfgTwoCancel) (sys cfgTwoCancel).init overtakeWitness with
  | none => simp [hr] at h
  | some p =>
    obtain ⟨ls, s⟩ := p
    simp only [hr, Bool.and_eq_true, decide_eq_true_eq] at h
    exact ⟨s, runChoices_reach _ _ _ _ _ Reach.init hr, h.1.1, h.1.2, h.2⟩

end Unifex.Props.C07_TwoCancel
