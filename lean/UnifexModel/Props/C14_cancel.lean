/-
  Props/C14_cancel.lean — property C14, part 2b: async read / write on io_epoll_context with
  cancellation and with syscalls that fail with a real errno (model Proto/EpollOp.lean).

  `*_safe`: what the code guarantees also here — every operation completes at most once and, by the
  end, exactly once; a value is the byte count of the successful syscall; done only after a stop
  request; nothing waits forever.  INSTANCE theorems (kernel-evaluated closure, all schedules).

  `*_VIOLATES_*`: the three places where the code as it is breaks C14, each proved on the model
  with an explicit witness schedule or for all schedules of the instance; each is reproduced on the
  real code by the scenario of the same name in harness/rt/scn_c14.cpp.
-/
import UnifexModel.Proto.EpollOp

namespace Unifex.Props.C14
open Unifex.Core Unifex.Proto.EpollOp

theorem rd_cancel_parked_safe : ∀ s, Reach (sys cfgRdCancelParked) s → safe cfgRdCancelParked s = true :=
  safe_of_check _ { coded with M := 331 } 400 _ (by decide +kernel)

theorem wr_cancel_parked_safe : ∀ s, Reach (sys cfgWrCancelParked) s → safe cfgWrCancelParked s = true :=
  safe_of_check _ { coded with M := 251, W := 192 } 400 _ (by decide +kernel)

/-- existence of a reachable state, from an explicit schedule checked by the kernel -/
theorem witness (cfg : Config) (cs : List Nat) (good : St → Bool)
    (h : (match runChoices (sys cfg) (sys cfg).init cs with | some (_, s) => good s | none => false) = true) :
    ∃ s, Reach (sys cfg) s ∧ good s = true := by
  cases hr : runChoices (sys cfg) (sys cfg).init cs with
  | none => simp [hr] at h
  | some p =>
    obtain ⟨ls, s⟩ := p
    simp only [hr] at h
    exact ⟨s, runChoices_reach _ _ _ _ _ Reach.init hr, h⟩

/-- VIOLATION (no touch after completion).  `complete_with_done` does not destruct
    `stopCallback_`: there is a schedule of `rd_cancel_parked` in which the operation has completed
    with done and has been destroyed by its receiver when `inplace_stop_source::request_stop`
    (still running on the cancelling thread) stores `callbackCompleted_` into the callback object
    that lives inside the operation state. -/
theorem cancel_parked_VIOLATES_no_touch_after_completion :
    ∃ s, Reach (sys cfgRdCancelParked) s ∧
      ((getOp s 0).outcome == 2 && (getOp s 0).freed && s.bad == 1) = true :=
  witness cfgRdCancelParked [0, 0, 0, 0, 0, 0, 0, 0, 0, 0, 0, 0, 0, 0, 1, 1, 1, 1, 1, 0, 0, 0, 0, 2] _
    (by decide +kernel)

/-- VIOLATION (a cancelled operation leaves no registration), ALL schedules of
    `rd_cancel_before_start`: the stop callback runs inline inside `stopCallback_.construct`, before
    `epoll_ctl(ADD)`; once the operation has completed (with done) the kernel still holds the
    registration pointing to it — until it delivers an event for the dead operation (`bad = 2`).
    Hence no final state is clean. -/
theorem cancel_before_start_VIOLATES_no_registration_left :
    ∀ s, Reach (sys cfgRdCancelBeforeStart) s →
      (((getOp s 0).completions == 0 || s.reg == 1 || s.bad == 2) &&
       (!final cfgRdCancelBeforeStart s || !clean cfgRdCancelBeforeStart s) &&
       safe cfgRdCancelBeforeStart s) = true :=
  safe_of_check _ { coded with M := 251 } 400 _ (by decide +kernel)

/-- … and a complete run in which the kernel does deliver the event for the dead operation. -/
theorem cancel_before_start_VIOLATES_no_stale_event :
    ∃ s, Reach (sys cfgRdCancelBeforeStart) s ∧ (final cfgRdCancelBeforeStart s && s.bad == 2) = true :=
  witness cfgRdCancelBeforeStart
    [0, 0, 0, 0, 0, 0, 0, 0, 0, 0, 0, 0, 0, 0, 0, 0, 0, 0, 0, 0, 0, 0, 0, 0, 0, 0, 0, 0, 0, 0, 1, 1, 0, 0, 0, 0, 0, 0,
     0, 0, 0, 0, 0, 0, 0] _ (by decide +kernel)

/-- VIOLATION (with the OS error), ALL schedules of `rd_error_start`: the first readv fails with
    EIO (errno 5); `-1 == -EPERM` sends the operation down the "would block" path; it never
    completes with an error — it stays parked until it is cancelled. -/
theorem error_start_VIOLATES_os_error :
    ∀ s, Reach (sys cfgRdErrorStart) s →
      ((getOp s 0).outcome != 3 && safe cfgRdErrorStart s) = true :=
  safe_of_check _ { coded with M := 251, W := 192 } 400 _ (by decide +kernel)

/-- … the parked state: the syscall failed with errno 5, everything scheduled before the fence has
    run, the loop is blocked in epoll_wait, the operation has not completed. -/
theorem error_start_VIOLATES_is_parked :
    ∃ s, Reach (sys cfgRdErrorStart) s ∧
      ((getOp s 0).sysErr == 5 && s.fences == 1 && (getOp s 0).completions == 0 && s.reg == 1 && s.lpc == 3) = true :=
  witness cfgRdErrorStart [0, 0, 0, 0, 0, 0, 0, 0, 0, 0, 0, 0, 1, 1] _ (by decide +kernel)

/-- VIOLATION (with the OS error), ALL schedules of `rd_error_retry`: the readv after readiness
    fails with EIO (errno 5); whenever the operation has completed it has completed with
    error 1 (EPERM = `-int(-1)`), never with errno 5.  (`safe` and `clean` hold.) -/
theorem error_retry_VIOLATES_os_error :
    ∀ s, Reach (sys cfgRdErrorRetry) s →
      (((getOp s 0).completions == 0 ||
          ((getOp s 0).outcome == 3 && (getOp s 0).val == 1 && (getOp s 0).sysErr == 5)) &&
       safe cfgRdErrorRetry s && clean cfgRdErrorRetry s) = true :=
  safe_of_check _ { coded with M := 127, W := 192 } 400 _ (by decide +kernel)

theorem error_retry_VIOLATES_completes :
    ∃ s, Reach (sys cfgRdErrorRetry) s ∧ ((getOp s 0).completions == 1 && !errTrue s) = true :=
  witness cfgRdErrorRetry (List.replicate 24 0) _ (by decide +kernel)

end Unifex.Props.C14
