/-
  Props/C14_cancel.lean — property C14, part 2b: async read / write on io_epoll_context with
  cancellation (model Proto/EpollOp.lean, which follows the code WITH the cancellation repair of
  tools/checks/c14_repair.patch): cancel while parked + reuse of the descriptor, stop requested
  before start + reuse, cancel of a parked write.
  INSTANCE theorems (kernel-evaluated closure, all schedules): `good` = `safe ∧ clean ∧ errTrue`,
  in particular: completes exactly once (done), the operation state is not touched after the
  completion (`complete_with_done` waits for `request_stop` to leave the stop callback), no epoll
  registration survives the operation, the kernel never reports a completed operation, the later
  read on the same descriptor gets exactly the bytes written later.
  (Before the repair the same instances had reachable states with `bad = 1` / `bad = 2` and final
  states with a registration left; the harness scenarios of the same names still watch for that.)
-/
import UnifexModel.Props.C14_ops

namespace Unifex.Props.C14
open Unifex.Core Unifex.Proto.EpollOp

theorem rd_cancel_parked_ok : ∀ s, Reach (sys cfgRdCancelParked) s → good cfgRdCancelParked s = true :=
  safe_of_check _ { coded with M := 251 } 400 _ (by decide +kernel)

theorem rd_cancel_before_start_ok : ∀ s, Reach (sys cfgRdCancelBeforeStart) s → good cfgRdCancelBeforeStart s = true :=
  safe_of_check _ { coded with M := 251 } 400 _ (by decide +kernel)

theorem wr_cancel_parked_ok : ∀ s, Reach (sys cfgWrCancelParked) s → good cfgWrCancelParked s = true :=
  safe_of_check _ { coded with M := 251, W := 192 } 400 _ (by decide +kernel)

/-- non-vacuity: the cancelled read completes with done, the later read gets the 4 bytes. -/
theorem rd_cancel_parked_completes : ∃ s, Reach (sys cfgRdCancelParked) s ∧
    (final cfgRdCancelParked s && (getOp s 0).outcome == 2 && (getOp s 1).outcome == 1 && (getOp s 1).val == 4) = true :=
  witness cfgRdCancelParked
    [0, 0, 0, 0, 0, 0, 0, 0, 0, 0, 0, 0, 0, 0, 1, 1, 1, 1, 1, 0, 0, 0, 0, 0, 0, 0, 0, 0, 0, 1, 0, 0, 0, 0, 0, 0, 0, 0,
     0, 0, 0, 0, 0] _ (by decide +kernel)

/-- non-vacuity: stop before start — the callback runs inline in `stopCallback_.construct`
    (`cb = 5`), the operation completes with done, no registration is left, the later read works. -/
theorem rd_cancel_before_start_completes : ∃ s, Reach (sys cfgRdCancelBeforeStart) s ∧
    (final cfgRdCancelBeforeStart s && (getOp s 0).outcome == 2 && (getOp s 0).cb == 5 &&
     (getOp s 1).val == 4 && s.reg == 0) = true :=
  witness cfgRdCancelBeforeStart (List.replicate 44 0) _ (by decide +kernel)

theorem wr_cancel_parked_completes : ∃ s, Reach (sys cfgWrCancelParked) s ∧
    (final cfgWrCancelParked s && (getOp s 0).outcome == 2) = true :=
  witness cfgWrCancelParked
    [0, 0, 0, 0, 0, 0, 0, 0, 0, 0, 0, 0, 0, 0, 1, 1, 1, 1, 1, 0, 0, 0, 0, 0, 0, 0, 0, 0, 0, 0, 0, 0] _ (by decide +kernel)

end Unifex.Props.C14
