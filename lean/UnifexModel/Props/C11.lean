/-
  Props/C11.lean — property C11: completions happen on the promised context; the static sender
  traits (blocking, is_always_scheduler_affine, sends_done) are sound.
  ONLY property theorems + witnesses.  Model: Calc/Ctx.lean (semantics + the trait functions
  transcribed from the C++), helper lemmas: Calc/CtxLemmas.lean.

  All theorems quantify over EVERY expression of the calculus, every leaf script `specs`, every
  scheduler in scope `cur` and EVERY sequence of external events (including inapplicable ones).
  An observation `obs ∈ runX …` is what processing ONE external event showed; everything in it
  happened on context `obs.ctx = obs.ev.ctx` (the harness's current context).
-/
import UnifexModel.Calc.CtxLemmas

namespace Unifex.Props.C11
open Unifex.Ctx

variable (specs : Nat → LeafSpec)

/-! ### 1. via / typed_via: the result is delivered by the scheduler's context -/

/-- **The root signal of `via(e, s)` (s = manual scheduler of context c) is emitted only while
    context `c` is executing a queued item** — never inside start(), never inside the event that
    completes a leaf of `e` on a foreign context, never inside a stop request. -/
theorem via_completes_on_scheduler (cur : Sched) (c j : Nat) (e : Expr) (xs : List XEv) :
    ∀ obs ∈ runX specs (initSt cur (via (.man c) j e)) xs,
      obs.sig.isSome = true → (∃ l, obs.ev = .run c l) ∧ obs.ctx = c := by
  have key := runX_induct specs
    (fun op => ∃ x, op.skel = .bin .fin x (.sched (.man c) j)) (fun _ => True)
    (fun x _ sig => sig.isSome = true → ∃ l, x = .run c l)
    (by intro x h; simp at h)
    (by
      intro op x ev ⟨y, hy⟩ _ hm
      refine ⟨⟨y, by rw [skel_deliver]; exact hy⟩, ?_⟩
      intro hsig
      cases hs : (deliver specs (op.height + 1) ev op).2.2 with
      | none => rw [hs] at hsig; simp at hsig
      | some o =>
        have hev := via_signal specs _ ev op y c j o hy hs
        subst hev
        cases x <;> simp [XEv.Matches] at hm
        rename_i k l
        exact ⟨l, by rw [hm]⟩)
  intro obs hobs hsig
  have := key xs (initSt cur (via (.man c) j e)) ⟨_, rfl⟩ (fun _ _ => trivial) obs hobs
  obtain ⟨l, hl⟩ := this.1 hsig
  exact ⟨⟨l, hl⟩, by rw [this.2, hl]; rfl⟩

/-- typed_via is via (typed_via.hpp:22) -/
theorem typed_via_completes_on_scheduler (cur : Sched) (c j : Nat) (e : Expr) (xs : List XEv) :
    ∀ obs ∈ runX specs (initSt cur (typedVia (.man c) j e)) xs,
      obs.sig.isSome = true → (∃ l, obs.ev = .run c l) ∧ obs.ctx = c :=
  via_completes_on_scheduler specs cur c j e xs

/-! ### 2. on: the child is started by the scheduler's context -/

/-- **As long as context `c` has not executed an item, nothing of `e` in `on(s_c, e)` has happened**:
    no leaf of `e` was started or notified, nothing but `on`'s own schedule item was enqueued, no
    completion was signalled.  (So the start() of `e`, and with it every leaf `e` starts from its
    start(), happens inside a `run c` event, i.e. on context c.) -/
theorem on_starts_on_scheduler (cur : Sched) (c j : Nat) (e : Expr) (xs : List XEv)
    (hx : ∀ x ∈ xs, ∀ l, x ≠ .run c l) :
    ∀ obs ∈ runX specs (initSt cur (on (.man c) j e)) xs,
      (∀ o ∈ obs.outs, o = .enq c j) ∧ obs.sig = none := by
  have key := runX_induct specs (OnWaiting c j) (fun x => ∀ l, x ≠ .run c l)
    (fun _ outs sig => (∀ o ∈ outs, o = .enq c j) ∧ sig = none)
    (by intro x; simp)
    (by
      intro op x ev hw hA hm
      have hev : ev ≠ .fire c j := by
        intro h; subst h
        cases x <;> simp [XEv.Matches] at hm
        rename_i k l
        exact hA l (by rw [hm])
      obtain ⟨ph, ss, b, st, rfl, hsec⟩ := hw
      have := on_waiting_step specs c j (max (Op.sched (.man c) j ph ss).height b.height) ev _
        ⟨ph, ss, b, st, rfl, hsec⟩ hev
      simpa [Op.height] using this)
  intro obs hobs
  exact (key xs (initSt cur (on (.man c) j e)) ⟨.idle, false, _, _, rfl, rfl⟩ hx obs hobs).1

/-- one-step form, from ANY state in which `on`'s schedule operation has not completed (whatever
    happened before, including context c running OTHER items): an event that is not `run c` leaves it
    waiting, shows nothing of the child, signals nothing.  Contrapositive: the transition that
    starts the child happens inside a `run c` event. -/
theorem on_child_started_only_by_run (c j : Nat) (st : St) (x : XEv)
    (hw : OnWaiting c j st.op) (hx : ∀ l, x ≠ .run c l) :
    OnWaiting c j (step specs st x).1.op ∧
    (∀ o ∈ (step specs st x).2.outs, o = .enq c j) ∧ (step specs st x).2.sig = none := by
  obtain ⟨_, _, hsp⟩ := step_spec specs st x
  rcases hsp with ⟨hop, houts, hsig⟩ | ⟨ev, hm, hop, houts, hsig⟩
  · rw [hop, houts, hsig]; exact ⟨hw, by simp, rfl⟩
  · have hev : ev ≠ .fire c j := by
      intro h; subst h
      cases x with
      | run k l =>
        simp [XEv.Matches] at hm
        exact hx l (by rw [hm])
      | _ => simp [XEv.Matches] at hm
    obtain ⟨ph, ss, b, st', hshape, hsec⟩ := hw
    have := on_waiting_step specs c j (max (Op.sched (.man c) j ph ss).height b.height) ev _
      ⟨ph, ss, b, st', rfl, hsec⟩ hev
    rw [hop, houts, hsig, hshape]
    simpa [Op.height] using this

/-- inside `on(s, e)` the child's receiver answers get_scheduler with `s`: a `schedule()` in `e`
    enqueues on s's context -/
theorem on_child_sees_scheduler (cur s : Sched) (j j' : Nat) :
    connect cur (on s j (.schedCur j')) =
      .bin .seq (.sched s j .idle false) (.un (.withSched s) (.sched s j' .idle false) .idle Env.dflt) BinSt.init := rfl

/-! ### 3. blocking: always_inline / always -/

/-- **A sender whose declared blocking kind is `always` or `always_inline` delivers its completion
    signal while start() is being processed, on the context that called start()** — whatever the
    stop state, the leaf scripts, the scheduler in scope. -/
theorem sync_sound (cur : Sched) (e : Expr) (k : Nat) (xs : List XEv)
    (h : (blocking e).sync = true) :
    ∃ obs rest, runX specs (initSt cur e) (.start k :: xs) = obs :: rest ∧
      obs.ev = .start k ∧ obs.ctx = k ∧ obs.sig.isSome = true := by
  refine ⟨_, _, rfl, ?_, ?_, ?_⟩
  · simp [step, initSt, St.apply]
  · simp [step, initSt, St.apply, XEv.ctx]
  · simp only [step, initSt, St.apply]
    exact start_signals specs e cur _ _ h (by omega)

theorem always_inline_sound (cur : Sched) (e : Expr) (k : Nat) (xs : List XEv)
    (h : blocking e = .alwaysInline) :
    ∃ obs rest, runX specs (initSt cur e) (.start k :: xs) = obs :: rest ∧
      obs.ev = .start k ∧ obs.ctx = k ∧ obs.sig.isSome = true :=
  sync_sound specs cur e k xs (by rw [h]; rfl)

theorem always_sound (cur : Sched) (e : Expr) (k : Nat) (xs : List XEv)
    (h : blocking e = .always) :
    ∃ obs rest, runX specs (initSt cur e) (.start k :: xs) = obs :: rest ∧
      obs.ev = .start k ∧ obs.ctx = k ∧ obs.sig.isSome = true :=
  sync_sound specs cur e k xs (by rw [h]; rfl)

/-! ### 4. sends_done -/

/-- the semantic version: with dematerialize∘materialize counted as sending done iff its source does -/
theorem sends_done_sem_sound (cur : Sched) (e : Expr) (xs : List XEv) (h : sdSem e = false) :
    ∀ obs ∈ runX specs (initSt cur e) xs, obs.sig ≠ some .done := by
  have key := runX_induct specs (fun op => ND op ∧ sdSem op.skel = false) (fun _ => True)
    (fun _ _ sig => sig ≠ some .done)
    (by intro x; simp)
    (by
      intro op x ev ⟨hn, hs⟩ _ _
      have := nd_deliver specs (op.height + 1) ev op hn
      exact ⟨⟨this.1, by rw [skel_deliver]; exact hs⟩, this.2 hs⟩)
  intro obs hobs
  exact (key xs (initSt cur e) ⟨ND_connect e cur, by rw [initSt, sdSem_connect]; exact h⟩
    (fun _ _ => trivial) obs hobs).1

/-- **A sender that declares `sends_done = false` never completes with done** — every expression,
    every leaf script, every event sequence. -/
theorem sends_done_false_sound (cur : Sched) (e : Expr) (xs : List XEv) (h : sendsDone e = false) :
    ∀ obs ∈ runX specs (initSt cur e) xs, obs.sig ≠ some .done :=
  sends_done_sem_sound specs cur e xs (sdSem_le_sendsDone e h)

/-- dematerialize(materialize(e)) declares exactly what `e` declares (dematerialize.hpp: its source's
    flag OR `materializes_done<Source>`; materialize.hpp publishes its source's flag as
    `materializes_done`) — which is what makes `sends_done_false_sound` hold without exception:
    `dematerialize(materialize(just_done()))` completes with done and declares it,
    `dematerialize(materialize(just(1)))` does neither. -/
theorem dematerialize_declares_source (e : Expr) : sendsDone (.un .matDemat e) = sendsDone e := rfl

/-! ### 5. is_always_scheduler_affine -/

/-- **A sender that declares `is_always_scheduler_affine`, connected to a receiver whose scheduler is
    the manual scheduler of context c, started on c, with every stop request issued on c, emits its
    completion signal on context c** — provided the expression is `Scoped`: each
    with_scheduler_affinity(e, s) that is not below another one is called with the receiver's
    scheduler (the contract of with_scheduler_affinity). -/
theorem affine_sound (c : Nat) (e : Expr) (xs : List XEv)
    (ha : affine e = true) (hs : Scoped (.man c) e = true)
    (hstart : ∀ k, .start k ∈ xs → k = c) (hstop : ∀ k, .stop k ∈ xs → k = c) :
    ∀ obs ∈ runX specs (initSt (.man c) e) xs, obs.sig.isSome = true → obs.ctx = c := by
  have key := runX_induct specs (fun op => affOk c op.skel = true)
    (fun x => (∀ k, x = .start k → k = c) ∧ (∀ k, x = .stop k → k = c))
    (fun x _ sig => sig.isSome = true → x.ctx = c)
    (by intro x h; simp at h)
    (by
      intro op x ev hok hA hm
      refine ⟨by rw [skel_deliver]; exact hok, ?_⟩
      intro hsig
      have hnf : ev.foreign c = false := by
        cases hf : ev.foreign c with
        | false => rfl
        | true => rw [foreign_silent specs c _ ev op hf hok] at hsig; simp at hsig
      cases x with
      | start k => exact hA.1 k rfl
      | stop k => exact hA.2 k rfl
      | complete i o k => simp only [XEv.Matches] at hm; subst hm; simp [Ev.foreign] at hnf
      | run k l =>
        obtain ⟨j, hj⟩ := hm
        subst hj
        simpa [Ev.foreign, XEv.ctx] using hnf)
  intro obs hobs hsig
  have := key xs (initSt (.man c) e) (affOk_connect c e ha hs)
    (fun x hx => ⟨fun k hk => hstart k (hk ▸ hx), fun k hk => hstop k (hk ▸ hx)⟩) obs hobs
  rw [this.2]; exact this.1 hsig

/-- with_query_value(e, get_scheduler, s) is never declared affine (with_query_value.hpp): `e` is
    affine to the scheduler it is GIVEN, not to the scheduler of the receiver -/
theorem with_query_value_not_affine (s : Sched) (e : Expr) : affine (.un (.withSched s) e) = false := rfl

/-- hence on(s, e) = sequence(schedule(s), with_query_value(e, get_scheduler, s)) is never declared
    affine either -/
theorem on_not_affine (s : Sched) (j : Nat) (e : Expr) : affine (on s j e) = false := by
  simp [on, affine]

/-- so with_scheduler_affinity does not take such a sender for affine: it wraps it, and the result
    is delivered on the receiver's scheduler's context — for every expression `e`, scheduler `s2`,
    leaf script and event sequence (instance of `affine_sound`) -/
theorem with_affinity_rehops_replaced_scheduler (c j : Nat) (s2 : Sched) (e : Expr) (xs : List XEv)
    (hstart : ∀ k, .start k ∈ xs → k = c) (hstop : ∀ k, .stop k ∈ xs → k = c) :
    ∀ obs ∈ runX specs (initSt (.man c) (withAffinity (.man c) j (.un (.withSched s2) e))) xs,
      obs.sig.isSome = true → obs.ctx = c :=
  affine_sound specs c _ xs (by simp [withAffinity, affine]) (by simp [withAffinity, affine, Scoped])
    hstart hstop

/-! ### 6. Non-vacuity -/

/-- via hops: leaf completed on context 3, result delivered on context 2 -/
example :
    (runX (fun _ => .pending .ignore) (initSt (.man 0) (via (.man 2) 5 (.leaf 1)))
        [.start 0, .complete 1 (.value 4) 3, .run 2 false]).map (fun o => (o.ctx, o.sig))
      = [(0, none), (3, none), (2, some (.value 4))] := by decide

/-- with_scheduler_affinity hops back to the receiver's scheduler; declared affine, Scoped -/
example :
    affine (withAffinity (.man 0) 7 (.leaf 1)) = true ∧ Scoped (.man 0) (withAffinity (.man 0) 7 (.leaf 1)) = true ∧
    (runX (fun _ => .pending .ignore) (initSt (.man 0) (withAffinity (.man 0) 7 (.leaf 1)))
        [.start 0, .complete 1 (.value 4) 3, .run 0 false]).map (fun o => (o.ctx, o.sig))
      = [(0, none), (3, none), (0, some (.value 4))] := by decide

/-- with_query_value(schedule(), get_scheduler, s2) completes on s2's context (declared non-affine);
    wrapped by with_scheduler_affinity it comes back to context 0 -/
example :
    (runX (fun _ => .inline (.value 0)) (initSt (.man 0) (.un (.withSched (.man 2)) (.schedCur 1)))
        [.start 0, .run 2 false]).map (fun o => (o.ctx, o.sig)) = [(0, none), (2, some (.value 0))] ∧
    (runX (fun _ => .inline (.value 0)) (initSt (.man 0) (withAffinity (.man 0) 7 (.un (.withSched (.man 2)) (.schedCur 1))))
        [.start 0, .run 2 false, .run 0 false]).map (fun o => (o.ctx, o.sig))
      = [(0, none), (2, none), (0, some (.value 0))] := by decide

/-- dematerialize(materialize(just_done())) completes with done — and declares it -/
example :
    sendsDone (.un .matDemat (.const .justDone)) = true ∧
    (runX (fun _ => .inline (.value 0)) (initSt (.man 0) (.un .matDemat (.const .justDone))) [.start 0]).map (·.sig)
      = [some .done] := by decide

/-- an expression whose declared blocking kind is `always` (not always_inline) -/
example : blocking (.bin .whenAll (.sleaf 1) (.const (.just 2))) = .always := by decide

end Unifex.Props.C11
