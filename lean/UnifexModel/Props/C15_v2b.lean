/-
  Props/C15_v2b.lean — property C15, v2 async_mutex, part b: the inline scheduler
  (Dekker window between push_back and the release of `locked_`, try_lock races, the uncontended
  path of start() with a stop request).  ONLY property theorems; model: Proto/MutexV2.lean;
  `safe` is spelled out in C15_v2a.v2_safe_spelled.
-/
import UnifexModel.Proto.MutexV2

namespace Unifex.Props.C15
open Unifex.Core Unifex.Proto.MutexV2

/-- two async_lock racing on a free mutex: full property -/
theorem v2_race_inline_safe : ∀ s, Reach (sys cfgRaceInline) s → (safe cfgRaceInline s && noHazard s) = true :=
  safe_of_check _ { coded with M := 1021 } 400 _ (by decide +kernel)

/-- async_lock racing with try_lock: full property -/
theorem v2_race_try_safe : ∀ s, Reach (sys cfgRaceTry) s → (safe cfgRaceTry s && noHazard s) = true :=
  safe_of_check _ { coded with M := 509 } 400 _ (by decide +kernel)

/-- uncontended start() with a stop request at any time, inline scheduler -/
theorem v2_inline_stop_safe_partial : ∀ s, Reach (sys cfgInlineStop) s → safe cfgInlineStop s = true :=
  safe_of_check _ { coded with M := 251 } 400 _ (by decide +kernel)

end Unifex.Props.C15
