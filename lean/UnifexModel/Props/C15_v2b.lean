/-
  Props/C15_v2b.lean — property C15, v2 async_mutex, part b: the inline scheduler on a free mutex
  (Dekker window between push_back and the release of `locked_`; async_lock vs try_lock).
  ONLY property theorems; model: Proto/MutexV2.lean; `safeFull` is spelled out in
  C15_v2a (`v2_safe_spelled`, `v2_safeFull_spelled`).
-/
import UnifexModel.Proto.MutexV2

namespace Unifex.Props.C15
open Unifex.Core Unifex.Proto.MutexV2

/-- two async_lock racing on a free mutex -/
theorem v2_race_inline_safe : ∀ s, Reach (sys cfgRaceInline) s → safeFull cfgRaceInline s = true :=
  safe_of_check _ { coded with M := 821, W := 272 } 400 _ (by decide +kernel)

/-- async_lock racing with try_lock -/
theorem v2_race_try_safe : ∀ s, Reach (sys cfgRaceTry) s → safeFull cfgRaceTry s = true :=
  safe_of_check _ { coded with M := 347, W := 200 } 400 _ (by decide +kernel)

end Unifex.Props.C15
