/-
  Props/C07_EpollRace2.lean — property C07, io_epoll_context timers: the remote-cancel election in
  general position: the stop request may come at ANY moment relative to start_remote, start_local
  (before / between / after `stop_requested()` and the callback construction), the expiry, the
  clock.  The largest EpollTimer instance (968 states).  ONLY property theorems.
  `safe`: see `Props.C07_Epoll.safe_spelled`.
-/
import UnifexModel.Proto.EpollTimer

namespace Unifex.Props.C07_EpollRace2
open Unifex.Core Unifex.Proto.EpollTimer

theorem ep_remote_cancel_safe : ∀ s, Reach (sys cfgRemoteCancel) s → safe cfgRemoteCancel s = true :=
  safe_of_check _ { coded with M := 2039 } 400 _ (by decide +kernel)

end Unifex.Props.C07_EpollRace2
