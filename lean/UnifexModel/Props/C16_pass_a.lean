/-
  Props/C16_pass_a.lean — property C16, async_pass: instance theorem by reflection (split from
  Props/C16_pass.lean so that the kernel evaluations run in parallel).
-/
import UnifexModel.Proto.AsyncPass
import UnifexModel.Lemmas.ReflectFast

namespace Unifex.Props.C16
open Unifex.Core Unifex.Proto.AsyncPass

/-- the call can be cancelled while it races with the accept; T0 releases the acceptor if it is left waiting: `safe` and `faithful` in every reachable
    state — `call_value_iff_accepted` in both directions (value ⇔ handed over, a stop request that
    arrives after the hand-over no longer turns the rescheduled completion into done),
    cancelled ⇒ arguments untouched, `cancel_leaves_other_waiting` (no deadlock, everybody
    completes exactly once). -/
theorem pass_cancel_call_safe_inst : ∀ s, Reach (sys cfgCancelCall) s → (safe cfgCancelCall s && faithful s) = true :=
  safe_of_checkC _ { coded with M := 1549, W := 192 } 400 _ (by decide +kernel)

end Unifex.Props.C16
