/-
  Props/C01_AtomicSW.lean — property C01 at the schedule level for `stop_when` (Proto/StopWhen.lean):
  instance theorems by kernel-evaluated reflection (fixed parties: source, trigger, stop thread), every
  schedule of unbounded length.  ONLY property theorems + non-vacuity examples.
  (Separate file so that it builds in parallel with Props/C01_Atomic.lean.)
-/
import UnifexModel.Lemmas.Witness
import UnifexModel.Proto.StopWhen

namespace Unifex.Props.C01AtomicSW
open Unifex.Core

section StopWhenInstances
open Unifex.Proto.StopWhen

/-- What the stop_when `safe` says, spelled out (C01 part). -/
theorem sw_safe_spelled (cfg : Config) (s : St) (h : safe cfg s = true) :
    s.bad = 0
    ∧ s.delivered ≤ 1
    ∧ (s.delivered = 0 ∨ ∀ c ∈ s.ch, c.ph = .fin)
    ∧ (((sys cfg).next s).isEmpty = true → final cfg s = true)
    -- exactly once at the end, and the result is the source's
    ∧ (final cfg s = true →
        s.delivered = 1 ∧ s.result = some (outRes (s.ch.getD 0 Child.init).out)) := by
  unfold safe at h
  simp only [Bool.and_eq_true, decide_eq_true_eq, List.all_eq_true, Bool.or_eq_true, Bool.not_eq_true'] at h
  obtain ⟨⟨⟨⟨⟨⟨⟨⟨⟨h1, h2⟩, h3⟩, _⟩, _⟩, h6⟩, h7⟩, _⟩, _⟩, _⟩ := h
  refine ⟨h1, h2, ?_, ?_, ?_⟩
  · rcases h3 with h3 | h3
    · exact .inl h3
    · exact .inr h3
  · intro hd
    rcases h6 with h6 | h6
    · simp [hd] at h6
    · exact h6
  · intro hf
    rcases h7 with h7 | h7
    · simp [hf] at h7
    · exact h7

theorem sw_race_safe : ∀ s, Reach (sys cfgSwRace) s → safe cfgSwRace s = true :=
  safe_of_check _ { coded with M := 151, W := 112 } 400 _ (by decide +kernel)

theorem sw_mix_safe : ∀ s, Reach (sys cfgSwMix) s → safe cfgSwMix s = true :=
  safe_of_check _ { coded with M := 421, W := 112 } 400 _ (by decide +kernel)

theorem sw_trigger_safe : ∀ s, Reach (sys cfgSwTrigger) s → safe cfgSwTrigger s = true :=
  safe_of_check _ { coded with M := 31, W := 112 } 400 _ (by decide +kernel)

theorem sw_src_err_safe : ∀ s, Reach (sys cfgSwSrcErr) s → safe cfgSwSrcErr s = true :=
  safe_of_check _ { coded with M := 31, W := 112 } 400 _ (by decide +kernel)

end StopWhenInstances

section NonVacuity
open Unifex.Proto

/-- stop_when: the trigger fires, the source is stopped and its `done` is the result. -/
example : ∃ s, Reach (StopWhen.sys StopWhen.cfgSwTrigger) s ∧
    (decide (s.delivered = 1) && decide (s.result = some .done) && StopWhen.final StopWhen.cfgSwTrigger s) = true :=
  reach_of_runSat _ [0, 0, 0, 0, 0, 0, 0, 0, 0, 0, 0] _ (by decide +kernel)

end NonVacuity

end Unifex.Props.C01AtomicSW
