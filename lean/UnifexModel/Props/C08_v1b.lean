/-
  Props/C08_v1b.lean — property C08 for v1: request_stop() racing with admission/start of an
  operation (the attach callback is registered while, or after, the stop source notifies), followed
  by complete().  Separate file so that it builds in parallel.
-/
import UnifexModel.Proto.ScopeV1

namespace Unifex.Props.C08_v1b
open Unifex.Core Unifex.Proto.ScopeV1

theorem v1_stop_spawn_safe : ∀ s, Reach (sys cfgStopSpawn) s → safeQ cfgStopSpawn s = true :=
  safe_of_check _ { coded with M := 751 } 400 _ (by decide +kernel)

end Unifex.Props.C08_v1b
