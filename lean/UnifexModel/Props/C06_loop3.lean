/-
  Props/C06_loop3.lean — C06, manual_event_loop / single_thread_context instances (part 3): the
  receivers' stop token triggered concurrently (done instead of value), and single_thread_context
  with two racing producers.
-/
import UnifexModel.Proto.EventLoop

namespace Unifex.Props.C06
open Unifex.Core Unifex.Proto.EventLoop

theorem loop_tok_safe : ∀ s, Reach (sys cfgLoopTok) s → safe cfgLoopTok s = true :=
  safe_of_check _ { coded with M := 509, W := 200 } 400 _ (by decide +kernel)

theorem stc2_safe : ∀ s, Reach (sys cfgStc2) s → safe cfgStc2 s = true :=
  safe_of_check _ { coded with M := 409, W := 200 } 400 _ (by decide +kernel)

end Unifex.Props.C06
