/-
  Props/C06_pool.lean — C06, static_thread_pool instances (one pool thread in the kernel; the
  two-thread configurations are swept by the compiled driver, see tools/checks/c06.py).
-/
import UnifexModel.Proto.ThreadPool

namespace Unifex.Props.C06
open Unifex.Core

section Pool
open Unifex.Proto.ThreadPool

/-- What `ThreadPool.safe` says. -/
theorem pool_safe_spelled (cfg : Config) (s : St) (h : safe cfg s = true) :
    -- nothing duplicated, nothing dropped: accepted = completed ⊎ being executed ⊎ pending
    (s.acc.Nodup ∧ (s.ran ++ inHand cfg s ++ pending s).Nodup
      ∧ (s.ran ++ inHand cfg s ++ pending s).length = s.acc.length
      ∧ ∀ i ∈ s.acc, i ∈ s.ran ++ inHand cfg s ++ pending s)
    -- no lost wake-up: a parked worker that has not been notified has an empty queue and no stop request
    ∧ (∀ i < cfg.k, (getQ s i).waiting = true → (getQ s i).sig = false →
          (getQ s i).items = [] ∧ (getQ s i).stop = false)
    -- pop() returned null (the worker left) only with its queue empty and stopped (no item lost)
    ∧ (cfg.allRun = true → ∀ i < cfg.k, (getThr s (cfg.base + i)).pc = 9 →
          (getQ s i).stop = true ∧ (getQ s i).items = [])
    -- no deadlock
    ∧ (((sys cfg).next s).isEmpty = true → final cfg s = true)
    -- at the end (destructor returned, which joined every worker) every item ran
    ∧ (final cfg s = true → cfg.allRun = true → s.ran.length = nEnq cfg) := by
  unfold safe at h
  simp only [Bool.and_eq_true, decide_eq_true_eq, Bool.or_eq_true, Bool.not_eq_true',
    List.all_eq_true, List.mem_range, List.isEmpty_iff, bne_iff_ne, ne_eq, decide_not,
    Bool.not_eq_eq_eq_not, Bool.not_true, decide_eq_false_iff_not] at h
  obtain ⟨⟨⟨⟨⟨⟨⟨h1, h2⟩, h3⟩, h4⟩, h5⟩, h6⟩, h7⟩, h8⟩ := h
  refine ⟨⟨by simpa using h1, by simpa using h2, h3, h4⟩, ?_, ?_, ?_, ?_⟩
  · intro i hi hw hs
    rcases h5 i hi with h | h
    · simp [hw, hs] at h
    · exact ⟨h.1, h.2⟩
  · intro ha i hi hp
    rcases h6 with h | h
    · simp [ha] at h
    · rcases h i hi with h | h
      · exact absurd hp h
      · exact ⟨h.1, h.2⟩
  · intro hd
    rcases h7 with h | h
    · simp [List.isEmpty_iff] at hd; simp [hd] at h
    · exact h
  · intro hf ha
    rcases h8 with (h | h) | h
    · simp [hf] at h
    · simp [ha] at h
    · exact h

/-- the client waits for each completion before it goes on: deadlock freedom = no lost wake-up -/
theorem pool_1_wait_safe : ∀ s, Reach (sys cfgPool1Wait) s → safe cfgPool1Wait s = true :=
  safe_of_check _ { coded with M := 251, W := 200 } 400 _ (by decide +kernel)

theorem pool_1_safe : ∀ s, Reach (sys cfgPool1) s → safe cfgPool1 s = true :=
  safe_of_check _ { coded with M := 367, W := 200 } 400 _ (by decide +kernel)

end Pool


end Unifex.Props.C06
