/-
  Props/C01.lean — property C01: every started operation completes exactly once, never before start.
  ONLY property theorems + non-vacuity examples.

  Event level (this file): the sender calculus `Calc.deliver` (Calc/Sem.lean), for EVERY expression
  over the modelled algorithm set, EVERY leaf script and EVERY sequence of external events.
  Schedule level: the atomic protocols of when_all / stop_when are in Props/C01_Atomic.lean.
-/
import UnifexModel.Calc.Coh

namespace Unifex.Props.C01
open Unifex.Calc

variable (specs : Nat → LeafSpec)

/-- number of completion signals the root receiver gets over a whole run -/
def signals (l : List (List Out × Option Outcome)) : Nat := (l.filter (fun p => p.2.isSome)).length

theorem finished_stays_silent (op : Op) (evs : List Ev) (h : op.phase = .finished) :
    signals (runEvents specs op evs) = 0 := by
  induction evs generalizing op with
  | nil => simp [runEvents, signals]
  | cons ev evs ih =>
    have hi := finished_inert specs (op.height + 1) ev op h
    simp only [runEvents, signals]
    rw [List.filter_cons]
    simp only [hi.2, Option.isSome_none, Bool.false_eq_true, if_false]
    have := ih (deliver specs (op.height + 1) ev op).1 (by rw [hi.1]; exact h)
    simpa [signals] using this

/-- **No second completion signal**: whatever the expression, the leaf scripts and the external
    events (including nonsense events), the root receiver is signalled at most once. -/
theorem root_at_most_once (op : Op) (evs : List Ev) : signals (runEvents specs op evs) ≤ 1 := by
  induction evs generalizing op with
  | nil => simp [runEvents, signals]
  | cons ev evs ih =>
    simp only [runEvents, signals]
    rw [List.filter_cons]
    cases hr : (deliver specs (op.height + 1) ev op).2.2 with
    | none =>
      simp only [hr, Option.isSome_none, Bool.false_eq_true, if_false]
      exact ih _
    | some o =>
      simp only [hr, Option.isSome_some, if_true, List.length_cons]
      have hf := signal_finishes specs (op.height + 1) ev op o hr
      have := finished_stays_silent specs _ evs hf
      simp only [signals] at this
      omega

theorem root_at_most_once_expr (e : Expr) (evs : List Ev) :
    signals (runEvents specs (connect e) evs) ≤ 1 := root_at_most_once specs _ evs

theorem connect_idle (e : Expr) : (connect e).phase = .idle := by
  cases e <;> simp [connect, Op.phase, BinSt.init]

/-- **Nothing before start(), nothing if never started**: as long as no `start` event has been
    delivered, no event produces any output or any completion signal. -/
theorem root_silent_before_start (e : Expr) (evs : List Ev) (h : ∀ ev ∈ evs, ∀ env, ev ≠ .start env) :
    ∀ p ∈ runEvents specs (connect e) evs, p = ([], none) := by
  have key : ∀ (op : Op), op.phase = .idle → ∀ evs : List Ev, (∀ ev ∈ evs, ∀ env, ev ≠ .start env) →
      ∀ p ∈ runEvents specs op evs, p = ([], none) := by
    intro op hop evs
    induction evs generalizing op with
    | nil => intro _ p hp; simp [runEvents] at hp
    | cons ev evs ih =>
      intro hev p hp
      have hs := idle_silent specs op.height ev op hop (hev ev List.mem_cons_self)
      simp only [runEvents, hs, List.mem_cons] at hp
      rcases hp with hp | hp
      · exact hp
      · exact ih op hop (fun ev' h' => hev ev' (List.mem_cons_of_mem _ h')) p hp
  exact key _ (connect_idle e) evs h

/-! ### No lost completion -/

/-- the tree after a list of events (top level: fuel = height + 1) -/
def after (op : Op) : List Ev → Op
  | [] => op
  | ev :: evs => after (deliver specs (op.height + 1) ev op).1 evs

theorem coh_after (op : Op) (evs : List Ev) (h : Coh op) : Coh (after specs op evs) := by
  induction evs generalizing op with
  | nil => exact h
  | cons ev evs ih =>
    exact ih _ ((recCoh_deliver specs op.height).coh ev op (Nat.le_refl _) h)

/-- **No silently lost completion**: after ANY sequence of events on ANY expression, an operation
    that is still running has at least one started-and-not-yet-completed leaf below it.  So when
    every leaf that was started has completed, the operation is not running any more. -/
theorem no_lost_completion (e : Expr) (evs : List Ev)
    (hq : (after specs (connect e) evs).pending = []) : (after specs (connect e) evs).phase ≠ .running := by
  intro hr
  exact pending_of_running _ (coh_after specs _ evs (allIdle_coh _ (allIdle_connect e))) hr hq

/-- … and it became finished by signalling: an event that leaves a previously unfinished operation
    finished delivers the completion signal in that same event.  (With `root_at_most_once` this is
    "exactly once".) -/
theorem finishing_signals (op : Op) (ev : Ev) (hc : Coh op) (hp : op.phase = .running)
    (hf : (deliver specs (op.height + 1) ev op).1.phase = .finished) :
    (deliver specs (op.height + 1) ev op).2.2.isSome = true := by
  cases hn : (deliver specs (op.height + 1) ev op).2.2 with
  | some o => rfl
  | none =>
    have := (recCoh_deliver specs op.height).run ev op (Nat.le_refl _) hc hp hn
    rw [this] at hf; cases hf

/-- the same for start(): a start that leaves the operation finished has signalled -/
theorem start_finishing_signals (e : Expr) (env : Env)
    (hf : (deliver specs ((connect e).height + 1) (.start env) (connect e)).1.phase ≠ .running) :
    (deliver specs ((connect e).height + 1) (.start env) (connect e)).2.2.isSome = true := by
  cases hn : (deliver specs ((connect e).height + 1) (.start env) (connect e)).2.2 with
  | some o => rfl
  | none =>
    exact absurd ((recCoh_deliver specs (connect e).height).start env (connect e) (Nat.le_refl _) (allIdle_connect e) hn) hf

/-- non-vacuity: a concrete expression with pending leaves that does complete exactly once -/
example :
    let specs : Nat → LeafSpec := fun i => if i = 1 then .pending .completeDone else .pending .ignore
    let e := Expr.bin .whenAll (.leaf 1) (.un (.thenF (.add 1)) (.leaf 2))
    signals (runEvents specs (connect e) [.start rootEnv, .stop, .complete 2 (.value 4)]) = 1 := by
  decide

end Unifex.Props.C01
