/-
  Props/C20.lean — property C20, async-stack half: "with tracing enabled, every async stack frame that
  an operation activates is deactivated again and stack roots are restored by the time the operation
  completes, and traces lead from the leaf to the root".  ONLY property theorems + non-vacuity examples.

  Model: Proto/AsyncStack.lean — `step` is the code of tracing/async_stack-inl.hpp, async_stack.cpp and
  ScopedAsyncStackRoot (returns `none` where an `assert` fails); `gstep` is the discipline (a pushdown
  automaton) the library follows when it calls those functions.  Every theorem below quantifies over
  ALL operation sequences the discipline accepts and ALL states that agree with the discipline's ghost
  (in particular the empty thread, `agree_init`); the proofs are by induction over the sequence
  (`sim_run`, Proto/AsyncStackLemmas.lean).

  The configuration half of C20 ("build configuration never changes results") is an enumeration of
  the eight supported configurations by tools/c20.py (differential against the calculus), not a theorem.
-/
import UnifexModel.Proto.AsyncStackLemmas
import UnifexModel.Proto.AsyncStackScripts
import UnifexModel.Proto.AsyncStackFamily

namespace Unifex.Props.C20
open Unifex.Proto.AsyncStack

/-- two states whose root chains are described by the same ghost stack have the same current root
    and, root by root, the same active frame and the same next root -/
theorem stackOK_same {s s' : St} : ∀ {c c' : Option Nat} {l : List (Nat × Option Nat)},
    StackOK s c l → StackOK s' c' l →
    c = c' ∧ ∀ x ∈ l, (s'.roots x.1).top = (s.roots x.1).top ∧ (s'.roots x.1).next = (s.roots x.1).next ∧
      (s'.roots x.1).live = true
  | _, _, [], h, h' => by simp only [StackOK] at h h'; subst h; subst h'; simp
  | _, _, (r, t) :: rest, h, h' => by
    obtain ⟨h1, h2, h3, h4, h5⟩ := h
    obtain ⟨h1', h2', h3', h4', h5'⟩ := h'
    have ih := stackOK_same h5 h5'
    refine ⟨by rw [h1, h1'], ?_⟩
    intro x hx
    simp only [List.mem_cons] at hx
    rcases hx with hx | hx
    · subst hx; exact ⟨by rw [h3, h3'], ih.1.symm, h2'⟩
    · exact ih.2 x hx

theorem stackOK_top {s : St} : ∀ {c : Option Nat} {l : List (Nat × Option Nat)} {r : Nat} {t : Option Nat},
    StackOK s c l → (r, t) ∈ l → (s.roots r).top = t
  | _, [], _, _, _, hm => by simp at hm
  | _, (r', t') :: rest, r, t, h, hm => by
    obtain ⟨_, _, h3, _, h5⟩ := h
    simp only [List.mem_cons, Prod.mk.injEq] at hm
    rcases hm with ⟨e1, e2⟩ | hm
    · subst e1; subst e2; exact h3
    · exact stackOK_top h5 hm

/-- **No assertion fires**: a sequence of async-stack operations accepted by the discipline runs to
    the end on the state machine of the real code (every `assert` in async_stack-inl.hpp,
    async_stack.cpp and ScopedAsyncStackRoot holds), from every state that agrees with the ghost. -/
theorem accepted_never_asserts {g g' : G} {s : St} (ops : List Op) (a : Agree g s)
    (h : grun g ops = some g') : ∃ s', run s ops = some s' ∧ Agree g' s' := sim_run ops a h

/-- **Balance**: after a well-bracketed sequence (accepted, and the ghost root stack is back to what
    it was) the thread's current root is what it was; every root that was open before is still open
    with the same active frame and the same next root; every root opened meanwhile has been destroyed
    with no active frame; and every frame that is not some root's active frame has been deactivated
    exactly as often as it was activated. -/
theorem async_stack_balanced {g g' : G} {s : St} (ops : List Op) (a : Agree g s)
    (h : grun g ops = some g') (hb : g'.stack = g.stack) :
    ∃ s', run s ops = some s' ∧ s'.cur = s.cur ∧
      (∀ x ∈ g.stack, (s'.roots x.1).top = (s.roots x.1).top ∧ (s'.roots x.1).next = (s.roots x.1).next ∧
        (s'.roots x.1).live = true) ∧
      (∀ r, s.nRoots ≤ r → r < s'.nRoots → (s'.roots r).live = false ∧ (s'.roots r).top = none) ∧
      (∀ f, f < s'.nFrames → (∀ r, r < s'.nRoots → (s'.roots r).top ≠ some f) →
        (s'.frames f).acts = (s'.frames f).deacts) := by
  obtain ⟨s', hr, a'⟩ := sim_run ops a h
  have hs' := a'.stackOK; rw [hb] at hs'
  have hsame := stackOK_same a.stackOK hs'
  refine ⟨s', hr, hsame.1.symm, hsame.2, ?_, ?_⟩
  · intro r h1 h2
    refine a'.dead r (by rw [← a'.nr_eq]; exact h2) ?_
    intro x hx e
    have := a.stack_lt x (by rw [← hb]; exact hx)
    rw [a.nr_eq] at h1; omega
  · intro f hf hno
    have hc := a'.count f (by rw [← a'.nf_eq]; exact hf)
    by_cases hst : g'.status f = .active
    · obtain ⟨r, hm⟩ := a'.act f (by rw [← a'.nf_eq]; exact hf) hst
      have := stackOK_top a'.stackOK hm
      have hlt := a'.stack_lt _ hm
      exact absurd this (hno r (by rw [a'.nr_eq]; exact hlt))
    · simpa [hst] using hc

/-- the special case "from a thread with no async stack at all" -/
theorem async_stack_balanced_from_scratch {g' : G} (ops : List Op)
    (h : grun G.init ops = some g') (hb : g'.stack = []) :
    ∃ s', run St.init ops = some s' ∧ s'.cur = none ∧
      (∀ r, r < s'.nRoots → (s'.roots r).live = false ∧ (s'.roots r).top = none) ∧
      (∀ f, f < s'.nFrames → (s'.frames f).acts = (s'.frames f).deacts) := by
  obtain ⟨s', h1, h2, _, h4, h5⟩ := async_stack_balanced ops agree_init h (by simpa [G.init] using hb)
  refine ⟨s', h1, h2, fun r hr => h4 r (Nat.zero_le _) hr, ?_⟩
  intro f hf
  refine h5 f hf ?_
  intro r hr e
  have := (h4 r (Nat.zero_le _) hr).2
  rw [this] at e; cases e

/-! ### traces -/

theorem chain_trace {s : St} {f : Nat} {l : List Nat} (h : Chain s f l) :
    ∀ n, l.length ≤ n → trace s n (some f) = l := by
  induction h with
  | last f hp =>
    intro n hn
    cases n with
    | zero => simp at hn
    | succ n => cases n <;> simp [trace, hp]
  | link f p l hp _ ih =>
    intro n hn
    cases n with
    | zero => simp at hn
    | succ n =>
      simp only [List.length_cons, Nat.add_le_add_iff_right] at hn
      simp [trace, hp, ih n hn]

theorem chain_of_rank {g : G} {s : St} (a : Agree g s) :
    ∀ n f, g.rank f ≤ n → f < g.nf →
      ∃ l, Chain s f l ∧ (∀ x ∈ l, g.rank x ≤ g.rank f ∧ x < g.nf) ∧ l.Nodup := by
  intro n
  induction n with
  | zero =>
    intro f hr hf
    cases hp : g.par f with
    | none =>
      exact ⟨[f], .last f (by rw [a.par_eq f hf, hp]), by simp; exact hf, by simp⟩
    | some p => have := (a.par_ok f p hf hp).2.2; omega
  | succ n ih =>
    intro f hr hf
    cases hp : g.par f with
    | none =>
      exact ⟨[f], .last f (by rw [a.par_eq f hf, hp]), by simp; exact hf, by simp⟩
    | some p =>
      have hpo := a.par_ok f p hf hp
      obtain ⟨l, hc, hl, hn⟩ := ih p (by omega) hpo.1
      refine ⟨f :: l, .link f p l (by rw [a.par_eq f hf, hp]) hc, ?_, ?_⟩
      · intro x hx
        simp only [List.mem_cons] at hx
        rcases hx with hx | hx
        · subst hx; exact ⟨Nat.le_refl _, hf⟩
        · have := hl x hx; exact ⟨by omega, this.2⟩
      · refine List.nodup_cons.mpr ⟨?_, hn⟩
        intro hm
        have := (hl f hm).1; omega

/-- **Traces are finite and acyclic**: at EVERY point of an accepted sequence (every prefix), for the
    frame that is active on the thread's current root — and in fact for every frame — following
    `parentFrame` links visits pairwise distinct frames and ends, after finitely many steps, at a frame
    without parent (the root of the async stack); the library's own walk
    `getAsyncStackTraceFromInitialFrame` returns exactly that chain once its bound is large enough. -/
theorem trace_chain_leaf_to_root {g g' : G} {s : St} (ops pre post : List Op) (a : Agree g s)
    (h : grun g ops = some g') (hsplit : ops = pre ++ post) :
    ∃ sp, run s pre = some sp ∧
      ∀ r f, sp.cur = some r → (sp.roots r).top = some f →
        ∃ l, Chain sp f l ∧ l.Nodup ∧ l.head? = some f ∧ (∀ n, l.length ≤ n → trace sp n (some f) = l) := by
  subst hsplit
  rw [grun_append] at h
  cases hg : grun g pre with
  | none => simp [hg] at h
  | some gp =>
    obtain ⟨sp, hr, ap⟩ := sim_run pre a hg
    refine ⟨sp, hr, ?_⟩
    intro r f hc ht
    -- the active frame of the current root is a frame the ghost knows
    have hf : f < gp.nf := by
      cases hs : gp.stack with
      | nil => have := ap.stackOK; rw [hs] at this; simp only [StackOK] at this; rw [this] at hc; cases hc
      | cons x rest =>
        obtain ⟨r', t⟩ := x
        obtain ⟨c1, _, _, c4, _⟩ := ap.cur_head hs
        rw [c1] at hc; cases hc
        rw [c4] at ht; subst ht
        exact (ap.tops _ f (by rw [hs]; exact List.mem_cons_self)).1
    obtain ⟨l, hl, _, hn⟩ := chain_of_rank ap (gp.rank f) f (Nat.le_refl _) hf
    refine ⟨l, hl, hn, ?_, chain_trace hl⟩
    cases hl <;> rfl


/-! ### then^n(leaf): the sequence emitted by connect / start / completion -/

/-- then^n(leaf) for n = 0 … 6, leaf pending or completing inline: accepted and balanced
    (kernel-checked instances; the theorems above cover every accepted sequence) -/
theorem then_chains_accepted_and_balanced :
    ∀ n, n < 7 → acceptedBalanced (opsOf (thenPending n)) = true ∧ acceptedBalanced (opsOf (thenInline n)) = true := by
  decide +kernel

/-- what the leaf and the root receiver see in then^n(leaf), n = 0 … 4: n+1 roots and a chain of n+1
    frames at the leaf; n+1 roots (2n+2 when the leaf completes inline) and a chain of 1 at the root -/
theorem then_chain_depths :
    ∀ n, n < 5 →
      obsNums St.init (thenPending n) [] = some [(n + 1, n + 1), (n + 1, 1)] ∧
      obsNums St.init (thenInline n) [] = some [(n + 1, n + 1), (2 * n + 2, 1)] := by
  decide +kernel

/-- the plain recursive form `thenOps n` is what the builder (`thenPending`, the scenario compared with
    the real code) emits — n = 0 … 5 -/
theorem thenOps_is_thenPending : ∀ n, n < 6 → opsOf (thenPending n) = thenOps n := by
  decide +kernel

/-- **for EVERY nesting depth n** (induction, Proto/AsyncStackFamily.lean): the operations emitted for
    then^n(leaf) — n+1 connects, n+1 nested starts, n+1 nested completions — are accepted by the
    discipline, so on the empty thread they run without tripping an assertion and leave no current root,
    every root destroyed without an active frame, every frame deactivated as often as activated -/
theorem then_family_accepted_and_balanced (n : Nat) :
    ∃ s', run St.init (thenOps n) = some s' ∧ s'.cur = none ∧
      (∀ r, r < s'.nRoots → (s'.roots r).live = false ∧ (s'.roots r).top = none) ∧
      (∀ f, f < s'.nFrames → (s'.frames f).acts = (s'.frames f).deacts) := by
  obtain ⟨g', h, hb⟩ := thenOps_accepted n
  exact async_stack_balanced_from_scratch _ h hb

/-! ### non-vacuity -/

/-- every fixed scenario of the tie (what inject_async_stack.hpp emits for then / let_value / when_all /
    any_sender_of / sync_wait expressions) is accepted by the discipline and balanced -/
example : (scenarios.map (fun p => acceptedBalanced (opsOf p.2))).all id = true := by decide +kernel

/-- the library's own unit test (test/AsyncStackTest.cpp, PushPop): push two callees, deactivate and
    re-activate the innermost, pop both, deactivate — accepted, balanced, and the model state at the
    deepest point is the one the test asserts (frame 2 on top, parents 2 → 1 → 0) -/
def pushPopTest : List Op :=
  [.rootCtor, .newFrame, .newFrame, .newFrame, .activate 0 0, .pushCallee 0 1, .pushCallee 1 2,
   .deactivate 2, .activate 0 2, .popCallee 2, .popCallee 1, .deactivate 0, .rootDtor 0]

example : acceptedBalanced pushPopTest = true := by decide +kernel
example : (run St.init (pushPopTest.take 7)).map (fun s => (s.cur, (s.roots 0).top, trace s 10 (s.roots 0).top)) =
    some (some 0, some 2, [2, 1, 0]) := by decide +kernel
example : (run St.init pushPopTest).map (fun s => (s.cur, (List.range 3).map (fun f => ((s.frames f).acts, (s.frames f).deacts)))) =
    some (none, [(2, 2), (2, 2), (2, 2)]) := by decide +kernel

/-- the model can say "assert": destroying a root whose frame is still active
    (`assert(root_.topFrame == nullptr)` in ~ScopedAsyncStackRoot) … -/
example : run St.init [.rootCtor, .newFrame, .activate 0 0, .rootDtor 0] = none := by decide +kernel
/-- … deactivating a frame twice, activating on a root that is not the innermost one -/
example : run St.init [.rootCtor, .newFrame, .activate 0 0, .deactivate 0, .deactivate 0] = none := by decide +kernel
example : run St.init [.rootCtor, .rootCtor, .newFrame, .activate 0 0] = none := by decide +kernel

/-- the discipline is needed for the trace theorem: outside it the state machine happily builds a
    parent cycle (no assertion), and the trace walk then never reaches a frame without parent -/
def cycleOps : List Op := [.newFrame, .newFrame, .setParent 0 1, .setParent 1 0]
example : (run St.init cycleOps).isSome = true ∧ (grun G.init cycleOps).isSome = false := by decide +kernel
example : ∀ n, n < 20 → (run St.init cycleOps).map (fun s => (trace s n (some 0)).length) = some n := by decide +kernel

/-- … and for balance: exchangeCurrentAsyncStackRoot (not part of the discipline) loses a root
    without any assertion firing -/
example : (run St.init [.rootCtor, .exchangeRoot none]).map (fun s => (s.cur, (s.roots 0).live)) = some (none, true) := by
  decide +kernel

end Unifex.Props.C20
