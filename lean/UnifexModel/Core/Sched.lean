/-
  Core/Sched.lean — interleaving semantics shared by every atomic-step protocol model.

  A labelled transition system is an initial state and a function giving, for each state,
  the finite list of (label, successor) pairs.  A label names the thread that moved and
  what it did (including the externally observable part of the step).  `Reach` is the
  inductive reachability predicate: a theorem about `Reach` is a theorem about every
  schedule of every length.
-/
namespace Unifex.Core

structure LSys (σ : Type) (lbl : Type) where
  init : σ
  next : σ → List (lbl × σ)

variable {σ lbl : Type}

/-- States reachable by any finite schedule. -/
inductive Reach (sys : LSys σ lbl) : σ → Prop
  | init : Reach sys sys.init
  | step {s s' : σ} {l : lbl} : Reach sys s → (l, s') ∈ sys.next s → Reach sys s'

/-- `Run sys ls s`: executing the label sequence `ls` from the initial state can end in `s`. -/
inductive Run (sys : LSys σ lbl) : List lbl → σ → Prop
  | nil : Run sys [] sys.init
  | snoc {ls : List lbl} {s s' : σ} {l : lbl} :
      Run sys ls s → (l, s') ∈ sys.next s → Run sys (ls ++ [l]) s'

theorem Run.reach {sys : LSys σ lbl} {ls : List lbl} {s : σ} (h : Run sys ls s) : Reach sys s := by
  induction h with
  | nil => exact Reach.init
  | snoc _ hm ih => exact Reach.step ih hm

theorem Reach.run {sys : LSys σ lbl} {s : σ} (h : Reach sys s) : ∃ ls, Run sys ls s := by
  induction h with
  | init => exact ⟨[], Run.nil⟩
  | step _ hm ih =>
    obtain ⟨ls, hr⟩ := ih
    exact ⟨_, Run.snoc hr hm⟩

/-- Invariant induction: the workhorse for the parametric protocol proofs. -/
theorem invariant {sys : LSys σ lbl} (Inv : σ → Prop)
    (h0 : Inv sys.init)
    (hstep : ∀ s l s', Inv s → (l, s') ∈ sys.next s → Inv s')
    {s : σ} (h : Reach sys s) : Inv s := by
  induction h with
  | init => exact h0
  | step _ hm ih => exact hstep _ _ _ ih hm

/-- Invariant induction that may use reachability of the pre-state (for layered invariants). -/
theorem invariant_reach {sys : LSys σ lbl} (Inv : σ → Prop)
    (h0 : Inv sys.init)
    (hstep : ∀ s l s', Reach sys s → Inv s → (l, s') ∈ sys.next s → Inv s')
    {s : σ} (h : Reach sys s) : Inv s := by
  induction h with
  | init => exact h0
  | step hr hm ih => exact hstep _ _ _ hr ih hm

/-- Executable: run a list of choices (index into the enabled list at each state).  Used by
    the driver for replaying schedules; `none` = the choice was not enabled. -/
def runChoices (sys : LSys σ lbl) : σ → List Nat → Option (List lbl × σ)
  | s, [] => some ([], s)
  | s, c :: cs =>
    match (sys.next s)[c]? with
    | none => none
    | some (l, s') =>
      match runChoices sys s' cs with
      | none => none
      | some (ls, t) => some (l :: ls, t)

/-- A state is a deadlock if nothing is enabled. -/
def isDeadlock (sys : LSys σ lbl) (s : σ) : Bool := (sys.next s).isEmpty

end Unifex.Core

namespace Unifex.Core
variable {σ lbl : Type}

theorem runChoices_reach (sys : LSys σ lbl) : ∀ (cs : List Nat) (s : σ) (ls : List lbl) (t : σ),
    Reach sys s → runChoices sys s cs = some (ls, t) → Reach sys t
  | [], s, ls, t, hr, h => by
    simp [runChoices] at h; exact h.2 ▸ hr
  | c :: cs, s, ls, t, hr, h => by
    unfold runChoices at h
    cases hc : (sys.next s)[c]? with
    | none => simp [hc] at h
    | some p =>
      obtain ⟨l, s'⟩ := p
      simp only [hc] at h
      cases hr' : runChoices sys s' cs with
      | none => simp [hr'] at h
      | some q =>
        obtain ⟨ls', t'⟩ := q
        simp only [hr', Option.some.injEq, Prod.mk.injEq] at h
        have hm : (l, s') ∈ sys.next s := List.mem_of_getElem? hc
        exact h.2 ▸ runChoices_reach sys cs s' ls' t' (Reach.step hr hm) hr'

/-- Search (untrusted, for finding non-vacuity witnesses offline): breadth-first over choice lists. -/
def findChoices (sys : LSys σ lbl) (good : σ → Bool) : Nat → List (List Nat × σ) → Option (List Nat)
  | 0, _ => none
  | n+1, frontier =>
    match frontier.find? (fun p => good p.2) with
    | some p => some p.1.reverse
    | none =>
      let nxt := frontier.flatMap (fun p => ((sys.next p.2).zipIdx).map (fun (q, i) => (i :: p.1, q.2)))
      findChoices sys good n nxt

end Unifex.Core
