/-
  Core/Reflect.lean — a verified explicit-state closure checker (proof by reflection).

  For a protocol with a fixed small number of parties the set of reachable states is finite.
  `explore` computes it (breadth first, seen-set kept as a bit mask over state codes so that the
  kernel's GMP-accelerated `Nat` operations do the membership tests), `checkClosed` re-checks that
  the computed set contains the initial state and is closed under every step, and
  `reach_sound` (proved once, by induction on `Reach`) turns `checkClosed … = true` into
  `∀ s, Reach sys s → s ∈ states`.  A protocol's obligations are then closed Boolean terms,
  discharged with `decide +kernel` — evaluated by Lean's kernel, no `native_decide`, no axiom.
  This is a complete fixed point over the model's state space, not a depth-bounded search.

  The coding `enc/dec` is *not* trusted: `checkClosed` checks `dec (enc t) = t` for every state it
  meets, so a wrong coding can only make the check fail.
-/
import UnifexModel.Core.Sched

namespace Unifex.Core

variable {σ lbl : Type}

structure Coded (σ : Type) where
  enc : σ → Nat
  dec : Nat → σ
  /-- hash-set geometry: number of slots (use a prime) and slot width in bits; a code must be
      `< 2^W - 1` (a wider code is simply never found, which fails the check) -/
  M : Nat := 8191
  W : Nat := 96

/-- An open-addressing hash set packed into ONE natural number: `M` slots of `W` bits each; slot
    `i` holds `key+1` (0 = empty).  Every access is a shift and a remainder on a big `Nat`, which the
    kernel evaluates with GMP; the table is a bare `Nat` so that kernel evaluation stays strict.
    Built by untrusted code (`insert`); the only fact used about it is `mem_keys_of_contains`. -/
abbrev HSet := Nat

namespace HSet

def slot (M W : Nat) (t : HSet) (i : Nat) : Nat := (t >>> (i * W)) % (2 ^ W)

def probe (M W : Nat) (t : HSet) : Nat → Nat → Nat → Bool
  | 0, _, _ => false
  | f+1, h, c =>
    if slot M W t h = 0 then false else if slot M W t h = c + 1 then true
    else probe M W t f ((h + 1) % M) c

def contains (M W : Nat) (t : HSet) (c : Nat) : Bool :=
  if M = 0 then false else probe M W t 48 (c % M) c

def insertAt (M W : Nat) (t : HSet) : Nat → Nat → Nat → HSet
  | 0, _, _ => t
  | f+1, h, c =>
    if slot M W t h = 0 then t + ((c + 1) <<< (h * W))
    else if slot M W t h = c + 1 then t else insertAt M W t f ((h + 1) % M) c

def insert (M W : Nat) (t : HSet) (c : Nat) : HSet :=
  if M = 0 then t else insertAt M W t 48 (c % M) c

def keys (M W : Nat) (t : HSet) : List Nat :=
  (List.range M).filterMap (fun i => if slot M W t i = 0 then none else some (slot M W t i - 1))

theorem mem_keys_of_probe (M W : Nat) (t : HSet) (hM : M ≠ 0) :
    ∀ (f h c : Nat), h < M → probe M W t f h c = true → c ∈ keys M W t
  | 0, _, _, _, h => by simp [probe] at h
  | f+1, h, c, hh, hp => by
    unfold probe at hp
    by_cases h0 : slot M W t h = 0
    · simp [h0] at hp
    · by_cases h1 : slot M W t h = c + 1
      · unfold keys
        simp only [List.mem_filterMap, List.mem_range]
        refine ⟨h, hh, ?_⟩
        simp [h1]
      · simp only [h0, h1, if_false] at hp
        exact mem_keys_of_probe M W t hM f _ c (Nat.mod_lt _ (by omega)) hp

theorem mem_keys_of_contains (M W : Nat) (t : HSet) (c : Nat) (h : contains M W t c = true) :
    c ∈ keys M W t := by
  unfold contains at h
  by_cases hM : M = 0
  · simp [hM] at h
  · simp only [hM, if_false] at h
    exact mem_keys_of_probe M W t hM _ _ c (Nat.mod_lt _ (by omega)) h

end HSet

/-- Add the not-yet-seen candidates to the set; returns (new states, set). -/
def addNew (cd : Coded σ) : List σ → HSet → List σ → List σ × HSet
  | [], m, acc => (acc, m)
  | t :: ts, m, acc =>
    if HSet.contains cd.M cd.W m (cd.enc t) then addNew cd ts m acc
    else
      let m' := HSet.insert cd.M cd.W m (cd.enc t)
      -- if the insertion did not take (probe chain too long / code too wide) drop the state: the
      -- closure check will then fail instead of the exploration running away
      if HSet.contains cd.M cd.W m' (cd.enc t) then addNew cd ts m' (t :: acc) else addNew cd ts m acc

/-- Breadth-first closure; `fuel` bounds the number of levels (soundness does not depend on it:
    too little fuel makes `checkClosed` fail). -/
def exploreFrom (sys : LSys σ lbl) (cd : Coded σ) : Nat → List σ → HSet → HSet
  | 0, _, m => m
  | n+1, frontier, m =>
    match frontier with
    | [] => m
    | _ =>
      let succs := frontier.flatMap (fun s => (sys.next s).map (·.2))
      let r := addNew cd succs m []
      exploreFrom sys cd n r.1 r.2

/-- The reachable set as a hash set of state codes. -/
def explore (sys : LSys σ lbl) (cd : Coded σ) (fuel : Nat) : HSet :=
  exploreFrom sys cd fuel [sys.init] (HSet.insert cd.M cd.W 0 (cd.enc sys.init))

def statesOf (cd : Coded σ) (m : HSet) : List σ := (HSet.keys cd.M cd.W m).map cd.dec

variable [DecidableEq σ]

def okCode (cd : Coded σ) (m : HSet) (t : σ) : Bool :=
  HSet.contains cd.M cd.W m (cd.enc t) && decide (cd.dec (cd.enc t) = t)

/-- The re-check: the initial state is in the set and round-trips through the coding, and every
    successor of every state decoded from the set is in the set and round-trips. -/
def checkClosed (sys : LSys σ lbl) (cd : Coded σ) (m : HSet) : Bool :=
  okCode cd m sys.init &&
  (statesOf cd m).all (fun s => (sys.next s).all (fun p => okCode cd m p.2))

theorem mem_of_okCode (cd : Coded σ) (m : HSet) (t : σ) (h : okCode cd m t = true) :
    t ∈ statesOf cd m := by
  unfold okCode at h
  simp only [Bool.and_eq_true, decide_eq_true_eq] at h
  obtain ⟨hb, hd⟩ := h
  unfold statesOf
  exact List.mem_map.mpr ⟨cd.enc t, HSet.mem_keys_of_contains cd.M cd.W m _ hb, hd⟩

theorem reach_sound (sys : LSys σ lbl) (cd : Coded σ) (m : HSet)
    (h : checkClosed sys cd m = true) : ∀ s, Reach sys s → s ∈ statesOf cd m := by
  unfold checkClosed at h
  simp only [Bool.and_eq_true] at h
  obtain ⟨hinit, hcl⟩ := h
  intro s hs
  induction hs with
  | init => exact mem_of_okCode cd m _ hinit
  | step _ hm ih =>
    have h1 := List.all_eq_true.mp hcl _ ih
    have h2 := List.all_eq_true.mp h1 _ hm
    exact mem_of_okCode cd m _ h2

/-- What protocol files use: one closed Boolean obligation implies safety of every reachable state. -/
def checkSafe (sys : LSys σ lbl) (cd : Coded σ) (fuel : Nat) (safe : σ → Bool) : Bool :=
  let m := explore sys cd fuel
  checkClosed sys cd m && (statesOf cd m).all safe

theorem safe_of_check (sys : LSys σ lbl) (cd : Coded σ) (fuel : Nat) (safe : σ → Bool)
    (h : checkSafe sys cd fuel safe = true) : ∀ s, Reach sys s → safe s = true := by
  unfold checkSafe at h
  simp only [Bool.and_eq_true] at h
  intro s hs
  exact List.all_eq_true.mp h.2 s (reach_sound sys cd _ h.1 s hs)

/-- Number of states in the computed closure (for evidence; `#eval`-ed by the driver). -/
def countStates (sys : LSys σ lbl) (cd : Coded σ) (fuel : Nat) : Nat :=
  (HSet.keys cd.M cd.W (explore sys cd fuel)).length

/-! ### Flattening helpers for writing codings: a state is flattened to a list of small naturals,
    which is packed in base `B` with a length prefix.  Nothing here is trusted (see `okCode`). -/

def packNats (B : Nat) : List Nat → Nat
  | [] => 0
  | x :: xs => 1 + (x % B) + B * packNats B xs

def unpackNats (B : Nat) : Nat → Nat → List Nat
  | 0, _ => []
  | f+1, n => if n = 0 then [] else ((n - 1) % B) :: unpackNats B f ((n - 1) / B)

/-- Simple list-based variant for tiny systems (no coding needed). -/
def checkClosedL (sys : LSys σ lbl) (states : List σ) : Bool :=
  states.contains sys.init &&
  states.all (fun s => (sys.next s).all (fun p => states.contains p.2))

theorem reach_soundL (sys : LSys σ lbl) (states : List σ)
    (h : checkClosedL sys states = true) : ∀ s, Reach sys s → s ∈ states := by
  unfold checkClosedL at h
  simp only [Bool.and_eq_true] at h
  intro s hs
  induction hs with
  | init => simpa using h.1
  | step _ hm ih =>
    have h1 := List.all_eq_true.mp h.2 _ ih
    have h2 := List.all_eq_true.mp h1 _ hm
    simpa using h2

end Unifex.Core
