/-
  Core/Admit.lean — trace inclusion test used by the correspondence check (executable, not proved:
  part of the trusted tie, see DESIGN.md §4).

  `admits sys obs final hist` decides whether the observable history `hist` (what the real
  implementation printed in one explored execution) is the observable projection of some run of
  the model that ends in a state from which a `final` state is reachable by internal steps.
  It is the usual subset construction: a set of model states is advanced over internal steps to a
  fixed point, then over the next observable event.
-/
import UnifexModel.Core.Sched

namespace Unifex.Core
variable {σ lbl : Type} [DecidableEq σ]

def addAll (seen : List σ) : List σ → List σ × List σ
  | [] => (seen, [])
  | x :: xs =>
    if seen.contains x then addAll seen xs
    else
      let (s', n') := addAll (x :: seen) xs
      (s', x :: n')

/-- closure of `set` under steps whose label is not observable -/
def tauClosure (sys : LSys σ lbl) (obs : lbl → Option String) : Nat → List σ → List σ → List σ
  | 0, seen, _ => seen
  | n+1, seen, frontier =>
    match frontier with
    | [] => seen
    | _ =>
      let succ := frontier.flatMap (fun s => (sys.next s).filterMap (fun p => if (obs p.1).isNone then some p.2 else none))
      let (seen', new) := addAll seen succ
      tauClosure sys obs n seen' new

def stepObs (sys : LSys σ lbl) (obs : lbl → Option String) (set : List σ) (e : String) : List σ :=
  (addAll [] (set.flatMap (fun s => (sys.next s).filterMap (fun p => if obs p.1 = some e then some p.2 else none)))).1

def enabledObs (sys : LSys σ lbl) (obs : lbl → Option String) (set : List σ) : List String :=
  (set.flatMap (fun s => (sys.next s).filterMap (fun p => obs p.1))).eraseDups

inductive Verdict
  | ok (maxSet : Nat)
  | reject (idx : Nat) (event : String) (expected : List String)
  | notFinal (expected : List String)

def admitsFrom (sys : LSys σ lbl) (obs : lbl → Option String) (final : σ → Bool) :
    List σ → List String → Nat → Nat → Verdict
  | set, [], _, mx =>
    let cl := tauClosure sys obs 100000 set set
    if cl.any final then .ok (max mx cl.length) else .notFinal (enabledObs sys obs cl)
  | set, e :: es, i, mx =>
    let cl := tauClosure sys obs 100000 set set
    let nxt := stepObs sys obs cl e
    if nxt.isEmpty then .reject i e (enabledObs sys obs cl)
    else admitsFrom sys obs final nxt es (i + 1) (max mx cl.length)

def admits (sys : LSys σ lbl) (obs : lbl → Option String) (final : σ → Bool) (hist : List String) : Verdict :=
  admitsFrom sys obs final [sys.init] hist 0 0

def Verdict.render : Verdict → String
  | .ok n => s!"ok {n}"
  | .reject i e ex => s!"reject {i} [{e}] expected: {" | ".intercalate ex}"
  | .notFinal ex => s!"notfinal expected: {" | ".intercalate ex}"

end Unifex.Core
