/-
  Calc/Ctx.lean — a small sender calculus WITH EXECUTION CONTEXTS (property C11).

  Contexts are numbered manual run queues.  External events (`XEv`) name the context they happen
  on: `start k`, `stop k`, `complete i o k` (leaf `i` is completed by the environment on context
  `k`), `run k last` (context `k` executes ONE queued item: the one with the smallest tag, or the
  largest if `last`).  Every observation of the real harness is made on the harness's "current
  context", which the event loop sets to the context of the event being processed; processing one
  event is synchronous, so in the model an observation's context is the context of the event that
  produced it (`Obs.ctx`, `Obs.ev`).

  The sender algebra mirrors the C++ exactly where C11 needs it:

    via(e, s)                     = finally(e, schedule(s))                          (via.hpp)
    typed_via                     = via                                              (typed_via.hpp)
    on(s, e)                      = sequence(schedule(s), with_query_value(e, get_scheduler, s))   (on.hpp)
    with_scheduler_affinity(e, s) = e                       if e is statically affine
                                  = wsa_sender_wrapper{finally(e, unstoppable(schedule(s)))}  otherwise
                                                                                     (with_scheduler_affinity.hpp)
    schedule()                    = schedule(get_scheduler(receiver))                (scheduler_concepts.hpp)

  so `via`, `typedVia`, `on`, `withAffinity` are FUNCTIONS building expressions from the primitive
  constructors (like the C++ functions build sender types), and `Expr.wsa` is the wrapper class.
  `get_scheduler` is lexically scoped in this calculus (only `with_query_value` replaces it), so
  `connect cur e` resolves `schedule()` to the scheduler in scope when it builds the operation tree.

  Semantics in the style of Calc/Sem.lean: one NON-recursive `…Step` function per algorithm taking
  `rec` (the evaluator of the children); `deliver` recurses on fuel.

  The static traits `blocking`, `affine`, `sendsDone` are TRANSCRIBED from the `blocking`,
  `is_always_scheduler_affine`, `sends_done` members of each sender type (file:line in comments);
  tools/gen_typed.py compares them with the compiler's answer on concrete (non-erased) types.
-/
namespace Unifex.Ctx

inductive Outcome
  | value (v : Nat) | error (e : Nat) | done
  deriving DecidableEq, Repr

/-- a scheduler: `inline_scheduler`, or the harness's manual tagged scheduler of context `k` -/
inductive Sched
  | inl | man (k : Nat)
  deriving DecidableEq, Repr

/-- blocking.hpp `_block::_enum` (declaration order = numeric order used by std::max/std::min) -/
inductive BlockingKind
  | alwaysInline | always | maybe | never
  deriving DecidableEq, Repr

def BlockingKind.rank : BlockingKind → Nat
  | .alwaysInline => 0 | .always => 1 | .maybe => 2 | .never => 3

/-- `std::max(a, b)` with blocking.hpp's `operator<` -/
def BlockingKind.max (a b : BlockingKind) : BlockingKind := if a.rank < b.rank then b else a
/-- `std::min(a, b)` -/
def BlockingKind.min (a b : BlockingKind) : BlockingKind := if b.rank < a.rank then b else a

inductive Fn
  | add (k : Nat) | throwAlways (e : Nat) | throwIfEq (c e k : Nat)
  deriving DecidableEq, Repr

def Fn.app : Fn → Nat → Outcome
  | .add k, x => .value (x + k)
  | .throwAlways e, _ => .error e
  | .throwIfEq c e k, x => if x = c then .error e else .value (x + k)

inductive StopReact | ignore | completeDone
  deriving DecidableEq, Repr

inductive LeafSpec
  | inline (o : Outcome)          -- completes inside start()
  | pending (r : StopReact)       -- completes later (external event naming its context)
  deriving DecidableEq, Repr

inductive ConstKind
  | just (v : Nat) | justError (e : Nat) | justDone
  deriving DecidableEq, Repr

inductive UnKind
  | thenF (f : Fn)
  | unstoppable
  | withSched (s : Sched)         -- with_query_value(e, get_scheduler, s)
  | erase                         -- any_sender_of<int>
  | matDemat                      -- dematerialize(materialize(e))
  | doneAsOpt (d : Nat)           -- done_as_optional(e) = let_done(then(e, some), [] { return just(nullopt); })
  deriving DecidableEq, Repr

inductive BinKind
  | letValue | seq | fin | whenAll | stopWhen
  deriving DecidableEq, Repr

inductive Expr
  | const (k : ConstKind)
  | leaf (i : Nat)                -- manual leaf sender of the harness (no trait members besides sends_done)
  | sleaf (i : Nat)               -- synchronous leaf of the harness: completes in start(), declares `always`
  | never                         -- never_sender
  | sched (s : Sched) (j : Nat)   -- schedule(s); `j` = tag of the queue item (names it in `run`)
  | schedCur (j : Nat)            -- schedule()  (on get_scheduler(receiver))
  | wsa (s : Sched) (j : Nat) (c : Expr)   -- _wsa_sender_wrapper<Sender, Scheduler>
  | un (k : UnKind) (c : Expr)
  | bin (k : BinKind) (a b : Expr)
  deriving DecidableEq, Repr

/-! ### Static traits, transcribed -/

/-- the schedule sender of a scheduler: inline_scheduler.hpp:84 `always_inline`;
    harness ManualScheduler::schedule_sender declares `never` (like static_thread_pool.hpp:74) -/
def Sched.blocking : Sched → BlockingKind
  | .inl => .alwaysInline
  | .man _ => .never

/-- inline_scheduler's schedule_task declares nothing ⇒ default (sender_concepts.hpp:76-78):
    affine iff blocking == always_inline; the harness scheduler declares `false`
    (like static_thread_pool.hpp:76) -/
def Sched.affine : Sched → Bool
  | .inl => true
  | .man _ => false

def blocking : Expr → BlockingKind
  | .const _ => .alwaysInline                  -- just.hpp:84, just_error.hpp:75, just_done.hpp:62
  | .leaf _ => .maybe                          -- no member ⇒ sender_concepts.hpp:59
  | .sleaf _ => .always                        -- harness SyncLeaf::blocking
  | .never => .maybe                           -- never.hpp:111
  | .sched s _ => s.blocking
  | .schedCur _ => .maybe                      -- scheduler_concepts.hpp:213
  | .wsa s _ c => (blocking c).max s.blocking  -- with_scheduler_affinity.hpp:74 = finally(c, unstoppable(schedule(s)))
  | .un k c =>
    match k with
    | .thenF _ => blocking c                   -- then.hpp:160
    | .unstoppable => blocking c               -- unstoppable.hpp:51
    | .withSched _ => blocking c               -- with_query_value.hpp:139
    | .erase => .maybe                         -- any_sender_of.hpp: no member
    | .matDemat => blocking c                  -- dematerialize.hpp:178 ∘ materialize.hpp:193
    | .doneAsOpt _ => (blocking c).max (BlockingKind.alwaysInline.min .maybe)   -- let_done.hpp:288-291
  | .bin k a b =>
    match k with
    | .letValue => (blocking a).max ((blocking b).min .maybe)   -- let_value.hpp:388-392
    | .seq => (blocking a).max ((blocking b).min .maybe)        -- sequence.hpp:284-289
    | .fin => (blocking a).max (blocking b)                     -- finally.hpp:642-644
    | .whenAll => (blocking a).max (blocking b)                 -- when_all.hpp:322-326
    | .stopWhen => (blocking a).max (blocking b)                -- stop_when.hpp:330-331

def affine : Expr → Bool
  | .const _ => true                           -- default: blocking == always_inline
  | .leaf _ => false                           -- default: blocking (maybe) ≠ always_inline
  | .sleaf _ => false                          -- default: blocking (always) ≠ always_inline
  | .never => true                             -- never.hpp:115
  | .sched s _ => s.affine
  | .schedCur _ => true                        -- scheduler_concepts.hpp:217
  | .wsa _ _ _ => true                         -- with_scheduler_affinity.hpp:76
  | .un k c =>
    match k with
    | .erase => false                          -- default: blocking (maybe) ≠ always_inline
    | .withSched _ => false                    -- with_query_value.hpp: CPO is get_scheduler ⇒ false (the child is
                                               -- affine to the REPLACED scheduler, not to the receiver's)
    | _ => affine c                            -- then.hpp:162, unstoppable.hpp:53,
                                               -- dematerialize.hpp ∘ materialize.hpp:195, let_done.hpp:293 (∧ just)
  | .bin _ a b => affine a && affine b         -- let_value.hpp:394, sequence.hpp:291, finally.hpp:646,
                                               -- when_all.hpp:345, stop_when.hpp:333

def sendsDone : Expr → Bool
  | .const k => (match k with | .justDone => true | _ => false)   -- just.hpp:82, just_error.hpp:73, just_done.hpp:60
  | .leaf _ => true
  | .sleaf _ => false                          -- harness SyncLeaf::sends_done
  | .never => true                             -- never.hpp:107
  | .sched _ _ => true                         -- inline_scheduler.hpp:82, harness scheduler
  | .schedCur _ => true                        -- scheduler_concepts.hpp:209
  | .wsa _ _ c => sendsDone c || true          -- with_scheduler_affinity.hpp:72 = finally.hpp:639 with schedule(s)
  | .un k c =>
    match k with
    | .thenF _ => sendsDone c                  -- then.hpp:158
    | .unstoppable => sendsDone c              -- unstoppable.hpp:49
    | .withSched _ => sendsDone c              -- with_query_value.hpp:137
    | .erase => true                           -- any_sender_of.hpp:255
    | .matDemat => sendsDone c                 -- dematerialize.hpp: source's flag (materialize.hpp: false) OR
                                               -- materializes_done<Source> = materialize.hpp `materializes_done` = c's flag
    | .doneAsOpt _ => false                    -- let_done.hpp:286 (= final sender's) of just (false)
  | .bin k a b =>
    match k with
    | .whenAll => true                         -- when_all.hpp:341
    | .stopWhen => true                        -- stop_when.hpp:326
    | _ => sendsDone a || sendsDone b          -- let_value.hpp:385, sequence.hpp:281, finally.hpp:639

/-! ### The library functions that build compositions -/

/-- via.hpp:52 -/
def via (s : Sched) (j : Nat) (e : Expr) : Expr := .bin .fin e (.sched s j)
/-- typed_via.hpp:22 -/
def typedVia (s : Sched) (j : Nat) (e : Expr) : Expr := via s j e
/-- on.hpp:47-51 -/
def on (s : Sched) (j : Nat) (e : Expr) : Expr := .bin .seq (.sched s j) (.un (.withSched s) e)
/-- with_scheduler_affinity.hpp:113-146 -/
def withAffinity (s : Sched) (j : Nat) (e : Expr) : Expr := if affine e then e else .wsa s j e

/-! ### Operational semantics -/

/-- what an operation can observe through its receiver's stop token at start() -/
structure Env where
  stopped : Bool
  stoppable : Bool
  deriving DecidableEq, Repr

/-- internal events delivered to an operation tree -/
inductive Ev
  | start (env : Env)
  | stop
  | complete (i : Nat) (o : Outcome)
  | fire (k j : Nat)              -- context k executes the queue item tagged j
  deriving DecidableEq, Repr

inductive Out
  | leafStart (i : Nat) (stopped : Bool)
  | leafStop (i : Nat)
  | enq (k j : Nat)               -- an item tagged j was put on the queue of context k
  | fuelOut
  deriving DecidableEq, Repr

inductive Phase | idle | running | finished
  deriving DecidableEq, Repr

structure BinSt where
  ph : Phase
  second : Bool
  env : Env
  ra : Option Outcome
  rb : Option Outcome
  doe : Bool
  err : Option Nat
  src : Bool
  deriving DecidableEq, Repr

def Env.dflt : Env := ⟨false, true⟩
def BinSt.init : BinSt := ⟨.idle, false, Env.dflt, none, none, false, none, false⟩
def Env.stop (env : Env) : Env := if env.stoppable then { env with stopped := true } else env

inductive Op
  | const (k : ConstKind) (ph : Phase)
  | leaf (i : Nat) (ph : Phase)
  | sleaf (i : Nat) (ph : Phase)
  | never (ph : Phase)
  | sched (s : Sched) (j : Nat) (ph : Phase) (stopSeen : Bool)
  | un (k : UnKind) (c : Op) (ph : Phase) (env : Env)
  | bin (k : BinKind) (a b : Op) (st : BinSt)
  deriving DecidableEq, Repr

/-- the scheduler a unary adaptor's child sees through get_scheduler -/
def UnKind.childSched (k : UnKind) (cur : Sched) : Sched :=
  match k with
  | .withSched s => s
  | _ => cur

/-- build the operation tree; `cur` = what get_scheduler(receiver) answers at this position -/
def connect (cur : Sched) : Expr → Op
  | .const k => .const k .idle
  | .leaf i => .leaf i .idle
  | .sleaf i => .sleaf i .idle
  | .never => .never .idle
  | .sched s j => .sched s j .idle false
  | .schedCur j => .sched cur j .idle false
  | .wsa s j c =>
    -- the wrapper's connect forwards to finally(c, unstoppable(schedule(s)))
    .bin .fin (connect cur c) (.un .unstoppable (.sched s j .idle false) .idle Env.dflt) BinSt.init
  | .un k c => .un k (connect (k.childSched cur) c) .idle Env.dflt
  | .bin k a b => .bin k (connect cur a) (connect cur b) BinSt.init

def Op.phase : Op → Phase
  | .const _ ph => ph
  | .leaf _ ph => ph
  | .sleaf _ ph => ph
  | .never ph => ph
  | .sched _ _ ph _ => ph
  | .un _ _ ph _ => ph
  | .bin _ _ _ st => st.ph

def Op.height : Op → Nat
  | .un _ c _ _ => c.height + 1
  | .bin _ a b _ => max a.height b.height + 1
  | _ => 0

/-- the static skeleton of an operation tree (states erased, `schedule()` resolved) -/
def Op.skel : Op → Expr
  | .const k _ => .const k
  | .leaf i _ => .leaf i
  | .sleaf i _ => .sleaf i
  | .never _ => .never
  | .sched s j _ _ => .sched s j
  | .un k c _ _ => .un k c.skel
  | .bin k a b _ => .bin k a.skel b.skel

abbrev Res := Op × List Out × Option Outcome

def ConstKind.outcome : ConstKind → Outcome
  | .just v => .value v
  | .justError e => .error e
  | .justDone => .done

def UnKind.map (k : UnKind) (o : Outcome) : Outcome :=
  match k, o with
  | .thenF f, .value v => f.app v
  | .doneAsOpt d, .done => .value d
  | _, o => o

def UnKind.childEnv (k : UnKind) (env : Env) : Env :=
  match k with
  | .unstoppable => { env with stopped := false, stoppable := false }
  | _ => env

def UnKind.forwardsStop : UnKind → Bool
  | .unstoppable => false
  | _ => true

def whenAllResult (rcvStopped : Bool) (st : BinSt) : Outcome :=
  if rcvStopped then .done
  else if st.doe then (match st.err with | some e => .error e | none => .done)
  else match st.ra, st.rb with
    | some (.value x), some (.value y) => .value ((x * 1000 + y) % 1000003)
    | _, _ => .done

def finResult (saved : Option Outcome) (ob : Outcome) : Outcome :=
  match ob with
  | .value _ => saved.getD (.error 0)   -- (the saved result is always present when the completion sender runs)
  | .error e => .error e
  | .done => .done

variable (specs : Nat → LeafSpec)

abbrev Rec := Ev → Op → Res

def constStep (ev : Ev) (k : ConstKind) (ph : Phase) : Res :=
  match ph, ev with
  | .idle, .start _ => (.const k .finished, [], some k.outcome)
  | _, _ => (.const k ph, [], none)

def leafStep (ev : Ev) (i : Nat) (ph : Phase) : Res :=
  match ph, ev with
  | .idle, .start env =>
    match specs i with
    | .inline o => (.leaf i .finished, [.leafStart i env.stopped], some o)
    | .pending r =>
      if env.stopped then
        match r with
        | .completeDone => (.leaf i .finished, [.leafStart i true, .leafStop i], some .done)
        | .ignore => (.leaf i .running, [.leafStart i true, .leafStop i], none)
      else (.leaf i .running, [.leafStart i false], none)
  | .running, .stop =>
    match specs i with
    | .pending .completeDone => (.leaf i .finished, [.leafStop i], some .done)
    | _ => (.leaf i .running, [.leafStop i], none)
  | .running, .complete j o =>
    if i = j then (.leaf i .finished, [], some o) else (.leaf i ph, [], none)
  | _, _ => (.leaf i ph, [], none)

def sleafStep (ev : Ev) (i : Nat) (ph : Phase) : Res :=
  match ph, ev with
  | .idle, .start env => (.sleaf i .finished, [.leafStart i env.stopped], some (.value i))
  | _, _ => (.sleaf i ph, [], none)

/-- never.hpp: completes with done from its stop callback (inline at start if already stopped) -/
def neverStep (ev : Ev) (ph : Phase) : Res :=
  match ph, ev with
  | .idle, .start env =>
    if env.stopped then (.never .finished, [], some .done) else (.never .running, [], none)
  | .running, .stop => (.never .finished, [], some .done)
  | _, _ => (.never ph, [], none)

/-- schedule(s): inline_scheduler.hpp:54-63 completes in start() (done iff stop was requested);
    the manual scheduler enqueues an item on its context's queue; when the context runs the item it
    completes with value, or done if its receiver's stop token is stopped by then -/
def schedStep (ev : Ev) (s : Sched) (j : Nat) (ph : Phase) (ss : Bool) : Res :=
  match ph, ev with
  | .idle, .start env =>
    match s with
    | .inl => (.sched s j .finished ss, [], some (if env.stopped then .done else .value 0))
    | .man k => (.sched s j .running env.stopped, [.enq k j], none)
  | .running, .stop => (.sched s j .running true, [], none)
  | .running, .fire k' j' =>
    match s with
    | .man k =>
      if k = k' ∧ j = j' then (.sched s j .finished ss, [], some (if ss then .done else .value 0))
      else (.sched s j ph ss, [], none)
    | .inl => (.sched s j ph ss, [], none)
  | _, _ => (.sched s j ph ss, [], none)

def unWrap (k : UnKind) (env : Env) (r : Res) : Res :=
  match r.2.2 with
  | some o => (.un k r.1 .finished env, r.2.1, some (k.map o))
  | none => (.un k r.1 .running env, r.2.1, none)

def unStep (rec : Rec) (ev : Ev) (k : UnKind) (c : Op) (ph : Phase) (env : Env) : Res :=
  match ph, ev with
  | .idle, .start env0 => unWrap k env0 (rec (.start (k.childEnv env0)) c)
  | .running, .stop =>
    if k.forwardsStop then unWrap k env.stop (rec .stop c)
    else (.un k c .running env, [], none)
  | .running, .complete i o => unWrap k env (rec (.complete i o) c)
  | .running, .fire kk j => unWrap k env (rec (.fire kk j) c)
  | _, _ => (.un k c ph env, [], none)

/-! when_all (2 children) — when_all.hpp: own stop source, first failure recorded, receiver stop wins -/

def waRecord (st : BinSt) (isA : Bool) (o : Outcome) : BinSt × Bool :=
  let st1 := if isA then { st with ra := some o } else { st with rb := some o }
  match o with
  | .value _ => (st1, false)
  | .error e =>
    if st1.doe then (st1, false)
    else ({ st1 with doe := true, err := some e }, !st1.src)
  | .done =>
    if st1.doe then (st1, false)
    else ({ st1 with doe := true }, !st1.src)

def waRec (st : BinSt) (isA : Bool) (r : Option Outcome) : BinSt × Bool :=
  match r with
  | some o => waRecord st isA o
  | none => (st, false)

def markSrc (st : BinSt) (b : Bool) : BinSt := if b then { st with src := true } else st

def recIf (rec : Rec) (cond : Bool) (ev : Ev) (x : Op) : Res :=
  if cond then rec ev x else (x, [], none)

/-- finish if a child completed during this event and both results are in -/
def waFinish (a b : Op) (st : BinSt) (outs : List Out) (fired : Bool) : Res :=
  if fired && st.ra.isSome && st.rb.isSome then
    (.bin .whenAll a b { st with ph := .finished }, outs, some (whenAllResult st.env.stopped st))
  else (.bin .whenAll a b st, outs, none)

def waStart (rec : Rec) (a b : Op) (st : BinSt) (env0 : Env) : Res :=
  let st0 : BinSt := { st with ph := .running, env := env0, src := env0.stopped }
  let ra := rec (.start { env0 with stopped := st0.src, stoppable := true }) a
  let st1 := (waRec st0 true ra.2.2).1
  let st1 := markSrc st1 st1.doe
  let rb := rec (.start { env0 with stopped := st1.src, stoppable := true }) b
  let p2 := waRec st1 false rb.2.2
  let st2 := markSrc p2.1 p2.1.doe
  let ra2 := recIf rec (p2.2 && st2.ra.isNone) .stop ra.1
  let st3 := (waRec st2 true ra2.2.2).1
  waFinish ra2.1 rb.1 st3 (ra.2.1 ++ rb.2.1 ++ ra2.2.1)
    (ra.2.2.isSome || rb.2.2.isSome || ra2.2.2.isSome)

def waStop (rec : Rec) (a b : Op) (st : BinSt) : Res :=
  let st0 := { st with env := st.env.stop }
  if st.src then (.bin .whenAll a b st0, [], none)
  else
    let st1 := { st0 with src := true }
    let ra := recIf rec st1.ra.isNone .stop a
    let st2 := (waRec st1 true ra.2.2).1
    let rb := recIf rec st2.rb.isNone .stop b
    let st3 := (waRec st2 false rb.2.2).1
    waFinish ra.1 rb.1 st3 (ra.2.1 ++ rb.2.1) (ra.2.2.isSome || rb.2.2.isSome)

/-- an event that addresses one place in the tree (`complete i o`, `fire k j`) -/
def waPoint (rec : Rec) (ev : Ev) (a b : Op) (st : BinSt) : Res :=
  let ra := rec ev a
  let p1 := waRec st true ra.2.2
  let st1 := markSrc p1.1 p1.2
  let rb1 := recIf rec (p1.2 && st1.rb.isNone) .stop b
  let st2 := (waRec st1 false rb1.2.2).1
  let rb := recIf rec ra.2.2.isNone ev rb1.1
  let p3 := waRec st2 false rb.2.2
  let st3 := markSrc p3.1 p3.2
  let ra2 := recIf rec (p3.2 && st3.ra.isNone) .stop ra.1
  let st4 := (waRec st3 true ra2.2.2).1
  waFinish ra2.1 rb.1 st4 (ra.2.1 ++ rb1.2.1 ++ rb.2.1 ++ ra2.2.1)
    (ra.2.2.isSome || rb1.2.2.isSome || rb.2.2.isSome || ra2.2.2.isSome)

def waStep (rec : Rec) (ev : Ev) (a b : Op) (st : BinSt) : Res :=
  match st.ph, ev with
  | .idle, .start env0 => waStart rec a b st env0
  | .running, .stop => waStop rec a b st
  | .running, .complete i o => waPoint rec (.complete i o) a b st
  | .running, .fire k j => waPoint rec (.fire k j) a b st
  | _, _ => (.bin .whenAll a b st, [], none)

/-! stop_when: a = source, b = trigger; `ra` = source's result, `rb` = trigger completed -/

def swFinish (a b : Op) (st : BinSt) (outs : List Out) (fired : Bool) : Res :=
  if fired && st.ra.isSome && st.rb.isSome then
    (.bin .stopWhen a b { st with ph := .finished }, outs, st.ra)
  else (.bin .stopWhen a b st, outs, none)

def setRa (st : BinSt) (r : Option Outcome) : BinSt :=
  match r with | some o => { st with ra := some o } | none => st
def setRb (st : BinSt) (r : Option Outcome) : BinSt :=
  match r with | some o => { st with rb := some o } | none => st

def swStart (rec : Rec) (a b : Op) (st : BinSt) (env0 : Env) : Res :=
  let st0 : BinSt := { st with ph := .running, env := env0, src := env0.stopped }
  let ra := rec (.start { env0 with stopped := st0.src, stoppable := true }) a
  let st1 := markSrc (setRa st0 ra.2.2) ra.2.2.isSome
  let rb := rec (.start { env0 with stopped := st1.src, stoppable := true }) b
  let st2 := setRb st1 rb.2.2
  let ra2 := recIf rec (rb.2.2.isSome && st2.ra.isNone && !st2.src) .stop ra.1
  let st3 := markSrc (setRa st2 ra2.2.2) rb.2.2.isSome
  swFinish ra2.1 rb.1 st3 (ra.2.1 ++ rb.2.1 ++ ra2.2.1)
    (ra.2.2.isSome || rb.2.2.isSome || ra2.2.2.isSome)

def swStop (rec : Rec) (a b : Op) (st : BinSt) : Res :=
  let st0 := { st with env := st.env.stop }
  if st.src then (.bin .stopWhen a b st0, [], none)
  else
    let st1 := { st0 with src := true }
    let ra := recIf rec st1.ra.isNone .stop a
    let st2 := setRa st1 ra.2.2
    let rb := recIf rec st2.rb.isNone .stop b
    let st3 := setRb st2 rb.2.2
    swFinish ra.1 rb.1 st3 (ra.2.1 ++ rb.2.1) (ra.2.2.isSome || rb.2.2.isSome)

def swPoint (rec : Rec) (ev : Ev) (a b : Op) (st : BinSt) : Res :=
  let ra := rec ev a
  let st1 := setRa st ra.2.2
  let rb1 := recIf rec (ra.2.2.isSome && !st1.src && st1.rb.isNone) .stop b
  let st1 := markSrc st1 ra.2.2.isSome
  let st2 := setRb st1 rb1.2.2
  let rb := recIf rec ra.2.2.isNone ev rb1.1
  let st3 := setRb st2 rb.2.2
  let ra2 := recIf rec (rb.2.2.isSome && !st3.src && st3.ra.isNone) .stop ra.1
  let st3 := markSrc st3 rb.2.2.isSome
  let st4 := setRa st3 ra2.2.2
  swFinish ra2.1 rb.1 st4 (ra.2.1 ++ rb1.2.1 ++ rb.2.1 ++ ra2.2.1)
    (ra.2.2.isSome || rb1.2.2.isSome || rb.2.2.isSome || ra2.2.2.isSome)

def swStep (rec : Rec) (ev : Ev) (a b : Op) (st : BinSt) : Res :=
  match st.ph, ev with
  | .idle, .start env0 => swStart rec a b st env0
  | .running, .stop => swStop rec a b st
  | .running, .complete i o => swPoint rec (.complete i o) a b st
  | .running, .fire k j => swPoint rec (.fire k j) a b st
  | _, _ => (.bin .stopWhen a b st, [], none)

/-! sequential composition: let_value / sequence / finally -/

def BinKind.takes (k : BinKind) (o : Outcome) : Bool :=
  match k, o with
  | .letValue, .value _ => true
  | .seq, .value _ => true
  | .fin, _ => true
  | _, _ => false

def BinKind.finish (k : BinKind) (saved : Option Outcome) (ob : Outcome) : Outcome :=
  match k with
  | .fin => finResult saved ob
  | _ => ob

def seqAfterFirst (rec : Rec) (k : BinKind) (b : Op) (st : BinSt) (env : Env) (ra : Res) : Res :=
  match ra.2.2 with
  | none => (.bin k ra.1 b { st with ph := .running, env := env }, ra.2.1, none)
  | some o =>
    if k.takes o then
      let rb := rec (.start env) b
      match rb.2.2 with
      | some ob =>
        (.bin k ra.1 rb.1 { st with ph := .finished, second := true, env := env, ra := some o },
          ra.2.1 ++ rb.2.1, some (k.finish (some o) ob))
      | none =>
        (.bin k ra.1 rb.1 { st with ph := .running, second := true, env := env, ra := some o },
          ra.2.1 ++ rb.2.1, none)
    else (.bin k ra.1 b { st with ph := .finished, env := env }, ra.2.1, some o)

def seqSecond (k : BinKind) (a : Op) (st : BinSt) (env : Env) (rb : Res) : Res :=
  match rb.2.2 with
  | some ob => (.bin k a rb.1 { st with ph := .finished, env := env }, rb.2.1, some (k.finish st.ra ob))
  | none => (.bin k a rb.1 { st with env := env }, rb.2.1, none)

def seqStep (rec : Rec) (ev : Ev) (k : BinKind) (a b : Op) (st : BinSt) : Res :=
  match st.ph, st.second, ev with
  | .idle, _, .start env0 => seqAfterFirst rec k b st env0 (rec (.start env0) a)
  | .running, false, .stop => seqAfterFirst rec k b st st.env.stop (rec .stop a)
  | .running, false, .complete i o => seqAfterFirst rec k b st st.env (rec (.complete i o) a)
  | .running, false, .fire kk j => seqAfterFirst rec k b st st.env (rec (.fire kk j) a)
  | .running, true, .stop => seqSecond k a st st.env.stop (rec .stop b)
  | .running, true, .complete i o => seqSecond k a st st.env (rec (.complete i o) b)
  | .running, true, .fire kk j => seqSecond k a st st.env (rec (.fire kk j) b)
  | _, _, _ => (.bin k a b st, [], none)

def binStep (rec : Rec) (ev : Ev) (k : BinKind) (a b : Op) (st : BinSt) : Res :=
  match k with
  | .whenAll => waStep rec ev a b st
  | .stopWhen => swStep rec ev a b st
  | _ => seqStep rec ev k a b st

/-- ONE internal event, processed to quiescence (recursion on fuel; `fuel > height` suffices;
    running out of fuel is the observation `Out.fuelOut`) -/
def deliver : Nat → Ev → Op → Res
  | 0, _, op => (op, [.fuelOut], none)
  | _+1, ev, .const k ph => constStep ev k ph
  | _+1, ev, .leaf i ph => leafStep specs ev i ph
  | _+1, ev, .sleaf i ph => sleafStep ev i ph
  | _+1, ev, .never ph => neverStep ev ph
  | _+1, ev, .sched s j ph ss => schedStep ev s j ph ss
  | fuel+1, ev, .un k c ph env => unStep (deliver fuel) ev k c ph env
  | fuel+1, ev, .bin k a b st => binStep (deliver fuel) ev k a b st

/-! ### External events, contexts, run queues -/

inductive XEv
  | start (k : Nat)
  | stop (k : Nat)
  | complete (i : Nat) (o : Outcome) (k : Nat)
  | run (k : Nat) (last : Bool)
  deriving DecidableEq, Repr

/-- the context an external event happens on (= the harness's current context while it is processed) -/
def XEv.ctx : XEv → Nat
  | .start k => k
  | .stop k => k
  | .complete _ _ k => k
  | .run k _ => k

structure St where
  op : Op
  q : List (Nat × Nat)           -- queued items (context, tag), all contexts together
  started : Bool
  stopped : Bool
  deriving DecidableEq, Repr

/-- what processing one external event showed: everything in it was observed on context `ctx` -/
structure Obs where
  ev : XEv
  ctx : Nat
  outs : List Out
  sig : Option Outcome           -- the root receiver's completion signal, if emitted in this event
  bad : Bool                     -- the event was not applicable (ignored)
  deriving DecidableEq, Repr

def enqs : List Out → List (Nat × Nat)
  | [] => []
  | .enq k j :: r => (k, j) :: enqs r
  | _ :: r => enqs r

def Op.pending : Op → List Nat
  | .leaf i ph => if ph = .running then [i] else []
  | .un _ c _ _ => c.pending
  | .bin _ a b _ => a.pending ++ b.pending
  | _ => []

/-- the tag context `k` executes next: smallest queued tag, or largest if `last` -/
def pickTag (q : List (Nat × Nat)) (k : Nat) (last : Bool) : Option Nat :=
  (q.filter (fun p => p.1 = k)).foldl
    (fun (m : Option Nat) p =>
      match m with
      | none => some p.2
      | some j => some (if last then max j p.2 else min j p.2)) none

def initSt (cur : Sched) (e : Expr) : St := ⟨connect cur e, [], false, false⟩

def idleObs (x : XEv) (bad : Bool) : Obs := ⟨x, x.ctx, [], none, bad⟩

/-- deliver an internal event to the root and update the queues -/
def St.apply (st : St) (x : XEv) (ev : Ev) (q : List (Nat × Nat)) (started stopped : Bool) : St × Obs :=
  let r := deliver specs (st.op.height + 1) ev st.op
  (⟨r.1, q ++ enqs r.2.1, started, stopped⟩, ⟨x, x.ctx, r.2.1, r.2.2, false⟩)

def step (st : St) (x : XEv) : St × Obs :=
  match x with
  | .start _ =>
    if st.started then (st, idleObs x true)
    else st.apply specs x (.start ⟨st.stopped, true⟩) st.q true st.stopped
  | .stop _ =>
    if st.stopped then (st, idleObs x false)
    else if !st.started then ({ st with stopped := true }, idleObs x false)
    else st.apply specs x .stop st.q st.started true
  | .complete i o _ =>
    if st.op.pending.contains i then st.apply specs x (.complete i o) st.q st.started st.stopped
    else (st, idleObs x true)
  | .run k last =>
    match pickTag st.q k last with
    | none => (st, idleObs x true)
    | some j => st.apply specs x (.fire k j) (st.q.erase (k, j)) st.started st.stopped

def runX : St → List XEv → List Obs
  | _, [] => []
  | st, x :: xs => (step specs st x).2 :: runX (step specs st x).1 xs

/-- the state after a list of external events -/
def stAfter : St → List XEv → St
  | st, [] => st
  | st, x :: xs => stAfter (step specs st x).1 xs

end Unifex.Ctx
