/-
  Calc/Spec.lean — the denotational reading of the algorithms ("the documented function of the
  children's results", doc/api_reference.md) for expressions whose leaves all complete inline.
  Short enough to read in a minute; `Props/C05.lean` proves that the operational semantics
  (`Calc.deliver`, which is what is compared with the real code) computes exactly this.
-/
import UnifexModel.Calc.Sem

namespace Unifex.Calc

variable (specs : Nat → LeafSpec)

def Outcome.isValue : Outcome → Bool
  | .value _ => true
  | _ => false

/-- when_all of two results: all values, or the first failure (error or done) in completion order -/
def whenAllSpec (oa ob : Outcome) : Outcome :=
  match oa, ob with
  | .value x, .value y => .value ((x * 1000 + y) % 1000003)
  | .value _, .error e => .error e
  | .value _, .done => .done
  | .error e, _ => .error e
  | .done, _ => .done

def evalI : Expr → Env → Outcome
  | .const k, env => k.outcome env
  | .leaf i, _ => match specs i with | .inline o => o | .pending _ => .done
  | .un k c, env => k.map (evalI c (k.childEnv env))
  | .bin k a b, env =>
    match k with
    | .whenAll =>
      -- children see the when_all's own stop source: stopped if the receiver was already stopped,
      -- and for b also if a has failed
      let oa := evalI a { env with stoppable := true }
      let ob := evalI b { env with stopped := env.stopped || !oa.isValue, stoppable := true }
      if env.stopped then .done else whenAllSpec oa ob
    | .stopWhen => evalI a { env with stoppable := true }
    | _ =>
      let oa := evalI a env
      if k.takes oa then k.finish (some oa) (evalI b (k.succEnv env oa)) else oa

/-- all leaves of the expression complete inside start() -/
def Inline : Expr → Prop
  | .const _ => True
  | .leaf i => ∃ o, specs i = .inline o
  | .un _ c => Inline c
  | .bin _ a b => Inline a ∧ Inline b

def Expr.height : Expr → Nat
  | .const _ => 0
  | .leaf _ => 0
  | .un _ c => c.height + 1
  | .bin _ a b => max a.height b.height + 1

end Unifex.Calc
