/-
  Calc/Spec.lean — the denotational reading of the algorithms ("the documented function of the
  children's results", doc/api_reference.md) for expressions whose leaves all complete inline.
  Short enough to read in a minute; `Props/C05.lean` proves that the operational semantics
  (`Calc.deliver`, which is what is compared with the real code) computes exactly this.
-/
import UnifexModel.Calc.Sem

namespace Unifex.Calc

variable (specs : Nat → LeafSpec)

def Outcome.isValue : Outcome → Bool
  | .value _ => true
  | _ => false

/-- when_all of two results: all values, or the first failure (error or done) in completion order -/
def whenAllSpec (oa ob : Outcome) : Outcome :=
  match oa, ob with
  | .value x, .value y => .value ((x * 1000 + y) % 1000003)
  | .value _, .error e => .error e
  | .value _, .done => .done
  | .error e, _ => .error e
  | .done, _ => .done

/-- when_any of two results (a completes first): the first VALUE in completion order is the result,
    unless an error came first; a stop request on the receiver does not discard a value that was
    already produced -/
def whenAnySpec (rcvStopped : Bool) (oa ob : Outcome) : Outcome :=
  let stored : Option Nat :=
    match oa with
    | .value v => some v
    | _ => (match ob with | .value w => some w | _ => none)
  let r : Outcome := if rcvStopped then .done else (match oa with | .error e => .error e | _ => .done)
  match r with
  | .done => (match stored with | some v => .value v | none => .done)
  | x => x

def evalI : Expr → Env → Outcome
  | .const k, env => k.outcome env
  | .leaf i, _ => match specs i with | .inline o => o | .pending _ => .done
  | .un k c, env => k.map (evalI c (k.childEnv env))
  | .bin k a b, env =>
    match k with
    | .whenAll =>
      -- children see the when_all's own stop source: stopped if the receiver was already stopped,
      -- and for b also if a has failed
      let oa := evalI a { env with stoppable := true }
      let ob := evalI b { env with stopped := env.stopped || !oa.isValue, stoppable := true }
      if env.stopped then .done else whenAllSpec oa ob
    | .stopWhen => evalI a { env with stoppable := true }
    | .whenAny =>
      -- built from when_all: every first completion stops the others, so b starts stopped
      let oa := evalI a { env with stoppable := true }
      let ob := evalI b { env with stopped := true, stoppable := true }
      whenAnySpec env.stopped oa ob
    | _ =>
      let oa := evalI a env
      if k.takes oa then k.finish (some oa) (evalI b (k.succEnv env oa)) else oa

/-- `waRecord` for plain when_all, without the when_any preprocessing -/
theorem waRecord_false (st : BinSt) (isA : Bool) (o : Outcome) :
    waRecord false st isA o =
      (let st1 := if isA then { st with ra := some o } else { st with rb := some o }
       match o with
       | .value _ => (st1, false)
       | .error e => if st1.doe then (st1, false) else ({ st1 with doe := true, err := some e }, !st1.src)
       | .done => if st1.doe then (st1, false) else ({ st1 with doe := true }, !st1.src)) := by
  cases o <;> rfl

/-- `waRecord` for when_any: a value is stored (first wins) and then counts as done -/
theorem waRecord_true (st : BinSt) (isA : Bool) (o : Outcome) :
    waRecord true st isA o =
      (let st0 : BinSt := match o with
         | .value v => if st.val.isNone then { st with val := some v } else st
         | _ => st
       let o' : Outcome := match o with | .value _ => .done | x => x
       waRecord false st0 isA o') := by
  cases o <;> simp [waRecord]

/-- all leaves of the expression complete inside start() -/
def Inline : Expr → Prop
  | .const _ => True
  | .leaf i => ∃ o, specs i = .inline o
  | .un _ c => Inline c
  | .bin _ a b => Inline a ∧ Inline b

def Expr.height : Expr → Nat
  | .const _ => 0
  | .leaf _ => 0
  | .un _ c => c.height + 1
  | .bin _ a b => max a.height b.height + 1

end Unifex.Calc
