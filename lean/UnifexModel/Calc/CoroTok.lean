/-
  Calc/CoroTok.lean — "nothing is left registered on the receiver's stop token": the number of stop
  callbacks that the task machinery (the stop-request thunk, or the inplace_stop_token_adapter for a
  foreign token type) has registered on the RECEIVER's stop token (`St.tokRegs`) is at most one, and it
  is zero once the receiver has been completed with a value or an exception; after a done completion
  only the adapter may still be subscribed (until the operation state is destroyed: `onDestroy`).
  Proved preserved by every step and every event (together with `Inv`).
-/
import UnifexModel.Calc.CoroInv
namespace Unifex.Coro
open Unifex.Calc (Outcome)
variable (specs : Nat → LeafSpec)

structure TokInv (s : St) : Prop where
  le : s.tokRegs ≤ 1
  fin : rootTrace s.outs ≠ [] → s.tokRegs = 0 ∨ (s.adapter = true ∧ rootTrace s.outs = [.done])
  idle : s.ctl = .idle → s.tokRegs = 0
  unst : s.stoppable = false → s.tokRegs = 0
  join : s.adapter = false → s.ctl.rootIsDone = true → s.tokRegs = 0

/-- a transition that neither completes the receiver nor touches the registration -/
def Same (s s' : St) : Prop :=
  s'.tokRegs = s.tokRegs ∧ rootTrace s'.outs = rootTrace s.outs ∧ s'.stoppable = s.stoppable ∧
    s'.adapter = s.adapter ∧ ((s'.ctl = .idle → s.ctl = .idle) ∧ (s'.ctl.rootIsDone = true → s.ctl.rootIsDone = true))

theorem Same.refl (s : St) : Same s s := ⟨rfl, rfl, rfl, rfl, id, id⟩

theorem Same.trans {a b c : St} (h1 : Same a b) (h2 : Same b c) : Same a c :=
  ⟨h2.1.trans h1.1, h2.2.1.trans h1.2.1, h2.2.2.1.trans h1.2.2.1, h2.2.2.2.1.trans h1.2.2.2.1,
    fun h => h1.2.2.2.2.1 (h2.2.2.2.2.1 h), fun h => h1.2.2.2.2.2 (h2.2.2.2.2.2 h)⟩

theorem TokInv.of_same {s s' : St} (t : TokInv s) (h : Same s s') : TokInv s' := by
  obtain ⟨h1, h2, h3, h4, h5, h6⟩ := h
  exact ⟨by rw [h1]; exact t.le, by rw [h1, h2, h4]; exact t.fin, fun hc => by rw [h1]; exact t.idle (h5 hc),
    fun hs => by rw [h1]; exact t.unst (by rw [← h3]; exact hs),
    fun ha hc => by rw [h1]; exact t.join (by rw [← h4]; exact ha) (h6 hc)⟩

theorem Same.schedHop (s : St) (k : Nat) (o : Outcome) : Same s (schedHop s k o) := by
  unfold Coro.schedHop; simp only []
  split <;> exact ⟨rfl, by simp [emit, rootTrace], rfl, rfl, (fun h => by cases h), (fun h => by cases h)⟩

theorem Same.leafDone (s : St) (a : Bool) (k : Nat) (o : Outcome) : Same s (leafDone s a k o) := by
  unfold Coro.leafDone
  split
  · exact ⟨rfl, rfl, rfl, rfl, (fun h => by cases h), (fun h => by cases h)⟩
  · exact Same.schedHop s k o

theorem Inv.rootTrace_nil {s : St} (h : Inv s) (hnf : s.ctl ≠ .finished) : rootTrace s.outs = [] := by
  have := h.roots
  simp [hnf] at this
  exact this

theorem TokInv.signal {s : St} (h : Inv s) (t : TokInv s) (o : Outcome) (hnf : s.ctl ≠ .finished)
    (hz : s.adapter = false → s.tokRegs = 0) : TokInv (signal s o) := by
  have hr := h.rootTrace_nil hnf
  have htr := (signal_traces s o).1
  rw [hr] at htr
  refine ⟨?_, ?_, ?_, ?_, ?_⟩
  · unfold Coro.signal; simp only []
    split <;> split <;> simp [emit] <;> exact t.le
  · intro _
    rw [htr]
    by_cases ha : s.adapter = true
    · by_cases ho : o = .done
      · right; subst ho
        exact ⟨by unfold Coro.signal; simp only []; split <;> split <;> simp_all [emit], rfl⟩
      · left
        unfold Coro.signal; simp only []
        split <;> split <;> simp_all [emit]
    · left
      have hz' := hz (by simpa using ha)
      unfold Coro.signal; simp only []
      split <;> split <;> simp_all [emit]
  · intro hc; rw [signal_ctl] at hc; cases hc
  · intro hs
    have h0 := t.unst (by
      unfold Coro.signal at hs; simp only [] at hs
      split at hs <;> split at hs <;> simpa [emit] using hs)
    unfold Coro.signal; simp only []
    split <;> split <;> simp [emit, h0]
  · intro ha _
    have ha' : s.adapter = false := by
      unfold Coro.signal at ha; simp only [] at ha
      split at ha <;> split at ha <;> simpa [emit] using ha
    have h0 := hz ha'
    unfold Coro.signal; simp only []
    split <;> split <;> simp [emit, h0]

theorem TokInv.rootDone {s : St} (h : Inv s) (t : TokInv s) (o : Outcome) (hf : s.frames = []) (hnf : s.ctl ≠ .finished) :
    TokInv (rootDone s o) := by
  have hr := h.rootTrace_nil hnf
  have h0 : Inv { s with tokRegs := 0 } :=
    h.same [] rfl rfl rfl rfl (by simp) (by simp) (fun he => Or.inl he) h.fin (by simp [rootTrace])
  have t0 : TokInv { s with tokRegs := 0 } :=
    ⟨by simp, fun _ => Or.inl rfl, fun _ => rfl, fun _ => rfl, fun _ _ => rfl⟩
  unfold Coro.rootDone; simp only []
  by_cases hso : s.stopOp = true <;> by_cases ha : s.adapter = true
  · rw [if_pos hso, if_pos ha]
    exact ⟨t.le, fun hx => absurd hr hx, (fun hc => by cases hc), t.unst, fun hx => by rw [ha] at hx; cases hx⟩
  · rw [if_pos hso, if_neg ha]
    exact ⟨by simp, fun hx => absurd hr hx, (fun hc => by cases hc), fun _ => rfl, fun _ _ => rfl⟩
  · rw [if_neg hso, if_pos ha]
    exact t.signal h o hnf (fun hx => by rw [ha] at hx; cases hx)
  · rw [if_neg hso, if_neg ha]
    exact t0.signal h0 o hnf (fun _ => rfl)

/-- every internal transition is either the completion of the root task or leaves registration and root
    trace alone -/
theorem step_same_or_root (s : St) :
    (s.frames = [] ∧ ∃ o, (s.ctl = .resume o ∨ s.ctl = .exit o) ∧ step specs s = rootDone s o) ∨
    Same s (step specs s) := by
  unfold step
  split
  · right
    rename_i fr rest hc hf
    have hni : ∀ s' : St, s'.ctl = .idle → s.ctl = .idle → s.ctl = .idle := fun _ _ h => h
    unfold execStep
    split
    · exact ⟨rfl, by simp [beginExit, emit, rootTrace], rfl, rfl, (fun h => by cases h), (fun h => by cases h)⟩
    · exact ⟨rfl, by simp [beginExit, emit, rootTrace], rfl, rfl, (fun h => by cases h), (fun h => by cases h)⟩
    · exact ⟨rfl, by simp [beginExit, emit, rootTrace], rfl, rfl, (fun h => by cases h), (fun h => by cases h)⟩
    · split
      · exact ⟨rfl, rfl, rfl, rfl, (fun h => by cases h), (fun h => by cases h)⟩
      · exact ⟨rfl, rfl, rfl, rfl, (fun h => by rw [hc] at h; cases h), (fun h => by rw [hc] at h; cases h)⟩
    · split
      · exact ⟨rfl, rfl, rfl, rfl, (fun h => by cases h), (fun h => by cases h)⟩
      · exact ⟨rfl, rfl, rfl, rfl, (fun h => by rw [hc] at h; cases h), (fun h => by rw [hc] at h; cases h)⟩
    · simp only []
      have e1 : ∀ (x : Out) (fs : List Frame), rootTrace [x] = [] → Same s (emit { s with frames := fs } x) :=
        fun x fs hx => ⟨rfl, by simp [emit, hx], rfl, rfl, (fun h => by simp [emit, hc] at h), (fun h => by simp [emit, hc, Ctl.rootIsDone] at h)⟩
      split
      · exact (e1 _ _ rfl).trans (Same.leafDone _ _ _ _)
      · exact (e1 _ _ rfl).trans ⟨rfl, rfl, rfl, rfl, (fun h => by cases h), (fun h => by cases h)⟩
    · exact ⟨rfl, by simp [emit, rootTrace], rfl, rfl, (fun h => by simp [emit, hc] at h), (fun h => by simp [emit, hc, Ctl.rootIsDone] at h)⟩
    · simp only []
      have e1 : ∀ (x : Out) (fs : List Frame), rootTrace [x] = [] → Same s (emit { s with frames := fs } x) :=
        fun x fs hx => ⟨rfl, by simp [emit, hx], rfl, rfl, (fun h => by simp [emit, hc] at h), (fun h => by simp [emit, hc, Ctl.rootIsDone] at h)⟩
      have e2 : ∀ (s0 : St) (x : Out), rootTrace [x] = [] → Same s0 (emit s0 x) :=
        fun s0 x hx => ⟨rfl, by simp [emit, hx], rfl, rfl, fun h => h, fun h => h⟩
      split
      · exact (e1 _ _ rfl).trans (Same.leafDone _ _ _ _)
      · split
        · split
          · exact ((e1 _ _ rfl).trans (e2 _ _ rfl)).trans ⟨rfl, rfl, rfl, rfl, (fun h => by cases h), (fun h => by cases h)⟩
          · exact ((e1 _ _ rfl).trans (e2 _ _ rfl)).trans (Same.leafDone _ _ _ _)
        · exact (e1 _ _ rfl).trans ⟨rfl, rfl, rfl, rfl, (fun h => by cases h), (fun h => by cases h)⟩
    · exact ⟨rfl, by simp [emit, rootTrace], rfl, rfl, (fun h => by simp [emit, hc] at h), (fun h => by simp [emit, hc, Ctl.rootIsDone] at h)⟩
    · simp only []
      split <;> split <;> (try split) <;>
        exact ⟨rfl, by simp [emit, rootTrace], rfl, rfl, (fun h => by simp [emit, hc] at h), (fun h => by simp [emit, hc, Ctl.rootIsDone] at h)⟩
  · right
    rename_i o fr rest hc hf
    unfold resumeStep
    split
    · exact ⟨rfl, rfl, rfl, rfl, (fun h => by cases h), (fun h => by cases h)⟩
    · split
      · exact ⟨rfl, rfl, rfl, rfl, (fun h => by cases h), (fun h => by cases h)⟩
      · exact ⟨rfl, by simp [beginExit, emit, rootTrace], rfl, rfl, (fun h => by cases h), (fun h => by cases h)⟩
    · exact ⟨rfl, rfl, rfl, rfl, (fun h => by cases h), (fun h => by cases h)⟩
  · right
    rename_i o fr rest hc hf
    unfold exitStep
    split
    · simp only []
      split
      · exact ⟨rfl, by simp [emit, rootTrace], rfl, rfl, (fun h => by simp [emit, hc] at h), (fun h => by simp [emit, hc, Ctl.rootIsDone] at h)⟩
      · split <;> exact ⟨rfl, by simp [emit, rootTrace], rfl, rfl, (fun h => by simp [emit, hc] at h), (fun h => by simp [emit, hc, Ctl.rootIsDone] at h)⟩
      · split <;> exact ⟨rfl, by simp [emit, rootTrace], rfl, rfl, (fun h => by simp [emit, hc] at h), (fun h => by simp [emit, hc, Ctl.rootIsDone] at h)⟩
    · split
      · exact ⟨rfl, rfl, rfl, rfl, (fun h => by rw [hc] at h; cases h), (fun h => by rw [hc] at h; cases h)⟩
      · exact ⟨rfl, by simp [emit, rootTrace], rfl, rfl, (fun h => by cases h), (fun h => by cases h)⟩
  · rename_i o hc hf
    exact Or.inl ⟨hf, o, Or.inl hc, rfl⟩
  · rename_i o hc hf
    exact Or.inl ⟨hf, o, Or.inr hc, rfl⟩
  · exact Or.inr (Same.refl s)

theorem TokInv.step {s : St} (h : Inv s) (t : TokInv s) : TokInv (step specs s) := by
  rcases step_same_or_root specs s with ⟨hf, o, hc, he⟩ | hs
  · rw [he]
    exact t.rootDone h o hf (by rcases hc with hc | hc <;> rw [hc] <;> simp)
  · exact t.of_same hs

theorem TokInv.iter {s : St} (h : Inv s) (t : TokInv s) (n : Nat) : TokInv (iter specs n s) := by
  induction n generalizing s with
  | zero => exact t
  | succ n ih => exact ih (h.step specs) (t.step specs h)

theorem TokInv.settle {s : St} (h : Inv s) (t : TokInv s) : TokInv (settle specs s) := by
  rw [settle_eq_iter]; exact t.iter specs h _

theorem Same.deliverStop (s : St) : Same s (deliverStop specs s) := by
  unfold Coro.deliverStop; simp only []
  split
  · rename_i i hc
    have e : Same s (emit { s with srcStopped := true } (.leafStop i)) :=
      ⟨rfl, by simp [emit, rootTrace], rfl, rfl, fun h => h, fun h => h⟩
    split
    · exact e.trans (Same.leafDone _ _ _ _)
    · exact e
  · exact ⟨rfl, by simp [emit, rootTrace], rfl, rfl, (fun h => by cases h), (fun h => by cases h)⟩
  · exact ⟨rfl, rfl, rfl, rfl, fun h => h, fun h => h⟩

theorem TokInv.stopOpDone {s : St} (h : Inv s) (t : TokInv s) : TokInv (stopOpDone s) := by
  have h1 : Inv { s with stopOp := false } := h.flags rfl rfl rfl rfl rfl rfl
  have t1 : TokInv { s with stopOp := false } := t.of_same ⟨rfl, rfl, rfl, rfl, fun h => h, fun h => h⟩
  unfold Coro.stopOpDone; simp only []
  split
  · rename_i o hc
    have hc' : s.ctl = .waitJoin o := hc
    exact t1.signal h1 o (by simp [hc']) (fun ha => t.join ha (by rw [hc']; rfl))
  · exact t1

theorem Same.flags {s s' : St} (hc : s'.ctl = s.ctl) (ht : s'.tokRegs = s.tokRegs) (ho : rootTrace s'.outs = rootTrace s.outs)
    (hs : s'.stoppable = s.stoppable) (ha : s'.adapter = s.adapter) : Same s s' :=
  ⟨ht, ho, hs, ha, (fun h => by rw [← hc]; exact h), (fun h => by rw [← hc]; exact h)⟩

theorem TokInv.onStop {s : St} (h : Inv s) (t : TokInv s) : TokInv (onStop specs s) := by
  unfold Coro.onStop
  split
  · exact t
  · have h1 : Inv { s with rootStopped := true } := h.flags rfl rfl rfl rfl rfl rfl
    have t1 : TokInv { s with rootStopped := true } := t.of_same (Same.flags rfl rfl rfl rfl rfl)
    simp only []
    split
    · exact t1
    · have h2 : Inv (emit { s with rootStopped := true, stopOp := true } (.sched 0)) :=
        (h1.flags (s' := { s with rootStopped := true, stopOp := true }) rfl rfl rfl rfl rfl rfl).emitNone _ rfl rfl
      have t2 : TokInv (emit { s with rootStopped := true, stopOp := true } (.sched 0)) :=
        t.of_same (Same.flags rfl rfl (by simp [emit, rootTrace]) rfl rfl)
      split
      · exact ((t2.of_same (Same.deliverStop specs _)).settle specs (Inv.deliverStop specs h2)).stopOpDone
          ((Inv.deliverStop specs h2).settle specs)
      · exact t2.of_same (Same.flags rfl rfl rfl rfl rfl)

theorem TokInv.onStart {s : St} (h : Inv s) (hc : s.ctl = .idle) : TokInv (onStart specs s) := by
  have hr := h.rootTrace_nil (by rw [hc]; simp)
  unfold Coro.onStart
  have key : ∀ s1 : St, Inv s1 → s1.ctl = .idle → rootTrace s1.outs = [] → s1.stoppable = s.stoppable →
      TokInv (Coro.settle specs (emit { s1 with ctl := .exec, frames := startFrames s1.frames, tokRegs := if s.stoppable then 1 else 0 } (.frameStart 0))) := by
    intro s1 h1 hc1 hr1 hst
    have hi1 : Inv (emit { s1 with ctl := .exec, frames := startFrames s1.frames, tokRegs := if s.stoppable then 1 else 0 } (.frameStart 0)) := by
      cases hf : s1.frames with
      | nil =>
        exact h1.same [.frameStart 0] (by simp [emit, startFrames, hf]) rfl rfl rfl rfl (by simp [Out.frame])
          (fun _ => Or.inl (by rw [hc1]; rfl)) (fun he => by cases he) (by simp [hc1, rootTrace, emit])
      | cons fr rest =>
        have hne : s1.ctl.exiting = false := by rw [hc1]; rfl
        exact h1.updTop (fr' := { fr with live := true }) [.frameStart 0] hf (by simp [emit, startFrames]) rfl rfl rfl rfl rfl
          (by simp [Out.frame]) (by simp [regTrace]) (by simp [cleanupTraceOf]) (by simp [deadCount, deadTrace])
          (h1.hist fr (by rw [hf]; simp)) (fun _ => h1.body_head hne fr (by rw [hf]; simp)) rfl (by simp [rootTrace])
    apply TokInv.settle specs hi1
    refine ⟨?_, ?_, ?_, ?_, ?_⟩
    · show (if s.stoppable then 1 else 0) ≤ 1
      split <;> omega
    · intro hx; exfalso; apply hx
      show rootTrace (s1.outs ++ [Out.frameStart 0]) = []
      rw [rootTrace_append, hr1]; rfl
    · intro hx; cases hx
    · intro hx
      have : s.stoppable = false := by rw [← hst]; exact hx
      show (if s.stoppable then 1 else 0) = 0
      simp [this]
    · intro _ hx; cases hx
  split
  · split
    · exact key _ ((h.emitNone (.sched 0) rfl rfl).flags rfl rfl rfl rfl rfl rfl) hc (by show rootTrace (s.outs ++ [Out.sched 0]) = []; rw [rootTrace_append, hr]; rfl) rfl
    · exact key _ ((h.emitNone (.sched 0) rfl rfl).flags rfl rfl rfl rfl rfl rfl) hc (by show rootTrace (s.outs ++ [Out.sched 0]) = []; rw [rootTrace_append, hr]; rfl) rfl
  · exact key _ h hc hr rfl

theorem TokInv.onRun {s : St} (h : Inv s) (t : TokInv s) : TokInv (onRun specs s) := by
  unfold Coro.onRun
  split
  · exact t
  · rename_i o q hq
    split
    · rename_i hc
      exact (t.of_same (s' := { s with queue := q, ctl := .resume o })
          ⟨rfl, rfl, rfl, rfl, (fun h => by cases h), (fun h => by cases h)⟩).settle specs
        (h.ctlOnly [] rfl rfl rfl rfl (by simp) (by simp) rfl (fun _ => by rw [hc]; rfl) rfl (by rw [hc]; simp))
    · exact t.of_same (Same.flags rfl rfl rfl rfl rfl)
  · rename_i q hq
    split
    · rename_i k hc
      exact (t.of_same (s' := { s with queue := q, ctl := .exec })
          ⟨rfl, rfl, rfl, rfl, (fun h => by cases h), (fun h => by cases h)⟩).settle specs
        (h.ctlOnly [] rfl rfl rfl rfl (by simp) (by simp) rfl (fun _ => by rw [hc]; rfl) rfl (by rw [hc]; simp))
    · exact t.of_same (Same.flags rfl rfl rfl rfl rfl)
  · rename_i q hq
    split
    · rename_i o hc
      exact (t.of_same (s' := { s with queue := q, ctl := .exit o })
          ⟨rfl, rfl, rfl, rfl, (fun h => by cases h), (fun h => by cases h)⟩).settle specs
        (h.same [] rfl rfl rfl rfl (by simp) (by simp) (fun he => by cases he) (fun he => by cases he)
          (by simp [hc, rootTrace]))
    · exact t.of_same (Same.flags rfl rfl rfl rfl rfl)
  · rename_i q hq
    have h1 : Inv { s with queue := q } := h.flags rfl rfl rfl rfl rfl rfl
    have t1 : TokInv { s with queue := q } := t.of_same (Same.flags rfl rfl rfl rfl rfl)
    exact ((t1.of_same (Same.deliverStop specs _)).settle specs (Inv.deliverStop specs h1)).stopOpDone
      ((Inv.deliverStop specs h1).settle specs)

theorem TokInv.onComplete {s : St} (h : Inv s) (t : TokInv s) (i : Nat) (o : Outcome) : TokInv (onComplete specs s i o) := by
  unfold Coro.onComplete
  split
  · rename_i j hc
    split
    · exact (t.of_same (Same.leafDone _ _ _ _)).settle specs (h.leafDone _ _ _ (by rw [hc]; rfl) (by rw [hc]; simp))
    · exact t
  · rename_i j hc
    split
    · exact (t.of_same (Same.leafDone _ _ _ _)).settle specs (h.leafDone _ _ _ (by rw [hc]; rfl) (by rw [hc]; simp))
    · exact t
  · rename_i j x hc
    split
    · split
      · exact (t.of_same (s' := { s with ctl := .exit x })
            ⟨rfl, rfl, rfl, rfl, (fun h => by cases h), (fun h => by cases h)⟩).settle specs
          (h.same [] rfl rfl rfl rfl (by simp) (by simp) (fun he => by cases he) (fun he => by cases he)
            (by simp [hc, rootTrace]))
      · exact t.of_same ⟨rfl, by simp [emit, rootTrace], rfl, rfl, (fun h => by cases h), (fun h => by cases h)⟩
    · exact t
  · exact t

theorem TokInv.init (p : Prog) (b st ad : Bool) : TokInv (St.init p b st ad) :=
  ⟨by simp [St.init], fun hx => by simp [St.init, rootTrace] at hx, fun _ => rfl, fun _ => rfl, fun _ _ => rfl⟩

theorem TokInv.deliver {s : St} (h : Inv s) (t : TokInv s) (ev : Ev) (hev : ev ≠ .destroy) :
    TokInv (deliver specs ev s) := by
  cases ev with
  | start =>
    simp only [Coro.deliver]
    split
    · rename_i hc; exact TokInv.onStart specs h hc
    · exact t
  | stop => exact t.onStop specs h
  | run => exact t.onRun specs h
  | complete i o => exact t.onComplete specs h i o
  | destroy => exact absurd rfl hev

theorem TokInv.runEvents {s : St} (h : Inv s) (t : TokInv s) (evs : List Ev) (hev : ∀ ev ∈ evs, ev ≠ .destroy) :
    TokInv (runEvents specs s evs) := by
  induction evs generalizing s with
  | nil => exact t
  | cons ev evs ih =>
    exact ih (h.deliver specs ev (hev ev List.mem_cons_self)) (t.deliver specs h ev (hev ev List.mem_cons_self))
      (fun e he => hev e (List.mem_cons_of_mem _ he))

end Unifex.Coro
