/-
  Calc/StreamLemmas.lean — facts about `Stream.deliver` used by the property theorems of C13.

  Part 1 (this file): streams whose sources all complete INLINE.  `Op.den` is the denotation of the
  REMAINING elements in a given state; `pull_inline` says one `next` call returns exactly the head of
  the denotation (or the end), leaves a state whose denotation is the tail, and never runs out of
  fuel when `fuel ≥ Op.need`; `clean_inline` says `cleanup` completes inline with `Op.cden`.
-/
import UnifexModel.Calc.StreamSpec
namespace Unifex.Stream
open Unifex.Calc (Outcome Fn)
variable (specs : Nat → SrcSpec)

def leafDen (k : LeafKind) (st : LeafSt) : Den :=
  match k with
  | .range lo hi => (List.range' (lo + st.k) (hi - (lo + st.k)), none)
  | .single v => if st.k = 0 then ([v], none) else ([], none)
  | .never => ([], none)
  | .src i => scriptDen ((specs i).nexts.drop st.k)

def Op.den : Op → Bool → Den
  | .leaf k st, _ => leafDen specs k st
  | .un k c, s => k.den (c.den s)
  | .filter p c _, s => filterDen p (c.den s).1 (c.den s).2
  | .stopImm c st, s => if s then ([], none) else c.den st.src
  | .takeUntil a _ _, _ => a.den true

def LeafKind.Inl : LeafKind → Prop
  | .src i => (specs i).Inline
  | .never => False
  | _ => True

/-- what `next` must deliver, given the denotation before (`d`) and after (`d'`) -/
def PullSpec (d : Den) (o : Outcome) (d' : Den) (lt : Prop) : Prop :=
  match d with
  | (x :: xs, t) => o = .value x ∧ d' = (xs, t) ∧ lt
  | ([], none) => o = .done
  | ([], some e) => o = .error e

theorem leaf_pull (k : LeafKind) (st : LeafSt) (stopped : Bool) (hph : st.ph = .idle) (hk : k.Inl specs) :
    ∃ o outs, leafStep specs (.next stopped) k st = (.leaf k { st with k := st.k + 1 }, outs, some (.next o)) ∧
      PullSpec (leafDen specs k st) o (leafDen specs k { st with k := st.k + 1 })
        (leafRem specs k { st with k := st.k + 1 } < leafRem specs k st) := by
  cases k with
  | range lo hi =>
    by_cases h : lo + st.k < hi
    · refine ⟨.value (lo + st.k), [], ?_, ?_⟩
      · simp [leafStep, hph, LeafKind.entry, h, LeafKind.obs]
      · have : hi - (lo + st.k) = (hi - (lo + st.k) - 1) + 1 := by omega
        simp only [leafDen]
        rw [this, List.range'_succ]
        simp only [PullSpec, leafRem, hph]
        refine ⟨trivial, ?_, by omega⟩
        have e1 : lo + st.k + 1 = lo + (st.k + 1) := by omega
        have e2 : hi - (lo + st.k) - 1 = hi - (lo + (st.k + 1)) := by omega
        rw [e1, e2]
    · refine ⟨.done, [], ?_, ?_⟩
      · simp [leafStep, hph, LeafKind.entry, h, LeafKind.obs]
      · have : hi - (lo + st.k) = 0 := by omega
        simp [leafDen, this, PullSpec]
  | single v =>
    by_cases h : st.k = 0
    · refine ⟨.value v, [], ?_, ?_⟩
      · simp [leafStep, hph, LeafKind.entry, h, LeafKind.obs]
      · simp [leafDen, h, PullSpec, leafRem, hph]
    · refine ⟨.done, [], ?_, ?_⟩
      · simp [leafStep, hph, LeafKind.entry, h, LeafKind.obs]
      · simp [leafDen, h, PullSpec]
  | never => exact absurd hk (by simp [LeafKind.Inl])
  | src i =>
    simp only [LeafKind.Inl, SrcSpec.Inline] at hk
    by_cases h : st.k < (specs i).nexts.length
    · obtain ⟨o, ho⟩ := hk.1 _ (List.getElem_mem h)
      refine ⟨o, [.nextStart i stopped, .nextDone i], ?_, ?_⟩
      · simp [leafStep, hph, LeafKind.entry, h, ho, LeafKind.obs, LeafKind.id]
      · simp only [leafDen]
        rw [List.drop_eq_getElem_cons h, ho]
        cases o with
        | value v => simp [scriptDen, NextSpec.outcome, PullSpec, leafRem, hph]; omega
        | error e => simp [scriptDen, NextSpec.outcome, PullSpec]
        | done => simp [scriptDen, NextSpec.outcome, PullSpec]
    · refine ⟨.done, [.nextStart i stopped, .nextDone i], ?_, ?_⟩
      · have : (specs i).nexts[st.k]? = none := by simp; omega
        simp [leafStep, hph, LeafKind.entry, this, LeafKind.obs, LeafKind.id]
      · have : (specs i).nexts.drop st.k = [] := by simp; omega
        simp [leafDen, this, scriptDen, PullSpec]

/-- quiescent state of an all-inline stream; `pulled` = every take_until in it has started its trigger -/
def St : Bool → Op → Prop
  | _, .leaf k st => st.ph = .idle ∧ k.Inl specs
  | b, .un _ c => St b c
  | b, .filter _ c _ => St b c
  | _, .stopImm c st =>
    st.ph = .idle ∧ st.src = false ∧ st.nextErr = none ∧
      ((st.s = .notStarted ∧ St false c) ∨ (st.s = .completed ∧ St true c))
  | b, .takeUntil a t st =>
    st.ph = .idle ∧ st.srcRunning = false ∧ st.trigRunning = false ∧ st.joined = false ∧
    st.srcErr = none ∧ st.trigErr = none ∧
      ((b = false ∧ st.trigStarted = false ∧ st.src = false ∧ st.ready = false ∧ St false a ∧ St false t) ∨
       (st.trigStarted = true ∧ st.src = true ∧ st.ready = true ∧ St true a ∧ St true t))

theorem St.weaken {op : Op} (h : St specs true op) : St specs false op := by
  induction op with
  | leaf k st => exact h
  | un k c ih => exact ih h
  | filter p c s ih => exact ih h
  | stopImm c st ih => exact h
  | takeUntil a t st iha iht =>
    simp only [St] at h ⊢
    obtain ⟨h1, h2, h3, h4, h5, h6, h7⟩ := h
    refine ⟨h1, h2, h3, h4, h5, h6, ?_⟩
    rcases h7 with h7 | h7
    · simp at h7
    · exact Or.inr h7

/-- result of cleanup() in the current state -/
def Op.cden : Op → Option Nat
  | .leaf k _ => (k.clean specs).err
  | .un k c => (k.mapClean c.cden).1
  | .filter _ c _ => c.cden
  | .stopImm c st => (match st.s with | .notStarted => none | _ => c.cden)
  | .takeUntil a t _ => firstErr a.cden t.cden

/-- result of cleanup() after one more next() with the given stop flag -/
def Op.cdenNext : Op → Bool → Option Nat
  | .leaf k _, _ => (k.clean specs).err
  | .un k c, s => (k.mapClean (c.cdenNext s)).1
  | .filter _ c _, s => c.cdenNext s
  | .stopImm c st, s => if s then (match st.s with | .notStarted => none | _ => c.cden specs) else c.cdenNext st.src
  | .takeUntil a t st, _ =>
    firstErr (a.cdenNext true) (if st.trigStarted then t.cden specs else t.cdenNext false)

theorem mapDen_nil (f : Fn) (t : Option Nat) : mapDen f [] t = ([], t) := rfl

theorem un_pullSpec (k : UnKind) (d d' : Den) (o : Outcome) (lt : Prop) (h : PullSpec d o d' lt) :
    PullSpec (k.den d) (k.mapNext o) (k.den d') lt := by
  obtain ⟨l, t⟩ := d
  cases l with
  | nil =>
    cases t with
    | none => simp only [PullSpec] at h; subst h; cases k <;> simp [UnKind.den, UnKind.mapNext, PullSpec, mapDen]
    | some e => simp only [PullSpec] at h; subst h; cases k <;> simp [UnKind.den, UnKind.mapNext, PullSpec, mapDen]
  | cons x xs =>
    simp only [PullSpec] at h
    obtain ⟨h1, h2, h3⟩ := h
    subst h1; subst h2
    cases k with
    | transform f =>
      simp only [UnKind.den, UnKind.mapNext, mapDen]
      cases hf : f.app x <;> simp [PullSpec, h3]
    | nextAdapt f =>
      simp only [UnKind.den, UnKind.mapNext, mapDen]
      cases hf : f.app x <;> simp [PullSpec, h3]
    | typeErase => simp [UnKind.den, UnKind.mapNext, PullSpec, h3]
    | cleanupAdapt c => simp [UnKind.den, UnKind.mapNext, PullSpec, h3]


theorem Op.need_pos (op : Op) : 1 ≤ op.need specs := by
  cases op <;> simp [Op.need]

structure PullOK (op : Op) (stopped : Bool) (r : Res) : Prop where
  sig : ∃ o, r.2.2 = some (.next o) ∧
    PullSpec (op.den specs stopped) o (r.1.den specs stopped) (r.1.need specs < op.need specs)
  st : St specs true r.1
  need : r.1.need specs ≤ op.need specs
  cden : r.1.cden specs = op.cdenNext specs stopped
  cdenNext : r.1.cdenNext specs stopped = op.cdenNext specs stopped

theorem filter_pullSpec_keep (p : Pred) (x : Nat) (xs : List Nat) (t : Option Nat) (d' : Den) (lt : Prop)
    (hd' : d' = (xs, t)) (hlt : lt) (hp : p.app x = .keep) :
    PullSpec (filterDen p (x :: xs) t) (.value x) (filterDen p d'.1 d'.2) lt := by
  subst hd'; simp [filterDen, hp, PullSpec, hlt]

theorem PullSpec.mono {d d' : Den} {o : Outcome} {lt lt' : Prop} (h : lt → lt') (hp : PullSpec d o d' lt) :
    PullSpec d o d' lt' := by
  obtain ⟨l, t⟩ := d
  cases l with
  | nil => cases t <;> exact hp
  | cons x xs => exact ⟨hp.1, hp.2.1, h hp.2.2⟩

theorem tu_next_started (rec : Rec) (stopped : Bool) (a t a' : Op) (st : TakeSt) (outs : List Out) (o : Outcome)
    (hph : st.ph = .idle) (h1 : st.trigStarted = true) (h2 : st.src = true)
    (ha : rec (.next true) a = (a', outs, some (.next o))) :
    takeStep rec (.next stopped) a t st =
      (.takeUntil a' t { st with ph := .idle, srcRunning := false }, outs, some (.next o)) := by
  cases stopped <;> cases o <;>
    simp [takeStep, takeNext, takeTrigStart, takeSrcStart, hph, h1, h2, ha, tuRequestStop, tuOnSrcNext, TU.res]

theorem tu_next_unstarted (rec : Rec) (stopped : Bool) (a t a' t' : Op) (st : TakeSt) (outs1 outs2 : List Out)
    (o ot : Outcome)
    (hph : st.ph = .idle) (h1 : st.trigStarted = false) (h2 : st.src = false) (h3 : st.ready = false)
    (h5 : st.srcRunning = false)
    (ht : rec (.next false) t = (t', outs1, some (.next ot)))
    (ha : rec (.next true) a = (a', outs2, some (.next o))) :
    takeStep rec (.next stopped) a t st =
      (.takeUntil a' t' { st with ph := .idle, srcRunning := false, trigStarted := true, trigRunning := false,
                                  src := true, ready := true }, outs1 ++ outs2, some (.next o)) := by
  cases stopped <;> cases o <;>
    simp [takeStep, takeNext, takeTrigStart, takeSrcStart, hph, h1, h2, h3, h5, ha, ht, tuRequestStop, tuOnSrcNext, tuOnTrigNext, tuStopTrig, TU.res]

theorem pull_inline : ∀ (fuel : Nat) (op : Op) (stopped : Bool), St specs false op → op.need specs ≤ fuel →
    PullOK specs op stopped (deliver specs fuel (.next stopped) op) := by
  intro fuel
  induction fuel with
  | zero => intro op _ _ h; have := Op.need_pos specs op; omega
  | succ f ih =>
    intro op stopped hst hfuel
    cases op with
    | leaf k st =>
      obtain ⟨hph, hk⟩ := hst
      obtain ⟨o, outs, he, hs⟩ := leaf_pull specs k st stopped hph hk
      simp only [deliver, he]
      exact ⟨⟨o, rfl, by simpa [Op.den, Op.need] using hs⟩, ⟨hph, hk⟩, by
        simp only [Op.need]
        have : leafRem specs k { st with k := st.k + 1 } ≤ leafRem specs k st := by
          cases k <;> simp [leafRem, hph] <;> omega
        omega, rfl, rfl⟩
    | un k c =>
      have hc := ih c stopped hst (by simp [Op.need] at hfuel; omega)
      obtain ⟨o, ho, hs⟩ := hc.sig
      simp only [deliver, unStep, ho]
      exact ⟨⟨k.mapNext o, rfl, by
          simp only [Op.den, Op.need]
          exact un_pullSpec k _ _ o _ (by simpa using hs)⟩,
        hc.st, by simp [Op.need]; exact hc.need, by simp [Op.cden, Op.cdenNext, hc.cden],
        by simp [Op.cdenNext, hc.cdenNext]⟩
    | filter p c s0 =>
      have hc := ih c stopped hst (by simp [Op.need] at hfuel; omega)
      obtain ⟨o, ho, hs⟩ := hc.sig
      simp only [deliver, filterStep]
      generalize hr : deliver specs f (.next stopped) c = r at *
      obtain ⟨c', outs, sg⟩ := r
      simp only at ho hs
      subst ho
      have hneed := hc.need
      have hcd := hc.cden
      have hcn := hc.cdenNext
      have hst' := hc.st
      simp only at hneed hcd hcn hst'
      cases hd : c.den specs stopped with
      | mk l t =>
      rw [hd] at hs
      cases l with
      | nil =>
        have ho : o = .done ∨ ∃ e, o = .error e := by
          cases t with
          | none => left; exact hs
          | some e => right; exact ⟨e, hs⟩
        have hfa : filterAfter (deliver specs f) p stopped (c', outs, some (Sig.next o)) =
            (.filter p c' stopped, outs, some (.next o)) := by
          rcases ho with ho | ⟨e, ho⟩ <;> subst ho <;> simp [filterAfter]
        rw [hfa]
        refine ⟨⟨o, rfl, ?_⟩, hst', by simp [Op.need]; exact hneed, by simp [Op.cden, Op.cdenNext, hcd],
          by simp [Op.cdenNext, hcn]⟩
        simp only [Op.den, hd]
        cases t <;> simpa [filterDen, PullSpec] using hs
      | cons x xs =>
        obtain ⟨ho, hd', hlt⟩ := hs
        subst ho
        cases hp : p.app x with
        | keep =>
          have hfa : filterAfter (deliver specs f) p stopped (c', outs, some (Sig.next (.value x))) =
              (.filter p c' stopped, outs, some (.next (.value x))) := by simp [filterAfter, hp]
          rw [hfa]
          refine ⟨⟨_, rfl, ?_⟩, hst', by simp [Op.need]; exact hneed, by simp [Op.cden, Op.cdenNext, hcd],
            by simp [Op.cdenNext, hcn]⟩
          simp only [Op.den, hd, Op.need]
          exact filter_pullSpec_keep p x xs t _ _ hd' (by omega) hp
        | throw e =>
          have hfa : filterAfter (deliver specs f) p stopped (c', outs, some (Sig.next (.value x))) =
              (.filter p c' stopped, outs, some (.next (.error e))) := by simp [filterAfter, hp]
          rw [hfa]
          refine ⟨⟨_, rfl, ?_⟩, hst', by simp [Op.need]; exact hneed, by simp [Op.cden, Op.cdenNext, hcd],
            by simp [Op.cdenNext, hcn]⟩
          simp [Op.den, hd, filterDen, hp, PullSpec]
        | drop =>
          have h2 := ih (.filter p c' stopped) stopped (St.weaken specs hst') (by
            simp [Op.need] at hfuel ⊢; omega)
          have hfa : filterAfter (deliver specs f) p stopped (c', outs, some (Sig.next (.value x))) =
              ((deliver specs f (.next stopped) (.filter p c' stopped)).1,
               outs ++ (deliver specs f (.next stopped) (.filter p c' stopped)).2.1,
               (deliver specs f (.next stopped) (.filter p c' stopped)).2.2) := by simp [filterAfter, hp]
          rw [hfa]
          obtain ⟨o2, ho2, hs2⟩ := h2.sig
          refine ⟨⟨o2, ho2, ?_⟩, h2.st, ?_, ?_, ?_⟩
          · simp only [Op.den, hd, filterDen, hp]
            simp only [Op.den, hd'] at hs2
            refine PullSpec.mono (fun h => ?_) hs2
            simp only [Op.need] at h ⊢; omega
          · have := h2.need; simp only [Op.need] at this ⊢; omega
          · rw [h2.cden]; simp [Op.cdenNext, hcn]
          · rw [h2.cdenNext]; simp [Op.cdenNext, hcn]
    | stopImm c st =>
      obtain ⟨hph, hsrc, herr, hs⟩ := hst
      cases stopped with
      | true =>
        simp only [deliver, stopImmStep, hph, if_true]
        exact ⟨⟨.done, rfl, by simp [Op.den, PullSpec]⟩, ⟨hph, hsrc, herr, hs⟩, Nat.le_refl _,
          by simp [Op.cden, Op.cdenNext], rfl⟩
      | false =>
        have hc0 : St specs false c := by
          rcases hs with ⟨_, h⟩ | ⟨_, h⟩
          · exact h
          · exact St.weaken specs h
        have hc := ih c false hc0 (by simp [Op.need] at hfuel; omega)
        obtain ⟨o, ho, hsp⟩ := hc.sig
        simp only [deliver, stopImmStep, hph, hsrc, Bool.false_eq_true, if_false]
        generalize hr : deliver specs f (.next false) c = r at *
        obtain ⟨c', outs, sg⟩ := r
        simp only at ho hsp
        subst ho
        have hneed := hc.need
        have hcd := hc.cden
        have hcn := hc.cdenNext
        have hst' := hc.st
        simp only at hneed hcd hcn hst'
        simp only [siOnChild]
        refine ⟨⟨o, rfl, ?_⟩, ⟨rfl, rfl, herr, Or.inr ⟨rfl, hst'⟩⟩, by simp [Op.need]; exact hneed, ?_, ?_⟩
        · simp only [Op.den, hsrc, Bool.false_eq_true, if_false, Op.need]
          refine PullSpec.mono (fun h => ?_) hsp
          omega
        · simp [Op.cden, Op.cdenNext, hsrc, hcd]
        · simp [Op.cdenNext, hsrc, hcn]
    | takeUntil a t st =>
      obtain ⟨hph, hsr, htr, hj, hse, hte, hs⟩ := hst
      have hfa : a.need specs ≤ f := by simp [Op.need] at hfuel; omega
      have hft : t.need specs ≤ f := by simp [Op.need] at hfuel; omega
      rcases hs with ⟨_, h1, h2, h3, hsa, hstt⟩ | ⟨h1, h2, h3, hsa, hstt⟩
      · have hc := ih a true hsa hfa
        have hct := ih t false hstt hft
        obtain ⟨o, ho, hsp⟩ := hc.sig
        obtain ⟨ot, hot, _⟩ := hct.sig
        have hn1 := hc.need; have hn2 := hct.need
        have hcd1 := hc.cden; have hcd2 := hct.cden; have hcn1 := hc.cdenNext
        have hs1 := hc.st; have hs2 := hct.st
        simp only [deliver]
        generalize hr : deliver specs f (.next true) a = r at *
        obtain ⟨a', outs2, sg⟩ := r
        generalize hr2 : deliver specs f (.next false) t = r2 at *
        obtain ⟨t', outs1, sg2⟩ := r2
        simp only at ho hot hsp hn1 hn2 hcd1 hcd2 hcn1 hs1 hs2
        subst ho; subst hot
        rw [tu_next_unstarted (deliver specs f) stopped a t a' t' st outs1 outs2 o ot hph h1 h2 h3 hsr hr2 hr]
        refine ⟨⟨o, rfl, ?_⟩, ⟨rfl, rfl, rfl, hj, hse, hte, Or.inr ⟨rfl, rfl, rfl, hs1, hs2⟩⟩, ?_, ?_, ?_⟩
        · simp only [Op.den, Op.need]
          refine PullSpec.mono (fun h => ?_) hsp
          omega
        · simp only [Op.need]; omega
        · simp [Op.cden, Op.cdenNext, h1, hcd1, hcd2]
        · simp [Op.cdenNext, hcn1, hcd2, h1]
      · have hc := ih a true (St.weaken specs hsa) hfa
        obtain ⟨o, ho, hsp⟩ := hc.sig
        have hn1 := hc.need
        have hcd1 := hc.cden; have hcn1 := hc.cdenNext
        have hs1 := hc.st
        simp only [deliver]
        generalize hr : deliver specs f (.next true) a = r at *
        obtain ⟨a', outs2, sg⟩ := r
        simp only at ho hsp hn1 hcd1 hcn1 hs1
        subst ho
        rw [tu_next_started (deliver specs f) stopped a t a' st outs2 o hph h1 h2 hr]
        refine ⟨⟨o, rfl, ?_⟩, ⟨rfl, rfl, htr, hj, hse, hte, Or.inr ⟨h1, h2, h3, hs1, hstt⟩⟩, ?_, ?_, ?_⟩
        · simp only [Op.den, Op.need]
          refine PullSpec.mono (fun h => ?_) hsp
          omega
        · simp only [Op.need]; omega
        · simp [Op.cden, Op.cdenNext, h1, hcd1]
        · simp [Op.cdenNext, hcn1, h1]

theorem tu_cleanup_started (rec : Rec) (a t a' t' : Op) (st : TakeSt) (o1 o2 : List Out) (ea et : Option Nat)
    (hph : st.ph = .idle) (h3 : st.ready = true) (hj : st.joined = false) (hse : st.srcErr = none)
    (hte : st.trigErr = none)
    (ha : rec .cleanup a = (a', o1, some (.clean ea)))
    (ht : rec .cleanup t = (t', o2, some (.clean et))) :
    ∃ st', takeStep rec .cleanup a t st =
      (.takeUntil a' t' st', o1 ++ o2, some (.clean (firstErr ea et))) := by
  cases ea <;> cases et <;>
    simp [takeStep, takeCleanup, takeCleanupTail, hph, h3, hj, hse, hte, ha, ht, tuJoinSrc, tuJoinTrig, tuJoin, tuStartTrigCleanup, TU.res, firstErr]

theorem tu_cleanup_started' (rec : Rec) (a t : Op) (st : TakeSt) (ea et : Option Nat)
    (hph : st.ph = .idle) (h3 : st.ready = true) (hj : st.joined = false) (hse : st.srcErr = none)
    (hte : st.trigErr = none)
    (ha : (rec .cleanup a).2.2 = some (.clean ea))
    (ht : (rec .cleanup t).2.2 = some (.clean et)) :
    (takeStep rec .cleanup a t st).2.2 = some (.clean (firstErr ea et)) := by
  obtain ⟨st', h⟩ := tu_cleanup_started rec a t _ _ st _ _ ea et hph h3 hj hse hte
    (Prod.ext rfl (Prod.ext rfl ha)) (Prod.ext rfl (Prod.ext rfl ht))
  rw [h]

theorem clean_inline : ∀ (fuel : Nat) (op : Op), St specs true op → op.need specs ≤ fuel →
    (deliver specs fuel .cleanup op).2.2 = some (.clean (op.cden specs)) := by
  intro fuel
  induction fuel with
  | zero => intro op _ h; have := Op.need_pos specs op; omega
  | succ f ih =>
    intro op hst hfuel
    cases op with
    | leaf k st =>
      obtain ⟨hph, hk⟩ := hst
      cases k with
      | range lo hi => simp [deliver, leafStep, hph, LeafKind.clean, Op.cden, CleanSpec.err]
      | single v => simp [deliver, leafStep, hph, LeafKind.clean, Op.cden, CleanSpec.err]
      | never => exact absurd hk (by simp [LeafKind.Inl])
      | src i =>
        obtain ⟨e, he⟩ := hk.2
        simp [deliver, leafStep, hph, LeafKind.clean, Op.cden, CleanSpec.err, he]
    | un k c =>
      have hc := ih c hst (by simp [Op.need] at hfuel; omega)
      simp [deliver, unStep, hc, Op.cden]
    | filter p c s0 =>
      have hc := ih c hst (by simp [Op.need] at hfuel; omega)
      simp [deliver, filterStep, hc, Op.cden, filterAfter]
    | stopImm c st =>
      obtain ⟨hph, hsrc, herr, hs⟩ := hst
      rcases hs with ⟨h1, _⟩ | ⟨h1, h2⟩
      · simp [deliver, stopImmStep, hph, h1, Op.cden]
      · have hc := ih c h2 (by simp [Op.need] at hfuel; omega)
        simp [deliver, stopImmStep, hph, h1, hc, siOnClean, herr, Op.cden, firstErr]
    | takeUntil a t st =>
      obtain ⟨hph, hsr, htr, hj, hse, hte, hs⟩ := hst
      rcases hs with ⟨h0, _⟩ | ⟨h1, h2, h3, hsa, hstt⟩
      · simp at h0
      · have ha := ih a hsa (by simp [Op.need] at hfuel; omega)
        have ht := ih t hstt (by simp [Op.need] at hfuel; omega)
        simp only [deliver, Op.cden]
        exact tu_cleanup_started' (deliver specs f) a t st _ _ hph h3 hj hse hte ha ht

/-- what the consumer ends with: delivered elements, result -/
structure ConsOK (rt0 : Root) (op : Op) (l : List Nat) (t : Option Nat) (p : Root × List Out) : Prop where
  delivered : p.1.delivered = rt0.delivered ++ (consSpec rt0.cons rt0.acc l t).1
  result : p.1.result = some (finalResult (consSpec rt0.cons rt0.acc l t).2.2 (op.cdenNext specs rt0.stopped)
              (consSpec rt0.cons rt0.acc l t).2.1)
  ph : p.1.ph = .finished

theorem consume_inline (l : List Nat) : ∀ (t : Option Nat) (n : Nat) (rt : Root) (op : Op),
    rt.cons.kind ≠ .manual → rt.err = none → St specs false op → op.den specs rt.stopped = (l, t) →
    op.need specs + 2 ≤ n →
    ConsOK specs rt op l t (rootAfter specs n rt (deliver specs (op.need specs) (.next rt.stopped) op)) := by
  induction l with
  | nil =>
    intro t n rt op hk herr hst hden hn
    have hp := pull_inline specs (op.need specs) op rt.stopped hst (Nat.le_refl _)
    obtain ⟨o, ho, hsp⟩ := hp.sig
    have hcl := clean_inline specs _ _ hp.st (Nat.le_refl _)
    have hcd := hp.cden
    generalize hr : deliver specs (op.need specs) (.next rt.stopped) op = r at *
    obtain ⟨op', outs, sg⟩ := r
    simp only at ho hsp hcl hcd
    subst ho
    rw [hden] at hsp
    obtain ⟨n1, rfl⟩ : ∃ n1, n = n1 + 2 := ⟨n - 2, by omega⟩
    generalize hr2 : deliver specs (op'.need specs) .cleanup op' = r2 at *
    obtain ⟨op2, outs2, sg2⟩ := r2
    simp only at hcl
    subst hcl
    cases hkind : rt.cons.kind with
    | manual => exact absurd hkind hk
    | reduce =>
      cases t with
      | none =>
        simp only [PullSpec] at hsp; subst hsp
        refine ⟨?_, ?_, ?_⟩ <;> simp [rootAfter, hkind, hr2, consSpec, herr, hcd]
      | some e =>
        simp only [PullSpec] at hsp; subst hsp
        refine ⟨?_, ?_, ?_⟩ <;> simp [rootAfter, hkind, hr2, consSpec, herr, hcd]
    | forEach =>
      cases t with
      | none =>
        simp only [PullSpec] at hsp; subst hsp
        refine ⟨?_, ?_, ?_⟩ <;> simp [rootAfter, hkind, hr2, consSpec, herr, hcd]
      | some e =>
        simp only [PullSpec] at hsp; subst hsp
        refine ⟨?_, ?_, ?_⟩ <;> simp [rootAfter, hkind, hr2, consSpec, herr, hcd]
  | cons x xs ih =>
    intro t n rt op hk herr hst hden hn
    have hp := pull_inline specs (op.need specs) op rt.stopped hst (Nat.le_refl _)
    obtain ⟨o, ho, hsp⟩ := hp.sig
    have hcl := clean_inline specs _ _ hp.st (Nat.le_refl _)
    have hcd := hp.cden
    have hcn := hp.cdenNext
    have hst' := hp.st
    generalize hr : deliver specs (op.need specs) (.next rt.stopped) op = r at *
    obtain ⟨op', outs, sg⟩ := r
    simp only at ho hsp hcl hcd hcn hst'
    subst ho
    rw [hden] at hsp
    obtain ⟨hov, hd', hlt⟩ := hsp
    subst hov
    obtain ⟨n1, rfl⟩ : ∃ n1, n = n1 + 2 := ⟨n - 2, by omega⟩
    have hkind : rt.cons.kind = .reduce ∨ rt.cons.kind = .forEach := by
      cases h : rt.cons.kind <;> simp_all
    cases hstep : rt.cons.step rt.acc x with
    | ok acc' =>
      have h2 := ih t (n1 + 1) { rt with op := op', acc := acc', delivered := rt.delivered ++ [x] } op' hk herr
        (St.weaken specs hst') hd' (by omega)
      have e1 : (rootAfter specs (n1 + 2) rt (op', outs, some (Sig.next (Outcome.value x)))).1 =
          (rootAfter specs (n1 + 1) { rt with op := op', acc := acc', delivered := rt.delivered ++ [x] }
            (deliver specs (op'.need specs) (.next rt.stopped) op')).1 := by
        rcases hkind with hkind | hkind <;> simp [rootAfter, hkind, hstep]
      refine ⟨?_, ?_, ?_⟩
      · rw [e1, h2.delivered]; simp [consSpec, hstep]
      · rw [e1, h2.result]; simp [consSpec, hstep, hcn]
      · rw [e1, h2.ph]
    | error e =>
      generalize hr2 : deliver specs (op'.need specs) .cleanup op' = r2 at *
      obtain ⟨op2, outs2, sg2⟩ := r2
      simp only at hcl
      subst hcl
      refine ⟨?_, ?_, ?_⟩ <;>
        rcases hkind with hkind | hkind <;> simp [rootAfter, hkind, hstep, hr2, consSpec, hcd]

theorem connect_den (e : SExpr) (s : Bool) : (connect e).den specs s = e.den specs s := by
  induction e generalizing s with
  | range lo hi => simp [connect, Op.den, leafDen, SExpr.den, LeafSt.init]
  | single v => simp [connect, Op.den, leafDen, SExpr.den, LeafSt.init]
  | neverS => simp [connect, Op.den, leafDen, SExpr.den]
  | src i => simp [connect, Op.den, leafDen, SExpr.den, LeafSt.init]
  | un k c ih => simp [connect, Op.den, SExpr.den, ih]
  | filter p c ih => simp [connect, Op.den, SExpr.den, ih]
  | stopImmediately c ih => simp [connect, Op.den, SExpr.den, ih, StopImmSt.init]
  | takeUntil a t iha iht => simp [connect, Op.den, SExpr.den, iha]

theorem connect_cdenNext (e : SExpr) (s : Bool) : (connect e).cdenNext specs s = e.cden specs s := by
  induction e generalizing s with
  | range lo hi => simp [connect, Op.cdenNext, SExpr.cden, LeafKind.clean, CleanSpec.err]
  | single v => simp [connect, Op.cdenNext, SExpr.cden, LeafKind.clean, CleanSpec.err]
  | neverS => simp [connect, Op.cdenNext, SExpr.cden, LeafKind.clean, CleanSpec.err]
  | src i => simp [connect, Op.cdenNext, SExpr.cden, LeafKind.clean]
  | un k c ih => simp [connect, Op.cdenNext, SExpr.cden, ih]
  | filter p c ih => simp [connect, Op.cdenNext, SExpr.cden, ih]
  | stopImmediately c ih => simp [connect, Op.cdenNext, SExpr.cden, ih, StopImmSt.init]
  | takeUntil a t iha iht => simp [connect, Op.cdenNext, SExpr.cden, iha, iht, TakeSt.init]

theorem connect_St (e : SExpr) (h : e.Inline specs) : St specs false (connect e) := by
  induction e with
  | range lo hi => simp [connect, St, LeafSt.init, LeafKind.Inl]
  | single v => simp [connect, St, LeafSt.init, LeafKind.Inl]
  | neverS => exact absurd h (by simp [SExpr.Inline])
  | src i => exact ⟨rfl, h⟩
  | un k c ih => exact ih h
  | filter p c ih => exact ih h
  | stopImmediately c ih => exact ⟨rfl, rfl, rfl, Or.inl ⟨rfl, ih h⟩⟩
  | takeUntil a t iha iht =>
    exact ⟨rfl, rfl, rfl, rfl, rfl, rfl, Or.inl ⟨rfl, rfl, rfl, rfl, iha h.1, iht h.2⟩⟩

end Unifex.Stream
