/-
  Calc/StopInv.lean — the stop-propagation invariant of the calculus (property C04).

  `StopInv op tok` (`tok` = "the stop token this operation was given has been stopped") says, for
  every RUNNING node of the tree:
    * leaf: if its token is stopped it has received the notification;
    * unary adaptor: the invariant holds for the child under the token the adaptor gives it
      (the parent's, or a never-stopped one for `unstoppable`);
    * when_all / stop_when: the node's own source is stopped as soon as the receiver's token is
      (chaining), AND as soon as a child failed (when_all) / either child finished (stop_when) —
      "losers are stopped"; children satisfy the invariant under that own source; a child whose
      result is recorded is finished;
    * let_*/sequence/finally: while the first operation runs, the environment kept for starting
      the successor is stopped whenever the token is (so a successor starts already-stopped), and
      the running operation satisfies the invariant under the same token.
  `stopInv_deliver`: every event preserves it (the token becoming stopped exactly on `stop`).
-/
import UnifexModel.Calc.Lemmas

namespace Unifex.Calc

variable (specs : Nat → LeafSpec)

/-- nothing in this subtree has been started -/
def AllIdle : Op → Prop
  | .const _ ph => ph = .idle
  | .leaf _ ph _ => ph = .idle
  | .un _ c ph _ => ph = .idle ∧ AllIdle c
  | .bin _ a b st => st.ph = .idle ∧ AllIdle a ∧ AllIdle b

def StopInv : Op → Bool → Prop
  | .const _ _, _ => True
  | .leaf _ ph nt, tok => ph = .running → tok = true → nt = true
  | .un k c ph _, tok =>
    (ph = .idle → AllIdle c) ∧ (ph = .running → StopInv c (tok && k.forwardsStop))
  | .bin k a b st, tok =>
    (st.ph = .idle → AllIdle a ∧ AllIdle b) ∧
    (st.ph = .running →
      match k with
      | .whenAll | .whenAny =>
        (tok = true → st.src = true) ∧ (st.doe = true → st.src = true) ∧
        (st.ra.isSome = true → a.phase = .finished) ∧ (st.rb.isSome = true → b.phase = .finished) ∧
        StopInv a st.src ∧ StopInv b st.src
      | .stopWhen =>
        (tok = true → st.src = true) ∧ (st.ra.isSome = true → st.src = true) ∧ (st.rb.isSome = true → st.src = true) ∧
        (st.ra.isSome = true → a.phase = .finished) ∧ (st.rb.isSome = true → b.phase = .finished) ∧
        StopInv a st.src ∧ StopInv b st.src
      | _ =>
        (tok = true → st.env.stopped = true) ∧
        (st.second = false → StopInv a tok ∧ AllIdle b) ∧ (st.second = true → StopInv b tok))

def Ev.isStop : Ev → Bool
  | .stop => true
  | _ => false

/-- start events must tell the truth about the token -/
def EvOk (ev : Ev) (tok : Bool) : Prop := ∀ env, ev = .start env → tok = true → env.stopped = true

theorem stopInv_finished (op : Op) (tok : Bool) (h : op.phase = .finished) : StopInv op tok := by
  cases op with
  | const k ph => simp [StopInv]
  | leaf i ph nt => simp only [Op.phase] at h; simp [StopInv, h]
  | un k c ph env => simp only [Op.phase] at h; simp [StopInv, h]
  | bin k a b st => simp only [Op.phase] at h; simp [StopInv, h]

theorem allIdle_stopInv : ∀ (op : Op) (tok : Bool), AllIdle op → StopInv op tok
  | .const _ _, _, _ => by simp [StopInv]
  | .leaf _ ph _, _, h => by simp only [AllIdle] at h; simp [StopInv, h]
  | .un _ c ph _, _, h => by simp only [AllIdle] at h; simp [StopInv, h.1, h.2]
  | .bin _ a b st, _, h => by simp only [AllIdle] at h; simp [StopInv, h.1, h.2.1, h.2.2]

theorem allIdle_connect : ∀ e : Expr, AllIdle (connect e)
  | .const _ => by simp [connect, AllIdle]
  | .leaf _ => by simp [connect, AllIdle]
  | .un _ c => by simp [connect, AllIdle, allIdle_connect c]
  | .bin _ a b => by simp [connect, AllIdle, BinSt.init, allIdle_connect a, allIdle_connect b]

/-- what we need to know about the evaluator of the children -/
structure RecOk (rec : Rec) : Prop where
  inv : ∀ ev op tok, StopInv op tok → EvOk ev tok → StopInv (rec ev op).1 (tok || ev.isStop)
  fin : ∀ ev op o, (rec ev op).2.2 = some o → (rec ev op).1.phase = .finished
  inert : ∀ ev op, op.phase = .finished → (rec ev op).1 = op ∧ (rec ev op).2.2 = none


theorem leafStep_stopInv (ev : Ev) (i : Nat) (ph : Phase) (nt tok : Bool)
    (h : StopInv (.leaf i ph nt) tok) (hev : EvOk ev tok) :
    StopInv (leafStep specs ev i ph nt).1 (tok || ev.isStop) := by
  unfold leafStep
  cases ph <;> cases ev <;> simp only [StopInv, Ev.isStop, Bool.or_false, Bool.or_true] at h ⊢
  case idle.start env =>
    have he := hev env rfl
    cases hs : specs i with
    | inline o => simp [StopInv]
    | pending r =>
      simp only []
      by_cases hst : env.stopped = true
      · simp only [hst, if_true]; cases r <;> simp [StopInv]
      · simp only [hst]
        simp only [Bool.false_eq_true, if_false, StopInv]
        intro _ ht; exact absurd (he ht) hst
  case running.stop =>
    cases hs : specs i with
    | inline o => simp [StopInv]
    | pending r => cases r <;> simp [StopInv]
  case running.complete j o =>
    by_cases hij : i = j
    · simp [hij, StopInv]
    · simp only [hij, if_false, StopInv]; exact h
  all_goals (first | exact h | simp [StopInv] | skip)


theorem unWrap_stopInv (k : UnKind) (env : Env) (r : Res) (tok : Bool)
    (hfin : ∀ o, r.2.2 = some o → r.1.phase = .finished)
    (h : StopInv r.1 (tok && k.forwardsStop)) : StopInv (unWrap k env r).1 tok := by
  unfold unWrap
  cases hr : r.2.2 with
  | none => simp [StopInv, h]
  | some o => simp [StopInv]

theorem unStep_stopInv (rec : Rec) (hrec : RecOk rec) (ev : Ev) (k : UnKind) (c : Op) (ph : Phase)
    (env : Env) (tok : Bool) (h : StopInv (.un k c ph env) tok) (hev : EvOk ev tok) :
    StopInv (unStep rec ev k c ph env).1 (tok || ev.isStop) := by
  unfold unStep
  cases ph <;> cases ev <;> simp only [Ev.isStop, Bool.or_false, Bool.or_true]
  case idle.start env0 =>
    apply unWrap_stopInv _ _ _ _ (hrec.fin _ _)
    have hc : StopInv c (tok && k.forwardsStop) := allIdle_stopInv _ _ (h.1 rfl)
    have := hrec.inv (.start (k.childEnv env0)) c (tok && k.forwardsStop) hc (by
      intro env' he ht
      cases he
      have := hev env0 rfl
      cases k <;> simp_all [UnKind.childEnv, UnKind.forwardsStop])
    simpa [Ev.isStop] using this
  case running.stop =>
    by_cases hf : k.forwardsStop = true
    · simp only [hf, if_true]
      apply unWrap_stopInv _ _ _ _ (hrec.fin _ _)
      have := hrec.inv .stop c (tok && k.forwardsStop) (h.2 rfl) (by intro env' he; cases he)
      simpa [Ev.isStop, hf] using this
    · simp only [hf]
      simp only [Bool.false_eq_true, if_false, StopInv]
      refine ⟨by simp, fun _ => ?_⟩
      have := h.2 rfl
      simp_all
  case running.complete i o =>
    apply unWrap_stopInv _ _ _ _ (hrec.fin _ _)
    have := hrec.inv (.complete i o) c (tok && k.forwardsStop) (h.2 rfl) (by intro env' he; cases he)
    simpa [Ev.isStop] using this
  all_goals (first | exact h | (simp [StopInv] at h ⊢; try exact h))


theorem stopInv_seq (k : BinKind) (a b : Op) (st : BinSt) (tok : Bool)
    (h1 : k ≠ .whenAll) (h2 : k ≠ .stopWhen) (h3 : k ≠ .whenAny) :
    StopInv (.bin k a b st) tok ↔
      ((st.ph = .idle → AllIdle a ∧ AllIdle b) ∧
       (st.ph = .running →
          (tok = true → st.env.stopped = true) ∧
          (st.second = false → StopInv a tok ∧ AllIdle b) ∧ (st.second = true → StopInv b tok))) := by
  cases k <;> simp_all [StopInv]

theorem seqAfterFirst_stopInv (rec : Rec) (hrec : RecOk rec) (k : BinKind) (b : Op) (st : BinSt)
    (env : Env) (ra : Res) (tok : Bool) (h1 : k ≠ .whenAll) (h2 : k ≠ .stopWhen) (h3 : k ≠ .whenAny)
    (hra : StopInv ra.1 tok) (hb : AllIdle b) (henv : tok = true → env.stopped = true) :
    StopInv (seqAfterFirst rec k b st env ra).1 tok := by
  unfold seqAfterFirst
  cases hr : ra.2.2 with
  | none =>
    simp only []
    rw [stopInv_seq _ _ _ _ _ h1 h2 h3]
    simpa [hra, hb] using henv
  | some o =>
    simp only []
    by_cases ht : k.takes o = true
    · simp only [ht, if_true]
      have hrb := hrec.inv (.start (k.succEnv env o)) b tok (allIdle_stopInv _ _ hb) (by
        intro env' he htok
        cases he
        have := henv htok
        cases k <;> cases o <;> simp_all [BinKind.succEnv])
      simp only [Ev.isStop, Bool.or_false] at hrb
      cases hr2 : (rec (Ev.start (k.succEnv env o)) b).2.2 with
      | none =>
        simp only []
        rw [stopInv_seq _ _ _ _ _ h1 h2 h3]
        simpa [hrb] using henv
      | some ob =>
        simp only []
        rw [stopInv_seq _ _ _ _ _ h1 h2 h3]
        simp
    · rw [if_neg ht]
      rw [stopInv_seq _ _ _ _ _ h1 h2 h3]
      simp

theorem seqSecond_stopInv (k : BinKind) (a : Op) (st : BinSt) (env : Env) (rb : Res) (tok : Bool)
    (h1 : k ≠ .whenAll) (h2 : k ≠ .stopWhen) (h3 : k ≠ .whenAny) (hph : st.ph = .running) (hsec : st.second = true)
    (hrb : StopInv rb.1 tok) (henv : tok = true → env.stopped = true) :
    StopInv (seqSecond k a st env rb).1 tok := by
  unfold seqSecond
  cases hr : rb.2.2 with
  | none =>
    simp only []
    rw [stopInv_seq _ _ _ _ _ h1 h2 h3]
    simpa [hph, hsec, hrb] using henv
  | some ob =>
    simp only []
    rw [stopInv_seq _ _ _ _ _ h1 h2 h3]
    simp

theorem seqStep_stopInv (rec : Rec) (hrec : RecOk rec) (ev : Ev) (k : BinKind) (a b : Op) (st : BinSt)
    (tok : Bool) (h1 : k ≠ .whenAll) (h2 : k ≠ .stopWhen) (h3 : k ≠ .whenAny)
    (h : StopInv (.bin k a b st) tok) (hev : EvOk ev tok) :
    StopInv (seqStep rec ev k a b st).1 (tok || ev.isStop) := by
  rw [stopInv_seq _ _ _ _ _ h1 h2 h3] at h
  unfold seqStep
  cases hph : st.ph <;> cases hsec : st.second <;> cases ev <;>
    simp only [Ev.isStop, Bool.or_false, Bool.or_true]
  case idle.false.start env0 | idle.true.start env0 =>
    have hi := h.1 hph
    apply seqAfterFirst_stopInv rec hrec k b st env0 _ tok h1 h2 h3 _ hi.2 (hev env0 rfl)
    have := hrec.inv (.start env0) a tok (allIdle_stopInv _ _ hi.1) hev
    simpa [Ev.isStop] using this
  case running.false.stop =>
    have hr := h.2 hph
    apply seqAfterFirst_stopInv rec hrec k b st st.env.stop _ true h1 h2 h3 _ (hr.2.1 hsec).2 (by simp [Env.stop])
    have := hrec.inv .stop a tok (hr.2.1 hsec).1 (by intro e he; cases he)
    simpa [Ev.isStop] using this
  case running.false.complete i o =>
    have hr := h.2 hph
    apply seqAfterFirst_stopInv rec hrec k b st st.env _ tok h1 h2 h3 _ (hr.2.1 hsec).2 hr.1
    have := hrec.inv (.complete i o) a tok (hr.2.1 hsec).1 (by intro e he; cases he)
    simpa [Ev.isStop] using this
  case running.true.stop =>
    have hr := h.2 hph
    apply seqSecond_stopInv k a st st.env.stop _ true h1 h2 h3 hph hsec _ (by simp [Env.stop])
    have := hrec.inv .stop b tok (hr.2.2 hsec) (by intro e he; cases he)
    simpa [Ev.isStop] using this
  case running.true.complete i o =>
    have hr := h.2 hph
    apply seqSecond_stopInv k a st st.env _ tok h1 h2 h3 hph hsec _ hr.1
    have := hrec.inv (.complete i o) b tok (hr.2.2 hsec) (by intro e he; cases he)
    simpa [Ev.isStop] using this
  all_goals (rw [stopInv_seq _ _ _ _ _ h1 h2 h3]; simp_all)


/-! ### when_all -/

theorem stopInv_wa (k : BinKind) (hk : k = .whenAll ∨ k = .whenAny) (a b : Op) (st : BinSt) (tok : Bool) :
    StopInv (.bin k a b st) tok ↔
      ((st.ph = .idle → AllIdle a ∧ AllIdle b) ∧
       (st.ph = .running →
        (tok = true → st.src = true) ∧ (st.doe = true → st.src = true) ∧
        (st.ra.isSome = true → a.phase = .finished) ∧ (st.rb.isSome = true → b.phase = .finished) ∧
        StopInv a st.src ∧ StopInv b st.src)) := by
  rcases hk with hk | hk <;> subst hk <;> simp [StopInv]

@[simp] theorem waRecord_ph (any : Bool) (st : BinSt) (isA : Bool) (o : Outcome) : (waRecord any st isA o).1.ph = st.ph := by
  cases any <;> cases o <;> cases isA <;> simp [waRecord] <;> (repeat' split) <;> simp
@[simp] theorem waRecord_src (any : Bool) (st : BinSt) (isA : Bool) (o : Outcome) : (waRecord any st isA o).1.src = st.src := by
  cases any <;> cases o <;> cases isA <;> simp [waRecord] <;> (repeat' split) <;> simp
@[simp] theorem waRecord_env (any : Bool) (st : BinSt) (isA : Bool) (o : Outcome) : (waRecord any st isA o).1.env = st.env := by
  cases any <;> cases o <;> cases isA <;> simp [waRecord] <;> (repeat' split) <;> simp
@[simp] theorem waRecord_ra_true (any : Bool) (st : BinSt) (o : Outcome) : ((waRecord any st true o).1.ra).isSome = true := by
  cases any <;> cases o <;> simp [waRecord] <;> (repeat' split) <;> simp
@[simp] theorem waRecord_rb_true (any : Bool) (st : BinSt) (o : Outcome) : (waRecord any st true o).1.rb = st.rb := by
  cases any <;> cases o <;> simp [waRecord] <;> (repeat' split) <;> simp
@[simp] theorem waRecord_rb_false (any : Bool) (st : BinSt) (o : Outcome) : ((waRecord any st false o).1.rb).isSome = true := by
  cases any <;> cases o <;> simp [waRecord] <;> (repeat' split) <;> simp
@[simp] theorem waRecord_ra_false (any : Bool) (st : BinSt) (o : Outcome) : (waRecord any st false o).1.ra = st.ra := by
  cases any <;> cases o <;> simp [waRecord] <;> (repeat' split) <;> simp
/-- after recording, `doe` implies: it was set before, or this record requested the stop, or the
    source was already stopped -/
theorem waRecord_doe (any : Bool) (st : BinSt) (isA : Bool) (o : Outcome) :
    (waRecord any st isA o).1.doe = true → st.doe = true ∨ (waRecord any st isA o).2 = true ∨ st.src = true := by
  cases any <;> cases hsrc : st.src <;> cases hdoe : st.doe <;> cases o <;> cases isA <;>
    simp [waRecord, hsrc, hdoe] <;> (repeat' split) <;> simp_all

theorem waRec_ra_isSome_true (any : Bool) (st : BinSt) (r : Option Outcome) :
    ((waRec any st true r).1.ra).isSome = (r.isSome || st.ra.isSome) := by
  cases r <;> simp [waRec]
theorem waRec_rb_of_true (any : Bool) (st : BinSt) (r : Option Outcome) : (waRec any st true r).1.rb = st.rb := by
  cases r <;> simp [waRec]
theorem waRec_rb_isSome_false (any : Bool) (st : BinSt) (r : Option Outcome) :
    ((waRec any st false r).1.rb).isSome = (r.isSome || st.rb.isSome) := by
  cases r <;> simp [waRec]
theorem waRec_ra_of_false (any : Bool) (st : BinSt) (r : Option Outcome) : (waRec any st false r).1.ra = st.ra := by
  cases r <;> simp [waRec]
@[simp] theorem waRec_src (any : Bool) (st : BinSt) (isA : Bool) (r : Option Outcome) : (waRec any st isA r).1.src = st.src := by
  cases r <;> simp [waRec]

/-- the running part of when_all's invariant, on the components -/
def WAg (a b : Op) (st : BinSt) (tok : Bool) : Prop :=
  (tok = true → st.src = true) ∧ (st.doe = true → st.src = true) ∧
  (st.ra.isSome = true → a.phase = .finished) ∧ (st.rb.isSome = true → b.phase = .finished) ∧
  StopInv a st.src ∧ StopInv b st.src

theorem recIf_stop (rec : Rec) (hrec : RecOk rec) (cond : Bool) (x : Op) (src : Bool)
    (hx : StopInv x src) :
    StopInv (recIf rec cond .stop x).1 (src || cond) ∧
    (∀ o, (recIf rec cond .stop x).2.2 = some o → (recIf rec cond .stop x).1.phase = .finished) ∧
    (cond = false → recIf rec cond .stop x = (x, [], none)) := by
  cases cond with
  | false => simp [recIf, hx]
  | true =>
    simp only [recIf, if_true, Bool.or_true]
    refine ⟨?_, hrec.fin _ _, by simp⟩
    have := hrec.inv .stop x src hx (by intro e he; cases he)
    simpa [Ev.isStop] using this

/-- recording a sibling's completion that came out of the stop fan-out (source already stopped) -/
theorem waRec_after (any : Bool) (st : BinSt) (isA : Bool) (r : Option Outcome) (hsrc : st.src = true) :
    (waRec any st isA r).1.src = true ∧ (waRec any st isA r).1.ph = st.ph := by
  cases r <;> simp [waRec, hsrc]

theorem waAfterChild_inv (rec : Rec) (hrec : RecOk rec) (any : Bool) (isA : Bool) (a b : Op) (st : BinSt)
    (r : Option Outcome) (tok : Bool) (h : WAg a b st tok)
    (hr : ∀ o, r = some o → (if isA then a else b).phase = .finished) :
    WAg (waAfterChild rec any isA a b st r).1 (waAfterChild rec any isA a b st r).2.1
        (waAfterChild rec any isA a b st r).2.2.1 tok := by
  obtain ⟨h1, h2, h3, h4, h5, h6⟩ := h
  cases r with
  | none => exact ⟨h1, h2, h3, h4, h5, h6⟩
  | some o =>
    have hfin := hr o rfl
    cases isA with
    | true =>
      simp only [if_true] at hfin
      simp only [waAfterChild, if_true]
      -- the sibling stop
      have hsib := recIf_stop rec hrec ((waRecord any st true o).2 && (markSrc (waRecord any st true o).1 (waRecord any st true o).2).rb.isNone) b st.src h6
      generalize hc : ((waRecord any st true o).2 && (markSrc (waRecord any st true o).1 (waRecord any st true o).2).rb.isNone) = cond at hsib
      generalize hrb : recIf rec cond Ev.stop b = rb at hsib
      obtain ⟨hs1, hs2, hs3⟩ := hsib
      have hdoe := waRecord_doe any st true o
      cases hsrc : st.src <;> cases hn : (waRecord any st true o).2 <;> cases hrbs : st.rb <;>
        cases hq : rb.2.2 <;>
        simp_all [WAg, markSrc, waRec, stopInv_finished] <;>
        (try (constructor <;> intros <;> simp_all [stopInv_finished]))
    | false =>
      simp only [Bool.false_eq_true, if_false] at hfin
      simp only [waAfterChild, Bool.false_eq_true, if_false]
      have hsib := recIf_stop rec hrec ((waRecord any st false o).2 && (markSrc (waRecord any st false o).1 (waRecord any st false o).2).ra.isNone) a st.src h5
      generalize hc : ((waRecord any st false o).2 && (markSrc (waRecord any st false o).1 (waRecord any st false o).2).ra.isNone) = cond at hsib
      generalize hra : recIf rec cond Ev.stop a = ra at hsib
      obtain ⟨hs1, hs2, hs3⟩ := hsib
      have hdoe := waRecord_doe any st false o
      cases hsrc : st.src <;> cases hn : (waRecord any st false o).2 <;> cases hras : st.ra <;>
        cases hq : ra.2.2 <;>
        simp_all [WAg, markSrc, waRec, stopInv_finished] <;>
        (try (constructor <;> intros <;> simp_all [stopInv_finished]))

theorem markSrc_ph (st : BinSt) (c : Bool) : (markSrc st c).ph = st.ph := by
  cases c <;> simp [markSrc]

theorem waRec_ph (any : Bool) (st : BinSt) (isA : Bool) (r : Option Outcome) : (waRec any st isA r).1.ph = st.ph := by
  cases r <;> simp [waRec]

theorem waAfterChild_ph (rec : Rec) (any : Bool) (isA : Bool) (a b : Op) (st : BinSt) (r : Option Outcome) :
    (waAfterChild rec any isA a b st r).2.2.1.ph = st.ph := by
  cases r with
  | none => rfl
  | some o => cases isA <;> simp [waAfterChild, waRec_ph, markSrc_ph]

theorem waFinish_stopInv (k : BinKind) (hk : k = .whenAll ∨ k = .whenAny) (a b : Op) (st : BinSt) (outs : List Out) (tok : Bool)
    (hph : st.ph = .running) (h : WAg a b st tok) : StopInv (waFinish k a b st outs).1 tok := by
  unfold waFinish
  split
  · exact stopInv_finished _ _ (by simp [Op.phase])
  · rw [stopInv_wa k hk]
    exact ⟨by simp [hph], fun _ => h⟩

/-- deliver `.stop` to a child of a when_all whose own source is being stopped: afterwards the child
    satisfies the invariant for a stopped token, whether or not the event was forwarded (it is not
    forwarded exactly when the child's result is already recorded, i.e. the child is finished) -/
theorem stopChild (rec : Rec) (hrec : RecOk rec) (x : Op) (rx : Option Outcome) (src : Bool)
    (hx : StopInv x src) (hfin : rx.isSome = true → x.phase = .finished) :
    StopInv (recIf rec rx.isNone .stop x).1 true ∧
    (∀ o, (recIf rec rx.isNone .stop x).2.2 = some o → (recIf rec rx.isNone .stop x).1.phase = .finished) ∧
    (rx.isSome = true → (recIf rec rx.isNone .stop x).1 = x ∧ (recIf rec rx.isNone .stop x).2.2 = none) := by
  cases hr : rx with
  | none =>
    simp only [Option.isNone_none, recIf, if_true]
    refine ⟨?_, hrec.fin _ _, by simp⟩
    have := hrec.inv .stop x src hx (by intro e he; cases he)
    simpa [Ev.isStop] using this
  | some v =>
    simp only [Option.isNone_some, recIf, Bool.false_eq_true, if_false]
    exact ⟨stopInv_finished _ _ (hfin (by simp [hr])), by simp, by simp⟩

theorem waStop_stopInv (rec : Rec) (hrec : RecOk rec) (k : BinKind) (hk : k = .whenAll ∨ k = .whenAny)
    (a b : Op) (st : BinSt) (tok : Bool)
    (h : StopInv (.bin k a b st) tok) (hph : st.ph = .running) :
    StopInv (waStop rec k a b st).1 true := by
  rw [stopInv_wa k hk] at h
  obtain ⟨h1, h2, h3, h4, h5, h6⟩ := h.2 hph
  unfold waStop
  simp only []
  split
  · rename_i hs
    rw [stopInv_wa k hk]
    exact ⟨by simp [hph], fun _ => ⟨fun _ => hs, h2, h3, h4, h5, h6⟩⟩
  · have sa := stopChild rec hrec a st.ra st.src h5 h3
    generalize recIf rec st.ra.isNone Ev.stop a = ra at sa ⊢
    have sb := stopChild rec hrec b st.rb st.src h6 h4
    have hrb2 : (waRec k.isAny { st with env := st.env.stop, src := true } true ra.2.2).1.rb = st.rb := by
      rw [waRec_rb_of_true]
    rw [hrb2]
    generalize recIf rec st.rb.isNone Ev.stop b = rb at sb ⊢
    apply waFinish_stopInv k hk _ _ _ _ _ (by simp [waRec_ph, hph])
    refine ⟨by simp, by simp, ?_, ?_, by simpa using sa.1, by simpa using sb.1⟩
    · rw [waRec_ra_of_false, waRec_ra_isSome_true]
      intro hh
      simp only [Bool.or_eq_true] at hh
      rcases hh with hh | hh
      · obtain ⟨o, ho⟩ := Option.isSome_iff_exists.mp hh; exact sa.2.1 o ho
      · rw [(sa.2.2 hh).1]; exact h3 hh
    · rw [waRec_rb_isSome_false, waRec_rb_of_true]
      intro hh
      simp only [Bool.or_eq_true] at hh
      rcases hh with hh | hh
      · obtain ⟨o, ho⟩ := Option.isSome_iff_exists.mp hh; exact sb.2.1 o ho
      · rw [(sb.2.2 hh).1]; exact h4 hh

theorem waStart_stopInv (rec : Rec) (hrec : RecOk rec) (k : BinKind) (hk : k = .whenAll ∨ k = .whenAny)
    (a b : Op) (st : BinSt) (env0 : Env) (tok : Bool)
    (ha : AllIdle a) (hb : AllIdle b) (hev : tok = true → env0.stopped = true) :
    StopInv (waStart rec k a b st env0).1 tok := by
  unfold waStart
  apply waFinish_stopInv k hk
  · rw [waAfterChild_ph, markSrc_ph, waRec_ph]
  · apply waAfterChild_inv rec hrec
    · -- the state after a has been started and b has been started
      have hA := hrec.inv (.start { env0 with stopped := env0.stopped, stoppable := true }) a env0.stopped
        (allIdle_stopInv _ _ ha) (by intro e he ht; cases he; exact ht)
      simp only [Ev.isStop, Bool.or_false] at hA
      have fA := hrec.fin (.start { env0 with stopped := env0.stopped, stoppable := true }) a
      have hB : ∀ S : Bool, StopInv (rec (.start { env0 with stopped := S, stoppable := true }) b).1 S := fun S => by
        have := hrec.inv (.start { env0 with stopped := S, stoppable := true }) b S
          (allIdle_stopInv _ _ hb) (by intro e he ht; cases he; exact ht)
        simpa [Ev.isStop] using this
      generalize hra : rec (.start { env0 with stopped := env0.stopped, stoppable := true }) a = ra at hA fA
      obtain ⟨a', outsA, rA⟩ := ra
      simp only at hA fA
      cases hany : k.isAny <;> cases hs : env0.stopped <;> cases rA with
      | none => simp_all [WAg, waRec, markSrc, BinSt.init]
      | some o =>
        have := fA o rfl
        cases o <;> simp_all [WAg, waRec, waRecord, markSrc, BinSt.init, stopInv_finished]
    · intro o ho
      simp only [Bool.false_eq_true, if_false]
      exact hrec.fin _ _ _ ho

theorem WAg_completeA (rec : Rec) (hrec : RecOk rec) (a b : Op) (st : BinSt) (tok : Bool) (i : Nat) (o : Outcome)
    (h : WAg a b st tok) : WAg (rec (.complete i o) a).1 b st tok := by
  obtain ⟨h1, h2, h3, h4, h5, h6⟩ := h
  refine ⟨h1, h2, ?_, h4, ?_, h6⟩
  · intro hs; rw [(hrec.inert _ a (h3 hs)).1]; exact h3 hs
  · have := hrec.inv (.complete i o) a st.src h5 (by intro e he; cases he)
    simpa [Ev.isStop] using this

theorem WAg_completeB (rec : Rec) (hrec : RecOk rec) (a b : Op) (st : BinSt) (tok : Bool) (c : Bool) (i : Nat) (o : Outcome)
    (h : WAg a b st tok) : WAg a (recIf rec c (.complete i o) b).1 st tok := by
  obtain ⟨h1, h2, h3, h4, h5, h6⟩ := h
  cases c with
  | false => exact ⟨h1, h2, h3, h4, h5, h6⟩
  | true =>
    simp only [recIf, if_true]
    refine ⟨h1, h2, h3, ?_, h5, ?_⟩
    · intro hs; rw [(hrec.inert _ b (h4 hs)).1]; exact h4 hs
    · have := hrec.inv (.complete i o) b st.src h6 (by intro e he; cases he)
      simpa [Ev.isStop] using this

theorem waComplete_stopInv (rec : Rec) (hrec : RecOk rec) (k : BinKind) (hk : k = .whenAll ∨ k = .whenAny)
    (a b : Op) (st : BinSt) (tok : Bool) (i : Nat) (o : Outcome)
    (h : StopInv (.bin k a b st) tok) (hph : st.ph = .running) :
    StopInv (waComplete rec k a b st i o).1 tok := by
  rw [stopInv_wa k hk] at h
  have hg : WAg a b st tok := h.2 hph
  unfold waComplete
  apply waFinish_stopInv k hk
  · rw [waAfterChild_ph, waAfterChild_ph]; exact hph
  · apply waAfterChild_inv rec hrec
    · apply WAg_completeB rec hrec
      apply waAfterChild_inv rec hrec
      · exact WAg_completeA rec hrec a b st tok i o hg
      · intro o' ho'; simp only [if_true]; exact hrec.fin _ _ _ ho'
    · intro o' ho'
      simp only [Bool.false_eq_true, if_false]
      cases hc : (rec (Ev.complete i o) a).2.2.isNone with
      | false => simp [recIf, hc] at ho'
      | true =>
        simp only [recIf, hc, if_true] at ho' ⊢
        exact hrec.fin _ _ _ ho'

theorem waStep_stopInv (rec : Rec) (hrec : RecOk rec) (ev : Ev) (k : BinKind) (hk : k = .whenAll ∨ k = .whenAny)
    (a b : Op) (st : BinSt) (tok : Bool)
    (h : StopInv (.bin k a b st) tok) (hev : EvOk ev tok) :
    StopInv (waStep rec ev k a b st).1 (tok || ev.isStop) := by
  unfold waStep
  cases hph : st.ph <;> cases ev <;> simp only [Ev.isStop, Bool.or_false, Bool.or_true]
  case idle.start env0 =>
    rw [stopInv_wa k hk] at h
    exact waStart_stopInv rec hrec k hk a b st env0 tok (h.1 hph).1 (h.1 hph).2 (hev env0 rfl)
  case running.stop => exact waStop_stopInv rec hrec k hk a b st tok h hph
  case running.complete i o => exact waComplete_stopInv rec hrec k hk a b st tok i o h hph
  all_goals (rw [stopInv_wa k hk] at h ⊢; simp_all)

/-! ### stop_when -/

theorem stopInv_sw (a b : Op) (st : BinSt) (tok : Bool) :
    StopInv (.bin .stopWhen a b st) tok ↔
      ((st.ph = .idle → AllIdle a ∧ AllIdle b) ∧
       (st.ph = .running →
        (tok = true → st.src = true) ∧ (st.ra.isSome = true → st.src = true) ∧ (st.rb.isSome = true → st.src = true) ∧
        (st.ra.isSome = true → a.phase = .finished) ∧ (st.rb.isSome = true → b.phase = .finished) ∧
        StopInv a st.src ∧ StopInv b st.src)) := by
  simp [StopInv]

def SWg (a b : Op) (st : BinSt) (tok : Bool) : Prop :=
  (tok = true → st.src = true) ∧ (st.ra.isSome = true → st.src = true) ∧ (st.rb.isSome = true → st.src = true) ∧
  (st.ra.isSome = true → a.phase = .finished) ∧ (st.rb.isSome = true → b.phase = .finished) ∧
  StopInv a st.src ∧ StopInv b st.src

theorem setRa_ph (st : BinSt) (r : Option Outcome) : (setRa st r).ph = st.ph := by cases r <;> simp [setRa]
theorem setRb_ph (st : BinSt) (r : Option Outcome) : (setRb st r).ph = st.ph := by cases r <;> simp [setRb]

theorem swAfterChild_ph (rec : Rec) (isA : Bool) (a b : Op) (st : BinSt) (r : Option Outcome) :
    (swAfterChild rec isA a b st r).2.2.1.ph = st.ph := by
  cases r with
  | none => rfl
  | some o => cases isA <;> simp [swAfterChild, setRa_ph, setRb_ph]

theorem swAfterChild_inv (rec : Rec) (hrec : RecOk rec) (isA : Bool) (a b : Op) (st : BinSt)
    (r : Option Outcome) (tok : Bool) (h : SWg a b st tok)
    (hr : ∀ o, r = some o → (if isA then a else b).phase = .finished) :
    SWg (swAfterChild rec isA a b st r).1 (swAfterChild rec isA a b st r).2.1
        (swAfterChild rec isA a b st r).2.2.1 tok := by
  obtain ⟨h1, h2, h3, h4, h5, h6, h7⟩ := h
  cases r with
  | none => exact ⟨h1, h2, h3, h4, h5, h6, h7⟩
  | some o =>
    have hfin := hr o rfl
    cases isA with
    | true =>
      simp only [if_true] at hfin
      simp only [swAfterChild, if_true]
      have hsib := recIf_stop rec hrec (!st.src && st.rb.isNone) b st.src h7
      generalize hc : (!st.src && st.rb.isNone) = cond at hsib
      generalize hrb : recIf rec cond Ev.stop b = rb at hsib
      obtain ⟨hs1, hs2, hs3⟩ := hsib
      cases hsrc : st.src <;> cases hrbs : st.rb <;> cases hq : rb.2.2 <;>
        simp_all [SWg, setRb, stopInv_finished] <;>
        (try (constructor <;> intros <;> simp_all [stopInv_finished]))
    | false =>
      simp only [Bool.false_eq_true, if_false] at hfin
      simp only [swAfterChild, Bool.false_eq_true, if_false]
      have hsib := recIf_stop rec hrec (!st.src && st.ra.isNone) a st.src h6
      generalize hc : (!st.src && st.ra.isNone) = cond at hsib
      generalize hra : recIf rec cond Ev.stop a = ra at hsib
      obtain ⟨hs1, hs2, hs3⟩ := hsib
      cases hsrc : st.src <;> cases hras : st.ra <;> cases hq : ra.2.2 <;>
        simp_all [SWg, setRa, stopInv_finished] <;>
        (try (constructor <;> intros <;> simp_all [stopInv_finished]))

theorem swFinish_stopInv (a b : Op) (st : BinSt) (outs : List Out) (tok : Bool)
    (hph : st.ph = .running) (h : SWg a b st tok) : StopInv (swFinish a b st outs).1 tok := by
  unfold swFinish
  split
  · exact stopInv_finished _ _ (by simp [Op.phase])
  · rw [stopInv_sw]
    exact ⟨by simp [hph], fun _ => h⟩

theorem swStart_stopInv (rec : Rec) (hrec : RecOk rec) (a b : Op) (st : BinSt) (env0 : Env) (tok : Bool)
    (ha : AllIdle a) (hb : AllIdle b) (hev : tok = true → env0.stopped = true) :
    StopInv (swStart rec a b st env0).1 tok := by
  unfold swStart
  apply swFinish_stopInv
  · rw [swAfterChild_ph, markSrc_ph, setRa_ph]
  · apply swAfterChild_inv rec hrec
    · have hA := hrec.inv (.start { env0 with stopped := env0.stopped, stoppable := true }) a env0.stopped
        (allIdle_stopInv _ _ ha) (by intro e he ht; cases he; exact ht)
      simp only [Ev.isStop, Bool.or_false] at hA
      have fA := hrec.fin (.start { env0 with stopped := env0.stopped, stoppable := true }) a
      have hB : ∀ S : Bool, StopInv (rec (.start { env0 with stopped := S, stoppable := true }) b).1 S := fun S => by
        have := hrec.inv (.start { env0 with stopped := S, stoppable := true }) b S
          (allIdle_stopInv _ _ hb) (by intro e he ht; cases he; exact ht)
        simpa [Ev.isStop] using this
      generalize hra : rec (.start { env0 with stopped := env0.stopped, stoppable := true }) a = ra at hA fA
      obtain ⟨a', outsA, rA⟩ := ra
      simp only at hA fA
      cases hs : env0.stopped <;> cases rA with
      | none => simp_all [SWg, setRa, markSrc, BinSt.init]
      | some o =>
        have := fA o rfl
        simp_all [SWg, setRa, markSrc, BinSt.init, stopInv_finished]
    · intro o ho
      simp only [Bool.false_eq_true, if_false]
      exact hrec.fin _ _ _ ho

theorem swStop_stopInv (rec : Rec) (hrec : RecOk rec) (a b : Op) (st : BinSt) (tok : Bool)
    (h : StopInv (.bin .stopWhen a b st) tok) (hph : st.ph = .running) :
    StopInv (swStop rec a b st).1 true := by
  rw [stopInv_sw] at h
  obtain ⟨h1, h2, h3, h4, h5, h6, h7⟩ := h.2 hph
  unfold swStop
  by_cases hs : st.src = true
  · simp only [hs, if_true]
    rw [stopInv_sw]
    simp_all
  · simp only [hs]
    have ha := hrec.inv .stop a st.src h6 (by intro e he; cases he)
    have hb := hrec.inv .stop b st.src h7 (by intro e he; cases he)
    have fa := hrec.fin .stop a
    have fb := hrec.fin .stop b
    simp only [Ev.isStop, Bool.or_true] at ha hb
    have hfa : ∀ t, st.ra.isSome = true → StopInv a t := fun t hh => stopInv_finished _ _ (h4 hh)
    have hfb : ∀ t, st.rb.isSome = true → StopInv b t := fun t hh => stopInv_finished _ _ (h5 hh)
    cases hra : st.ra <;> cases hrb : st.rb <;>
      cases ea : (rec Ev.stop a).2.2 <;> cases eb : (rec Ev.stop b).2.2 <;>
      simp_all [recIf, setRa, setRb, swFinish, stopInv_sw, Op.phase] <;>
      (try (split <;> simp_all [stopInv_sw, Op.phase]))

theorem SWg_completeA (rec : Rec) (hrec : RecOk rec) (a b : Op) (st : BinSt) (tok : Bool) (i : Nat) (o : Outcome)
    (h : SWg a b st tok) : SWg (rec (.complete i o) a).1 b st tok := by
  obtain ⟨h1, h2, h3, h4, h5, h6, h7⟩ := h
  refine ⟨h1, h2, h3, ?_, h5, ?_, h7⟩
  · intro hs; rw [(hrec.inert _ a (h4 hs)).1]; exact h4 hs
  · have := hrec.inv (.complete i o) a st.src h6 (by intro e he; cases he)
    simpa [Ev.isStop] using this

theorem SWg_completeB (rec : Rec) (hrec : RecOk rec) (a b : Op) (st : BinSt) (tok : Bool) (c : Bool) (i : Nat) (o : Outcome)
    (h : SWg a b st tok) : SWg a (recIf rec c (.complete i o) b).1 st tok := by
  obtain ⟨h1, h2, h3, h4, h5, h6, h7⟩ := h
  cases c with
  | false => exact ⟨h1, h2, h3, h4, h5, h6, h7⟩
  | true =>
    simp only [recIf, if_true]
    refine ⟨h1, h2, h3, h4, ?_, h6, ?_⟩
    · intro hs; rw [(hrec.inert _ b (h5 hs)).1]; exact h5 hs
    · have := hrec.inv (.complete i o) b st.src h7 (by intro e he; cases he)
      simpa [Ev.isStop] using this

theorem swComplete_stopInv (rec : Rec) (hrec : RecOk rec) (a b : Op) (st : BinSt) (tok : Bool) (i : Nat) (o : Outcome)
    (h : StopInv (.bin .stopWhen a b st) tok) (hph : st.ph = .running) :
    StopInv (swComplete rec a b st i o).1 tok := by
  rw [stopInv_sw] at h
  have hg : SWg a b st tok := h.2 hph
  unfold swComplete
  apply swFinish_stopInv
  · rw [swAfterChild_ph, swAfterChild_ph]; exact hph
  · apply swAfterChild_inv rec hrec
    · apply SWg_completeB rec hrec
      apply swAfterChild_inv rec hrec
      · exact SWg_completeA rec hrec a b st tok i o hg
      · intro o' ho'; simp only [if_true]; exact hrec.fin _ _ _ ho'
    · intro o' ho'
      simp only [Bool.false_eq_true, if_false]
      cases hc : (rec (Ev.complete i o) a).2.2.isNone with
      | false => simp [recIf, hc] at ho'
      | true =>
        simp only [recIf, hc, if_true] at ho' ⊢
        exact hrec.fin _ _ _ ho'

theorem swStep_stopInv (rec : Rec) (hrec : RecOk rec) (ev : Ev) (a b : Op) (st : BinSt) (tok : Bool)
    (h : StopInv (.bin .stopWhen a b st) tok) (hev : EvOk ev tok) :
    StopInv (swStep rec ev a b st).1 (tok || ev.isStop) := by
  unfold swStep
  cases hph : st.ph <;> cases ev <;> simp only [Ev.isStop, Bool.or_false, Bool.or_true]
  case idle.start env0 =>
    rw [stopInv_sw] at h
    exact swStart_stopInv rec hrec a b st env0 tok (h.1 hph).1 (h.1 hph).2 (hev env0 rfl)
  case running.stop => exact swStop_stopInv rec hrec a b st tok h hph
  case running.complete i o => exact swComplete_stopInv rec hrec a b st tok i o h hph
  all_goals (rw [stopInv_sw] at h ⊢; simp_all)

/-! ### all nodes -/

theorem binStep_stopInv (rec : Rec) (hrec : RecOk rec) (ev : Ev) (k : BinKind) (a b : Op) (st : BinSt) (tok : Bool)
    (h : StopInv (.bin k a b st) tok) (hev : EvOk ev tok) :
    StopInv (binStep rec ev k a b st).1 (tok || ev.isStop) := by
  by_cases h1 : k = .whenAll
  · subst h1; exact waStep_stopInv rec hrec ev _ (Or.inl rfl) a b st tok h hev
  · by_cases h3 : k = .whenAny
    · subst h3; exact waStep_stopInv rec hrec ev _ (Or.inr rfl) a b st tok h hev
    · by_cases h2 : k = .stopWhen
      · subst h2; exact swStep_stopInv rec hrec ev a b st tok h hev
      · have : binStep rec ev k a b st = seqStep rec ev k a b st := by cases k <;> simp_all [binStep]
        rw [this]; exact seqStep_stopInv rec hrec ev k a b st tok h1 h2 h3 h hev

theorem recOk_deliver : ∀ fuel : Nat, RecOk (deliver specs fuel)
  | 0 => by
    refine ⟨?_, ?_, ?_⟩
    · intro ev op tok h hev
      simp only [deliver]
      split
      · rename_i hf; exact stopInv_finished _ _ hf
      · simp [StopInv]
    · intro ev op o h; simp [deliver] at h
    · intro ev op h; simp [deliver, h]
  | n+1 => by
    have ih := recOk_deliver n
    refine ⟨?_, ?_, ?_⟩
    · intro ev op tok h hev
      cases op with
      | const k ph => simp [deliver, constStep]; split <;> simp [StopInv]
      | leaf i ph nt => simp only [deliver]; exact leafStep_stopInv specs ev i ph nt tok h hev
      | un k c ph env => simp only [deliver]; exact unStep_stopInv _ ih ev k c ph env tok h hev
      | bin k a b st => simp only [deliver]; exact binStep_stopInv _ ih ev k a b st tok h hev
    · intro ev op o h; exact signal_finishes specs (n+1) ev op o h
    · intro ev op h; exact finished_inert specs (n+1) ev op h

/-- **The stop-propagation invariant is preserved by every event** (for every tree, every leaf
    script, every fuel): the token becomes stopped exactly on `stop`. -/
theorem stopInv_deliver (fuel : Nat) (ev : Ev) (op : Op) (tok : Bool)
    (h : StopInv op tok) (hev : EvOk ev tok) :
    StopInv (deliver specs fuel ev op).1 (tok || ev.isStop) :=
  (recOk_deliver specs fuel).inv ev op tok h hev

end Unifex.Calc
