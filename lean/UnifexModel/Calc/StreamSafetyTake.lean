/-
  Calc/StreamSafetyTake.lean — take_until keeps the protocol contract (see StreamSafety.lean).
  One lemma per helper of `takeStep`; `TUOK ph0 x` bundles the invariant of an intermediate state with
  the bookkeeping of the signal about to be sent.
-/
import UnifexModel.Calc.StreamSafety

namespace Unifex.Stream
open Unifex.Calc (Outcome Fn)

/-- bring all clauses of a take_until invariant into the context -/
macro "tu_facts" h:ident : tactic =>
  `(tactic| (have := ($h).t1; have := ($h).t2; have := ($h).t3; have := ($h).t4; have := ($h).t5; have := ($h).t6;
             have := ($h).t7; have := ($h).t8; have := ($h).t9; have := ($h).t11; have := ($h).t12; have := ($h).t13;
             have := ($h).t14; have := ($h).t16))

/-- bookkeeping of the signal a take_until node is about to send vs. its phase -/
def Track (ph0 : Ph) (x : TU) : Prop :=
  match x.sig with
  | none => x.st.ph = ph0
  | some (.next _) => x.st.ph = .idle ∧ ph0 = .nexting
  | some (.clean _) => x.st.ph = .cleaned ∧ ph0 = .cleaning

structure TUOK (ph0 : Ph) (x : TU) : Prop where
  ga : Good x.s
  gt : Good x.t
  inv : TUInv x.s x.t x.st
  trk : Track ph0 x

theorem tuJoinSrc_ok (a a' t : Op) (st : TakeSt) (outs : List Out) (e : Option Nat)
    (hi : TUInv a t st) (hga : Good a') (hgt : Good t) (hph : st.ph = .cleaning) (h0 : a.ph ≠ .cleaned)
    (h0' : a.ph = .cleaning ∨ a.ph = .idle) (h1 : a'.ph = .cleaned)
    (hm : a'.mustStop = true → st.src = true) :
    TUOK .cleaning (tuJoinSrc ⟨a', t, st, outs, none⟩ e) := by
  have h8 := hi.t8 (by simp [hph])
  tu_facts hi
  by_cases hj : st.joined = true
  · have htc : t.ph = .cleaned := by
      rcases h8.1.1 hj with h | h
      · simp_all
      · exact h
    simp only [tuJoinSrc, tuJoin, hj, if_true]
    refine ⟨hga, hgt, ?_, by simp [Track]⟩
    constructor <;> simp_all
  · have htc : t.ph ≠ .cleaned := fun h => hj (h8.1.2 (Or.inr h))
    simp only [tuJoinSrc, tuJoin, hj]
    refine ⟨hga, hgt, ?_, by simp [Track, hph]⟩
    constructor <;> simp_all

theorem tuJoinTrig_ok (a t t' : Op) (st : TakeSt) (outs : List Out) (e : Option Nat)
    (hi : TUInv a t st) (hga : Good a) (hgt : Good t') (hph : st.ph = .cleaning) (h0 : t.ph ≠ .cleaned)
    (h0' : t.ph = .cleaning ∨ t.ph = .idle) (h1 : t'.ph = .cleaned) (hts : st.trigStarted = true)
    (htr : st.trigRunning = false) :
    TUOK .cleaning (tuJoinTrig ⟨a, t', st, outs, none⟩ e) := by
  have h8 := hi.t8 (by simp [hph])
  tu_facts hi
  by_cases hj : st.joined = true
  · have hac : a.ph = .cleaned := by
      rcases h8.1.1 hj with h | h
      · exact h
      · simp_all
    cases e <;> simp only [tuJoinTrig, tuJoin, hj, if_true] <;>
      refine ⟨hga, hgt, ?_, by simp [Track]⟩ <;> constructor <;> simp_all
  · have hac : a.ph ≠ .cleaned := fun h => hj (h8.1.2 (Or.inl h))
    cases e <;> simp only [tuJoinTrig, tuJoin, hj] <;>
      refine ⟨hga, hgt, ?_, by simp [Track, hph]⟩ <;> constructor <;> simp_all


theorem tuStartTrigCleanup_ok (rec : Rec) (hrec : RecOK rec) (x : TU) (hx : TUOK .cleaning x) (hsig : x.sig = none)
    (hph : x.st.ph = .cleaning) (hti : x.t.ph = .idle) (hts : x.st.trigStarted = true)
    (htr : x.st.trigRunning = false) :
    TUOK .cleaning (tuStartTrigCleanup rec x) := by
  obtain ⟨a, t, st, outs, sig⟩ := x
  obtain ⟨hga, hgt, hi, _⟩ := hx
  simp only at hsig hph hti hts htr hga hgt hi
  subst hsig
  obtain ⟨g, f1, f2, f3, ms, fr⟩ := hrec .cleanup t hgt hti
  simp only [tuStartTrigCleanup]
  generalize hr : rec .cleanup t = r at *
  obtain ⟨t', outs', sg⟩ := r
  simp only at g f1 f2 f3 ms fr
  have hi' : TUInv a t { st with trigOpCtor := st.trigOpCtor + 1 } :=
    ⟨hi.t1, hi.t2, hi.t3, hi.t4, hi.t5, hi.t6, hi.t7, hi.t8, hi.t9, hi.t11, hi.t12, hi.t13, hi.t14, hi.t16⟩
  cases sg with
  | none =>
    have h3 : t'.ph = .idle ∨ t'.ph = .cleaning := by
      rcases f3 rfl with h | ⟨⟨s, h⟩, _⟩ | ⟨_, h⟩ | ⟨h, _⟩
      · left; rw [h, hti]
      · simp at h
      · exact Or.inr h
      · simp [hti] at h
    have h8 := hi.t8 (by simp [hph])
    tu_facts hi
    refine ⟨hga, g, ?_, by simp [Track, hph]⟩
    constructor <;> rcases h3 with h3 | h3 <;> simp_all
  | some y =>
    cases y with
    | next o =>
      have := (f1 o rfl).2
      simp [hti] at this
    | clean e =>
      exact tuJoinTrig_ok a t t' _ _ e hi' hga g hph (by simp [hti]) (Or.inr hti) (f2 e rfl).1 hts htr


/-- the helper left the source side alone -/
def Frame (x y : TU) : Prop :=
  y.s = x.s ∧ y.st.srcRunning = x.st.srcRunning

theorem Frame.refl (x : TU) : Frame x x := ⟨rfl, rfl⟩
theorem Frame.trans {x y z : TU} (h1 : Frame x y) (h2 : Frame y z) : Frame x z :=
  ⟨h2.1.trans h1.1, h2.2.trans h1.2⟩

theorem frame_join (x : TU) : Frame x (tuJoin x) := by
  unfold tuJoin; split <;> exact ⟨rfl, rfl⟩

theorem frame_joinTrig (x : TU) (e : Option Nat) : Frame x (tuJoinTrig x e) := by
  cases e <;> simp only [tuJoinTrig] <;> exact Frame.trans ⟨rfl, rfl⟩ (frame_join _)

theorem frame_startTrigCleanup (rec : Rec) (x : TU) : Frame x (tuStartTrigCleanup rec x) := by
  simp only [tuStartTrigCleanup]
  split
  · exact Frame.trans ⟨rfl, rfl⟩ (frame_joinTrig _ _)
  · exact ⟨rfl, rfl⟩

theorem frame_stopTrig (rec : Rec) (x : TU) : Frame x (tuStopTrig rec x) := by
  simp only [tuStopTrig]
  split
  · split
    · split
      · exact Frame.trans ⟨rfl, rfl⟩ (frame_startTrigCleanup _ _)
      · exact ⟨rfl, rfl⟩
    · exact ⟨rfl, rfl⟩
  · exact Frame.refl x

theorem frame_requestStop (rec : Rec) (x : TU) (h : x.st.srcRunning = false) : Frame x (tuRequestStop rec x) := by
  unfold tuRequestStop
  by_cases hs : x.st.src = true
  · rw [if_pos hs]; exact Frame.refl x
  · rw [if_neg hs]
    dsimp only
    rw [if_neg (by simp [h])]
    exact Frame.trans ⟨rfl, rfl⟩ (frame_stopTrig _ _)

theorem frame_onTrigNext (rec : Rec) (x : TU) (h : x.st.srcRunning = false) : Frame x (tuOnTrigNext rec x) := by
  unfold tuOnTrigNext
  dsimp only
  by_cases hr : x.st.ready = true
  · rw [if_pos hr]
    exact Frame.trans ⟨rfl, rfl⟩ (frame_startTrigCleanup _ _)
  · rw [if_neg hr]
    have h2 := frame_requestStop rec { x with st := { x.st with trigRunning := false } } h
    exact ⟨h2.1, h2.2⟩

theorem tuStopTrig_ok (rec : Rec) (hrec : RecOK rec) (ph0 : Ph) (x : TU) (hx : TUOK ph0 x) (hsrc : x.st.src = true) :
    TUOK ph0 (tuStopTrig rec x) := by
  obtain ⟨a, t, st, outs, sig⟩ := x
  obtain ⟨hga, hgt, hi, htk⟩ := hx
  simp only at hsrc hga hgt hi
  by_cases htr : st.trigRunning = true
  · have hts : st.trigStarted = true := by
      cases h : st.trigStarted
      · have := (hi.t4 h).2.2.1; simp_all
      · rfl
    have ht11 := hi.t11 htr
    obtain ⟨g, f1, f2, f3, ms, fr⟩ := hrec .stop t hgt trivial
    simp only [tuStopTrig, htr, if_true]
    generalize hr : rec .stop t = r at *
    obtain ⟨t', outs', sg⟩ := r
    simp only at g f1 f2 f3 ms fr
    tu_facts hi
    cases sg with
    | none =>
      have h3' : t'.ph = t.ph ∨ (t.ph = .nexting ∧ t'.ph = .idle) := by
        rcases f3 rfl with h | ⟨⟨s, h⟩, _⟩ | ⟨h, _⟩ | h
        · exact Or.inl h
        · simp at h
        · simp at h
        · exact Or.inr h
      refine ⟨hga, g, ?_, by simpa [Track] using htk⟩
      constructor <;> rcases h3' with h3' | ⟨h3', h3''⟩ <;> rcases ht11 with ht11 | ht11 <;> simp_all
    | some y =>
      cases y with
      | clean e =>
        have := (f2 e rfl).2
        rcases ht11 with h | h <;> simp [h] at this
      | next o =>
        obtain ⟨hti, htn⟩ := f1 o rfl
        have htn' : t.ph = .nexting := by
          rcases htn with h | ⟨s, h⟩
          · exact h
          · simp at h
        by_cases hrd : st.ready = true
        · have hph : st.ph = .cleaning := by
            cases hp : st.ph with
            | idle => have := hi.t3 (Or.inl hp) hrd; simp_all
            | nexting => have := hi.t3 (Or.inr hp) hrd; simp_all
            | cleaning => rfl
            | cleaned => have := (hi.t9 hp).2; simp_all
          have hsn : sig = none := by
            cases sig with
            | none => rfl
            | some z => cases z <;> simp_all [Track]
          subst hsn
          have hp0 : ph0 = .cleaning := by simp_all [Track]
          subst hp0
          simp only [hrd, if_true]
          refine tuStartTrigCleanup_ok rec hrec _ ⟨hga, g, ?_, by simp [Track, hph]⟩ rfl hph hti hts rfl
          constructor <;> simp_all
        · simp only [hrd]
          refine ⟨hga, g, ?_, by simpa [Track] using htk⟩
          constructor <;> simp_all
  · simp only [tuStopTrig, htr]
    exact ⟨hga, hgt, hi, htk⟩


theorem tuOnSrcNext_ok (rec : Rec) (hrec : RecOK rec) (a a' t : Op) (st : TakeSt) (outs : List Out) (o : Outcome)
    (hi : TUInv a t st) (hga : Good a') (hgt : Good t) (h0 : a.ph = .nexting ∨ a.ph = .idle) (h1 : a'.ph = .idle)
    (hm : a'.mustStop = true → st.src = true) (hph : st.ph = .nexting) :
    TUOK .nexting (tuOnSrcNext rec ⟨a', t, st, outs, none⟩ o) := by
  tu_facts hi
  have B1 : TUOK .nexting ⟨a', t, { st with srcRunning := false, ph := .idle }, outs, some (.next o)⟩ := by
    refine ⟨hga, hgt, ?_, by simp [Track]⟩
    constructor <;> rcases h0 with h0 | h0 <;> simp_all
  have B2 : TUOK .nexting ⟨a', t, { st with srcRunning := false, ph := .idle, src := true }, outs, some (.next o)⟩ := by
    refine ⟨hga, hgt, ?_, by simp [Track]⟩
    constructor <;> rcases h0 with h0 | h0 <;> simp_all
  have nv : ∀ o' : Outcome, o' = o → (∀ v, o ≠ .value v) →
      TUOK .nexting (if st.src = true then
          (⟨a', t, { st with srcRunning := false, ph := .idle }, outs, some (.next o)⟩ : TU)
        else tuStopTrig rec ⟨a', t, { st with srcRunning := false, ph := .idle, src := true }, outs, some (.next o)⟩) := by
    intro _ _ _
    by_cases hs : st.src = true
    · rw [if_pos hs]; exact B1
    · rw [if_neg hs]
      exact tuStopTrig_ok rec hrec _ _ B2 rfl
  cases o with
  | value v => simpa [tuOnSrcNext] using B1
  | done => simpa [tuOnSrcNext] using nv .done rfl (by simp)
  | error e => simpa [tuOnSrcNext] using nv (.error e) rfl (by simp)


/-- the helper left the trigger side alone -/
def TFrame (x y : TU) : Prop :=
  y.t = x.t ∧ y.st.trigRunning = x.st.trigRunning ∧ y.st.ready = x.st.ready ∧ y.st.trigStarted = x.st.trigStarted

theorem tframe_stopTrig (rec : Rec) (x : TU) (h : x.st.trigRunning = false) : tuStopTrig rec x = x := by
  simp [tuStopTrig, h]

theorem tframe_onSrcNext (rec : Rec) (x : TU) (o : Outcome) (h : x.st.trigRunning = false) :
    TFrame x (tuOnSrcNext rec x o) := by
  simp only [tuOnSrcNext]
  cases o with
  | value v => exact ⟨rfl, rfl, rfl, rfl⟩
  | done =>
    simp only
    split
    · exact ⟨rfl, rfl, rfl, rfl⟩
    · rw [tframe_stopTrig _ _ (by simpa using h)]; exact ⟨rfl, rfl, rfl, rfl⟩
  | error e =>
    simp only
    split
    · exact ⟨rfl, rfl, rfl, rfl⟩
    · rw [tframe_stopTrig _ _ (by simpa using h)]; exact ⟨rfl, rfl, rfl, rfl⟩

theorem tframe_requestStop (rec : Rec) (x : TU) (h : x.st.trigRunning = false) :
    TFrame x (tuRequestStop rec x) := by
  simp only [tuRequestStop]
  split
  · exact ⟨rfl, rfl, rfl, rfl⟩
  · split
    · split
      · rename_i o hsig
        have h1 := tframe_onSrcNext rec
          { x with st := { x.st with src := true }, s := (rec .stop x.s).1, outs := x.outs ++ (rec .stop x.s).2.1 } o
          (by simpa using h)
        rw [tframe_stopTrig _ _ (by rw [h1.2.1]; simpa using h)]
        exact h1
      · rw [tframe_stopTrig _ _ (by simpa using h)]; exact ⟨rfl, rfl, rfl, rfl⟩
    · rw [tframe_stopTrig _ _ (by simpa using h)]; exact ⟨rfl, rfl, rfl, rfl⟩

theorem tuOnSrcNext_src (rec : Rec) (x : TU) (o : Outcome) (h : x.st.src = true) :
    (tuOnSrcNext rec x o).st.src = true := by
  cases o <;> simp [tuOnSrcNext, h]

theorem tuRequestStop_ok (rec : Rec) (hrec : RecOK rec) (ph0 : Ph) (x : TU) (hx : TUOK ph0 x) :
    TUOK ph0 (tuRequestStop rec x) := by
  obtain ⟨a, t, st, outs, sig⟩ := x
  obtain ⟨hga, hgt, hi, htk⟩ := hx
  simp only at hga hgt hi
  by_cases hsrc : st.src = true
  · simp only [tuRequestStop, hsrc, if_true]; exact ⟨hga, hgt, hi, htk⟩
  · have hi1 : TUInv a t { st with src := true } :=
      ⟨fun _ => rfl, hi.t2, hi.t3, hi.t4, hi.t5, hi.t6, hi.t7, hi.t8, hi.t9, hi.t11, hi.t12, hi.t13, hi.t14, hi.t16⟩
    simp only [tuRequestStop, hsrc]
    by_cases hsr : st.srcRunning = true
    · obtain ⟨hph, ha12⟩ := hi.t12 hsr
      have hsn : sig = none := by
        cases sig with
        | none => rfl
        | some z => cases z <;> simp_all [Track]
      subst hsn
      have hp0 : ph0 = .nexting := by simp_all [Track]
      subst hp0
      obtain ⟨g, f1, f2, f3, ms, fr⟩ := hrec .stop a hga trivial
      simp only [hsr, if_true]
      generalize hr : rec .stop a = r at *
      obtain ⟨a', outs', sg⟩ := r
      simp only at g f1 f2 f3 ms fr
      cases sg with
      | none =>
        have h3' : a'.ph = a.ph ∨ (a.ph = .nexting ∧ a'.ph = .idle) := by
          rcases f3 rfl with h | ⟨⟨s, h⟩, _⟩ | ⟨h, _⟩ | h
          · exact Or.inl h
          · simp at h
          · simp at h
          · exact Or.inr h
        refine tuStopTrig_ok rec hrec _ _ ⟨g, hgt, ?_, by simp [Track, hph]⟩ rfl
        tu_facts hi
        constructor <;> rcases h3' with h3' | ⟨h3', h3''⟩ <;> rcases ha12 with ha12 | ha12 <;> simp_all
      | some y =>
        cases y with
        | clean e =>
          have := (f2 e rfl).2
          rcases ha12 with h | h <;> simp [h] at this
        | next o =>
          obtain ⟨h1, h1'⟩ := f1 o rfl
          have han : a.ph = .nexting := by
            rcases h1' with h | ⟨s, h⟩
            · exact h
            · simp at h
          have hok := tuOnSrcNext_ok rec hrec a a' t { st with src := true } (outs ++ outs') o hi1 g hgt (Or.inl han) h1
            (fun _ => rfl) hph
          exact tuStopTrig_ok rec hrec _ _ hok (tuOnSrcNext_src rec _ o rfl)
    · have hsr' : st.srcRunning = false := by simpa using hsr
      simp only [hsr', Bool.false_eq_true, if_false]
      refine tuStopTrig_ok rec hrec _ _ ⟨hga, hgt, ?_, by simpa [Track] using htk⟩ rfl
      tu_facts hi
      constructor <;> simp_all


theorem tuOnTrigNext_ok (rec : Rec) (hrec : RecOK rec) (ph0 : Ph) (a t t' : Op) (st : TakeSt) (outs : List Out)
    (sig : Option Sig) (hi : TUInv a t st) (hga : Good a) (hgt : Good t') (h0 : t.ph = .nexting ∨ t.ph = .idle)
    (h1 : t'.ph = .idle) (hts : st.trigStarted = true) (hrdph : st.ready = true → st.ph = .cleaning)
    (htk : Track ph0 ⟨a, t, st, outs, sig⟩) :
    TUOK ph0 (tuOnTrigNext rec ⟨a, t', st, outs, sig⟩) := by
  tu_facts hi
  by_cases hrd : st.ready = true
  · have hph := hrdph hrd
    have hsn : sig = none := by
      cases sig with
      | none => rfl
      | some z => cases z <;> simp_all [Track]
    subst hsn
    have hp0 : ph0 = .cleaning := by simp_all [Track]
    subst hp0
    simp only [tuOnTrigNext, hrd, if_true]
    refine tuStartTrigCleanup_ok rec hrec _ ⟨hga, hgt, ?_, by simp [Track, hph]⟩ rfl hph h1 hts rfl
    constructor <;> rcases h0 with h0 | h0 <;> simp_all
  · have e : tuOnTrigNext rec ⟨a, t', st, outs, sig⟩ =
        { tuRequestStop rec ⟨a, t', { st with trigRunning := false }, outs, sig⟩ with
          st := { (tuRequestStop rec ⟨a, t', { st with trigRunning := false }, outs, sig⟩).st with ready := true } } := by
      simp only [tuOnTrigNext]
      rw [if_neg hrd]
    rw [e]
    have hrd' : st.ready = false := by simpa using hrd
    have hx1 : TUOK ph0 ⟨a, t', { st with trigRunning := false }, outs, sig⟩ := by
      refine ⟨hga, hgt, ?_, by simpa [Track] using htk⟩
      constructor <;> rcases h0 with h0 | h0 <;> simp_all
    have hx2 := tuRequestStop_ok rec hrec ph0 _ hx1
    have hfr := tframe_requestStop rec ⟨a, t', { st with trigRunning := false }, outs, sig⟩ rfl
    generalize tuRequestStop rec ⟨a, t', { st with trigRunning := false }, outs, sig⟩ = x2 at *
    obtain ⟨a2, t2, st2, outs2, sig2⟩ := x2
    obtain ⟨hga2, hgt2, hi2, htk2⟩ := hx2
    obtain ⟨e1, e2, e3, e4⟩ := hfr
    simp only at e1 e2 e3 e4 hga2 hgt2 hi2
    subst e1
    refine ⟨hga2, hgt2, ?_, by simpa [Track] using htk2⟩
    tu_facts hi2
    constructor <;> simp_all

end Unifex.Stream
