/-
  Calc/Parse.lean — the line protocol of the event-level correspondence (driver side): parse a case
  line into (Expr, leaf specs, events), run it through `Calc.deliver`, render the canonical
  observation exactly like harness/evt/evt.cpp does.
-/
import UnifexModel.Calc.Sem

namespace Unifex.Calc

inductive SExp
  | atom (s : String)
  | list (xs : List SExp)

def tokenize (s : String) : List String :=
  let rec go (cs : List Char) (cur : String) (acc : List String) : List String :=
    match cs with
    | [] => (if cur.isEmpty then acc else cur :: acc).reverse
    | c :: rest =>
      if c = '(' || c = ')' then
        go rest "" (String.singleton c :: (if cur.isEmpty then acc else cur :: acc))
      else if c.isWhitespace then go rest "" (if cur.isEmpty then acc else cur :: acc)
      else go rest (cur.push c) acc
  go s.toList "" []

/-- parse one s-expression; fuel = number of tokens -/
def parseS : Nat → List String → Option (SExp × List String)
  | 0, _ => none
  | _, [] => none
  | f+1, t :: ts =>
    if t = "(" then
      let rec items (g : Nat) (ts : List String) (acc : List SExp) : Option (SExp × List String) :=
        match g, ts with
        | 0, _ => none
        | _, [] => none
        | g+1, u :: us =>
          if u = ")" then some (.list acc.reverse, us)
          else match parseS f (u :: us) with
            | some (e, rest) => items g rest (e :: acc)
            | none => none
      items (f+1) ts []
    else if t = ")" then none
    else some (.atom t, ts)

def parseFn (s : String) : Option Fn :=
  match s.splitOn ":" with
  | ["add", k] => k.toNat?.map Fn.add
  | ["thr", e] => e.toNat?.map Fn.throwAlways
  | ["tie", c, e, k] => do
    let c ← c.toNat?; let e ← e.toNat?; let k ← k.toNat?
    pure (Fn.throwIfEq c e k)
  -- constant results; the v* forms are callables returning void (the harness appends a `then` producing k): same function
  | ["cst", k] => k.toNat?.map Fn.const
  | ["vcst", k] => k.toNat?.map Fn.const
  | ["vthr", e] => e.toNat?.map Fn.throwAlways
  | ["ctie", c, e, k] => do
    let c ← c.toNat?; let e ← e.toNat?; let k ← k.toNat?
    pure (Fn.constThrowIfEq c e k)
  | ["vtie", c, e, k] => do
    let c ← c.toNat?; let e ← e.toNat?; let k ← k.toNat?
    pure (Fn.constThrowIfEq c e k)
  | [n] => n.toNat?.map Fn.const
  | _ => none

partial def toExpr : SExp → Option Expr
  | .list [.atom "just", .atom n] => n.toNat?.map (fun v => .const (.just v))
  | .list [.atom "jerr", .atom n] => n.toNat?.map (fun v => .const (.justError v))
  | .list [.atom "jdone"] => some (.const .justDone)
  | .list [.atom "argv", .atom n] => n.toNat?.map (fun v => .const (.argv v))
  | .list [.atom "sir"] => some (.const .stopIfRequested)
  | .list [.atom "jfrom", .atom n] => n.toNat?.map (fun v => .const (.justFrom v))
  | .list [.atom "jvod", .atom n] => n.toNat?.map (fun v => .const (.justVoidOrDone (v != 0)))
  | .list [.atom "leaf", .atom n] => n.toNat?.map Expr.leaf
  | .list [.atom "then", .atom f, c] => do let f ← parseFn f; let c ← toExpr c; pure (.un (.thenF f) c)
  | .list [.atom "uerr", .atom f, c] => do let f ← parseFn f; let c ← toExpr c; pure (.un (.uponError f) c)
  | .list [.atom "udone", .atom f, c] => do let f ← parseFn f; let c ← toExpr c; pure (.un (.uponDone f) c)
  | .list [.atom "md", c] => do let c ← toExpr c; pure (.un .matDemat c)
  | .list [.atom "dao", .atom n, c] => do let v ← n.toNat?; let c ← toExpr c; pure (.un (.doneAsOpt v) c)
  | .list [.atom "uns", c] => do let c ← toExpr c; pure (.un .unstoppable c)
  | .list [.atom "tag", .atom n, c] => do let v ← n.toNat?; let c ← toExpr c; pure (.un (.withTag v) c)
  | .list [.atom "src", c] => do let c ← toExpr c; pure (.un .withSrc c)
  | .list [.atom "era", c] => do let c ← toExpr c; pure (.un .erase c)
  -- harness-only wrappers that must be transparent: `rtk` = a receiver boundary whose stop token is a counting wrapper
  -- (monitor: no callback registered when a completion passes), `lvt` = let_value_with_stop_token(λtoken. child)
  | .list [.atom "mob", c] => do let c ← toExpr c; pure (.un .matObs c)
  | .list [.atom "rtk", c] => do let c ← toExpr c; pure (.un .erase c)
  | .list [.atom "lvt", c] => do let c ← toExpr c; pure (.un .erase c)
  | .list [.atom "iv", c] => do let c ← toExpr c; pure (.un .intoVariant c)
  | .list [.atom "dfr", c] => do let c ← toExpr c; pure (.un .deferK c)
  | .list [.atom "alc", c] => do let c ← toExpr c; pure (.un .allocate c)
  | .list [.atom k, a, b] => do
    let a ← toExpr a; let b ← toExpr b
    let kind ← match k with
      | "lv" => some BinKind.letValue | "le" => some .letError | "ld" => some .letDone
      | "seq" => some .seq | "fin" => some .fin | "wa" => some .whenAll | "sw" => some .stopWhen
      | "any" => some .whenAny
      | _ => none
    pure (.bin kind a b)
  | _ => none

def parseOutcome (s : String) : Option Outcome :=
  match s.toList with
  | 'v' :: r => (String.ofList r).toNat?.map Outcome.value
  | 'e' :: r => (String.ofList r).toNat?.map Outcome.error
  | ['d'] => some .done
  | _ => none

def parseSpec (s : String) : Option (Nat × LeafSpec) :=
  match s.splitOn "=" with
  | [i, v] => do
    let i ← i.toNat?
    match v.splitOn ":" with
    | ["i", o] => do let o ← parseOutcome o; pure (i, .inline o)
    | ["p", "ign"] => pure (i, .pending .ignore)
    | ["p", "done"] => pure (i, .pending .completeDone)
    | _ => none
  | _ => none

def parseEv (s : String) : Option Ev :=
  if s = "start" then some (.start rootEnv)
  else if s = "stop" then some .stop
  else match s.toList with
    | 'c' :: r =>
      match (String.ofList r).splitOn ":" with
      | [i, o] => do let i ← i.toNat?; let o ← parseOutcome o; pure (.complete i o)
      | _ => none
    | _ => none

def words (s : String) : List String := (s.splitOn " ").filter (fun x => x ≠ "")

/-- insertion sort on strings (outputs are sorted within one event, like the harness does) -/
def insertStr (x : String) : List String → List String
  | [] => [x]
  | y :: ys => if x ≤ y then x :: y :: ys else y :: insertStr x ys
def sortStr (l : List String) : List String := l.foldr insertStr []

def renderOut : Out → String
  | .leafStart i st tag => s!"ls{i}:{if st then 1 else 0}:{tag}"
  | .leafStop i => s!"lp{i}"
  | .fuelOut => "!!fuel"

def renderOutcome : Outcome → String
  | .value v => s!"R=v{v}"
  | .error e => s!"R=e{e}"
  | .done => "R=d"

def renderEvent (outs : List Out) (r : Option Outcome) : String :=
  let items := outs.map renderOut ++ (match r with | some o => [renderOutcome o] | none => [])
  if items.isEmpty then "-" else ",".intercalate (sortStr items)

def specsOf (l : List (Nat × LeafSpec)) (i : Nat) : LeafSpec :=
  match l.lookup i with
  | some s => s
  | none => .inline (.value 0)

/-- valid external event for the current tree?  (the harness prints `!!bad-op` otherwise) -/
def evOk (op : Op) (started : Bool) : Ev → Bool
  | .start _ => !started
  | .stop => true
  | .complete i _ => op.pending.contains i

def drain (specs : Nat → LeafSpec) : Nat → Op → List String → List String
  | 0, _, acc => acc.reverse
  | f+1, op, acc =>
    match op.pending.foldl (fun (m : Option Nat) i => match m with | none => some i | some j => some (min i j)) none with
    | none => acc.reverse
    | some i =>
      let (op', outs, r) := deliver specs (op.height + 1) (.complete i .done) op
      drain specs f op' (renderEvent outs r :: acc)

def runScript (specs : Nat → LeafSpec) : Op → Bool → List Ev → List String → Op × List String
  | op, _, [], acc => (op, acc.reverse)
  | op, started, ev :: evs, acc =>
    if !evOk op started ev then runScript specs op started evs ("!!bad-op" :: acc)
    else
      -- the stop source can be requested only once; later requests are no-ops
      let (op', outs, r) := deliver specs (op.height + 1) ev op
      let started' := started || (match ev with | .start _ => true | _ => false)
      runScript specs op' started' evs (renderEvent outs r :: acc)

/-- dedupe repeated `stop` events (request_stop is idempotent on the root source) -/
def dedupStop : List Ev → Bool → List (Option Ev)
  | [], _ => []
  | .stop :: r, seen => (if seen then none else some .stop) :: dedupStop r true
  | e :: r, seen => some e :: dedupStop r seen

def runCase (line : String) : String :=
  match line.splitOn "|" with
  | [id, e, sp, evs] =>
    let toks := tokenize e
    match parseS (toks.length + 1) toks with
    | some (sx, _) =>
      match toExpr sx with
      | some ex =>
        let specL := (words sp).filterMap parseSpec
        let specs := specsOf specL
        match (words evs).mapM parseEv with
        | some evl =>
          let rec go (op : Op) (started stopped : Bool) (evs : List Ev) (acc : List String) : Op × List String :=
            match evs with
            | [] => (op, acc.reverse)
            | ev :: rest =>
              if !evOk op started ev then go op started stopped rest ("!!bad-op" :: acc)
              else if ev = .stop && stopped then go op started stopped rest ("-" :: acc)
              else if ev = .stop && !started then
                -- stop before start: nothing is registered yet; the root environment starts stopped
                go op started true rest ("-" :: acc)
              else
                let ev' := match ev with
                  | .start env => Ev.start { env with stopped := stopped }
                  | e => e
                let (op', outs, r) := deliver specs (op.height + 1) ev' op
                let started' := started || (match ev with | .start _ => true | _ => false)
                go op' started' (stopped || ev = .stop) rest (renderEvent outs r :: acc)
          let (op, res) := go (connect ex) false false evl []
          let dr := drain specs 1000 op []
          s!"{id.trimAscii} | {" | ".intercalate (res ++ dr)}"
        | none => "bad-op events"
      | none => "bad-op expr"
    | none => "bad-op parse"
  | _ => "bad-op"

end Unifex.Calc
