/-
  Calc/StreamSafetyRoot.lean — the consumers (reduce_stream / for_each / manual driver) respect the stream
  protocol: `RInv` is an invariant of `rootStep` for every legal external event, from `Root.init` on.
  Consequences for the sources (`good_leaves`, `good_cleaned_settled`) are what Props/C13 states.
-/
import UnifexModel.Calc.StreamSafetyTake3

namespace Unifex.Stream
open Unifex.Calc (Outcome Fn)
variable (specs : Nat → SrcSpec)

theorem fresh_settled {op : Op} (h : op.fresh) : op.settled := by
  induction op with
  | leaf k st => exact Or.inr h
  | un k c ih => exact ih h
  | filter p c s ih => exact ih h
  | stopImm c st ih => exact ih h.2.2.2
  | takeUntil a t st iha iht => exact ⟨iha h.2.2.2.2.2.2.2.1, iht h.2.2.2.2.2.2.2.2⟩

/-- a node that has completed its cleanup has settled every source below it -/
theorem good_cleaned_settled {op : Op} (hg : Good op) (h : op.ph = .cleaned) : op.settled := by
  induction op with
  | leaf k st => exact Or.inl h
  | un k c ih => exact ih hg h
  | filter p c s ih => exact ih hg.1 h
  | stopImm c st ih =>
    obtain ⟨hgc, i1, i2, i3, i4, i5, i6, i7, i8, i9, i10⟩ := hg
    rcases i9 h with h9 | h9
    · exact ih hgc h9
    · exact (fresh_settled h9 : c.settled)
  | takeUntil a t st iha iht =>
    obtain ⟨hga, hgt, hi⟩ := hg
    have := hi.t9 h
    exact ⟨iha hga this.1, iht hgt this.2⟩

theorem good_leaves {op : Op} (hg : Good op) : ∀ p ∈ op.leaves, p.2.ok := by
  induction op with
  | leaf k st => intro p hp; simp [Op.leaves] at hp; subst hp; exact hg
  | un k c ih => exact ih hg
  | filter p c s ih => exact ih hg.1
  | stopImm c st ih => exact ih hg.1
  | takeUntil a t st iha iht =>
    intro p hp
    simp only [Op.leaves, List.mem_append] at hp
    rcases hp with hp | hp
    · exact iha hg.1 p hp
    · exact iht hg.2.1 p hp

theorem settled_leaves {op : Op} (h : op.settled) :
    ∀ p ∈ op.leaves, p.2.ph = .cleaned ∨ (p.2.ph = .idle ∧ p.2.k = 0) := by
  induction op with
  | leaf k st => intro p hp; simp [Op.leaves] at hp; subst hp; exact h
  | un k c ih => exact ih h
  | filter p c s ih => exact ih h
  | stopImm c st ih => exact ih h
  | takeUntil a t st iha iht =>
    intro p hp
    simp only [Op.leaves, List.mem_append] at hp
    rcases hp with hp | hp
    · exact iha h.1 p hp
    · exact iht h.2 p hp

theorem connect_fresh (e : SExpr) : (connect e).fresh := by
  induction e with
  | range lo hi => exact ⟨rfl, rfl⟩
  | single v => exact ⟨rfl, rfl⟩
  | neverS => exact ⟨rfl, rfl⟩
  | src i => exact ⟨rfl, rfl⟩
  | un k s ih => exact ih
  | filter p s ih => exact ih
  | stopImmediately s ih => exact ⟨rfl, rfl, rfl, ih⟩
  | takeUntil s t ihs iht => exact ⟨rfl, rfl, rfl, rfl, rfl, rfl, rfl, ihs, iht⟩

theorem connect_good (e : SExpr) : Good (connect e) := by
  induction e with
  | range lo hi => simp [connect, Good, LeafSt.ok, LeafSt.init]
  | single v => simp [connect, Good, LeafSt.ok, LeafSt.init]
  | neverS => simp [connect, Good, LeafSt.ok, LeafSt.init]
  | src i => simp [connect, Good, LeafSt.ok, LeafSt.init]
  | un k s ih => exact ih
  | filter p s ih => exact ⟨ih, by simp [fresh_mustStop (connect_fresh s)]⟩
  | stopImmediately s ih =>
    refine ⟨ih, ?_⟩
    have hf := connect_fresh s
    simp [SIInv, StopImmSt.init, fresh_mustStop hf, fresh_ph hf, hf]
  | takeUntil s t ihs iht =>
    refine ⟨ihs, iht, ?_⟩
    have hfs := connect_fresh s
    have hft := connect_fresh t
    constructor <;> simp [TakeSt.init, fresh_mustStop hfs, fresh_mustStop hft, fresh_ph hfs, fresh_ph hft]


/-- invariant of the consumer machine -/
structure RInv (rt : Root) : Prop where
  good : Good rt.op
  ms : rt.op.mustStop = true → rt.stopped = true
  idle : rt.ph = .idle → rt.op.ph = .idle
  nx : rt.op.ph = .nexting → rt.ph = .nexting
  cl : rt.op.ph = .cleaning → rt.ph = .cleaning
  res : rt.result.isSome = true → rt.op.ph = .cleaned
  fin : rt.ph = .finished → rt.op.ph = .cleaned
  notStarted : rt.cons.kind ≠ .manual → rt.started = false → rt.ph = .idle

/-- what `rootAfter` needs to know about the stream's answer `r` in root state `rt` -/
def AfterOK (rt : Root) (r : Res) : Prop :=
  Good r.1 ∧ (r.1.mustStop = true → rt.stopped = true) ∧
  (rt.cons.kind ≠ .manual → rt.started = false → rt.ph = .idle) ∧
  (match r.2.2 with
   | none => (rt.ph = .idle → r.1.ph = .idle) ∧ (r.1.ph = .nexting → rt.ph = .nexting) ∧
             (r.1.ph = .cleaning → rt.ph = .cleaning) ∧ (rt.ph = .finished → r.1.ph = .cleaned) ∧
             (rt.result.isSome = true → r.1.ph = .cleaned)
   | some (.next _) => r.1.ph = .idle ∧ rt.ph = .nexting ∧ rt.result = none
   | some (.clean _) => r.1.ph = .cleaned ∧ rt.ph = .cleaning)

theorem afterOK_next' (rt' : Root) (op : Op) (f : Nat) (hg : Good op) (hm : op.mustStop = true → rt'.stopped = true)
    (hns : rt'.cons.kind ≠ .manual → rt'.started = false → rt'.ph = .idle)
    (hi : op.ph = .idle) (hph : rt'.ph = .nexting) (hres : rt'.result = none) :
    AfterOK rt' (deliver specs f (.next rt'.stopped) op) := by
  obtain ⟨g, f1, f2, f3, ms, fr⟩ := deliver_ok specs f (.next rt'.stopped) op hg ⟨hi, hm⟩
  refine ⟨g, ?_, hns, ?_⟩
  · intro h
    rcases ms h with h1 | h1
    · exact hm h1
    · simp at h1
  · generalize deliver specs f (.next rt'.stopped) op = r2 at *
    obtain ⟨op2, outs2, sg2⟩ := r2
    simp only at g f1 f2 f3 ms fr
    cases sg2 with
    | none =>
      have h3 : op2.ph = .idle ∨ op2.ph = .nexting := by
        rcases f3 rfl with h | ⟨_, h⟩ | ⟨h, _⟩ | ⟨h, _⟩
        · left; rw [h, hi]
        · exact Or.inr h
        · simp at h
        · simp [hi] at h
      simp only
      rcases h3 with h3 | h3 <;> simp [h3, hph, hres]
    | some y =>
      cases y with
      | next o => simp only; exact ⟨(f1 o rfl).1, hph, hres⟩
      | clean e =>
        have := (f2 e rfl).2
        simp [hi] at this

theorem afterOK_cleanup' (rt' : Root) (op : Op) (f : Nat) (hg : Good op) (hm : op.mustStop = true → rt'.stopped = true)
    (hns : rt'.cons.kind ≠ .manual → rt'.started = false → rt'.ph = .idle)
    (hi : op.ph = .idle) (hph : rt'.ph = .cleaning) (hres : rt'.result = none) :
    AfterOK rt' (deliver specs f .cleanup op) := by
  obtain ⟨g, f1, f2, f3, ms, fr⟩ := deliver_ok specs f .cleanup op hg hi
  refine ⟨g, ?_, hns, ?_⟩
  · intro h
    rcases ms h with h1 | h1
    · exact hm h1
    · simp at h1
  · generalize deliver specs f .cleanup op = r2 at *
    obtain ⟨op2, outs2, sg2⟩ := r2
    simp only at g f1 f2 f3 ms fr
    cases sg2 with
    | none =>
      have h3 : op2.ph = .idle ∨ op2.ph = .cleaning := by
        rcases f3 rfl with h | ⟨⟨s, h⟩, _⟩ | ⟨_, h⟩ | ⟨h, _⟩
        · left; rw [h, hi]
        · simp at h
        · exact Or.inr h
        · simp [hi] at h
      simp only
      rcases h3 with h3 | h3 <;> simp [h3, hph, hres]
    | some y =>
      cases y with
      | next o =>
        have := (f1 o rfl).2
        simp [hi] at this
      | clean e => simp [(f2 e rfl).1, hph]

theorem afterOK_next (rt : Root) (r : Res) (v : Option Nat) (hg : Good r.1) (hm : r.1.mustStop = true → rt.stopped = true)
    (hns : rt.cons.kind ≠ .manual → rt.started = false → rt.ph = .idle)
    (hi : r.1.ph = .idle) (hph : rt.ph = .nexting) (hres : rt.result = none) (acc : Nat) (dl : List Nat) :
    AfterOK { rt with op := r.1, acc := acc, delivered := dl }
      (deliver specs (r.1.need specs) (.next rt.stopped) r.1) :=
  afterOK_next' specs { rt with op := r.1, acc := acc, delivered := dl } r.1 _ hg hm hns hi hph hres

theorem afterOK_cleanup (rt : Root) (r : Res) (hg : Good r.1) (hm : r.1.mustStop = true → rt.stopped = true)
    (hns : rt.cons.kind ≠ .manual → rt.started = false → rt.ph = .idle)
    (hi : r.1.ph = .idle) (hph : rt.ph = .nexting) (hres : rt.result = none) (err : Option Nat) (dl : List Nat) :
    AfterOK { rt with op := r.1, ph := .cleaning, err := err, delivered := dl }
      (deliver specs (r.1.need specs) .cleanup r.1) :=
  afterOK_cleanup' specs { rt with op := r.1, ph := .cleaning, err := err, delivered := dl } r.1 _ hg hm
    (fun h1 h2 => by have := hns h1 h2; simp [hph] at this) hi rfl hres

theorem rootAfter_inv : ∀ (n : Nat) (rt : Root) (r : Res), AfterOK rt r → RInv (rootAfter specs n rt r).1 := by
  intro n
  induction n with
  | zero =>
    intro rt r h
    obtain ⟨hg, hm, hns, hmatch⟩ := h
    obtain ⟨op', outs, sg⟩ := r
    simp only [rootAfter]
    cases sg with
    | none =>
      obtain ⟨h1, h2, h3, h4, h5⟩ := hmatch
      exact ⟨hg, hm, h1, h2, h3, h5, h4, hns⟩
    | some y =>
      cases y with
      | next o =>
        obtain ⟨h1, h2, h3⟩ := hmatch
        simp only at h1 h2 h3 hg hm
        exact ⟨hg, hm, by simp [h2], by simp [h1], by simp [h1], by simp [h3], by simp [h2], hns⟩
      | clean e =>
        obtain ⟨h1, h2⟩ := hmatch
        simp only at h1 h2 hg hm
        exact ⟨hg, hm, by simp [h2], by simp [h1], by simp [h1], by simp [h1], by simp [h2], hns⟩
  | succ n ih =>
    intro rt r h
    obtain ⟨hg, hm, hns, hmatch⟩ := h
    obtain ⟨op', outs, sg⟩ := r
    simp only at hg hm
    cases sg with
    | none =>
      obtain ⟨h1, h2, h3, h4, h5⟩ := hmatch
      simp only [rootAfter]
      exact ⟨hg, hm, h1, h2, h3, h5, h4, hns⟩
    | some y =>
      cases y with
      | clean e =>
        obtain ⟨h1, h2⟩ := hmatch
        simp only at h1 h2
        have hst : rt.cons.kind ≠ .manual → rt.started = false → False := fun hk hs => by
          have := hns hk hs; simp [h2] at this
        simp only [rootAfter]
        cases hk : rt.cons.kind <;> simp only <;>
          exact ⟨hg, hm, by simp, by simp [h1], by simp [h1], by simp [h1], by simp [h1],
            fun hk' hs => (hst hk' hs).elim⟩
      | next o =>
        obtain ⟨h1, h2, h3⟩ := hmatch
        simp only at h1 h2 h3
        cases hk : rt.cons.kind with
        | manual =>
          simp only [rootAfter, hk]
          refine ⟨hg, hm, by simp [h1], by simp [h1], by simp [h1], by simp [h3], by simp, ?_⟩
          intro hh; simp [hk] at hh
        | reduce =>
          cases o with
          | value v =>
            cases hs : rt.cons.step rt.acc v with
            | ok acc' =>
              have := ih _ _ (afterOK_next specs rt (op', outs, some (.next (.value v))) none hg hm hns h1 h2 h3 acc' (rt.delivered ++ [v]))
              simpa [rootAfter, hk, hs] using this
            | error e =>
              have := ih _ _ (afterOK_cleanup specs rt (op', outs, some (.next (.value v))) hg hm hns h1 h2 h3 (some e) (rt.delivered ++ [v]))
              simpa [rootAfter, hk, hs] using this
          | done =>
            have := ih _ _ (afterOK_cleanup specs rt (op', outs, some (.next .done)) hg hm hns h1 h2 h3 rt.err rt.delivered)
            simpa [rootAfter, hk] using this
          | error e =>
            have := ih _ _ (afterOK_cleanup specs rt (op', outs, some (.next (.error e))) hg hm hns h1 h2 h3 (some e) rt.delivered)
            simpa [rootAfter, hk] using this
        | forEach =>
          cases o with
          | value v =>
            cases hs : rt.cons.step rt.acc v with
            | ok acc' =>
              have := ih _ _ (afterOK_next specs rt (op', outs, some (.next (.value v))) none hg hm hns h1 h2 h3 acc' (rt.delivered ++ [v]))
              simpa [rootAfter, hk, hs] using this
            | error e =>
              have := ih _ _ (afterOK_cleanup specs rt (op', outs, some (.next (.value v))) hg hm hns h1 h2 h3 (some e) (rt.delivered ++ [v]))
              simpa [rootAfter, hk, hs] using this
          | done =>
            have := ih _ _ (afterOK_cleanup specs rt (op', outs, some (.next .done)) hg hm hns h1 h2 h3 rt.err rt.delivered)
            simpa [rootAfter, hk] using this
          | error e =>
            have := ih _ _ (afterOK_cleanup specs rt (op', outs, some (.next (.error e))) hg hm hns h1 h2 h3 (some e) rt.delivered)
            simpa [rootAfter, hk] using this


theorem init_inv (c : Consumer) (e : SExpr) : RInv (Root.init c e) := by
  have hf := connect_fresh e
  exact ⟨connect_good e, by simp [Root.init, fresh_mustStop hf], fun _ => fresh_ph hf,
    by simp [Root.init, fresh_ph hf], by simp [Root.init, fresh_ph hf], by simp [Root.init], by simp [Root.init],
    fun _ _ => rfl⟩

/-- the answer of the stream to an external completion, seen from the root -/
theorem afterOK_event (rt : Root) (h : RInv rt) (ev : Call) (hev : ev.isEvent) (hns : ev = .stop → rt.stopped = true) :
    AfterOK rt (deliver specs (rt.op.need specs) ev rt.op) := by
  have hl : Legal ev rt.op := by cases ev <;> simp_all [Legal, Call.isEvent]
  have hnn : ¬ ∃ s, ev = .next s := by rintro ⟨s, rfl⟩; exact hev
  have hnc : ev ≠ .cleanup := by rintro rfl; exact hev
  obtain ⟨g, f1, f2, f3, ms, fr⟩ := deliver_ok specs (rt.op.need specs) ev rt.op h.good hl
  refine ⟨g, ?_, h.notStarted, ?_⟩
  · intro hm
    rcases ms hm with h1 | h1
    · exact h.ms h1
    · exact hns h1
  · generalize deliver specs (rt.op.need specs) ev rt.op = r at *
    obtain ⟨op', outs, sg⟩ := r
    simp only at g f1 f2 f3 ms fr
    cases sg with
    | none =>
      have h3 : op'.ph = rt.op.ph ∨ (rt.op.ph = .nexting ∧ op'.ph = .idle) := by
        rcases f3 rfl with h' | ⟨h', _⟩ | ⟨h', _⟩ | h'
        · exact Or.inl h'
        · exact absurd h' hnn
        · exact absurd h' hnc
        · exact Or.inr h'
      have hi := h.idle; have hn := h.nx; have hc := h.cl; have hr := h.res; have hf := h.fin
      simp only
      rcases h3 with h3 | ⟨h3, h3'⟩
      · rw [h3]; exact ⟨hi, hn, hc, hf, hr⟩
      · have := hn h3
        refine ⟨fun _ => h3', by simp [h3'], by simp [h3'], by simp [this], fun hh => ?_⟩
        have := hr hh; simp_all
    | some y =>
      cases y with
      | next o =>
        obtain ⟨h1, h1'⟩ := f1 o rfl
        have hn : rt.op.ph = .nexting := by
          rcases h1' with h' | h'
          · exact h'
          · exact absurd h' hnn
        simp only
        refine ⟨h1, h.nx hn, ?_⟩
        cases hh : rt.result with
        | none => rfl
        | some x => have := h.res (by simp [hh]); simp_all
      | clean e =>
        obtain ⟨h2, h2'⟩ := f2 e rfl
        have hc : rt.op.ph = .cleaning := by
          rcases h2' with h' | h'
          · exact h'
          · exact absurd h' hnc
        simp only
        exact ⟨h2, h.cl hc⟩

theorem rootStep_inv (rt : Root) (h : RInv rt) (ev : REv) (hok : evOk rt ev = true) :
    RInv (rootStep specs rt ev).1 := by
  cases ev with
  | compNext i => exact rootAfter_inv specs _ _ _ (afterOK_event specs rt h (.compNext i) trivial (by simp))
  | compClean i => exact rootAfter_inv specs _ _ _ (afterOK_event specs rt h (.compClean i) trivial (by simp))
  | start =>
    simp only [evOk, Bool.and_eq_true, bne_iff_ne, ne_eq, Bool.not_eq_eq_eq_not, Bool.not_true] at hok
    have hph := h.notStarted hok.1 hok.2
    have hi := h.idle hph
    have hres : rt.result = none := by
      cases hh : rt.result with
      | none => rfl
      | some x => have := h.res (by simp [hh]); simp_all
    exact rootAfter_inv specs _ _ _
      (afterOK_next' specs { rt with started := true, ph := .nexting } rt.op _ h.good h.ms (by simp) hi rfl hres)
  | next =>
    simp only [evOk, Bool.and_eq_true, beq_iff_eq, Bool.not_eq_eq_eq_not, Bool.not_true] at hok
    have hi := h.idle hok.1.2
    have hres : rt.result = none := by
      cases hh : rt.result with
      | none => rfl
      | some x => have := h.res (by simp [hh]); simp_all
    exact rootAfter_inv specs _ _ _
      (afterOK_next' specs { rt with ph := .nexting } rt.op _ h.good h.ms (by simp [hok.1.1]) hi rfl hres)
  | cleanup =>
    simp only [evOk, Bool.and_eq_true, beq_iff_eq] at hok
    have hi := h.idle hok.2
    have hres : rt.result = none := by
      cases hh : rt.result with
      | none => rfl
      | some x => have := h.res (by simp [hh]); simp_all
    exact rootAfter_inv specs _ _ _
      (afterOK_cleanup' specs { rt with ph := .cleaning } rt.op _ h.good h.ms (by simp [hok.1]) hi rfl hres)
  | stop =>
    have h' : RInv { rt with stopped := true } :=
      ⟨h.good, fun _ => rfl, h.idle, h.nx, h.cl, h.res, h.fin, h.notStarted⟩
    simp only [rootStep]
    by_cases hs : rt.stopped = true
    · simp only [hs, if_true]; exact h
    · have hs' : rt.stopped = false := by simpa using hs
      simp only [hs', Bool.false_eq_true, if_false]
      split
      · exact rootAfter_inv specs _ _ _ (afterOK_event specs { rt with stopped := true } h' .stop trivial (fun _ => rfl))
      · exact h'

theorem runEvents_inv : ∀ (evs : List REv) (rt : Root), RInv rt → RInv (runEvents specs rt evs).1 := by
  intro evs
  induction evs with
  | nil => intro rt h; exact h
  | cons ev evs ih =>
    intro rt h
    simp only [runEvents]
    by_cases hok : evOk rt ev = true
    · simp only [hok, if_true]
      exact ih _ (rootStep_inv specs rt h ev hok)
    · simp only [hok]
      exact ih _ h

end Unifex.Stream
