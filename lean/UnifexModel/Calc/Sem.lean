/-
  Calc/Sem.lean — the sender calculus at event level (DESIGN §2.1 a).

  `Expr` is the syntax of sender expressions; `connect : Expr → Op` builds the operation-state tree
  (successor operations of let_*/sequence/finally are present from the start, unstarted — the real
  code connects them lazily, which is not observable); `deliver : Ev → Op → Op × List Out × Option
  Outcome` processes ONE external event to quiescence by structural recursion on the tree:

    * `start env`   – start() of this operation; `env` is what its receiver lets it observe
                      (stop already requested?, stop possible?, query tag, let-bound argument)
    * `stop`        – stop requested on the token this operation's receiver exposes
    * `complete i o`– the environment completes pending leaf `i` with outcome `o`

  and returns the new tree, the observable outputs, and the completion signal this operation sends
  to ITS receiver as part of processing the event (if any).  User callables are scripted (`Fn`);
  leaves are scripted by a table `LeafSpec` (complete inline at start, or stay pending and react to a
  stop notification by completing with done or by ignoring it).

  Each algorithm's clause mirrors the C++ operation state where it matters: when_all's
  doneOrError_/first-error/stop-source/“receiver stop wins” rule, stop_when's “either completion
  stops the other, source's result is forwarded”, finally's override rules, which stop token the
  children see (parent's, an interposed source, or none for unstoppable).
-/
namespace Unifex.Calc

inductive Outcome
  | value (v : Nat) | error (e : Nat) | done
  deriving DecidableEq, Repr

/-- scripted user callables (`then`, `upon_error`): total, deterministic -/
inductive Fn
  | add (k : Nat)                 -- x ↦ x + k
  | throwAlways (e : Nat)         -- throws e
  | throwIfEq (c e k : Nat)       -- x = c ? throw e : x + k
  | const (k : Nat)               -- x ↦ k   (also: a callable returning void, followed by the harness's "then k")
  | constThrowIfEq (c e k : Nat)  -- x = c ? throw e : k
  deriving DecidableEq, Repr

def Fn.app : Fn → Nat → Outcome
  | .add k, x => .value (x + k)
  | .throwAlways e, _ => .error e
  | .throwIfEq c e k, x => if x = c then .error e else .value (x + k)
  | .const k, _ => .value k
  | .constThrowIfEq c e k, x => if x = c then .error e else .value k

inductive StopReact | ignore | completeDone
  deriving DecidableEq, Repr

inductive LeafSpec
  | inline (o : Outcome)          -- completes inside start()
  | pending (r : StopReact)       -- completes later (external event); reaction to a stop notification
  deriving DecidableEq, Repr

inductive UnKind
  | thenF (f : Fn) | uponError (f : Fn) | uponDone (f : Fn)   -- upon_done's callable takes no argument: scripted as f applied to 0
  | matDemat | doneAsOpt (d : Nat) | unstoppable | withTag (q : Nat) | withSrc | erase
  | intoVariant | deferK | allocate
  | matObs     -- then(materialize(x), observer): every channel of x becomes a value (v ↦ v, error e ↦ e+100, done ↦ 77)
  deriving DecidableEq, Repr

inductive BinKind
  | letValue | letError | letDone | seq | fin | whenAll | stopWhen | whenAny
  deriving DecidableEq, Repr

inductive ConstKind
  | just (v : Nat) | justError (e : Nat) | justDone | argv (k : Nat) | stopIfRequested
  | justFrom (v : Nat) | justVoidOrDone (isVoid : Bool)
  deriving DecidableEq, Repr

inductive Expr
  | const (k : ConstKind)
  | leaf (i : Nat)
  | un (k : UnKind) (c : Expr)
  | bin (k : BinKind) (a b : Expr)
  deriving DecidableEq, Repr

/-- what an operation can observe through its receiver at start() -/
structure Env where
  stopped : Bool     -- stop already requested on the receiver's token
  stoppable : Bool   -- stop_possible()
  tag : Nat          -- answer to the custom query
  arg : Nat          -- value bound by the innermost let_* (what the successor function received)
  deriving DecidableEq, Repr

inductive Ev
  | start (env : Env) | stop | complete (i : Nat) (o : Outcome)
  deriving DecidableEq, Repr

inductive Out
  | leafStart (i : Nat) (stopped : Bool) (tag : Nat)
  | leafStop (i : Nat)
  | fuelOut          -- the evaluator ran out of fuel (never silence; see `deliver`)
  deriving DecidableEq, Repr

inductive Phase | idle | running | finished
  deriving DecidableEq, Repr

/-- state of a binary node (fields used depend on the kind) -/
structure BinSt where
  ph : Phase
  second : Bool            -- let_*/seq/finally: the successor / completion operation is the one running
  env : Env                -- environment to start the successor with (kept current w.r.t. stop)
  ra : Option Outcome      -- when_all: result of a; finally: saved source result; stop_when: source result
  rb : Option Outcome      -- when_all: result of b; stop_when: trigger completed (value irrelevant)
  doe : Bool               -- when_all: doneOrError_
  err : Option Nat         -- when_all: the stored first error
  src : Bool               -- when_all / stop_when: own stop source has been requested
  val : Option Nat         -- when_any: the stored first value
  deriving DecidableEq, Repr

def Env.dflt : Env := ⟨false, true, 0, 0⟩
def BinSt.init : BinSt := ⟨.idle, false, Env.dflt, none, none, false, none, false, none⟩

inductive Op
  | const (k : ConstKind) (ph : Phase)
  | leaf (i : Nat) (ph : Phase) (nt : Bool)   -- nt: (ghost) the leaf has received a stop notification
  | un (k : UnKind) (c : Op) (ph : Phase) (env : Env)
  | bin (k : BinKind) (a b : Op) (st : BinSt)
  deriving DecidableEq, Repr

def connect : Expr → Op
  | .const k => .const k .idle
  | .leaf i => .leaf i .idle false
  | .un k c => .un k (connect c) .idle Env.dflt
  | .bin k a b => .bin k (connect a) (connect b) BinSt.init

def Op.phase : Op → Phase
  | .const _ ph => ph
  | .leaf _ ph _ => ph
  | .un _ _ ph _ => ph
  | .bin _ _ _ st => st.ph

def Op.height : Op → Nat
  | .const _ _ => 0
  | .leaf _ _ _ => 0
  | .un _ c _ _ => c.height + 1
  | .bin _ a b _ => max a.height b.height + 1

/-- the leaves that have been started and not yet completed -/
def Op.pending : Op → List Nat
  | .const _ _ => []
  | .leaf i ph _ => if ph = .running then [i] else []
  | .un _ c _ _ => c.pending
  | .bin _ a b _ => a.pending ++ b.pending

abbrev Res := Op × List Out × Option Outcome

def ConstKind.outcome (k : ConstKind) (env : Env) : Outcome :=
  match k with
  | .just v => .value v
  | .justError e => .error e
  | .justDone => .done
  | .argv k => .value (env.arg + k)
  | .stopIfRequested => if env.stopped then .done else .value 0
  | .justFrom v => .value v
  | .justVoidOrDone b => if b then .value 0 else .done

/-- how a unary adaptor maps its child's completion -/
def UnKind.map (k : UnKind) (o : Outcome) : Outcome :=
  match k, o with
  | .thenF f, .value v => f.app v
  | .uponError f, .error e => f.app e
  | .uponDone f, .done => f.app 0
  | .doneAsOpt d, .done => .value d
  | .matObs, .error e => .value (e + 100)
  | .matObs, .done => .value 77
  | _, o => o

/-- the environment a unary adaptor gives its child -/
def UnKind.childEnv (k : UnKind) (env : Env) : Env :=
  match k with
  | .unstoppable => { env with stopped := false, stoppable := false }
  | .withTag q => { env with tag := q }
  | _ => env

/-- does a stop request on the parent's token reach the child? -/
def UnKind.forwardsStop : UnKind → Bool
  | .unstoppable => false
  | _ => true

/-- a node only receives a stop event when its token can be stopped, so no guard is needed -/
def Env.stop (env : Env) : Env := { env with stopped := true }

/-- when_all's result once both children have completed (deliver_result) -/
def whenAllResult (rcvStopped : Bool) (st : BinSt) : Outcome :=
  if rcvStopped then .done
  else if st.doe then (match st.err with | some e => .error e | none => .done)
  else match st.ra, st.rb with
    | some (.value x), some (.value y) => .value ((x * 1000 + y) % 1000003)
    | _, _ => .done   -- unreachable: both values present whenever ¬doe

/-- finally: combine the source's saved result with the completion operation's result -/
def finResult (saved : Option Outcome) (ob : Outcome) : Outcome :=
  match ob with
  | .value _ => saved.getD .done
  | .error e => .error e
  | .done => .done

variable (specs : Nat → LeafSpec)

/-- record a when_all element completion in the state (element_receiver::set_*) ; returns the new
    state and whether this completion requests stop on the when_all's own source.
    `any = true` is when_any, which the library builds from when_all by wrapping every child in
    `let_value(store_result)`: a child's value is stored (the first one wins) and the child then
    completes with done, so for the underlying when_all EVERY first completion is a "failure" that
    stops the others. -/
def waRecord (any : Bool) (st : BinSt) (isA : Bool) (o : Outcome) : BinSt × Bool :=
  let st0 : BinSt :=
    match any, o with
    | true, .value v => if st.val.isNone then { st with val := some v } else st
    | _, _ => st
  let o' : Outcome :=
    match any, o with
    | true, .value _ => .done
    | _, x => x
  let st1 := if isA then { st0 with ra := some o' } else { st0 with rb := some o' }
  match o' with
  | .value _ => (st1, false)
  | .error e =>
    if st1.doe then (st1, false)
    else ({ st1 with doe := true, err := some e }, !st1.src)
  | .done =>
    if st1.doe then (st1, false)
    else ({ st1 with doe := true }, !st1.src)

/-- when_any: `let_done` after the when_all turns done into the stored value, if there is one -/
def anyResult (st : BinSt) (r : Outcome) : Outcome :=
  match r with
  | .done => (match st.val with | some v => .value v | none => .done)
  | x => x

def BinKind.isAny : BinKind → Bool
  | .whenAny => true
  | _ => false

/-! ### One clause per algorithm.  Each `…Step` function is NOT recursive: it receives `rec`, the
     evaluator for the children (`deliver` at smaller fuel), so that each algorithm can be reasoned
     about separately ("if the children are well-behaved, so is the node"). -/

abbrev Rec := Ev → Op → Res

def constStep (ev : Ev) (k : ConstKind) (ph : Phase) : Res :=
  match ph, ev with
  | .idle, .start env => (.const k .finished, [], some (k.outcome env))
  | _, _ => (.const k ph, [], none)

def leafStep (ev : Ev) (i : Nat) (ph : Phase) (nt : Bool) : Res :=
  match ph, ev with
  | .idle, .start env =>
    match specs i with
    | .inline o => (.leaf i .finished nt, [.leafStart i env.stopped env.tag], some o)
    | .pending r =>
      if env.stopped then
        -- the stop callback runs inline during registration
        match r with
        | .completeDone => (.leaf i .finished true, [.leafStart i true env.tag, .leafStop i], some .done)
        | .ignore => (.leaf i .running true, [.leafStart i true env.tag, .leafStop i], none)
      else (.leaf i .running nt, [.leafStart i false env.tag], none)
  | .running, .stop =>
    match specs i with
    | .pending .completeDone => (.leaf i .finished true, [.leafStop i], some .done)
    | _ => (.leaf i .running true, [.leafStop i], none)
  | .running, .complete j o =>
    if i = j then (.leaf i .finished nt, [], some o) else (.leaf i ph nt, [], none)
  | _, _ => (.leaf i ph nt, [], none)

/-- wrap a child's result into the unary node -/
def unWrap (k : UnKind) (env : Env) (r : Res) : Res :=
  match r.2.2 with
  | some o => (.un k r.1 .finished env, r.2.1, some (k.map o))
  | none => (.un k r.1 .running env, r.2.1, none)

def unStep (rec : Rec) (ev : Ev) (k : UnKind) (c : Op) (ph : Phase) (env : Env) : Res :=
  match ph, ev with
  | .idle, .start env0 => unWrap k env0 (rec (.start (k.childEnv env0)) c)
  | .running, .stop =>
    if k.forwardsStop then unWrap k env.stop (rec .stop c)
    else (.un k c .running env, [], none)
  | .running, .complete i o => unWrap k env (rec (.complete i o) c)
  | _, _ => (.un k c ph env, [], none)

/-- finish a when_all / when_any node if both children have reported -/
def waFinish (k : BinKind) (a b : Op) (st : BinSt) (outs : List Out) : Res :=
  if st.ra.isSome && st.rb.isSome then
    (.bin k a b { st with ph := .finished }, outs,
      some (if k.isAny then anyResult st (whenAllResult st.env.stopped st) else whenAllResult st.env.stopped st))
  else (.bin k a b st, outs, none)

/-- apply `rec ev x` only if `cond`, else leave `x` alone -/
def recIf (rec : Rec) (cond : Bool) (ev : Ev) (x : Op) : Res :=
  if cond then rec ev x else (x, [], none)

def waRec (any : Bool) (st : BinSt) (isA : Bool) (r : Option Outcome) : BinSt × Bool :=
  match r with
  | some o => waRecord any st isA o
  | none => (st, false)

def markSrc (st : BinSt) (b : Bool) : BinSt := if b then { st with src := true } else st

/-- Child `isA` has just produced the signal `r` (its updated tree is already in place): record a
    completion (element_receiver::set_*) and, if it is the first failure, request stop on the
    when_all's own source, i.e. notify the sibling if that is still running. -/
def waAfterChild (rec : Rec) (any : Bool) (isA : Bool) (a b : Op) (st : BinSt) (r : Option Outcome) :
    Op × Op × BinSt × List Out :=
  match r with
  | none => (a, b, st, [])
  | some o =>
    let p := waRecord any st isA o
    let st1 := markSrc p.1 p.2
    if isA then
      let rb := recIf rec (p.2 && st1.rb.isNone) .stop b
      (a, rb.1, (waRec any st1 false rb.2.2).1, rb.2.1)
    else
      let ra := recIf rec (p.2 && st1.ra.isNone) .stop a
      (ra.1, b, (waRec any st1 true ra.2.2).1, ra.2.1)

def waStart (rec : Rec) (k : BinKind) (a b : Op) (st : BinSt) (env0 : Env) : Res :=
  -- stopCallback_ registered first: runs inline if stop was already requested
  let st0 : BinSt := { BinSt.init with ph := .running, env := env0, src := env0.stopped, second := st.second }
  let ra := rec (.start { env0 with stopped := st0.src, stoppable := true }) a
  -- b is not started yet: a failing a only marks the source as stopped
  let p1 := waRec k.isAny st0 true ra.2.2
  let st1 := markSrc p1.1 p1.2
  let rb := rec (.start { env0 with stopped := st1.src, stoppable := true }) b
  -- b's failure stops a (if a is still running and the source was not yet stopped)
  let x := waAfterChild rec k.isAny false ra.1 rb.1 st1 rb.2.2
  waFinish k x.1 x.2.1 x.2.2.1 (ra.2.1 ++ rb.2.1 ++ x.2.2.2)

def waStop (rec : Rec) (k : BinKind) (a b : Op) (st : BinSt) : Res :=
  let st0 := { st with env := st.env.stop }
  if st.src then (.bin k a b st0, [], none)
  else
    let st1 := { st0 with src := true }
    let ra := recIf rec st1.ra.isNone .stop a
    let st2 := (waRec k.isAny st1 true ra.2.2).1
    let rb := recIf rec st2.rb.isNone .stop b
    let st3 := (waRec k.isAny st2 false rb.2.2).1
    waFinish k ra.1 rb.1 st3 (ra.2.1 ++ rb.2.1)

def waComplete (rec : Rec) (k : BinKind) (a b : Op) (st : BinSt) (i : Nat) (o : Outcome) : Res :=
  -- the leaf lives in exactly one of the two subtrees; a finished/idle subtree ignores the event
  let ra := rec (.complete i o) a
  let x := waAfterChild rec k.isAny true ra.1 b st ra.2.2
  let rb := recIf rec ra.2.2.isNone (.complete i o) x.2.1
  let y := waAfterChild rec k.isAny false x.1 rb.1 x.2.2.1 rb.2.2
  waFinish k y.1 y.2.1 y.2.2.1 (ra.2.1 ++ x.2.2.2 ++ rb.2.1 ++ y.2.2.2)

def waStep (rec : Rec) (ev : Ev) (k : BinKind) (a b : Op) (st : BinSt) : Res :=
  match st.ph, ev with
  | .idle, .start env0 => waStart rec k a b st env0
  | .running, .stop => waStop rec k a b st
  | .running, .complete i o => waComplete rec k a b st i o
  | _, _ => (.bin k a b st, [], none)

/-- stop_when: a = source, b = trigger; `ra` = source's result, `rb` = trigger completed -/
def swFinish (a b : Op) (st : BinSt) (outs : List Out) : Res :=
  if st.ra.isSome && st.rb.isSome then
    (.bin .stopWhen a b { st with ph := .finished }, outs, st.ra)
  else (.bin .stopWhen a b st, outs, none)

def setRa (st : BinSt) (r : Option Outcome) : BinSt :=
  match r with | some o => { st with ra := some o } | none => st
def setRb (st : BinSt) (r : Option Outcome) : BinSt :=
  match r with | some o => { st with rb := some o } | none => st

/-- Child `isA` (source or trigger) has just produced the signal `r`: record it and request stop on
    the stop_when's own source, i.e. notify the other child if that is still running
    (notify_source_complete / notify_trigger_complete). -/
def swAfterChild (rec : Rec) (isA : Bool) (a b : Op) (st : BinSt) (r : Option Outcome) :
    Op × Op × BinSt × List Out :=
  match r with
  | none => (a, b, st, [])
  | some o =>
    let st1 : BinSt := if isA then { st with ra := some o } else { st with rb := some o }
    let need := !st1.src
    let st2 : BinSt := { st1 with src := true }
    if isA then
      let rb := recIf rec (need && st2.rb.isNone) .stop b
      (a, rb.1, setRb st2 rb.2.2, rb.2.1)
    else
      let ra := recIf rec (need && st2.ra.isNone) .stop a
      (ra.1, b, setRa st2 ra.2.2, ra.2.1)

def swStart (rec : Rec) (a b : Op) (st : BinSt) (env0 : Env) : Res :=
  let st0 : BinSt := { BinSt.init with ph := .running, env := env0, src := env0.stopped, second := st.second }
  let ra := rec (.start { env0 with stopped := st0.src, stoppable := true }) a
  -- the trigger is not started yet: a source that completes inline only marks the source stopped
  let st1 := markSrc (setRa st0 ra.2.2) ra.2.2.isSome
  let rb := rec (.start { env0 with stopped := st1.src, stoppable := true }) b
  let x := swAfterChild rec false ra.1 rb.1 st1 rb.2.2
  swFinish x.1 x.2.1 x.2.2.1 (ra.2.1 ++ rb.2.1 ++ x.2.2.2)

def swStop (rec : Rec) (a b : Op) (st : BinSt) : Res :=
  let st0 := { st with env := st.env.stop }
  if st.src then (.bin .stopWhen a b st0, [], none)
  else
    let st1 := { st0 with src := true }
    let ra := recIf rec st1.ra.isNone .stop a
    let st2 := setRa st1 ra.2.2
    let rb := recIf rec st2.rb.isNone .stop b
    let st3 := setRb st2 rb.2.2
    swFinish ra.1 rb.1 st3 (ra.2.1 ++ rb.2.1)

def swComplete (rec : Rec) (a b : Op) (st : BinSt) (i : Nat) (o : Outcome) : Res :=
  let ra := rec (.complete i o) a
  let x := swAfterChild rec true ra.1 b st ra.2.2
  let rb := recIf rec ra.2.2.isNone (.complete i o) x.2.1
  let y := swAfterChild rec false x.1 rb.1 x.2.2.1 rb.2.2
  swFinish y.1 y.2.1 y.2.2.1 (ra.2.1 ++ x.2.2.2 ++ rb.2.1 ++ y.2.2.2)

def swStep (rec : Rec) (ev : Ev) (a b : Op) (st : BinSt) : Res :=
  match st.ph, ev with
  | .idle, .start env0 => swStart rec a b st env0
  | .running, .stop => swStop rec a b st
  | .running, .complete i o => swComplete rec a b st i o
  | _, _ => (.bin .stopWhen a b st, [], none)

/-! sequential composition: let_value / let_error / let_done / sequence / finally -/

/-- does the predecessor's completion `o` start the successor? -/
def BinKind.takes (k : BinKind) (o : Outcome) : Bool :=
  match k, o with
  | .letValue, .value _ => true
  | .letError, .error _ => true
  | .letDone, .done => true
  | .seq, .value _ => true
  | .fin, _ => true
  | _, _ => false

def BinKind.succEnv (k : BinKind) (env : Env) (o : Outcome) : Env :=
  match k, o with
  | .letValue, .value v => { env with arg := v }
  | .letError, .error e => { env with arg := e }
  | _, _ => env

def BinKind.finish (k : BinKind) (saved : Option Outcome) (ob : Outcome) : Outcome :=
  match k with
  | .fin => finResult saved ob
  | _ => ob

/-- the first operation has just produced `ra` (under the current environment `env`) -/
def seqAfterFirst (rec : Rec) (k : BinKind) (b : Op) (st : BinSt) (env : Env) (ra : Res) : Res :=
  match ra.2.2 with
  | none => (.bin k ra.1 b { st with ph := .running, second := false, env := env }, ra.2.1, none)
  | some o =>
    if k.takes o then
      let rb := rec (.start (k.succEnv env o)) b
      match rb.2.2 with
      | some ob =>
        (.bin k ra.1 rb.1 { st with ph := .finished, second := true, env := env, ra := some o },
          ra.2.1 ++ rb.2.1, some (k.finish (some o) ob))
      | none =>
        (.bin k ra.1 rb.1 { st with ph := .running, second := true, env := env, ra := some o },
          ra.2.1 ++ rb.2.1, none)
    else (.bin k ra.1 b { st with ph := .finished, env := env }, ra.2.1, some o)

def seqSecond (k : BinKind) (a : Op) (st : BinSt) (env : Env) (rb : Res) : Res :=
  match rb.2.2 with
  | some ob => (.bin k a rb.1 { st with ph := .finished, env := env }, rb.2.1, some (k.finish st.ra ob))
  | none => (.bin k a rb.1 { st with env := env }, rb.2.1, none)

def seqStep (rec : Rec) (ev : Ev) (k : BinKind) (a b : Op) (st : BinSt) : Res :=
  match st.ph, st.second, ev with
  | .idle, _, .start env0 => seqAfterFirst rec k b st env0 (rec (.start env0) a)
  | .running, false, .stop => seqAfterFirst rec k b st st.env.stop (rec .stop a)
  | .running, false, .complete i o => seqAfterFirst rec k b st st.env (rec (.complete i o) a)
  | .running, true, .stop => seqSecond k a st st.env.stop (rec .stop b)
  | .running, true, .complete i o => seqSecond k a st st.env (rec (.complete i o) b)
  | _, _, _ => (.bin k a b st, [], none)

def binStep (rec : Rec) (ev : Ev) (k : BinKind) (a b : Op) (st : BinSt) : Res :=
  match k with
  | .whenAll | .whenAny => waStep rec ev k a b st
  | .stopWhen => swStep rec ev a b st
  | _ => seqStep rec ev k a b st

/-- ONE external event, processed to quiescence.  The recursion is on `fuel` (not on the tree)
    because a cascade re-enters UPDATED subtrees (a failing when_all child stops its already
    started sibling); `fuel > height` always suffices (`Op.height`), and running out of fuel is the
    distinct observation `Out.fuelOut`, never silence (the subtree is then abandoned: replaced by a
    finished node, so that the structural invariants are stated without side conditions on fuel). -/
def deliver : Nat → Ev → Op → Res
  | 0, _, op => (if op.phase = .finished then op else .const .justDone .finished, [.fuelOut], none)
  | _+1, ev, .const k ph => constStep ev k ph
  | _+1, ev, .leaf i ph nt => leafStep specs ev i ph nt
  | fuel+1, ev, .un k c ph env => unStep (deliver fuel) ev k c ph env
  | fuel+1, ev, .bin k a b st => binStep (deliver fuel) ev k a b st

/-- run a list of events from a given tree, collecting per-event outputs and the root completion -/
def runEvents : Op → List Ev → List (List Out × Option Outcome)
  | _, [] => []
  | op, ev :: evs =>
    let (op', outs, r) := deliver specs (op.height + 1) ev op
    (outs, r) :: runEvents op' evs

def rootEnv : Env := ⟨false, true, 7, 0⟩

end Unifex.Calc
