/-
  Calc/CoroInv.lean — THE invariant of the coroutine machine: frame identities and lifetimes (every
  frame ever created is in exactly one of: live stack, cancelled-but-allocated, destroyed), the cleanup
  discipline (what ran ++ what is still registered = everything registered, most recent first; nothing
  has run while the body runs), and the agreement of the observable trace with the history variables.
  Proved preserved by every internal transition and every external event (`Inv.step`, `Inv.deliver`).
-/
import UnifexModel.Calc.CoroSim
namespace Unifex.Coro
open Unifex.Calc (Outcome)
variable (specs : Nat → LeafSpec)

/-- the frame a trace item is about (registration, cleanup run, frame destruction) -/
def Out.frame : Out → Option Nat
  | .reg f _ => some f
  | .cleanup f _ => some f
  | .frameDead f => some f
  | _ => none

/-- cleanups registered by frame `f`, in registration order, read off the trace -/
def regTrace (f : Nat) (outs : List Out) : List Nat :=
  outs.filterMap (fun o => match o with | .reg g a => if g = f then some a else none | _ => none)
/-- cleanups of frame `f` that ran, in the order they ran, read off the trace -/
def cleanupTraceOf (f : Nat) (outs : List Out) : List Nat :=
  outs.filterMap (fun o => match o with | .cleanup g a => if g = f then some a else none | _ => none)
/-- frames destroyed, in order, read off the trace -/
def deadTrace (outs : List Out) : List Nat :=
  outs.filterMap (fun o => match o with | .frameDead g => some g | _ => none)
def deadCount (f : Nat) (outs : List Out) : Nat := (deadTrace outs).count f

@[simp] theorem regTrace_append (f : Nat) (a b : List Out) : regTrace f (a ++ b) = regTrace f a ++ regTrace f b := by
  simp [regTrace]
@[simp] theorem cleanupTraceOf_append (f : Nat) (a b : List Out) :
    cleanupTraceOf f (a ++ b) = cleanupTraceOf f a ++ cleanupTraceOf f b := by
  simp [cleanupTraceOf]
@[simp] theorem deadCount_append (f : Nat) (a b : List Out) : deadCount f (a ++ b) = deadCount f a + deadCount f b := by
  simp [deadCount, deadTrace]

theorem proj_other (f : Nat) : ∀ (toks : List Out), (∀ x ∈ toks, x.frame ≠ some f) →
    regTrace f toks = [] ∧ cleanupTraceOf f toks = [] ∧ deadCount f toks = 0 := by
  intro toks
  induction toks with
  | nil => intro _; simp [regTrace, cleanupTraceOf, deadCount, deadTrace]
  | cons x xs ih =>
    intro h
    have hx := h x List.mem_cons_self
    obtain ⟨h1, h2, h3⟩ := ih (fun y hy => h y (List.mem_cons_of_mem _ hy))
    have e1 : regTrace f (x :: xs) = regTrace f [x] ++ regTrace f xs := by
      rw [← regTrace_append]; rfl
    have e2 : cleanupTraceOf f (x :: xs) = cleanupTraceOf f [x] ++ cleanupTraceOf f xs := by
      rw [← cleanupTraceOf_append]; rfl
    have e3 : deadCount f (x :: xs) = deadCount f [x] + deadCount f xs := by
      rw [← deadCount_append]; rfl
    rw [e1, e2, e3, h1, h2, h3]
    cases x <;> simp_all [Out.frame, regTrace, cleanupTraceOf, deadCount, deadTrace] <;> omega

/-- the trace agrees with the history variables of frame `f`; `dead` = how often it was destroyed -/
structure FrameOK (outs : List Out) (dead : Nat) (f : Frame) : Prop where
  reg : regTrace f.id outs = f.regd.reverse
  cl : cleanupTraceOf f.id outs = f.ran
  dead : deadCount f.id outs = dead

theorem FrameOK.append_other {outs : List Out} {d : Nat} {f : Frame} (h : FrameOK outs d f) (toks : List Out)
    (ht : ∀ x ∈ toks, x.frame ≠ some f.id) : FrameOK (outs ++ toks) d f := by
  obtain ⟨h1, h2, h3⟩ := proj_other f.id toks ht
  exact ⟨by simp [h.reg, h1], by simp [h.cl, h2], by simp [h.dead, h3]⟩

def St.all (s : St) : List Frame := s.frames ++ (s.zombies ++ s.gone)

def Ctl.exiting : Ctl → Bool
  | .exit _ => true
  | .waitCleanup _ _ => true
  | .waitBack _ => true
  | .dead => true
  | _ => false

def Ctl.rootIsDone : Ctl → Bool
  | .finished => true
  | .waitJoin _ => true
  | _ => false

/-- THE invariant of the machine (lifetimes, cleanup discipline, agreement of trace and history) -/
structure Inv (s : St) : Prop where
  ids_lt : ∀ f ∈ s.all, f.id < s.nextId
  nodup : (s.all.map (·.id)).Nodup
  count : s.all.length = s.nextId
  hist : ∀ f ∈ s.frames, f.ran ++ f.cleanups.map Prod.fst = f.regd
  body_tail : ∀ f ∈ s.frames.tail, f.ran = []
  body_head : s.ctl.exiting = false → ∀ f ∈ s.frames.head?, f.ran = []
  fin : s.ctl.rootIsDone = true → s.frames = []
  retired : ∀ f ∈ s.zombies ++ s.gone, f.cleanups = [] ∧ f.ran = f.regd
  okLive : ∀ f ∈ s.frames ++ s.zombies, FrameOK s.outs 0 f
  okGone : ∀ f ∈ s.gone, FrameOK s.outs 1 f
  future : ∀ x ∈ s.outs, ∀ g, x.frame = some g → g < s.nextId
  roots : (rootTrace s.outs).length = if s.ctl = .finished then 1 else 0

/-- P0: the frames do not change; only frame-less items are appended to the trace -/
theorem Inv.same {s s' : St} (h : Inv s) (toks : List Out)
    (hf : s'.frames = s.frames) (hz : s'.zombies = s.zombies) (hg : s'.gone = s.gone) (hn : s'.nextId = s.nextId)
    (ho : s'.outs = s.outs ++ toks) (ht : ∀ x ∈ toks, x.frame = none)
    (hb : s'.ctl.exiting = false → s.ctl.exiting = false ∨ ∀ f ∈ s.frames.head?, f.ran = [])
    (hfin : s'.ctl.rootIsDone = true → s.frames = [])
    (hr : (rootTrace toks).length + (if s.ctl = .finished then 1 else 0) = if s'.ctl = .finished then 1 else 0) :
    Inv s' := by
  have hall : s'.all = s.all := by simp [St.all, hf, hz, hg]
  have hto : ∀ (f : Frame), ∀ x ∈ toks, x.frame ≠ some f.id := by
    intro f x hx; rw [ht x hx]; simp
  constructor
  · rw [hall, hn]; exact h.ids_lt
  · rw [hall]; exact h.nodup
  · rw [hall, hn]; exact h.count
  · rw [hf]; exact h.hist
  · rw [hf]; exact h.body_tail
  · intro he; rw [hf]
    rcases hb he with h1 | h1
    · exact h.body_head h1
    · exact h1
  · intro he; rw [hf]; exact hfin he
  · rw [hz, hg]; exact h.retired
  · rw [hf, hz, ho]; intro f hfm; exact (h.okLive f hfm).append_other toks (hto f)
  · rw [hg, ho]; intro f hfm; exact (h.okGone f hfm).append_other toks (hto f)
  · rw [ho, hn]; intro x hx g hxg
    rcases List.mem_append.mp hx with hx | hx
    · exact h.future x hx g hxg
    · rw [ht x hx] at hxg; simp at hxg
  · rw [ho, rootTrace_append, List.length_append, h.roots]; omega


theorem Inv.top_id_ne {s : St} (h : Inv s) {fr : Frame} {rest : List Frame} (hf0 : s.frames = fr :: rest) :
    ∀ f ∈ rest ++ (s.zombies ++ s.gone), f.id ≠ fr.id := by
  intro f hfm heq
  have hn := h.nodup
  simp only [St.all, hf0, List.cons_append, List.map_cons, List.nodup_cons] at hn
  exact hn.1 (heq ▸ List.mem_map_of_mem hfm)

theorem toks_other {toks : List Out} {a b : Nat} (ht : ∀ x ∈ toks, x.frame = none ∨ x.frame = some a) (hne : b ≠ a) :
    ∀ x ∈ toks, x.frame ≠ some b := by
  intro x hx
  rcases ht x hx with h | h <;> rw [h] <;> simp
  exact fun e => hne e.symm

/-- P1: the top frame is replaced by a frame with the same id; the appended trace items are frame-less or its own -/
theorem Inv.updTop {s s' : St} (h : Inv s) {fr fr' : Frame} {rest : List Frame} (toks : List Out)
    (hf0 : s.frames = fr :: rest) (hf : s'.frames = fr' :: rest)
    (hz : s'.zombies = s.zombies) (hg : s'.gone = s.gone) (hn : s'.nextId = s.nextId)
    (ho : s'.outs = s.outs ++ toks) (hid : fr'.id = fr.id)
    (ht : ∀ x ∈ toks, x.frame = none ∨ x.frame = some fr.id)
    (hreg : fr'.regd.reverse = fr.regd.reverse ++ regTrace fr.id toks)
    (hcl : fr'.ran = fr.ran ++ cleanupTraceOf fr.id toks)
    (hdead : deadCount fr.id toks = 0)
    (hh : fr'.ran ++ fr'.cleanups.map Prod.fst = fr'.regd)
    (hb : s'.ctl.exiting = false → fr'.ran = [])
    (hfin : s'.ctl.rootIsDone = false)
    (hr : rootTrace toks = []) : Inv s' := by
  have hne := h.top_id_ne hf0
  have hall : s'.all = fr' :: (rest ++ (s.zombies ++ s.gone)) := by simp [St.all, hf, hz, hg]
  have hall0 : s.all = fr :: (rest ++ (s.zombies ++ s.gone)) := by simp [St.all, hf0]
  have hfrlt : fr.id < s.nextId := h.ids_lt fr (by rw [hall0]; exact List.mem_cons_self)
  have hnf : s.ctl ≠ .finished := by
    intro hc
    have := h.fin (by rw [hc]; rfl)
    rw [hf0] at this; cases this
  have hnf' : s'.ctl ≠ .finished := by
    intro hc; rw [hc] at hfin; cases hfin
  constructor
  · rw [hall, hn]; intro f hfm
    rcases List.mem_cons.mp hfm with e | e
    · rw [e, hid]; exact hfrlt
    · exact h.ids_lt f (by rw [hall0]; exact List.mem_cons_of_mem _ e)
  · have := h.nodup; rw [hall0] at this; rw [hall]; simpa [hid] using this
  · have := h.count; rw [hall0] at this; rw [hall, hn]; simpa using this
  · rw [hf]; intro f hfm
    rcases List.mem_cons.mp hfm with e | e
    · rw [e]; exact hh
    · exact h.hist f (by rw [hf0]; exact List.mem_cons_of_mem _ e)
  · rw [hf]; have := h.body_tail; rw [hf0] at this; exact this
  · intro he; rw [hf]; intro f hfm
    simp at hfm; rw [← hfm]; exact hb he
  · intro he; rw [hfin] at he; cases he
  · rw [hz, hg]; exact h.retired
  · rw [hf, hz, ho]; intro f hfm
    rcases List.mem_append.mp hfm with e | e
    · rcases List.mem_cons.mp e with e | e
      · have hk := h.okLive fr (by rw [hf0]; simp)
        rw [e]
        exact ⟨by rw [hid, regTrace_append, hk.reg, hreg], by rw [hid, cleanupTraceOf_append, hk.cl, hcl],
          by rw [hid, deadCount_append, hk.dead, hdead]⟩
      · exact (h.okLive f (by rw [hf0]; simp [e])).append_other toks
          (toks_other ht (hne f (by simp [e])))
    · exact (h.okLive f (by simp [e])).append_other toks (toks_other ht (hne f (by simp [e])))
  · rw [hg, ho]; intro f hfm
    exact (h.okGone f hfm).append_other toks (toks_other ht (hne f (by simp [hfm])))
  · rw [ho, hn]; intro x hx g hxg
    rcases List.mem_append.mp hx with hx | hx
    · exact h.future x hx g hxg
    · rcases ht x hx with e | e <;> rw [e] at hxg
      · cases hxg
      · cases hxg; exact hfrlt
  · rw [ho, rootTrace_append, List.length_append, h.roots, hr]; simp [hnf, hnf']

/-- P2: a child frame with a fresh id is pushed -/
theorem Inv.push {s s' : St} (h : Inv s) {fr fr' child : Frame} {rest : List Frame} (toks : List Out)
    (hf0 : s.frames = fr :: rest) (hf : s'.frames = child :: fr' :: rest)
    (hz : s'.zombies = s.zombies) (hg : s'.gone = s.gone) (hn : s'.nextId = s.nextId + 1)
    (ho : s'.outs = s.outs ++ toks) (ht : ∀ x ∈ toks, x.frame = none)
    (hid : fr'.id = fr.id) (hregd : fr'.regd = fr.regd) (hran : fr'.ran = fr.ran) (hcs : fr'.cleanups = fr.cleanups)
    (hcid : child.id = s.nextId) (hcr : child.regd = []) (hcn : child.ran = []) (hcc : child.cleanups = [])
    (hc0 : s.ctl.exiting = false) (hfin : s'.ctl.rootIsDone = false)
    (hr : rootTrace toks = []) : Inv s' := by
  have hne := h.top_id_ne hf0
  have hall : s'.all = child :: fr' :: (rest ++ (s.zombies ++ s.gone)) := by simp [St.all, hf, hz, hg]
  have hall0 : s.all = fr :: (rest ++ (s.zombies ++ s.gone)) := by simp [St.all, hf0]
  have hfrlt : fr.id < s.nextId := h.ids_lt fr (by rw [hall0]; exact List.mem_cons_self)
  have hfr0 : fr.ran = [] := h.body_head hc0 fr (by rw [hf0]; simp)
  have hnf : s.ctl ≠ .finished := by
    intro hc
    have := h.fin (by rw [hc]; rfl)
    rw [hf0] at this; cases this
  have hnf' : s'.ctl ≠ .finished := by
    intro hc; rw [hc] at hfin; cases hfin
  have hto : ∀ (f : Frame), ∀ x ∈ toks, x.frame ≠ some f.id := by
    intro f x hx; rw [ht x hx]; simp
  constructor
  · rw [hall, hn]; intro f hfm
    rcases List.mem_cons.mp hfm with e | e
    · rw [e, hcid]; omega
    · rcases List.mem_cons.mp e with e | e
      · rw [e, hid]; omega
      · have := h.ids_lt f (by rw [hall0]; exact List.mem_cons_of_mem _ e); omega
  · have hnd := h.nodup; rw [hall0] at hnd; rw [hall]
    simp only [List.map_cons, List.nodup_cons, hid, hcid] at hnd ⊢
    refine ⟨?_, hnd⟩
    intro hmem
    rcases List.mem_cons.mp hmem with e | e
    · omega
    · obtain ⟨f, hfm, hfe⟩ := List.mem_map.mp e
      have := h.ids_lt f (by rw [hall0]; exact List.mem_cons_of_mem _ hfm)
      omega
  · have := h.count; rw [hall0] at this; rw [hall, hn]; simp at this ⊢; omega
  · rw [hf]; intro f hfm
    rcases List.mem_cons.mp hfm with e | e
    · rw [e, hcn, hcc, hcr]; rfl
    · rcases List.mem_cons.mp e with e | e
      · rw [e, hran, hcs, hregd]; exact h.hist fr (by rw [hf0]; simp)
      · exact h.hist f (by rw [hf0]; exact List.mem_cons_of_mem _ e)
  · rw [hf]; intro f hfm
    rcases List.mem_cons.mp hfm with e | e
    · rw [e, hran]; exact hfr0
    · have := h.body_tail; rw [hf0] at this; exact this f e
  · intro _; rw [hf]; intro f hfm
    simp at hfm; rw [← hfm]; exact hcn
  · intro he; rw [hfin] at he; cases he
  · rw [hz, hg]; exact h.retired
  · rw [hf, hz, ho]; intro f hfm
    rcases List.mem_append.mp hfm with e | e
    · rcases List.mem_cons.mp e with e | e
      · -- the child: nothing in the trace mentions its id yet
        have hnone : ∀ x ∈ s.outs, x.frame ≠ some s.nextId := by
          intro x hx hxe
          have := h.future x hx _ hxe; omega
        obtain ⟨h1, h2, h3⟩ := proj_other s.nextId s.outs hnone
        have hk : FrameOK s.outs 0 child := ⟨by rw [hcid, h1, hcr]; rfl, by rw [hcid, h2, hcn], by rw [hcid, h3]⟩
        rw [e]; exact hk.append_other toks (hto child)
      · rcases List.mem_cons.mp e with e | e
        · have hk := h.okLive fr (by rw [hf0]; simp)
          have hk' : FrameOK s.outs 0 fr' := ⟨by rw [hid, hregd]; exact hk.reg, by rw [hid, hran]; exact hk.cl, by rw [hid]; exact hk.dead⟩
          rw [e]; exact hk'.append_other toks (hto fr')
        · exact (h.okLive f (by rw [hf0]; simp [e])).append_other toks (hto f)
    · exact (h.okLive f (by simp [e])).append_other toks (hto f)
  · rw [hg, ho]; intro f hfm
    exact (h.okGone f hfm).append_other toks (hto f)
  · rw [ho, hn]; intro x hx g hxg
    rcases List.mem_append.mp hx with hx | hx
    · have := h.future x hx g hxg; omega
    · rw [ht x hx] at hxg; cases hxg
  · rw [ho, rootTrace_append, List.length_append, h.roots, hr]; simp [hnf, hnf']


theorem Inv.of_perm_all {s s' : St} (h : Inv s) (hp : s'.all.Perm s.all) (hn : s'.nextId = s.nextId) :
    (∀ f ∈ s'.all, f.id < s'.nextId) ∧ (s'.all.map (·.id)).Nodup ∧ s'.all.length = s'.nextId := by
  refine ⟨?_, ?_, ?_⟩
  · intro f hfm; rw [hn]; exact h.ids_lt f (hp.mem_iff.mp hfm)
  · exact ((hp.map _).nodup_iff).mpr h.nodup
  · rw [hp.length_eq, hn]; exact h.count

/-- P3: the top frame has run all its cleanups and is destroyed by its awaiter -/
theorem Inv.popGone {s s' : St} (h : Inv s) {fr : Frame} {rest : List Frame}
    (hf0 : s.frames = fr :: rest) (hcs : fr.cleanups = []) (hf : s'.frames = rest)
    (hz : s'.zombies = s.zombies) (hg : s'.gone = s.gone ++ [fr]) (hn : s'.nextId = s.nextId)
    (ho : s'.outs = s.outs ++ [.frameDead fr.id])
    (hfin : s'.ctl.rootIsDone = false) : Inv s' := by
  have hne := h.top_id_ne hf0
  have hall0 : s.all = fr :: (rest ++ (s.zombies ++ s.gone)) := by simp [St.all, hf0]
  have hperm : s'.all.Perm s.all := by
    rw [hall0]
    have : s'.all = (rest ++ (s.zombies ++ s.gone)) ++ [fr] := by simp [St.all, hf, hz, hg]
    rw [this]; exact List.perm_append_singleton _ _
  obtain ⟨p1, p2, p3⟩ := h.of_perm_all hperm hn
  have hfrlt : fr.id < s.nextId := h.ids_lt fr (by rw [hall0]; exact List.mem_cons_self)
  have hnf : s.ctl ≠ .finished := by
    intro hc
    have := h.fin (by rw [hc]; rfl)
    rw [hf0] at this; cases this
  have hnf' : s'.ctl ≠ .finished := by
    intro hc; rw [hc] at hfin; cases hfin
  have hto : ∀ f ∈ rest ++ (s.zombies ++ s.gone), ∀ x ∈ [Out.frameDead fr.id], x.frame ≠ some f.id := by
    intro f hfm x hx
    simp at hx; rw [hx]; simp [Out.frame]
    exact fun e => hne f hfm e.symm
  refine ⟨p1, p2, p3, ?_, ?_, ?_, ?_, ?_, ?_, ?_, ?_, ?_⟩
  · rw [hf]; intro f hfm; exact h.hist f (by rw [hf0]; exact List.mem_cons_of_mem _ hfm)
  · rw [hf]; intro f hfm
    have := h.body_tail; rw [hf0] at this
    exact this f (List.mem_of_mem_tail hfm)
  · intro _; rw [hf]; intro f hfm
    have := h.body_tail; rw [hf0] at this
    exact this f (List.mem_of_mem_head? hfm)
  · intro he; rw [hfin] at he; cases he
  · rw [hz, hg]; intro f hfm
    rcases List.mem_append.mp hfm with e | e
    · exact h.retired f (by simp [e])
    · rcases List.mem_append.mp e with e | e
      · exact h.retired f (by simp [e])
      · simp at e; rw [e]
        refine ⟨hcs, ?_⟩
        have := h.hist fr (by rw [hf0]; simp)
        simpa [hcs] using this
  · rw [hf, hz, ho]; intro f hfm
    rcases List.mem_append.mp hfm with e | e
    · exact (h.okLive f (by rw [hf0]; simp [e])).append_other _ (hto f (by simp [e]))
    · exact (h.okLive f (by simp [e])).append_other _ (hto f (by simp [e]))
  · rw [hg, ho]; intro f hfm
    rcases List.mem_append.mp hfm with e | e
    · exact (h.okGone f e).append_other _ (hto f (by simp [e]))
    · simp at e; rw [e]
      have hk := h.okLive fr (by rw [hf0]; simp)
      exact ⟨by rw [regTrace_append, hk.reg]; simp [regTrace], by rw [cleanupTraceOf_append, hk.cl]; simp [cleanupTraceOf],
        by rw [deadCount_append, hk.dead]; simp [deadCount, deadTrace]⟩
  · rw [ho, hn]; intro x hx g hxg
    rcases List.mem_append.mp hx with hx | hx
    · exact h.future x hx g hxg
    · simp at hx; rw [hx] at hxg; cases hxg; exact hfrlt
  · rw [ho, rootTrace_append, List.length_append, h.roots]; simp [hnf, hnf', rootTrace]

/-- P4: the top frame has run all its cleanups on the done path: it stays allocated, cancelled -/
theorem Inv.popZombie {s s' : St} (h : Inv s) {fr : Frame} {rest : List Frame}
    (hf0 : s.frames = fr :: rest) (hcs : fr.cleanups = []) (hf : s'.frames = rest)
    (hz : s'.zombies = s.zombies ++ [fr]) (hg : s'.gone = s.gone) (hn : s'.nextId = s.nextId)
    (ho : s'.outs = s.outs)
    (hc : s'.ctl.exiting = true) (hfin : s'.ctl.rootIsDone = false) : Inv s' := by
  have hall0 : s.all = fr :: (rest ++ (s.zombies ++ s.gone)) := by simp [St.all, hf0]
  have hperm : s'.all.Perm s.all := by
    rw [hall0]
    have : s'.all = (rest ++ s.zombies) ++ fr :: s.gone := by simp [St.all, hf, hz, hg]
    rw [this]
    have := @List.perm_middle _ fr (rest ++ s.zombies) s.gone
    simpa using this
  obtain ⟨p1, p2, p3⟩ := h.of_perm_all hperm hn
  have hnf : s.ctl ≠ .finished := by
    intro hc
    have := h.fin (by rw [hc]; rfl)
    rw [hf0] at this; cases this
  have hnf' : s'.ctl ≠ .finished := by
    intro hc; rw [hc] at hfin; cases hfin
  refine ⟨p1, p2, p3, ?_, ?_, ?_, ?_, ?_, ?_, ?_, ?_, ?_⟩
  · rw [hf]; intro f hfm; exact h.hist f (by rw [hf0]; exact List.mem_cons_of_mem _ hfm)
  · rw [hf]; intro f hfm
    have := h.body_tail; rw [hf0] at this
    exact this f (List.mem_of_mem_tail hfm)
  · intro he; rw [hc] at he; cases he
  · intro he; rw [hfin] at he; cases he
  · rw [hz, hg]; intro f hfm
    simp only [List.append_assoc, List.mem_append, List.mem_cons, List.not_mem_nil, or_false] at hfm
    rcases hfm with e | e | e
    · exact h.retired f (by simp [e])
    · rw [e]
      refine ⟨hcs, ?_⟩
      have := h.hist fr (by rw [hf0]; simp)
      simpa [hcs] using this
    · exact h.retired f (by simp [e])
  · rw [hf, hz, ho]; intro f hfm
    simp only [List.mem_append, List.mem_cons, List.not_mem_nil, or_false] at hfm
    rcases hfm with e | e | e
    · exact h.okLive f (by rw [hf0]; simp [e])
    · exact h.okLive f (by simp [e])
    · rw [e]; exact h.okLive fr (by rw [hf0]; simp)
  · rw [hg, ho]; exact h.okGone
  · rw [ho, hn]; exact h.future
  · rw [ho, h.roots]; simp [hnf, hnf']


/-- only the control state / queue / flags change, between states in which the top frame is in its body -/
theorem Inv.ctlOnly {s s' : St} (h : Inv s) (toks : List Out)
    (hf : s'.frames = s.frames) (hz : s'.zombies = s.zombies) (hg : s'.gone = s.gone) (hn : s'.nextId = s.nextId)
    (ho : s'.outs = s.outs ++ toks) (ht : ∀ x ∈ toks, x.frame = none) (hr : rootTrace toks = [])
    (hb : s'.ctl.exiting = false → s.ctl.exiting = false)
    (hfin : s'.ctl.rootIsDone = false) (hnf : s.ctl ≠ .finished) : Inv s' :=
  h.same toks hf hz hg hn ho ht (fun he => Or.inl (hb he)) (fun he => by rw [hfin] at he; cases he)
    (by
      have : s'.ctl ≠ .finished := by intro hc; rw [hc] at hfin; cases hfin
      simp [hr, hnf, this])

theorem Inv.leafDone' {s : St} (h : Inv s) (o : Outcome) (hc : s.ctl.exiting = false)
    (hnf : s.ctl ≠ .finished) : Inv { s with ctl := .resume o } :=
  h.ctlOnly [] rfl rfl rfl rfl (by simp) (by simp) rfl (fun _ => hc) rfl hnf

theorem Inv.emitNone {s : St} (h : Inv s) (x : Out) (hx : x.frame = none) (hr : rootTrace [x] = []) : Inv (emit s x) :=
  h.same [x] rfl rfl rfl rfl rfl (by simpa using hx) (fun he => Or.inl he) h.fin (by rw [hr]; simp; rfl)

theorem Inv.schedHop {s : St} (h : Inv s) (k : Nat) (o : Outcome) (hc : s.ctl.exiting = false)
    (hnf : s.ctl ≠ .finished) : Inv (schedHop s k o) := by
  have h1 := h.emitNone (.sched k) rfl rfl
  unfold Coro.schedHop
  simp only []
  split
  · exact h1.ctlOnly [] rfl rfl rfl rfl (by simp) (by simp) rfl (fun _ => hc) rfl hnf
  · exact h1.ctlOnly [] rfl rfl rfl rfl (by simp) (by simp) rfl (fun _ => hc) rfl hnf

theorem Inv.leafDone {s : St} (h : Inv s) (a : Bool) (k : Nat) (o : Outcome) (hc : s.ctl.exiting = false)
    (hnf : s.ctl ≠ .finished) : Inv (leafDone s a k o) := by
  unfold Coro.leafDone
  split
  · exact h.leafDone' o hc hnf
  · exact h.schedHop k o hc hnf

theorem Inv.signal {s : St} (h : Inv s) (o : Outcome) (hf : s.frames = []) (hnf : s.ctl ≠ .finished) :
    Inv (signal s o) := by
  unfold Coro.signal
  simp only []
  split <;> split
  · exact h.same [.tokRegs 0, .root o] rfl rfl rfl rfl (by simp [emit]) (by simp [Out.frame])
      (fun _ => Or.inr (by rw [hf]; simp)) (fun _ => hf) (by simp [hnf, rootTrace])
  · exact h.same [.tokRegs s.tokRegs, .root o] rfl rfl rfl rfl (by simp [emit]) (by simp [Out.frame])
      (fun _ => Or.inr (by rw [hf]; simp)) (fun _ => hf) (by simp [hnf, rootTrace])
  · rename_i h1 h2; exact absurd h2.1 h1
  · exact h.same [.root o] rfl rfl rfl rfl (by simp [emit]) (by simp [Out.frame])
      (fun _ => Or.inr (by rw [hf]; simp)) (fun _ => hf) (by simp [hnf, rootTrace])

theorem Inv.rootDone {s : St} (h : Inv s) (o : Outcome) (hf : s.frames = []) (hnf : s.ctl ≠ .finished) :
    Inv (rootDone s o) := by
  have h0 : Inv (if s.adapter then s else { s with tokRegs := 0 }) := by
    split
    · exact h
    · exact h.same [] rfl rfl rfl rfl (by simp) (by simp) (fun he => Or.inl he) h.fin (by simp [rootTrace])
  have hf0 : (if s.adapter then s else { s with tokRegs := 0 }).frames = [] := by split <;> exact hf
  have hnf0 : (if s.adapter then s else { s with tokRegs := 0 }).ctl ≠ .finished := by split <;> exact hnf
  unfold Coro.rootDone
  simp only []
  generalize (if s.adapter then s else { s with tokRegs := 0 }) = s0 at h0 hf0 hnf0 ⊢
  split
  · exact h0.same [] rfl rfl rfl rfl (by simp) (by simp) (fun _ => Or.inr (by rw [hf0]; simp)) (fun _ => hf0) (by simp [hnf0, rootTrace])
  · exact h0.signal o hf0 hnf0

theorem Inv.beginExit {s : St} (h : Inv s) {fr : Frame} {rest : List Frame} (hf0 : s.frames = fr :: rest) (o : Outcome) :
    Inv (beginExit s fr rest o) :=
  h.updTop (fr' := { fr with live := false }) [.localsDead fr.id] hf0 rfl rfl rfl rfl rfl rfl
    (by simp [Out.frame]) (by simp [regTrace]) (by simp [cleanupTraceOf]) (by simp [deadCount, deadTrace])
    (h.hist fr (by rw [hf0]; simp)) (fun he => by cases he) rfl (by simp [rootTrace])

theorem Inv.step {s : St} (h : Inv s) : Inv (step specs s) := by
  unfold Coro.step
  split
  · -- exec
    rename_i fr rest hc hf0
    have hne : s.ctl.exiting = false := by rw [hc]; rfl
    have hran : fr.ran = [] := h.body_head hne fr (by rw [hf0]; simp)
    have hhist := h.hist fr (by rw [hf0]; simp)
    have hnf : s.ctl ≠ .finished := by rw [hc]; simp
    unfold execStep
    split
    · exact h.beginExit hf0 _
    · exact h.beginExit hf0 _
    · exact h.beginExit hf0 _
    · rename_i k hk
      split
      · exact h.updTop (fr' := { fr with kont := k }) [] hf0 rfl rfl rfl rfl (by simp) rfl
          (by simp) (by simp [regTrace]) (by simp [cleanupTraceOf]) (by simp [deadCount, deadTrace])
          hhist (fun he => by cases he) rfl (by simp [rootTrace])
      · exact h.updTop (fr' := { fr with kont := k }) [] hf0 rfl rfl rfl rfl (by simp) rfl
          (by simp) (by simp [regTrace]) (by simp [cleanupTraceOf]) (by simp [deadCount, deadTrace])
          hhist (fun _ => hran) (by rw [hc]; rfl) (by simp [rootTrace])
    · rename_i k hk
      split
      · exact h.updTop (fr' := { fr with kont := k }) [] hf0 rfl rfl rfl rfl (by simp) rfl
          (by simp) (by simp [regTrace]) (by simp [cleanupTraceOf]) (by simp [deadCount, deadTrace])
          hhist (fun he => by cases he) rfl (by simp [rootTrace])
      · exact h.updTop (fr' := { fr with kont := k }) [] hf0 rfl rfl rfl rfl (by simp) rfl
          (by simp) (by simp [regTrace]) (by simp [cleanupTraceOf]) (by simp [deadCount, deadTrace])
          hhist (fun _ => hran) (by rw [hc]; rfl) (by simp [rootTrace])
    · rename_i i t k hk
      have h1 : Inv (emit { s with frames := { fr with kont := k, catching := t } :: rest } (.plainStart i)) :=
        h.updTop (fr' := { fr with kont := k, catching := t }) [.plainStart i] hf0 rfl rfl rfl rfl rfl rfl
          (by simp [Out.frame]) (by simp [regTrace]) (by simp [cleanupTraceOf]) (by simp [deadCount, deadTrace])
          hhist (fun _ => hran) (by simp [emit, hc, Ctl.rootIsDone]) (by simp [rootTrace])
      have hc1 : (emit { s with frames := { fr with kont := k, catching := t } :: rest } (.plainStart i)).ctl = .exec := hc
      simp only []
      split
      · exact h1.leafDone _ _ _ (by rw [hc1]; rfl) (by rw [hc1]; simp)
      · exact h1.ctlOnly [] rfl rfl rfl rfl (by simp) (by simp) rfl (fun _ => by rw [hc1]; rfl) rfl (by rw [hc1]; simp)
    · rename_i a l k hk
      exact h.updTop (fr' := { fr with kont := k, cleanups := (a, ckOf l, fr.sched) :: fr.cleanups, regd := a :: fr.regd })
          [.reg fr.id a] hf0 rfl rfl rfl rfl rfl rfl
          (by simp [Out.frame]) (by simp [regTrace]) (by simp [cleanupTraceOf]) (by simp [deadCount, deadTrace])
          (by rw [hran] at hhist ⊢; simpa using hhist) (fun _ => hran) (by simp [emit, hc, Ctl.rootIsDone]) (by simp [rootTrace])
    · rename_i i t k hk
      have h1 : Inv (emit { s with frames := { fr with kont := k, catching := t } :: rest } (.leafStart i s.srcStopped)) :=
        h.updTop (fr' := { fr with kont := k, catching := t }) [.leafStart i s.srcStopped] hf0 rfl rfl rfl rfl rfl rfl
          (by simp [Out.frame]) (by simp [regTrace]) (by simp [cleanupTraceOf]) (by simp [deadCount, deadTrace])
          hhist (fun _ => hran) (by simp [emit, hc, Ctl.rootIsDone]) (by simp [rootTrace])
      have hc1 : (emit { s with frames := { fr with kont := k, catching := t } :: rest } (.leafStart i s.srcStopped)).ctl = .exec := hc
      simp only []
      split
      · exact h1.leafDone _ _ _ (by rw [hc1]; rfl) (by rw [hc1]; simp)
      · split
        · have h2 := h1.emitNone (.leafStop i) rfl rfl
          split
          · exact h2.ctlOnly [] rfl rfl rfl rfl (by simp) (by simp) rfl (fun _ => by simp [emit, hc, Ctl.exiting]) rfl
              (by simp [emit, hc])
          · exact h2.leafDone _ _ _ (by simp [emit, hc, Ctl.exiting]) (by simp [emit, hc])
        · exact h1.ctlOnly [] rfl rfl rfl rfl (by simp) (by simp) rfl (fun _ => by rw [hc1]; rfl) rfl (by rw [hc1]; simp)
    · rename_i p t k hk
      exact h.push (fr' := { fr with kont := k, catching := t })
        (child := { id := s.nextId, kont := p, acc := 0, cleanups := [], catching := false, live := true, sched := fr.sched, resched := false, regd := [], ran := [] })
        [.frameStart s.nextId] hf0 rfl rfl rfl rfl rfl (by simp [Out.frame]) rfl rfl rfl rfl rfl rfl rfl rfl
        hne (by simp [emit, hc, Ctl.rootIsDone]) (by simp [rootTrace])
    · rename_i n k hk
      simp only []
      have key : ∀ s1 : St, Inv s1 → s1.ctl = .exec → s1.frames ≠ [] →
          Inv (if s.srcStopped then { emit (emit s1 (.sched n)) (.schedCancel n) with ctl := .resume .done }
               else if s.inlineSched then emit s1 (.sched n)
               else { emit s1 (.sched n) with ctl := .waitSched n, queue := (emit s1 (.sched n)).queue ++ [.sched] }) := by
        intro s1 h1 hc1 _
        have h2 := h1.emitNone (.sched n) rfl rfl
        split
        · exact (h2.emitNone (.schedCancel n) rfl rfl).ctlOnly [] rfl rfl rfl rfl (by simp) (by simp) rfl
            (fun _ => by simp [emit, hc1, Ctl.exiting]) rfl (by simp [emit, hc1])
        · split
          · exact h2
          · exact h2.ctlOnly [] rfl rfl rfl rfl (by simp) (by simp) rfl
              (fun _ => by simp [emit, hc1, Ctl.exiting]) rfl (by simp [emit, hc1])
      by_cases hr : fr.resched = true
      · have h1 : Inv { s with frames := { fr with kont := k, catching := false, sched := n } :: rest } :=
          h.updTop (fr' := { fr with kont := k, catching := false, sched := n }) [] hf0 rfl rfl rfl rfl (by simp) rfl
            (by simp) (by simp [regTrace]) (by simp [cleanupTraceOf]) (by simp [deadCount, deadTrace])
            hhist (fun _ => hran) (by rw [hc]; rfl) (by simp [rootTrace])
        have := key _ h1 hc (by simp)
        simpa [hr] using this
      · have h1 : Inv (emit { s with frames := { fr with kont := k, catching := false, sched := n, resched := true, cleanups := (0, CK.back fr.sched, 0) :: fr.cleanups, regd := 0 :: fr.regd } :: rest } (.reg fr.id 0)) :=
          h.updTop (fr' := { fr with kont := k, catching := false, sched := n, resched := true, cleanups := (0, CK.back fr.sched, 0) :: fr.cleanups, regd := 0 :: fr.regd })
            [.reg fr.id 0] hf0 rfl rfl rfl rfl rfl rfl
            (by simp [Out.frame]) (by simp [regTrace]) (by simp [cleanupTraceOf]) (by simp [deadCount, deadTrace])
            (by rw [hran] at hhist ⊢; simpa using hhist) (fun _ => hran) (by simp [emit, hc, Ctl.rootIsDone]) (by simp [rootTrace])
        have := key _ h1 hc (by simp [emit])
        simpa [hr] using this
  · -- resume
    rename_i o fr rest hc hf0
    have hne : s.ctl.exiting = false := by rw [hc]; rfl
    have hran : fr.ran = [] := h.body_head hne fr (by rw [hf0]; simp)
    have hhist := h.hist fr (by rw [hf0]; simp)
    have hnf : s.ctl ≠ .finished := by rw [hc]; simp
    unfold resumeStep
    split
    · rename_i v
      exact h.updTop (fr' := { fr with acc := fr.acc + v }) [] hf0 rfl rfl rfl rfl (by simp) rfl
          (by simp) (by simp [regTrace]) (by simp [cleanupTraceOf]) (by simp [deadCount, deadTrace])
          hhist (fun _ => hran) rfl (by simp [rootTrace])
    · rename_i e
      split
      · exact h.updTop (fr' := { fr with acc := fr.acc + catchVal e }) [] hf0 rfl rfl rfl rfl (by simp) rfl
          (by simp) (by simp [regTrace]) (by simp [cleanupTraceOf]) (by simp [deadCount, deadTrace])
          hhist (fun _ => hran) rfl (by simp [rootTrace])
      · exact h.beginExit hf0 _
    · exact h.same [] rfl rfl rfl rfl (by simp) (by simp) (fun he => by cases he) (fun he => by cases he)
        (by simp [hnf, rootTrace])
  · -- exit
    rename_i o fr rest hc hf0
    have hhist := h.hist fr (by rw [hf0]; simp)
    have hnf : s.ctl ≠ .finished := by rw [hc]; simp
    unfold exitStep
    split
    · rename_i a ck q cs hcs
      have h1 : Inv (emit { s with frames := { fr with cleanups := cs, ran := fr.ran ++ [a] } :: rest } (.cleanup fr.id a)) :=
        h.updTop (fr' := { fr with cleanups := cs, ran := fr.ran ++ [a] }) [.cleanup fr.id a] hf0 rfl rfl rfl rfl rfl rfl
          (by simp [Out.frame]) (by simp [regTrace]) (by simp [cleanupTraceOf]) (by simp [deadCount, deadTrace])
          (by rw [hcs] at hhist; simpa using hhist) (fun he => by simp [emit, hc, Ctl.exiting] at he)
          (by simp [emit, hc, Ctl.rootIsDone]) (by simp [rootTrace])
      have h1q := h1.emitNone (.cleanupSched q) rfl rfl
      simp only []
      split
      · exact h1q
      · rename_i l
        have h2 := h1q.emitNone (.leafStart l false) rfl rfl
        split
        · exact h2
        · exact h2.same [.terminate] rfl rfl rfl rfl rfl (by simp [Out.frame]) (fun he => by cases he) (fun he => by cases he)
            (by simp [emit, hc, rootTrace])
        · exact h2.same [] rfl rfl rfl rfl (by simp) (by simp) (fun he => by cases he) (fun he => by cases he)
            (by simp [emit, hc, rootTrace])
      · rename_i n
        have h2 := h1.emitNone (.sched n) rfl rfl
        split
        · exact h2
        · exact h2.same [] rfl rfl rfl rfl (by simp) (by simp) (fun he => by cases he) (fun he => by cases he)
            (by simp [emit, hc, rootTrace])
    · rename_i hcs
      split
      · exact h.popZombie hf0 hcs rfl rfl rfl rfl rfl (by rw [hc]; rfl) (by rw [hc]; rfl)
      · exact h.popGone hf0 hcs rfl rfl rfl rfl rfl rfl
  · rename_i o hc hf0
    exact h.rootDone o hf0 (by rw [hc]; simp)
  · rename_i o hc hf0
    exact h.rootDone o hf0 (by rw [hc]; simp)
  · exact h


/-- only flags / the queue change -/
theorem Inv.flags {s s' : St} (h : Inv s)
    (hc : s'.ctl = s.ctl) (hf : s'.frames = s.frames) (hz : s'.zombies = s.zombies) (hg : s'.gone = s.gone)
    (hn : s'.nextId = s.nextId) (ho : s'.outs = s.outs) : Inv s' :=
  h.same [] hf hz hg hn (by simp [ho]) (by simp) (fun he => Or.inl (by rw [← hc]; exact he))
    (fun he => h.fin (by rw [← hc]; exact he)) (by simp [rootTrace, hc])

theorem Inv.iter {s : St} (h : Inv s) (n : Nat) : Inv (iter specs n s) := by
  induction n generalizing s with
  | zero => exact h
  | succ n ih => exact ih (h.step specs)

theorem Inv.settle {s : St} (h : Inv s) : Inv (settle specs s) := by
  rw [settle_eq_iter]; exact h.iter specs _

theorem Inv.init (p : Prog) (b : Bool) (st : Bool := true) (ad : Bool := false) : Inv (St.init p b st ad) := by
  constructor <;> simp [St.init, St.all, rootFrame, Ctl.exiting, Ctl.rootIsDone, rootTrace]
  · exact ⟨rfl, rfl, rfl⟩

theorem Inv.deliverStop {s : St} (h : Inv s) : Inv (deliverStop specs s) := by
  have h1 : Inv { s with srcStopped := true } := h.flags rfl rfl rfl rfl rfl rfl
  unfold Coro.deliverStop
  simp only []
  split
  · rename_i i hc
    have h2 := h1.emitNone (.leafStop i) rfl rfl
    have hc2 : (emit { s with srcStopped := true } (.leafStop i)).ctl = .waitLeaf i := hc
    split
    · exact h2.leafDone _ _ _ (by rw [hc2]; rfl) (by rw [hc2]; simp)
    · exact h2
  · rename_i k hc
    have hc' : s.ctl = .waitSched k := hc
    exact (h1.emitNone (.schedCancel k) rfl rfl).ctlOnly [] rfl rfl rfl rfl (by simp) (by simp) rfl
      (fun _ => by simp [emit, hc', Ctl.exiting]) rfl (by simp [emit, hc'])
  · exact h1

theorem Inv.stopOpDone {s : St} (h : Inv s) : Inv (stopOpDone s) := by
  have h1 : Inv { s with stopOp := false } := h.flags rfl rfl rfl rfl rfl rfl
  unfold Coro.stopOpDone
  simp only []
  split
  · rename_i o hc
    have hf : s.frames = [] := h.fin (by
      have : s.ctl = .waitJoin o := hc
      rw [this]; rfl)
    have hc' : s.ctl = .waitJoin o := hc
    exact h1.signal o hf (by simp [hc'])
  · exact h1

theorem Inv.onStop {s : St} (h : Inv s) : Inv (onStop specs s) := by
  unfold Coro.onStop
  split
  · exact h
  · have h1 : Inv { s with rootStopped := true } := h.flags rfl rfl rfl rfl rfl rfl
    simp only []
    split
    · exact h1
    · have h2 : Inv (emit { s with rootStopped := true, stopOp := true } (.sched 0)) :=
        (h1.flags (s' := { s with rootStopped := true, stopOp := true }) rfl rfl rfl rfl rfl rfl).emitNone _ rfl rfl
      split
      · exact ((Inv.deliverStop specs h2).settle specs).stopOpDone
      · exact h2.flags rfl rfl rfl rfl rfl rfl

theorem Inv.onStart {s : St} (h : Inv s) (hc : s.ctl = .idle) : Inv (onStart specs s) := by
  unfold Coro.onStart
  apply Inv.settle
  have key : ∀ s1 : St, Inv s1 → s1.ctl = .idle →
      Inv (emit { s1 with ctl := .exec, frames := startFrames s1.frames, tokRegs := if s.stoppable then 1 else 0 } (.frameStart 0)) := by
    intro s1 h1 hc1
    cases hf : s1.frames with
    | nil =>
      exact h1.same [.frameStart 0] (by simp [emit, startFrames, hf]) rfl rfl rfl rfl (by simp [Out.frame])
        (fun _ => Or.inl (by rw [hc1]; rfl)) (fun he => by cases he) (by simp [hc1, rootTrace, emit])
    | cons fr rest =>
      have hne : s1.ctl.exiting = false := by rw [hc1]; rfl
      exact h1.updTop (fr' := { fr with live := true }) [.frameStart 0] hf (by simp [emit, startFrames]) rfl rfl rfl rfl rfl
        (by simp [Out.frame]) (by simp [regTrace]) (by simp [cleanupTraceOf]) (by simp [deadCount, deadTrace])
        (h1.hist fr (by rw [hf]; simp)) (fun _ => h1.body_head hne fr (by rw [hf]; simp)) rfl (by simp [rootTrace])
  have he : Inv (emit s (.sched 0)) := h.emitNone _ rfl rfl
  split
  · split
    · exact key _ (he.flags rfl rfl rfl rfl rfl rfl) hc
    · exact key _ (he.flags rfl rfl rfl rfl rfl rfl) hc
  · exact key _ h hc

theorem Inv.onRun {s : St} (h : Inv s) : Inv (onRun specs s) := by
  unfold Coro.onRun
  split
  · exact h
  · rename_i o q hq
    split
    · rename_i hc
      apply Inv.settle
      exact h.ctlOnly [] rfl rfl rfl rfl (by simp) (by simp) rfl (fun _ => by rw [hc]; rfl) rfl (by rw [hc]; simp)
    · exact h.flags rfl rfl rfl rfl rfl rfl
  · rename_i q hq
    split
    · rename_i k hc
      apply Inv.settle
      exact h.ctlOnly [] rfl rfl rfl rfl (by simp) (by simp) rfl (fun _ => by rw [hc]; rfl) rfl (by rw [hc]; simp)
    · exact h.flags rfl rfl rfl rfl rfl rfl
  · rename_i q hq
    split
    · rename_i o hc
      apply Inv.settle
      exact h.same [] rfl rfl rfl rfl (by simp) (by simp) (fun he => by cases he) (fun he => by cases he)
        (by simp [hc, rootTrace])
    · exact h.flags rfl rfl rfl rfl rfl rfl
  · rename_i q hq
    exact ((Inv.deliverStop specs (h.flags (s' := { s with queue := q }) rfl rfl rfl rfl rfl rfl)).settle specs).stopOpDone

theorem Inv.onComplete {s : St} (h : Inv s) (i : Nat) (o : Outcome) : Inv (onComplete specs s i o) := by
  unfold Coro.onComplete
  split
  · rename_i j hc
    split
    · exact (h.leafDone _ _ _ (by rw [hc]; rfl) (by rw [hc]; simp)).settle specs
    · exact h
  · rename_i j hc
    split
    · exact (h.leafDone _ _ _ (by rw [hc]; rfl) (by rw [hc]; simp)).settle specs
    · exact h
  · rename_i j x hc
    split
    · split
      · apply Inv.settle
        exact h.same [] rfl rfl rfl rfl (by simp) (by simp) (fun he => by cases he) (fun he => by cases he)
          (by simp [hc, rootTrace])
      · exact h.same [.terminate] rfl rfl rfl rfl rfl (by simp [Out.frame]) (fun he => by cases he) (fun he => by cases he)
          (by simp [hc, rootTrace])
    · exact h
  · exact h

/-- every external event except the destruction of the operation state preserves the invariant -/
theorem Inv.deliver {s : St} (h : Inv s) (ev : Ev) (hev : ev ≠ .destroy) : Inv (deliver specs ev s) := by
  cases ev with
  | start =>
    simp only [Coro.deliver]
    split
    · rename_i hc; exact h.onStart specs hc
    · exact h
  | stop => exact h.onStop specs
  | run => exact h.onRun specs
  | complete i o => exact h.onComplete specs i o
  | destroy => exact absurd rfl hev

theorem Inv.runEvents {s : St} (h : Inv s) (evs : List Ev) (hev : ∀ ev ∈ evs, ev ≠ .destroy) :
    Inv (runEvents specs s evs) := by
  induction evs generalizing s with
  | nil => exact h
  | cons ev evs ih =>
    exact ih (h.deliver specs ev (hev ev List.mem_cons_self)) (fun e he => hev e (List.mem_cons_of_mem _ he))


/-! ### destruction of the operation state -/

theorem destroyFrames_spec (l : List Frame) : ∀ s : St,
    (destroyFrames s l).frames = s.frames ∧ (destroyFrames s l).zombies = s.zombies ∧
    (destroyFrames s l).nextId = s.nextId ∧ (destroyFrames s l).ctl = s.ctl ∧
    (destroyFrames s l).gone = s.gone ++ l.map (fun f => { f with live := false }) ∧
    deadTrace (destroyFrames s l).outs = deadTrace s.outs ++ l.map (·.id) ∧
    rootTrace (destroyFrames s l).outs = rootTrace s.outs ∧
    (∀ g, regTrace g (destroyFrames s l).outs = regTrace g s.outs ∧
          cleanupTraceOf g (destroyFrames s l).outs = cleanupTraceOf g s.outs) := by
  induction l with
  | nil => intro s; simp [destroyFrames]
  | cons fr r ih =>
    intro s
    simp only [destroyFrames]
    obtain ⟨h1, h2, h3, h4, h5, h6, h7, h8⟩ := ih (emit { (if fr.live then emit s (.localsDead fr.id) else s) with
        gone := (if fr.live then emit s (.localsDead fr.id) else s).gone ++ [{ fr with live := false }] } (.frameDead fr.id))
    refine ⟨?_, ?_, ?_, ?_, ?_, ?_, ?_, ?_⟩
    · rw [h1]; split <;> rfl
    · rw [h2]; split <;> rfl
    · rw [h3]; split <;> rfl
    · rw [h4]; split <;> rfl
    · rw [h5]; split <;> simp [emit]
    · rw [h6]; split <;> simp [emit, deadTrace]
    · rw [h7]; split <;> simp [emit, rootTrace]
    · intro g
      rw [(h8 g).1, (h8 g).2]; split <;> simp [emit, regTrace, cleanupTraceOf]

theorem schedHop_outs_prefix (s : St) (k : Nat) (o : Outcome) : s.outs <+: (schedHop s k o).outs := by
  unfold schedHop; simp only []; split <;> simp [emit]

theorem leafDone_outs_prefix (s : St) (a : Bool) (k : Nat) (o : Outcome) : s.outs <+: (leafDone s a k o).outs := by
  unfold leafDone; split
  · exact List.prefix_refl _
  · exact schedHop_outs_prefix _ _ _

/-- a stop request delivered to the thunk's source while the innermost task is suspended on leaf `i`: the
    leaf's stop callback is the first thing that happens -/
theorem deliverStop_waitLeaf_prefix (s : St) (i : Nat) (hc : s.ctl = .waitLeaf i) :
    (s.outs ++ [.leafStop i]) <+: (deliverStop specs s).outs := by
  simp only [deliverStop, hc]
  split
  · exact leafDone_outs_prefix (emit { s with srcStopped := true } (.leafStop i)) _ _ _
  · exact List.prefix_refl _

theorem step_outs_prefix (s : St) : s.outs <+: (step specs s).outs := by
  have hsh := schedHop_outs_prefix
  have hl := leafDone_outs_prefix
  have hsg : ∀ (s : St) (o : Outcome), s.outs <+: (signal s o).outs := by
    intro s o; unfold signal; simp only []; split <;> split <;> simp [emit, List.append_assoc]
  have hr : ∀ (s : St) (o : Outcome), s.outs <+: (rootDone s o).outs := by
    intro s o; unfold rootDone; simp only []
    split <;> split <;>
      first | exact List.prefix_refl _ | exact hsg s o | exact hsg { s with tokRegs := 0 } o
  have he : ∀ (s : St) (x : Out), s.outs <+: (emit s x).outs := by intro s x; simp [emit]
  unfold step
  split
  · unfold execStep
    split
    · simp [beginExit, emit]
    · simp [beginExit, emit]
    · simp [beginExit, emit]
    · split <;> simp
    · split <;> simp
    · simp only []
      split
      · refine List.IsPrefix.trans ?_ (hl _ _ _ _); simp [emit]
      · simp [emit]
    · simp [emit]
    · simp only []
      split
      · refine List.IsPrefix.trans ?_ (hl _ _ _ _); simp [emit]
      · split
        · split
          · simp [emit, List.append_assoc]
          · refine List.IsPrefix.trans ?_ (hl _ _ _ _); simp [emit, List.append_assoc]
        · simp [emit]
    · simp [emit]
    · simp only []
      split <;> split <;> (try split) <;> simp [emit, List.append_assoc]
  · unfold resumeStep
    split <;> (try split) <;> simp [beginExit, emit]
  · unfold exitStep
    split
    · simp only []
      split
      · simp [emit]
      · split <;> simp [emit, List.append_assoc]
      · split <;> simp [emit, List.append_assoc]
    · split <;> simp [emit]
  · exact hr _ _
  · exact hr _ _
  · exact List.prefix_refl _

theorem iter_outs_prefix (n : Nat) (s : St) : s.outs <+: (iter specs n s).outs := by
  induction n generalizing s with
  | zero => exact List.prefix_refl _
  | succ n ih => exact (step_outs_prefix specs s).trans (ih _)

theorem settle_outs_prefix (s : St) : s.outs <+: (settle specs s).outs := by
  rw [settle_eq_iter]; exact iter_outs_prefix specs _ s

theorem signal_outs_prefix (s : St) (o : Outcome) : s.outs <+: (signal s o).outs := by
  unfold signal; simp only []; split <;> split <;> simp [emit, List.append_assoc]

theorem stopOpDone_outs_prefix (s : St) : s.outs <+: (stopOpDone s).outs := by
  unfold stopOpDone; simp only []; split
  · exact signal_outs_prefix { s with stopOp := false } _
  · exact List.prefix_refl _

end Unifex.Coro
