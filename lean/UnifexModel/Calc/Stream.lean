/-
  Calc/Stream.lean — the STREAM calculus at event level (property C13; DESIGN §5 C13).

  `SExpr` is the syntax of stream expressions: sources (`range lo hi` = range_stream, `single v` =
  single(just(v)), `neverS` = never_stream, `src i` = a scripted manual source) and adaptors
  (transform_stream, next_adapt_stream, filter_stream, stop_immediately, take_until, type_erase,
  cleanup_adapt_stream).  `connect : SExpr → Op` builds the state tree; a stream node is used by its
  parent through `Call`s:

    * `next stopped` – connect+start of next(stream); `stopped` = stop already requested on the token
                        the receiver exposes
    * `cleanup`      – connect+start of cleanup(stream)
    * `stop`         – stop requested on the token of the receiver of the OUTSTANDING next operation
    * `compNext i` / `compClean i` – the environment completes the pending next / cleanup of source `i`

  `deliver` processes ONE call to quiescence and returns the new tree, the observations, and the
  completion signal sent to the parent's receiver (`Sig.next o` for next(), `Sig.clean e` for cleanup()).
  Same style as Calc/Sem.lean: one NON-recursive `…Step` function per algorithm taking `rec` (the
  evaluator at smaller fuel); loops (filter re-pulling after a rejected element, reduce pulling the
  next element) re-enter `rec` on the rebuilt node; `Op.need` is a sufficient amount of fuel.

  Each clause mirrors the C++ where it matters: stop_immediately's state enum
  (not_started / source_next_completed / source_next_active / …_stream_stopped / …_cleanup_requested),
  take_until's `cleanupReady_` hand-off, `cleanupCompleted_` join, its own stop source (callbacks
  run most-recently-registered first: source next, then trigger next), and the `destruct()` calls of
  its cleanup operation (history variables `srcOpCtor/srcOpDtor`, `trigOpCtor/trigOpDtor`: each receiver
  destructs its own operation — `source_receiver` `sourceOp_`, `trigger_receiver` `triggerOp_`).

  The consumers (reduce_stream, for_each = reduce over unit, and a manual next-by-next driver) are the
  `Root` machine at the end of the file.
-/
import UnifexModel.Calc.Sem

namespace Unifex.Stream
open Unifex.Calc (Outcome Fn)

inductive React | ignore | completeDone
  deriving DecidableEq, Repr

/-- script of ONE next() of a manual source -/
inductive NextSpec
  | inl (o : Outcome)                -- completes inside start()
  | pend (o : Outcome) (r : React)   -- completes with `o` at the external event `compNext`; reaction to stop
  deriving DecidableEq, Repr

/-- script of cleanup() of a manual source (`none` = set_done, `some e` = set_error e) -/
inductive CleanSpec
  | inl (e : Option Nat)
  | pend (e : Option Nat)
  deriving DecidableEq, Repr

structure SrcSpec where
  nexts : List NextSpec      -- after the script is exhausted every next() completes inline with done
  clean : CleanSpec
  deriving DecidableEq, Repr

inductive PRes | keep | drop | throw (e : Nat)
  deriving DecidableEq, Repr

/-- scripted filter predicates -/
inductive Pred
  | even | ne (c : Nat) | lt (c : Nat) | throwIfEq (c e : Nat)
  deriving DecidableEq, Repr

def Pred.app : Pred → Nat → PRes
  | .even, x => if x % 2 = 0 then .keep else .drop
  | .ne c, x => if x = c then .drop else .keep
  | .lt c, x => if x < c then .keep else .drop
  | .throwIfEq c e, x => if x = c then .throw e else .keep

/-- scripted cleanup adaptors: swallow the cleanup error / emit a mark when cleanup completes with done -/
inductive CAd | swallow | mark (t : Nat)
  deriving DecidableEq, Repr

inductive UnKind
  | transform (f : Fn)       -- transform_stream(s, f)
  | nextAdapt (f : Fn)       -- next_adapt_stream(s, then(·, f))
  | typeErase                -- type_erase<int>(s)
  | cleanupAdapt (c : CAd)   -- cleanup_adapt_stream(s, c)
  deriving DecidableEq, Repr

inductive SExpr
  | range (lo hi : Nat)
  | single (v : Nat)
  | neverS
  | src (i : Nat)
  | un (k : UnKind) (s : SExpr)
  | filter (p : Pred) (s : SExpr)
  | stopImmediately (s : SExpr)
  | takeUntil (s t : SExpr)          -- t = the trigger STREAM (its first next() is the trigger)
  deriving DecidableEq, Repr

abbrev SExpr.transform (f : Fn) (s : SExpr) : SExpr := .un (.transform f) s
abbrev SExpr.nextAdapt (f : Fn) (s : SExpr) : SExpr := .un (.nextAdapt f) s
abbrev SExpr.typeErase (s : SExpr) : SExpr := .un .typeErase s
abbrev SExpr.cleanupAdapt (c : CAd) (s : SExpr) : SExpr := .un (.cleanupAdapt c) s

/-- observations -/
inductive Out
  | nextStart (i : Nat) (stopped : Bool)   -- next() of source i started
  | nextStop (i : Nat)                     -- stop notification delivered to the pending next() of i
  | nextDone (i : Nat)                     -- next() of source i completed
  | cleanStart (i : Nat)
  | cleanDone (i : Nat)
  | mark (t : Nat)                         -- cleanup adaptor mark
  | elem (v : Nat)                         -- element delivered to the consumer
  | result (o : Outcome)                   -- reduce_stream / for_each completed
  | manNext (o : Outcome)                  -- manual driver: next() completed
  | manClean (e : Option Nat)              -- manual driver: cleanup() completed
  | fuelOut                                -- evaluator ran out of fuel (never silence)
  deriving DecidableEq, Repr

/-- protocol phase of a stream node as seen by its parent -/
inductive Ph | idle | nexting | cleaning | cleaned
  deriving DecidableEq, Repr

inductive LeafKind
  | range (lo hi : Nat) | single (v : Nat) | never | src (i : Nat)
  deriving DecidableEq, Repr

structure LeafSt where
  k : Nat           -- number of next() operations started so far (range_stream: next_ = lo + k)
  ph : Ph
  cleanups : Nat    -- history: number of cleanup() operations started
  bad : Nat         -- history: protocol violation (1 cleanup while next outstanding, 2 second cleanup,
                    --          3 next while an operation is outstanding / after cleanup)
  deriving DecidableEq, Repr

/-- stop_immediately's `state` enum -/
inductive SISt | notStarted | completed | active | stopped | cleanupReq
  deriving DecidableEq, Repr

structure StopImmSt where
  ph : Ph
  s : SISt
  src : Bool               -- stopSource_ requested
  nextErr : Option Nat     -- nextError_
  deriving DecidableEq, Repr

structure TakeSt where
  ph : Ph
  src : Bool               -- stopSource_ requested
  trigStarted : Bool       -- triggerNextStarted_
  trigRunning : Bool       -- next(trigger) outstanding
  srcRunning : Bool        -- next(source) outstanding
  ready : Bool             -- cleanupReady_
  joined : Bool            -- cleanupCompleted_
  srcErr : Option Nat      -- sourceError_
  trigErr : Option Nat     -- triggerError_
  srcOpCtor : Nat          -- history: sourceOp_.construct_with calls
  srcOpDtor : Nat          -- history: sourceOp_.destruct calls
  trigOpCtor : Nat
  trigOpDtor : Nat
  deriving DecidableEq, Repr

inductive Op
  | leaf (k : LeafKind) (st : LeafSt)
  | un (k : UnKind) (c : Op)
  | filter (p : Pred) (c : Op) (stopped : Bool)
  | stopImm (c : Op) (st : StopImmSt)
  | takeUntil (s t : Op) (st : TakeSt)
  deriving DecidableEq, Repr

def LeafSt.init : LeafSt := ⟨0, .idle, 0, 0⟩
def StopImmSt.init : StopImmSt := ⟨.idle, .notStarted, false, none⟩
def TakeSt.init : TakeSt := ⟨.idle, false, false, false, false, false, false, none, none, 0, 0, 0, 0⟩

def connect : SExpr → Op
  | .range lo hi => .leaf (.range lo hi) LeafSt.init
  | .single v => .leaf (.single v) LeafSt.init
  | .neverS => .leaf .never LeafSt.init
  | .src i => .leaf (.src i) LeafSt.init
  | .un k s => .un k (connect s)
  | .filter p s => .filter p (connect s) false
  | .stopImmediately s => .stopImm (connect s) StopImmSt.init
  | .takeUntil s t => .takeUntil (connect s) (connect t) TakeSt.init

inductive Call
  | next (stopped : Bool) | cleanup | stop | compNext (i : Nat) | compClean (i : Nat)
  deriving DecidableEq, Repr

inductive Sig
  | next (o : Outcome) | clean (e : Option Nat)
  deriving DecidableEq, Repr

abbrev Res := Op × List Out × Option Sig
abbrev Rec := Call → Op → Res

variable (specs : Nat → SrcSpec)

/-! ### sources -/

/-- the script entry of the k-th next() of a source -/
def LeafKind.entry : LeafKind → Nat → NextSpec
  | .range lo hi, k => if lo + k < hi then .inl (.value (lo + k)) else .inl .done
  | .single v, k => if k = 0 then .inl (.value v) else .inl .done
  | .never, _ => .pend .done .completeDone
  | .src i, k => ((specs i).nexts[k]?).getD (.inl .done)

def LeafKind.clean : LeafKind → CleanSpec
  | .src i => (specs i).clean
  | _ => .inl none

/-- only manual sources are observable -/
def LeafKind.obs : LeafKind → List Out → List Out
  | .src _, l => l
  | _, _ => []

def LeafKind.id : LeafKind → Nat
  | .src i => i
  | _ => 0

def CleanSpec.err : CleanSpec → Option Nat
  | .inl e => e
  | .pend e => e

def leafStep (c : Call) (k : LeafKind) (st : LeafSt) : Res :=
  let i := k.id
  match c with
  | .next stopped =>
    match st.ph with
    | .idle =>
      let st1 := { st with k := st.k + 1 }
      match k.entry specs st.k with
      | .inl o => (.leaf k st1, k.obs [.nextStart i stopped, .nextDone i], some (.next o))
      | .pend _ r =>
        if stopped then
          -- the stop callback runs inline during registration
          match r with
          | .completeDone =>
            (.leaf k st1, k.obs [.nextStart i true, .nextStop i, .nextDone i], some (.next .done))
          | .ignore => (.leaf k { st1 with ph := .nexting }, k.obs [.nextStart i true, .nextStop i], none)
        else (.leaf k { st1 with ph := .nexting }, k.obs [.nextStart i false], none)
    | _ => (.leaf k { st with bad := 3 }, [], none)
  | .stop =>
    match st.ph with
    | .nexting =>
      match k.entry specs (st.k - 1) with
      | .pend _ .completeDone => (.leaf k { st with ph := .idle }, k.obs [.nextStop i, .nextDone i], some (.next .done))
      | _ => (.leaf k st, k.obs [.nextStop i], none)
    | _ => (.leaf k st, [], none)
  | .compNext j =>
    if k = .src j ∧ st.ph = .nexting then
      match k.entry specs (st.k - 1) with
      | .pend o _ => (.leaf k { st with ph := .idle }, [.nextDone j], some (.next o))
      | .inl o => (.leaf k { st with ph := .idle }, [.nextDone j], some (.next o))
    else (.leaf k st, [], none)
  | .cleanup =>
    match st.ph with
    | .idle =>
      let st1 := { st with cleanups := st.cleanups + 1 }
      match k.clean specs with
      | .inl e => (.leaf k { st1 with ph := .cleaned }, k.obs [.cleanStart i, .cleanDone i], some (.clean e))
      | .pend _ => (.leaf k { st1 with ph := .cleaning }, k.obs [.cleanStart i], none)
    | .nexting => (.leaf k { st with cleanups := st.cleanups + 1, bad := 1 }, [], none)
    | _ => (.leaf k { st with cleanups := st.cleanups + 1, bad := 2 }, [], none)
  | .compClean j =>
    if k = .src j ∧ st.ph = .cleaning then
      (.leaf k { st with ph := .cleaned }, [.cleanDone j], some (.clean (k.clean specs).err))
    else (.leaf k st, [], none)

/-! ### unary adaptors without state: transform_stream, next_adapt_stream(then), type_erase,
    cleanup_adapt_stream.  type_erased_stream's next operation protects the receiver with a reference
    count against a concurrent stop; with serialised events it is transparent (the stop request is
    forwarded through its own stop source, the result of the inner next() is delivered as it is). -/

def UnKind.mapNext : UnKind → Outcome → Outcome
  | .transform f, .value v => f.app v
  | .nextAdapt f, .value v => f.app v
  | _, o => o

def UnKind.mapClean : UnKind → Option Nat → Option Nat × List Out
  | .cleanupAdapt .swallow, _ => (none, [])
  | .cleanupAdapt (.mark t), none => (none, [.mark t])
  | _, e => (e, [])

def unStep (rec : Rec) (c : Call) (k : UnKind) (ch : Op) : Res :=
  let r := rec c ch
  match r.2.2 with
  | none => (.un k r.1, r.2.1, none)
  | some (.next o) => (.un k r.1, r.2.1, some (.next (k.mapNext o)))
  | some (.clean e) => (.un k r.1, r.2.1 ++ (k.mapClean e).2, some (.clean (k.mapClean e).1))

/-! ### filter_stream: a rejected element re-connects and re-starts next(source) -/

/-- process the child's result `r`; `stopped` = current state of the receiver's stop token -/
def filterAfter (rec : Rec) (p : Pred) (stopped : Bool) (r : Res) : Res :=
  match r.2.2 with
  | some (.next (.value v)) =>
    match p.app v with
    | .keep => (.filter p r.1 stopped, r.2.1, some (.next (.value v)))
    | .throw e => (.filter p r.1 stopped, r.2.1, some (.next (.error e)))
    | .drop =>
      let r2 := rec (.next stopped) (.filter p r.1 stopped)
      (r2.1, r.2.1 ++ r2.2.1, r2.2.2)
  | s => (.filter p r.1 stopped, r.2.1, s)

def filterStep (rec : Rec) (c : Call) (p : Pred) (ch : Op) (stopped : Bool) : Res :=
  match c with
  | .next s => filterAfter rec p s (rec (.next s) ch)
  | .stop => filterAfter rec p true (rec .stop ch)
  | c => filterAfter rec p stopped (rec c ch)

/-! ### stop_immediately -/

/-- the first error, if any -/
def firstErr (a b : Option Nat) : Option Nat :=
  match a with
  | some e => some e
  | none => b

def keepErr (o : Outcome) (old : Option Nat) : Option Nat :=
  match o with
  | .error e => some e
  | _ => old

/-- cleanup(source) has signalled (receiver_wrapper): prefer the error of the abandoned next() -/
def siOnClean (c : Op) (st : StopImmSt) (outs : List Out) (sig : Option Sig) : Res :=
  match sig with
  | some (.clean e) =>
    (.stopImm c { st with ph := .cleaned, nextErr := none }, outs,
      some (.clean (firstErr st.nextErr e)))
  | _ => (.stopImm c st, outs, none)

/-- the child has signalled `sig` (next_receiver::handle_signal / receiver_wrapper) -/
def siOnChild (rec : Rec) (c : Op) (st : StopImmSt) (outs : List Out) (sig : Option Sig) : Res :=
  match sig with
  | none => (.stopImm c st, outs, none)
  | some (.next o) =>
    match st.s with
    | .active => (.stopImm c { st with s := .completed, ph := .idle }, outs, some (.next o))
    | .stopped => (.stopImm c { st with s := .completed, nextErr := keepErr o st.nextErr }, outs, none)
    | .cleanupReq =>
      -- cleanup() was requested while the abandoned next() was still running: start it now
      let st1 := { st with nextErr := keepErr o st.nextErr }
      let r := rec .cleanup c
      siOnClean r.1 st1 (outs ++ r.2.1) r.2.2
    | _ => (.stopImm c st, outs, none)
  | some (.clean e) => siOnClean c st outs (some (.clean e))

def stopImmStep (rec : Rec) (call : Call) (c : Op) (st : StopImmSt) : Res :=
  match call with
  | .next stopped =>
    match st.ph with
    | .idle =>
      if stopped then (.stopImm c st, [], some (.next .done))
      else
        let st1 := { st with s := .active, ph := .nexting }
        let r := rec (.next st.src) c
        siOnChild rec r.1 st1 r.2.1 r.2.2
    | _ => (.stopImm c st, [], none)
  | .stop =>
    match st.ph, st.s with
    | .nexting, .active =>
      -- cancel_next_callback: take the receiver, stop the source's next(), deliver done at once
      let st1 := { st with s := .stopped, src := true }
      let r := rec .stop c
      let st2 := match r.2.2 with
        | some (.next o) => { st1 with s := .completed, nextErr := keepErr o st1.nextErr }
        | _ => st1
      (.stopImm r.1 { st2 with ph := .idle }, r.2.1, some (.next .done))
    | _, _ => (.stopImm c st, [], none)
  | .cleanup =>
    match st.ph with
    | .idle =>
      match st.s with
      | .stopped => (.stopImm c { st with s := .cleanupReq, ph := .cleaning }, [], none)
      | .completed =>
        let r := rec .cleanup c
        siOnClean r.1 { st with ph := .cleaning } r.2.1 r.2.2
      | .notStarted => (.stopImm c { st with ph := .cleaned }, [], some (.clean none))
      | _ => (.stopImm c st, [], none)
    | _ => (.stopImm c st, [], none)
  | ev =>
    let r := rec ev c
    siOnChild rec r.1 st r.2.1 r.2.2

/-! ### take_until -/

structure TU where
  s : Op
  t : Op
  st : TakeSt
  outs : List Out
  sig : Option Sig

def TU.res (x : TU) : Res := (.takeUntil x.s x.t x.st, x.outs, x.sig)

/-- both cleanups have reported: deliver (source error preferred) -/
def tuJoin (x : TU) : TU :=
  if x.st.joined then
    { x with st := { x.st with ph := .cleaned },
             sig := some (.clean (firstErr x.st.srcErr x.st.trigErr)) }
  else { x with st := { x.st with joined := true } }

/-- source_receiver::set_done / set_error -/
def tuJoinSrc (x : TU) (e : Option Nat) : TU :=
  tuJoin { x with st := { x.st with srcOpDtor := x.st.srcOpDtor + 1,
                                    srcErr := firstErr e x.st.srcErr } }

/-- trigger_receiver::set_done / set_error: destruct `triggerOp_`, then join -/
def tuJoinTrig (x : TU) (e : Option Nat) : TU :=
  tuJoin { x with st := { x.st with trigOpDtor := x.st.trigOpDtor + 1, trigErr := firstErr e x.st.trigErr } }

/-- start_trigger_cleanup -/
def tuStartTrigCleanup (rec : Rec) (x : TU) : TU :=
  let r := rec .cleanup x.t
  let x1 := { x with t := r.1, outs := x.outs ++ r.2.1, st := { x.st with trigOpCtor := x.st.trigOpCtor + 1 } }
  match r.2.2 with
  | some (.clean e) => tuJoinTrig x1 e
  | _ => x1

/-- the stream's stop source has just been requested: notify the trigger's next() if it is running;
    if that completes it, this is trigger_next_done (whose own request_stop is a no-op now) -/
def tuStopTrig (rec : Rec) (x : TU) : TU :=
  if x.st.trigRunning then
    let r := rec .stop x.t
    let x1 := { x with t := r.1, outs := x.outs ++ r.2.1 }
    match r.2.2 with
    | some (.next _) =>
      let x2 := { x1 with st := { x1.st with trigRunning := false } }
      if x2.st.ready then tuStartTrigCleanup rec x2
      else { x2 with st := { x2.st with ready := true } }
    | _ => x1
  else x

/-- next(source) has signalled `o` (receiver_wrapper): done / error request stop on the stream's source -/
def tuOnSrcNext (rec : Rec) (x : TU) (o : Outcome) : TU :=
  let x1 := { x with st := { x.st with srcRunning := false, ph := .idle }, sig := some (.next o) }
  match o with
  | .value _ => x1
  | _ => if x1.st.src then x1 else tuStopTrig rec { x1 with st := { x1.st with src := true } }

/-- stopSource_.request_stop(): callbacks run most recently registered first (source next, trigger next) -/
def tuRequestStop (rec : Rec) (x : TU) : TU :=
  if x.st.src then x
  else
    let x1 := { x with st := { x.st with src := true } }
    let x2 :=
      if x1.st.srcRunning then
        let r := rec .stop x1.s
        let x2 := { x1 with s := r.1, outs := x1.outs ++ r.2.1 }
        match r.2.2 with
        | some (.next o) => tuOnSrcNext rec x2 o
        | _ => x2
      else x1
    tuStopTrig rec x2

/-- trigger_next_done outside of a request_stop (inline at start, or an external completion) -/
def tuOnTrigNext (rec : Rec) (x : TU) : TU :=
  let x1 := { x with st := { x.st with trigRunning := false } }
  if x1.st.ready then tuStartTrigCleanup rec x1
  else
    let x2 := tuRequestStop rec x1
    { x2 with st := { x2.st with ready := true } }

/-- the first next() starts next(trigger) with the stream's own stop token -/
def takeTrigStart (rec : Rec) (x1 : TU) : TU :=
  if x1.st.trigStarted then x1
  else
    let r := rec (.next x1.st.src) x1.t
    let x := { x1 with t := r.1, outs := x1.outs ++ r.2.1, st := { x1.st with trigStarted := true } }
    match r.2.2 with
    | some (.next _) => tuOnTrigNext rec x
    | _ => { x with st := { x.st with trigRunning := true } }

/-- start next(source) with the stream's own stop token -/
def takeSrcStart (rec : Rec) (x3 : TU) : TU :=
  let r := rec (.next x3.st.src) x3.s
  let x4 := { x3 with s := r.1, outs := x3.outs ++ r.2.1 }
  match r.2.2 with
  | some (.next o) => tuOnSrcNext rec x4 o
  | _ => { x4 with st := { x4.st with srcRunning := true } }

/-- next_sender::_op::start() -/
def takeNext (rec : Rec) (stopped : Bool) (x0 : TU) : TU :=
  let x2 := takeTrigStart rec { x0 with st := { x0.st with ph := .nexting } }
  -- stopCallback_ on the receiver's token
  let x3 := if stopped then tuRequestStop rec x2 else x2
  takeSrcStart rec x3

/-- the rest of cleanup_sender::_op::start() after cleanup(source) was started -/
def takeCleanupTail (rec : Rec) (x2 : TU) : TU :=
  if x2.st.ready then tuStartTrigCleanup rec x2
  else
    -- cleanupOperation_ = this; request_stop(); exchange(cleanupReady_, true)
    let x3 := tuRequestStop rec x2
    if x3.st.ready then tuStartTrigCleanup rec x3
    else { x3 with st := { x3.st with ready := true } }

/-- cleanup_sender::_op::start() -/
def takeCleanup (rec : Rec) (x0 : TU) : TU :=
  let r := rec .cleanup x0.s
  let x1 := { x0 with s := r.1, outs := x0.outs ++ r.2.1,
                      st := { x0.st with ph := .cleaning, srcOpCtor := x0.st.srcOpCtor + 1 } }
  let x2 := match r.2.2 with
    | some (.clean e) => tuJoinSrc x1 e
    | _ => x1
  takeCleanupTail rec x2

/-- an external completion somewhere below: the source side first … -/
def takeEvSrc (rec : Rec) (ev : Call) (x0 : TU) : TU :=
  let r := rec ev x0.s
  let x1 := { x0 with s := r.1, outs := x0.outs ++ r.2.1 }
  match r.2.2 with
  | some (.next o) => tuOnSrcNext rec x1 o
  | some (.clean e) => tuJoinSrc x1 e
  | none => x1

/-- … then the trigger side -/
def takeEvTrig (rec : Rec) (ev : Call) (x2 : TU) : TU :=
  let r2 := rec ev x2.t
  let x3 := { x2 with t := r2.1, outs := x2.outs ++ r2.2.1 }
  match r2.2.2 with
  | some (.next _) => tuOnTrigNext rec x3
  | some (.clean e) => tuJoinTrig x3 e
  | none => x3

def takeStep (rec : Rec) (c : Call) (s t : Op) (st : TakeSt) : Res :=
  let x0 : TU := ⟨s, t, st, [], none⟩
  match c with
  | .next stopped =>
    match st.ph with
    | .idle => (takeNext rec stopped x0).res
    | _ => x0.res
  | .stop =>
    match st.ph with
    | .nexting => (tuRequestStop rec x0).res
    | _ => x0.res
  | .cleanup =>
    match st.ph with
    | .idle => (takeCleanup rec x0).res
    | _ => x0.res
  | ev => (takeEvTrig rec ev (takeEvSrc rec ev x0)).res

/-! ### the evaluator -/

/-- ONE call into a stream node, processed to quiescence; recursion on `fuel`; running out of fuel is
    the distinct observation `Out.fuelOut`. -/
def deliver : Nat → Call → Op → Res
  | 0, _, op => (op, [.fuelOut], none)
  | _+1, c, .leaf k st => leafStep specs c k st
  | fuel+1, c, .un k ch => unStep (deliver fuel) c k ch
  | fuel+1, c, .filter p ch s => filterStep (deliver fuel) c p ch s
  | fuel+1, c, .stopImm ch st => stopImmStep (deliver fuel) c ch st
  | fuel+1, c, .takeUntil s t st => takeStep (deliver fuel) c s t st

/-- number of next() completions a source can still deliver with a value (script entries not yet
    completed) -/
def leafRem (k : LeafKind) (st : LeafSt) : Nat :=
  match k with
  | .range lo hi => hi - (lo + st.k)
  | .single _ => 1 - st.k
  | .never => 1
  | .src i => (specs i).nexts.length - st.k + (if st.ph = .nexting then 1 else 0)

/-- a sufficient amount of fuel for `deliver` (see `Props/C13`) -/
def Op.need : Op → Nat
  | .leaf k st => leafRem specs k st + 1
  | .un _ c => c.need + 1
  | .filter _ c _ => c.need + 1
  | .stopImm c _ => c.need + 1
  | .takeUntil s t _ => s.need + t.need + 1

/-- the protocol phase of a node as its parent sees it -/
def Op.ph : Op → Ph
  | .leaf _ st => st.ph
  | .un _ c => c.ph
  | .filter _ c _ => c.ph
  | .stopImm _ st => st.ph
  | .takeUntil _ _ st => st.ph

/-- manual sources with a pending next() / cleanup() -/
def Op.pendN : Op → List Nat
  | .leaf (.src i) st => if st.ph = .nexting then [i] else []
  | .leaf _ _ => []
  | .un _ c => c.pendN
  | .filter _ c _ => c.pendN
  | .stopImm c _ => c.pendN
  | .takeUntil s t _ => s.pendN ++ t.pendN

def Op.pendK : Op → List Nat
  | .leaf (.src i) st => if st.ph = .cleaning then [i] else []
  | .leaf _ _ => []
  | .un _ c => c.pendK
  | .filter _ c _ => c.pendK
  | .stopImm c _ => c.pendK
  | .takeUntil s t _ => s.pendK ++ t.pendK

/-- all leaves of the tree (kind and state) -/
def Op.leaves : Op → List (LeafKind × LeafSt)
  | .leaf k st => [(k, st)]
  | .un _ c => c.leaves
  | .filter _ c _ => c.leaves
  | .stopImm c _ => c.leaves
  | .takeUntil s t _ => s.leaves ++ t.leaves

/-! ### consumers: reduce_stream, for_each (= reduce over unit), manual next-by-next driver -/

inductive CKind | reduce | forEach | manual
  deriving DecidableEq, Repr

structure Consumer where
  kind : CKind
  init : Nat
  mul : Nat
  thr : Option (Nat × Nat)     -- the reducer / for_each function throws `e` on element `c`
  deriving DecidableEq, Repr

def Consumer.fold (c : Consumer) (acc x : Nat) : Nat :=
  match c.kind with
  | .reduce => (acc * c.mul + x) % 1000003
  | _ => acc

/-- one reducer invocation: the new state, or the thrown error -/
def Consumer.step (c : Consumer) (acc x : Nat) : Except Nat Nat :=
  match c.thr with
  | some (tc, te) => if x = tc then .error te else .ok (c.fold acc x)
  | none => .ok (c.fold acc x)

inductive RPh | idle | nexting | cleaning | finished
  deriving DecidableEq, Repr

structure Root where
  op : Op
  cons : Consumer
  acc : Nat
  ph : RPh
  stopped : Bool
  started : Bool
  err : Option Nat      -- the error carried through reduce's error-cleanup
  ended : Bool          -- manual driver: the last next() returned done / error
  delivered : List Nat  -- history: the elements handed to the consumer so far, in order
  result : Option Outcome   -- history: the consumer's completion (manual driver: cleanup's result)
  deriving DecidableEq, Repr

def Root.init (c : Consumer) (e : SExpr) : Root :=
  ⟨connect e, c, c.init, .idle, false, false, none, false, [], none⟩

/-- reduce's final completion: cleanup error, else the carried error, else the state -/
def finalResult (err ce : Option Nat) (acc : Nat) : Outcome :=
  match ce, err with
  | some e, _ => .error e
  | none, some e => .error e
  | none, none => .value acc

/-- process the signal of the stream (next receiver / cleanup receivers of reduce_stream; the manual
    driver only records it).  `n` bounds the number of elements pulled within one event. -/
def rootAfter : Nat → Root → Res → Root × List Out
  | 0, rt, r => ({ rt with op := r.1 }, r.2.1 ++ [.fuelOut])
  | n+1, rt, r =>
    let rt1 := { rt with op := r.1 }
    match r.2.2 with
    | none => (rt1, r.2.1)
    | some (.next o) =>
      match rt.cons.kind with
      | .manual =>
        ({ rt1 with ph := .idle, ended := (match o with | .value _ => false | _ => true),
                    delivered := (match o with | .value v => rt.delivered ++ [v] | _ => rt.delivered) },
          r.2.1 ++ [.manNext o])
      | _ =>
        match o with
        | .value v =>
          match rt.cons.step rt.acc v with
          | .ok acc' =>
            let p := rootAfter n { rt1 with acc := acc', delivered := rt.delivered ++ [v] }
              (deliver specs (r.1.need specs) (.next rt.stopped) r.1)
            (p.1, r.2.1 ++ [.elem v] ++ p.2)
          | .error e =>
            let p := rootAfter n { rt1 with ph := .cleaning, err := some e, delivered := rt.delivered ++ [v] }
              (deliver specs (r.1.need specs) .cleanup r.1)
            (p.1, r.2.1 ++ [.elem v] ++ p.2)
        | .done =>
          let p := rootAfter n { rt1 with ph := .cleaning } (deliver specs (r.1.need specs) .cleanup r.1)
          (p.1, r.2.1 ++ p.2)
        | .error e =>
          let p := rootAfter n { rt1 with ph := .cleaning, err := some e } (deliver specs (r.1.need specs) .cleanup r.1)
          (p.1, r.2.1 ++ p.2)
    | some (.clean ce) =>
      match rt.cons.kind with
      | .manual =>
        ({ rt1 with ph := .finished, result := some (match ce with | some e => .error e | none => .done) },
          r.2.1 ++ [.manClean ce])
      | _ =>
        ({ rt1 with ph := .finished, result := some (finalResult rt.err ce rt.acc) },
          r.2.1 ++ [.result (finalResult rt.err ce rt.acc)])

inductive REv
  | start | stop | compNext (i : Nat) | compClean (i : Nat) | next | cleanup
  deriving DecidableEq, Repr

/-- fuel for the element loop of one event -/
def Root.loopFuel (rt : Root) : Nat := rt.op.need specs + 3

/-- ONE external event at the consumer -/
def rootStep (rt : Root) (ev : REv) : Root × List Out :=
  let f := rt.op.need specs
  match ev with
  | .start =>
    rootAfter specs (rt.loopFuel specs) { rt with started := true, ph := .nexting } (deliver specs f (.next rt.stopped) rt.op)
  | .stop =>
    if rt.stopped then (rt, [])
    else
      match rt.ph with
      | .nexting => rootAfter specs (rt.loopFuel specs) { rt with stopped := true } (deliver specs f .stop rt.op)
      | _ => ({ rt with stopped := true }, [])
  | .compNext i => rootAfter specs (rt.loopFuel specs) rt (deliver specs f (.compNext i) rt.op)
  | .compClean i => rootAfter specs (rt.loopFuel specs) rt (deliver specs f (.compClean i) rt.op)
  | .next => rootAfter specs (rt.loopFuel specs) { rt with ph := .nexting } (deliver specs f (.next rt.stopped) rt.op)
  | .cleanup => rootAfter specs (rt.loopFuel specs) { rt with ph := .cleaning } (deliver specs f .cleanup rt.op)

/-- is `ev` a legal external event in the current state? -/
def evOk (rt : Root) : REv → Bool
  | .start => rt.cons.kind != .manual && !rt.started
  | .stop => true
  | .compNext i => rt.op.pendN.contains i
  | .compClean i => rt.op.pendK.contains i
  | .next => rt.cons.kind == .manual && rt.ph == .idle && !rt.ended
  | .cleanup => rt.cons.kind == .manual && rt.ph == .idle

/-- run a list of events (illegal ones are skipped), collecting per-event observations -/
def runEvents : Root → List REv → Root × List (List Out)
  | rt, [] => (rt, [])
  | rt, ev :: evs =>
    if evOk rt ev then
      let p := rootStep specs rt ev
      let q := runEvents p.1 evs
      (q.1, p.2 :: q.2)
    else
      let q := runEvents rt evs
      (q.1, [] :: q.2)

end Unifex.Stream
