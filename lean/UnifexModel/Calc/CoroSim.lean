/-
  Calc/CoroSim.lean — the coroutine machine computes the denotational spec `evalProg` on programs whose
  awaits all complete inline (simulation proof by induction on the size of the program).
-/
import UnifexModel.Calc.CoroLemmas
namespace Unifex.Coro
open Unifex.Calc (Outcome)
variable (specs : Nat → LeafSpec)

/-- the cleanup actions that ran, in order, read off the observable trace -/
def cleanupTrace (outs : List Out) : List Nat :=
  outs.filterMap (fun o => match o with | .cleanup _ a => some a | _ => none)

/-- the completion signals the receiver got, read off the observable trace -/
def rootTrace (outs : List Out) : List Outcome :=
  outs.filterMap (fun o => match o with | .root r => some r | _ => none)

/-- how the awaiting coroutine learns about the outcome: resumed (value / exception) or its
    unhandled_done continuation runs -/
def exitCtl : Outcome → Ctl
  | .done => .exit .done
  | o => .resume o

/-- a cleanup that completes inside its start(): synchronous, or awaiting a leaf that completes inline with a value
    (the library-internal reschedule-back cleanup is outside the inline fragment) -/
def ckSync : CK → Bool
  | .sync => true
  | .leaf l => (specs l).kind.isInlineValue
  | .back _ => false

def cleanupsSync (cs : List (Nat × CK × Nat)) : Bool := cs.all (fun c => ckSync specs c.2.1)

theorem ckSync_ckOf (l : Nat) : ckSync specs (ckOf l) = cleanupSync specs l := by
  unfold ckOf cleanupSync
  by_cases h : l = 0 <;> simp [h, ckSync]

/-- the top frame has exited: popped, its awaiter is about to observe `o`, `ran` cleanups have run,
    nothing else changed -/
structure Exited (s' : St) (rest : List Frame) (o : Outcome) (ran : List Nat)
    (src sched stopOp : Bool) (roots : List Outcome) : Prop where
  frames : s'.frames = rest
  ctl : s'.ctl = exitCtl o
  ran : cleanupTrace s'.outs = ran
  src : s'.srcStopped = src
  sched : s'.inlineSched = sched
  stopOp : s'.stopOp = stopOp
  root : rootTrace s'.outs = roots

@[simp] theorem cleanupTrace_append (a b : List Out) : cleanupTrace (a ++ b) = cleanupTrace a ++ cleanupTrace b := by
  simp [cleanupTrace]
@[simp] theorem rootTrace_append (a b : List Out) : rootTrace (a ++ b) = rootTrace a ++ rootTrace b := by
  simp [rootTrace]

theorem exit_sim (o : Outcome) : ∀ (cs : List (Nat × CK × Nat)) (s : St) (fr : Frame) (rest : List Frame),
    s.ctl = .exit o → s.frames = fr :: rest → fr.cleanups = cs → cleanupsSync specs cs = true →
    ∃ m, Exited (iter specs m s) rest o (cleanupTrace s.outs ++ cs.map Prod.fst)
      s.srcStopped s.inlineSched s.stopOp (rootTrace s.outs) := by
  intro cs
  induction cs with
  | nil =>
    intro s fr rest hc hf hcs _
    refine ⟨1, ?_⟩
    cases o <;>
      constructor <;> simp [iter, step, hc, hf, exitStep, hcs, emit, exitCtl, cleanupTrace, rootTrace]
  | cons c cs ih =>
    intro s fr rest hc hf hcs hsync
    obtain ⟨a, ck, q⟩ := c
    simp only [cleanupsSync, List.all_cons, Bool.and_eq_true] at hsync
    obtain ⟨hl, hrest⟩ := hsync
    cases ck with
    | sync =>
      have hstep : step specs s = emit (emit { s with frames := { fr with cleanups := cs, ran := fr.ran ++ [a] } :: rest } (.cleanup fr.id a)) (.cleanupSched q) := by
        simp [step, hc, hf, exitStep, hcs]
      obtain ⟨m, hE⟩ := ih (step specs s) { fr with cleanups := cs, ran := fr.ran ++ [a] } rest
        (by rw [hstep]; simp [emit, hc]) (by rw [hstep]; simp [emit]) rfl hrest
      refine ⟨m + 1, ?_⟩
      rw [hstep] at hE
      simpa [iter, hstep, emit, cleanupTrace, rootTrace] using hE
    | back n => simp [ckSync] at hl
    | leaf l =>
      simp only [ckSync] at hl
      cases hk : (specs l).kind with
      | pending r => simp [hk, LeafKind.isInlineValue] at hl
      | inline ov =>
        cases ov with
        | error e => simp [hk, LeafKind.isInlineValue] at hl
        | done => simp [hk, LeafKind.isInlineValue] at hl
        | value v =>
          have hstep : step specs s = emit (emit (emit { s with frames := { fr with cleanups := cs, ran := fr.ran ++ [a] } :: rest } (.cleanup fr.id a)) (.cleanupSched q)) (.leafStart l false) := by
            simp [step, hc, hf, exitStep, hcs, hk]
          obtain ⟨m, hE⟩ := ih (step specs s) { fr with cleanups := cs, ran := fr.ran ++ [a] } rest
            (by rw [hstep]; simp [emit, hc]) (by rw [hstep]; simp [emit]) rfl hrest
          refine ⟨m + 1, ?_⟩
          rw [hstep] at hE
          simpa [iter, hstep, emit, cleanupTrace, rootTrace] using hE

theorem evalFrame_cons (st : Bool) (x : Stmt) (k : List Stmt) (acc : Nat) (reg ran : List Nat) :
    evalFrame specs st (x :: k) acc reg ran =
      (match evalStmt specs st x acc reg ran with
       | .next acc' reg' ran' => evalFrame specs st k acc' reg' ran'
       | .exit o ran' => (o, ran' ++ reg)) := by
  rw [evalFrame]; cases evalStmt specs st x acc reg ran <;> rfl

theorem evalFrame_nil (st : Bool) (acc : Nat) (reg ran : List Nat) :
    evalFrame specs st [] acc reg ran = (.value acc, ran ++ reg) := by
  rw [evalFrame]

/-- the statement of `exec_sim` for one continuation `k` -/
def ExecSim (k : List Stmt) : Prop :=
  ∀ (s : St) (fr : Frame) (rest : List Frame),
    s.ctl = .exec → s.frames = fr :: rest → fr.kont = k →
    progInline specs s.inlineSched k = true → cleanupsSync specs fr.cleanups = true →
    ∃ m, Exited (iter specs m s) rest
      (evalFrame specs s.srcStopped k fr.acc (fr.cleanups.map Prod.fst) (cleanupTrace s.outs)).1
      (evalFrame specs s.srcStopped k fr.acc (fr.cleanups.map Prod.fst) (cleanupTrace s.outs)).2
      s.srcStopped s.inlineSched s.stopOp (rootTrace s.outs)

theorem beginExit_sim (s : St) (fr : Frame) (rest : List Frame) (o : Outcome)
    (hsync : cleanupsSync specs fr.cleanups = true) :
    ∃ m, Exited (iter specs m (beginExit s fr rest o)) rest o (cleanupTrace s.outs ++ fr.cleanups.map Prod.fst)
      s.srcStopped s.inlineSched s.stopOp (rootTrace s.outs) := by
  obtain ⟨m, hE⟩ := exit_sim specs o fr.cleanups (beginExit s fr rest o) { fr with live := false } rest
    (by simp [beginExit, emit]) (by simp [beginExit, emit]) rfl hsync
  refine ⟨m, ?_⟩
  simpa [beginExit, emit, cleanupTrace, rootTrace] using hE

/-- the awaiter (top frame, rest of body `k`) observes outcome `o` of what it awaited -/
theorem absorb_sim (k : List Stmt) (IH : ExecSim specs k) (s : St) (fr : Frame) (rest : List Frame) (o : Outcome)
    (hc : s.ctl = exitCtl o) (hf : s.frames = fr :: rest) (hk : fr.kont = k)
    (hin : progInline specs s.inlineSched k = true) (hsync : cleanupsSync specs fr.cleanups = true) :
    ∃ m, Exited (iter specs m s) rest
      (match absorb fr.catching fr.acc (fr.cleanups.map Prod.fst) (cleanupTrace s.outs) o with
        | .next acc' reg' ran' => evalFrame specs s.srcStopped k acc' reg' ran'
        | .exit o' ran' => (o', ran' ++ fr.cleanups.map Prod.fst)).1
      (match absorb fr.catching fr.acc (fr.cleanups.map Prod.fst) (cleanupTrace s.outs) o with
        | .next acc' reg' ran' => evalFrame specs s.srcStopped k acc' reg' ran'
        | .exit o' ran' => (o', ran' ++ fr.cleanups.map Prod.fst)).2
      s.srcStopped s.inlineSched s.stopOp (rootTrace s.outs) := by
  cases o with
  | value v =>
    have hstep : step specs s = { s with frames := { fr with acc := fr.acc + v } :: rest, ctl := .exec } := by
      simp [exitCtl] at hc
      simp [step, hc, hf, resumeStep]
    obtain ⟨m, hE⟩ := IH (step specs s) { fr with acc := fr.acc + v } rest (by rw [hstep]) (by rw [hstep]) hk
      (by rw [hstep]; exact hin) hsync
    refine ⟨m + 1, ?_⟩
    rw [hstep] at hE
    simpa [iter, hstep, absorb] using hE
  | error e =>
    simp [exitCtl] at hc
    by_cases ht : fr.catching = true
    · have hstep : step specs s = { s with frames := { fr with acc := fr.acc + catchVal e } :: rest, ctl := .exec } := by
        simp [step, hc, hf, resumeStep, ht]
      obtain ⟨m, hE⟩ := IH (step specs s) { fr with acc := fr.acc + catchVal e } rest (by rw [hstep]) (by rw [hstep]) hk
        (by rw [hstep]; exact hin) hsync
      refine ⟨m + 1, ?_⟩
      rw [hstep] at hE
      simpa [iter, hstep, absorb, ht] using hE
    · have hstep : step specs s = beginExit s fr rest (.error e) := by
        simp [step, hc, hf, resumeStep, ht]
      obtain ⟨m, hE⟩ := beginExit_sim specs s fr rest (.error e) hsync
      refine ⟨m + 1, ?_⟩
      simpa [iter, hstep, absorb, ht] using hE
  | done =>
    simp [exitCtl] at hc
    obtain ⟨m, hE⟩ := exit_sim specs .done fr.cleanups s fr rest hc hf rfl hsync
    refine ⟨m, ?_⟩
    simpa [absorb] using hE

theorem resume_norm (s : St) (fr : Frame) (rest : List Frame) (o : Outcome)
    (hc : s.ctl = .resume o) (hf : s.frames = fr :: rest) :
    ∃ j, iter specs j s = { s with ctl := exitCtl o } := by
  cases o with
  | value v => exact ⟨0, by cases s; simp_all [iter, exitCtl]⟩
  | error e => exact ⟨0, by cases s; simp_all [iter, exitCtl]⟩
  | done => exact ⟨1, by simp [iter, step, hc, hf, resumeStep, exitCtl]⟩

theorem exec_sim : ∀ (n : Nat) (k : List Stmt), progSize k ≤ n → ExecSim specs k := by
  intro n
  induction n with
  | zero =>
    intro k hk
    cases k with
    | nil =>
      intro s fr rest hc hf hkk _ hsync
      have hstep : step specs s = beginExit s fr rest (.value fr.acc) := by
        simp [step, hc, hf, execStep, hkk]
      obtain ⟨m, hE⟩ := beginExit_sim specs s fr rest (.value fr.acc) hsync
      refine ⟨m + 1, ?_⟩
      simpa [iter, hstep, evalFrame_nil] using hE
    | cons x k => have := Stmt.size_pos x; simp [progSize] at hk; omega
  | succ n ih =>
    intro k hk
    cases k with
    | nil => exact ih [] (by simp [progSize])
    | cons x k =>
      have hxk : progSize k ≤ n := by have := Stmt.size_pos x; simp [progSize] at hk; omega
      have IHk := ih k hxk
      intro s fr rest hc hf hkk hin hsync
      rw [progInline, Bool.and_eq_true] at hin
      obtain ⟨hinx, hink⟩ := hin
      cases x with
      | ret v =>
        have hstep : step specs s = beginExit s fr rest (.value (fr.acc + v)) := by
          simp [step, hc, hf, execStep, hkk]
        obtain ⟨m, hE⟩ := beginExit_sim specs s fr rest (.value (fr.acc + v)) hsync
        refine ⟨m + 1, ?_⟩
        simpa [iter, hstep, evalFrame_cons, evalStmt] using hE
      | throw_ e =>
        have hstep : step specs s = beginExit s fr rest (.error e) := by
          simp [step, hc, hf, execStep, hkk]
        obtain ⟨m, hE⟩ := beginExit_sim specs s fr rest (.error e) hsync
        refine ⟨m + 1, ?_⟩
        simpa [iter, hstep, evalFrame_cons, evalStmt] using hE
      | stopIfRequested =>
        by_cases hst : s.srcStopped = true
        · have hstep : step specs s = { s with frames := { fr with kont := k } :: rest, ctl := .exit .done } := by
            simp [step, hc, hf, execStep, hkk, hst]
          obtain ⟨m, hE⟩ := exit_sim specs .done fr.cleanups (step specs s) { fr with kont := k } rest
            (by rw [hstep]) (by rw [hstep]) rfl hsync
          refine ⟨m + 1, ?_⟩
          rw [hstep] at hE
          simpa [iter, hstep, evalFrame_cons, evalStmt, hst] using hE
        · have hstep : step specs s = { s with frames := { fr with kont := k } :: rest } := by
            simp [step, hc, hf, execStep, hkk, hst]
          obtain ⟨m, hE⟩ := IHk (step specs s) { fr with kont := k } rest
            (by rw [hstep]; exact hc) (by rw [hstep]) rfl (by rw [hstep]; exact hink) hsync
          refine ⟨m + 1, ?_⟩
          rw [hstep] at hE
          simpa [iter, hstep, evalFrame_cons, evalStmt, hst] using hE
      | stopIfRequestedS =>
        by_cases hst : s.srcStopped = true
        · have hstep : step specs s = { s with frames := { fr with kont := k } :: rest, ctl := .exit .done } := by
            simp [step, hc, hf, execStep, hkk, hst]
          obtain ⟨m, hE⟩ := exit_sim specs .done fr.cleanups (step specs s) { fr with kont := k } rest
            (by rw [hstep]) (by rw [hstep]) rfl hsync
          refine ⟨m + 1, ?_⟩
          rw [hstep] at hE
          simpa [iter, hstep, evalFrame_cons, evalStmt, hst] using hE
        · have hstep : step specs s = { s with frames := { fr with kont := k } :: rest } := by
            simp [step, hc, hf, execStep, hkk, hst]
          obtain ⟨m, hE⟩ := IHk (step specs s) { fr with kont := k } rest
            (by rw [hstep]; exact hc) (by rw [hstep]) rfl (by rw [hstep]; exact hink) hsync
          refine ⟨m + 1, ?_⟩
          rw [hstep] at hE
          simpa [iter, hstep, evalFrame_cons, evalStmt, hst] using hE
      | awaitPlain i t =>
        simp only [Stmt.inline, Bool.and_eq_true] at hinx
        obtain ⟨hkind, hinl⟩ := hinx
        cases hki : (specs i).kind with
        | pending r => simp [hki, LeafKind.isInline] at hkind
        | inline o =>
          have hstep : step specs s =
              { s with frames := { fr with kont := k, catching := t } :: rest, ctl := .resume (plainOutcome o), outs := s.outs ++ [.plainStart i, .sched fr.sched] } := by
            simp_all [step, execStep, leafDone, schedHop, emit]
          obtain ⟨j, hj⟩ := resume_norm specs (step specs s) { fr with kont := k, catching := t } rest (plainOutcome o)
            (by rw [hstep]) (by rw [hstep])
          obtain ⟨m, hE⟩ := absorb_sim specs k IHk _ { fr with kont := k, catching := t } rest (plainOutcome o)
            (show ({ step specs s with ctl := exitCtl (plainOutcome o) } : St).ctl = exitCtl (plainOutcome o) from rfl)
            (by rw [hstep]) rfl (by rw [hstep]; exact hink) hsync
          refine ⟨(j + m) + 1, ?_⟩
          have hiter : iter specs ((j + m) + 1) s = iter specs m { step specs s with ctl := exitCtl (plainOutcome o) } := by
            show iter specs (j + m) (step specs s) = _
            rw [iter_add, hj]
          rw [hiter]
          rw [hstep] at hE ⊢
          have ht1 : cleanupTrace [Out.plainStart i, Out.sched fr.sched] = [] := rfl
          have ht2 : rootTrace [Out.plainStart i, Out.sched fr.sched] = [] := rfl
          simpa [evalFrame_cons, evalStmt, leafOutcome, hki, cleanupTrace_append, rootTrace_append, ht1, ht2] using hE
      | atExit a l =>
        have hstep : step specs s = emit { s with frames := { fr with kont := k, cleanups := (a, ckOf l, fr.sched) :: fr.cleanups, regd := a :: fr.regd } :: rest } (.reg fr.id a) := by
          simp [step, hc, hf, execStep, hkk]
        have hsync' : cleanupsSync specs ((a, ckOf l, fr.sched) :: fr.cleanups) = true := by
          simp only [cleanupsSync, List.all_cons, Bool.and_eq_true]
          exact ⟨by rw [ckSync_ckOf]; simpa [Stmt.inline] using hinx, hsync⟩
        obtain ⟨m, hE⟩ := IHk (step specs s) { fr with kont := k, cleanups := (a, ckOf l, fr.sched) :: fr.cleanups, regd := a :: fr.regd } rest
          (by rw [hstep]; exact hc) (by rw [hstep]; rfl) rfl (by rw [hstep]; exact hink) hsync'
        refine ⟨m + 1, ?_⟩
        rw [hstep] at hE
        simpa [iter, hstep, evalFrame_cons, evalStmt, emit, cleanupTrace, rootTrace] using hE
      | await i t =>
        simp only [Stmt.inline, Bool.and_eq_true] at hinx
        obtain ⟨hkind, hhop⟩ := hinx
        cases hki : (specs i).kind with
        | pending r => simp [hki, LeafKind.isInline] at hkind
        | inline o =>
          obtain ⟨toks, hstep, ht1, ht2⟩ : ∃ toks, step specs s =
              { s with frames := { fr with kont := k, catching := t } :: rest, ctl := .resume o, outs := s.outs ++ toks } ∧
              cleanupTrace toks = [] ∧ rootTrace toks = [] := by
            cases ha : (specs i).affine
            · refine ⟨[.leafStart i s.srcStopped, .sched fr.sched], ?_, rfl, rfl⟩
              simp_all [step, execStep, leafDone, schedHop, emit]
            · refine ⟨[.leafStart i s.srcStopped], ?_, rfl, rfl⟩
              simp_all [step, execStep, leafDone, emit]
          obtain ⟨j, hj⟩ := resume_norm specs (step specs s) { fr with kont := k, catching := t } rest o
            (by rw [hstep]) (by rw [hstep])
          obtain ⟨m, hE⟩ := absorb_sim specs k IHk _ { fr with kont := k, catching := t } rest o
            (show ({ step specs s with ctl := exitCtl o } : St).ctl = exitCtl o from rfl)
            (by rw [hstep]) rfl (by rw [hstep]; exact hink) hsync
          refine ⟨(j + m) + 1, ?_⟩
          have hiter : iter specs ((j + m) + 1) s = iter specs m { step specs s with ctl := exitCtl o } := by
            show iter specs (j + m) (step specs s) = _
            rw [iter_add, hj]
          rw [hiter]
          rw [hstep] at hE ⊢
          simpa [evalFrame_cons, evalStmt, leafOutcome, hki, cleanupTrace_append, rootTrace_append, ht1, ht2] using hE
      | resched n' => simp [Stmt.inline] at hinx
      | awaitTask p t =>
        have hp : progSize p ≤ n := by simp [progSize, Stmt.size] at hk; omega
        have hinp : progInline specs s.inlineSched p = true := by simpa [Stmt.inline] using hinx
        let child : Frame :=
          { id := s.nextId, kont := p, acc := 0, cleanups := [], catching := false, live := true, sched := fr.sched, resched := false, regd := [], ran := [] }
        let parent : Frame := { fr with kont := k, catching := t }
        have hstep : step specs s = emit { s with frames := child :: parent :: rest, nextId := s.nextId + 1 } (.frameStart s.nextId) := by
          simp [step, hc, hf, execStep, hkk, child, parent]
        obtain ⟨m1, hE1⟩ := ih p hp (step specs s) child (parent :: rest)
          (by rw [hstep]; exact hc) (by rw [hstep]; rfl) rfl (by rw [hstep]; exact hinp) (by simp [child, cleanupsSync])
        have h1 : cleanupTrace (step specs s).outs = cleanupTrace s.outs := by
          rw [hstep]; simp [emit, cleanupTrace]
        have h2 : rootTrace (step specs s).outs = rootTrace s.outs := by
          rw [hstep]; simp [emit, rootTrace]
        have h3 : (step specs s).srcStopped = s.srcStopped := by rw [hstep]; rfl
        have h4 : (step specs s).inlineSched = s.inlineSched := by rw [hstep]; rfl
        have h5 : (step specs s).stopOp = s.stopOp := by rw [hstep]; rfl
        rw [h1, h2, h3, h4, h5] at hE1
        obtain ⟨m2, hE2⟩ := absorb_sim specs k IHk (iter specs m1 (step specs s)) parent rest _
          hE1.ctl hE1.frames rfl (by rw [hE1.sched]; exact hink) hsync
        refine ⟨(m1 + m2) + 1, ?_⟩
        have hiter : iter specs ((m1 + m2) + 1) s = iter specs m2 (iter specs m1 (step specs s)) := by
          show iter specs (m1 + m2) (step specs s) = _
          rw [iter_add]
        rw [hiter]
        rw [hE1.ran, hE1.src, hE1.sched, hE1.stopOp, hE1.root] at hE2
        simpa [evalFrame_cons, evalStmt, parent, child] using hE2


theorem iter_succ' (m : Nat) (s : St) : iter specs (m + 1) s = step specs (iter specs m s) := by
  rw [iter_add]; rfl

theorem signal_traces (s : St) (o : Outcome) :
    rootTrace (signal s o).outs = rootTrace s.outs ++ [o] ∧ cleanupTrace (signal s o).outs = cleanupTrace s.outs := by
  unfold signal; simp only []
  split <;> split <;> simp [emit, rootTrace, cleanupTrace]

theorem root_step (x : St) (o : Outcome) (hc : x.ctl = exitCtl o) (hf : x.frames = []) (hso : x.stopOp = false) :
    (step specs x).ctl = .finished ∧ rootTrace (step specs x).outs = rootTrace x.outs ++ [o] ∧
      cleanupTrace (step specs x).outs = cleanupTrace x.outs := by
  have hstep : step specs x = signal (if x.adapter then x else { x with tokRegs := 0 }) o := by
    cases o <;> simp [step, hc, hf, exitCtl, rootDone, hso]
  rw [hstep]
  refine ⟨signal_ctl _ _, ?_, ?_⟩
  · rw [(signal_traces _ o).1]; split <;> rfl
  · rw [(signal_traces _ o).2]; split <;> rfl

/-- start() of a connected task whose awaits all complete inline: the receiver is completed inside
    start() with the spec's outcome, after exactly the spec's cleanups.  `b`: stop was requested
    before start (then the scheduler must be inline, else the stop request is still queued). -/
theorem start_inline (p : Prog) (inl st ad b : Bool) (hb : b = false ∨ inl = true)
    (hI : progInline specs inl p = true) :
    let s := onStart specs { St.init p inl st ad with rootStopped := b }
    s.ctl = .finished ∧ rootTrace s.outs = [(evalProg specs b p).1] ∧
      cleanupTrace s.outs = (evalProg specs b p).2 := by
  intro s
  let s0 : St := emit { St.init p inl st ad with rootStopped := b, srcStopped := b, ctl := .exec, frames := [{ rootFrame p with live := true }], tokRegs := if st then 1 else 0, outs := if b then [.sched 0] else [] } (.frameStart 0)
  have hs : s = settle specs s0 := by
    rcases hb with hb | hb
    · subst hb; rfl
    · subst hb; cases b <;> rfl
  obtain ⟨m, hE⟩ := exec_sim specs (progSize p) p (Nat.le_refl _) s0 { rootFrame p with live := true } []
    rfl rfl rfl hI rfl
  have f1 : s0.srcStopped = b := rfl
  have f2 : cleanupTrace s0.outs = [] := by cases b <;> rfl
  have f3 : rootTrace s0.outs = [] := by cases b <;> rfl
  have f4 : s0.stopOp = false := rfl
  have f5 : ({ rootFrame p with live := true } : Frame).acc = 0 := rfl
  have f6 : ({ rootFrame p with live := true } : Frame).cleanups.map Prod.fst = [] := rfl
  rw [f1, f2, f3, f4, f5, f6] at hE
  obtain ⟨r1, r2, r3⟩ := root_step specs _ _ hE.ctl hE.frames hE.stopOp
  rw [← iter_succ'] at r1 r2 r3
  have hh : (iter specs (m + 1) s0).halted = true := by simp [St.halted, r1]
  rw [hs, settle_eq specs hh]
  refine ⟨r1, ?_, ?_⟩
  · rw [r2, hE.root]; rfl
  · rw [r3, hE.ran]; rfl

end Unifex.Coro
