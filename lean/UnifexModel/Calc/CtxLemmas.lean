/-
  Calc/CtxLemmas.lean — structural facts about `Ctx.deliver` used by Props/C11.lean.
  One small lemma per algorithm clause (each takes a hypothesis about `rec`, the evaluator of the
  children); `deliver`-level statements follow by induction on fuel.
-/
import UnifexModel.Calc.Ctx

namespace Unifex.Ctx

variable (specs : Nat → LeafSpec)

/-! ### A. The static skeleton of an operation tree never changes -/

def RecSkel (rec : Rec) : Prop := ∀ ev x, (rec ev x).1.skel = x.skel

theorem recIf_skel {rec : Rec} (h : RecSkel rec) (c : Bool) (ev : Ev) (x : Op) :
    (recIf rec c ev x).1.skel = x.skel := by
  unfold recIf; split
  · exact h _ _
  · rfl

theorem unWrap_skel (k : UnKind) (env : Env) (r : Res) : (unWrap k env r).1.skel = .un k r.1.skel := by
  unfold unWrap; split <;> rfl

theorem unStep_skel {rec : Rec} (h : RecSkel rec) (ev : Ev) (k : UnKind) (c : Op) (ph : Phase) (env : Env) :
    (unStep rec ev k c ph env).1.skel = .un k c.skel := by
  unfold unStep
  split
  · rw [unWrap_skel, h]
  · split
    · rw [unWrap_skel, h]
    · rfl
  · rw [unWrap_skel, h]
  · rw [unWrap_skel, h]
  · rfl

theorem waFinish_skel (a b : Op) (st : BinSt) (outs : List Out) (f : Bool) :
    (waFinish a b st outs f).1.skel = .bin .whenAll a.skel b.skel := by
  unfold waFinish; split <;> rfl

theorem waStep_skel {rec : Rec} (h : RecSkel rec) (ev : Ev) (a b : Op) (st : BinSt) :
    (waStep rec ev a b st).1.skel = .bin .whenAll a.skel b.skel := by
  unfold waStep
  split
  · simp only [waStart, waFinish_skel, recIf_skel h, h _ _]
  · unfold waStop; split
    · rfl
    · simp only [waFinish_skel, recIf_skel h]
  · simp only [waPoint, waFinish_skel, recIf_skel h, h _ _]
  · simp only [waPoint, waFinish_skel, recIf_skel h, h _ _]
  · rfl

theorem swFinish_skel (a b : Op) (st : BinSt) (outs : List Out) (f : Bool) :
    (swFinish a b st outs f).1.skel = .bin .stopWhen a.skel b.skel := by
  unfold swFinish; split <;> rfl

theorem swStep_skel {rec : Rec} (h : RecSkel rec) (ev : Ev) (a b : Op) (st : BinSt) :
    (swStep rec ev a b st).1.skel = .bin .stopWhen a.skel b.skel := by
  unfold swStep
  split
  · simp only [swStart, swFinish_skel, recIf_skel h, h _ _]
  · unfold swStop; split
    · rfl
    · simp only [swFinish_skel, recIf_skel h]
  · simp only [swPoint, swFinish_skel, recIf_skel h, h _ _]
  · simp only [swPoint, swFinish_skel, recIf_skel h, h _ _]
  · rfl

theorem seqAfterFirst_skel {rec : Rec} (h : RecSkel rec) (k : BinKind) (b : Op) (st : BinSt) (env : Env)
    (ra : Res) : (seqAfterFirst rec k b st env ra).1.skel = .bin k ra.1.skel b.skel := by
  unfold seqAfterFirst
  split
  · rfl
  · split
    · dsimp only
      split <;> simp [Op.skel, h _ _]
    · rfl

theorem seqSecond_skel (k : BinKind) (a : Op) (st : BinSt) (env : Env) (rb : Res) :
    (seqSecond k a st env rb).1.skel = .bin k a.skel rb.1.skel := by
  unfold seqSecond; split <;> rfl

theorem seqStep_skel {rec : Rec} (h : RecSkel rec) (ev : Ev) (k : BinKind) (a b : Op) (st : BinSt) :
    (seqStep rec ev k a b st).1.skel = .bin k a.skel b.skel := by
  unfold seqStep
  split <;> first
    | (rw [seqAfterFirst_skel h, h])
    | (rw [seqSecond_skel, h])
    | rfl

theorem binStep_skel {rec : Rec} (h : RecSkel rec) (ev : Ev) (k : BinKind) (a b : Op) (st : BinSt) :
    (binStep rec ev k a b st).1.skel = .bin k a.skel b.skel := by
  unfold binStep
  split
  · exact waStep_skel h _ _ _ _
  · exact swStep_skel h _ _ _ _
  · exact seqStep_skel h _ _ _ _ _

theorem skel_deliver (fuel : Nat) : ∀ (ev : Ev) (op : Op), (deliver specs fuel ev op).1.skel = op.skel := by
  induction fuel with
  | zero => intro ev op; rfl
  | succ n ih =>
    intro ev op
    cases op with
    | const k ph => simp only [deliver, constStep]; split <;> rfl
    | leaf i ph =>
      simp only [deliver, leafStep]
      repeat' split
      all_goals rfl
    | sleaf i ph => simp only [deliver, sleafStep]; split <;> rfl
    | never ph => simp only [deliver, neverStep]; repeat' split
                  all_goals rfl
    | sched s j ph ss =>
      simp only [deliver, schedStep]
      repeat' split
      all_goals rfl
    | un k c ph env => simp only [deliver]; exact unStep_skel ih _ _ _ _ _
    | bin k a b st => simp only [deliver]; exact binStep_skel ih _ _ _ _ _

/-! ### B. A manual schedule operation signals only when its context runs its item -/

theorem sched_signal (fuel : Nat) (ev : Ev) (c j : Nat) (ph : Phase) (ss : Bool) (o : Outcome)
    (h : (deliver specs fuel ev (.sched (.man c) j ph ss)).2.2 = some o) : ev = .fire c j := by
  cases fuel with
  | zero => simp [deliver] at h
  | succ n =>
    simp only [deliver, schedStep] at h
    split at h
    · simp at h
    · simp at h
    · split at h
      · rename_i hc
        obtain ⟨h1, h2⟩ := hc
        subst h1; subst h2; rfl
      · simp at h
    · simp at h

/-- a manual schedule operation stays a manual schedule operation -/
theorem sched_shape (fuel : Nat) (ev : Ev) (s : Sched) (j : Nat) (ph : Phase) (ss : Bool) :
    ∃ ph' ss', (deliver specs fuel ev (.sched s j ph ss)).1 = .sched s j ph' ss' := by
  have h := skel_deliver specs fuel ev (.sched s j ph ss)
  generalize (deliver specs fuel ev (.sched s j ph ss)).1 = x at h
  cases x <;> simp [Op.skel] at h
  obtain ⟨h1, h2⟩ := h
  subst h1; subst h2
  exact ⟨_, _, rfl⟩

/-- `via (man c) j e`, in any state: the root signal is emitted only by `fire c j` -/
theorem via_signal (fuel : Nat) (ev : Ev) (op : Op) (x : Expr) (c j : Nat) (o : Outcome)
    (hs : op.skel = .bin .fin x (.sched (.man c) j))
    (h : (deliver specs fuel ev op).2.2 = some o) : ev = .fire c j := by
  cases op with
  | bin k a b st =>
    simp only [Op.skel, Expr.bin.injEq] at hs
    obtain ⟨hk, _, hb⟩ := hs
    subst hk
    cases b <;> simp [Op.skel] at hb
    rename_i s' j' ph ss
    obtain ⟨h1, h2⟩ := hb
    have h2' := h2.symm
    subst h1; subst h2'
    cases fuel with
    | zero => simp [deliver] at h
    | succ n =>
      simp only [deliver, binStep, seqStep] at h
      have key : ∀ (env : Env) (ra : Res),
          (seqAfterFirst (deliver specs n) .fin (.sched (.man c) j ph ss) st env ra).2.2 = some o → False := by
        intro env ra hh
        unfold seqAfterFirst at hh
        split at hh
        · simp at hh
        · simp only [BinKind.takes, if_true] at hh
          split at hh
          · rename_i ob hrb
            have := sched_signal specs n _ c j ph ss ob hrb
            cases this
          · simp at hh
      have key2 : ∀ (env : Env) (e' : Ev),
          (seqSecond .fin a st env (deliver specs n e' (.sched (.man c) j ph ss))).2.2 = some o → e' = .fire c j := by
        intro env e' hh
        unfold seqSecond at hh
        split at hh
        · rename_i ob hrb
          exact sched_signal specs n _ c j ph ss ob hrb
        · simp at hh
      split at h
      · exact (key _ _ h).elim
      · exact (key _ _ h).elim
      · exact (key _ _ h).elim
      · exact (key _ _ h).elim
      · have := key2 _ _ h; cases this
      · have := key2 _ _ h; cases this
      · exact key2 _ _ h
      · simp at h
  | _ => simp [Op.skel] at hs

/-! ### C. Scheduler affinity: operations that signal only on their own context -/

/-- events that may happen on a context other than `c` whatever the client does: the completion of
    a leaf by the environment, another context running an item -/
def Ev.foreign (c : Nat) : Ev → Bool
  | .complete _ _ => true
  | .fire k _ => k != c
  | _ => false

/-- `unstoppable(schedule(man c))`: the completion sender with_scheduler_affinity appends -/
def hopper (c : Nat) : Expr → Bool
  | .un k x =>
    (match k with | .unstoppable => true | _ => false) &&
    (match x with | .sched (.man k') _ => k' == c | _ => false)
  | _ => false

/-- SEMANTIC affinity check on a skeleton: every place where a completion can originate is the
    start, a stop notification, or context `c` running an item -/
def affOk (c : Nat) : Expr → Bool
  | .const _ => true
  | .leaf _ => false
  | .sleaf _ => true
  | .never => true
  | .sched s _ => (match s with | .inl => true | .man k => k == c)
  | .schedCur _ => false
  | .wsa _ _ _ => false
  | .un _ e => affOk c e
  | .bin k a b => (affOk c a && affOk c b) || ((match k with | .fin => true | _ => false) && hopper c b)

theorem unStep_silent (rec : Rec) (ev : Ev) (c : Nat) (hf : ev.foreign c = true) (k : UnKind) (x : Op)
    (ph : Phase) (env : Env) (h : (rec ev x).2.2 = none) : (unStep rec ev k x ph env).2.2 = none := by
  cases ev <;> simp [Ev.foreign] at hf
  · unfold unStep; split <;> simp_all [unWrap]
  · unfold unStep; split <;> simp_all [unWrap]

theorem waPoint_silent (rec : Rec) (ev : Ev) (a b : Op) (st : BinSt)
    (ha : (rec ev a).2.2 = none) (hb : (rec ev b).2.2 = none) : (waPoint rec ev a b st).2.2 = none := by
  simp [waPoint, ha, hb, waRec, markSrc, recIf, waFinish]

theorem swPoint_silent (rec : Rec) (ev : Ev) (a b : Op) (st : BinSt)
    (ha : (rec ev a).2.2 = none) (hb : (rec ev b).2.2 = none) : (swPoint rec ev a b st).2.2 = none := by
  simp [swPoint, ha, hb, setRa, setRb, markSrc, recIf, swFinish]

theorem waStep_silent (rec : Rec) (ev : Ev) (c : Nat) (hf : ev.foreign c = true) (a b : Op) (st : BinSt)
    (ha : (rec ev a).2.2 = none) (hb : (rec ev b).2.2 = none) : (waStep rec ev a b st).2.2 = none := by
  cases ev with
  | start _ => simp [Ev.foreign] at hf
  | stop => simp [Ev.foreign] at hf
  | complete i o =>
    cases hph : st.ph <;> simp [waStep, hph]
    exact waPoint_silent _ _ a b st ha hb
  | fire k j =>
    cases hph : st.ph <;> simp [waStep, hph]
    exact waPoint_silent _ _ a b st ha hb

theorem swStep_silent (rec : Rec) (ev : Ev) (c : Nat) (hf : ev.foreign c = true) (a b : Op) (st : BinSt)
    (ha : (rec ev a).2.2 = none) (hb : (rec ev b).2.2 = none) : (swStep rec ev a b st).2.2 = none := by
  cases ev with
  | start _ => simp [Ev.foreign] at hf
  | stop => simp [Ev.foreign] at hf
  | complete i o =>
    cases hph : st.ph <;> simp [swStep, hph]
    exact swPoint_silent _ _ a b st ha hb
  | fire k j =>
    cases hph : st.ph <;> simp [swStep, hph]
    exact swPoint_silent _ _ a b st ha hb

theorem seqStep_silent (rec : Rec) (ev : Ev) (c : Nat) (hf : ev.foreign c = true) (k : BinKind) (a b : Op)
    (st : BinSt) (ha : (rec ev a).2.2 = none) (hb : (rec ev b).2.2 = none) :
    (seqStep rec ev k a b st).2.2 = none := by
  cases ev <;> simp [Ev.foreign] at hf
  · unfold seqStep; split <;> simp_all [seqAfterFirst, seqSecond]
  · unfold seqStep; split <;> simp_all [seqAfterFirst, seqSecond]

/-- finally with a hopping completion sender: whatever the source does on a foreign event, the
    completion sender only gets STARTED there (which enqueues), so nothing is signalled -/
theorem finStep_hopper_silent (rec : Rec) (ev : Ev) (c : Nat) (hf : ev.foreign c = true) (a b : Op)
    (st : BinSt) (hb : (rec ev b).2.2 = none) (hs : ∀ env, (rec (.start env) b).2.2 = none) :
    (seqStep rec ev .fin a b st).2.2 = none := by
  cases ev <;> simp [Ev.foreign] at hf
  · unfold seqStep; split <;> simp_all [seqAfterFirst, seqSecond, BinKind.takes]
    all_goals (split <;> simp_all)
  · unfold seqStep; split <;> simp_all [seqAfterFirst, seqSecond, BinKind.takes]
    all_goals (split <;> simp_all)

theorem hopper_start_silent (c : Nat) (fuel : Nat) (env : Env) (op : Op) (h : hopper c op.skel = true) :
    (deliver specs fuel (.start env) op).2.2 = none := by
  cases op <;> simp [Op.skel, hopper] at h
  rename_i k x ph env'
  obtain ⟨hk, hx⟩ := h
  cases k <;> simp at hk
  cases x <;> simp [Op.skel] at hx
  rename_i s j ph2 ss
  cases s <;> simp at hx
  rename_i k'
  cases fuel with
  | zero => rfl
  | succ n =>
    have hs : ∀ e', (deliver specs n (.start e') (.sched (.man k') j ph2 ss)).2.2 = none := by
      intro e'
      cases hh : (deliver specs n (.start e') (.sched (.man k') j ph2 ss)).2.2 with
      | none => rfl
      | some o => have := sched_signal specs n _ k' j ph2 ss o hh; cases this
    simp only [deliver, unStep]
    split <;> first | rfl | simp_all [unWrap]

theorem hopper_affOk (c : Nat) (x : Expr) (h : hopper c x = true) : affOk c x = true := by
  cases x <;> simp [hopper] at h
  rename_i k y
  obtain ⟨_, hy⟩ := h
  cases y <;> try (simp at hy)
  rename_i s j
  cases s <;> try (simp at hy)
  simp [affOk, hy]

/-- **an operation whose skeleton passes `affOk c` signals nothing on a foreign event** -/
theorem foreign_silent (c : Nat) (fuel : Nat) : ∀ (ev : Ev) (op : Op), ev.foreign c = true →
    affOk c op.skel = true → (deliver specs fuel ev op).2.2 = none := by
  induction fuel with
  | zero => intro ev op _ _; rfl
  | succ n ih =>
    intro ev op hf hok
    cases op with
    | const k ph => cases ev <;> simp [Ev.foreign] at hf <;> cases ph <;> simp [deliver, constStep]
    | leaf i ph => simp [Op.skel, affOk] at hok
    | sleaf i ph => cases ev <;> simp [Ev.foreign] at hf <;> cases ph <;> simp [deliver, sleafStep]
    | never ph => cases ev <;> simp [Ev.foreign] at hf <;> cases ph <;> simp [deliver, neverStep]
    | sched s j ph ss =>
      cases s with
      | inl => cases ev <;> simp [Ev.foreign] at hf <;> cases ph <;> simp [deliver, schedStep]
      | man k =>
        simp [Op.skel, affOk] at hok
        subst hok
        cases hh : (deliver specs (n+1) ev (.sched (.man k) j ph ss)).2.2 with
        | none => rfl
        | some o =>
          have := sched_signal specs (n+1) ev k j ph ss o hh
          subst this
          simp [Ev.foreign] at hf
    | un k x ph env =>
      simp only [deliver]
      exact unStep_silent _ ev c hf k x ph env (ih ev x hf (by simpa [Op.skel, affOk] using hok))
    | bin k a b st =>
      simp only [deliver, binStep]
      simp only [Op.skel, affOk, Bool.or_eq_true, Bool.and_eq_true] at hok
      rcases hok with ⟨h1, h2⟩ | ⟨hk, hh⟩
      · have ha := ih ev a hf h1
        have hb := ih ev b hf h2
        split
        · exact waStep_silent _ ev c hf a b st ha hb
        · exact swStep_silent _ ev c hf a b st ha hb
        · exact seqStep_silent _ ev c hf k a b st ha hb
      · cases k <;> simp at hk
        have hb := ih ev b hf (hopper_affOk c _ hh)
        exact finStep_hopper_silent _ ev c hf a b st hb (fun env => hopper_start_silent specs c n env b hh)

/-! ### D. sends_done: the never-done invariant -/

/-- SEMANTIC sends_done on a skeleton: as declared, except that dematerialize(materialize(e)) can
    send done iff e can -/
def sdSem : Expr → Bool
  | .const k => (match k with | .justDone => true | _ => false)
  | .leaf _ => true
  | .sleaf _ => false
  | .never => true
  | .sched _ _ => true
  | .schedCur _ => true
  | .wsa _ _ _ => true
  | .un k c =>
    match k with
    | .erase => true
    | .doneAsOpt _ => false
    | _ => sdSem c
  | .bin k a b =>
    match k with
    | .whenAll => true
    | .stopWhen => true
    | _ => sdSem a || sdSem b

/-- the saved result of a finally node is not done when its source cannot send done -/
def ND : Op → Prop
  | .un _ c _ _ => ND c
  | .bin k a b st => ND a ∧ ND b ∧ (k = .fin → sdSem a.skel = false → st.ra.getD (.error 0) ≠ .done)
  | _ => True

def RecND (rec : Rec) : Prop :=
  ∀ ev x, ND x → ND (rec ev x).1 ∧ (sdSem x.skel = false → (rec ev x).2.2 ≠ some .done)

theorem Fn.app_ne_done (f : Fn) (v : Nat) : f.app v ≠ .done := by
  cases f <;> simp [Fn.app]
  split <;> simp

theorem recIf_ND {rec : Rec} (h : RecND rec) (c : Bool) (ev : Ev) (x : Op) (hx : ND x) :
    ND (recIf rec c ev x).1 := by
  unfold recIf; split
  · exact (h _ _ hx).1
  · exact hx

theorem unStep_ND {rec : Rec} (h : RecND rec) (hs : RecSkel rec) (ev : Ev) (k : UnKind) (c : Op) (ph : Phase)
    (env : Env) (hc : ND c) :
    ND (unStep rec ev k c ph env).1 ∧
      (sdSem (.un k c.skel) = false → (unStep rec ev k c ph env).2.2 ≠ some .done) := by
  have wrap : ∀ (env' : Env) (e' : Ev), ND (unWrap k env' (rec e' c)).1 ∧
      (sdSem (.un k c.skel) = false → (unWrap k env' (rec e' c)).2.2 ≠ some .done) := by
    intro env' e'
    have hr := h e' c hc
    unfold unWrap
    split
    · rename_i o ho
      refine ⟨hr.1, ?_⟩
      intro hsd
      cases k with
      | thenF f =>
        simp only [sdSem] at hsd
        have := hr.2 hsd
        cases o <;> simp_all [UnKind.map, Fn.app_ne_done]
      | doneAsOpt d => cases o <;> simp [UnKind.map]
      | erase => simp [sdSem] at hsd
      | unstoppable => simp only [sdSem] at hsd; have := hr.2 hsd; cases o <;> simp_all [UnKind.map]
      | withSched s => simp only [sdSem] at hsd; have := hr.2 hsd; cases o <;> simp_all [UnKind.map]
      | matDemat => simp only [sdSem] at hsd; have := hr.2 hsd; cases o <;> simp_all [UnKind.map]
    · exact ⟨hr.1, by simp⟩
  unfold unStep
  split
  · exact wrap _ _
  · split
    · exact wrap _ _
    · exact ⟨hc, by simp⟩
  · exact wrap _ _
  · exact wrap _ _
  · exact ⟨hc, by simp⟩

theorem waStep_ND {rec : Rec} (h : RecND rec) (ev : Ev) (a b : Op) (st : BinSt) (ha : ND a) (hb : ND b) :
    ND (waStep rec ev a b st).1 := by
  have fin : ∀ (a' b' : Op) (st' : BinSt) (outs : List Out) (f : Bool), ND a' → ND b' →
      ND (waFinish a' b' st' outs f).1 := by
    intro a' b' st' outs f h1 h2
    unfold waFinish; split <;> exact ⟨h1, h2, by simp⟩
  unfold waStep
  split
  · exact fin _ _ _ _ _ (recIf_ND h _ _ _ (h _ _ ha).1) (h _ _ hb).1
  · unfold waStop; split
    · exact ⟨ha, hb, by simp⟩
    · exact fin _ _ _ _ _ (recIf_ND h _ _ _ ha) (recIf_ND h _ _ _ hb)
  · exact fin _ _ _ _ _ (recIf_ND h _ _ _ (h _ _ ha).1) (recIf_ND h _ _ _ (recIf_ND h _ _ _ hb))
  · exact fin _ _ _ _ _ (recIf_ND h _ _ _ (h _ _ ha).1) (recIf_ND h _ _ _ (recIf_ND h _ _ _ hb))
  · exact ⟨ha, hb, by simp⟩

theorem swStep_ND {rec : Rec} (h : RecND rec) (ev : Ev) (a b : Op) (st : BinSt) (ha : ND a) (hb : ND b) :
    ND (swStep rec ev a b st).1 := by
  have fin : ∀ (a' b' : Op) (st' : BinSt) (outs : List Out) (f : Bool), ND a' → ND b' →
      ND (swFinish a' b' st' outs f).1 := by
    intro a' b' st' outs f h1 h2
    unfold swFinish; split <;> exact ⟨h1, h2, by simp⟩
  unfold swStep
  split
  · exact fin _ _ _ _ _ (recIf_ND h _ _ _ (h _ _ ha).1) (h _ _ hb).1
  · unfold swStop; split
    · exact ⟨ha, hb, by simp⟩
    · exact fin _ _ _ _ _ (recIf_ND h _ _ _ ha) (recIf_ND h _ _ _ hb)
  · exact fin _ _ _ _ _ (recIf_ND h _ _ _ (h _ _ ha).1) (recIf_ND h _ _ _ (recIf_ND h _ _ _ hb))
  · exact fin _ _ _ _ _ (recIf_ND h _ _ _ (h _ _ ha).1) (recIf_ND h _ _ _ (recIf_ND h _ _ _ hb))
  · exact ⟨ha, hb, by simp⟩

theorem finResult_ne_done (saved : Option Outcome) (ob : Outcome) (h1 : saved.getD (.error 0) ≠ .done)
    (h2 : ob ≠ .done) : finResult saved ob ≠ .done := by
  cases ob <;> simp_all [finResult]

/-- the sequential nodes: ND is kept, and a node that cannot send done does not signal done -/
theorem seqStep_ND {rec : Rec} (h : RecND rec) (hs : RecSkel rec) (ev : Ev) (k : BinKind) (a b : Op)
    (st : BinSt) (hk1 : k ≠ .whenAll) (hk2 : k ≠ .stopWhen)
    (hn : ND (.bin k a b st)) :
    ND (seqStep rec ev k a b st).1 ∧
      (sdSem (.bin k a.skel b.skel) = false → (seqStep rec ev k a b st).2.2 ≠ some .done) := by
  obtain ⟨ha, hb, hra⟩ := hn
  have hsd : sdSem (.bin k a.skel b.skel) = false → sdSem a.skel = false ∧ sdSem b.skel = false := by
    intro hh; cases k <;> simp_all [sdSem]
  have first : ∀ (env : Env) (e' : Ev),
      ND (seqAfterFirst rec k b st env (rec e' a)).1 ∧
      (sdSem (.bin k a.skel b.skel) = false → (seqAfterFirst rec k b st env (rec e' a)).2.2 ≠ some .done) := by
    intro env e'
    have hr := h e' a ha
    have hsk := hs e' a
    unfold seqAfterFirst
    split
    · refine ⟨⟨hr.1, hb, ?_⟩, by simp⟩
      intro hk hsa; rw [hsk] at hsa; exact hra hk hsa
    · rename_i o ho
      split
      · dsimp only
        have hrb := h (.start env) b hb
        split
        · rename_i ob hob
          refine ⟨⟨hr.1, hrb.1, ?_⟩, ?_⟩
          · intro hk hsa; rw [hsk] at hsa
            have := hr.2 hsa
            simp only [Option.getD_some]
            intro hd; rw [hd] at ho; exact this ho
          · intro hh
            obtain ⟨h1, h2⟩ := hsd hh
            have ho' : o ≠ .done := by intro hd; rw [hd] at ho; exact hr.2 h1 ho
            have hob' : ob ≠ .done := by intro hd; rw [hd] at hob; exact hrb.2 h2 hob
            cases k <;> simp_all [BinKind.finish]
            exact finResult_ne_done _ _ (by simpa using ho') hob'
        · refine ⟨⟨hr.1, hrb.1, ?_⟩, by simp⟩
          intro hk hsa; rw [hsk] at hsa
          have := hr.2 hsa
          simp only [Option.getD_some]
          intro hd; rw [hd] at ho; exact this ho
      · refine ⟨⟨hr.1, hb, ?_⟩, ?_⟩
        · intro hk hsa; rw [hsk] at hsa; exact hra hk hsa
        · intro hh
          obtain ⟨h1, _⟩ := hsd hh
          intro hd
          simp only [Option.some.injEq] at hd
          rw [hd] at ho; exact hr.2 h1 ho
  have second : ∀ (env : Env) (e' : Ev),
      ND (seqSecond k a st env (rec e' b)).1 ∧
      (sdSem (.bin k a.skel b.skel) = false → (seqSecond k a st env (rec e' b)).2.2 ≠ some .done) := by
    intro env e'
    have hr := h e' b hb
    unfold seqSecond
    split
    · rename_i ob hob
      refine ⟨⟨ha, hr.1, hra⟩, ?_⟩
      intro hh
      obtain ⟨h1, h2⟩ := hsd hh
      have hob' : ob ≠ .done := by intro hd; rw [hd] at hob; exact hr.2 h2 hob
      cases k <;> simp_all [BinKind.finish]
      exact finResult_ne_done _ _ hra hob'
    · exact ⟨⟨ha, hr.1, hra⟩, by simp⟩
  unfold seqStep
  split
  · exact first _ _
  · exact first _ _
  · exact first _ _
  · exact first _ _
  · exact second _ _
  · exact second _ _
  · exact second _ _
  · exact ⟨⟨ha, hb, hra⟩, by simp⟩

theorem nd_deliver (fuel : Nat) : RecND (deliver specs fuel) := by
  induction fuel with
  | zero => intro ev x hx; exact ⟨hx, by simp [deliver]⟩
  | succ n ih =>
    intro ev op hn
    cases op with
    | const k ph =>
      simp only [deliver, constStep]
      split
      · refine ⟨trivial, ?_⟩
        cases k <;> simp [Op.skel, sdSem, ConstKind.outcome]
      · exact ⟨trivial, by simp⟩
    | leaf i ph =>
      refine ⟨?_, by simp [Op.skel, sdSem]⟩
      have := skel_deliver specs (n+1) ev (.leaf i ph)
      generalize (deliver specs (n+1) ev (.leaf i ph)).1 = x at this
      cases x <;> simp [Op.skel] at this
      trivial
    | sleaf i ph =>
      simp only [deliver, sleafStep]
      split <;> exact ⟨trivial, by simp⟩
    | never ph => 
      refine ⟨?_, by simp [Op.skel, sdSem]⟩
      have := skel_deliver specs (n+1) ev (.never ph)
      generalize (deliver specs (n+1) ev (.never ph)).1 = x at this
      cases x <;> simp [Op.skel] at this
      trivial
    | sched s j ph ss =>
      refine ⟨?_, by simp [Op.skel, sdSem]⟩
      obtain ⟨ph', ss', h⟩ := sched_shape specs (n+1) ev s j ph ss
      rw [h]; trivial
    | un k c ph env =>
      simp only [deliver]
      exact unStep_ND ih (skel_deliver specs n) ev k c ph env hn
    | bin k a b st =>
      simp only [deliver, binStep]
      split
      · exact ⟨waStep_ND ih ev a b st hn.1 hn.2.1, by simp [Op.skel, sdSem]⟩
      · exact ⟨swStep_ND ih ev a b st hn.1 hn.2.1, by simp [Op.skel, sdSem]⟩
      · rename_i h1 h2
        exact seqStep_ND ih (skel_deliver specs n) ev k a b st (by intro hh; exact h1 hh) (by intro hh; exact h2 hh) hn

/-! ### E. Synchronous completion: `blocking ≤ always` -/

/-- `always_inline` or `always`: the receiver is called before start() returns -/
def BlockingKind.sync (b : BlockingKind) : Bool := b.rank ≤ 1

theorem BlockingKind.max_sync (a b : BlockingKind) : (a.max b).sync = (a.sync && b.sync) := by
  cases a <;> cases b <;> rfl

theorem BlockingKind.min_maybe_sync (b : BlockingKind) : (b.min .maybe).sync = b.sync := by
  cases b <;> rfl

theorem waStart_signals (rec : Rec) (a b : Op) (env0 : Env)
    (ha : ∀ env, ((rec (.start env) a).2.2).isSome = true) (hb : ∀ env, ((rec (.start env) b).2.2).isSome = true) :
    ((waStart rec a b BinSt.init env0).2.2).isSome = true := by
  simp only [waStart]
  generalize hra : rec (Ev.start _) a = ra
  have hoa : (ra.2.2).isSome = true := by rw [← hra]; exact ha _
  obtain ⟨ra1, raouts, rasig⟩ := ra
  cases rasig with
  | none => simp at hoa
  | some oa =>
    generalize hrb : rec (Ev.start _) b = rb
    have hob : (rb.2.2).isSome = true := by rw [← hrb]; exact hb _
    obtain ⟨rb1, rbouts, rbsig⟩ := rb
    cases rbsig with
    | none => simp at hob
    | some ob =>
      obtain ⟨s0, sb⟩ := env0
      cases oa <;> cases ob <;> cases s0 <;>
        simp [waRec, waRecord, markSrc, recIf, waFinish, BinSt.init]

theorem swStart_signals (rec : Rec) (a b : Op) (env0 : Env)
    (ha : ∀ env, ((rec (.start env) a).2.2).isSome = true) (hb : ∀ env, ((rec (.start env) b).2.2).isSome = true) :
    ((swStart rec a b BinSt.init env0).2.2).isSome = true := by
  simp only [swStart]
  generalize hra : rec (Ev.start _) a = ra
  have hoa : (ra.2.2).isSome = true := by rw [← hra]; exact ha _
  obtain ⟨ra1, raouts, rasig⟩ := ra
  cases rasig with
  | none => simp at hoa
  | some oa =>
    generalize hrb : rec (Ev.start _) b = rb
    have hob : (rb.2.2).isSome = true := by rw [← hrb]; exact hb _
    obtain ⟨rb1, rbouts, rbsig⟩ := rb
    cases rbsig with
    | none => simp at hob
    | some ob =>
      simp [setRa, setRb, markSrc, recIf, swFinish, BinSt.init]

theorem seqStart_signals (rec : Rec) (k : BinKind) (a b : Op) (env0 : Env)
    (ha : ((rec (.start env0) a).2.2).isSome = true) (hb : ∀ env, ((rec (.start env) b).2.2).isSome = true) :
    ((seqStep rec (.start env0) k a b BinSt.init).2.2).isSome = true := by
  simp only [seqStep, BinSt.init, seqAfterFirst]
  cases hra : (rec (.start env0) a).2.2 with
  | none => simp [hra] at ha
  | some oa =>
    simp only []
    split
    · have := hb env0
      cases hrb : (rec (.start env0) b).2.2 with
      | none => simp [hrb] at this
      | some ob => simp
    · simp

theorem uns_sched_inl_start (n : Nat) (env e0 : Env) (j : Nat) :
    (deliver specs (n+2) (.start env) (.un .unstoppable (.sched .inl j .idle false) .idle e0)).2.2
      = some (.value 0) := by
  simp [deliver, unStep, unWrap, schedStep, UnKind.childEnv, UnKind.map]

/-- **start() of an expression whose declared blocking kind is `always_inline` or `always`
    delivers the completion signal while the `start` event is being processed** -/
theorem start_signals (e : Expr) : ∀ (cur : Sched) (env : Env) (fuel : Nat), (blocking e).sync = true →
    (connect cur e).height < fuel →
    ((deliver specs fuel (.start env) (connect cur e)).2.2).isSome = true := by
  induction e with
  | const k =>
    intro cur env fuel _ hf
    cases fuel with
    | zero => omega
    | succ n => simp [connect, deliver, constStep]
  | leaf i => intro cur env fuel h; simp [blocking, BlockingKind.sync, BlockingKind.rank] at h
  | sleaf i =>
    intro cur env fuel _ hf
    cases fuel with
    | zero => omega
    | succ n => simp [connect, deliver, sleafStep]
  | never => intro cur env fuel h; simp [blocking, BlockingKind.sync, BlockingKind.rank] at h
  | sched s j =>
    intro cur env fuel h hf
    cases s with
    | man k => simp [blocking, Sched.blocking, BlockingKind.sync, BlockingKind.rank] at h
    | inl =>
      cases fuel with
      | zero => omega
      | succ n => simp [connect, deliver, schedStep]
  | schedCur j => intro cur env fuel h; simp [blocking, BlockingKind.sync, BlockingKind.rank] at h
  | wsa s j c ih =>
    intro cur env fuel h hf
    simp only [blocking, BlockingKind.max_sync, Bool.and_eq_true] at h
    obtain ⟨hc, hs⟩ := h
    cases s with
    | man k => simp [Sched.blocking, BlockingKind.sync, BlockingKind.rank] at hs
    | inl =>
      simp only [connect, Op.height] at hf
      cases fuel with
      | zero => omega
      | succ n =>
        cases n with
        | zero => omega
        | succ m =>
          cases m with
          | zero => omega
          | succ m' =>
            have hha : (connect cur c).height < m' + 2 := by omega
            simp only [connect, deliver, binStep]
            apply seqStart_signals
            · exact ih cur env (m'+2) hc hha
            · intro env'
              rw [uns_sched_inl_start]; rfl
  | un k c ih =>
    intro cur env fuel h hf
    have hc : (blocking c).sync = true := by
      cases k with
      | erase => simp [blocking, BlockingKind.sync, BlockingKind.rank] at h
      | doneAsOpt d =>
        have hm : (BlockingKind.alwaysInline.min .maybe).sync = true := rfl
        simp only [blocking, BlockingKind.max_sync, hm, Bool.and_true] at h
        exact h
      | thenF f => simpa [blocking] using h
      | unstoppable => simpa [blocking] using h
      | withSched s => simpa [blocking] using h
      | matDemat => simpa [blocking] using h
    cases fuel with
    | zero => omega
    | succ n =>
      simp only [connect, Op.height] at hf
      have := ih (k.childSched cur) (k.childEnv env) n hc (by omega)
      simp only [connect, deliver, unStep, unWrap]
      cases hr : (deliver specs n (Ev.start (k.childEnv env)) (connect (k.childSched cur) c)).2.2 with
      | none => simp [hr] at this
      | some o => simp
  | bin k a b iha ihb =>
    intro cur env fuel h hf
    have hab : (blocking a).sync = true ∧ (blocking b).sync = true := by
      cases k <;>
        simpa [blocking, BlockingKind.max_sync, BlockingKind.min_maybe_sync] using h
    cases fuel with
    | zero => omega
    | succ n =>
      simp only [connect, Op.height] at hf
      have ha := fun env' => iha cur env' n hab.1 (by omega)
      have hb := fun env' => ihb cur env' n hab.2 (by omega)
      cases k with
      | whenAll => simp only [connect, deliver, binStep, waStep, BinSt.init]; exact waStart_signals _ _ _ _ ha hb
      | stopWhen => simp only [connect, deliver, binStep, swStep, BinSt.init]; exact swStart_signals _ _ _ _ ha hb
      | letValue => simp only [connect, deliver, binStep]; exact seqStart_signals _ _ _ _ _ (ha env) hb
      | seq => simp only [connect, deliver, binStep]; exact seqStart_signals _ _ _ _ _ (ha env) hb
      | fin => simp only [connect, deliver, binStep]; exact seqStart_signals _ _ _ _ _ (ha env) hb

/-! ### F. `on`: nothing of the child happens before the scheduler's context runs the item -/

/-- `on (man c) j e` whose schedule operation has not completed yet -/
def OnWaiting (c j : Nat) (op : Op) : Prop :=
  ∃ ph ss b st, op = .bin .seq (.sched (.man c) j ph ss) b st ∧ st.second = false

theorem sched_outs (n : Nat) (ev : Ev) (c j : Nat) (ph : Phase) (ss : Bool) :
    ∀ o ∈ (deliver specs (n+1) ev (.sched (.man c) j ph ss)).2.1, o = .enq c j := by
  simp only [deliver, schedStep]
  split
  · simp
  · simp
  · split <;> simp
  · simp

theorem on_waiting_step (c j n : Nat) (ev : Ev) (op : Op) (h : OnWaiting c j op) (hev : ev ≠ .fire c j) :
    OnWaiting c j (deliver specs (n+2) ev op).1 ∧
    (∀ o ∈ (deliver specs (n+2) ev op).2.1, o = .enq c j) ∧
    (deliver specs (n+2) ev op).2.2 = none := by
  obtain ⟨ph, ss, b, st, rfl, hsec⟩ := h
  have first : ∀ (env : Env) (e' : Ev), e' ≠ .fire c j →
      OnWaiting c j (seqAfterFirst (deliver specs (n+1)) .seq b st env (deliver specs (n+1) e' (.sched (.man c) j ph ss))).1 ∧
      (∀ o ∈ (seqAfterFirst (deliver specs (n+1)) .seq b st env (deliver specs (n+1) e' (.sched (.man c) j ph ss))).2.1, o = .enq c j) ∧
      (seqAfterFirst (deliver specs (n+1)) .seq b st env (deliver specs (n+1) e' (.sched (.man c) j ph ss))).2.2 = none := by
    intro env e' he'
    have hsig : (deliver specs (n+1) e' (.sched (.man c) j ph ss)).2.2 = none := by
      cases hh : (deliver specs (n+1) e' (.sched (.man c) j ph ss)).2.2 with
      | none => rfl
      | some o => exact (he' (sched_signal specs (n+1) e' c j ph ss o hh)).elim
    obtain ⟨ph', ss', hshape⟩ := sched_shape specs (n+1) e' (.man c) j ph ss
    have houts := sched_outs specs n e' c j ph ss
    unfold seqAfterFirst
    simp only [hsig, hshape]
    exact ⟨⟨ph', ss', b, _, rfl, hsec⟩, houts, by first | rfl | trivial⟩
  have idle : OnWaiting c j (Op.bin .seq (.sched (.man c) j ph ss) b st) := ⟨ph, ss, b, st, rfl, hsec⟩
  simp only [deliver, binStep]
  cases hph : st.ph <;> cases ev <;> simp only [seqStep, hph, hsec]
  all_goals first
    | exact first _ _ hev
    | exact first _ _ (by simp)
    | exact ⟨idle, by simp, by first | rfl | trivial⟩

/-! ### G. From internal to external events -/

/-- the internal event an external event is turned into (if it is applicable) -/
def XEv.Matches : XEv → Ev → Prop
  | .start _, ev => ∃ env, ev = .start env
  | .stop _, ev => ev = .stop
  | .complete i o _, ev => ev = .complete i o
  | .run k _, ev => ∃ j, ev = .fire k j

/-- one external event either is ignored, or delivers exactly one matching internal event to the
    root with fuel `height + 1` -/
theorem step_spec (st : St) (x : XEv) :
    (step specs st x).2.ev = x ∧ (step specs st x).2.ctx = x.ctx ∧
    (((step specs st x).1.op = st.op ∧ (step specs st x).2.outs = [] ∧ (step specs st x).2.sig = none) ∨
     (∃ ev, x.Matches ev ∧
        (step specs st x).1.op = (deliver specs (st.op.height + 1) ev st.op).1 ∧
        (step specs st x).2.outs = (deliver specs (st.op.height + 1) ev st.op).2.1 ∧
        (step specs st x).2.sig = (deliver specs (st.op.height + 1) ev st.op).2.2)) := by
  cases x with
  | start k =>
    simp only [step]
    split
    · exact ⟨rfl, rfl, .inl ⟨rfl, rfl, rfl⟩⟩
    · exact ⟨rfl, rfl, .inr ⟨_, ⟨_, rfl⟩, rfl, rfl, rfl⟩⟩
  | stop k =>
    simp only [step]
    split
    · exact ⟨rfl, rfl, .inl ⟨rfl, rfl, rfl⟩⟩
    · split
      · exact ⟨rfl, rfl, .inl ⟨rfl, rfl, rfl⟩⟩
      · exact ⟨rfl, rfl, .inr ⟨_, rfl, rfl, rfl, rfl⟩⟩
  | complete i o k =>
    simp only [step]
    split
    · exact ⟨rfl, rfl, .inr ⟨_, rfl, rfl, rfl, rfl⟩⟩
    · exact ⟨rfl, rfl, .inl ⟨rfl, rfl, rfl⟩⟩
  | run k last =>
    simp only [step]
    split
    · exact ⟨rfl, rfl, .inl ⟨rfl, rfl, rfl⟩⟩
    · exact ⟨rfl, rfl, .inr ⟨_, ⟨_, rfl⟩, rfl, rfl, rfl⟩⟩

/-- induction principle for runs: an invariant `I` of the operation tree kept by every internal
    event that matches an admissible (`A`) external event, and a property `P` of what each such
    event shows -/
theorem runX_induct (I : Op → Prop) (A : XEv → Prop) (P : XEv → List Out → Option Outcome → Prop)
    (hidle : ∀ x, P x [] none)
    (hstep : ∀ op x ev, I op → A x → x.Matches ev →
      I (deliver specs (op.height + 1) ev op).1 ∧
      P x (deliver specs (op.height + 1) ev op).2.1 (deliver specs (op.height + 1) ev op).2.2) :
    ∀ (xs : List XEv) (st : St), I st.op → (∀ x ∈ xs, A x) →
      ∀ obs ∈ runX specs st xs, P obs.ev obs.outs obs.sig ∧ obs.ctx = obs.ev.ctx := by
  intro xs
  induction xs with
  | nil => intro st _ _ obs hobs; simp [runX] at hobs
  | cons x xs ih =>
    intro st hI hA obs hobs
    simp only [runX, List.mem_cons] at hobs
    obtain ⟨hev, hctx, hsp⟩ := step_spec specs st x
    have hAx := hA x List.mem_cons_self
    have hA' : ∀ y ∈ xs, A y := fun y hy => hA y (List.mem_cons_of_mem _ hy)
    rcases hsp with ⟨hop, houts, hsig⟩ | ⟨ev, hm, hop, houts, hsig⟩
    · rcases hobs with rfl | hobs
      · rw [hev, houts, hsig, hctx]; exact ⟨hidle x, rfl⟩
      · exact ih _ (by rw [hop]; exact hI) hA' obs hobs
    · have := hstep st.op x ev hI hAx hm
      rcases hobs with rfl | hobs
      · rw [hev, houts, hsig, hctx]; exact ⟨this.2, rfl⟩
      · exact ih _ (by rw [hop]; exact this.1) hA' obs hobs

/-! ### H. Connecting the declared traits with the semantic checks on skeletons -/

/-- the contract of with_scheduler_affinity: `with_scheduler_affinity(e, s)` is called with the
    scheduler of the receiver it will be connected to.  (Only checked where an affinity claim can
    depend on it: `with_query_value(e, get_scheduler, s)` is never declared affine, and below a `wsa`
    wrapper nothing is required — it hops back whatever its child does.) -/
def Scoped (cur : Sched) : Expr → Bool
  | .wsa s _ _ => s == cur
  | .un _ e => Scoped cur e
  | .bin _ a b => Scoped cur a && Scoped cur b
  | _ => true

theorem affOk_connect (c : Nat) (e : Expr) :
    affine e = true → Scoped (.man c) e = true → affOk c (connect (.man c) e).skel = true := by
  induction e with
  | const k => intro _ _; rfl
  | leaf i => intro h; simp [affine] at h
  | sleaf i => intro h; simp [affine] at h
  | never => intro _ _; rfl
  | sched s j =>
    intro h _
    cases s with
    | inl => rfl
    | man k => simp [affine, Sched.affine] at h
  | schedCur j => intro _ _; simp [connect, Op.skel, affOk]
  | wsa s j x _ =>
    intro _ hs
    simp only [Scoped, beq_iff_eq] at hs
    subst hs
    simp [connect, Op.skel, affOk, hopper]
  | un k x ih =>
    intro ha hs
    simp only [Scoped] at hs
    cases k with
    | erase => simp [affine] at ha
    | withSched s => simp [affine] at ha
    | thenF f => simpa [connect, Op.skel, affOk, UnKind.childSched] using ih (by simpa [affine] using ha) hs
    | unstoppable => simpa [connect, Op.skel, affOk, UnKind.childSched] using ih (by simpa [affine] using ha) hs
    | matDemat => simpa [connect, Op.skel, affOk, UnKind.childSched] using ih (by simpa [affine] using ha) hs
    | doneAsOpt d => simpa [connect, Op.skel, affOk, UnKind.childSched] using ih (by simpa [affine] using ha) hs
  | bin k a b iha ihb =>
    intro ha hs
    simp only [affine, Bool.and_eq_true] at ha
    simp only [Scoped, Bool.and_eq_true] at hs
    simp [connect, Op.skel, affOk, iha ha.1 hs.1, ihb ha.2 hs.2]

theorem sdSem_connect (e : Expr) : ∀ cur, sdSem (connect cur e).skel = sdSem e := by
  induction e with
  | un k x ih => intro cur; cases k <;> simp [connect, Op.skel, sdSem, ih]
  | bin k a b iha ihb => intro cur; cases k <;> simp [connect, Op.skel, sdSem, iha, ihb]
  | wsa s j x ih => intro cur; simp [connect, Op.skel, sdSem]
  | _ => intro cur; simp [connect, Op.skel, sdSem]

/-- the declared trait is an upper bound of the semantic one: whatever can complete with done
    declares it -/
theorem sdSem_le_sendsDone (e : Expr) : sendsDone e = false → sdSem e = false := by
  induction e with
  | un k x ih => intro h; cases k <;> simp_all [sendsDone, sdSem]
  | bin k a b iha ihb => intro h; cases k <;> simp_all [sendsDone, sdSem]
  | wsa s j x ih => intro h; simp [sendsDone] at h
  | const k => intro h; cases k <;> simp_all [sendsDone, sdSem]
  | _ => intro h; simp_all [sendsDone, sdSem]

theorem ND_connect (e : Expr) : ∀ cur, ND (connect cur e) := by
  induction e with
  | un k x ih => intro cur; exact ih _
  | bin k a b iha ihb => intro cur; exact ⟨iha _, ihb _, by simp [BinSt.init]⟩
  | wsa s j x ih => intro cur; exact ⟨ih _, trivial, by simp [BinSt.init]⟩
  | _ => intro cur; trivial

end Unifex.Ctx
