/-
  Calc/StreamSafetyTake2.lean — take_until keeps the protocol contract: the clauses of `takeStep`
  (next / stop / cleanup / external completions) assembled from the helper lemmas.
-/
import UnifexModel.Calc.StreamSafetyTake

namespace Unifex.Stream
open Unifex.Calc (Outcome Fn)

/-- from the bundle of the final intermediate state to the node's contract -/
theorem post_of_tuok (call : Call) (a t : Op) (st : TakeSt) (y : TU) (ph0 : Ph) (hy : TUOK ph0 y)
    (h1 : ph0 = .nexting → st.ph = .nexting ∨ ∃ s, call = .next s)
    (h2 : ph0 = .cleaning → st.ph = .cleaning ∨ call = .cleanup)
    (h3 : ph0 = st.ph ∨ ((∃ s, call = .next s) ∧ ph0 = .nexting) ∨ (call = .cleanup ∧ ph0 = .cleaning))
    (hfr : (Op.takeUntil a t st).fresh → call.isEvent → (Op.takeUntil y.s y.t y.st).fresh ∧ y.sig = none) :
    Post call (.takeUntil a t st) y.res := by
  obtain ⟨hga, hgt, hi, htk⟩ := hy
  refine ⟨⟨hga, hgt, hi⟩, ?_, ?_, ?_, by simp [TU.res, Op.mustStop], hfr⟩
  · intro o ho
    simp only [TU.res] at ho
    simp only [Track, ho] at htk
    exact ⟨by simpa [TU.res, Op.ph] using htk.1, by simpa [Op.ph] using h1 htk.2⟩
  · intro e he
    simp only [TU.res] at he
    simp only [Track, he] at htk
    exact ⟨by simpa [TU.res, Op.ph] using htk.1, by simpa [Op.ph] using h2 htk.2⟩
  · intro hn
    simp only [TU.res] at hn
    simp only [Track, hn] at htk
    simp only [TU.res, Op.ph, htk]
    rcases h3 with h | h | h
    · exact Or.inl h
    · exact Or.inr (Or.inl h)
    · exact Or.inr (Or.inr (Or.inl h))

theorem take_stop_post (rec : Rec) (hrec : RecOK rec) (a t : Op) (st : TakeSt)
    (hg : Good (.takeUntil a t st)) : Post .stop (.takeUntil a t st) (takeStep rec .stop a t st) := by
  obtain ⟨hga, hgt, hi⟩ := hg
  by_cases hph : st.ph = .nexting
  · have e : takeStep rec .stop a t st = (tuRequestStop rec ⟨a, t, st, [], none⟩).res := by
      simp [takeStep, hph]
    rw [e]
    refine post_of_tuok .stop a t st _ .nexting
      (tuRequestStop_ok rec hrec .nexting _ ⟨hga, hgt, hi, by simp [Track, hph]⟩)
      (fun _ => Or.inl hph) (by simp) (Or.inl hph.symm) ?_
    intro hf _
    have := hf.1; simp_all
  · have e : takeStep rec .stop a t st = (⟨a, t, st, [], none⟩ : TU).res := by
      cases h : st.ph <;> simp_all [takeStep]
    rw [e]
    refine post_of_tuok .stop a t st _ st.ph ⟨hga, hgt, hi, by simp [Track]⟩
      (fun h => Or.inl h) (fun h => Or.inl h) (Or.inl rfl) (fun hf _ => ⟨hf, rfl⟩)


theorem take_ev_src_ok (rec : Rec) (hrec : RecOK rec) (ev : Call) (hev : ev.isEvent) (hns : ev ≠ .stop)
    (a t : Op) (st : TakeSt) (hga : Good a) (hgt : Good t) (hi : TUInv a t st) :
    TUOK st.ph (takeEvSrc rec ev ⟨a, t, st, [], none⟩) := by
  have hl : Legal ev a := by cases ev <;> simp_all [Legal, Call.isEvent]
  have hnn : ¬ ∃ s, ev = .next s := by rintro ⟨s, rfl⟩; exact hev
  have hnc : ev ≠ .cleanup := by rintro rfl; exact hev
  obtain ⟨g, f1, f2, f3, ms, fr⟩ := hrec ev a hga hl
  simp only [takeEvSrc]
  generalize hr : rec ev a = r at *
  obtain ⟨a', outs, sg⟩ := r
  simp only at g f1 f2 f3 ms fr
  have hm : a'.mustStop = true → st.src = true := fun h => by
    rcases ms h with h1 | h1
    · exact hi.t1 h1
    · exact absurd h1 hns
  cases sg with
  | none =>
    have h3' : a'.ph = a.ph ∨ (a.ph = .nexting ∧ a'.ph = .idle) := by
      rcases f3 rfl with h | ⟨h, _⟩ | ⟨h, _⟩ | h
      · exact Or.inl h
      · exact absurd h hnn
      · exact absurd h hnc
      · exact Or.inr h
    refine ⟨g, hgt, ?_, by simp [Track]⟩
    tu_facts hi
    constructor <;> rcases h3' with h3' | ⟨h3', h3''⟩ <;> simp_all
  | some y =>
    cases y with
    | next o =>
      obtain ⟨h1, h1'⟩ := f1 o rfl
      have han : a.ph = .nexting := by
        rcases h1' with h | h
        · exact h
        · exact absurd h hnn
      have hph := hi.t5 han
      have := tuOnSrcNext_ok rec hrec a a' t st ([] ++ outs) o hi g hgt (Or.inl han) h1 hm hph
      rw [hph]; exact this
    | clean e =>
      obtain ⟨h2, h2'⟩ := f2 e rfl
      have hac : a.ph = .cleaning := by
        rcases h2' with h | h
        · exact h
        · exact absurd h hnc
      have hph : st.ph = .cleaning := by
        rcases hi.t6 (Or.inl hac) with h | h
        · exact h
        · have := (hi.t9 h).1; simp_all
      have := tuJoinSrc_ok a a' t st ([] ++ outs) e hi g hgt hph (by simp [hac]) (Or.inl hac) h2 hm
      rw [hph]; exact this

theorem take_ev_trig_ok (rec : Rec) (hrec : RecOK rec) (ev : Call) (hev : ev.isEvent) (hns : ev ≠ .stop)
    (ph0 : Ph) (x2 : TU) (hx : TUOK ph0 x2) : TUOK ph0 (takeEvTrig rec ev x2) := by
  obtain ⟨a, t, st, outs, sig⟩ := x2
  obtain ⟨hga, hgt, hi, htk⟩ := hx
  simp only at hga hgt hi
  have hl : Legal ev t := by cases ev <;> simp_all [Legal, Call.isEvent]
  have hnn : ¬ ∃ s, ev = .next s := by rintro ⟨s, rfl⟩; exact hev
  have hnc : ev ≠ .cleanup := by rintro rfl; exact hev
  obtain ⟨g, f1, f2, f3, ms, fr⟩ := hrec ev t hgt hl
  simp only [takeEvTrig]
  generalize hr : rec ev t = r at *
  obtain ⟨t', outs', sg⟩ := r
  simp only at g f1 f2 f3 ms fr
  cases sg with
  | none =>
    have h3' : t'.ph = t.ph ∨ (t.ph = .nexting ∧ t'.ph = .idle) := by
      rcases f3 rfl with h | ⟨h, _⟩ | ⟨h, _⟩ | h
      · exact Or.inl h
      · exact absurd h hnn
      · exact absurd h hnc
      · exact Or.inr h
    have hm : t'.mustStop = true → t.mustStop = true := fun h => by
      rcases ms h with h1 | h1
      · exact h1
      · exact absurd h1 hns
    refine ⟨hga, g, ?_, by simpa [Track] using htk⟩
    tu_facts hi
    constructor <;> rcases h3' with h3' | ⟨h3', h3''⟩ <;> simp_all
    all_goals (cases hh : t'.mustStop <;> simp_all)
  | some y =>
    have hts : t.ph ≠ .idle → st.trigStarted = true := fun h => by
      cases hh : st.trigStarted
      · exact absurd (hi.t4 hh).1 h
      · rfl
    cases y with
    | next o =>
      obtain ⟨h1, h1'⟩ := f1 o rfl
      have htn : t.ph = .nexting := by
        rcases h1' with h | h
        · exact h
        · exact absurd h hnn
      have hrdph : st.ready = true → st.ph = .cleaning := fun hrd => by
        cases hp : st.ph with
        | idle => have := hi.t3 (Or.inl hp) hrd; simp_all
        | nexting => have := hi.t3 (Or.inr hp) hrd; simp_all
        | cleaning => rfl
        | cleaned => have := (hi.t9 hp).2; simp_all
      exact tuOnTrigNext_ok rec hrec ph0 a t t' st (outs ++ outs') sig hi hga g (Or.inl htn) h1
        (hts (by simp [htn])) hrdph (by simpa [Track] using htk)
    | clean e =>
      obtain ⟨h2, h2'⟩ := f2 e rfl
      have htc : t.ph = .cleaning := by
        rcases h2' with h | h
        · exact h
        · exact absurd h hnc
      have hph : st.ph = .cleaning := by
        rcases hi.t7 (Or.inl htc) with h | h
        · exact h
        · have := (hi.t9 h).2; simp_all
      have hsn : sig = none := by
        cases sig with
        | none => rfl
        | some z => cases z <;> simp_all [Track]
      subst hsn
      have hp0 : ph0 = .cleaning := by simp_all [Track]
      subst hp0
      have htr : st.trigRunning = false := by
        cases hh : st.trigRunning
        · rfl
        · have := hi.t11 hh; simp_all
      exact tuJoinTrig_ok a t t' st (outs ++ outs') e hi hga g hph (by simp [htc]) (Or.inl htc) h2
        (hts (by simp [htc])) htr


theorem take_event_post (rec : Rec) (hrec : RecOK rec) (ev : Call) (hev : ev.isEvent) (hns : ev ≠ .stop)
    (a t : Op) (st : TakeSt) (hg : Good (.takeUntil a t st))
    (he : takeStep rec ev a t st = (takeEvTrig rec ev (takeEvSrc rec ev ⟨a, t, st, [], none⟩)).res) :
    Post ev (.takeUntil a t st) (takeStep rec ev a t st) := by
  obtain ⟨hga, hgt, hi⟩ := hg
  rw [he]
  refine post_of_tuok ev a t st _ st.ph
    (take_ev_trig_ok rec hrec ev hev hns st.ph _ (take_ev_src_ok rec hrec ev hev hns a t st hga hgt hi))
    (fun h => Or.inl h) (fun h => Or.inl h) (Or.inl rfl) ?_
  intro hf _
  obtain ⟨f1, f2, f3, f4, f5, f6, f7, hfa, hft⟩ := hf
  have hla : Legal ev a := by cases ev <;> simp_all [Legal, Call.isEvent]
  have hlt : Legal ev t := by cases ev <;> simp_all [Legal, Call.isEvent]
  have ha := (hrec ev a hga hla).fr hfa hev
  have ht := (hrec ev t hgt hlt).fr hft hev
  simp only [takeEvSrc, ha.2, takeEvTrig, ht.2]
  exact ⟨⟨f1, f2, f3, f4, f5, f6, f7, ha.1, ht.1⟩, trivial⟩


/-- the helper did not touch the pending signal nor the phase -/
def Quiet (x y : TU) : Prop := y.sig = x.sig ∧ y.st.ph = x.st.ph

theorem quiet_stopTrig (rec : Rec) (x : TU) (h : x.st.ready = false ∨ x.st.trigRunning = false) :
    Quiet x (tuStopTrig rec x) := by
  unfold tuStopTrig
  by_cases htr : x.st.trigRunning = true
  · have hrd : x.st.ready = false := by rcases h with h | h <;> simp_all
    rw [if_pos htr]
    dsimp only
    split
    · rw [if_neg (by simp [hrd])]; exact ⟨rfl, rfl⟩
    · exact ⟨rfl, rfl⟩
  · rw [if_neg htr]; exact ⟨rfl, rfl⟩

theorem quiet_requestStop (rec : Rec) (x : TU) (hs : x.st.srcRunning = false)
    (h : x.st.ready = false ∨ x.st.trigRunning = false) : Quiet x (tuRequestStop rec x) := by
  unfold tuRequestStop
  by_cases hsrc : x.st.src = true
  · rw [if_pos hsrc]; exact ⟨rfl, rfl⟩
  · rw [if_neg hsrc]
    dsimp only
    rw [if_neg (by simp [hs])]
    have := quiet_stopTrig rec { x with st := { x.st with src := true } } h
    exact ⟨this.1, this.2⟩

theorem quiet_onTrigNext (rec : Rec) (x : TU) (hs : x.st.srcRunning = false) (hr : x.st.ready = false) :
    Quiet x (tuOnTrigNext rec x) := by
  unfold tuOnTrigNext
  dsimp only
  rw [if_neg (by simp [hr])]
  have := quiet_requestStop rec { x with st := { x.st with trigRunning := false } } hs (Or.inr rfl)
  exact ⟨this.1, this.2⟩

theorem take_srcStart_ok (rec : Rec) (hrec : RecOK rec) (x3 : TU) (hx : TUOK .nexting x3) (hsig : x3.sig = none)
    (hph : x3.st.ph = .nexting) (hai : x3.s.ph = .idle) (hsr : x3.st.srcRunning = false) :
    TUOK .nexting (takeSrcStart rec x3) := by
  obtain ⟨a, t, st, outs, sig⟩ := x3
  obtain ⟨hga, hgt, hi, htk⟩ := hx
  simp only at hga hgt hi hsig hph hai hsr
  subst hsig
  obtain ⟨g, f1, f2, f3, ms, fr⟩ := hrec (.next st.src) a hga ⟨hai, hi.t1⟩
  simp only [takeSrcStart]
  generalize hr : rec (.next st.src) a = r at *
  obtain ⟨a', outs', sg⟩ := r
  simp only at g f1 f2 f3 ms fr
  have hm : a'.mustStop = true → st.src = true := fun h => by
    rcases ms h with h1 | h1
    · exact hi.t1 h1
    · simp at h1
  cases sg with
  | none =>
    have h3' : a'.ph = .idle ∨ a'.ph = .nexting := by
      rcases f3 rfl with h | ⟨_, h⟩ | ⟨h, _⟩ | ⟨h, _⟩
      · left; rw [h, hai]
      · exact Or.inr h
      · simp at h
      · simp [hai] at h
    refine ⟨g, hgt, ?_, by simp [Track, hph]⟩
    tu_facts hi
    constructor <;> rcases h3' with h3' | h3' <;> simp_all
  | some y =>
    cases y with
    | next o =>
      exact tuOnSrcNext_ok rec hrec a a' t st (outs ++ outs') o hi g hgt (Or.inr hai) (f1 o rfl).1 hm hph
    | clean e =>
      have := (f2 e rfl).2
      simp [hai] at this


theorem take_trigStart_ok (rec : Rec) (hrec : RecOK rec) (a t : Op) (st : TakeSt)
    (hga : Good a) (hgt : Good t) (hi : TUInv a t st) (hph : st.ph = .idle) :
    TUOK .nexting (takeTrigStart rec ⟨a, t, { st with ph := .nexting }, [], none⟩) ∧
    Frame ⟨a, t, { st with ph := .nexting }, [], none⟩ (takeTrigStart rec ⟨a, t, { st with ph := .nexting }, [], none⟩) ∧
    Quiet ⟨a, t, { st with ph := .nexting }, [], none⟩ (takeTrigStart rec ⟨a, t, { st with ph := .nexting }, [], none⟩) := by
  have hsr : st.srcRunning = false := by
    cases h : st.srcRunning
    · rfl
    · have := (hi.t12 h).1; simp_all
  by_cases hts : st.trigStarted = true
  · have e : takeTrigStart rec ⟨a, t, { st with ph := .nexting }, [], none⟩ = ⟨a, t, { st with ph := .nexting }, [], none⟩ := by
      simp [takeTrigStart, hts]
    rw [e]
    refine ⟨⟨hga, hgt, ?_, by simp [Track]⟩, Frame.refl _, ⟨rfl, rfl⟩⟩
    tu_facts hi
    constructor <;> simp_all
  · have hts' : st.trigStarted = false := by simpa using hts
    obtain ⟨ht1, ht2, ht3, ht4⟩ := hi.t4 hts'
    have hrd := ht4 hph
    obtain ⟨g, f1, f2, f3, ms, fr⟩ := hrec (.next st.src) t hgt ⟨ht1, by simp [ht2]⟩
    unfold takeTrigStart
    dsimp only
    rw [if_neg (by simp [hts'])]
    generalize hr : rec (.next st.src) t = r at *
    obtain ⟨t', outs', sg⟩ := r
    simp only at g f1 f2 f3 ms fr
    have hi1 : TUInv a t { st with ph := .nexting, trigStarted := true } := by
      tu_facts hi
      constructor <;> simp_all
    cases sg with
    | none =>
      have h3' : t'.ph = .idle ∨ t'.ph = .nexting := by
        rcases f3 rfl with h | ⟨_, h⟩ | ⟨h, _⟩ | ⟨h, _⟩
        · left; rw [h, ht1]
        · exact Or.inr h
        · simp at h
        · simp [ht1] at h
      refine ⟨⟨hga, g, ?_, by simp [Track]⟩, ⟨rfl, rfl⟩, ⟨rfl, rfl⟩⟩
      tu_facts hi
      constructor <;> rcases h3' with h3' | h3' <;> simp_all
    | some y =>
      cases y with
      | next o =>
        have h1 := (f1 o rfl).1
        refine ⟨?_, ?_, ?_⟩
        · exact tuOnTrigNext_ok rec hrec .nexting a t t' _ ([] ++ outs') none hi1 hga g (Or.inr ht1) h1 rfl
            (by simp [hrd]) (by simp [Track])
        · have := frame_onTrigNext rec ⟨a, t', { st with ph := .nexting, trigStarted := true }, [] ++ outs', none⟩ hsr
          exact ⟨this.1, this.2⟩
        · have := quiet_onTrigNext rec ⟨a, t', { st with ph := .nexting, trigStarted := true }, [] ++ outs', none⟩ hsr hrd
          exact ⟨this.1, this.2⟩
      | clean e =>
        have := (f2 e rfl).2
        simp [ht1] at this

end Unifex.Stream
