/-
  Calc/StreamSafety.lean — the protocol contract of the stream calculus, for ALL stream expressions, ALL
  source scripts and ALL calls (no assumption on fuel).

  `Good op` is the invariant of a state tree (every source protocol-clean, each adaptor's state
  consistent with the phases of its children); `Legal call op` says the parent respects the stream
  protocol (next / cleanup only when nothing is outstanding, stop tokens are sticky); `Post` is what a
  node guarantees in return (signals only in the right phase, the phase afterwards).  `RecOK rec` is
  the contract for an evaluator; each algorithm is proved separately: "if the children keep the
  contract, so does the node" (`leaf_post`, `un_post`, `filter_post`, `stopImm_post`; take_until in
  StreamSafetyTake.lean).
-/
import UnifexModel.Calc.Stream
namespace Unifex.Stream
open Unifex.Calc (Outcome Fn)
variable (specs : Nat → SrcSpec)

/-- protocol cleanliness of one source: no violation recorded, cleanup started exactly when the phase says so -/
def LeafSt.ok (st : LeafSt) : Prop :=
  st.bad = 0 ∧ st.cleanups = (if st.ph = .cleaning ∨ st.ph = .cleaned then 1 else 0)

/-- every source is either cleaned up, or was never touched -/
def Op.settled : Op → Prop
  | .leaf _ st => st.ph = .cleaned ∨ (st.ph = .idle ∧ st.k = 0)
  | .un _ c => c.settled
  | .filter _ c _ => c.settled
  | .stopImm c _ => c.settled
  | .takeUntil a t _ => a.settled ∧ t.settled

/-- nothing below has ever been started -/
def Op.fresh : Op → Prop
  | .leaf _ st => st.ph = .idle ∧ st.k = 0
  | .un _ c => c.fresh
  | .filter _ c _ => c.fresh
  | .stopImm c st => st.ph = .idle ∧ st.s = .notStarted ∧ st.src = false ∧ c.fresh
  | .takeUntil a t st => st.ph = .idle ∧ st.trigStarted = false ∧ st.trigRunning = false ∧ st.srcRunning = false ∧
      st.src = false ∧ st.ready = false ∧ st.joined = false ∧ a.fresh ∧ t.fresh

/-- the node has seen a stop request: every later next() must be called with `stopped = true`
    (stop tokens are sticky) -/
def Op.mustStop : Op → Bool
  | .leaf _ _ => false
  | .un _ c => c.mustStop
  | .filter _ c _ => c.mustStop
  | .stopImm _ st => st.src
  | .takeUntil _ _ _ => false

def SIInv (c : Op) (st : StopImmSt) : Prop :=
  (c.mustStop = true → st.src = true) ∧
  (st.ph = .idle → (st.s = .notStarted ∨ st.s = .completed ∨ st.s = .stopped)) ∧
  (st.ph = .idle → st.s ≠ .stopped → c.ph = .idle) ∧
  (st.s = .notStarted → c.fresh ∧ (st.ph = .idle ∨ st.ph = .cleaned)) ∧
  (st.ph = .nexting ↔ st.s = .active) ∧
  (st.ph = .cleaning → (st.s = .cleanupReq ∨ st.s = .completed)) ∧
  (st.s = .stopped → st.src = true ∧ st.ph = .idle) ∧
  (st.s = .cleanupReq → (st.ph = .cleaning ∨ st.ph = .cleaned)) ∧
  (st.ph = .cleaned → (c.ph = .cleaned ∨ c.fresh)) ∧
  (c.ph = .cleaning → st.ph = .cleaning)

structure TUInv (a t : Op) (st : TakeSt) : Prop where
  t1 : a.mustStop = true → st.src = true
  t2 : st.ph = .idle → a.ph = .idle
  t3 : (st.ph = .idle ∨ st.ph = .nexting) → st.ready = true → t.ph = .idle
  t4 : st.trigStarted = false → t.ph = .idle ∧ t.mustStop = false ∧ st.trigRunning = false ∧ (st.ph = .idle → st.ready = false)
  t5 : a.ph = .nexting → st.ph = .nexting
  t6 : (a.ph = .cleaning ∨ a.ph = .cleaned) → (st.ph = .cleaning ∨ st.ph = .cleaned)
  t7 : (t.ph = .cleaning ∨ t.ph = .cleaned) → (st.ph = .cleaning ∨ st.ph = .cleaned)
  t8 : st.ph ≠ .cleaned → ((st.joined = true ↔ (a.ph = .cleaned ∨ t.ph = .cleaned)) ∧ ¬(a.ph = .cleaned ∧ t.ph = .cleaned))
  t9 : st.ph = .cleaned → a.ph = .cleaned ∧ t.ph = .cleaned
  t11 : st.trigRunning = true → (t.ph = .nexting ∨ t.ph = .idle)
  t12 : st.srcRunning = true → st.ph = .nexting ∧ (a.ph = .nexting ∨ a.ph = .idle)
  t13 : st.ph = .nexting → st.trigStarted = true
  t14 : (st.ph = .idle ∨ st.ph = .nexting) → st.ready = true → st.trigRunning = false
  t16 : t.ph = .nexting → st.trigRunning = true

def Good : Op → Prop
  | .leaf _ st => st.ok
  | .un _ c => Good c
  | .filter _ c s => Good c ∧ (c.mustStop = true → s = true)
  | .stopImm c st => Good c ∧ SIInv c st
  | .takeUntil a t st => Good a ∧ Good t ∧ TUInv a t st

def Call.isEvent : Call → Prop
  | .next _ => False
  | .cleanup => False
  | _ => True

def Legal (c : Call) (op : Op) : Prop :=
  match c with
  | .next s => op.ph = .idle ∧ (op.mustStop = true → s = true)
  | .cleanup => op.ph = .idle
  | _ => True

structure Post (c : Call) (op : Op) (r : Res) : Prop where
  good : Good r.1
  f1 : ∀ o, r.2.2 = some (.next o) → r.1.ph = .idle ∧ (op.ph = .nexting ∨ ∃ s, c = .next s)
  f2 : ∀ e, r.2.2 = some (.clean e) → r.1.ph = .cleaned ∧ (op.ph = .cleaning ∨ c = .cleanup)
  f3 : r.2.2 = none → r.1.ph = op.ph ∨ ((∃ s, c = .next s) ∧ r.1.ph = .nexting) ∨ (c = .cleanup ∧ r.1.ph = .cleaning) ∨
    (op.ph = .nexting ∧ r.1.ph = .idle)   -- (only when the evaluator runs out of fuel inside a re-pull)
  ms : r.1.mustStop = true → op.mustStop = true ∨ c = .stop
  fr : op.fresh → c.isEvent → r.1.fresh ∧ r.2.2 = none

def RecOK (rec : Rec) : Prop := ∀ c op, Good op → Legal c op → Post c op (rec c op)

theorem leaf_post (c : Call) (k : LeafKind) (st : LeafSt) (hg : Good (.leaf k st)) (hl : Legal c (.leaf k st)) :
    Post c (.leaf k st) (leafStep specs c k st) := by
  obtain ⟨hb, hc⟩ := hg
  cases c with
  | next s =>
    have hph : st.ph = .idle := hl.1
    simp only [leafStep, hph]
    cases k.entry specs st.k with
    | inl o => constructor <;> simp_all [Good, LeafSt.ok, Op.ph, Op.mustStop, Op.fresh, Call.isEvent]
    | pend o r =>
      cases s <;> cases r <;> constructor <;> simp_all [Good, LeafSt.ok, Op.ph, Op.mustStop, Op.fresh, Call.isEvent]
  | cleanup =>
    have hph : st.ph = .idle := hl
    simp only [leafStep, hph]
    cases k.clean specs <;> constructor <;> simp_all [Good, LeafSt.ok, Op.ph, Op.mustStop, Op.fresh, Call.isEvent]
  | stop =>
    simp only [leafStep]
    cases hph : st.ph with
    | nexting =>
      simp only
      cases k.entry specs (st.k - 1) with
      | inl o => constructor <;> simp_all [Good, LeafSt.ok, Op.ph, Op.mustStop, Op.fresh, Call.isEvent]
      | pend o r => cases r <;> constructor <;> simp_all [Good, LeafSt.ok, Op.ph, Op.mustStop, Op.fresh, Call.isEvent]
    | _ => constructor <;> simp_all [Good, LeafSt.ok, Op.ph, Op.mustStop, Op.fresh, Call.isEvent]
  | compNext j =>
    simp only [leafStep]
    split
    · rename_i h
      cases k.entry specs (st.k - 1) <;> constructor <;> simp_all [Good, LeafSt.ok, Op.ph, Op.mustStop, Op.fresh, Call.isEvent]
    · constructor <;> simp_all [Good, LeafSt.ok, Op.ph, Op.mustStop, Op.fresh, Call.isEvent]
  | compClean j =>
    simp only [leafStep]
    split
    · constructor <;> simp_all [Good, LeafSt.ok, Op.ph, Op.mustStop, Op.fresh, Call.isEvent]
    · constructor <;> simp_all [Good, LeafSt.ok, Op.ph, Op.mustStop, Op.fresh, Call.isEvent]


theorem un_post (rec : Rec) (hrec : RecOK rec) (c : Call) (k : UnKind) (ch : Op) (hg : Good (.un k ch))
    (hl : Legal c (.un k ch)) : Post c (.un k ch) (unStep rec c k ch) := by
  have hp := hrec c ch hg (by cases c <;> simpa [Legal, Op.ph, Op.mustStop] using hl)
  obtain ⟨g, f1, f2, f3, ms, fr⟩ := hp
  simp only [unStep]
  cases hs : (rec c ch).2.2 with
  | none =>
    exact ⟨g, by simp, by simp, fun _ => by simpa [Op.ph] using f3 hs, by simpa [Op.mustStop] using ms,
      fun hf he => ⟨(fr hf he).1, rfl⟩⟩
  | some sg =>
    have hfr : (Op.un k ch).fresh → c.isEvent → False := fun hf he => by
      have := (fr hf he).2; rw [hs] at this; simp at this
    cases sg with
    | next o =>
      exact ⟨g, fun o' _ => by simpa [Op.ph] using f1 o hs, by simp, by simp, by simpa [Op.mustStop] using ms,
        fun hf he => (hfr hf he).elim⟩
    | clean e =>
      exact ⟨g, by simp, fun e' _ => by simpa [Op.ph] using f2 e hs, by simp,
        by simpa [Op.mustStop] using ms, fun hf he => (hfr hf he).elim⟩

def flagOf (c : Call) (s0 : Bool) : Bool :=
  match c with
  | .next s => s
  | .stop => true
  | _ => s0

theorem filterStep_eq (rec : Rec) (c : Call) (p : Pred) (ch : Op) (s0 : Bool) :
    filterStep rec c p ch s0 = filterAfter rec p (flagOf c s0) (rec c ch) := by
  cases c <;> rfl

theorem filter_post (rec : Rec) (hrec : RecOK rec) (c : Call) (p : Pred) (ch : Op) (s0 : Bool)
    (hg : Good (.filter p ch s0)) (hl : Legal c (.filter p ch s0)) :
    Post c (.filter p ch s0) (filterStep rec c p ch s0) := by
  obtain ⟨hgc, hinv⟩ := hg
  have hlc : Legal c ch := by cases c <;> simpa [Legal, Op.ph, Op.mustStop] using hl
  obtain ⟨g, f1, f2, f3, ms, fr⟩ := hrec c ch hgc hlc
  have hflag : (rec c ch).1.mustStop = true → flagOf c s0 = true := by
    intro h
    rcases ms h with h1 | h1
    · cases c with
      | next s => exact hlc.2 h1
      | stop => rfl
      | cleanup => exact hinv h1
      | compNext i => exact hinv h1
      | compClean i => exact hinv h1
    · subst h1; rfl
  rw [filterStep_eq]
  generalize hr : rec c ch = r at *
  obtain ⟨c', outs, sg⟩ := r
  simp only at g f1 f2 f3 ms hflag fr
  have base : ∀ sg', (sg' = none ↔ sg = none) → (∀ e, sg' = some (.clean e) ↔ sg = some (.clean e)) →
      (∀ o, sg' = some (.next o) → ∃ o', sg = some (.next o')) →
      Post c (.filter p ch s0) (.filter p c' (flagOf c s0), outs, sg') := by
    intro sg' h0 hcl hnx
    refine ⟨⟨g, hflag⟩, ?_, ?_, ?_, by simpa [Op.mustStop] using ms, ?_⟩
    · intro o ho
      obtain ⟨o', ho'⟩ := hnx o ho
      simpa [Op.ph] using f1 o' ho'
    · intro e he
      simpa [Op.ph] using f2 e ((hcl e).1 he)
    · intro hn
      simpa [Op.ph] using f3 (h0.1 hn)
    · intro hf he
      have := fr hf he
      exact ⟨this.1, h0.2 this.2⟩
  cases sg with
  | none => simpa [filterAfter] using base none (by simp) (by simp) (by simp)
  | some x =>
    cases x with
    | clean e => simpa [filterAfter] using base (some (.clean e)) (by simp) (by simp) (by simp)
    | next o =>
      cases o with
      | done => simpa [filterAfter] using base (some (.next .done)) (by simp) (by simp) (by simp)
      | error e => simpa [filterAfter] using base (some (.next (.error e))) (by simp) (by simp) (by simp)
      | value v =>
        cases hp : p.app v with
        | keep => simpa [filterAfter, hp] using base (some (.next (.value v))) (by simp) (by simp) (by simp)
        | throw e => simpa [filterAfter, hp] using base (some (.next (.error e))) (by simp) (by simp) (by simp)
        | drop =>
          have h1 := f1 (.value v) rfl
          have hg2 : Good (.filter p c' (flagOf c s0)) := ⟨g, hflag⟩
          have hl2 : Legal (.next (flagOf c s0)) (.filter p c' (flagOf c s0)) := ⟨by simpa [Op.ph] using h1.1, by
            simpa [Op.mustStop] using hflag⟩
          obtain ⟨g2, f12, f22, f32, ms2, _⟩ := hrec _ _ hg2 hl2
          simp only [filterAfter, hp]
          refine ⟨g2, ?_, ?_, ?_, ?_, ?_⟩
          · intro o ho
            exact ⟨(f12 o ho).1, by simpa [Op.ph] using h1.2⟩
          · intro e he
            have := (f22 e he).2
            simp [Op.ph, h1.1] at this
          · intro hn
            have h3 := f32 hn
            simp only [Op.ph, h1.1] at h3 ⊢
            rcases h3 with h3 | ⟨_, h3⟩ | ⟨h3, _⟩ | ⟨h3, _⟩
            · rcases h1.2 with h4 | ⟨s, h4⟩
              · exact Or.inr (Or.inr (Or.inr ⟨h4, h3⟩))
              · subst h4; left; rw [h3]; exact hlc.1.symm
            · rcases h1.2 with h4 | ⟨s, h4⟩
              · left; rw [h3, h4]
              · exact Or.inr (Or.inl ⟨⟨s, h4⟩, h3⟩)
            · simp at h3
            · simp at h3
          · intro hm
            have := ms2 hm
            simp only [Op.mustStop] at this
            rcases this with h | h
            · exact ms h
            · simp at h
          · intro hf he
            have := (fr hf he).2
            simp at this


theorem fresh_ph {op : Op} (h : op.fresh) : op.ph = .idle := by
  induction op with
  | leaf k st => exact h.1
  | un k c ih => exact ih h
  | filter p c s ih => exact ih h
  | stopImm c st ih => exact h.1
  | takeUntil a t st iha iht => exact h.1

theorem fresh_mustStop {op : Op} (h : op.fresh) : op.mustStop = false := by
  induction op with
  | leaf k st => rfl
  | un k c ih => exact ih h
  | filter p c s ih => exact ih h
  | stopImm c st ih => exact h.2.2.1
  | takeUntil a t st iha iht => rfl

theorem stopImm_event_post (rec : Rec) (hrec : RecOK rec) (ev : Call) (hev : ev.isEvent) (hns : ev ≠ .stop)
    (c : Op) (st : StopImmSt) (hg : Good (.stopImm c st)) :
    Post ev (.stopImm c st) (siOnChild rec (rec ev c).1 st (rec ev c).2.1 (rec ev c).2.2) := by
  obtain ⟨hgc, i1, i2, i3, i4, i5, i6, i7, i8, i9, i10⟩ := hg
  have hl : Legal ev c := by cases ev <;> simp_all [Legal, Call.isEvent]
  have hnn : ¬ ∃ s, ev = .next s := by rintro ⟨s, rfl⟩; exact hev
  have hnc : ev ≠ .cleanup := by rintro rfl; exact hev
  obtain ⟨g, f1, f2, f3, ms, fr⟩ := hrec ev c hgc hl
  generalize hr : rec ev c = r at *
  obtain ⟨c', outs, sg⟩ := r
  simp only at g f1 f2 f3 ms fr
  have hm' : c'.mustStop = true → st.src = true := fun h => by
    rcases ms h with h1 | h1
    · exact i1 h1
    · exact absurd h1 hns
  cases sg with
  | none =>
    have h3 : c'.ph = c.ph ∨ (c.ph = .nexting ∧ c'.ph = .idle) := by
      rcases f3 rfl with h | ⟨h, _⟩ | ⟨h, _⟩ | h
      · exact Or.inl h
      · exact absurd h hnn
      · exact absurd h hnc
      · exact Or.inr h
    simp only [siOnChild]
    refine ⟨⟨g, ?_⟩, by simp, by simp, by simp [Op.ph], fun h => Or.inl h, ?_⟩
    · simp only [SIInv]
      refine ⟨hm', i2, ?_, ?_, i5, i6, i7, i8, ?_, ?_⟩
      · intro h1 h2
        have := i3 h1 h2
        rcases h3 with h | ⟨h, _⟩ <;> simp_all
      · intro h
        exact ⟨(fr (i4 h).1 hev).1, (i4 h).2⟩
      · intro h
        rcases i9 h with h9 | h9
        · rcases h3 with h | ⟨h, _⟩ <;> simp_all
        · exact Or.inr (fr h9 hev).1
      · intro h
        rcases h3 with h' | ⟨_, h'⟩
        · exact i10 (h' ▸ h)
        · simp_all
    · intro hf _
      exact ⟨⟨hf.1, hf.2.1, hf.2.2.1, (fr hf.2.2.2 hev).1⟩, rfl⟩
  | some x =>
    have hnf : ¬ c.fresh := fun h => by have := (fr h hev).2; simp at this
    cases x with
    | next o =>
      obtain ⟨h1, h1'⟩ := f1 o rfl
      have hcn : c.ph = .nexting := by
        rcases h1' with h | h
        · exact h
        · exact absurd h hnn
      have hns' : st.s ≠ .notStarted := fun h => hnf (i4 h).1
      have hnc9 : st.ph ≠ .cleaned := fun h => by
        rcases i9 h with h9 | h9
        · simp_all
        · exact hnf h9
      cases hs : st.s with
      | notStarted => exact absurd hs hns'
      | completed =>
        have hni : st.ph ≠ .idle := fun h => by have := i3 h (by simp [hs]); simp_all
        simp only [siOnChild, hs]
        refine ⟨⟨g, ?_⟩, by simp, by simp, by simp [Op.ph], fun h => Or.inl h, fun hf _ => absurd hf.2.2.2 hnf⟩
        simp only [SIInv]
        exact ⟨hm', by simpa [hs] using i2, fun h _ => absurd h hni, by simp [hs], by simpa [hs] using i5,
          by simpa [hs] using i6, by simp [hs], by simp [hs], fun h => absurd h hnc9, by simp [h1]⟩
      | active =>
        have hn := i5.2 hs
        simp only [siOnChild, hs]
        refine ⟨⟨g, ?_⟩, by simp [Op.ph, hn], by simp, by simp, fun h => Or.inl h, fun hf _ => absurd hf.2.2.2 hnf⟩
        simp only [SIInv]
        exact ⟨hm', by simp, by simp [h1], by simp, by simp, by simp, by simp, by simp, by simp, by simp [h1]⟩
      | stopped =>
        obtain ⟨hsrc, hid⟩ := i7 hs
        simp only [siOnChild, hs]
        refine ⟨⟨g, ?_⟩, by simp, by simp, by simp [Op.ph], fun h => Or.inl h, fun hf _ => absurd hf.2.2.2 hnf⟩
        simp only [SIInv]
        exact ⟨hm', by simp, by simp [h1], by simp, by simp [hid], by simp [hid], by simp, by simp, by simp [hid],
          by simp [h1]⟩
      | cleanupReq =>
        have hcl : st.ph = .cleaning := by
          rcases i8 hs with h | h
          · exact h
          · exact absurd h hnc9
        obtain ⟨g2, f12, f22, f32, ms2, fr2⟩ := hrec .cleanup c' g h1
        generalize hr2 : rec .cleanup c' = r2 at *
        obtain ⟨c2, outs2, sg2⟩ := r2
        simp only at g2 f12 f22 f32 ms2 fr2
        have hm2 : c2.mustStop = true → st.src = true := fun h => by
          rcases ms2 h with h' | h'
          · exact hm' h'
          · simp at h'
        simp only [siOnChild, hs, hr2]
        cases sg2 with
        | none =>
          simp only [siOnClean]
          refine ⟨⟨g2, ?_⟩, by simp, by simp, by simp [Op.ph], fun h => Or.inl h, fun hf _ => absurd hf.2.2.2 hnf⟩
          simp only [SIInv]
          exact ⟨hm2, by simp [hcl], by simp [hcl], by simp [hs], by simp [hs, hcl], by simp [hs], by simp [hs],
            by simp [hcl], by simp [hcl], by simp [hcl]⟩
        | some y =>
          cases y with
          | next o2 =>
            have := (f12 o2 rfl).2
            simp [h1] at this
          | clean e =>
            have h2 := (f22 e rfl).1
            simp only [siOnClean]
            refine ⟨⟨g2, ?_⟩, by simp, by simp [Op.ph, hcl], by simp, fun h => Or.inl h, fun hf _ => absurd hf.2.2.2 hnf⟩
            simp only [SIInv]
            exact ⟨hm2, by simp, by simp, by simp [hs], by simp [hs], by simp, by simp [hs], by simp,
              fun _ => Or.inl h2, by simp [h2]⟩
    | clean e =>
      obtain ⟨h2, h2'⟩ := f2 e rfl
      have hcc : c.ph = .cleaning := by
        rcases h2' with h | h
        · exact h
        · exact absurd h hnc
      have hcl := i10 hcc
      have hs6 := i6 hcl
      simp only [siOnChild, siOnClean]
      refine ⟨⟨g, ?_⟩, by simp, by simp [Op.ph, hcl], by simp, fun h => Or.inl h, fun hf _ => absurd hf.2.2.2 hnf⟩
      simp only [SIInv]
      refine ⟨hm', by simp, by simp, ?_, ?_, by simp, ?_, by simp, fun _ => Or.inl h2, by simp [h2]⟩
      · intro h; rcases hs6 with h' | h' <;> simp_all
      · rcases hs6 with h' | h' <;> simp [h']
      · intro h; rcases hs6 with h' | h' <;> simp_all

theorem stopImm_post (rec : Rec) (hrec : RecOK rec) (call : Call) (c : Op) (st : StopImmSt)
    (hg : Good (.stopImm c st)) (hl : Legal call (.stopImm c st)) :
    Post call (.stopImm c st) (stopImmStep rec call c st) := by
  obtain ⟨hgc, i1, i2, i3, i4, i5, i6, i7, i8, i9, i10⟩ := hg
  cases call with
  | next stopped =>
    obtain ⟨hph, hms⟩ := hl
    simp only [Op.ph, Op.mustStop] at hph hms
    simp only [stopImmStep, hph]
    cases stopped with
    | true =>
      simp only [if_true]
      exact ⟨⟨hgc, i1, i2, i3, i4, i5, i6, i7, i8, i9, i10⟩, by simp [Op.ph, hph], by simp, by simp,
        by simp [Op.mustStop], by simp [Call.isEvent]⟩
    | false =>
      have hsrc : st.src = false := by cases h : st.src <;> simp_all
      have hs : st.s ≠ .stopped := fun h => by have := (i7 h).1; simp_all
      have hcph := i3 hph hs
      have hcm : c.mustStop = false := by cases h : c.mustStop <;> simp_all
      obtain ⟨g, f1, f2, f3, ms, fr⟩ := hrec (.next false) c hgc ⟨hcph, by simp [hcm]⟩
      simp only [Bool.false_eq_true, if_false, hsrc]
      generalize hr : rec (.next false) c = r at *
      obtain ⟨c', outs, sg⟩ := r
      simp only at g f1 f2 f3 ms fr
      have hcm' : c'.mustStop = false := by
        cases h : c'.mustStop
        · rfl
        · rcases ms h with h1 | h1 <;> simp_all
      cases sg with
      | none =>
        have h3 := f3 rfl
        refine ⟨⟨g, ?_⟩, by simp [siOnChild], by simp [siOnChild], by simp [siOnChild, Op.ph],
          by simp [siOnChild, Op.mustStop, hsrc], by simp [Call.isEvent]⟩
        simp only [siOnChild, SIInv]
        refine ⟨by simp [hcm'], by simp, by simp, by simp, by simp, by simp, by simp, by simp, by simp, ?_⟩
        intro h; rw [h, hcph] at h3; simp at h3
      | some x =>
        cases x with
        | next o =>
          have h1 := (f1 o rfl).1
          refine ⟨⟨g, ?_⟩, by simp [siOnChild, Op.ph], by simp [siOnChild], by simp [siOnChild],
            by simp [siOnChild, Op.mustStop, hsrc], by simp [Call.isEvent]⟩
          simp only [siOnChild, SIInv]
          refine ⟨by simp [hcm'], by simp, by simp [h1], by simp, by simp, by simp, by simp, by simp, by simp, ?_⟩
          intro h; rw [h1] at h; simp at h
        | clean e =>
          have := (f2 e rfl).2
          simp [hcph] at this
  | stop =>
    simp only [stopImmStep]
    by_cases hact : st.ph = .nexting
    · have hs := i5.1 hact
      simp only [hact, hs]
      obtain ⟨g, f1, f2, f3, ms, fr⟩ := hrec .stop c hgc trivial
      generalize hr : rec .stop c = r at *
      obtain ⟨c', outs, sg⟩ := r
      simp only at g f1 f2 f3 ms fr
      have hnc : c.ph ≠ .cleaning := fun h => by have := i10 h; simp_all
      have hc' : c'.ph = .cleaning → False := by
        intro h
        cases sg with
        | none => rcases f3 rfl with h3 | ⟨⟨_, h3⟩, _⟩ | ⟨h3, _⟩ | ⟨_, h3⟩ <;> simp_all
        | some x =>
          cases x with
          | next o => have := (f1 o rfl).1; simp_all
          | clean e => have := (f2 e rfl).1; simp_all
      refine ⟨⟨g, ?_⟩, by simp [Op.ph, hact], by simp, by simp, by simp [Op.mustStop], ?_⟩
      · simp only [SIInv]
        cases sg with
        | none => exact ⟨by simp, by simp, by simp, by simp, by simp, by simp, by simp, by simp, by simp, fun h => (hc' h).elim⟩
        | some x =>
          cases x with
          | next o =>
            have h1 := (f1 o rfl).1
            exact ⟨by simp, by simp, by simp [h1], by simp, by simp, by simp, by simp, by simp, by simp,
              fun h => (hc' h).elim⟩
          | clean e =>
            exact ⟨by simp, by simp, by simp, by simp, by simp, by simp, by simp, by simp, by simp, fun h => (hc' h).elim⟩
      · intro hf _
        have := hf.1; simp_all
    · have hs : st.s ≠ .active := fun h => hact (i5.2 h)
      have e1 : stopImmStep rec .stop c st = (.stopImm c st, [], none) := by
        simp only [stopImmStep]
        split
        · rename_i h1 h2; exact absurd h1 hact
        · rfl
      simp only [stopImmStep] at e1
      rw [e1]
      exact ⟨⟨hgc, i1, i2, i3, i4, i5, i6, i7, i8, i9, i10⟩, by simp, by simp, by simp, by simp [Op.mustStop],
        fun hf _ => ⟨hf, rfl⟩⟩
  | cleanup =>
    have hph : st.ph = .idle := hl
    simp only [stopImmStep, hph]
    rcases i2 hph with hs | hs | hs
    · -- no next() was ever started on the source: nothing to clean up
      simp only [hs]
      have hf := (i4 hs).1
      exact ⟨⟨hgc, by
          simp only [SIInv]
          exact ⟨i1, by simp, by simp, by simp [hs, hf], by simp [hs], by simp, by simp [hs], by simp [hs],
            fun _ => Or.inr hf, by simp [fresh_ph hf]⟩⟩,
        by simp, by simp [Op.ph], by simp, by simp [Op.mustStop], by simp [Call.isEvent]⟩
    · simp only [hs]
      have hcph := i3 hph (by simp [hs])
      obtain ⟨g, f1, f2, f3, ms, fr⟩ := hrec .cleanup c hgc hcph
      generalize hr : rec .cleanup c = r at *
      obtain ⟨c', outs, sg⟩ := r
      simp only at g f1 f2 f3 ms fr
      have hm' : c'.mustStop = true → st.src = true := fun h => by
        rcases ms h with h1 | h1
        · exact i1 h1
        · simp at h1
      cases sg with
      | none =>
        refine ⟨⟨g, ?_⟩, by simp [siOnClean], by simp [siOnClean], by simp [siOnClean, Op.ph],
          by simp [siOnClean, Op.mustStop], by simp [Call.isEvent]⟩
        simp only [siOnClean, SIInv]
        exact ⟨hm', by simp, by simp, by simp [hs], by simp [hs], by simp [hs], by simp [hs], by simp [hs], by simp, by simp⟩
      | some x =>
        cases x with
        | next o =>
          have := (f1 o rfl).2
          simp [hcph] at this
        | clean e =>
          have h2 := (f2 e rfl).1
          refine ⟨⟨g, ?_⟩, by simp [siOnClean], by simp [siOnClean, Op.ph], by simp [siOnClean],
            by simp [siOnClean, Op.mustStop], by simp [Call.isEvent]⟩
          simp only [siOnClean, SIInv]
          exact ⟨hm', by simp, by simp, by simp [hs], by simp [hs], by simp, by simp [hs], by simp [hs],
            fun _ => Or.inl h2, by simp [h2]⟩
    · simp only [hs]
      refine ⟨⟨hgc, ?_⟩, by simp, by simp, by simp [Op.ph], by simp [Op.mustStop], by simp [Call.isEvent]⟩
      simp only [SIInv]
      exact ⟨i1, by simp, by simp, by simp, by simp, by simp, by simp, by simp, by simp, by simp⟩
  | compNext j => exact stopImm_event_post rec hrec (.compNext j) trivial (by simp) c st ⟨hgc, i1, i2, i3, i4, i5, i6, i7, i8, i9, i10⟩
  | compClean j => exact stopImm_event_post rec hrec (.compClean j) trivial (by simp) c st ⟨hgc, i1, i2, i3, i4, i5, i6, i7, i8, i9, i10⟩


end Unifex.Stream
