/-
  Calc/Coh.lean — no lost completion (property C01, third clause).

  `Coh op`: the tree is coherent — a node is running only if the child it is waiting for is
  running (so that, by induction, a running node always has a pending leaf below it: `pending_of_running`);
  a two-child node records a child's result exactly when that child is finished.
  `coh_deliver`: every event preserves coherence, PROVIDED the evaluator has enough fuel
  (`op.height < fuel`; the top level always passes `height + 1`), and an operation that does not
  signal keeps running (`keeps_running`).  Consequence (Props/C01): when no leaf is pending any
  more, a started operation is finished — and it signalled exactly when it became finished.
-/
import UnifexModel.Calc.TagInv

namespace Unifex.Calc

variable (specs : Nat → LeafSpec)

def Coh : Op → Prop
  | .const _ ph => ph ≠ .running
  | .leaf _ _ _ => True
  | .un _ c ph _ => Coh c ∧ (ph = .running → c.phase = .running) ∧ (ph = .idle → AllIdle c)
  | .bin k a b st =>
    Coh a ∧ Coh b ∧ (st.ph = .idle → AllIdle a ∧ AllIdle b) ∧
    (st.ph = .running →
      match k with
      | .whenAll | .stopWhen | .whenAny =>
        (st.ra.isSome = true ↔ a.phase = .finished) ∧ (st.rb.isSome = true ↔ b.phase = .finished) ∧
        (st.ra.isNone = true → a.phase = .running) ∧ (st.rb.isNone = true → b.phase = .running) ∧
        (st.ra.isNone = true ∨ st.rb.isNone = true)
      | _ => (st.second = false → a.phase = .running ∧ AllIdle b) ∧ (st.second = true → b.phase = .running))

/-- a running coherent operation always has a pending leaf below it -/
theorem pending_of_running : ∀ (op : Op), Coh op → op.phase = .running → op.pending ≠ []
  | .const _ ph, h, hp => by simp only [Coh] at h; simp only [Op.phase] at hp; exact absurd hp h
  | .leaf i ph nt, _, hp => by simp only [Op.phase] at hp; simp [Op.pending, hp]
  | .un k c ph env, h, hp => by
    simp only [Op.phase] at hp
    simp only [Op.pending]
    exact pending_of_running c h.1 (h.2.1 hp)
  | .bin k a b st, h, hp => by
    simp only [Op.phase] at hp
    obtain ⟨ha, hb, _, hr⟩ := h
    have hr := hr hp
    simp only [Op.pending]
    cases k
    case whenAll | stopWhen | whenAny =>
      simp only [] at hr
      obtain ⟨_, _, h3, h4, h5⟩ := hr
      rcases h5 with h5 | h5
      · have := pending_of_running a ha (h3 h5); intro hc; simp_all
      · have := pending_of_running b hb (h4 h5); intro hc; simp_all
    all_goals
      simp only [] at hr
      cases hs : st.second
      · have := pending_of_running a ha (hr.1 hs).1; intro hc; simp_all
      · have := pending_of_running b hb (hr.2 hs); intro hc; simp_all

theorem allIdle_coh : ∀ (op : Op), AllIdle op → Coh op
  | .const _ ph, h => by simp only [AllIdle] at h; simp [Coh, h]
  | .leaf _ _ _, _ => by simp [Coh]
  | .un _ c ph _, h => by simp only [AllIdle] at h; simp [Coh, h.1, h.2, allIdle_coh c h.2]
  | .bin _ a b st, h => by
    simp only [AllIdle] at h
    simp [Coh, h.1, h.2.1, h.2.2, allIdle_coh a h.2.1, allIdle_coh b h.2.2]

theorem allIdle_phase : ∀ (op : Op), AllIdle op → op.phase = .idle
  | .const _ _, h => h
  | .leaf _ _ _, h => h
  | .un _ _ _ _, h => h.1
  | .bin _ _ _ _, h => h.1

/-- what is needed from the evaluator of children of height ≤ n -/
structure RecCoh (rec : Rec) (n : Nat) : Prop where
  coh : ∀ ev op, op.height ≤ n → Coh op → Coh (rec ev op).1
  run : ∀ ev op, op.height ≤ n → Coh op → op.phase = .running → (rec ev op).2.2 = none →
    (rec ev op).1.phase = .running
  start : ∀ env op, op.height ≤ n → AllIdle op → (rec (.start env) op).2.2 = none →
    (rec (.start env) op).1.phase = .running
  height : ∀ ev op, op.height ≤ n → Coh op → (rec ev op).1.height = op.height
  fin : ∀ ev op o, (rec ev op).2.2 = some o → (rec ev op).1.phase = .finished
  inert : ∀ ev op, op.phase = .finished → (rec ev op).1 = op ∧ (rec ev op).2.2 = none

/-- the four facts about one evaluation step of a node -/
structure StepOk (op : Op) (r : Res) (ev : Ev) : Prop where
  coh : Coh r.1
  run : op.phase = .running → r.2.2 = none → r.1.phase = .running
  start : AllIdle op → (∃ env, ev = .start env) → r.2.2 = none → r.1.phase = .running
  height : r.1.height = op.height

theorem stepOk_unchanged (op : Op) (outs : List Out) (ev : Ev) (h : Coh op)
    (hs : AllIdle op → ¬ ∃ env, ev = .start env) : StepOk op (op, outs, none) ev :=
  ⟨h, fun hp _ => hp, fun hi he _ => absurd he (hs hi), rfl⟩

theorem unStep_coh (rec : Rec) (n : Nat) (hrec : RecCoh rec n) (ev : Ev) (k : UnKind) (c : Op) (ph : Phase)
    (env : Env) (hh : c.height ≤ n) (h : Coh (.un k c ph env)) :
    StepOk (.un k c ph env) (unStep rec ev k c ph env) ev := by
  obtain ⟨hc, hrun, hidle⟩ := h
  have wrap : ∀ (env' : Env) (ev' : Ev), Coh (rec ev' c).1 →
      ((rec ev' c).2.2 = none → (rec ev' c).1.phase = .running) →
      Coh (unWrap k env' (rec ev' c)).1 ∧
      ((unWrap k env' (rec ev' c)).2.2 = none → (unWrap k env' (rec ev' c)).1.phase = .running) ∧
      (unWrap k env' (rec ev' c)).1.height = (Op.un k c ph env).height := by
    intro env' ev' h1 h2
    unfold unWrap
    cases hr : (rec ev' c).2.2 with
    | none =>
      refine ⟨⟨h1, ?_, ?_⟩, ?_, ?_⟩
      · exact fun _ => h2 hr
      · intro hi; cases hi
      · intro _; rfl
      · simp [Op.height, hrec.height ev' c hh hc]
    | some o =>
      refine ⟨⟨h1, ?_, ?_⟩, ?_, ?_⟩
      · intro hi; cases hi
      · intro hi; cases hi
      · intro hi; cases hi
      · simp [Op.height, hrec.height ev' c hh hc]
  unfold unStep
  cases ph <;> cases ev
  case idle.start env0 =>
    have hi := hidle rfl
    obtain ⟨w1, w2, w3⟩ := wrap env0 (.start (k.childEnv env0)) (hrec.coh _ c hh (allIdle_coh c hi))
      (hrec.start _ c hh hi)
    exact ⟨w1, fun _ => w2, fun _ _ => w2, w3⟩
  case running.stop =>
    simp only []
    split
    · obtain ⟨w1, w2, w3⟩ := wrap env.stop .stop (hrec.coh _ c hh hc) (hrec.run _ c hh hc (hrun rfl))
      exact ⟨w1, fun _ => w2, fun _ _ => w2, w3⟩
    · exact stepOk_unchanged _ _ _ ⟨hc, hrun, hidle⟩ (by intro hi; simp [AllIdle] at hi)
  case running.complete i o =>
    obtain ⟨w1, w2, w3⟩ := wrap env (.complete i o) (hrec.coh _ c hh hc) (hrec.run _ c hh hc (hrun rfl))
    exact ⟨w1, fun _ => w2, fun _ _ => w2, w3⟩
  all_goals
    exact stepOk_unchanged _ _ _ ⟨hc, hrun, hidle⟩ (by intro hi ⟨e, he⟩; first | (simp [AllIdle] at hi; done) | cases he)

theorem coh_seq (k : BinKind) (a b : Op) (st : BinSt) (h1 : k ≠ .whenAll) (h2 : k ≠ .stopWhen) (h3 : k ≠ .whenAny) :
    Coh (.bin k a b st) ↔
      (Coh a ∧ Coh b ∧ (st.ph = .idle → AllIdle a ∧ AllIdle b) ∧
       (st.ph = .running →
          (st.second = false → a.phase = .running ∧ AllIdle b) ∧ (st.second = true → b.phase = .running))) := by
  cases k <;> simp_all [Coh]

theorem coh_par (k : BinKind) (a b : Op) (st : BinSt) (h : k = .whenAll ∨ k = .stopWhen ∨ k = .whenAny) :
    Coh (.bin k a b st) ↔
      (Coh a ∧ Coh b ∧ (st.ph = .idle → AllIdle a ∧ AllIdle b) ∧
       (st.ph = .running →
        (st.ra.isSome = true ↔ a.phase = .finished) ∧ (st.rb.isSome = true ↔ b.phase = .finished) ∧
        (st.ra.isNone = true → a.phase = .running) ∧ (st.rb.isNone = true → b.phase = .running) ∧
        (st.ra.isNone = true ∨ st.rb.isNone = true))) := by
  rcases h with h | h | h <;> subst h <;> simp [Coh]

theorem seqAfterFirst_coh (rec : Rec) (n : Nat) (hrec : RecCoh rec n) (k : BinKind) (b : Op) (st : BinSt)
    (env : Env) (ra : Res) (h1 : k ≠ .whenAll) (h2 : k ≠ .stopWhen) (h3 : k ≠ .whenAny)
    (hca : Coh ra.1) (hrun : ra.2.2 = none → ra.1.phase = .running)
    (hib : AllIdle b) (hhb : b.height ≤ n) :
    Coh (seqAfterFirst rec k b st env ra).1 ∧
    ((seqAfterFirst rec k b st env ra).2.2 = none → (seqAfterFirst rec k b st env ra).1.phase = .running) ∧
    (seqAfterFirst rec k b st env ra).1.height = max ra.1.height b.height + 1 := by
  unfold seqAfterFirst
  cases hr : ra.2.2 with
  | none =>
    simp only []
    rw [coh_seq _ _ _ _ h1 h2 h3]
    exact ⟨⟨hca, allIdle_coh b hib, by simp, fun _ => ⟨fun _ => ⟨hrun hr, hib⟩, by simp⟩⟩, fun _ => rfl, rfl⟩
  | some o =>
    simp only []
    split
    · have hcb := hrec.coh (.start (k.succEnv env o)) b hhb (allIdle_coh b hib)
      have hsb := hrec.start (k.succEnv env o) b hhb hib
      have hhb' := hrec.height (.start (k.succEnv env o)) b hhb (allIdle_coh b hib)
      cases hr2 : (rec (Ev.start (k.succEnv env o)) b).2.2 with
      | none =>
        simp only []
        rw [coh_seq _ _ _ _ h1 h2 h3]
        refine ⟨⟨hca, hcb, by simp, fun _ => ⟨by simp, fun _ => hsb hr2⟩⟩, fun _ => rfl, ?_⟩
        simp [Op.height, hhb']
      | some ob =>
        simp only []
        rw [coh_seq _ _ _ _ h1 h2 h3]
        refine ⟨⟨hca, hcb, by simp, by simp⟩, by simp, ?_⟩
        simp [Op.height, hhb']
    · rw [coh_seq _ _ _ _ h1 h2 h3]
      exact ⟨⟨hca, allIdle_coh b hib, by simp, by simp⟩, by simp, rfl⟩

theorem seqSecond_coh (k : BinKind) (a : Op) (st : BinSt) (env : Env) (rb : Res)
    (h1 : k ≠ .whenAll) (h2 : k ≠ .stopWhen) (h3 : k ≠ .whenAny) (hph : st.ph = .running) (hsec : st.second = true)
    (hca : Coh a) (hcb : Coh rb.1) (hrun : rb.2.2 = none → rb.1.phase = .running) :
    Coh (seqSecond k a st env rb).1 ∧
    ((seqSecond k a st env rb).2.2 = none → (seqSecond k a st env rb).1.phase = .running) ∧
    (seqSecond k a st env rb).1.height = max a.height rb.1.height + 1 := by
  unfold seqSecond
  cases hr : rb.2.2 with
  | none =>
    simp only []
    rw [coh_seq _ _ _ _ h1 h2 h3]
    exact ⟨⟨hca, hcb, by simp [hph], fun _ => ⟨by simp [hsec], fun _ => hrun hr⟩⟩, fun _ => by simp [Op.phase, hph], rfl⟩
  | some ob =>
    simp only []
    rw [coh_seq _ _ _ _ h1 h2 h3]
    exact ⟨⟨hca, hcb, by simp, by simp⟩, by simp, rfl⟩

theorem seqStep_coh (rec : Rec) (n : Nat) (hrec : RecCoh rec n) (ev : Ev) (k : BinKind) (a b : Op) (st : BinSt)
    (h1 : k ≠ .whenAll) (h2 : k ≠ .stopWhen) (h3 : k ≠ .whenAny) (hha : a.height ≤ n) (hhb : b.height ≤ n)
    (h : Coh (.bin k a b st)) :
    StepOk (.bin k a b st) (seqStep rec ev k a b st) ev := by
  have h' := h
  rw [coh_seq _ _ _ _ h1 h2 h3] at h
  obtain ⟨hca, hcb, hidle, hrun⟩ := h
  unfold seqStep
  cases hph : st.ph <;> cases hsec : st.second <;> cases ev <;> simp only []
  case idle.false.start env0 | idle.true.start env0 =>
    have hi := hidle hph
    obtain ⟨w1, w2, w3⟩ := seqAfterFirst_coh rec n hrec k b st env0 (rec (.start env0) a) h1 h2 h3
      (hrec.coh _ a hha hca) (hrec.start env0 a hha hi.1) hi.2 hhb
    exact ⟨w1, fun _ => w2, fun _ _ => w2, by rw [w3, hrec.height _ a hha hca]; rfl⟩
  case running.false.stop =>
    have hr := (hrun hph).1 hsec
    obtain ⟨w1, w2, w3⟩ := seqAfterFirst_coh rec n hrec k b st st.env.stop (rec .stop a) h1 h2 h3
      (hrec.coh _ a hha hca) (hrec.run _ a hha hca hr.1) hr.2 hhb
    exact ⟨w1, fun _ => w2, fun _ _ => w2, by rw [w3, hrec.height _ a hha hca]; rfl⟩
  case running.false.complete i o =>
    have hr := (hrun hph).1 hsec
    obtain ⟨w1, w2, w3⟩ := seqAfterFirst_coh rec n hrec k b st st.env (rec (.complete i o) a) h1 h2 h3
      (hrec.coh _ a hha hca) (hrec.run _ a hha hca hr.1) hr.2 hhb
    exact ⟨w1, fun _ => w2, fun _ _ => w2, by rw [w3, hrec.height _ a hha hca]; rfl⟩
  case running.true.stop =>
    have hr := (hrun hph).2 hsec
    obtain ⟨w1, w2, w3⟩ := seqSecond_coh k a st st.env.stop (rec .stop b) h1 h2 h3 hph hsec hca
      (hrec.coh _ b hhb hcb) (hrec.run _ b hhb hcb hr)
    exact ⟨w1, fun _ => w2, fun _ _ => w2, by rw [w3, hrec.height _ b hhb hcb]; rfl⟩
  case running.true.complete i o =>
    have hr := (hrun hph).2 hsec
    obtain ⟨w1, w2, w3⟩ := seqSecond_coh k a st st.env (rec (.complete i o) b) h1 h2 h3 hph hsec hca
      (hrec.coh _ b hhb hcb) (hrec.run _ b hhb hcb hr)
    exact ⟨w1, fun _ => w2, fun _ _ => w2, by rw [w3, hrec.height _ b hhb hcb]; rfl⟩
  all_goals
    exact stepOk_unchanged _ _ _ h' (by intro hi ⟨e, he⟩; first | (simp [AllIdle, hph] at hi; done) | cases he)

/-! ### two-child nodes (when_all, stop_when) -/

/-- the running clause of `Coh` for a two-child node, on the components; `hA`, `hB` are the
    (unchanging) heights of the two subtrees -/
structure Par (a b : Op) (st : BinSt) (n hA hB : Nat) : Prop where
  ca : Coh a
  cb : Coh b
  ra : st.ra.isSome = true ↔ a.phase = .finished
  rb : st.rb.isSome = true ↔ b.phase = .finished
  na : st.ra.isNone = true → a.phase = .running
  nb : st.rb.isNone = true → b.phase = .running
  ha : a.height = hA
  hb : b.height = hB
  la : hA ≤ n
  lb : hB ≤ n

@[simp] theorem markSrc_ra (st : BinSt) (c : Bool) : (markSrc st c).ra = st.ra := by cases c <;> simp [markSrc]
@[simp] theorem markSrc_rb (st : BinSt) (c : Bool) : (markSrc st c).rb = st.rb := by cases c <;> simp [markSrc]

theorem isNone_not {α : Type} (o : Option α) : o.isNone = !o.isSome := by cases o <;> rfl
theorem matchSome_isSome {α : Type} (r x : Option α) :
    (match r with | some o => some o | none => x).isSome = (r.isSome || x.isSome) := by cases r <;> simp

@[simp] theorem waRecord_ra_true_isNone (any : Bool) (st : BinSt) (o : Outcome) : ((waRecord any st true o).1.ra).isNone = false := by
  rw [isNone_not]; simp
@[simp] theorem waRecord_rb_false_isNone (any : Bool) (st : BinSt) (o : Outcome) : ((waRecord any st false o).1.rb).isNone = false := by
  rw [isNone_not]; simp

/-- facts about delivering `.stop` (conditionally) to a child that is consistent with its record -/
theorem recIf_stop_coh (rec : Rec) (n : Nat) (hrec : RecCoh rec n) (cond : Bool) (x : Op)
    (hx : Coh x) (hh : x.height ≤ n) (hrun : cond = true → x.phase = .running) :
    Coh (recIf rec cond .stop x).1 ∧ (recIf rec cond .stop x).1.height = x.height ∧
    ((recIf rec cond .stop x).2.2 = none → (recIf rec cond .stop x).1.phase = x.phase) ∧
    (∀ o, (recIf rec cond .stop x).2.2 = some o → (recIf rec cond .stop x).1.phase = .finished) ∧
    (cond = false → (recIf rec cond .stop x).2.2 = none) := by
  cases cond with
  | false => simp [recIf, hx]
  | true =>
    simp only [recIf, if_true]
    refine ⟨hrec.coh _ x hh hx, hrec.height _ x hh hx, ?_, hrec.fin _ x, by simp⟩
    intro hn; rw [hrec.run _ x hh hx (hrun rfl) hn, hrun rfl]

theorem waAfterChild_par (rec : Rec) (n hA hB : Nat) (hrec : RecCoh rec n) (any : Bool) (isA : Bool) (a b : Op) (st : BinSt)
    (r : Option Outcome)
    (ca : Coh a) (cb : Coh b) (ha : a.height = hA) (hb : b.height = hB) (la : hA ≤ n) (lb : hB ≤ n)
    (hA' : if isA then (∀ o, r = some o → a.phase = .finished ∧ st.ra.isNone = true) ∧
                      (r = none → (st.ra.isSome = true ↔ a.phase = .finished) ∧ (st.ra.isNone = true → a.phase = .running))
          else (st.ra.isSome = true ↔ a.phase = .finished) ∧ (st.ra.isNone = true → a.phase = .running))
    (hB' : if isA then (st.rb.isSome = true ↔ b.phase = .finished) ∧ (st.rb.isNone = true → b.phase = .running)
          else (∀ o, r = some o → b.phase = .finished ∧ st.rb.isNone = true) ∧
               (r = none → (st.rb.isSome = true ↔ b.phase = .finished) ∧ (st.rb.isNone = true → b.phase = .running))) :
    Par (waAfterChild rec any isA a b st r).1 (waAfterChild rec any isA a b st r).2.1
        (waAfterChild rec any isA a b st r).2.2.1 n hA hB := by
  cases r with
  | none =>
    cases isA <;> simp_all [waAfterChild] <;>
      exact ⟨ca, cb, by simp_all, by simp_all, by simp_all, by simp_all, ha, hb, la, lb⟩
  | some o =>
    cases isA with
    | true =>
      simp only [if_true] at hA' hB'
      obtain ⟨hfin, hnone⟩ := hA'.1 o rfl
      simp only [waAfterChild, if_true]
      have hs := recIf_stop_coh rec n hrec ((waRecord any st true o).2 && (markSrc (waRecord any st true o).1 (waRecord any st true o).2).rb.isNone)
        b cb (hb ▸ lb) (by
          intro hc
          simp only [Bool.and_eq_true, markSrc_rb, waRecord_rb_true] at hc
          exact hB'.2 hc.2)
      generalize hc : ((waRecord any st true o).2 && (markSrc (waRecord any st true o).1 (waRecord any st true o).2).rb.isNone) = cond at hs
      generalize hrb : recIf rec cond Ev.stop b = rb at hs
      obtain ⟨s1, s2, s3, s4, s5⟩ := hs
      refine ⟨ca, s1, ?_, ?_, ?_, ?_, ha, s2.trans hb, la, lb⟩
      · simp [waRec_ra_of_false, hfin]
      · cases hq : rb.2.2 with
        | none => simp only [waRec, markSrc_rb, waRecord_rb_true]; rw [s3 hq]; exact hB'.1
        | some ob => simp [waRec, s4 ob hq]
      · simp [waRec_ra_of_false]
      · cases hq : rb.2.2 with
        | none => simp only [waRec, markSrc_rb, waRecord_rb_true]; rw [s3 hq]; exact hB'.2
        | some ob => simp [waRec]
    | false =>
      simp only [Bool.false_eq_true, if_false] at hA' hB'
      obtain ⟨hfin, hnone⟩ := hB'.1 o rfl
      simp only [waAfterChild, Bool.false_eq_true, if_false]
      have hs := recIf_stop_coh rec n hrec ((waRecord any st false o).2 && (markSrc (waRecord any st false o).1 (waRecord any st false o).2).ra.isNone)
        a ca (ha ▸ la) (by
          intro hc
          simp only [Bool.and_eq_true, markSrc_ra, waRecord_ra_false] at hc
          exact hA'.2 hc.2)
      generalize hc : ((waRecord any st false o).2 && (markSrc (waRecord any st false o).1 (waRecord any st false o).2).ra.isNone) = cond at hs
      generalize hra : recIf rec cond Ev.stop a = ra at hs
      obtain ⟨s1, s2, s3, s4, s5⟩ := hs
      refine ⟨s1, cb, ?_, ?_, ?_, ?_, s2.trans ha, hb, la, lb⟩
      · cases hq : ra.2.2 with
        | none => simp only [waRec, markSrc_ra, waRecord_ra_false]; rw [s3 hq]; exact hA'.1
        | some oa => simp [waRec, s4 oa hq]
      · simp [waRec_rb_of_true, hfin]
      · cases hq : ra.2.2 with
        | none => simp only [waRec, markSrc_ra, waRecord_ra_false]; rw [s3 hq]; exact hA'.2
        | some oa => simp [waRec]
      · simp [waRec_rb_of_true]

/-- deliver a non-start event to a child that is consistent with its record -/
theorem par_deliver (rec : Rec) (n : Nat) (hrec : RecCoh rec n) (cond : Bool) (ev : Ev) (x : Op) (rx : Option Outcome)
    (cx : Coh x) (hx : x.height ≤ n) (h1 : rx.isSome = true ↔ x.phase = .finished)
    (h2 : rx.isNone = true → x.phase = .running) :
    Coh (recIf rec cond ev x).1 ∧ (recIf rec cond ev x).1.height = x.height ∧
    (∀ o, (recIf rec cond ev x).2.2 = some o → (recIf rec cond ev x).1.phase = .finished ∧ rx.isNone = true) ∧
    ((recIf rec cond ev x).2.2 = none →
      (rx.isSome = true ↔ (recIf rec cond ev x).1.phase = .finished) ∧
      (rx.isNone = true → (recIf rec cond ev x).1.phase = .running)) := by
  cases cond with
  | false =>
    simp only [recIf, Bool.false_eq_true, if_false]
    refine ⟨cx, ?_, by simp, fun _ => ⟨h1, h2⟩⟩
    simp
  | true =>
    simp only [recIf, if_true]
    refine ⟨hrec.coh _ x hx cx, hrec.height _ x hx cx, ?_, ?_⟩
    · intro o ho
      refine ⟨hrec.fin _ x o ho, ?_⟩
      cases hs : rx with
      | none => rfl
      | some v =>
        have := (hrec.inert ev x (h1.mp (by simp [hs]))).2
        rw [this] at ho; cases ho
    · intro hn
      cases hs : rx with
      | none =>
        have hr := hrec.run ev x hx cx (h2 (by simp [hs])) hn
        simp [hr]
      | some v =>
        have hf := h1.mp (by simp [hs])
        rw [(hrec.inert ev x hf).1]
        simp [hf]

theorem waFinish_coh (k : BinKind) (hk : k = .whenAll ∨ k = .whenAny) (a b : Op) (st : BinSt) (outs : List Out) (n hA hB : Nat) (hph : st.ph = .running)
    (h : Par a b st n hA hB) :
    Coh (waFinish k a b st outs).1 ∧
    ((waFinish k a b st outs).2.2 = none → (waFinish k a b st outs).1.phase = .running) ∧
    (waFinish k a b st outs).1.height = max hA hB + 1 := by
  have hk' : k = .whenAll ∨ k = .stopWhen ∨ k = .whenAny := by rcases hk with h | h <;> simp [h]
  unfold waFinish
  split
  · rw [coh_par _ _ _ _ hk']
    exact ⟨⟨h.ca, h.cb, by simp, by simp⟩, by simp, by simp [Op.height, h.ha, h.hb]⟩
  · rename_i hc
    rw [coh_par _ _ _ _ hk']
    refine ⟨⟨h.ca, h.cb, by simp [hph], fun _ => ⟨h.ra, h.rb, h.na, h.nb, ?_⟩⟩, fun _ => by simp [Op.phase, hph],
      by simp [Op.height, h.ha, h.hb]⟩
    cases h1 : st.ra <;> cases h2 : st.rb <;> simp_all

theorem waComplete_coh (rec : Rec) (n hA hB : Nat) (hrec : RecCoh rec n) (k : BinKind) (hk : k = .whenAll ∨ k = .whenAny)
    (a b : Op) (st : BinSt) (i : Nat) (o : Outcome)
    (hph : st.ph = .running) (h : Par a b st n hA hB) :
    Coh (waComplete rec k a b st i o).1 ∧
    ((waComplete rec k a b st i o).2.2 = none → (waComplete rec k a b st i o).1.phase = .running) ∧
    (waComplete rec k a b st i o).1.height = max hA hB + 1 := by
  unfold waComplete
  simp only []
  have dA := par_deliver rec n hrec true (.complete i o) a st.ra h.ca (h.ha ▸ h.la) h.ra h.na
  simp only [recIf, if_true] at dA
  have hx := waAfterChild_par rec n hA hB hrec k.isAny true (rec (.complete i o) a).1 b st (rec (.complete i o) a).2.2
    dA.1 h.cb (dA.2.1.trans h.ha) h.hb h.la h.lb (by simp only [if_true]; exact ⟨dA.2.2.1, dA.2.2.2⟩)
    (by simp only [if_true]; exact ⟨h.rb, h.nb⟩)
  have hphx := waAfterChild_ph rec k.isAny true (rec (.complete i o) a).1 b st (rec (.complete i o) a).2.2
  generalize waAfterChild rec k.isAny true (rec (.complete i o) a).1 b st (rec (.complete i o) a).2.2 = x at hx hphx ⊢
  have dB := par_deliver rec n hrec (rec (.complete i o) a).2.2.isNone (.complete i o) x.2.1 x.2.2.1.rb
    hx.cb (hx.hb ▸ hx.lb) hx.rb hx.nb
  generalize recIf rec (rec (.complete i o) a).2.2.isNone (.complete i o) x.2.1 = rb at dB ⊢
  have hy := waAfterChild_par rec n hA hB hrec k.isAny false x.1 rb.1 x.2.2.1 rb.2.2
    hx.ca dB.1 hx.ha (dB.2.1.trans hx.hb) hx.la hx.lb (by simp only [Bool.false_eq_true, if_false]; exact ⟨hx.ra, hx.na⟩)
    (by simp only [Bool.false_eq_true, if_false]; exact ⟨dB.2.2.1, dB.2.2.2⟩)
  have hphy := waAfterChild_ph rec k.isAny false x.1 rb.1 x.2.2.1 rb.2.2
  exact waFinish_coh k hk _ _ _ _ n hA hB (by rw [hphy, hphx]; exact hph) hy

/-- record the outcome of `par_deliver` in the state: consistency is re-established -/
theorem par_record (x' : Op) (rx r : Option Outcome)
    (h1 : ∀ o, r = some o → x'.phase = .finished ∧ rx.isNone = true)
    (h2 : r = none → (rx.isSome = true ↔ x'.phase = .finished) ∧ (rx.isNone = true → x'.phase = .running)) :
    ((r.isSome || rx.isSome) = true ↔ x'.phase = .finished) ∧
    ((r.isSome || rx.isSome) = false → x'.phase = .running) := by
  cases r with
  | none =>
    have := h2 rfl
    refine ⟨by simpa using this.1, ?_⟩
    intro hh; apply this.2; rw [isNone_not]; simpa using hh
  | some o => simp [(h1 o rfl).1]

theorem waStop_coh (rec : Rec) (n hA hB : Nat) (hrec : RecCoh rec n) (k : BinKind) (hk : k = .whenAll ∨ k = .whenAny)
    (a b : Op) (st : BinSt)
    (hph : st.ph = .running) (h : Par a b st n hA hB) (hw : st.ra.isNone = true ∨ st.rb.isNone = true) :
    Coh (waStop rec k a b st).1 ∧
    ((waStop rec k a b st).2.2 = none → (waStop rec k a b st).1.phase = .running) ∧
    (waStop rec k a b st).1.height = max hA hB + 1 := by
  have hk' : k = .whenAll ∨ k = .stopWhen ∨ k = .whenAny := by rcases hk with h | h <;> simp [h]
  unfold waStop
  simp only []
  split
  · rw [coh_par _ _ _ _ hk']
    exact ⟨⟨h.ca, h.cb, by simp [hph], fun _ => ⟨h.ra, h.rb, h.na, h.nb, hw⟩⟩, fun _ => by simp [Op.phase, hph],
      by simp [Op.height, h.ha, h.hb]⟩
  · have dA := par_deliver rec n hrec st.ra.isNone .stop a st.ra h.ca (h.ha ▸ h.la) h.ra h.na
    generalize recIf rec st.ra.isNone Ev.stop a = ra at dA ⊢
    have rA := par_record ra.1 st.ra ra.2.2 dA.2.2.1 dA.2.2.2
    have dB := par_deliver rec n hrec
      (waRec k.isAny { st with env := st.env.stop, src := true } true ra.2.2).1.rb.isNone .stop b st.rb h.cb (h.hb ▸ h.lb) h.rb h.nb
    generalize recIf rec (waRec k.isAny { st with env := st.env.stop, src := true } true ra.2.2).1.rb.isNone Ev.stop b = rb at dB ⊢
    have rB := par_record rb.1 st.rb rb.2.2 dB.2.2.1 dB.2.2.2
    apply waFinish_coh k hk _ _ _ _ n hA hB (by simp [waRec_ph, hph])
    refine ⟨dA.1, dB.1, ?_, ?_, ?_, ?_, dA.2.1.trans h.ha, dB.2.1.trans h.hb, h.la, h.lb⟩
    · rw [waRec_ra_of_false, waRec_ra_isSome_true]; exact rA.1
    · rw [waRec_rb_isSome_false, waRec_rb_of_true]; exact rB.1
    · rw [isNone_not, waRec_ra_of_false, waRec_ra_isSome_true]; intro hh; exact rA.2 (by simpa using hh)
    · rw [isNone_not, waRec_rb_isSome_false, waRec_rb_of_true]; intro hh; exact rB.2 (by simpa using hh)

theorem waStart_coh (rec : Rec) (n hA hB : Nat) (hrec : RecCoh rec n) (k : BinKind) (hk : k = .whenAll ∨ k = .whenAny)
    (a b : Op) (st : BinSt) (env0 : Env)
    (ia : AllIdle a) (ib : AllIdle b) (ha : a.height = hA) (hb : b.height = hB) (la : hA ≤ n) (lb : hB ≤ n) :
    Coh (waStart rec k a b st env0).1 ∧
    ((waStart rec k a b st env0).2.2 = none → (waStart rec k a b st env0).1.phase = .running) ∧
    (waStart rec k a b st env0).1.height = max hA hB + 1 := by
  unfold waStart
  simp only []
  have cA := hrec.coh (.start { env0 with stopped := env0.stopped, stoppable := true }) a (ha ▸ la) (allIdle_coh a ia)
  have sA := hrec.start { env0 with stopped := env0.stopped, stoppable := true } a (ha ▸ la) ia
  have fA := hrec.fin (.start { env0 with stopped := env0.stopped, stoppable := true }) a
  have hhA := hrec.height (.start { env0 with stopped := env0.stopped, stoppable := true }) a (ha ▸ la) (allIdle_coh a ia)
  generalize rec (.start { env0 with stopped := env0.stopped, stoppable := true }) a = ra at cA sA fA hhA ⊢
  have cB := fun S => hrec.coh (.start { env0 with stopped := S, stoppable := true }) b (hb ▸ lb) (allIdle_coh b ib)
  have sB := fun S => hrec.start { env0 with stopped := S, stoppable := true } b (hb ▸ lb) ib
  have fB := fun S => hrec.fin (.start { env0 with stopped := S, stoppable := true }) b
  have hhB := fun S => hrec.height (.start { env0 with stopped := S, stoppable := true }) b (hb ▸ lb) (allIdle_coh b ib)
  apply waFinish_coh k hk _ _ _ _ n hA hB (by simp [waAfterChild_ph, markSrc_ph, waRec_ph, BinSt.init])
  apply waAfterChild_par rec n hA hB hrec k.isAny false _ _ _ _ cA (cB _) (hhA.trans ha) ((hhB _).trans hb) la lb
  · simp only [Bool.false_eq_true, if_false, markSrc_ra]
    cases hr : ra.2.2 with
    | none => simp [waRec, BinSt.init, sA hr]
    | some o => simp [waRec, fA o hr]
  · simp only [Bool.false_eq_true, if_false, markSrc_rb, waRec_rb_of_true, BinSt.init]
    refine ⟨fun o ho => ⟨fB _ _ ho, by simp⟩, fun hn => ?_⟩
    simp [sB _ hn]

theorem waStep_coh (rec : Rec) (n : Nat) (hrec : RecCoh rec n) (ev : Ev) (k : BinKind) (hk : k = .whenAll ∨ k = .whenAny)
    (a b : Op) (st : BinSt)
    (hha : a.height ≤ n) (hhb : b.height ≤ n) (h : Coh (.bin k a b st)) :
    StepOk (.bin k a b st) (waStep rec ev k a b st) ev := by
  have hk' : k = .whenAll ∨ k = .stopWhen ∨ k = .whenAny := by rcases hk with h | h <;> simp [h]
  have h' := h
  rw [coh_par _ _ _ _ hk'] at h
  obtain ⟨hca, hcb, hidle, hrun⟩ := h
  unfold waStep
  cases hph : st.ph <;> cases ev <;> simp only []
  case idle.start env0 =>
    obtain ⟨w1, w2, w3⟩ := waStart_coh rec n a.height b.height hrec k hk a b st env0 (hidle hph).1 (hidle hph).2 rfl rfl hha hhb
    exact ⟨w1, fun _ => w2, fun _ _ => w2, w3⟩
  case running.stop =>
    obtain ⟨r1, r2, r3, r4, r5⟩ := hrun hph
    obtain ⟨w1, w2, w3⟩ := waStop_coh rec n a.height b.height hrec k hk a b st hph ⟨hca, hcb, r1, r2, r3, r4, rfl, rfl, hha, hhb⟩ r5
    exact ⟨w1, fun _ => w2, fun _ _ => w2, w3⟩
  case running.complete i o =>
    obtain ⟨r1, r2, r3, r4, r5⟩ := hrun hph
    obtain ⟨w1, w2, w3⟩ := waComplete_coh rec n a.height b.height hrec k hk a b st i o hph ⟨hca, hcb, r1, r2, r3, r4, rfl, rfl, hha, hhb⟩
    exact ⟨w1, fun _ => w2, fun _ _ => w2, w3⟩
  all_goals
    exact stepOk_unchanged _ _ _ h' (by intro hi ⟨e, he⟩; first | (simp [AllIdle, hph] at hi; done) | cases he)

/-! stop_when -/

theorem setRa_ra (st : BinSt) (r : Option Outcome) :
    (setRa st r).ra = (match r with | some o => some o | none => st.ra) := by cases r <;> simp [setRa]
theorem setRa_rb (st : BinSt) (r : Option Outcome) : (setRa st r).rb = st.rb := by cases r <;> simp [setRa]
theorem setRb_rb (st : BinSt) (r : Option Outcome) :
    (setRb st r).rb = (match r with | some o => some o | none => st.rb) := by cases r <;> simp [setRb]
theorem setRb_ra (st : BinSt) (r : Option Outcome) : (setRb st r).ra = st.ra := by cases r <;> simp [setRb]

theorem setRa_ra_isSome (st : BinSt) (r : Option Outcome) : ((setRa st r).ra).isSome = (r.isSome || st.ra.isSome) := by
  cases r <;> simp [setRa]
theorem setRb_rb_isSome (st : BinSt) (r : Option Outcome) : ((setRb st r).rb).isSome = (r.isSome || st.rb.isSome) := by
  cases r <;> simp [setRb]

theorem swAfterChild_par (rec : Rec) (n hA hB : Nat) (hrec : RecCoh rec n) (isA : Bool) (a b : Op) (st : BinSt)
    (r : Option Outcome)
    (ca : Coh a) (cb : Coh b) (ha : a.height = hA) (hb : b.height = hB) (la : hA ≤ n) (lb : hB ≤ n)
    (hA' : if isA then (∀ o, r = some o → a.phase = .finished ∧ st.ra.isNone = true) ∧
                      (r = none → (st.ra.isSome = true ↔ a.phase = .finished) ∧ (st.ra.isNone = true → a.phase = .running))
          else (st.ra.isSome = true ↔ a.phase = .finished) ∧ (st.ra.isNone = true → a.phase = .running))
    (hB' : if isA then (st.rb.isSome = true ↔ b.phase = .finished) ∧ (st.rb.isNone = true → b.phase = .running)
          else (∀ o, r = some o → b.phase = .finished ∧ st.rb.isNone = true) ∧
               (r = none → (st.rb.isSome = true ↔ b.phase = .finished) ∧ (st.rb.isNone = true → b.phase = .running))) :
    Par (swAfterChild rec isA a b st r).1 (swAfterChild rec isA a b st r).2.1
        (swAfterChild rec isA a b st r).2.2.1 n hA hB := by
  cases r with
  | none =>
    cases isA <;> simp_all [swAfterChild] <;>
      exact ⟨ca, cb, by simp_all, by simp_all, by simp_all, by simp_all, ha, hb, la, lb⟩
  | some o =>
    cases isA with
    | true =>
      simp only [if_true] at hA' hB'
      obtain ⟨hfin, hnone⟩ := hA'.1 o rfl
      simp only [swAfterChild, if_true]
      have hs := recIf_stop_coh rec n hrec (!st.src && st.rb.isNone) b cb (hb ▸ lb) (by
          intro hc
          simp only [Bool.and_eq_true] at hc
          exact hB'.2 hc.2)
      generalize hc : (!st.src && st.rb.isNone) = cond at hs
      generalize hrb : recIf rec cond Ev.stop b = rb at hs
      obtain ⟨s1, s2, s3, s4, s5⟩ := hs
      refine ⟨ca, s1, ?_, ?_, ?_, ?_, ha, s2.trans hb, la, lb⟩
      · simp [setRb_ra, hfin]
      · rw [setRb_rb]
        cases hq : rb.2.2 with
        | none => simp only []; rw [s3 hq]; exact hB'.1
        | some ob => simp [s4 ob hq]
      · simp [setRb_ra]
      · rw [setRb_rb]
        cases hq : rb.2.2 with
        | none => simp only []; rw [s3 hq]; exact hB'.2
        | some ob => simp
    | false =>
      simp only [Bool.false_eq_true, if_false] at hA' hB'
      obtain ⟨hfin, hnone⟩ := hB'.1 o rfl
      simp only [swAfterChild, Bool.false_eq_true, if_false]
      have hs := recIf_stop_coh rec n hrec (!st.src && st.ra.isNone) a ca (ha ▸ la) (by
          intro hc
          simp only [Bool.and_eq_true] at hc
          exact hA'.2 hc.2)
      generalize hc : (!st.src && st.ra.isNone) = cond at hs
      generalize hra : recIf rec cond Ev.stop a = ra at hs
      obtain ⟨s1, s2, s3, s4, s5⟩ := hs
      refine ⟨s1, cb, ?_, ?_, ?_, ?_, s2.trans ha, hb, la, lb⟩
      · rw [setRa_ra]
        cases hq : ra.2.2 with
        | none => simp only []; rw [s3 hq]; exact hA'.1
        | some oa => simp [s4 oa hq]
      · simp [setRa_rb, hfin]
      · rw [setRa_ra]
        cases hq : ra.2.2 with
        | none => simp only []; rw [s3 hq]; exact hA'.2
        | some oa => simp
      · simp [setRa_rb]

theorem swFinish_coh (a b : Op) (st : BinSt) (outs : List Out) (n hA hB : Nat) (hph : st.ph = .running)
    (h : Par a b st n hA hB) :
    Coh (swFinish a b st outs).1 ∧
    ((swFinish a b st outs).2.2 = none → (swFinish a b st outs).1.phase = .running) ∧
    (swFinish a b st outs).1.height = max hA hB + 1 := by
  unfold swFinish
  split
  · rename_i hc
    rw [coh_par _ _ _ _ (Or.inr (Or.inl rfl))]
    refine ⟨⟨h.ca, h.cb, by simp, by simp⟩, ?_, by simp [Op.height, h.ha, h.hb]⟩
    intro hn
    simp only [Bool.and_eq_true] at hc
    cases hra : st.ra <;> simp_all
  · rename_i hc
    rw [coh_par _ _ _ _ (Or.inr (Or.inl rfl))]
    refine ⟨⟨h.ca, h.cb, by simp [hph], fun _ => ⟨h.ra, h.rb, h.na, h.nb, ?_⟩⟩, fun _ => by simp [Op.phase, hph],
      by simp [Op.height, h.ha, h.hb]⟩
    cases h1 : st.ra <;> cases h2 : st.rb <;> simp_all

theorem swComplete_coh (rec : Rec) (n hA hB : Nat) (hrec : RecCoh rec n) (a b : Op) (st : BinSt) (i : Nat) (o : Outcome)
    (hph : st.ph = .running) (h : Par a b st n hA hB) :
    Coh (swComplete rec a b st i o).1 ∧
    ((swComplete rec a b st i o).2.2 = none → (swComplete rec a b st i o).1.phase = .running) ∧
    (swComplete rec a b st i o).1.height = max hA hB + 1 := by
  unfold swComplete
  simp only []
  have dA := par_deliver rec n hrec true (.complete i o) a st.ra h.ca (h.ha ▸ h.la) h.ra h.na
  simp only [recIf, if_true] at dA
  have hx := swAfterChild_par rec n hA hB hrec true (rec (.complete i o) a).1 b st (rec (.complete i o) a).2.2
    dA.1 h.cb (dA.2.1.trans h.ha) h.hb h.la h.lb (by simp only [if_true]; exact ⟨dA.2.2.1, dA.2.2.2⟩)
    (by simp only [if_true]; exact ⟨h.rb, h.nb⟩)
  have hphx := swAfterChild_ph rec true (rec (.complete i o) a).1 b st (rec (.complete i o) a).2.2
  generalize swAfterChild rec true (rec (.complete i o) a).1 b st (rec (.complete i o) a).2.2 = x at hx hphx ⊢
  have dB := par_deliver rec n hrec (rec (.complete i o) a).2.2.isNone (.complete i o) x.2.1 x.2.2.1.rb
    hx.cb (hx.hb ▸ hx.lb) hx.rb hx.nb
  generalize recIf rec (rec (.complete i o) a).2.2.isNone (.complete i o) x.2.1 = rb at dB ⊢
  have hy := swAfterChild_par rec n hA hB hrec false x.1 rb.1 x.2.2.1 rb.2.2
    hx.ca dB.1 hx.ha (dB.2.1.trans hx.hb) hx.la hx.lb (by simp only [Bool.false_eq_true, if_false]; exact ⟨hx.ra, hx.na⟩)
    (by simp only [Bool.false_eq_true, if_false]; exact ⟨dB.2.2.1, dB.2.2.2⟩)
  have hphy := swAfterChild_ph rec false x.1 rb.1 x.2.2.1 rb.2.2
  exact swFinish_coh _ _ _ _ n hA hB (by rw [hphy, hphx]; exact hph) hy

theorem swStop_coh (rec : Rec) (n hA hB : Nat) (hrec : RecCoh rec n) (a b : Op) (st : BinSt)
    (hph : st.ph = .running) (h : Par a b st n hA hB) (hw : st.ra.isNone = true ∨ st.rb.isNone = true) :
    Coh (swStop rec a b st).1 ∧
    ((swStop rec a b st).2.2 = none → (swStop rec a b st).1.phase = .running) ∧
    (swStop rec a b st).1.height = max hA hB + 1 := by
  unfold swStop
  simp only []
  split
  · rw [coh_par _ _ _ _ (Or.inr (Or.inl rfl))]
    exact ⟨⟨h.ca, h.cb, by simp [hph], fun _ => ⟨h.ra, h.rb, h.na, h.nb, hw⟩⟩, fun _ => by simp [Op.phase, hph],
      by simp [Op.height, h.ha, h.hb]⟩
  · have dA := par_deliver rec n hrec st.ra.isNone .stop a st.ra h.ca (h.ha ▸ h.la) h.ra h.na
    generalize recIf rec st.ra.isNone Ev.stop a = ra at dA ⊢
    have rA := par_record ra.1 st.ra ra.2.2 dA.2.2.1 dA.2.2.2
    have dB := par_deliver rec n hrec
      (setRa { st with env := st.env.stop, src := true } ra.2.2).rb.isNone .stop b st.rb h.cb (h.hb ▸ h.lb) h.rb h.nb
    generalize recIf rec (setRa { st with env := st.env.stop, src := true } ra.2.2).rb.isNone Ev.stop b = rb at dB ⊢
    have rB := par_record rb.1 st.rb rb.2.2 dB.2.2.1 dB.2.2.2
    apply swFinish_coh _ _ _ _ n hA hB (by simp [setRa_ph, setRb_ph, hph])
    refine ⟨dA.1, dB.1, ?_, ?_, ?_, ?_, dA.2.1.trans h.ha, dB.2.1.trans h.hb, h.la, h.lb⟩
    · rw [setRb_ra, setRa_ra_isSome]; exact rA.1
    · rw [setRb_rb_isSome, setRa_rb]; exact rB.1
    · rw [isNone_not, setRb_ra, setRa_ra_isSome]; intro hh; exact rA.2 (by simpa using hh)
    · rw [isNone_not, setRb_rb_isSome, setRa_rb]; intro hh; exact rB.2 (by simpa using hh)

theorem swStart_coh (rec : Rec) (n hA hB : Nat) (hrec : RecCoh rec n) (a b : Op) (st : BinSt) (env0 : Env)
    (ia : AllIdle a) (ib : AllIdle b) (ha : a.height = hA) (hb : b.height = hB) (la : hA ≤ n) (lb : hB ≤ n) :
    Coh (swStart rec a b st env0).1 ∧
    ((swStart rec a b st env0).2.2 = none → (swStart rec a b st env0).1.phase = .running) ∧
    (swStart rec a b st env0).1.height = max hA hB + 1 := by
  unfold swStart
  simp only []
  have cA := hrec.coh (.start { env0 with stopped := env0.stopped, stoppable := true }) a (ha ▸ la) (allIdle_coh a ia)
  have sA := hrec.start { env0 with stopped := env0.stopped, stoppable := true } a (ha ▸ la) ia
  have fA := hrec.fin (.start { env0 with stopped := env0.stopped, stoppable := true }) a
  have hhA := hrec.height (.start { env0 with stopped := env0.stopped, stoppable := true }) a (ha ▸ la) (allIdle_coh a ia)
  generalize rec (.start { env0 with stopped := env0.stopped, stoppable := true }) a = ra at cA sA fA hhA ⊢
  have cB := fun S => hrec.coh (.start { env0 with stopped := S, stoppable := true }) b (hb ▸ lb) (allIdle_coh b ib)
  have sB := fun S => hrec.start { env0 with stopped := S, stoppable := true } b (hb ▸ lb) ib
  have fB := fun S => hrec.fin (.start { env0 with stopped := S, stoppable := true }) b
  have hhB := fun S => hrec.height (.start { env0 with stopped := S, stoppable := true }) b (hb ▸ lb) (allIdle_coh b ib)
  apply swFinish_coh _ _ _ _ n hA hB (by simp [swAfterChild_ph, markSrc_ph, setRa_ph, BinSt.init])
  apply swAfterChild_par rec n hA hB hrec false _ _ _ _ cA (cB _) (hhA.trans ha) ((hhB _).trans hb) la lb
  · simp only [Bool.false_eq_true, if_false, markSrc_ra, setRa_ra, BinSt.init]
    cases hr : ra.2.2 with
    | none => simp [sA hr]
    | some o => simp [fA o hr]
  · simp only [Bool.false_eq_true, if_false, markSrc_rb, setRa_rb, BinSt.init]
    refine ⟨fun o ho => ⟨fB _ _ ho, by simp⟩, fun hn => ?_⟩
    simp [sB _ hn]

theorem swStep_coh (rec : Rec) (n : Nat) (hrec : RecCoh rec n) (ev : Ev) (a b : Op) (st : BinSt)
    (hha : a.height ≤ n) (hhb : b.height ≤ n) (h : Coh (.bin .stopWhen a b st)) :
    StepOk (.bin .stopWhen a b st) (swStep rec ev a b st) ev := by
  have h' := h
  rw [coh_par _ _ _ _ (Or.inr (Or.inl rfl))] at h
  obtain ⟨hca, hcb, hidle, hrun⟩ := h
  unfold swStep
  cases hph : st.ph <;> cases ev <;> simp only []
  case idle.start env0 =>
    obtain ⟨w1, w2, w3⟩ := swStart_coh rec n a.height b.height hrec a b st env0 (hidle hph).1 (hidle hph).2 rfl rfl hha hhb
    exact ⟨w1, fun _ => w2, fun _ _ => w2, w3⟩
  case running.stop =>
    obtain ⟨r1, r2, r3, r4, r5⟩ := hrun hph
    obtain ⟨w1, w2, w3⟩ := swStop_coh rec n a.height b.height hrec a b st hph ⟨hca, hcb, r1, r2, r3, r4, rfl, rfl, hha, hhb⟩ r5
    exact ⟨w1, fun _ => w2, fun _ _ => w2, w3⟩
  case running.complete i o =>
    obtain ⟨r1, r2, r3, r4, r5⟩ := hrun hph
    obtain ⟨w1, w2, w3⟩ := swComplete_coh rec n a.height b.height hrec a b st i o hph ⟨hca, hcb, r1, r2, r3, r4, rfl, rfl, hha, hhb⟩
    exact ⟨w1, fun _ => w2, fun _ _ => w2, w3⟩
  all_goals
    exact stepOk_unchanged _ _ _ h' (by intro hi ⟨e, he⟩; first | (simp [AllIdle, hph] at hi; done) | cases he)

theorem binStep_coh (rec : Rec) (n : Nat) (hrec : RecCoh rec n) (ev : Ev) (k : BinKind) (a b : Op) (st : BinSt)
    (hha : a.height ≤ n) (hhb : b.height ≤ n) (h : Coh (.bin k a b st)) :
    StepOk (.bin k a b st) (binStep rec ev k a b st) ev := by
  by_cases h1 : k = .whenAll
  · subst h1; exact waStep_coh rec n hrec ev _ (Or.inl rfl) a b st hha hhb h
  · by_cases h3 : k = .whenAny
    · subst h3; exact waStep_coh rec n hrec ev _ (Or.inr rfl) a b st hha hhb h
    · by_cases h2 : k = .stopWhen
      · subst h2; exact swStep_coh rec n hrec ev a b st hha hhb h
      · have : binStep rec ev k a b st = seqStep rec ev k a b st := by cases k <;> simp_all [binStep]
        rw [this]; exact seqStep_coh rec n hrec ev k a b st h1 h2 h3 hha hhb h

theorem leafStep_ok (ev : Ev) (i : Nat) (ph : Phase) (nt : Bool) :
    StepOk (.leaf i ph nt) (leafStep specs ev i ph nt) ev := by
  refine ⟨?_, ?_, ?_, ?_⟩
  · unfold leafStep; repeat' split
    all_goals simp [Coh]
  · intro hp hn
    simp only [Op.phase] at hp; subst hp
    unfold leafStep at hn ⊢
    cases ev <;> simp only [] at hn ⊢
    · rfl
    · split at hn <;> simp_all [Op.phase]
    · split at hn <;> simp_all [Op.phase]
  · intro hi ⟨env, he⟩ hn
    simp only [AllIdle] at hi; subst hi; subst he
    unfold leafStep at hn ⊢
    simp only [] at hn ⊢
    split at hn
    · simp at hn
    · split at hn
      · split at hn <;> simp_all [Op.phase]
      · simp_all [Op.phase]
  · unfold leafStep; repeat' split
    all_goals rfl

theorem constStep_ok (ev : Ev) (k : ConstKind) (ph : Phase) (h : Coh (.const k ph)) :
    StepOk (.const k ph) (constStep ev k ph) ev := by
  simp only [Coh] at h
  refine ⟨?_, ?_, ?_, ?_⟩
  · unfold constStep; split <;> simp [Coh, h]
  · intro hp; simp only [Op.phase] at hp; exact absurd hp h
  · intro hi ⟨env, he⟩ hn
    simp only [AllIdle] at hi; subst hi; subst he
    simp [constStep] at hn
  · unfold constStep; split <;> rfl

theorem recCoh_deliver : ∀ n : Nat, RecCoh (deliver specs (n + 1)) n := by
  intro n
  induction n with
  | zero =>
    have step : ∀ ev op, op.height ≤ 0 → Coh op → StepOk op (deliver specs 1 ev op) ev := by
      intro ev op hh hc
      cases op with
      | const k ph => simp only [deliver]; exact constStep_ok ev k ph hc
      | leaf i ph nt => simp only [deliver]; exact leafStep_ok specs ev i ph nt
      | un k c ph env => simp [Op.height] at hh
      | bin k a b st => simp [Op.height] at hh
    exact ⟨fun ev op hh hc => (step ev op hh hc).coh,
      fun ev op hh hc hp hn => (step ev op hh hc).run hp hn,
      fun env op hh hi hn => (step _ op hh (allIdle_coh op hi)).start hi ⟨env, rfl⟩ hn,
      fun ev op hh hc => (step ev op hh hc).height,
      fun ev op o h => signal_finishes specs 1 ev op o h,
      fun ev op h => finished_inert specs 1 ev op h⟩
  | succ m ih =>
    have step : ∀ ev op, op.height ≤ m + 1 → Coh op → StepOk op (deliver specs (m + 2) ev op) ev := by
      intro ev op hh hc
      cases op with
      | const k ph => simp only [deliver]; exact constStep_ok ev k ph hc
      | leaf i ph nt => simp only [deliver]; exact leafStep_ok specs ev i ph nt
      | un k c ph env =>
        simp only [deliver]
        exact unStep_coh _ m ih ev k c ph env (by simp [Op.height] at hh; omega) hc
      | bin k a b st =>
        simp only [deliver]
        exact binStep_coh _ m ih ev k a b st (by simp [Op.height] at hh; omega) (by simp [Op.height] at hh; omega) hc
    exact ⟨fun ev op hh hc => (step ev op hh hc).coh,
      fun ev op hh hc hp hn => (step ev op hh hc).run hp hn,
      fun env op hh hi hn => (step _ op hh (allIdle_coh op hi)).start hi ⟨env, rfl⟩ hn,
      fun ev op hh hc => (step ev op hh hc).height,
      fun ev op o h => signal_finishes specs (m + 2) ev op o h,
      fun ev op h => finished_inert specs (m + 2) ev op h⟩

end Unifex.Calc
