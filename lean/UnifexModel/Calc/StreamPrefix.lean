/-
  Calc/StreamPrefix.lean — the value contract and the fuel contract for the whole evaluator (`deliver_phi`,
  `deliver_need`) and their consequence for the consumers: the elements handed to the consumer are always a
  prefix of the sequence the pipeline would deliver without any stop request (`runEvents_phi`).
-/
import UnifexModel.Calc.StreamPrefixTake

namespace Unifex.Stream
open Unifex.Calc (Outcome Fn)
variable (specs : Nat → SrcSpec)

/-- **all three contracts hold for the evaluator at every fuel**: the protocol contract (`deliver_ok`), the value
    contract (the values a node signals are, in order, a prefix of what it would deliver without any stop
    request) and the fuel contract — for every stream expression, every script, every legal call -/
theorem deliver_all : ∀ fuel, AllOK specs (deliver specs fuel) := by
  intro fuel
  induction fuel with
  | zero =>
    refine ⟨deliver_ok specs 0, ?_, ?_⟩
    · intro c op hg hl hsi hnt
      exact ⟨hnt, hsi, by simp [deliver], fun _ => List.prefix_refl _⟩
    · intro c op hnt
      exact ⟨hnt, Nat.le_refl _, by simp [deliver]⟩
  | succ n ih =>
    refine ⟨deliver_ok specs (n + 1), ?_, ?_⟩
    · intro c op hg hl hsi hnt
      cases op with
      | leaf k st => simpa [deliver] using leaf_phi specs c k st hl hsi
      | un k ch => simpa [deliver] using un_phi specs _ ih.ok ih.phi c k ch hg hl hsi hnt
      | filter p ch s => simpa [deliver] using filter_phi specs _ ih.ok ih.phi c p ch s hg hl hsi hnt
      | stopImm ch st => simpa [deliver] using stopImm_phi specs _ ih.ok ih.phi c ch st hg hl hsi hnt
      | takeUntil a t st => simpa [deliver] using (takeUntil_contracts specs _ ih c a t st hg hl hsi hnt).1
    · intro c op hnt
      cases op with
      | leaf k st => simpa [deliver] using leaf_need specs c k st
      | un k ch => simpa [deliver] using un_need specs _ ih.need c k ch hnt
      | filter p ch s => simpa [deliver] using filter_need specs _ ih.need c p ch s hnt
      | stopImm ch st => simpa [deliver] using stopImm_need specs _ ih.need c ch st hnt
      | takeUntil a t st => simpa [deliver] using takeStep_need specs _ ih.need c a t st hnt

theorem deliver_phi (fuel : Nat) : PhiOK specs (deliver specs fuel) := (deliver_all specs fuel).phi
theorem deliver_need (fuel : Nat) : NeedOK specs (deliver specs fuel) := (deliver_all specs fuel).need

/-- may the consumer still pull? -/
def Root.canPull (rt : Root) : Prop := (rt.ph = .idle ∧ rt.ended = false) ∨ rt.ph = .nexting

structure PInv (phi0 : List Nat) (rt : Root) : Prop where
  nt : rt.op.NoTake
  si : SI2 rt.op
  pre : rt.delivered <+: phi0
  pull : rt.canPull → rt.delivered ++ rt.op.phi specs <+: phi0
  ended : rt.cons.kind ≠ .manual → rt.ended = false

/-- what `rootAfter` needs to know about the values in the stream's answer -/
def PhiAfter (phi0 : List Nat) (rt : Root) (r : Res) : Prop :=
  r.1.NoTake ∧ SI2 r.1 ∧ rt.delivered <+: phi0 ∧ (rt.cons.kind ≠ .manual → rt.ended = false) ∧
  (match r.2.2 with
   | some (.next (.value v)) => ∃ tail, rt.delivered ++ v :: tail <+: phi0 ∧ r.1.phi specs <+: tail
   | some _ => True
   | none => rt.canPull → rt.delivered ++ r.1.phi specs <+: phi0)

/-- enough fuel for the element loop -/
def Budget (n : Nat) (r : Res) : Prop :=
  r.1.need specs + (match r.2.2 with | some (.next (.value _)) => 3 | some (.next _) => 2 | _ => 1) ≤ n

theorem prefix_append_of {a b c : List Nat} (h : b <+: c) : a ++ b <+: a ++ c := by
  obtain ⟨r, rfl⟩ := h
  exact ⟨r, by simp⟩

/-- the answer to next() issued by the reduce loop after it consumed `v` -/
theorem phiAfter_next (phi0 : List Nat) (rt : Root) (op : Op) (v : Nat) (tail : List Nat) (acc : Nat) (n : Nat)
    (hg : Good op) (hm : op.mustStop = true → rt.stopped = true) (hi : op.ph = .idle)
    (hnt : op.NoTake) (hsi : SI2 op) (hend : rt.cons.kind ≠ .manual → rt.ended = false)
    (h1 : rt.delivered ++ v :: tail <+: phi0) (h2 : op.phi specs <+: tail) (hb : op.need specs + 2 ≤ n) :
    PhiAfter specs phi0 { rt with op := op, acc := acc, delivered := rt.delivered ++ [v] }
      (deliver specs (op.need specs) (.next rt.stopped) op) ∧
    Budget specs n (deliver specs (op.need specs) (.next rt.stopped) op) := by
  obtain ⟨nt, si, hv, hn⟩ := deliver_phi specs (op.need specs) (.next rt.stopped) op hg ⟨hi, hm⟩ hsi hnt
  obtain ⟨_, le, lt⟩ := deliver_need specs (op.need specs) (.next rt.stopped) op hnt
  generalize deliver specs (op.need specs) (.next rt.stopped) op = r2 at *
  obtain ⟨op2, outs2, sg2⟩ := r2
  simp only at nt si hv hn le lt
  have hpre : rt.delivered ++ [v] <+: phi0 := by
    refine List.IsPrefix.trans ?_ h1
    exact prefix_append_of ⟨tail, rfl⟩
  refine ⟨⟨nt, si, hpre, hend, ?_⟩, ?_⟩
  · cases sg2 with
    | none =>
      intro _
      have h3 := (hn (by simp)).trans h2
      have : rt.delivered ++ [v] ++ op2.phi specs <+: rt.delivered ++ v :: tail := by
        rw [List.append_assoc]; exact prefix_append_of (by simpa using (List.prefix_cons_inj v).2 h3)
      exact this.trans h1
    | some x =>
      cases x with
      | clean e => trivial
      | next o =>
        cases o with
        | done => trivial
        | error e => trivial
        | value w =>
          obtain ⟨tail2, h5, h6⟩ := hv w rfl
          rw [h5] at h2
          obtain ⟨t3, h7, h8⟩ := prefix_cons_of h2
          refine ⟨t3, ?_, h6.trans h8⟩
          subst h7
          simpa [List.append_assoc] using h1
  · simp only [Budget]
    cases sg2 with
    | none => simp only; omega
    | some x =>
      cases x with
      | clean e => simp only; omega
      | next o =>
        cases o with
        | done => simp only; omega
        | error e => simp only; omega
        | value w => have := lt w rfl; simp only; omega


/-- the answer to cleanup() issued by the reduce loop: nothing more is delivered -/
theorem phiAfter_cleanup (phi0 : List Nat) (rt' : Root) (op : Op) (n : Nat)
    (hg : Good op) (hi : op.ph = .idle) (hnt : op.NoTake) (hsi : SI2 op)
    (hend : rt'.cons.kind ≠ .manual → rt'.ended = false) (hpre : rt'.delivered <+: phi0)
    (hph : rt'.ph = .cleaning) (hb : op.need specs + 1 ≤ n)
    (ha : AfterOK rt' (deliver specs (op.need specs) .cleanup op)) :
    PhiAfter specs phi0 rt' (deliver specs (op.need specs) .cleanup op) ∧
    Budget specs n (deliver specs (op.need specs) .cleanup op) := by
  obtain ⟨nt, si, hv, hn⟩ := deliver_phi specs (op.need specs) .cleanup op hg hi hsi hnt
  obtain ⟨_, le, lt⟩ := deliver_need specs (op.need specs) .cleanup op hnt
  obtain ⟨_, _, _, hmatch⟩ := ha
  generalize deliver specs (op.need specs) .cleanup op = r2 at *
  obtain ⟨op2, outs2, sg2⟩ := r2
  simp only at nt si hv hn le lt hmatch
  cases sg2 with
  | none =>
    refine ⟨⟨nt, si, hpre, hend, ?_⟩, by simp only [Budget]; omega⟩
    intro hc
    rcases hc with ⟨h, _⟩ | h <;> simp [hph] at h
  | some x =>
    cases x with
    | clean e => exact ⟨⟨nt, si, hpre, hend, trivial⟩, by simp only [Budget]; omega⟩
    | next o =>
      have := hmatch.2.1
      simp [hph] at this

theorem rootAfter_phi (phi0 : List Nat) : ∀ (n : Nat) (rt : Root) (r : Res),
    AfterOK rt r → PhiAfter specs phi0 rt r → Budget specs n r → PInv specs phi0 (rootAfter specs n rt r).1 := by
  intro n
  induction n with
  | zero =>
    intro rt r _ _ hb
    have := Op.need_pos specs r.1
    simp only [Budget] at hb
    split at hb <;> omega
  | succ n ih =>
    intro rt r ha hp hb
    obtain ⟨hnt, hsi, hpre, hend, hm⟩ := hp
    have ha' := ha
    obtain ⟨hg, hms, hns, hmatch⟩ := ha
    obtain ⟨op', outs, sg⟩ := r
    simp only at hnt hsi hg hms hm hmatch
    cases sg with
    | none =>
      simp only [rootAfter]
      exact ⟨hnt, hsi, hpre, hm, hend⟩
    | some x =>
      cases x with
      | clean e =>
        simp only [rootAfter]
        cases rt.cons.kind <;> simp only <;>
          exact ⟨hnt, hsi, hpre, fun hc => by rcases hc with ⟨h, _⟩ | h <;> simp at h, hend⟩
      | next o =>
        obtain ⟨h1, h2, h3⟩ := hmatch
        cases hk : rt.cons.kind with
        | manual =>
          simp only [rootAfter, hk]
          cases o with
          | value v =>
            obtain ⟨tail, h5, h6⟩ := hm
            have hpre' : rt.delivered ++ [v] <+: phi0 :=
              List.IsPrefix.trans (prefix_append_of ⟨tail, rfl⟩) h5
            refine ⟨hnt, hsi, hpre', fun _ => ?_, by simp [hk]⟩
            have : rt.delivered ++ [v] ++ op'.phi specs <+: rt.delivered ++ v :: tail := by
              rw [List.append_assoc]; exact prefix_append_of (by simpa using (List.prefix_cons_inj v).2 h6)
            exact this.trans h5
          | done => exact ⟨hnt, hsi, hpre, fun hc => by rcases hc with ⟨_, h⟩ | h <;> simp at h, by simp [hk]⟩
          | error e => exact ⟨hnt, hsi, hpre, fun hc => by rcases hc with ⟨_, h⟩ | h <;> simp at h, by simp [hk]⟩
        | reduce =>
          have hend' : rt.cons.kind ≠ .manual → rt.ended = false := hend
          cases o with
          | value v =>
            obtain ⟨tail, h5, h6⟩ := hm
            have hbv : op'.need specs + 3 ≤ n + 1 := by simpa [Budget] using hb
            have hpre' : rt.delivered ++ [v] <+: phi0 :=
              List.IsPrefix.trans (prefix_append_of ⟨tail, rfl⟩) h5
            cases hs : rt.cons.step rt.acc v with
            | ok acc' =>
              obtain ⟨hpa, hbu⟩ := phiAfter_next specs phi0 rt op' v tail acc' n hg hms h1 hnt hsi hend' h5 h6 (by omega)
              have hao := afterOK_next specs rt (op', outs, some (.next (.value v))) none hg hms hns h1 h2 h3 acc' (rt.delivered ++ [v])
              have := ih _ _ hao hpa hbu
              simpa [rootAfter, hk, hs] using this
            | error e =>
              have hao := afterOK_cleanup specs rt (op', outs, some (.next (.value v))) hg hms hns h1 h2 h3 (some e) (rt.delivered ++ [v])
              obtain ⟨hpa, hbu⟩ := phiAfter_cleanup specs phi0
                { rt with op := op', ph := .cleaning, err := some e, delivered := rt.delivered ++ [v] } op' n hg h1 hnt hsi
                hend' hpre' rfl (by omega) hao
              have := ih _ _ hao hpa hbu
              simpa [rootAfter, hk, hs] using this
          | done =>
            have hbn : op'.need specs + 2 ≤ n + 1 := by simpa [Budget] using hb
            have hao := afterOK_cleanup specs rt (op', outs, some (.next .done)) hg hms hns h1 h2 h3 rt.err rt.delivered
            obtain ⟨hpa, hbu⟩ := phiAfter_cleanup specs phi0
              { rt with op := op', ph := .cleaning, err := rt.err, delivered := rt.delivered } op' n hg h1 hnt hsi
              hend' hpre rfl (by omega) hao
            have := ih _ _ hao hpa hbu
            simpa [rootAfter, hk] using this
          | error e =>
            have hbn : op'.need specs + 2 ≤ n + 1 := by simpa [Budget] using hb
            have hao := afterOK_cleanup specs rt (op', outs, some (.next (.error e))) hg hms hns h1 h2 h3 (some e) rt.delivered
            obtain ⟨hpa, hbu⟩ := phiAfter_cleanup specs phi0
              { rt with op := op', ph := .cleaning, err := some e, delivered := rt.delivered } op' n hg h1 hnt hsi
              hend' hpre rfl (by omega) hao
            have := ih _ _ hao hpa hbu
            simpa [rootAfter, hk] using this
        | forEach =>
          have hend' : rt.cons.kind ≠ .manual → rt.ended = false := hend
          cases o with
          | value v =>
            obtain ⟨tail, h5, h6⟩ := hm
            have hbv : op'.need specs + 3 ≤ n + 1 := by simpa [Budget] using hb
            have hpre' : rt.delivered ++ [v] <+: phi0 :=
              List.IsPrefix.trans (prefix_append_of ⟨tail, rfl⟩) h5
            cases hs : rt.cons.step rt.acc v with
            | ok acc' =>
              obtain ⟨hpa, hbu⟩ := phiAfter_next specs phi0 rt op' v tail acc' n hg hms h1 hnt hsi hend' h5 h6 (by omega)
              have hao := afterOK_next specs rt (op', outs, some (.next (.value v))) none hg hms hns h1 h2 h3 acc' (rt.delivered ++ [v])
              have := ih _ _ hao hpa hbu
              simpa [rootAfter, hk, hs] using this
            | error e =>
              have hao := afterOK_cleanup specs rt (op', outs, some (.next (.value v))) hg hms hns h1 h2 h3 (some e) (rt.delivered ++ [v])
              obtain ⟨hpa, hbu⟩ := phiAfter_cleanup specs phi0
                { rt with op := op', ph := .cleaning, err := some e, delivered := rt.delivered ++ [v] } op' n hg h1 hnt hsi
                hend' hpre' rfl (by omega) hao
              have := ih _ _ hao hpa hbu
              simpa [rootAfter, hk, hs] using this
          | done =>
            have hbn : op'.need specs + 2 ≤ n + 1 := by simpa [Budget] using hb
            have hao := afterOK_cleanup specs rt (op', outs, some (.next .done)) hg hms hns h1 h2 h3 rt.err rt.delivered
            obtain ⟨hpa, hbu⟩ := phiAfter_cleanup specs phi0
              { rt with op := op', ph := .cleaning, err := rt.err, delivered := rt.delivered } op' n hg h1 hnt hsi
              hend' hpre rfl (by omega) hao
            have := ih _ _ hao hpa hbu
            simpa [rootAfter, hk] using this
          | error e =>
            have hbn : op'.need specs + 2 ≤ n + 1 := by simpa [Budget] using hb
            have hao := afterOK_cleanup specs rt (op', outs, some (.next (.error e))) hg hms hns h1 h2 h3 (some e) rt.delivered
            obtain ⟨hpa, hbu⟩ := phiAfter_cleanup specs phi0
              { rt with op := op', ph := .cleaning, err := some e, delivered := rt.delivered } op' n hg h1 hnt hsi
              hend' hpre rfl (by omega) hao
            have := ih _ _ hao hpa hbu
            simpa [rootAfter, hk] using this


/-- the answer to the call issued by an external event -/
theorem phiAfter_top (phi0 : List Nat) (rt rt' : Root) (call : Call) (hp : PInv specs phi0 rt) (hg : Good rt.op)
    (hl : Legal call rt.op) (hd : rt'.delivered = rt.delivered) (hc : rt'.cons = rt.cons) (he : rt'.ended = rt.ended)
    (hcp : rt'.canPull → rt.canPull)
    (hval : ∀ v, (deliver specs (rt.op.need specs) call rt.op).2.2 = some (.next (.value v)) → rt.canPull) :
    PhiAfter specs phi0 rt' (deliver specs (rt.op.need specs) call rt.op) ∧
    Budget specs (rt.op.need specs + 3) (deliver specs (rt.op.need specs) call rt.op) := by
  obtain ⟨nt, si, hv, hn⟩ := deliver_phi specs (rt.op.need specs) call rt.op hg hl hp.si hp.nt
  obtain ⟨_, le, lt⟩ := deliver_need specs (rt.op.need specs) call rt.op hp.nt
  generalize deliver specs (rt.op.need specs) call rt.op = r at *
  obtain ⟨op', outs, sg⟩ := r
  simp only at nt si hv hn le lt hval
  refine ⟨⟨nt, si, by rw [hd]; exact hp.pre, by rw [hc, he]; exact hp.ended, ?_⟩, ?_⟩
  · cases sg with
    | none =>
      intro h
      have := hp.pull (hcp h)
      rw [hd]
      exact (prefix_append_of (hn (by simp))).trans this
    | some x =>
      cases x with
      | clean e => trivial
      | next o =>
        cases o with
        | done => trivial
        | error e => trivial
        | value v =>
          obtain ⟨tail, h5, h6⟩ := hv v rfl
          have := hp.pull (hval v rfl)
          rw [h5] at this
          exact ⟨tail, by rw [hd]; exact this, h6⟩
  · simp only [Budget]
    split <;> omega

theorem init_pinv (c : Consumer) (e : SExpr) (hnt : (connect e).NoTake) (hsi : SI2 (connect e)) :
    PInv specs ((connect e).phi specs) (Root.init c e) :=
  ⟨hnt, hsi, by simp [Root.init], fun _ => by simp [Root.init], fun _ => rfl⟩

theorem rootStep_phi (phi0 : List Nat) (rt : Root) (h : RInv rt) (hp : PInv specs phi0 rt) (ev : REv)
    (hok : evOk rt ev = true) : PInv specs phi0 (rootStep specs rt ev).1 := by
  have hres : rt.ph = .idle → rt.result = none := fun hph => by
    cases hh : rt.result with
    | none => rfl
    | some x => have := h.res (by simp [hh]); have := h.idle hph; simp_all
  cases ev with
  | compNext i =>
    have ha := afterOK_event specs rt h (.compNext i) trivial (by simp)
    obtain ⟨h1, h2⟩ := phiAfter_top specs phi0 rt rt (.compNext i) hp h.good trivial rfl rfl rfl id (by
      intro v hv
      have := ha.2.2.2
      rw [hv] at this
      exact Or.inr this.2.1)
    exact rootAfter_phi specs phi0 _ _ _ ha h1 h2
  | compClean i =>
    have ha := afterOK_event specs rt h (.compClean i) trivial (by simp)
    obtain ⟨h1, h2⟩ := phiAfter_top specs phi0 rt rt (.compClean i) hp h.good trivial rfl rfl rfl id (by
      intro v hv
      have := ha.2.2.2
      rw [hv] at this
      exact Or.inr this.2.1)
    exact rootAfter_phi specs phi0 _ _ _ ha h1 h2
  | start =>
    simp only [evOk, Bool.and_eq_true, bne_iff_ne, ne_eq, Bool.not_eq_eq_eq_not, Bool.not_true] at hok
    have hph := h.notStarted hok.1 hok.2
    have hi := h.idle hph
    have hcp : rt.canPull := Or.inl ⟨hph, hp.ended hok.1⟩
    have ha := afterOK_next' specs { rt with started := true, ph := .nexting } rt.op (rt.op.need specs) h.good h.ms
      (by simp) hi rfl (hres hph)
    obtain ⟨h1, h2⟩ := phiAfter_top specs phi0 rt { rt with started := true, ph := .nexting } (.next rt.stopped) hp h.good
      ⟨hi, h.ms⟩ rfl rfl rfl (fun _ => hcp) (fun _ _ => hcp)
    exact rootAfter_phi specs phi0 _ _ _ ha h1 h2
  | next =>
    simp only [evOk, Bool.and_eq_true, beq_iff_eq, Bool.not_eq_eq_eq_not, Bool.not_true] at hok
    have hi := h.idle hok.1.2
    have hcp : rt.canPull := Or.inl ⟨hok.1.2, hok.2⟩
    have ha := afterOK_next' specs { rt with ph := .nexting } rt.op (rt.op.need specs) h.good h.ms
      (by simp [hok.1.1]) hi rfl (hres hok.1.2)
    obtain ⟨h1, h2⟩ := phiAfter_top specs phi0 rt { rt with ph := .nexting } (.next rt.stopped) hp h.good
      ⟨hi, h.ms⟩ rfl rfl rfl (fun _ => hcp) (fun _ _ => hcp)
    exact rootAfter_phi specs phi0 _ _ _ ha h1 h2
  | cleanup =>
    simp only [evOk, Bool.and_eq_true, beq_iff_eq] at hok
    have hi := h.idle hok.2
    have ha := afterOK_cleanup' specs { rt with ph := .cleaning } rt.op (rt.op.need specs) h.good h.ms
      (by simp [hok.1]) hi rfl (hres hok.2)
    obtain ⟨h1, h2⟩ := phiAfter_top specs phi0 rt { rt with ph := .cleaning } .cleanup hp h.good
      hi rfl rfl rfl (fun hc => by rcases hc with ⟨h', _⟩ | h' <;> simp at h') (by
      intro v hv
      have := ha.2.2.2
      rw [hv] at this
      simp at this)
    exact rootAfter_phi specs phi0 _ _ _ ha h1 h2
  | stop =>
    have h' : RInv { rt with stopped := true } :=
      ⟨h.good, fun _ => rfl, h.idle, h.nx, h.cl, h.res, h.fin, h.notStarted⟩
    have hp' : PInv specs phi0 { rt with stopped := true } := ⟨hp.nt, hp.si, hp.pre, hp.pull, hp.ended⟩
    simp only [rootStep]
    by_cases hs : rt.stopped = true
    · simp only [hs, if_true]; exact hp
    · have hs' : rt.stopped = false := by simpa using hs
      simp only [hs', Bool.false_eq_true, if_false]
      split
      · rename_i hph
        have ha := afterOK_event specs { rt with stopped := true } h' .stop trivial (fun _ => rfl)
        obtain ⟨h1, h2⟩ := phiAfter_top specs phi0 { rt with stopped := true } { rt with stopped := true } .stop hp' h'.good
          trivial rfl rfl rfl id (fun _ _ => Or.inr hph)
        exact rootAfter_phi specs phi0 _ _ _ ha h1 h2
      · exact hp'

theorem runEvents_phi (phi0 : List Nat) : ∀ (evs : List REv) (rt : Root), RInv rt → PInv specs phi0 rt →
    PInv specs phi0 (runEvents specs rt evs).1 := by
  intro evs
  induction evs with
  | nil => intro rt _ h; exact h
  | cons ev evs ih =>
    intro rt h hp
    simp only [runEvents]
    by_cases hok : evOk rt ev = true
    · simp only [hok, if_true]
      exact ih _ (rootStep_inv specs rt h ev hok) (rootStep_phi specs phi0 rt h hp ev hok)
    · simp only [hok]
      exact ih _ h hp


theorem Op.noTake_all (op : Op) : op.NoTake := by
  induction op with
  | leaf k st => trivial
  | un k c ih => exact ih
  | filter p c s ih => exact ih
  | stopImm c st ih => exact ih
  | takeUntil a t st iha iht => exact ⟨iha, iht⟩

/-- no take_until in the expression -/
def SExpr.NoTake : SExpr → Prop
  | .un _ s => s.NoTake
  | .filter _ s => s.NoTake
  | .stopImmediately s => s.NoTake
  | .takeUntil _ _ => False
  | _ => True

/-- the sequence a pipeline delivers when no stop request ever arrives (for take_until: the source's — the trigger
    is a stop request) -/
def SExpr.free : SExpr → List Nat
  | .range lo hi => List.range' lo (hi - lo)
  | .single v => [v]
  | .neverS => []
  | .src i => (scriptDen (specs i).nexts).1
  | .un k s => (k.den (s.free, none)).1
  | .filter p s => (filterDen p s.free none).1
  | .stopImmediately s => s.free
  | .takeUntil s _ => s.free

theorem connect_SI2 (e : SExpr) : SI2 (connect e) := by
  induction e with
  | range lo hi => simp [connect, SI2, LeafSt.init]
  | single v => simp [connect, SI2, LeafSt.init]
  | neverS => simp [connect, SI2, LeafSt.init]
  | src i => simp [connect, SI2, LeafSt.init]
  | un k s ih => exact ih
  | filter p s ih => exact ih
  | stopImmediately s ih => exact ⟨ih, by simp [StopImmSt.init], by simp [StopImmSt.init], by simp [StopImmSt.init]⟩
  | takeUntil s t ihs iht => exact ⟨ihs, iht⟩

theorem mapDen_fst (f : Fn) (l : List Nat) (t t' : Option Nat) : (mapDen f l t).1 = (mapDen f l t').1 := by
  induction l with
  | nil => rfl
  | cons x xs ih => simp only [mapDen]; cases f.app x <;> simp [ih]

theorem filterDen_fst (p : Pred) (l : List Nat) (t t' : Option Nat) : (filterDen p l t).1 = (filterDen p l t').1 := by
  induction l with
  | nil => rfl
  | cons x xs ih => simp only [filterDen]; cases p.app x <;> simp [ih]

theorem connect_phi_free (e : SExpr) : (connect e).phi specs = e.free specs := by
  induction e with
  | range lo hi => simp [connect, Op.phi, leafDenK, leafDen, SExpr.free, LeafSt.init]
  | single v => simp [connect, Op.phi, leafDenK, leafDen, SExpr.free, LeafSt.init]
  | neverS => simp [connect, Op.phi, leafDenK, leafDen, SExpr.free, LeafSt.init]
  | src i => simp [connect, Op.phi, leafDenK, leafDen, SExpr.free, LeafSt.init]
  | un k s ih => simp [connect, Op.phi, SExpr.free, ih]
  | filter p s ih => simp [connect, Op.phi, SExpr.free, ih]
  | stopImmediately s ih => simpa [connect, Op.phi, SExpr.free, StopImmSt.init] using ih
  | takeUntil s t ihs iht => simpa [connect, Op.phi, SExpr.free] using ihs

/-- without take_until, `free` is the sequence of the specification `den` (no stop) -/
theorem free_eq_den (e : SExpr) (h : e.NoTake) : e.free specs = (e.den specs false).1 := by
  induction e with
  | range lo hi => rfl
  | single v => rfl
  | neverS => rfl
  | src i => rfl
  | un k s ih =>
    simp only [SExpr.free, SExpr.den, ih h]
    cases k with
    | transform f => exact mapDen_fst f _ _ _
    | nextAdapt f => exact mapDen_fst f _ _ _
    | typeErase => rfl
    | cleanupAdapt c => rfl
  | filter p s ih =>
    simp only [SExpr.free, SExpr.den, ih h]
    exact filterDen_fst p _ _ _
  | stopImmediately s ih => simpa [SExpr.free, SExpr.den] using ih h
  | takeUntil s t ihs iht => exact absurd h (by simp [SExpr.NoTake])

end Unifex.Stream
