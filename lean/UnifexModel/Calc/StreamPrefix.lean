/-
  Calc/StreamPrefix.lean — "a stop request only shortens the sequence", for every stream expression without
  take_until, every source script and every call that respects the protocol: the values a node signals are,
  in order, a prefix of `Op.phi`, the values it would deliver if no stop request ever arrived
  (`deliver_phi`).  Uses the protocol contract (`deliver_ok`) for the legality of nested calls.
-/
import UnifexModel.Calc.StreamLemmas
import UnifexModel.Calc.StreamSafetyRoot

namespace Unifex.Stream
open Unifex.Calc (Outcome Fn)
variable (specs : Nat → SrcSpec)

/-- no take_until in the tree -/
def Op.NoTake : Op → Prop
  | .leaf _ _ => True
  | .un _ c => c.NoTake
  | .filter _ c _ => c.NoTake
  | .stopImm c _ => c.NoTake
  | .takeUntil _ _ _ => False

/-- stop_immediately: a stop request is remembered (`src`) from the moment the adaptor abandons its next() -/
def SI2 : Op → Prop
  | .leaf _ st => st.ph = .nexting → 1 ≤ st.k
  | .un _ c => SI2 c
  | .filter _ c _ => SI2 c
  | .stopImm c st => SI2 c ∧ (st.src = true → st.s ≠ .active) ∧ (st.s = .cleanupReq → st.src = true) ∧
      (st.s = .completed → c.ph ≠ .nexting)
  | .takeUntil a t _ => SI2 a ∧ SI2 t

/-- the remaining sequence of a source from script position `n` -/
def leafDenK (k : LeafKind) (n : Nat) : Den := leafDen specs k ⟨n, .idle, 0, 0⟩

/-- the values the stream would still deliver if no (further) stop request arrived -/
def Op.phi : Op → List Nat
  | .leaf k st => (leafDenK specs k (st.k - (if st.ph = .nexting then 1 else 0))).1
  | .un k c => (k.den (c.phi, none)).1
  | .filter p c _ => (filterDen p c.phi none).1
  | .stopImm c st => if st.src then [] else c.phi
  | .takeUntil a _ _ => a.phi

structure PhiPost (c : Call) (op : Op) (r : Res) : Prop where
  nt : r.1.NoTake
  si : SI2 r.1
  v : ∀ v, r.2.2 = some (.next (.value v)) → ∃ tail, op.phi specs = v :: tail ∧ r.1.phi specs <+: tail
  n : (∀ o, r.2.2 ≠ some (.next o)) → r.1.phi specs <+: op.phi specs

def PhiOK (rec : Rec) : Prop :=
  ∀ c op, Good op → Legal c op → SI2 op → op.NoTake → PhiPost specs c op (rec c op)

theorem scriptDen_drop (l : List NextSpec) (k : Nat) (h : k < l.length) :
    scriptDen (l.drop k) = (match l[k].outcome with
      | .value v => (v :: (scriptDen (l.drop (k + 1))).1, (scriptDen (l.drop (k + 1))).2)
      | .error e => ([], some e)
      | .done => ([], none)) := by
  rw [List.drop_eq_getElem_cons h]
  simp only [scriptDen]
  cases l[k].outcome <;> rfl

theorem leafDen_eq (k : LeafKind) (st : LeafSt) : leafDen specs k st = leafDenK specs k st.k := by
  cases k <;> rfl

/-- the remaining sequence of a source, unfolded once: the outcome of the next script entry -/
theorem leafDenK_entry (k : LeafKind) (n : Nat) :
    leafDenK specs k n = (match (k.entry specs n).outcome with
      | .value v => (v :: (leafDenK specs k (n + 1)).1, (leafDenK specs k (n + 1)).2)
      | .error e => ([], some e)
      | .done => ([], none)) := by
  unfold leafDenK
  cases k with
  | range lo hi =>
    by_cases h : lo + n < hi
    · have e1 : hi - (lo + n) = (hi - (lo + (n + 1))) + 1 := by omega
      simp only [leafDen, LeafKind.entry, h, if_true, NextSpec.outcome]
      rw [e1, List.range'_succ]
      have e2 : lo + n + 1 = lo + (n + 1) := by omega
      rw [e2]
    · have : hi - (lo + n) = 0 := by omega
      simp [leafDen, LeafKind.entry, h, NextSpec.outcome, this]
  | single v =>
    by_cases h : n = 0
    · simp [leafDen, LeafKind.entry, h, NextSpec.outcome]
    · simp [leafDen, LeafKind.entry, h, NextSpec.outcome]
  | never => simp [leafDen, LeafKind.entry, NextSpec.outcome]
  | src i =>
    by_cases h : n < (specs i).nexts.length
    · simp only [leafDen, LeafKind.entry]
      rw [scriptDen_drop _ _ h]
      simp [h]
    · have h1 : (specs i).nexts[n]? = none := by simp; omega
      have h2 : (specs i).nexts.drop n = [] := by simp; omega
      simp [leafDen, LeafKind.entry, h1, h2, scriptDen, NextSpec.outcome]

theorem leaf_phi (c : Call) (k : LeafKind) (st : LeafSt) (hl : Legal c (.leaf k st)) (hsi : SI2 (.leaf k st)) :
    PhiPost specs c (.leaf k st) (leafStep specs c k st) := by
  simp only [SI2] at hsi
  cases c with
  | next s =>
    have hph : st.ph = .idle := hl.1
    have hd := leafDenK_entry specs k st.k
    simp only [leafStep, hph]
    cases he : k.entry specs st.k with
    | inl o =>
      simp only [he, NextSpec.outcome] at hd
      refine ⟨trivial, by simp [SI2, hph], ?_, by simp⟩
      intro v hv
      simp only [Option.some.injEq, Sig.next.injEq] at hv
      subst hv
      exact ⟨(leafDenK specs k (st.k + 1)).1, by simp [Op.phi, hph, hd], by simp [Op.phi, hph]⟩
    | pend o r =>
      cases s <;> cases r <;>
        refine ⟨trivial, by simp [SI2], by simp, ?_⟩ <;> simp [Op.phi, hph]
  | cleanup =>
    have hph : st.ph = .idle := hl
    simp only [leafStep, hph]
    cases k.clean specs <;> refine ⟨trivial, by simp [SI2], by simp, ?_⟩ <;> simp [Op.phi, hph]
  | stop =>
    simp only [leafStep]
    cases hph : st.ph with
    | nexting =>
      simp only
      cases he : k.entry specs (st.k - 1) with
      | inl o => exact ⟨trivial, by simpa [SI2, hph] using hsi, by simp, by simp [Op.phi, hph]⟩
      | pend o r =>
        cases r
        · exact ⟨trivial, by simpa [SI2, hph] using hsi, by simp, by simp [Op.phi, hph]⟩
        · exact ⟨trivial, by simp [SI2], by simp, by simp⟩
    | idle => exact ⟨trivial, by simp [SI2, hph], by simp, by simp [Op.phi, hph]⟩
    | cleaning => exact ⟨trivial, by simp [SI2, hph], by simp, by simp [Op.phi, hph]⟩
    | cleaned => exact ⟨trivial, by simp [SI2, hph], by simp, by simp [Op.phi, hph]⟩
  | compNext j =>
    simp only [leafStep]
    split
    · rename_i h
      obtain ⟨h1, h2⟩ := h
      have hk := hsi h2
      have hd := leafDenK_entry specs k (st.k - 1)
      have e : st.k - 1 + 1 = st.k := by omega
      simp only [e] at hd
      cases he : k.entry specs (st.k - 1) with
      | inl o =>
        simp only [he, NextSpec.outcome] at hd
        refine ⟨trivial, by simp [SI2], ?_, by simp⟩
        intro v hv
        simp only [Option.some.injEq, Sig.next.injEq] at hv
        subst hv
        exact ⟨(leafDenK specs k st.k).1, by simp [Op.phi, h2, hd], by simp [Op.phi]⟩
      | pend o r =>
        simp only [he, NextSpec.outcome] at hd
        refine ⟨trivial, by simp [SI2], ?_, by simp⟩
        intro v hv
        simp only [Option.some.injEq, Sig.next.injEq] at hv
        subst hv
        exact ⟨(leafDenK specs k st.k).1, by simp [Op.phi, h2, hd], by simp [Op.phi]⟩
    · exact ⟨trivial, hsi, by simp, by simp⟩
  | compClean j =>
    simp only [leafStep]
    split
    · rename_i h
      exact ⟨trivial, by simp [SI2], by simp, by simp [Op.phi, h.2]⟩
    · exact ⟨trivial, hsi, by simp, by simp⟩


theorem mapDen_prefix' (f : Fn) (l1 r : List Nat) (t1 t2 : Option Nat) :
    (mapDen f l1 t1).1 <+: (mapDen f (l1 ++ r) t2).1 := by
  induction l1 with
  | nil => simp [mapDen]
  | cons x xs ih =>
    simp only [List.cons_append, mapDen]
    cases f.app x with
    | value y => simpa using ih
    | error e => simp
    | done => simp

theorem filterDen_prefix' (p : Pred) (l1 r : List Nat) (t1 t2 : Option Nat) :
    (filterDen p l1 t1).1 <+: (filterDen p (l1 ++ r) t2).1 := by
  induction l1 with
  | nil => simp [filterDen]
  | cons x xs ih =>
    simp only [List.cons_append, filterDen]
    cases p.app x with
    | keep => simpa using ih
    | drop => exact ih
    | throw e => simp

theorem un_den_prefix (k : UnKind) {l1 l2 : List Nat} (h : l1 <+: l2) : (k.den (l1, none)).1 <+: (k.den (l2, none)).1 := by
  obtain ⟨r, rfl⟩ := h
  cases k with
  | transform f => exact mapDen_prefix' f l1 r _ _
  | nextAdapt f => exact mapDen_prefix' f l1 r _ _
  | typeErase => exact ⟨r, rfl⟩
  | cleanupAdapt c => exact ⟨r, rfl⟩

theorem filterDen_mono (p : Pred) {l1 l2 : List Nat} (h : l1 <+: l2) :
    (filterDen p l1 none).1 <+: (filterDen p l2 none).1 := by
  obtain ⟨r, rfl⟩ := h
  exact filterDen_prefix' p l1 r _ _

theorem un_den_cons (k : UnKind) (v w : Nat) (tail : List Nat) (h : k.mapNext (.value v) = .value w) :
    (k.den (v :: tail, none)).1 = w :: (k.den (tail, none)).1 := by
  cases k with
  | transform f => simp only [UnKind.mapNext] at h; simp [UnKind.den, mapDen, h]
  | nextAdapt f => simp only [UnKind.mapNext] at h; simp [UnKind.den, mapDen, h]
  | typeErase => simp only [UnKind.mapNext] at h; cases h; rfl
  | cleanupAdapt c => simp only [UnKind.mapNext] at h; cases h; rfl

theorem prefix_cons_of {w : Nat} {t1 X : List Nat} (h : w :: t1 <+: X) : ∃ t2, X = w :: t2 ∧ t1 <+: t2 := by
  obtain ⟨r, rfl⟩ := h
  exact ⟨t1 ++ r, rfl, List.prefix_append _ _⟩

theorem un_phi (rec : Rec) (hrec : RecOK rec) (hphi : PhiOK specs rec) (c : Call) (k : UnKind) (ch : Op)
    (hg : Good (.un k ch)) (hl : Legal c (.un k ch)) (hsi : SI2 (.un k ch)) (hnt : (Op.un k ch).NoTake) :
    PhiPost specs c (.un k ch) (unStep rec c k ch) := by
  have hlc : Legal c ch := by cases c <;> simpa [Legal, Op.ph, Op.mustStop] using hl
  obtain ⟨nt, si, hv, hn⟩ := hphi c ch hg hlc hsi hnt
  simp only [unStep]
  cases hs : (rec c ch).2.2 with
  | none =>
    refine ⟨nt, si, by simp, fun _ => ?_⟩
    exact un_den_prefix k (hn (by simp [hs]))
  | some sg =>
    cases sg with
    | clean e =>
      refine ⟨nt, si, by simp, fun _ => ?_⟩
      exact un_den_prefix k (hn (by simp [hs]))
    | next o =>
      refine ⟨nt, si, ?_, by simp⟩
      intro w hw
      simp only [Option.some.injEq, Sig.next.injEq] at hw
      cases o with
      | value v =>
        obtain ⟨tail, h1, h2⟩ := hv v hs
        refine ⟨(k.den (tail, none)).1, ?_, un_den_prefix k h2⟩
        simp only [Op.phi, h1]
        exact un_den_cons k v w tail hw
      | done => cases k <;> simp [UnKind.mapNext] at hw
      | error e => cases k <;> simp [UnKind.mapNext] at hw


theorem filter_drop_ready (rec : Rec) (hrec : RecOK rec) (c : Call) (p : Pred) (ch : Op) (s0 : Bool)
    (hg : Good (.filter p ch s0)) (hl : Legal c (.filter p ch s0)) (o : Outcome)
    (hs : (rec c ch).2.2 = some (.next o)) :
    Good (.filter p (rec c ch).1 (flagOf c s0)) ∧ Legal (.next (flagOf c s0)) (.filter p (rec c ch).1 (flagOf c s0)) := by
  obtain ⟨hgc, hinv⟩ := hg
  have hlc : Legal c ch := by cases c <;> simpa [Legal, Op.ph, Op.mustStop] using hl
  obtain ⟨g, f1, f2, f3, ms, fr⟩ := hrec c ch hgc hlc
  have hflag : (rec c ch).1.mustStop = true → flagOf c s0 = true := by
    intro h
    rcases ms h with h1 | h1
    · cases c with
      | next s => exact hlc.2 h1
      | stop => rfl
      | cleanup => exact hinv h1
      | compNext i => exact hinv h1
      | compClean i => exact hinv h1
    · subst h1; rfl
  exact ⟨⟨g, hflag⟩, by simpa [Op.ph] using (f1 o hs).1, by simpa [Op.mustStop] using hflag⟩

theorem filter_phi (rec : Rec) (hrec : RecOK rec) (hphi : PhiOK specs rec) (c : Call) (p : Pred) (ch : Op) (s0 : Bool)
    (hg : Good (.filter p ch s0)) (hl : Legal c (.filter p ch s0)) (hsi : SI2 (.filter p ch s0))
    (hnt : (Op.filter p ch s0).NoTake) :
    PhiPost specs c (.filter p ch s0) (filterStep rec c p ch s0) := by
  have hlc : Legal c ch := by cases c <;> simpa [Legal, Op.ph, Op.mustStop] using hl
  obtain ⟨nt, si, hv, hn⟩ := hphi c ch hg.1 hlc hsi hnt
  rw [filterStep_eq]
  cases hs : (rec c ch).2.2 with
  | none =>
    have e : filterAfter rec p (flagOf c s0) (rec c ch) = (.filter p (rec c ch).1 (flagOf c s0), (rec c ch).2.1, none) := by
      simp [filterAfter, hs]
    rw [e]
    exact ⟨nt, si, by simp, fun _ => filterDen_mono p (hn (by simp [hs]))⟩
  | some sg =>
    cases sg with
    | clean e =>
      have e' : filterAfter rec p (flagOf c s0) (rec c ch) =
          (.filter p (rec c ch).1 (flagOf c s0), (rec c ch).2.1, some (.clean e)) := by
        simp [filterAfter, hs]
      rw [e']
      exact ⟨nt, si, by simp, fun _ => filterDen_mono p (hn (by simp [hs]))⟩
    | next o =>
      cases o with
      | done =>
        have e' : filterAfter rec p (flagOf c s0) (rec c ch) =
            (.filter p (rec c ch).1 (flagOf c s0), (rec c ch).2.1, some (.next .done)) := by
          simp [filterAfter, hs]
        rw [e']
        exact ⟨nt, si, by simp, by simp⟩
      | error e =>
        have e' : filterAfter rec p (flagOf c s0) (rec c ch) =
            (.filter p (rec c ch).1 (flagOf c s0), (rec c ch).2.1, some (.next (.error e))) := by
          simp [filterAfter, hs]
        rw [e']
        exact ⟨nt, si, by simp, by simp⟩
      | value v =>
        obtain ⟨tail, h1, h2⟩ := hv v hs
        cases hp : p.app v with
        | keep =>
          have e' : filterAfter rec p (flagOf c s0) (rec c ch) =
              (.filter p (rec c ch).1 (flagOf c s0), (rec c ch).2.1, some (.next (.value v))) := by
            simp [filterAfter, hs, hp]
          rw [e']
          refine ⟨nt, si, ?_, by simp⟩
          intro w hw
          simp only [Option.some.injEq, Sig.next.injEq, Outcome.value.injEq] at hw
          subst hw
          exact ⟨(filterDen p tail none).1, by simp [Op.phi, h1, filterDen, hp], filterDen_mono p h2⟩
        | throw e =>
          have e' : filterAfter rec p (flagOf c s0) (rec c ch) =
              (.filter p (rec c ch).1 (flagOf c s0), (rec c ch).2.1, some (.next (.error e))) := by
            simp [filterAfter, hs, hp]
          rw [e']
          exact ⟨nt, si, by simp, by simp⟩
        | drop =>
          obtain ⟨hg2, hl2⟩ := filter_drop_ready rec hrec c p ch s0 hg hl _ hs
          obtain ⟨nt2, si2, hv2, hn2⟩ := hphi _ _ hg2 hl2 si nt
          have e' : filterAfter rec p (flagOf c s0) (rec c ch) =
              ((rec (.next (flagOf c s0)) (.filter p (rec c ch).1 (flagOf c s0))).1,
               (rec c ch).2.1 ++ (rec (.next (flagOf c s0)) (.filter p (rec c ch).1 (flagOf c s0))).2.1,
               (rec (.next (flagOf c s0)) (.filter p (rec c ch).1 (flagOf c s0))).2.2) := by
            simp [filterAfter, hs, hp]
          rw [e']
          have hpre : (Op.filter p (rec c ch).1 (flagOf c s0)).phi specs <+: (Op.filter p ch s0).phi specs := by
            simp only [Op.phi, h1, filterDen, hp]
            exact filterDen_mono p h2
          refine ⟨nt2, si2, ?_, fun h => (hn2 h).trans hpre⟩
          intro w hw
          obtain ⟨tail2, h3, h4⟩ := hv2 w hw
          rw [h3] at hpre
          obtain ⟨t3, h5, h6⟩ := prefix_cons_of hpre
          exact ⟨t3, h5, h4.trans h6⟩


theorem stopImm_phi_event (rec : Rec) (hrec : RecOK rec) (hphi : PhiOK specs rec) (ev : Call) (hev : ev.isEvent)
    (hns : ev ≠ .stop) (c : Op) (st : StopImmSt)
    (hg : Good (.stopImm c st)) (hsi : SI2 (.stopImm c st)) (hnt : (Op.stopImm c st).NoTake) :
    PhiPost specs ev (.stopImm c st) (siOnChild rec (rec ev c).1 st (rec ev c).2.1 (rec ev c).2.2) := by
  obtain ⟨hgc, i1, i2, i3, i4, i5, i6, i7, i8, i9, i10⟩ := hg
  obtain ⟨sic, s1, s2, s3⟩ := hsi
  have hl : Legal ev c := by cases ev <;> simp_all [Legal, Call.isEvent]
  have hnn : ¬ ∃ s, ev = .next s := by rintro ⟨s, rfl⟩; exact hev
  have hnc : ev ≠ .cleanup := by rintro rfl; exact hev
  obtain ⟨g, f1, f2, f3, ms, fr⟩ := hrec ev c hgc hl
  obtain ⟨nt, si, hv, hn⟩ := hphi ev c hgc hl sic hnt
  generalize hr : rec ev c = r at *
  obtain ⟨c', outs, sg⟩ := r
  simp only at g f1 f2 f3 ms fr nt si hv hn
  cases sg with
  | none =>
    have h3 : c'.ph = c.ph ∨ (c.ph = .nexting ∧ c'.ph = .idle) := by
      rcases f3 rfl with h | ⟨h, _⟩ | ⟨h, _⟩ | h
      · exact Or.inl h
      · exact absurd h hnn
      · exact absurd h hnc
      · exact Or.inr h
    simp only [siOnChild]
    refine ⟨nt, ⟨si, s1, s2, fun h => ?_⟩, by simp, fun _ => ?_⟩
    · have := s3 h
      rcases h3 with h3 | ⟨h3, _⟩ <;> simp_all
    · simp only [Op.phi]
      split
      · exact List.prefix_refl _
      · exact hn (by simp)
  | some x =>
    cases x with
    | clean e =>
      obtain ⟨h2, _⟩ := f2 e rfl
      simp only [siOnChild, siOnClean]
      refine ⟨nt, ⟨si, s1, s2, fun _ => by simp [h2]⟩, by simp, fun _ => ?_⟩
      simp only [Op.phi]
      split
      · exact List.prefix_refl _
      · exact hn (by simp)
    | next o =>
      obtain ⟨h1, h1'⟩ := f1 o rfl
      have hcn : c.ph = .nexting := by
        rcases h1' with h | h
        · exact h
        · exact absurd h hnn
      cases hs : st.s with
      | notStarted => have := fresh_ph (i4 hs).1; simp_all
      | completed => exact absurd hcn (s3 hs)
      | active =>
        have hsrc : st.src = false := by
          cases h : st.src
          · rfl
          · exact absurd hs (s1 h)
        simp only [siOnChild, hs]
        refine ⟨nt, ⟨si, by simp [hsrc], by simp, fun _ => by simp [h1]⟩, ?_, by simp⟩
        intro v hv'
        simp only [Option.some.injEq, Sig.next.injEq] at hv'
        subst hv'
        obtain ⟨tail, h5, h6⟩ := hv v rfl
        exact ⟨tail, by simp [Op.phi, hsrc, h5], by simpa [Op.phi, hsrc] using h6⟩
      | stopped =>
        have hsrc := (i7 hs).1
        simp only [siOnChild, hs]
        exact ⟨nt, ⟨si, by simp, by simp, fun _ => by simp [h1]⟩, by simp, by simp [Op.phi, hsrc]⟩
      | cleanupReq =>
        have hsrc := s2 hs
        obtain ⟨g2, f12, f22, f32, ms2, fr2⟩ := hrec .cleanup c' g h1
        obtain ⟨nt2, si2, hv2, hn2⟩ := hphi .cleanup c' g h1 si nt
        simp only [siOnChild, hs]
        generalize hr2 : rec .cleanup c' = r2 at *
        obtain ⟨c2, outs2, sg2⟩ := r2
        simp only at g2 f12 f22 f32 ms2 fr2 nt2 si2 hv2 hn2
        cases sg2 with
        | none =>
          simp only [siOnClean]
          exact ⟨nt2, ⟨si2, by simp [hs], by simp [hsrc], by simp [hs]⟩, by simp, by simp [Op.phi, hsrc]⟩
        | some y =>
          cases y with
          | next o2 => have := (f12 o2 rfl).2; simp [h1] at this
          | clean e =>
            simp only [siOnClean]
            exact ⟨nt2, ⟨si2, by simp [hs], by simp [hsrc], by simp [hs]⟩, by simp, by simp [Op.phi, hsrc]⟩


theorem stopImm_phi (rec : Rec) (hrec : RecOK rec) (hphi : PhiOK specs rec) (call : Call) (c : Op) (st : StopImmSt)
    (hg : Good (.stopImm c st)) (hl : Legal call (.stopImm c st)) (hsi : SI2 (.stopImm c st))
    (hnt : (Op.stopImm c st).NoTake) :
    PhiPost specs call (.stopImm c st) (stopImmStep rec call c st) := by
  have hg' := hg
  have hsi' := hsi
  obtain ⟨hgc, i1, i2, i3, i4, i5, i6, i7, i8, i9, i10⟩ := hg
  obtain ⟨sic, s1, s2, s3⟩ := hsi
  cases call with
  | compNext j => exact stopImm_phi_event specs rec hrec hphi (.compNext j) trivial (by simp) c st hg' hsi' hnt
  | compClean j => exact stopImm_phi_event specs rec hrec hphi (.compClean j) trivial (by simp) c st hg' hsi' hnt
  | next stopped =>
    obtain ⟨hph, hms⟩ := hl
    simp only [Op.ph, Op.mustStop] at hph hms
    simp only [stopImmStep, hph]
    cases stopped with
    | true =>
      simp only [if_true]
      exact ⟨hnt, hsi', by simp, by simp⟩
    | false =>
      have hsrc : st.src = false := by cases h : st.src <;> simp_all
      have hs : st.s ≠ .stopped := fun h => by have := (i7 h).1; simp_all
      have hcph := i3 hph hs
      have hcm : c.mustStop = false := by cases h : c.mustStop <;> simp_all
      have hlc : Legal (.next false) c := ⟨hcph, by simp [hcm]⟩
      obtain ⟨g, f1, f2, f3, ms, fr⟩ := hrec (.next false) c hgc hlc
      obtain ⟨nt, si, hv, hn⟩ := hphi (.next false) c hgc hlc sic hnt
      simp only [Bool.false_eq_true, if_false, hsrc]
      generalize hr : rec (.next false) c = r at *
      obtain ⟨c', outs, sg⟩ := r
      simp only at g f1 f2 f3 ms fr nt si hv hn
      cases sg with
      | none =>
        simp only [siOnChild]
        refine ⟨nt, ⟨si, by simp, by simp, by simp⟩, by simp, fun _ => ?_⟩
        simpa [Op.phi, hsrc] using hn (by simp)
      | some x =>
        cases x with
        | clean e =>
          have := (f2 e rfl).2
          simp [hcph] at this
        | next o =>
          have h1 := (f1 o rfl).1
          simp only [siOnChild]
          refine ⟨nt, ⟨si, by simp, by simp, fun _ => by simp [h1]⟩, ?_, by simp⟩
          intro v hv'
          simp only [Option.some.injEq, Sig.next.injEq] at hv'
          subst hv'
          obtain ⟨tail, h5, h6⟩ := hv v rfl
          exact ⟨tail, by simp [Op.phi, hsrc, h5], by simpa [Op.phi, hsrc] using h6⟩
  | stop =>
    simp only [stopImmStep]
    by_cases hact : st.ph = .nexting
    · have hs := i5.1 hact
      simp only [hact, hs]
      obtain ⟨g, f1, f2, f3, ms, fr⟩ := hrec .stop c hgc trivial
      obtain ⟨nt, si, hv, hn⟩ := hphi .stop c hgc trivial sic hnt
      generalize hr : rec .stop c = r at *
      obtain ⟨c', outs, sg⟩ := r
      simp only at g f1 f2 f3 ms fr nt si hv hn
      refine ⟨nt, ?_, by simp, by simp⟩
      cases sg with
      | none => exact ⟨si, by simp, by simp, by simp⟩
      | some x =>
        cases x with
        | next o => exact ⟨si, by simp, by simp, fun _ => by simp [(f1 o rfl).1]⟩
        | clean e => exact ⟨si, by simp, by simp, by simp⟩
    · have e1 : (match st.ph, st.s with
          | .nexting, .active =>
            (Op.stopImm (rec .stop c).1
              { (match (rec .stop c).2.2 with
                  | some (.next o) => { st with s := .completed, src := true, nextErr := keepErr o st.nextErr }
                  | _ => { st with s := .stopped, src := true }) with ph := .idle },
              (rec .stop c).2.1, some (Sig.next .done))
          | _, _ => (Op.stopImm c st, [], none)) = (Op.stopImm c st, [], none) := by
        split
        · rename_i h1 h2; exact absurd h1 hact
        · rfl
      have e2 : stopImmStep rec .stop c st = (Op.stopImm c st, [], none) := by
        simp only [stopImmStep]
        split
        · rename_i h1 h2; exact absurd h1 hact
        · rfl
      simp only [stopImmStep] at e2
      rw [e2]
      exact ⟨hnt, hsi', by simp, by simp⟩
  | cleanup =>
    have hph : st.ph = .idle := hl
    simp only [stopImmStep, hph]
    rcases i2 hph with hs | hs | hs
    · simp only [hs]
      exact ⟨hnt, ⟨sic, by simpa [hs] using s1, by simp [hs], by simp [hs]⟩, by simp, by simp [Op.phi]⟩
    · simp only [hs]
      have hcph := i3 hph (by simp [hs])
      obtain ⟨g, f1, f2, f3, ms, fr⟩ := hrec .cleanup c hgc hcph
      obtain ⟨nt, si, hv, hn⟩ := hphi .cleanup c hgc hcph sic hnt
      generalize hr : rec .cleanup c = r at *
      obtain ⟨c', outs, sg⟩ := r
      simp only at g f1 f2 f3 ms fr nt si hv hn
      cases sg with
      | none =>
        have h3 : c'.ph = .idle ∨ c'.ph = .cleaning := by
          rcases f3 rfl with h | ⟨⟨s, h⟩, _⟩ | ⟨_, h⟩ | ⟨h, _⟩
          · left; rw [h, hcph]
          · simp at h
          · exact Or.inr h
          · simp [hcph] at h
        simp only [siOnClean]
        refine ⟨nt, ⟨si, by simpa [hs] using s1, by simp [hs], fun _ => by rcases h3 with h | h <;> simp [h]⟩,
          by simp, fun _ => ?_⟩
        simp only [Op.phi]
        split
        · exact List.prefix_refl _
        · exact hn (by simp)
      | some x =>
        cases x with
        | next o => have := (f1 o rfl).2; simp [hcph] at this
        | clean e =>
          have h2 := (f2 e rfl).1
          simp only [siOnClean]
          refine ⟨nt, ⟨si, by simpa [hs] using s1, by simp [hs], fun _ => by simp [h2]⟩, by simp, fun _ => ?_⟩
          simp only [Op.phi]
          split
          · exact List.prefix_refl _
          · exact hn (by simp)
    · simp only [hs]
      have hsrc := (i7 hs).1
      exact ⟨hnt, ⟨sic, by simp, fun _ => hsrc, by simp⟩, by simp, by simp [Op.phi]⟩

/-- **the values a stream signals are, in order, a prefix of what it would deliver without any stop request** —
    for every stream expression without take_until, every script and every call respecting the protocol -/
theorem deliver_phi : ∀ fuel, PhiOK specs (deliver specs fuel) := by
  intro fuel
  induction fuel with
  | zero =>
    intro c op hg hl hsi hnt
    exact ⟨hnt, hsi, by simp [deliver], fun _ => List.prefix_refl _⟩
  | succ n ih =>
    intro c op hg hl hsi hnt
    have hrec := deliver_ok specs n
    cases op with
    | leaf k st => simpa [deliver] using leaf_phi specs c k st hl hsi
    | un k ch => simpa [deliver] using un_phi specs _ hrec ih c k ch hg hl hsi hnt
    | filter p ch s => simpa [deliver] using filter_phi specs _ hrec ih c p ch s hg hl hsi hnt
    | stopImm ch st => simpa [deliver] using stopImm_phi specs _ hrec ih c ch st hg hl hsi hnt
    | takeUntil a t st => exact absurd hnt (by simp [Op.NoTake])

/-- fuel bookkeeping: a call never increases `Op.need`, and a value signal strictly decreases it -/
structure NeedPost (op : Op) (r : Res) : Prop where
  nt : r.1.NoTake
  le : r.1.need specs ≤ op.need specs
  lt : ∀ v, r.2.2 = some (.next (.value v)) → r.1.need specs < op.need specs

def NeedOK (rec : Rec) : Prop := ∀ c op, op.NoTake → NeedPost specs op (rec c op)

theorem src_entry_lt (i : Nat) (n : Nat) (e : NextSpec) (h : (LeafKind.src i).entry specs n = e)
    (hne : e ≠ .inl .done) : n < (specs i).nexts.length := by
  rcases Nat.lt_or_ge n (specs i).nexts.length with h1 | h1
  · exact h1
  · exfalso
    have : (specs i).nexts[n]? = none := by simp; omega
    simp [LeafKind.entry, this] at h
    exact hne h.symm

theorem leaf_need_src (c : Call) (i : Nat) (st : LeafSt) :
    NeedPost specs (.leaf (.src i) st) (leafStep specs c (.src i) st) := by
  cases c with
  | next s =>
    simp only [leafStep]
    cases hph : st.ph with
    | idle =>
      simp only
      cases he : (LeafKind.src i).entry specs st.k with
      | inl o =>
        refine ⟨trivial, by simp [Op.need, leafRem, hph]; omega, ?_⟩
        intro v hv
        simp only [Option.some.injEq, Sig.next.injEq] at hv
        subst hv
        have := src_entry_lt specs i st.k _ he (by simp)
        simp [Op.need, leafRem, hph]; omega
      | pend o r =>
        have := src_entry_lt specs i st.k _ he (by simp)
        cases s <;> cases r <;> refine ⟨trivial, ?_, by simp⟩ <;> simp [Op.need, leafRem, hph] <;> omega
    | nexting => exact ⟨trivial, by simp [Op.need, leafRem, hph], by simp⟩
    | cleaning => exact ⟨trivial, by simp [Op.need, leafRem, hph], by simp⟩
    | cleaned => exact ⟨trivial, by simp [Op.need, leafRem, hph], by simp⟩
  | stop =>
    simp only [leafStep]
    cases hph : st.ph with
    | nexting =>
      simp only
      cases he : (LeafKind.src i).entry specs (st.k - 1) with
      | inl o => exact ⟨trivial, by simp [Op.need, leafRem], by simp⟩
      | pend o r => cases r <;> refine ⟨trivial, ?_, by simp⟩ <;> simp [Op.need, leafRem, hph]
    | idle => exact ⟨trivial, by simp [Op.need, leafRem], by simp⟩
    | cleaning => exact ⟨trivial, by simp [Op.need, leafRem], by simp⟩
    | cleaned => exact ⟨trivial, by simp [Op.need, leafRem], by simp⟩
  | compNext j =>
    simp only [leafStep]
    split
    · rename_i h
      cases (LeafKind.src i).entry specs (st.k - 1) <;>
        exact ⟨trivial, by simp [Op.need, leafRem, h.2], fun v _ => by simp [Op.need, leafRem, h.2]⟩
    · exact ⟨trivial, by simp [Op.need, leafRem], by simp⟩
  | cleanup =>
    simp only [leafStep]
    cases hph : st.ph with
    | idle =>
      simp only
      cases (LeafKind.src i).clean specs <;> exact ⟨trivial, by simp [Op.need, leafRem, hph], by simp⟩
    | nexting => exact ⟨trivial, by simp [Op.need, leafRem, hph], by simp⟩
    | cleaning => exact ⟨trivial, by simp [Op.need, leafRem, hph], by simp⟩
    | cleaned => exact ⟨trivial, by simp [Op.need, leafRem, hph], by simp⟩
  | compClean j =>
    simp only [leafStep]
    split
    · rename_i h
      exact ⟨trivial, by simp [Op.need, leafRem, h.2], by simp⟩
    · exact ⟨trivial, by simp [Op.need, leafRem], by simp⟩


theorem leaf_need_other (c : Call) (k : LeafKind) (st : LeafSt) (hk : ∀ i, k ≠ .src i) :
    NeedPost specs (.leaf k st) (leafStep specs c k st) := by
  have hcl : k.clean specs = .inl none := by cases k <;> simp_all [LeafKind.clean]
  cases c with
  | next s =>
    simp only [leafStep]
    cases hph : st.ph with
    | idle =>
      simp only
      cases k with
      | src i => exact absurd rfl (hk i)
      | range lo hi =>
        by_cases h : lo + st.k < hi
        · simp only [LeafKind.entry, h, if_true]
          exact ⟨trivial, by simp [Op.need, leafRem]; omega, fun v _ => by simp [Op.need, leafRem]; omega⟩
        · simp only [LeafKind.entry, h]
          exact ⟨trivial, by simp [Op.need, leafRem]; omega, by simp⟩
      | single w =>
        by_cases h : st.k = 0
        · simp only [LeafKind.entry, h, if_true]
          exact ⟨trivial, by simp [Op.need, leafRem], fun v _ => by simp [Op.need, leafRem, h]⟩
        · simp only [LeafKind.entry, h]
          exact ⟨trivial, by simp [Op.need, leafRem], by simp⟩
      | never =>
        simp only [LeafKind.entry]
        cases s <;> exact ⟨trivial, by simp [Op.need, leafRem], by simp⟩
    | nexting => exact ⟨trivial, by simp [Op.need, leafRem, hph], by simp⟩
    | cleaning => exact ⟨trivial, by simp [Op.need, leafRem, hph], by simp⟩
    | cleaned => exact ⟨trivial, by simp [Op.need, leafRem, hph], by simp⟩
  | stop =>
    simp only [leafStep]
    cases hph : st.ph with
    | nexting =>
      simp only
      cases k.entry specs (st.k - 1) with
      | inl o => exact ⟨trivial, Nat.le_refl _, by simp⟩
      | pend o r =>
        cases r
        · exact ⟨trivial, Nat.le_refl _, by simp⟩
        · refine ⟨trivial, ?_, by simp⟩
          cases k <;> simp_all [Op.need, leafRem]
    | idle => exact ⟨trivial, Nat.le_refl _, by simp⟩
    | cleaning => exact ⟨trivial, Nat.le_refl _, by simp⟩
    | cleaned => exact ⟨trivial, Nat.le_refl _, by simp⟩
  | compNext j =>
    simp only [leafStep]
    split
    · rename_i h; exact absurd h.1 (hk j)
    · exact ⟨trivial, Nat.le_refl _, by simp⟩
  | cleanup =>
    simp only [leafStep, hcl]
    cases hph : st.ph <;> refine ⟨trivial, ?_, by simp⟩ <;> cases k <;> simp_all [Op.need, leafRem]
  | compClean j =>
    simp only [leafStep]
    split
    · rename_i h; exact absurd h.1 (hk j)
    · exact ⟨trivial, Nat.le_refl _, by simp⟩

theorem leaf_need (c : Call) (k : LeafKind) (st : LeafSt) : NeedPost specs (.leaf k st) (leafStep specs c k st) := by
  cases k with
  | src i => exact leaf_need_src specs c i st
  | range lo hi => exact leaf_need_other specs c _ st (by simp)
  | single v => exact leaf_need_other specs c _ st (by simp)
  | never => exact leaf_need_other specs c _ st (by simp)


theorem un_need (rec : Rec) (hrec : NeedOK specs rec) (c : Call) (k : UnKind) (ch : Op) (hnt : ch.NoTake) :
    NeedPost specs (.un k ch) (unStep rec c k ch) := by
  obtain ⟨nt, le, lt⟩ := hrec c ch hnt
  simp only [unStep]
  cases hs : (rec c ch).2.2 with
  | none => exact ⟨nt, by simp [Op.need]; exact le, by simp⟩
  | some sg =>
    cases sg with
    | clean e => exact ⟨nt, by simp [Op.need]; exact le, by simp⟩
    | next o =>
      refine ⟨nt, by simp [Op.need]; exact le, ?_⟩
      intro w hw
      simp only [Option.some.injEq, Sig.next.injEq] at hw
      cases o with
      | value v => have := lt v hs; simp only [Op.need]; omega
      | done => cases k <;> simp [UnKind.mapNext] at hw
      | error e => cases k <;> simp [UnKind.mapNext] at hw

theorem filter_need (rec : Rec) (hrec : NeedOK specs rec) (c : Call) (p : Pred) (ch : Op) (s0 : Bool) (hnt : ch.NoTake) :
    NeedPost specs (.filter p ch s0) (filterStep rec c p ch s0) := by
  obtain ⟨nt, le, lt⟩ := hrec c ch hnt
  rw [filterStep_eq]
  have base : ∀ sg', (∀ v, sg' = some (.next (.value v)) → (rec c ch).2.2 = some (.next (.value v))) →
      NeedPost specs (.filter p ch s0) (.filter p (rec c ch).1 (flagOf c s0), (rec c ch).2.1, sg') := by
    intro sg' h
    exact ⟨nt, by simp [Op.need]; exact le, fun v hv => by have := lt v (h v hv); simp only [Op.need]; omega⟩
  cases hs : (rec c ch).2.2 with
  | none => simpa [filterAfter, hs] using base none (by simp)
  | some sg =>
    cases sg with
    | clean e => simpa [filterAfter, hs] using base (some (.clean e)) (by simp)
    | next o =>
      cases o with
      | done => simpa [filterAfter, hs] using base (some (.next .done)) (by simp)
      | error e => simpa [filterAfter, hs] using base (some (.next (.error e))) (by simp)
      | value v =>
        cases hp : p.app v with
        | keep => simpa [filterAfter, hs, hp] using base (some (.next (.value v))) (by simp [hs])
        | throw e => simpa [filterAfter, hs, hp] using base (some (.next (.error e))) (by simp)
        | drop =>
          have hlt := lt v hs
          obtain ⟨nt2, le2, lt2⟩ := hrec (.next (flagOf c s0)) (.filter p (rec c ch).1 (flagOf c s0)) nt
          have h1 : (Op.filter p ch s0).need specs = ch.need specs + 1 := rfl
          have h2 : (Op.filter p (rec c ch).1 (flagOf c s0)).need specs = (rec c ch).1.need specs + 1 := rfl
          rw [h2] at le2 lt2
          simp only [filterAfter, hs, hp]
          refine ⟨nt2, ?_, ?_⟩
          · dsimp only; rw [h1]; omega
          · intro w hw
            have := lt2 w hw
            dsimp only; rw [h1]; omega

theorem stopImm_need (rec : Rec) (hrec : NeedOK specs rec) (call : Call) (c : Op) (st : StopImmSt) (hnt : c.NoTake) :
    NeedPost specs (.stopImm c st) (stopImmStep rec call c st) := by
  -- every clause calls the child at most twice (the second time cleanup) and forwards only the child's value
  have onClean : ∀ (c' : Op) (st' : StopImmSt) outs sg, c'.NoTake → c'.need specs ≤ c.need specs →
      NeedPost specs (.stopImm c st) (siOnClean c' st' outs sg) := by
    intro c' st' outs sg h1 h2
    unfold siOnClean
    split <;> exact ⟨h1, by simp [Op.need]; exact h2, by simp⟩
  have onChild : ∀ (ev : Call) (st' : StopImmSt),
      NeedPost specs (.stopImm c st) (siOnChild rec (rec ev c).1 st' (rec ev c).2.1 (rec ev c).2.2) := by
    intro ev st'
    obtain ⟨nt, le, lt⟩ := hrec ev c hnt
    unfold siOnChild
    split
    · exact ⟨nt, by simp [Op.need]; exact le, by simp⟩
    · rename_i o hs
      split
      · refine ⟨nt, by simp [Op.need]; exact le, ?_⟩
        intro v hv
        simp only [Option.some.injEq, Sig.next.injEq] at hv
        subst hv
        have := lt v hs
        simp only [Op.need]; omega
      · exact ⟨nt, by simp [Op.need]; exact le, by simp⟩
      · obtain ⟨nt2, le2, lt2⟩ := hrec .cleanup (rec ev c).1 nt
        exact onClean _ _ _ _ nt2 (by omega)
      · exact ⟨nt, by simp [Op.need]; exact le, by simp⟩
    · exact onClean _ _ _ _ nt le
  cases call with
  | compNext j => exact onChild _ st
  | compClean j => exact onChild _ st
  | next stopped =>
    simp only [stopImmStep]
    split
    · split
      · exact ⟨hnt, Nat.le_refl _, by simp⟩
      · exact onChild _ _
    · exact ⟨hnt, Nat.le_refl _, by simp⟩
  | stop =>
    simp only [stopImmStep]
    split
    · obtain ⟨nt, le, lt⟩ := hrec .stop c hnt
      exact ⟨nt, by simp [Op.need]; exact le, by simp⟩
    · exact ⟨hnt, Nat.le_refl _, by simp⟩
  | cleanup =>
    simp only [stopImmStep]
    split
    · split
      · exact ⟨hnt, Nat.le_refl _, by simp⟩
      · obtain ⟨nt, le, lt⟩ := hrec .cleanup c hnt
        exact onClean _ _ _ _ nt le
      · exact ⟨hnt, Nat.le_refl _, by simp⟩
      · exact ⟨hnt, Nat.le_refl _, by simp⟩
    · exact ⟨hnt, Nat.le_refl _, by simp⟩

theorem deliver_need : ∀ fuel, NeedOK specs (deliver specs fuel) := by
  intro fuel
  induction fuel with
  | zero => intro c op hnt; exact ⟨hnt, Nat.le_refl _, by simp [deliver]⟩
  | succ n ih =>
    intro c op hnt
    cases op with
    | leaf k st => simpa [deliver] using leaf_need specs c k st
    | un k ch => simpa [deliver] using un_need specs _ ih c k ch hnt
    | filter p ch s => simpa [deliver] using filter_need specs _ ih c p ch s hnt
    | stopImm ch st => simpa [deliver] using stopImm_need specs _ ih c ch st hnt
    | takeUntil a t st => exact absurd hnt (by simp [Op.NoTake])

/-- may the consumer still pull? -/
def Root.canPull (rt : Root) : Prop := (rt.ph = .idle ∧ rt.ended = false) ∨ rt.ph = .nexting

structure PInv (phi0 : List Nat) (rt : Root) : Prop where
  nt : rt.op.NoTake
  si : SI2 rt.op
  pre : rt.delivered <+: phi0
  pull : rt.canPull → rt.delivered ++ rt.op.phi specs <+: phi0
  ended : rt.cons.kind ≠ .manual → rt.ended = false

/-- what `rootAfter` needs to know about the values in the stream's answer -/
def PhiAfter (phi0 : List Nat) (rt : Root) (r : Res) : Prop :=
  r.1.NoTake ∧ SI2 r.1 ∧ rt.delivered <+: phi0 ∧ (rt.cons.kind ≠ .manual → rt.ended = false) ∧
  (match r.2.2 with
   | some (.next (.value v)) => ∃ tail, rt.delivered ++ v :: tail <+: phi0 ∧ r.1.phi specs <+: tail
   | some _ => True
   | none => rt.canPull → rt.delivered ++ r.1.phi specs <+: phi0)

/-- enough fuel for the element loop -/
def Budget (n : Nat) (r : Res) : Prop :=
  r.1.need specs + (match r.2.2 with | some (.next (.value _)) => 3 | some (.next _) => 2 | _ => 1) ≤ n

theorem prefix_append_of {a b c : List Nat} (h : b <+: c) : a ++ b <+: a ++ c := by
  obtain ⟨r, rfl⟩ := h
  exact ⟨r, by simp⟩

/-- the answer to next() issued by the reduce loop after it consumed `v` -/
theorem phiAfter_next (phi0 : List Nat) (rt : Root) (op : Op) (v : Nat) (tail : List Nat) (acc : Nat) (n : Nat)
    (hg : Good op) (hm : op.mustStop = true → rt.stopped = true) (hi : op.ph = .idle)
    (hnt : op.NoTake) (hsi : SI2 op) (hend : rt.cons.kind ≠ .manual → rt.ended = false)
    (h1 : rt.delivered ++ v :: tail <+: phi0) (h2 : op.phi specs <+: tail) (hb : op.need specs + 2 ≤ n) :
    PhiAfter specs phi0 { rt with op := op, acc := acc, delivered := rt.delivered ++ [v] }
      (deliver specs (op.need specs) (.next rt.stopped) op) ∧
    Budget specs n (deliver specs (op.need specs) (.next rt.stopped) op) := by
  obtain ⟨nt, si, hv, hn⟩ := deliver_phi specs (op.need specs) (.next rt.stopped) op hg ⟨hi, hm⟩ hsi hnt
  obtain ⟨_, le, lt⟩ := deliver_need specs (op.need specs) (.next rt.stopped) op hnt
  generalize deliver specs (op.need specs) (.next rt.stopped) op = r2 at *
  obtain ⟨op2, outs2, sg2⟩ := r2
  simp only at nt si hv hn le lt
  have hpre : rt.delivered ++ [v] <+: phi0 := by
    refine List.IsPrefix.trans ?_ h1
    exact prefix_append_of ⟨tail, rfl⟩
  refine ⟨⟨nt, si, hpre, hend, ?_⟩, ?_⟩
  · cases sg2 with
    | none =>
      intro _
      have h3 := (hn (by simp)).trans h2
      have : rt.delivered ++ [v] ++ op2.phi specs <+: rt.delivered ++ v :: tail := by
        rw [List.append_assoc]; exact prefix_append_of (by simpa using (List.prefix_cons_inj v).2 h3)
      exact this.trans h1
    | some x =>
      cases x with
      | clean e => trivial
      | next o =>
        cases o with
        | done => trivial
        | error e => trivial
        | value w =>
          obtain ⟨tail2, h5, h6⟩ := hv w rfl
          rw [h5] at h2
          obtain ⟨t3, h7, h8⟩ := prefix_cons_of h2
          refine ⟨t3, ?_, h6.trans h8⟩
          subst h7
          simpa [List.append_assoc] using h1
  · simp only [Budget]
    cases sg2 with
    | none => simp only; omega
    | some x =>
      cases x with
      | clean e => simp only; omega
      | next o =>
        cases o with
        | done => simp only; omega
        | error e => simp only; omega
        | value w => have := lt w rfl; simp only; omega


/-- the answer to cleanup() issued by the reduce loop: nothing more is delivered -/
theorem phiAfter_cleanup (phi0 : List Nat) (rt' : Root) (op : Op) (n : Nat)
    (hg : Good op) (hi : op.ph = .idle) (hnt : op.NoTake) (hsi : SI2 op)
    (hend : rt'.cons.kind ≠ .manual → rt'.ended = false) (hpre : rt'.delivered <+: phi0)
    (hph : rt'.ph = .cleaning) (hb : op.need specs + 1 ≤ n)
    (ha : AfterOK rt' (deliver specs (op.need specs) .cleanup op)) :
    PhiAfter specs phi0 rt' (deliver specs (op.need specs) .cleanup op) ∧
    Budget specs n (deliver specs (op.need specs) .cleanup op) := by
  obtain ⟨nt, si, hv, hn⟩ := deliver_phi specs (op.need specs) .cleanup op hg hi hsi hnt
  obtain ⟨_, le, lt⟩ := deliver_need specs (op.need specs) .cleanup op hnt
  obtain ⟨_, _, _, hmatch⟩ := ha
  generalize deliver specs (op.need specs) .cleanup op = r2 at *
  obtain ⟨op2, outs2, sg2⟩ := r2
  simp only at nt si hv hn le lt hmatch
  cases sg2 with
  | none =>
    refine ⟨⟨nt, si, hpre, hend, ?_⟩, by simp only [Budget]; omega⟩
    intro hc
    rcases hc with ⟨h, _⟩ | h <;> simp [hph] at h
  | some x =>
    cases x with
    | clean e => exact ⟨⟨nt, si, hpre, hend, trivial⟩, by simp only [Budget]; omega⟩
    | next o =>
      have := hmatch.2.1
      simp [hph] at this

theorem rootAfter_phi (phi0 : List Nat) : ∀ (n : Nat) (rt : Root) (r : Res),
    AfterOK rt r → PhiAfter specs phi0 rt r → Budget specs n r → PInv specs phi0 (rootAfter specs n rt r).1 := by
  intro n
  induction n with
  | zero =>
    intro rt r _ _ hb
    have := Op.need_pos specs r.1
    simp only [Budget] at hb
    split at hb <;> omega
  | succ n ih =>
    intro rt r ha hp hb
    obtain ⟨hnt, hsi, hpre, hend, hm⟩ := hp
    have ha' := ha
    obtain ⟨hg, hms, hns, hmatch⟩ := ha
    obtain ⟨op', outs, sg⟩ := r
    simp only at hnt hsi hg hms hm hmatch
    cases sg with
    | none =>
      simp only [rootAfter]
      exact ⟨hnt, hsi, hpre, hm, hend⟩
    | some x =>
      cases x with
      | clean e =>
        simp only [rootAfter]
        cases rt.cons.kind <;> simp only <;>
          exact ⟨hnt, hsi, hpre, fun hc => by rcases hc with ⟨h, _⟩ | h <;> simp at h, hend⟩
      | next o =>
        obtain ⟨h1, h2, h3⟩ := hmatch
        cases hk : rt.cons.kind with
        | manual =>
          simp only [rootAfter, hk]
          cases o with
          | value v =>
            obtain ⟨tail, h5, h6⟩ := hm
            have hpre' : rt.delivered ++ [v] <+: phi0 :=
              List.IsPrefix.trans (prefix_append_of ⟨tail, rfl⟩) h5
            refine ⟨hnt, hsi, hpre', fun _ => ?_, by simp [hk]⟩
            have : rt.delivered ++ [v] ++ op'.phi specs <+: rt.delivered ++ v :: tail := by
              rw [List.append_assoc]; exact prefix_append_of (by simpa using (List.prefix_cons_inj v).2 h6)
            exact this.trans h5
          | done => exact ⟨hnt, hsi, hpre, fun hc => by rcases hc with ⟨_, h⟩ | h <;> simp at h, by simp [hk]⟩
          | error e => exact ⟨hnt, hsi, hpre, fun hc => by rcases hc with ⟨_, h⟩ | h <;> simp at h, by simp [hk]⟩
        | reduce =>
          have hend' : rt.cons.kind ≠ .manual → rt.ended = false := hend
          cases o with
          | value v =>
            obtain ⟨tail, h5, h6⟩ := hm
            have hbv : op'.need specs + 3 ≤ n + 1 := by simpa [Budget] using hb
            have hpre' : rt.delivered ++ [v] <+: phi0 :=
              List.IsPrefix.trans (prefix_append_of ⟨tail, rfl⟩) h5
            cases hs : rt.cons.step rt.acc v with
            | ok acc' =>
              obtain ⟨hpa, hbu⟩ := phiAfter_next specs phi0 rt op' v tail acc' n hg hms h1 hnt hsi hend' h5 h6 (by omega)
              have hao := afterOK_next specs rt (op', outs, some (.next (.value v))) none hg hms hns h1 h2 h3 acc' (rt.delivered ++ [v])
              have := ih _ _ hao hpa hbu
              simpa [rootAfter, hk, hs] using this
            | error e =>
              have hao := afterOK_cleanup specs rt (op', outs, some (.next (.value v))) hg hms hns h1 h2 h3 (some e) (rt.delivered ++ [v])
              obtain ⟨hpa, hbu⟩ := phiAfter_cleanup specs phi0
                { rt with op := op', ph := .cleaning, err := some e, delivered := rt.delivered ++ [v] } op' n hg h1 hnt hsi
                hend' hpre' rfl (by omega) hao
              have := ih _ _ hao hpa hbu
              simpa [rootAfter, hk, hs] using this
          | done =>
            have hbn : op'.need specs + 2 ≤ n + 1 := by simpa [Budget] using hb
            have hao := afterOK_cleanup specs rt (op', outs, some (.next .done)) hg hms hns h1 h2 h3 rt.err rt.delivered
            obtain ⟨hpa, hbu⟩ := phiAfter_cleanup specs phi0
              { rt with op := op', ph := .cleaning, err := rt.err, delivered := rt.delivered } op' n hg h1 hnt hsi
              hend' hpre rfl (by omega) hao
            have := ih _ _ hao hpa hbu
            simpa [rootAfter, hk] using this
          | error e =>
            have hbn : op'.need specs + 2 ≤ n + 1 := by simpa [Budget] using hb
            have hao := afterOK_cleanup specs rt (op', outs, some (.next (.error e))) hg hms hns h1 h2 h3 (some e) rt.delivered
            obtain ⟨hpa, hbu⟩ := phiAfter_cleanup specs phi0
              { rt with op := op', ph := .cleaning, err := some e, delivered := rt.delivered } op' n hg h1 hnt hsi
              hend' hpre rfl (by omega) hao
            have := ih _ _ hao hpa hbu
            simpa [rootAfter, hk] using this
        | forEach =>
          have hend' : rt.cons.kind ≠ .manual → rt.ended = false := hend
          cases o with
          | value v =>
            obtain ⟨tail, h5, h6⟩ := hm
            have hbv : op'.need specs + 3 ≤ n + 1 := by simpa [Budget] using hb
            have hpre' : rt.delivered ++ [v] <+: phi0 :=
              List.IsPrefix.trans (prefix_append_of ⟨tail, rfl⟩) h5
            cases hs : rt.cons.step rt.acc v with
            | ok acc' =>
              obtain ⟨hpa, hbu⟩ := phiAfter_next specs phi0 rt op' v tail acc' n hg hms h1 hnt hsi hend' h5 h6 (by omega)
              have hao := afterOK_next specs rt (op', outs, some (.next (.value v))) none hg hms hns h1 h2 h3 acc' (rt.delivered ++ [v])
              have := ih _ _ hao hpa hbu
              simpa [rootAfter, hk, hs] using this
            | error e =>
              have hao := afterOK_cleanup specs rt (op', outs, some (.next (.value v))) hg hms hns h1 h2 h3 (some e) (rt.delivered ++ [v])
              obtain ⟨hpa, hbu⟩ := phiAfter_cleanup specs phi0
                { rt with op := op', ph := .cleaning, err := some e, delivered := rt.delivered ++ [v] } op' n hg h1 hnt hsi
                hend' hpre' rfl (by omega) hao
              have := ih _ _ hao hpa hbu
              simpa [rootAfter, hk, hs] using this
          | done =>
            have hbn : op'.need specs + 2 ≤ n + 1 := by simpa [Budget] using hb
            have hao := afterOK_cleanup specs rt (op', outs, some (.next .done)) hg hms hns h1 h2 h3 rt.err rt.delivered
            obtain ⟨hpa, hbu⟩ := phiAfter_cleanup specs phi0
              { rt with op := op', ph := .cleaning, err := rt.err, delivered := rt.delivered } op' n hg h1 hnt hsi
              hend' hpre rfl (by omega) hao
            have := ih _ _ hao hpa hbu
            simpa [rootAfter, hk] using this
          | error e =>
            have hbn : op'.need specs + 2 ≤ n + 1 := by simpa [Budget] using hb
            have hao := afterOK_cleanup specs rt (op', outs, some (.next (.error e))) hg hms hns h1 h2 h3 (some e) rt.delivered
            obtain ⟨hpa, hbu⟩ := phiAfter_cleanup specs phi0
              { rt with op := op', ph := .cleaning, err := some e, delivered := rt.delivered } op' n hg h1 hnt hsi
              hend' hpre rfl (by omega) hao
            have := ih _ _ hao hpa hbu
            simpa [rootAfter, hk] using this


/-- the answer to the call issued by an external event -/
theorem phiAfter_top (phi0 : List Nat) (rt rt' : Root) (call : Call) (hp : PInv specs phi0 rt) (hg : Good rt.op)
    (hl : Legal call rt.op) (hd : rt'.delivered = rt.delivered) (hc : rt'.cons = rt.cons) (he : rt'.ended = rt.ended)
    (hcp : rt'.canPull → rt.canPull)
    (hval : ∀ v, (deliver specs (rt.op.need specs) call rt.op).2.2 = some (.next (.value v)) → rt.canPull) :
    PhiAfter specs phi0 rt' (deliver specs (rt.op.need specs) call rt.op) ∧
    Budget specs (rt.op.need specs + 3) (deliver specs (rt.op.need specs) call rt.op) := by
  obtain ⟨nt, si, hv, hn⟩ := deliver_phi specs (rt.op.need specs) call rt.op hg hl hp.si hp.nt
  obtain ⟨_, le, lt⟩ := deliver_need specs (rt.op.need specs) call rt.op hp.nt
  generalize deliver specs (rt.op.need specs) call rt.op = r at *
  obtain ⟨op', outs, sg⟩ := r
  simp only at nt si hv hn le lt hval
  refine ⟨⟨nt, si, by rw [hd]; exact hp.pre, by rw [hc, he]; exact hp.ended, ?_⟩, ?_⟩
  · cases sg with
    | none =>
      intro h
      have := hp.pull (hcp h)
      rw [hd]
      exact (prefix_append_of (hn (by simp))).trans this
    | some x =>
      cases x with
      | clean e => trivial
      | next o =>
        cases o with
        | done => trivial
        | error e => trivial
        | value v =>
          obtain ⟨tail, h5, h6⟩ := hv v rfl
          have := hp.pull (hval v rfl)
          rw [h5] at this
          exact ⟨tail, by rw [hd]; exact this, h6⟩
  · simp only [Budget]
    split <;> omega

theorem init_pinv (c : Consumer) (e : SExpr) (hnt : (connect e).NoTake) (hsi : SI2 (connect e)) :
    PInv specs ((connect e).phi specs) (Root.init c e) :=
  ⟨hnt, hsi, by simp [Root.init], fun _ => by simp [Root.init], fun _ => rfl⟩

theorem rootStep_phi (phi0 : List Nat) (rt : Root) (h : RInv rt) (hp : PInv specs phi0 rt) (ev : REv)
    (hok : evOk rt ev = true) : PInv specs phi0 (rootStep specs rt ev).1 := by
  have hres : rt.ph = .idle → rt.result = none := fun hph => by
    cases hh : rt.result with
    | none => rfl
    | some x => have := h.res (by simp [hh]); have := h.idle hph; simp_all
  cases ev with
  | compNext i =>
    have ha := afterOK_event specs rt h (.compNext i) trivial (by simp)
    obtain ⟨h1, h2⟩ := phiAfter_top specs phi0 rt rt (.compNext i) hp h.good trivial rfl rfl rfl id (by
      intro v hv
      have := ha.2.2.2
      rw [hv] at this
      exact Or.inr this.2.1)
    exact rootAfter_phi specs phi0 _ _ _ ha h1 h2
  | compClean i =>
    have ha := afterOK_event specs rt h (.compClean i) trivial (by simp)
    obtain ⟨h1, h2⟩ := phiAfter_top specs phi0 rt rt (.compClean i) hp h.good trivial rfl rfl rfl id (by
      intro v hv
      have := ha.2.2.2
      rw [hv] at this
      exact Or.inr this.2.1)
    exact rootAfter_phi specs phi0 _ _ _ ha h1 h2
  | start =>
    simp only [evOk, Bool.and_eq_true, bne_iff_ne, ne_eq, Bool.not_eq_eq_eq_not, Bool.not_true] at hok
    have hph := h.notStarted hok.1 hok.2
    have hi := h.idle hph
    have hcp : rt.canPull := Or.inl ⟨hph, hp.ended hok.1⟩
    have ha := afterOK_next' specs { rt with started := true, ph := .nexting } rt.op (rt.op.need specs) h.good h.ms
      (by simp) hi rfl (hres hph)
    obtain ⟨h1, h2⟩ := phiAfter_top specs phi0 rt { rt with started := true, ph := .nexting } (.next rt.stopped) hp h.good
      ⟨hi, h.ms⟩ rfl rfl rfl (fun _ => hcp) (fun _ _ => hcp)
    exact rootAfter_phi specs phi0 _ _ _ ha h1 h2
  | next =>
    simp only [evOk, Bool.and_eq_true, beq_iff_eq, Bool.not_eq_eq_eq_not, Bool.not_true] at hok
    have hi := h.idle hok.1.2
    have hcp : rt.canPull := Or.inl ⟨hok.1.2, hok.2⟩
    have ha := afterOK_next' specs { rt with ph := .nexting } rt.op (rt.op.need specs) h.good h.ms
      (by simp [hok.1.1]) hi rfl (hres hok.1.2)
    obtain ⟨h1, h2⟩ := phiAfter_top specs phi0 rt { rt with ph := .nexting } (.next rt.stopped) hp h.good
      ⟨hi, h.ms⟩ rfl rfl rfl (fun _ => hcp) (fun _ _ => hcp)
    exact rootAfter_phi specs phi0 _ _ _ ha h1 h2
  | cleanup =>
    simp only [evOk, Bool.and_eq_true, beq_iff_eq] at hok
    have hi := h.idle hok.2
    have ha := afterOK_cleanup' specs { rt with ph := .cleaning } rt.op (rt.op.need specs) h.good h.ms
      (by simp [hok.1]) hi rfl (hres hok.2)
    obtain ⟨h1, h2⟩ := phiAfter_top specs phi0 rt { rt with ph := .cleaning } .cleanup hp h.good
      hi rfl rfl rfl (fun hc => by rcases hc with ⟨h', _⟩ | h' <;> simp at h') (by
      intro v hv
      have := ha.2.2.2
      rw [hv] at this
      simp at this)
    exact rootAfter_phi specs phi0 _ _ _ ha h1 h2
  | stop =>
    have h' : RInv { rt with stopped := true } :=
      ⟨h.good, fun _ => rfl, h.idle, h.nx, h.cl, h.res, h.fin, h.notStarted⟩
    have hp' : PInv specs phi0 { rt with stopped := true } := ⟨hp.nt, hp.si, hp.pre, hp.pull, hp.ended⟩
    simp only [rootStep]
    by_cases hs : rt.stopped = true
    · simp only [hs, if_true]; exact hp
    · have hs' : rt.stopped = false := by simpa using hs
      simp only [hs', Bool.false_eq_true, if_false]
      split
      · rename_i hph
        have ha := afterOK_event specs { rt with stopped := true } h' .stop trivial (fun _ => rfl)
        obtain ⟨h1, h2⟩ := phiAfter_top specs phi0 { rt with stopped := true } { rt with stopped := true } .stop hp' h'.good
          trivial rfl rfl rfl id (fun _ _ => Or.inr hph)
        exact rootAfter_phi specs phi0 _ _ _ ha h1 h2
      · exact hp'

theorem runEvents_phi (phi0 : List Nat) : ∀ (evs : List REv) (rt : Root), RInv rt → PInv specs phi0 rt →
    PInv specs phi0 (runEvents specs rt evs).1 := by
  intro evs
  induction evs with
  | nil => intro rt _ h; exact h
  | cons ev evs ih =>
    intro rt h hp
    simp only [runEvents]
    by_cases hok : evOk rt ev = true
    · simp only [hok, if_true]
      exact ih _ (rootStep_inv specs rt h ev hok) (rootStep_phi specs phi0 rt h hp ev hok)
    · simp only [hok]
      exact ih _ h hp


/-- no take_until in the expression -/
def SExpr.NoTake : SExpr → Prop
  | .un _ s => s.NoTake
  | .filter _ s => s.NoTake
  | .stopImmediately s => s.NoTake
  | .takeUntil _ _ => False
  | _ => True

theorem connect_noTake (e : SExpr) (h : e.NoTake) : (connect e).NoTake := by
  induction e with
  | range lo hi => trivial
  | single v => trivial
  | neverS => trivial
  | src i => trivial
  | un k s ih => exact ih h
  | filter p s ih => exact ih h
  | stopImmediately s ih => exact ih h
  | takeUntil s t ihs iht => exact absurd h (by simp [SExpr.NoTake])

theorem connect_SI2 (e : SExpr) : SI2 (connect e) := by
  induction e with
  | range lo hi => simp [connect, SI2, LeafSt.init]
  | single v => simp [connect, SI2, LeafSt.init]
  | neverS => simp [connect, SI2, LeafSt.init]
  | src i => simp [connect, SI2, LeafSt.init]
  | un k s ih => exact ih
  | filter p s ih => exact ih
  | stopImmediately s ih => exact ⟨ih, by simp [StopImmSt.init], by simp [StopImmSt.init], by simp [StopImmSt.init]⟩
  | takeUntil s t ihs iht => exact ⟨ihs, iht⟩

theorem mapDen_fst (f : Fn) (l : List Nat) (t t' : Option Nat) : (mapDen f l t).1 = (mapDen f l t').1 := by
  induction l with
  | nil => rfl
  | cons x xs ih => simp only [mapDen]; cases f.app x <;> simp [ih]

theorem filterDen_fst (p : Pred) (l : List Nat) (t t' : Option Nat) : (filterDen p l t).1 = (filterDen p l t').1 := by
  induction l with
  | nil => rfl
  | cons x xs ih => simp only [filterDen]; cases p.app x <;> simp [ih]

/-- for an expression without take_until, `Op.phi` of the initial state is the sequence of the specification -/
theorem connect_phi (e : SExpr) (h : e.NoTake) : (connect e).phi specs = (e.den specs false).1 := by
  induction e with
  | range lo hi => simp [connect, Op.phi, leafDenK, leafDen, SExpr.den, LeafSt.init]
  | single v => simp [connect, Op.phi, leafDenK, leafDen, SExpr.den, LeafSt.init]
  | neverS => simp [connect, Op.phi, leafDenK, leafDen, SExpr.den, LeafSt.init]
  | src i => simp [connect, Op.phi, leafDenK, leafDen, SExpr.den, LeafSt.init]
  | un k s ih =>
    simp only [connect, Op.phi, SExpr.den, ih h]
    cases k with
    | transform f => exact mapDen_fst f _ _ _
    | nextAdapt f => exact mapDen_fst f _ _ _
    | typeErase => rfl
    | cleanupAdapt c => rfl
  | filter p s ih =>
    simp only [connect, Op.phi, SExpr.den, ih h]
    exact filterDen_fst p _ _ _
  | stopImmediately s ih => simpa [connect, Op.phi, SExpr.den, StopImmSt.init] using ih h
  | takeUntil s t ihs iht => exact absurd h (by simp [SExpr.NoTake])

end Unifex.Stream
