/-
  Calc/Lemmas.lean — structural facts about `Calc.deliver` used by the property theorems.
  One small lemma per algorithm clause; `deliver`-level statements follow by cases.
-/
import UnifexModel.Calc.Sem

namespace Unifex.Calc

variable (specs : Nat → LeafSpec)

/-- "signals only when it becomes finished" for a result -/
def SigFin (r : Res) : Prop := ∀ o, r.2.2 = some o → r.1.phase = .finished

theorem sigFin_none {op : Op} {outs : List Out} : SigFin (op, outs, none) := by
  intro o h; simp at h

theorem constStep_sigFin (ev : Ev) (k : ConstKind) (ph : Phase) : SigFin (constStep ev k ph) := by
  intro o h
  unfold constStep at h ⊢
  split <;> simp_all [Op.phase]

theorem leafStep_sigFin (ev : Ev) (i : Nat) (ph : Phase) (nt : Bool) : SigFin (leafStep specs ev i ph nt) := by
  intro o h
  unfold leafStep at h ⊢
  split
  · split
    · simp [Op.phase]
    · split
      · split <;> simp_all [Op.phase]
      · simp_all
  · split <;> simp_all [Op.phase]
  · split <;> simp_all [Op.phase]
  · simp_all

theorem unWrap_sigFin (k : UnKind) (env : Env) (r : Res) : SigFin (unWrap k env r) := by
  intro o h
  unfold unWrap at h ⊢
  split <;> simp_all [Op.phase]

theorem unStep_sigFin (rec : Rec) (ev : Ev) (k : UnKind) (c : Op) (ph : Phase) (env : Env) :
    SigFin (unStep rec ev k c ph env) := by
  unfold unStep
  split
  · exact unWrap_sigFin _ _ _
  · split
    · exact unWrap_sigFin _ _ _
    · exact sigFin_none
  · exact unWrap_sigFin _ _ _
  · exact sigFin_none

theorem waFinish_sigFin (k : BinKind) (a b : Op) (st : BinSt) (outs : List Out) : SigFin (waFinish k a b st outs) := by
  intro o h
  unfold waFinish at h ⊢
  split <;> simp_all [Op.phase]

theorem waStep_sigFin (rec : Rec) (ev : Ev) (k : BinKind) (a b : Op) (st : BinSt) : SigFin (waStep rec ev k a b st) := by
  unfold waStep
  split
  · exact waFinish_sigFin _ _ _ _ _
  · unfold waStop; split
    · exact sigFin_none
    · exact waFinish_sigFin _ _ _ _ _
  · exact waFinish_sigFin _ _ _ _ _
  · exact sigFin_none

theorem swFinish_sigFin (a b : Op) (st : BinSt) (outs : List Out) : SigFin (swFinish a b st outs) := by
  intro o h
  unfold swFinish at h ⊢
  split <;> simp_all [Op.phase]

theorem swStep_sigFin (rec : Rec) (ev : Ev) (a b : Op) (st : BinSt) : SigFin (swStep rec ev a b st) := by
  unfold swStep
  split
  · exact swFinish_sigFin _ _ _ _
  · unfold swStop; split
    · exact sigFin_none
    · exact swFinish_sigFin _ _ _ _
  · exact swFinish_sigFin _ _ _ _
  · exact sigFin_none

theorem seqAfterFirst_sigFin (rec : Rec) (k : BinKind) (b : Op) (st : BinSt) (env : Env) (ra : Res) :
    SigFin (seqAfterFirst rec k b st env ra) := by
  intro o h
  unfold seqAfterFirst at h ⊢
  cases hra : ra.2.2 with
  | none => simp [hra] at h
  | some o1 =>
    simp only [hra] at h ⊢
    by_cases ht : k.takes o1 = true
    · simp only [ht, if_true] at h ⊢
      cases hrb : (rec (Ev.start (k.succEnv env o1)) b).2.2 <;> simp_all [Op.phase]
    · simp [ht, Op.phase]

theorem seqSecond_sigFin (k : BinKind) (a : Op) (st : BinSt) (env : Env) (rb : Res) :
    SigFin (seqSecond k a st env rb) := by
  intro o h
  unfold seqSecond at h ⊢
  split <;> simp_all [Op.phase]

theorem seqStep_sigFin (rec : Rec) (ev : Ev) (k : BinKind) (a b : Op) (st : BinSt) :
    SigFin (seqStep rec ev k a b st) := by
  unfold seqStep
  split
  · exact seqAfterFirst_sigFin _ _ _ _ _ _
  · exact seqAfterFirst_sigFin _ _ _ _ _ _
  · exact seqAfterFirst_sigFin _ _ _ _ _ _
  · exact seqSecond_sigFin _ _ _ _ _
  · exact seqSecond_sigFin _ _ _ _ _
  · exact sigFin_none

theorem binStep_sigFin (rec : Rec) (ev : Ev) (k : BinKind) (a b : Op) (st : BinSt) :
    SigFin (binStep rec ev k a b st) := by
  unfold binStep
  split
  · exact waStep_sigFin _ _ _ _ _ _
  · exact waStep_sigFin _ _ _ _ _ _
  · exact swStep_sigFin _ _ _ _ _
  · exact seqStep_sigFin _ _ _ _ _ _

/-- Whenever processing an event makes an operation signal its receiver, the operation is finished
    afterwards (the signal is emitted only on the transition into `finished`). -/
theorem signal_finishes (fuel : Nat) (ev : Ev) (op : Op) : SigFin (deliver specs fuel ev op) := by
  cases fuel with
  | zero => intro o h; simp [deliver] at h
  | succ n =>
    cases op with
    | const k ph => simp only [deliver]; exact constStep_sigFin _ _ _
    | leaf i ph nt => simp only [deliver]; exact leafStep_sigFin _ _ _ _ _
    | un k c ph env => simp only [deliver]; exact unStep_sigFin _ _ _ _ _ _
    | bin k a b st => simp only [deliver]; exact binStep_sigFin _ _ _ _ _ _

/-- A finished operation is inert: it changes nothing and signals nothing, whatever the event. -/
theorem finished_inert (fuel : Nat) (ev : Ev) (op : Op) (h : op.phase = .finished) :
    (deliver specs fuel ev op).1 = op ∧ (deliver specs fuel ev op).2.2 = none := by
  cases fuel with
  | zero => simp [deliver, h]
  | succ n =>
    cases op with
    | const k ph => simp only [Op.phase] at h; subst h; cases ev <;> simp [deliver, constStep]
    | leaf i ph nt => simp only [Op.phase] at h; subst h; cases ev <;> simp [deliver, leafStep]
    | un k c ph env => simp only [Op.phase] at h; subst h; cases ev <;> simp [deliver, unStep]
    | bin k a b st =>
      simp only [Op.phase] at h
      cases k <;> cases ev <;> simp [deliver, binStep, waStep, swStep, seqStep, h]

/-- An operation that has not been started ignores everything except `start`: no output, no
    signal, no change. -/
theorem idle_silent (fuel : Nat) (ev : Ev) (op : Op) (h : op.phase = .idle)
    (hev : ∀ env, ev ≠ .start env) :
    deliver specs (fuel + 1) ev op = (op, [], none) := by
  cases op with
  | const k ph =>
    simp only [Op.phase] at h; subst h
    cases ev <;> simp_all [deliver, constStep]
  | leaf i ph nt =>
    simp only [Op.phase] at h; subst h
    cases ev <;> simp_all [deliver, leafStep]
  | un k c ph env =>
    simp only [Op.phase] at h; subst h
    cases ev <;> simp_all [deliver, unStep]
  | bin k a b st =>
    simp only [Op.phase] at h
    cases k <;> cases ev <;> simp_all [deliver, binStep, waStep, swStep, seqStep]

end Unifex.Calc
