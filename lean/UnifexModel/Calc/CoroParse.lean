/-
  Calc/CoroParse.lean — the line protocol of the coroutine correspondence (driver side): parse a case
  line into (scheduler mode, program, leaf specs, events), run it through `Coro.deliver`, render the
  per-event observations exactly like harness/evt/coro.cpp does (emission order, NOT sorted).
-/
import UnifexModel.Calc.Coro
import UnifexModel.Calc.Parse

namespace Unifex.Coro
open Unifex.Calc (Outcome SExp tokenize parseS parseOutcome words)

mutual
partial def toStmt : SExp → Option Stmt
  | .list [.atom "aw", .atom i] => i.toNat?.map (fun i => .await i false)
  | .list [.atom "taw", .atom i] => i.toNat?.map (fun i => .await i true)
  | .list [.atom "task", p] => (toProg p).map (fun p => .awaitTask p false)
  | .list [.atom "ttask", p] => (toProg p).map (fun p => .awaitTask p true)
  | .list [.atom "ax", .atom a, .atom l] => do let a ← a.toNat?; let l ← l.toNat?; pure (.atExit a l)
  | .list [.atom "ret", .atom v] => v.toNat?.map Stmt.ret
  | .list [.atom "thr", .atom e] => e.toNat?.map Stmt.throw_
  | .list [.atom "sir"] => some .stopIfRequested
  | .list [.atom "rs", .atom k] => k.toNat?.map Stmt.resched
  | .list [.atom "sirs"] => some .stopIfRequestedS
  | .list [.atom "pw", .atom i] => i.toNat?.map (fun i => .awaitPlain i false)
  | .list [.atom "tpw", .atom i] => i.toNat?.map (fun i => .awaitPlain i true)
  | _ => none
partial def toProg : SExp → Option Prog
  | .list xs => xs.mapM toStmt
  | _ => none
end

def parseSpec (s : String) : Option (Nat × LeafSpec) :=
  match s.splitOn "=" with
  | [i, v] => do
    let i ← i.toNat?
    match v.splitOn ":" with
    | [k, a] =>
      let affine := k = "ia" || k = "pa"
      if k = "i" || k = "ia" then do
        let o ← parseOutcome a
        pure (i, { kind := .inline o, affine := affine })
      else if k = "r" || k = "b0" || k = "h0" then do
        -- plain awaitables that complete without suspending (ready / bool false / handle = the awaiting coroutine)
        let o ← parseOutcome a
        pure (i, { kind := .inline o, affine := false })
      else if k = "b1" || k = "h1" || k = "vd" then
        pure (i, { kind := .pending none, affine := false })
      else if k = "p" || k = "pa" then
        if a = "ign" then pure (i, { kind := .pending none, affine := affine })
        else do
          let o ← parseOutcome a
          pure (i, { kind := .pending (some o), affine := affine })
      else none
    | _ => none
  | _ => none

def specsOf (l : List (Nat × LeafSpec)) (i : Nat) : LeafSpec :=
  match l.lookup i with
  | some s => s
  | none => { kind := .inline (.value 0), affine := false }

/-- a scripted event; `cur o` = "complete whatever leaf is pending" (`c?:O`) is resolved against the state -/
inductive SEv
  | ev (e : Ev) | cur (o : Outcome)

def parseEv (s : String) : Option Ev :=
  if s = "start" then some .start
  else if s = "stop" then some .stop
  else if s = "run" then some .run
  else match s.toList with
    | 'c' :: r =>
      match (String.ofList r).splitOn ":" with
      | [i, o] => do let i ← i.toNat?; let o ← parseOutcome o; pure (.complete i o)
      | _ => none
    | _ => none

def parseSEv (s : String) : Option SEv :=
  if s.startsWith "c?:" then (parseOutcome (s.drop 3).toString).map SEv.cur else (parseEv s).map SEv.ev

def renderOutcome : Outcome → String
  | .value v => s!"v{v}"
  | .error e => s!"e{e}"
  | .done => "d"

def renderOut : Out → String
  | .frameStart f => s!"fs{f}"
  | .reg f a => s!"rg{f}:{a}"
  | .leafStart i st => s!"ls{i}:{if st then 1 else 0}"
  | .leafStop i => s!"lp{i}"
  | .plainStart i => s!"ps{i}"
  | .tokRegs n => s!"cb{n}"
  | .localsDead f => s!"ld{f}"
  | .cleanup f a => s!"cl{f}:{a}"
  | .cleanupSched k => s!"cq{k}"
  | .frameDead f => s!"fd{f}"
  | .sched k => s!"sq{k}"
  | .schedCancel k => s!"sc{k}"
  | .root o => s!"R={renderOutcome o}"
  | .terminate => "!!terminate"
  | .fuelOut => "!!fuel"

/-- label 0 is the library-internal reschedule-back cleanup: its registration and its run are not
    observable from outside (its `sq` is) -/
def Out.hidden : Out → Bool
  | .reg _ 0 => true
  | .cleanup _ 0 => true
  | _ => false

def renderOuts (outs : List Out) : String :=
  let vis := outs.filter (fun o => !o.hidden)
  if vis.isEmpty then "-" else ",".intercalate (vis.map renderOut)

/-- deliver one event and render what it added to the trace -/
def stepEv (specs : Nat → LeafSpec) (s : St) (ev : Ev) : St × String :=
  if !evOk s ev then (s, "!!bad-op")
  else
    let s' := deliver specs ev s
    (s', renderOuts (s'.outs.drop s.outs.length))

def resolve (s : St) : SEv → Option Ev
  | .ev e => some e
  | .cur o =>
    match s.ctl with
    | .waitLeaf i => some (.complete i o)
    | .waitPlain i => some (.complete i o)
    | .waitCleanup i _ => some (.complete i (.value 0))
    | _ => none

def runScript (specs : Nat → LeafSpec) : St → List SEv → List String → St × List String
  | s, [], acc => (s, acc.reverse)
  | s, ev :: evs, acc =>
    match resolve s ev with
    | none => runScript specs s evs ("!!bad-op" :: acc)
    | some e =>
      let (s', r) := stepEv specs s e
      runScript specs s' evs (r :: acc)

/-- what the harness does after the scripted events: queued scheduler items first, then the pending leaf
    (done for a body leaf, v0 for a cleanup leaf) -/
def drain (specs : Nat → LeafSpec) : Nat → St → List String → St × List String
  | 0, s, acc => (s, acc.reverse)
  | f+1, s, acc =>
    let next : Option Ev :=
      if !s.queue.isEmpty then some .run
      else match s.ctl with
        | .waitLeaf i => some (.complete i .done)
        | .waitPlain i => some (.complete i (.value 0))
        | .waitCleanup i _ => some (.complete i (.value 0))
        | _ => none
    match next with
    | none => (s, acc.reverse)
    | some ev =>
      let (s', r) := stepEv specs s ev
      drain specs f s' (r :: acc)

def runCase (line : String) : String :=
  match line.splitOn "|" with
  | [id, mode, p, sp, evs] =>
    let toks := tokenize p
    match parseS (toks.length + 1) toks with
    | some (sx, _) =>
      match toProg sx with
      | some prog =>
        let specs := specsOf ((words sp).filterMap parseSpec)
        match (words evs).mapM parseSEv with
        | some evl =>
          let m := mode.trimAscii.toString
          let s0 := St.init prog (!(m.startsWith "man")) (!(m.endsWith ":u")) (m.endsWith ":w")
          let (s1, r1) := runScript specs s0 evl []
          let (s2, r2) := drain specs 1000 s1 []
          let started := s2.ctl != .idle
          let mon := if started && s2.ctl != .finished then ["!!root-completions=0"] else []
          let (_, r3) := stepEv specs s2 .destroy
          s!"{id.trimAscii} | {" | ".intercalate (r1 ++ r2 ++ mon ++ [r3])}"
        | none => "bad-op events"
      | none => "bad-op prog"
    | none => "bad-op parse"
  | _ => "bad-op"

end Unifex.Coro
