/-
  Calc/TagInv.lean — receiver queries are forwarded to every child (property C12).

  `Exp i g` is "leaf `i` is expected to see the answer `g` to the custom query".  `TagInv Exp op t`
  says that an operation whose receiver answers `t` hands every leaf below it the expected answer:
  every adaptor passes `t` on unchanged except `with_query_value`, which replaces it for its own
  subtree only; composite nodes keep `t` in the environment they will start successors with.
  `tag_deliver`: every event preserves this, and every leaf start that is observed carries the
  expected answer.
-/
import UnifexModel.Calc.StopInv

namespace Unifex.Calc

variable (specs : Nat → LeafSpec)

def UnKind.childTag (k : UnKind) (t : Nat) : Nat :=
  match k with
  | .withTag q => q
  | _ => t

variable (Exp : Nat → Nat → Prop)

def TagInv : Op → Nat → Prop
  | .const _ _, _ => True
  | .leaf i _ _, t => Exp i t
  | .un k c _ _, t => TagInv c (k.childTag t)
  | .bin _ a b st, t => TagInv a t ∧ TagInv b t ∧ (st.ph = .running → st.env.tag = t)

def OutsOk (outs : List Out) : Prop := ∀ i s g, Out.leafStart i s g ∈ outs → Exp i g

theorem outsOk_nil : OutsOk Exp [] := by intro i s g h; simp at h
theorem outsOk_append {l1 l2 : List Out} (h1 : OutsOk Exp l1) (h2 : OutsOk Exp l2) : OutsOk Exp (l1 ++ l2) := by
  intro i s g h
  rcases List.mem_append.mp h with h | h
  · exact h1 i s g h
  · exact h2 i s g h

def EvTag (ev : Ev) (t : Nat) : Prop := ∀ env, ev = .start env → env.tag = t

structure RecTag (rec : Rec) : Prop where
  inv : ∀ ev op t, TagInv Exp op t → EvTag ev t → TagInv Exp (rec ev op).1 t ∧ OutsOk Exp (rec ev op).2.1

theorem childEnv_tag (k : UnKind) (env : Env) : (k.childEnv env).tag = k.childTag env.tag := by
  cases k <;> rfl

theorem evTag_not_start {ev : Ev} (h : ∀ env, ev ≠ .start env) (t : Nat) : EvTag ev t :=
  fun env he => absurd he (h env)

theorem recIf_tag (rec : Rec) (hrec : RecTag Exp rec) (c : Bool) (ev : Ev) (x : Op) (t : Nat)
    (hx : TagInv Exp x t) (hev : EvTag ev t) :
    TagInv Exp (recIf rec c ev x).1 t ∧ OutsOk Exp (recIf rec c ev x).2.1 := by
  cases c with
  | false => exact ⟨hx, outsOk_nil Exp⟩
  | true => exact hrec.inv ev x t hx hev

theorem unStep_tag (rec : Rec) (hrec : RecTag Exp rec) (ev : Ev) (k : UnKind) (c : Op) (ph : Phase)
    (env : Env) (t : Nat) (h : TagInv Exp (.un k c ph env) t) (hev : EvTag ev t) :
    TagInv Exp (unStep rec ev k c ph env).1 t ∧ OutsOk Exp (unStep rec ev k c ph env).2.1 := by
  have hc : TagInv Exp c (k.childTag t) := h
  have wrap : ∀ (env' : Env) (r : Res), TagInv Exp r.1 (k.childTag t) → OutsOk Exp r.2.1 →
      TagInv Exp (unWrap k env' r).1 t ∧ OutsOk Exp (unWrap k env' r).2.1 := by
    intro env' r h1 h2
    unfold unWrap
    cases r.2.2 <;> exact ⟨h1, h2⟩
  unfold unStep
  cases ph <;> cases ev
  case idle.start env0 =>
    have := hrec.inv (.start (k.childEnv env0)) c (k.childTag t) hc (by
      intro e he; cases he; rw [childEnv_tag, hev env0 rfl])
    exact wrap _ _ this.1 this.2
  case running.stop =>
    simp only []
    split
    · have := hrec.inv .stop c (k.childTag t) hc (by intro e he; cases he)
      exact wrap _ _ this.1 this.2
    · exact ⟨hc, outsOk_nil Exp⟩
  case running.complete i o =>
    have := hrec.inv (.complete i o) c (k.childTag t) hc (by intro e he; cases he)
    exact wrap _ _ this.1 this.2
  all_goals exact ⟨hc, outsOk_nil Exp⟩

theorem succEnv_tag (k : BinKind) (env : Env) (o : Outcome) : (k.succEnv env o).tag = env.tag := by
  cases k <;> cases o <;> rfl

theorem seqAfterFirst_tag (rec : Rec) (hrec : RecTag Exp rec) (k : BinKind) (b : Op) (st : BinSt) (env : Env)
    (ra : Res) (t : Nat) (hra : TagInv Exp ra.1 t) (houts : OutsOk Exp ra.2.1) (hb : TagInv Exp b t)
    (henv : env.tag = t) :
    TagInv Exp (seqAfterFirst rec k b st env ra).1 t ∧ OutsOk Exp (seqAfterFirst rec k b st env ra).2.1 := by
  unfold seqAfterFirst
  cases hr : ra.2.2 with
  | none => exact ⟨⟨hra, hb, fun _ => henv⟩, houts⟩
  | some o =>
    simp only []
    split
    · have hB := hrec.inv (.start (k.succEnv env o)) b t hb (by intro e he; cases he; rw [succEnv_tag, henv])
      cases hr2 : (rec (Ev.start (k.succEnv env o)) b).2.2 <;>
        exact ⟨⟨hra, hB.1, fun _ => henv⟩, outsOk_append Exp houts hB.2⟩
    · exact ⟨⟨hra, hb, fun _ => henv⟩, houts⟩

theorem seqSecond_tag (k : BinKind) (a : Op) (st : BinSt) (env : Env) (rb : Res) (t : Nat)
    (ha : TagInv Exp a t) (hrb : TagInv Exp rb.1 t) (houts : OutsOk Exp rb.2.1) (henv : env.tag = t) :
    TagInv Exp (seqSecond k a st env rb).1 t ∧ OutsOk Exp (seqSecond k a st env rb).2.1 := by
  unfold seqSecond
  cases rb.2.2 <;> exact ⟨⟨ha, hrb, fun _ => henv⟩, houts⟩

theorem seqStep_tag (rec : Rec) (hrec : RecTag Exp rec) (ev : Ev) (k : BinKind) (a b : Op) (st : BinSt) (t : Nat)
    (h : TagInv Exp (.bin k a b st) t) (hev : EvTag ev t) :
    TagInv Exp (seqStep rec ev k a b st).1 t ∧ OutsOk Exp (seqStep rec ev k a b st).2.1 := by
  obtain ⟨ha, hb, henv⟩ := h
  unfold seqStep
  cases hph : st.ph <;> cases hsec : st.second <;> cases ev <;> simp only []
  case idle.false.start env0 | idle.true.start env0 =>
    have hA := hrec.inv (.start env0) a t ha hev
    exact seqAfterFirst_tag Exp rec hrec k b st env0 _ t hA.1 hA.2 hb (hev env0 rfl)
  case running.false.stop =>
    have hA := hrec.inv .stop a t ha (by intro e he; cases he)
    exact seqAfterFirst_tag Exp rec hrec k b st st.env.stop _ t hA.1 hA.2 hb (by simpa [Env.stop] using henv hph)
  case running.false.complete i o =>
    have hA := hrec.inv (.complete i o) a t ha (by intro e he; cases he)
    exact seqAfterFirst_tag Exp rec hrec k b st st.env _ t hA.1 hA.2 hb (henv hph)
  case running.true.stop =>
    have hB := hrec.inv .stop b t hb (by intro e he; cases he)
    exact seqSecond_tag Exp k a st st.env.stop _ t ha hB.1 hB.2 (by simpa [Env.stop] using henv hph)
  case running.true.complete i o =>
    have hB := hrec.inv (.complete i o) b t hb (by intro e he; cases he)
    exact seqSecond_tag Exp k a st st.env _ t ha hB.1 hB.2 (henv hph)
  all_goals exact ⟨⟨ha, hb, henv⟩, outsOk_nil Exp⟩

/-! when_all / stop_when: the children are started with the receiver's environment (only the
    stop-related fields are replaced), so the query answer is unchanged -/

@[simp] theorem markSrc_env (st : BinSt) (c : Bool) : (markSrc st c).env = st.env := by cases c <;> simp [markSrc]
@[simp] theorem waRec_env (any : Bool) (st : BinSt) (isA : Bool) (r : Option Outcome) : (waRec any st isA r).1.env = st.env := by
  cases r <;> simp [waRec]
@[simp] theorem setRa_env (st : BinSt) (r : Option Outcome) : (setRa st r).env = st.env := by cases r <;> simp [setRa]
@[simp] theorem setRb_env (st : BinSt) (r : Option Outcome) : (setRb st r).env = st.env := by cases r <;> simp [setRb]

/-- the facts threaded through the micro-steps of the two-child nodes -/
structure Pair (a b : Op) (st : BinSt) (outs : List Out) (t : Nat) : Prop where
  ha : TagInv Exp a t
  hb : TagInv Exp b t
  henv : st.env.tag = t
  houts : OutsOk Exp outs

theorem waAfterChild_tag (rec : Rec) (hrec : RecTag Exp rec) (any : Bool) (isA : Bool) (a b : Op) (st : BinSt)
    (r : Option Outcome) (t : Nat) (ha : TagInv Exp a t) (hb : TagInv Exp b t) (henv : st.env.tag = t) :
    Pair Exp (waAfterChild rec any isA a b st r).1 (waAfterChild rec any isA a b st r).2.1
      (waAfterChild rec any isA a b st r).2.2.1 (waAfterChild rec any isA a b st r).2.2.2 t := by
  cases r with
  | none => exact ⟨ha, hb, henv, outsOk_nil Exp⟩
  | some o =>
    cases isA with
    | true =>
      simp only [waAfterChild, if_true]
      have := recIf_tag Exp rec hrec ((waRecord any st true o).2 && (markSrc (waRecord any st true o).1 (waRecord any st true o).2).rb.isNone)
        .stop b t hb (by intro e he; cases he)
      exact ⟨ha, this.1, by simpa using henv, this.2⟩
    | false =>
      simp only [waAfterChild, Bool.false_eq_true, if_false]
      have := recIf_tag Exp rec hrec ((waRecord any st false o).2 && (markSrc (waRecord any st false o).1 (waRecord any st false o).2).ra.isNone)
        .stop a t ha (by intro e he; cases he)
      exact ⟨this.1, hb, by simpa using henv, this.2⟩

theorem swAfterChild_tag (rec : Rec) (hrec : RecTag Exp rec) (isA : Bool) (a b : Op) (st : BinSt)
    (r : Option Outcome) (t : Nat) (ha : TagInv Exp a t) (hb : TagInv Exp b t) (henv : st.env.tag = t) :
    Pair Exp (swAfterChild rec isA a b st r).1 (swAfterChild rec isA a b st r).2.1
      (swAfterChild rec isA a b st r).2.2.1 (swAfterChild rec isA a b st r).2.2.2 t := by
  cases r with
  | none => exact ⟨ha, hb, henv, outsOk_nil Exp⟩
  | some o =>
    cases isA with
    | true =>
      simp only [swAfterChild, if_true]
      have := recIf_tag Exp rec hrec (!st.src && st.rb.isNone) .stop b t hb (by intro e he; cases he)
      exact ⟨ha, this.1, by simpa using henv, this.2⟩
    | false =>
      simp only [swAfterChild, Bool.false_eq_true, if_false]
      have := recIf_tag Exp rec hrec (!st.src && st.ra.isNone) .stop a t ha (by intro e he; cases he)
      exact ⟨this.1, hb, by simpa using henv, this.2⟩

theorem waFinish_tag (k : BinKind) (a b : Op) (st : BinSt) (outs : List Out) (t : Nat)
    (ha : TagInv Exp a t) (hb : TagInv Exp b t) (henv : st.env.tag = t) (houts : OutsOk Exp outs) :
    TagInv Exp (waFinish k a b st outs).1 t ∧ OutsOk Exp (waFinish k a b st outs).2.1 := by
  unfold waFinish
  split <;> exact ⟨⟨ha, hb, fun _ => henv⟩, houts⟩

theorem swFinish_tag (a b : Op) (st : BinSt) (outs : List Out) (t : Nat)
    (ha : TagInv Exp a t) (hb : TagInv Exp b t) (henv : st.env.tag = t) (houts : OutsOk Exp outs) :
    TagInv Exp (swFinish a b st outs).1 t ∧ OutsOk Exp (swFinish a b st outs).2.1 := by
  unfold swFinish
  split <;> exact ⟨⟨ha, hb, fun _ => henv⟩, houts⟩

theorem waStep_tag (rec : Rec) (hrec : RecTag Exp rec) (ev : Ev) (k : BinKind) (a b : Op) (st : BinSt) (t : Nat)
    (h : TagInv Exp (.bin k a b st) t) (hev : EvTag ev t) :
    TagInv Exp (waStep rec ev k a b st).1 t ∧ OutsOk Exp (waStep rec ev k a b st).2.1 := by
  obtain ⟨ha, hb, henv⟩ := h
  unfold waStep
  cases hph : st.ph <;> cases ev <;> simp only []
  case idle.start env0 =>
    have ht := hev env0 rfl
    unfold waStart
    have hA := hrec.inv (.start { env0 with stopped := env0.stopped, stoppable := true }) a t ha (by intro e he; cases he; exact ht)
    have hB := fun S => hrec.inv (.start { env0 with stopped := S, stoppable := true }) b t hb (by intro e he; cases he; exact ht)
    refine waFinish_tag Exp k _ _ _ _ t ?_ ?_ ?_ ?_
    · exact (waAfterChild_tag Exp rec hrec k.isAny false _ _ _ _ t hA.1 (hB _).1 (by simp [ht])).ha
    · exact (waAfterChild_tag Exp rec hrec k.isAny false _ _ _ _ t hA.1 (hB _).1 (by simp [ht])).hb
    · exact (waAfterChild_tag Exp rec hrec k.isAny false _ _ _ _ t hA.1 (hB _).1 (by simp [ht])).henv
    · exact outsOk_append Exp (outsOk_append Exp hA.2 (hB _).2)
        (waAfterChild_tag Exp rec hrec k.isAny false _ _ _ _ t hA.1 (hB _).1 (by simp [ht])).houts
  case running.stop =>
    have he := henv hph
    unfold waStop
    split
    · exact ⟨⟨ha, hb, fun _ => by simpa [Env.stop] using he⟩, outsOk_nil Exp⟩
    · have hA := recIf_tag Exp rec hrec st.ra.isNone .stop a t ha (by intro e he'; cases he')
      have hB := recIf_tag Exp rec hrec (waRec k.isAny { st with env := st.env.stop, src := true } true (recIf rec st.ra.isNone Ev.stop a).2.2).1.rb.isNone
        .stop b t hb (by intro e he'; cases he')
      apply waFinish_tag Exp k _ _ _ _ t hA.1 hB.1 (by simpa [Env.stop] using he)
      exact outsOk_append Exp hA.2 hB.2
  case running.complete i o =>
    have he := henv hph
    unfold waComplete
    have hA := hrec.inv (.complete i o) a t ha (by intro e he'; cases he')
    have hx := waAfterChild_tag Exp rec hrec k.isAny true _ b st (rec (.complete i o) a).2.2 t hA.1 hb he
    have hB := recIf_tag Exp rec hrec (rec (.complete i o) a).2.2.isNone (.complete i o) _ t hx.hb (by intro e he'; cases he')
    have hy := waAfterChild_tag Exp rec hrec k.isAny false _ _ _ (recIf rec (rec (.complete i o) a).2.2.isNone (.complete i o)
      (waAfterChild rec k.isAny true (rec (.complete i o) a).1 b st (rec (.complete i o) a).2.2).2.1).2.2 t hx.ha hB.1 hx.henv
    apply waFinish_tag Exp k _ _ _ _ t hy.ha hy.hb hy.henv
    exact outsOk_append Exp (outsOk_append Exp (outsOk_append Exp hA.2 hx.houts) hB.2) hy.houts
  all_goals exact ⟨⟨ha, hb, henv⟩, outsOk_nil Exp⟩

theorem swStep_tag (rec : Rec) (hrec : RecTag Exp rec) (ev : Ev) (a b : Op) (st : BinSt) (t : Nat)
    (h : TagInv Exp (.bin .stopWhen a b st) t) (hev : EvTag ev t) :
    TagInv Exp (swStep rec ev a b st).1 t ∧ OutsOk Exp (swStep rec ev a b st).2.1 := by
  obtain ⟨ha, hb, henv⟩ := h
  unfold swStep
  cases hph : st.ph <;> cases ev <;> simp only []
  case idle.start env0 =>
    have ht := hev env0 rfl
    unfold swStart
    have hA := hrec.inv (.start { env0 with stopped := env0.stopped, stoppable := true }) a t ha (by intro e he; cases he; exact ht)
    have hB := fun S => hrec.inv (.start { env0 with stopped := S, stoppable := true }) b t hb (by intro e he; cases he; exact ht)
    refine swFinish_tag Exp _ _ _ _ t ?_ ?_ ?_ ?_
    · exact (swAfterChild_tag Exp rec hrec false _ _ _ _ t hA.1 (hB _).1 (by simp [ht])).ha
    · exact (swAfterChild_tag Exp rec hrec false _ _ _ _ t hA.1 (hB _).1 (by simp [ht])).hb
    · exact (swAfterChild_tag Exp rec hrec false _ _ _ _ t hA.1 (hB _).1 (by simp [ht])).henv
    · exact outsOk_append Exp (outsOk_append Exp hA.2 (hB _).2)
        (swAfterChild_tag Exp rec hrec false _ _ _ _ t hA.1 (hB _).1 (by simp [ht])).houts
  case running.stop =>
    have he := henv hph
    unfold swStop
    split
    · exact ⟨⟨ha, hb, fun _ => by simpa [Env.stop] using he⟩, outsOk_nil Exp⟩
    · have hA := recIf_tag Exp rec hrec st.ra.isNone .stop a t ha (by intro e he'; cases he')
      have hB := recIf_tag Exp rec hrec (setRa { st with env := st.env.stop, src := true } (recIf rec st.ra.isNone Ev.stop a).2.2).rb.isNone
        .stop b t hb (by intro e he'; cases he')
      apply swFinish_tag Exp _ _ _ _ t hA.1 hB.1 (by simpa [Env.stop] using he)
      exact outsOk_append Exp hA.2 hB.2
  case running.complete i o =>
    have he := henv hph
    unfold swComplete
    have hA := hrec.inv (.complete i o) a t ha (by intro e he'; cases he')
    have hx := swAfterChild_tag Exp rec hrec true _ b st (rec (.complete i o) a).2.2 t hA.1 hb he
    have hB := recIf_tag Exp rec hrec (rec (.complete i o) a).2.2.isNone (.complete i o) _ t hx.hb (by intro e he'; cases he')
    have hy := swAfterChild_tag Exp rec hrec false _ _ _ (recIf rec (rec (.complete i o) a).2.2.isNone (.complete i o)
      (swAfterChild rec true (rec (.complete i o) a).1 b st (rec (.complete i o) a).2.2).2.1).2.2 t hx.ha hB.1 hx.henv
    apply swFinish_tag Exp _ _ _ _ t hy.ha hy.hb hy.henv
    exact outsOk_append Exp (outsOk_append Exp (outsOk_append Exp hA.2 hx.houts) hB.2) hy.houts
  all_goals exact ⟨⟨ha, hb, henv⟩, outsOk_nil Exp⟩

theorem recTag_deliver : ∀ fuel : Nat, RecTag Exp (deliver specs fuel)
  | 0 => ⟨fun ev op t h _ => by
      simp only [deliver]
      refine ⟨?_, ?_⟩
      · split
        · exact h
        · simp [TagInv]
      · intro i s g hm; simp at hm⟩
  | n+1 => ⟨fun ev op t h hev => by
      have ih := recTag_deliver n
      cases op with
      | const k ph =>
        simp only [deliver, constStep]
        split <;> exact ⟨by simp [TagInv], outsOk_nil Exp⟩
      | leaf i ph nt =>
        have hE : Exp i t := h
        simp only [deliver, leafStep]
        refine ⟨?_, ?_⟩
        · repeat' split
          all_goals exact hE
        · intro j s g hm
          cases ph <;> cases ev <;> simp only [] at hm
          case idle.start env0 =>
            have ht := hev env0 rfl
            cases hs : specs i with
            | inline o => simp [hs] at hm; obtain ⟨rfl, _, rfl⟩ := hm; rw [ht]; exact hE
            | pending r =>
              simp only [hs] at hm
              split at hm
              · cases r <;> simp at hm <;> (obtain ⟨rfl, _, rfl⟩ := hm; rw [ht]; exact hE)
              · simp at hm; obtain ⟨rfl, _, rfl⟩ := hm; rw [ht]; exact hE
          all_goals (first | (simp at hm) | (repeat' split at hm) <;> simp at hm)
      | un k c ph env => simp only [deliver]; exact unStep_tag Exp _ ih ev k c ph env t h hev
      | bin k a b st =>
        simp only [deliver, binStep]
        split
        · exact waStep_tag Exp _ ih ev _ a b st t h hev
        · exact waStep_tag Exp _ ih ev _ a b st t h hev
        · exact swStep_tag Exp _ ih ev a b st t h hev
        · exact seqStep_tag Exp _ ih ev _ a b st t h hev⟩

end Unifex.Calc
