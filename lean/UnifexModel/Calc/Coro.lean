/-
  Calc/Coro.lean — an abstract machine for `unifex::task<>` coroutines (property C10).

  A coroutine PROGRAM is data (`Stmt`, `Prog := List Stmt`); an awaited sender is a scripted leaf
  (`LeafSpec`: completes inline or stays pending, with value / error / done, reacts to a stop
  notification or ignores it, is scheduler-affine or not).  The machine state is the stack of
  coroutine frames (innermost first) plus the state of the stop-request thunk that `task<>`
  interposes between itself and the receiver it is connected to
  (task.hpp `inject_stop_request_thunk`, `_sr_thunk_promise_base`).

  `step` is ONE internal transition (non-recursive); `run` iterates it to quiescence; `deliver`
  processes ONE external event (`start`, `stop`, `run` = the receiver's scheduler executes its
  oldest queued item, `complete i o`, `destroy` = the operation state is destroyed).

  What each clause mirrors in /repo:
  * `co_await leaf`: await_transform.hpp `_awaitable` + `_rec` — value → the coroutine continues
    with the value; error → `await_resume` rethrows it inside the coroutine (caught by an enclosing
    try, else the body ends: locals destroyed, `unhandled_exception` stores it); done →
    `continuation_.resume_done()`: the coroutine is NOT resumed (its locals stay alive), the
    `unhandled_done` chain runs instead.
  * a non-affine sender is wrapped by `with_scheduler_affinity` into
    `finally(sender, unstoppable(schedule(sched)))`: its result takes one hop through the scheduler.
  * `co_await task`: task.hpp `_awaiter` — the child frame is created, started by symmetric
    transfer, sees the SAME stop token and scheduler; the parent's `await_resume` destroys the child
    frame and returns its value / rethrows its exception.
  * `co_await at_coroutine_exit(a)`: at_coroutine_exit.hpp — the cleanup coroutine is spliced in front
    of the task's continuation (`exchange_continuation`), so at `final_suspend` (or on the done path)
    the most recently registered cleanup runs first, each one's continuation is the previously
    registered one, the last one's is the real parent.  Cleanups see an `unstoppable_token`; an error
    or done inside a cleanup is `std::terminate`.
  * done path: `unhandled_done.hpp` — frame's `doneCoro_` → `continuation_.done_handle()` → (cleanups
    with `isUnhandledDone_`) → parent's `unhandled_done()` … → the thunk → connect_awaitable's
    `set_done(receiver)`.  Cancelled frames are destroyed only with the operation state.
  * stop: the receiver's stop token is observed only by the thunk's stop callback, which starts
    `unstoppable(on(sched, just(&src) | then(request_stop)))` (`stopOp`); the tasks and leaves see the
    thunk's own source (`srcStopped`).  The thunk's `refCount_`/`whoToContinue_` join: if the task
    finishes while that operation is in flight, the receiver is completed when it finishes
    (`waitJoin`).

  History variables (`regd`, `ran` per frame, `gone`, `zombies`) make the cleanup / frame-lifetime
  properties state predicates.
-/
import UnifexModel.Calc.Sem

namespace Unifex.Coro
open Unifex.Calc (Outcome)

inductive LeafKind
  | inline (o : Outcome)               -- completes inside start()
  | pending (onStop : Option Outcome)  -- completes later; how it completes when it gets a stop notification
  deriving DecidableEq, Repr

structure LeafSpec where
  kind : LeafKind
  affine : Bool                        -- sender_traits::is_always_scheduler_affine
  deriving DecidableEq, Repr

inductive Stmt
  | await (i : Nat) (try_ : Bool)      -- acc += co_await leaf i   (try_: inside try { } catch (Err e) { acc += e + 100 })
  | awaitTask (p : List Stmt) (try_ : Bool)   -- acc += co_await task(p)
  | atExit (a : Nat) (l : Nat)         -- co_await at_coroutine_exit(cleanup a); l > 0: the cleanup awaits leaf l
  | ret (v : Nat)                      -- co_return acc + v
  | throw_ (e : Nat)                   -- throw Err{e}
  | stopIfRequested                    -- co_await stop_if_requested()
  | resched (k : Nat)                  -- co_await schedule(scheduler k): the task moves to scheduler k (task.cpp)
  | stopIfRequestedS                   -- co_await then(stop_if_requested(), f): the SENDER route (its operation state,
                                       --   not its awaiter) — stop_if_requested.hpp `_op::start`
  | awaitPlain (i : Nat) (try_ : Bool) -- acc += co_await <plain awaitable i> (not a sender): await_transform →
                                       --   with_scheduler_affinity → as_sender/connect_awaitable → one scheduler hop
  deriving Repr

abbrev Prog := List Stmt

def catchVal (e : Nat) : Nat := e + 100

inductive Out
  | frameStart (f : Nat)               -- body of frame f started (tracked local constructed)
  | reg (f a : Nat)                    -- cleanup a registered in frame f
  | leafStart (i : Nat) (stopped : Bool)
  | leafStop (i : Nat)                 -- leaf i got a stop notification
  | plainStart (i : Nat)               -- plain awaitable i was awaited (its await_ready ran)
  | tokRegs (n : Nat)                  -- (foreign stop-token type) n callbacks are registered on the receiver's token
  | localsDead (f : Nat)               -- locals of frame f destroyed
  | cleanup (f a : Nat)                -- cleanup a of frame f ran
  | cleanupSched (k : Nat)             -- … and the scheduler it sees is k (the task's scheduler when it was registered)
  | frameDead (f : Nat)                -- coroutine frame f destroyed
  | sched (k : Nat)                    -- a schedule() operation of scheduler k was started
  | schedCancel (k : Nat)              -- a schedule() operation of scheduler k saw a stop request and completed with done
  | root (o : Outcome)                 -- the receiver the root task is connected to was completed
  | terminate                          -- std::terminate (error / done inside a cleanup action)
  | fuelOut                            -- the evaluator ran out of fuel (never silence)
  deriving DecidableEq, Repr

/-- what a registered cleanup action does when it runs -/
inductive CK
  | sync                               -- completes synchronously
  | leaf (l : Nat)                     -- awaits leaf l (with an unstoppable token)
  | back (k : Nat)                     -- library-internal (label 0): schedule() back onto scheduler k, registered
                                       --   by the first `co_await schedule(…)` of the frame (task.cpp)
  deriving DecidableEq, Repr

def ckOf (l : Nat) : CK := if l = 0 then .sync else .leaf l

structure Frame where
  id : Nat
  kont : Prog                          -- rest of the body
  acc : Nat
  cleanups : List (Nat × CK × Nat)     -- registered and not yet run, most recent first:
                                       --   (action label, kind, the task's scheduler at registration)
  catching : Bool                      -- the co_await it is suspended in is inside a try block
  live : Bool                          -- body started and not finished: locals alive
  sched : Nat                          -- the scheduler the task currently runs on (promise.sched_)
  resched : Bool                       -- it has already rescheduled itself (promise.rescheduled_)
  regd : List Nat                      -- HISTORY: every cleanup ever registered, most recent first
  ran : List Nat                       -- HISTORY: cleanups that ran, in the order they ran
  deriving Repr

inductive Ctl
  | idle                               -- connected, not started
  | exec                               -- run the next statement of the top frame
  | resume (o : Outcome)               -- what the top frame awaits has completed with o
  | exit (o : Outcome)                 -- the top frame's body is over with o; its cleanups are running
                                       --   (o = done: the unhandled_done path, body not resumed)
  | waitLeaf (i : Nat)                 -- suspended in co_await of body leaf i
  | waitPlain (i : Nat)                -- suspended in co_await of plain awaitable i (it cannot see stop requests)
  | waitHop                            -- the awaited leaf has completed; its result is queued on the scheduler
  | waitSched (k : Nat)                -- suspended in `co_await schedule(k)` (stoppable: it sees the task's stop token)
  | waitCleanup (i : Nat) (o : Outcome)  -- a cleanup action of the top frame awaits leaf i; exit outcome o
  | waitBack (o : Outcome)             -- the internal reschedule-back cleanup waits for its scheduler; exit outcome o
  | waitJoin (o : Outcome)             -- the task is finished; the receiver will be completed with o when
                                       --   the in-flight stop request finishes (thunk refCount_)
  | finished                           -- receiver completed
  | dead                               -- std::terminate
  deriving DecidableEq, Repr

inductive QItem
  | hop (o : Outcome)                  -- `unstoppable(schedule())` after a non-affine leaf produced o
  | sched                              -- the schedule() of `co_await schedule(k)` itself
  | back                               -- the schedule() of a reschedule-back cleanup
  | stopReq                            -- the thunk's deferred stop request
  deriving DecidableEq, Repr

structure St where
  ctl : Ctl
  frames : List Frame                  -- live frames, innermost first
  zombies : List Frame                 -- cancelled frames (done path), still allocated; innermost first
  gone : List Frame                    -- HISTORY: destroyed frames, in order of destruction
  queue : List QItem                   -- the manual scheduler's FIFO
  inlineSched : Bool                   -- schedule() completes inside start()
  stoppable : Bool                     -- the receiver's stop token can request stop (else: no thunk, task.hpp
                                       --   connect → sa_task; stop events do nothing)
  adapter : Bool                       -- the receiver's stop token is not an inplace_stop_token: the awaiter of the thunk
                                       --   subscribes an inplace_stop_token_adapter to it (task.hpp `_awaiter`)
  tokRegs : Nat                        -- callbacks currently registered on the receiver's stop token (the thunk's stop
                                       --   callback, or the adapter's)
  rootStopped : Bool                   -- stop requested on the receiver's token
  srcStopped : Bool                    -- stop requested on the thunk's source (what tasks/leaves see)
  stopOp : Bool                        -- the deferred stop request is in flight (refCount_ = 2)
  nextId : Nat
  outs : List Out                      -- the whole observable trace so far
  deriving Repr

def rootFrame (p : Prog) : Frame :=
  { id := 0, kont := p, acc := 0, cleanups := [], catching := false, live := false, sched := 0, resched := false,
    regd := [], ran := [] }

/-- `connect(task, receiver)`: the root frame exists (the coroutine was called), nothing runs -/
def St.init (p : Prog) (inlineSched : Bool) (stoppable : Bool := true) (adapter : Bool := false) : St :=
  { ctl := .idle, frames := [rootFrame p], zombies := [], gone := [], queue := [], inlineSched := inlineSched,
    stoppable := stoppable, adapter := adapter, tokRegs := 0, rootStopped := false, srcStopped := false, stopOp := false, nextId := 1, outs := [] }

def emit (s : St) (o : Out) : St := { s with outs := s.outs ++ [o] }

variable (specs : Nat → LeafSpec)

/-- a schedule() operation of scheduler `k` is started; when it completes the top frame is resumed with `o` -/
def schedHop (s : St) (k : Nat) (o : Outcome) : St :=
  let s1 := emit s (.sched k)
  if s.inlineSched then { s1 with ctl := .resume o }
  else { s1 with ctl := .waitHop, queue := s1.queue ++ [.hop o] }

/-- the awaited body leaf has produced `o`: straight back into the coroutine if the sender is
    scheduler-affine, else `finally(leaf, unstoppable(schedule(sched_)))`: one hop through the task's
    current scheduler `k` (with_scheduler_affinity.hpp) -/
def leafDone (s : St) (affine : Bool) (k : Nat) (o : Outcome) : St :=
  if affine then { s with ctl := .resume o } else schedHop s k o

/-- a plain awaitable has no done channel -/
def plainOutcome : Outcome → Outcome
  | .done => .value 0
  | o => o

/-- the receiver is completed with `o`.  With a foreign stop-token type the awaiter's `await_resume`
    unsubscribes the adapter first (value / exception); on done the awaiter is not resumed and keeps the
    subscription until it is destroyed with the operation state. -/
def signal (s : St) (o : Outcome) : St :=
  let s1 := if s.adapter = true ∧ o ≠ .done then { s with tokRegs := 0 } else s
  let s2 := if s.adapter then emit s1 (.tokRegs s1.tokRegs) else s1
  { emit s2 (.root o) with ctl := .finished }

/-- the root task has finished with `o` (thunk: `complete_and_choose_continuation`: its stop callback is
    destroyed — with an inplace_stop_token that is the registration on the receiver's token) -/
def rootDone (s : St) (o : Outcome) : St :=
  let s0 := if s.adapter then s else { s with tokRegs := 0 }
  if s.stopOp then { s0 with ctl := .waitJoin o }
  else signal s0 o

/-- the body of the top frame ends with a value (co_return) or an escaped exception: locals die -/
def beginExit (s : St) (fr : Frame) (rest : List Frame) (o : Outcome) : St :=
  { emit s (.localsDead fr.id) with frames := { fr with live := false } :: rest, ctl := .exit o }

def execStep (s : St) (fr : Frame) (rest : List Frame) : St :=
  match fr.kont with
  | [] => beginExit s fr rest (.value fr.acc)
  | .ret v :: _ => beginExit s fr rest (.value (fr.acc + v))
  | .throw_ e :: _ => beginExit s fr rest (.error e)
  | .stopIfRequested :: k =>
    if s.srcStopped then { s with frames := { fr with kont := k } :: rest, ctl := .exit .done }
    else { s with frames := { fr with kont := k } :: rest }
  | .stopIfRequestedS :: k =>
    -- the sender's operation state asks the same question of the same token
    if s.srcStopped then { s with frames := { fr with kont := k } :: rest, ctl := .exit .done }
    else { s with frames := { fr with kont := k } :: rest }
  | .awaitPlain i t :: k =>
    let s1 := emit { s with frames := { fr with kont := k, catching := t } :: rest } (.plainStart i)
    match (specs i).kind with
    | .inline o => leafDone s1 false fr.sched (plainOutcome o)   -- ready, or await_suspend said "not suspending"
    | .pending _ => { s1 with ctl := .waitPlain i }
  | .atExit a l :: k =>
    emit { s with frames := { fr with kont := k, cleanups := (a, ckOf l, fr.sched) :: fr.cleanups, regd := a :: fr.regd } :: rest }
      (.reg fr.id a)
  | .await i t :: k =>
    let s1 := emit { s with frames := { fr with kont := k, catching := t } :: rest } (.leafStart i s.srcStopped)
    match (specs i).kind with
    | .inline o => leafDone s1 (specs i).affine fr.sched o
    | .pending r =>
      if s.srcStopped then
        -- the stop callback runs inside its registration
        let s2 := emit s1 (.leafStop i)
        match r with
        | none => { s2 with ctl := .waitLeaf i }
        | some o => leafDone s2 (specs i).affine fr.sched o
      else { s1 with ctl := .waitLeaf i }
  | .awaitTask p t :: k =>
    let child : Frame :=
      { id := s.nextId, kont := p, acc := 0, cleanups := [], catching := false, live := true, sched := fr.sched,
        resched := false, regd := [], ran := [] }
    emit { s with frames := child :: { fr with kont := k, catching := t } :: rest, nextId := s.nextId + 1 }
      (.frameStart s.nextId)
  | .resched n :: k =>
    -- task.cpp transform_schedule_sender_impl_: the FIRST reschedule registers a cleanup that goes back to the
    -- scheduler the task was started on; then the task's scheduler is replaced and schedule(n) is awaited
    let s1 : St :=
      if fr.resched then { s with frames := { fr with kont := k, catching := false, sched := n } :: rest }
      else emit { s with frames := { fr with kont := k, catching := false, sched := n, resched := true, cleanups := (0, CK.back fr.sched, 0) :: fr.cleanups, regd := 0 :: fr.regd } :: rest } (.reg fr.id 0)
    -- await_transform(*this, snd.base()): the raw schedule() sender, connected with the task's stop token
    let s2 := emit s1 (.sched n)
    if s.srcStopped then { emit s2 (.schedCancel n) with ctl := .resume .done }
    else if s.inlineSched then s2
    else { s2 with ctl := .waitSched n, queue := s2.queue ++ [.sched] }

def resumeStep (s : St) (fr : Frame) (rest : List Frame) (o : Outcome) : St :=
  match o with
  | .value v => { s with frames := { fr with acc := fr.acc + v } :: rest, ctl := .exec }
  | .error e =>
    if fr.catching then { s with frames := { fr with acc := fr.acc + catchVal e } :: rest, ctl := .exec }
    else beginExit s fr rest (.error e)
  | .done => { s with ctl := .exit .done }

def exitStep (s : St) (fr : Frame) (rest : List Frame) (o : Outcome) : St :=
  match fr.cleanups with
  | (a, ck, q) :: cs =>
    let s0 := emit { s with frames := { fr with cleanups := cs, ran := fr.ran ++ [a] } :: rest } (.cleanup fr.id a)
    match ck with
    | .sync => emit s0 (.cleanupSched q)
    | .leaf l =>
      -- the cleanup action awaits leaf l (unstoppable token; no scheduler hop)
      let s2 := emit (emit s0 (.cleanupSched q)) (.leafStart l false)
      match (specs l).kind with
      | .inline (.value _) => s2
      | .inline _ => { emit s2 .terminate with ctl := .dead }
      | .pending _ => { s2 with ctl := .waitCleanup l o }
    | .back n =>
      -- the internal cleanup awaits schedule(n)
      let s2 := emit s0 (.sched n)
      if s.inlineSched then s2 else { s2 with ctl := .waitBack o, queue := s2.queue ++ [.back] }
  | [] =>
    match o with
    | .done =>
      -- unhandled_done: the frame stays allocated; the parent's done continuation runs next
      { s with frames := rest, zombies := s.zombies ++ [fr] }
    | _ =>
      -- the awaiting coroutine resumes; its await_resume destroys this frame, then yields o
      { emit { s with frames := rest, gone := s.gone ++ [fr] } (.frameDead fr.id) with ctl := .resume o }

/-- ONE internal transition.  With no frame left, the awaiting coroutine is the stop-request thunk
    (then connect_awaitable's coroutine, which completes the receiver). -/
def step (s : St) : St :=
  match s.ctl, s.frames with
  | .exec, fr :: rest => execStep specs s fr rest
  | .resume o, fr :: rest => resumeStep s fr rest o
  | .exit o, fr :: rest => exitStep specs s fr rest o
  | .resume o, [] => rootDone s o
  | .exit o, [] => rootDone s o
  | _, _ => s

/-- quiescent: nothing happens until the next external event -/
def St.halted (s : St) : Bool :=
  match s.ctl, s.frames with
  | .exec, _ :: _ => false
  | .resume _, _ => false
  | .exit _, _ => false
  | _, _ => true

def run : Nat → St → St
  | 0, s => if s.halted then s else emit s .fuelOut
  | n+1, s => if s.halted then s else run n (step specs s)

/-! ### fuel: `measure` strictly decreases with every step (`Calc/CoroLemmas.lean`) -/

mutual
def Stmt.size : Stmt → Nat
  | .awaitTask p _ => progSize p + 3
  | .atExit _ _ => 2
  | .resched _ => 2
  | _ => 1
def progSize : List Stmt → Nat
  | [] => 0
  | s :: r => s.size + progSize r
end

def Frame.measure (f : Frame) : Nat := progSize f.kont + f.cleanups.length + 2

def framesMeasure : List Frame → Nat
  | [] => 0
  | f :: r => f.measure + framesMeasure r

def Ctl.weight : Ctl → Nat
  | .resume _ => 3
  | .exec => 2
  | .exit _ => 1
  | _ => 0

def St.measure (s : St) : Nat := 3 * framesMeasure s.frames + s.ctl.weight

/-- run to quiescence with enough fuel -/
def settle (s : St) : St := run specs (s.measure + 1) s

/-! ### external events -/

inductive Ev
  | start | stop | run | complete (i : Nat) (o : Outcome) | destroy
  deriving DecidableEq, Repr

/-- the scheduler of the innermost task -/
def St.topSched (s : St) : Nat :=
  match s.frames with
  | fr :: _ => fr.sched
  | [] => 0

/-- `request_stop()` on the thunk's source: the leaf the innermost task is suspended on is notified -/
def deliverStop (s : St) : St :=
  let s1 := { s with srcStopped := true }
  match s1.ctl with
  | .waitLeaf i =>
    let s2 := emit s1 (.leafStop i)
    match (specs i).kind with
    | .pending (some o) => leafDone s2 (specs i).affine s.topSched o
    | _ => s2
  | .waitSched k =>
    -- the pending schedule() operation is cancelled: it completes with done
    { emit s1 (.schedCancel k) with ctl := .resume .done, queue := s1.queue.filter (fun q => q != .sched) }
  | _ => s1

/-- the deferred stop request has completed (`receiver_t::set_value`): last one out continues -/
def stopOpDone (s : St) : St :=
  let s1 := { s with stopOp := false }
  match s1.ctl with
  | .waitJoin o => signal s1 o
  | _ => s1

def Ctl.callbackRegistered : Ctl → Bool
  | .idle | .finished | .waitJoin _ | .dead => false
  | _ => true

def onStop (s : St) : St :=
  if s.rootStopped || !s.stoppable then s
  else
    let s1 := { s with rootStopped := true }
    if !s1.ctl.callbackRegistered then s1
    else
      -- the thunk's stop callback starts `unstoppable(on(sched_, just(&src) | then(request_stop)))`
      let s2 := emit { s1 with stopOp := true } (.sched 0)
      if s1.inlineSched then stopOpDone (settle specs (deliverStop specs s2))
      else { s2 with queue := s2.queue ++ [.stopReq] }

def startFrames : List Frame → List Frame
  | fr :: rest => { fr with live := true } :: rest
  | [] => []

def onStart (s : St) : St :=
  -- the thunk registers its stop callback; it runs inside the registration if stop was already requested
  let s1 :=
    if s.rootStopped then
      (if s.inlineSched then { emit s (.sched 0) with srcStopped := true }
       else { emit s (.sched 0) with stopOp := true, queue := s.queue ++ [.stopReq] })
    else s
  settle specs (emit { s1 with ctl := .exec, frames := startFrames s1.frames, tokRegs := if s.stoppable then 1 else 0 } (.frameStart 0))

def onRun (s : St) : St :=
  match s.queue with
  | [] => s
  | .hop o :: q =>
    if s.ctl = .waitHop then settle specs { s with queue := q, ctl := .resume o } else { s with queue := q }
  | .sched :: q =>
    match s.ctl with
    | .waitSched _ => settle specs { s with queue := q, ctl := .exec }
    | _ => { s with queue := q }
  | .back :: q =>
    match s.ctl with
    | .waitBack o => settle specs { s with queue := q, ctl := .exit o }
    | _ => { s with queue := q }
  | .stopReq :: q => stopOpDone (settle specs (deliverStop specs { s with queue := q }))

def onComplete (s : St) (i : Nat) (o : Outcome) : St :=
  match s.ctl with
  | .waitLeaf j => if i = j then settle specs (leafDone s (specs i).affine s.topSched o) else s
  | .waitPlain j => if i = j then settle specs (leafDone s false s.topSched (plainOutcome o)) else s
  | .waitCleanup j x =>
    if i = j then
      match o with
      | .value _ => settle specs { s with ctl := .exit x }
      | _ => { emit s .terminate with ctl := .dead }
    else s
  | _ => s

def destroyFrames (s : St) : List Frame → St
  | [] => s
  | fr :: r =>
    let s1 := if fr.live then emit s (.localsDead fr.id) else s
    destroyFrames (emit { s1 with gone := s1.gone ++ [{ fr with live := false }] } (.frameDead fr.id)) r

/-- the operation state is destroyed: every frame still allocated is destroyed, innermost first -/
def onDestroy (s : St) : St :=
  if s.ctl = .finished ∨ s.ctl = .idle then
    -- the awaiter's destructor unsubscribes the adapter if the task was cancelled (dirty bit still set)
    let s1 := { destroyFrames { s with frames := [], zombies := [] } (s.zombies ++ s.frames) with tokRegs := 0 }
    if s.adapter then emit s1 (.tokRegs 0) else s1
  else s   -- destroying a running operation is outside the sender contract

/-- is the event meaningful in this state?  (the harness prints `!!bad-op` otherwise) -/
def evOk (s : St) : Ev → Bool
  | .start => s.ctl = .idle
  | .stop => true
  | .run => !s.queue.isEmpty
  | .complete i _ =>
    match s.ctl with
    | .waitLeaf j => i = j
    | .waitPlain j => i = j
    | .waitCleanup j _ => i = j
    | _ => false
  | .destroy => s.ctl = .finished || s.ctl = .idle

/-- ONE external event, processed to quiescence -/
def deliver (ev : Ev) (s : St) : St :=
  match ev with
  | .start => if s.ctl = .idle then onStart specs s else s
  | .stop => onStop specs s
  | .run => onRun specs s
  | .complete i o => onComplete specs s i o
  | .destroy => onDestroy s

def runEvents (s : St) : List Ev → St
  | [] => s
  | ev :: evs => runEvents (deliver specs ev s) evs

end Unifex.Coro

/-! ### Spec: what a program whose awaits all complete inline must do

  `evalProg` is the denotational reading of a coroutine program: its outcome as a sender, and the
  list of cleanup actions in the order in which they must run (children before parents, each frame's
  own cleanups in reverse registration order).  `Props/C10.lean` proves that `deliver .start`
  computes exactly this. -/

namespace Unifex.Coro
open Unifex.Calc (Outcome)

variable (specs : Nat → LeafSpec)

def leafOutcome (i : Nat) : Outcome :=
  match (specs i).kind with
  | .inline o => o
  | .pending _ => .done

/-- effect of one statement on the frame: the body continues, or it is over -/
inductive SRes
  | next (acc : Nat) (reg ran : List Nat)
  | exit (o : Outcome) (ran : List Nat)

/-- what `acc += co_await x` does with the result of x (`try_`: inside try/catch) -/
def absorb (try_ : Bool) (acc : Nat) (reg ran : List Nat) : Outcome → SRes
  | .value v => .next (acc + v) reg ran
  | .error e => if try_ then .next (acc + catchVal e) reg ran else .exit (.error e) ran
  | .done => .exit .done ran

mutual
/-- `reg`: cleanups registered by this frame so far (most recent first); `ran`: cleanups that have run so far -/
def evalStmt (stopped : Bool) : Stmt → Nat → List Nat → List Nat → SRes
  | .await i t, acc, reg, ran => absorb t acc reg ran (leafOutcome specs i)
  | .awaitTask p t, acc, reg, ran =>
    let r := evalFrame stopped p 0 [] ran
    absorb t acc reg r.2 r.1
  | .atExit a _, acc, reg, ran => .next acc (a :: reg) ran
  | .ret v, acc, _, ran => .exit (.value (acc + v)) ran
  | .throw_ e, _, _, ran => .exit (.error e) ran
  | .stopIfRequested, acc, reg, ran => if stopped then .exit .done ran else .next acc reg ran
  | .resched _, acc, reg, ran => .next acc reg ran   -- outside the spec (`Stmt.inline` is false for it)
  | .stopIfRequestedS, acc, reg, ran => if stopped then .exit .done ran else .next acc reg ran
  | .awaitPlain i t, acc, reg, ran => absorb t acc reg ran (plainOutcome (leafOutcome specs i))
/-- a frame running the statements `k`: its outcome, and all cleanups that have run when its parent
    observes that outcome (its own registered cleanups last, most recent first) -/
def evalFrame (stopped : Bool) : List Stmt → Nat → List Nat → List Nat → Outcome × List Nat
  | [], acc, reg, ran => (.value acc, ran ++ reg)
  | s :: k, acc, reg, ran =>
    match evalStmt stopped s acc reg ran with
    | .next acc' reg' ran' => evalFrame stopped k acc' reg' ran'
    | .exit o ran' => (o, ran' ++ reg)
end

/-- outcome of the task as a sender, and the cleanup actions in the order they must run -/
def evalProg (stopped : Bool) (p : Prog) : Outcome × List Nat := evalFrame specs stopped p 0 [] []

def LeafKind.isInline : LeafKind → Bool
  | .inline _ => true
  | .pending _ => false

def LeafKind.isInlineValue : LeafKind → Bool
  | .inline (.value _) => true
  | _ => false

/-- a cleanup action that is synchronous or awaits a leaf completing inline with a value -/
def cleanupSync (l : Nat) : Bool := l == 0 || (specs l).kind.isInlineValue

mutual
/-- every awaited leaf completes inside start() and comes straight back (affine sender or inline
    scheduler); every cleanup is synchronous or awaits a leaf that completes inline with a value -/
def Stmt.inline (inlineSched : Bool) : Stmt → Bool
  | .await i _ => (specs i).kind.isInline && ((specs i).affine || inlineSched)
  | .awaitTask p _ => progInline inlineSched p
  | .atExit _ l => cleanupSync specs l
  | .resched _ => false
  | .awaitPlain i _ => (specs i).kind.isInline && inlineSched   -- a plain awaitable is never scheduler-affine
  | _ => true
def progInline (inlineSched : Bool) : List Stmt → Bool
  | [] => true
  | s :: k => s.inline inlineSched && progInline inlineSched k
end

end Unifex.Coro
