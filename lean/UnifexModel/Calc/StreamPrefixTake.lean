/-
  Calc/StreamPrefixTake.lean — take_until keeps the value contract and the fuel contract.
-/
import UnifexModel.Calc.StreamPrefixBase

namespace Unifex.Stream
open Unifex.Calc (Outcome Fn)
variable (specs : Nat → SrcSpec)

/-- the three contracts of the evaluator at smaller fuel -/
structure AllOK (rec : Rec) : Prop where
  ok : RecOK rec
  phi : PhiOK specs rec
  need : NeedOK specs rec

/-- value / fuel bookkeeping of an intermediate take_until state relative to the state the call started from
    (`P0` = phi of the source then, `N0` = need of the node then) -/
structure PT (P0 : List Nat) (N0 : Nat) (x : TU) : Prop where
  nta : x.s.NoTake
  ntt : x.t.NoTake
  sia : SI2 x.s
  sit : SI2 x.t
  le : x.s.need specs + x.t.need specs + 1 ≤ N0
  trk : match x.sig with
    | some (.next (.value v)) =>
      (∃ tail, P0 = v :: tail ∧ x.s.phi specs <+: tail) ∧ x.s.need specs + x.t.need specs + 1 < N0
    | some (.next _) => True
    | _ => x.s.phi specs <+: P0

/-- PT only looks at the two children and the pending signal -/
theorem PT.of_eq {P0 : List Nat} {N0 : Nat} {x y : TU} (h : PT specs P0 N0 x) (hs : y.s = x.s) (ht : y.t = x.t)
    (hg : y.sig = x.sig) : PT specs P0 N0 y := by
  obtain ⟨a, b, c, d, e, f⟩ := h
  exact ⟨hs ▸ a, ht ▸ b, hs ▸ c, ht ▸ d, by rw [hs, ht]; exact e, by rw [hs, ht, hg]; exact f⟩

/-- with no signal pending, `clean` may be set -/
theorem PT.to_clean {P0 : List Nat} {N0 : Nat} {x y : TU} (h : PT specs P0 N0 x) (hx : x.sig = none) (hs : y.s = x.s)
    (ht : y.t = x.t) (e : Option Nat) (hg : y.sig = some (.clean e)) : PT specs P0 N0 y := by
  obtain ⟨a, b, c, d, e', f⟩ := h
  refine ⟨hs ▸ a, ht ▸ b, hs ▸ c, ht ▸ d, by rw [hs, ht]; exact e', ?_⟩
  rw [hg, hs]
  simpa [hx] using f

theorem tuJoin_shape (x : TU) :
    (tuJoin x).s = x.s ∧ (tuJoin x).t = x.t ∧ ((tuJoin x).sig = x.sig ∨ ∃ e, (tuJoin x).sig = some (.clean e)) := by
  unfold tuJoin
  split
  · exact ⟨rfl, rfl, Or.inr ⟨_, rfl⟩⟩
  · exact ⟨rfl, rfl, Or.inl rfl⟩

theorem tuJoin_pt {P0 : List Nat} {N0 : Nat} (x : TU) (h : PT specs P0 N0 x) (hx : x.sig = none) :
    PT specs P0 N0 (tuJoin x) := by
  obtain ⟨h1, h2, h3⟩ := tuJoin_shape x
  rcases h3 with h3 | ⟨e, h3⟩
  · exact h.of_eq specs h1 h2 h3
  · exact h.to_clean specs hx h1 h2 e h3

theorem tuJoinSrc_pt {P0 : List Nat} {N0 : Nat} (x : TU) (e : Option Nat) (h : PT specs P0 N0 x) (hx : x.sig = none) :
    PT specs P0 N0 (tuJoinSrc x e) := by
  unfold tuJoinSrc
  exact tuJoin_pt specs _ (h.of_eq specs rfl rfl rfl) hx

theorem tuJoinTrig_pt {P0 : List Nat} {N0 : Nat} (x : TU) (e : Option Nat) (h : PT specs P0 N0 x) (hx : x.sig = none) :
    PT specs P0 N0 (tuJoinTrig x e) := by
  unfold tuJoinTrig
  exact tuJoin_pt specs _ (h.of_eq specs rfl rfl rfl) hx

/-- a call on the trigger side: only fuel and the auxiliary invariant matter -/
theorem pt_tcall {P0 : List Nat} {N0 : Nat} (rec : Rec) (hrec : AllOK specs rec) (x : TU) (h : PT specs P0 N0 x)
    (c : Call) (hg : Good x.t) (hl : Legal c x.t) (y : TU) (hs : y.s = x.s) (ht : y.t = (rec c x.t).1)
    (hsig : y.sig = x.sig) : PT specs P0 N0 y := by
  obtain ⟨nt, si, _, _⟩ := hrec.phi c x.t hg hl h.sit h.ntt
  obtain ⟨_, le, _⟩ := hrec.need c x.t h.ntt
  obtain ⟨a, b, c', d, e, f⟩ := h
  refine ⟨hs ▸ a, ht ▸ nt, hs ▸ c', ht ▸ si, by rw [hs, ht]; omega, ?_⟩
  rw [hsig, hs]
  cases hx : x.sig with
  | none => simpa [hx] using f
  | some sg =>
    cases sg with
    | clean e => simpa [hx] using f
    | next o =>
      cases o with
      | value v =>
        simp only [hx] at f
        exact ⟨f.1, by rw [ht]; omega⟩
      | done => trivial
      | error e => trivial


/-- a call on the source side while no signal is pending -/
theorem pt_scall {P0 : List Nat} {N0 : Nat} (rec : Rec) (hrec : AllOK specs rec) (x : TU) (h : PT specs P0 N0 x)
    (hx : x.sig = none) (c : Call) (hg : Good x.s) (hl : Legal c x.s) (y : TU) (hs : y.s = (rec c x.s).1)
    (ht : y.t = x.t)
    (hsig : (∃ o, (rec c x.s).2.2 = some (.next o) ∧ y.sig = some (.next o)) ∨
            ((∀ o, (rec c x.s).2.2 ≠ some (.next o)) ∧ y.sig = none)) : PT specs P0 N0 y := by
  obtain ⟨nt, si, hv, hn⟩ := hrec.phi c x.s hg hl h.sia h.nta
  obtain ⟨_, le, lt⟩ := hrec.need c x.s h.nta
  obtain ⟨a, b, c', d, e, f⟩ := h
  simp only [hx] at f
  refine ⟨hs ▸ nt, ht ▸ b, hs ▸ si, ht ▸ d, by rw [hs, ht]; omega, ?_⟩
  rcases hsig with ⟨o, h1, h2⟩ | ⟨h1, h2⟩
  · rw [h2, hs, ht]
    cases o with
    | value v =>
      obtain ⟨tail, h5, h6⟩ := hv v h1
      rw [h5] at f
      obtain ⟨t3, h7, h8⟩ := prefix_cons_of f
      exact ⟨⟨t3, h7, h6.trans h8⟩, by have := lt v h1; omega⟩
    | done => trivial
    | error e => trivial
  · rw [h2, hs]
    exact (hn h1).trans f


theorem tuStartTrigCleanup_pt {P0 : List Nat} {N0 : Nat} (rec : Rec) (hrec : AllOK specs rec) (x : TU)
    (h : PT specs P0 N0 x) (hx : x.sig = none) (hg : Good x.t) (hti : x.t.ph = .idle) :
    PT specs P0 N0 (tuStartTrigCleanup rec x) := by
  unfold tuStartTrigCleanup
  dsimp only
  have h1 := pt_tcall specs rec hrec x h .cleanup hg hti
    { x with t := (rec .cleanup x.t).1, outs := x.outs ++ (rec .cleanup x.t).2.1,
             st := { x.st with trigOpCtor := x.st.trigOpCtor + 1 } } rfl rfl rfl
  split
  · exact tuJoinTrig_pt specs _ _ h1 hx
  · exact h1

/-- in a consistent state: the trigger's next() still running although cleanupReady_ is set means cleanup()
    is waiting for it, so no signal is pending -/
theorem tuok_ready_sig {ph0 : Ph} {x : TU} (hx : TUOK ph0 x) (hr : x.st.ready = true) (htr : x.st.trigRunning = true) :
    x.sig = none := by
  obtain ⟨_, _, hi, htk⟩ := hx
  have h14 := hi.t14
  have h11 := hi.t11 htr
  have hph : x.st.ph = .cleaning := by
    cases hp : x.st.ph with
    | idle => have := h14 (Or.inl hp) hr; simp_all
    | nexting => have := h14 (Or.inr hp) hr; simp_all
    | cleaning => rfl
    | cleaned => have := (hi.t9 hp).2; rcases h11 with h | h <;> simp_all
  cases hs : x.sig with
  | none => rfl
  | some z => cases z <;> simp_all [Track]

theorem tuStopTrig_pt {P0 : List Nat} {N0 : Nat} (rec : Rec) (hrec : AllOK specs rec) (x : TU)
    (h : PT specs P0 N0 x) (hgt : Good x.t)
    (hrs : x.st.ready = true → x.st.trigRunning = true → x.sig = none) :
    PT specs P0 N0 (tuStopTrig rec x) := by
  unfold tuStopTrig
  by_cases htr : x.st.trigRunning = true
  · rw [if_pos htr]
    dsimp only
    obtain ⟨g, f1, _, _, _, _⟩ := hrec.ok .stop x.t hgt trivial
    have h1 := pt_tcall specs rec hrec x h .stop hgt trivial
      { x with t := (rec .stop x.t).1, outs := x.outs ++ (rec .stop x.t).2.1 } rfl rfl rfl
    split
    · rename_i o ho
      by_cases hr : x.st.ready = true
      · rw [if_pos (by simpa using hr)]
        exact tuStartTrigCleanup_pt specs rec hrec _ (h1.of_eq specs rfl rfl rfl) (hrs hr htr) g (f1 _ ho).1
      · rw [if_neg (by simpa using hr)]
        exact h1.of_eq specs rfl rfl rfl
    · exact h1
  · rw [if_neg htr]; exact h

theorem tuOnSrcNext_eq_of_src (rec : Rec) (x : TU) (o : Outcome) (h : x.st.src = true) :
    tuOnSrcNext rec x o = { x with st := { x.st with srcRunning := false, ph := .idle }, sig := some (.next o) } := by
  cases o <;> simp [tuOnSrcNext, h]

/-- `x1` is the state right after next(source) signalled `o` (signal not yet recorded) -/
theorem tuOnSrcNext_pt {P0 : List Nat} {N0 : Nat} (rec : Rec) (hrec : AllOK specs rec) (x1 : TU) (o : Outcome)
    (h1 : PT specs P0 N0 { x1 with sig := some (.next o) }) (hgt : Good x1.t)
    (hnr : ¬ (x1.st.ready = true ∧ x1.st.trigRunning = true)) :
    PT specs P0 N0 (tuOnSrcNext rec x1 o) := by
  have hbase : PT specs P0 N0 { x1 with st := { x1.st with srcRunning := false, ph := .idle }, sig := some (.next o) } :=
    h1.of_eq specs rfl rfl rfl
  have hstop : PT specs P0 N0 (if x1.st.src = true then
        ({ x1 with st := { x1.st with srcRunning := false, ph := .idle }, sig := some (.next o) } : TU)
      else tuStopTrig rec { x1 with st := { x1.st with srcRunning := false, ph := .idle, src := true },
                                    sig := some (.next o) }) := by
    by_cases hs : x1.st.src = true
    · rw [if_pos hs]; exact hbase
    · rw [if_neg hs]
      exact tuStopTrig_pt specs rec hrec _ (h1.of_eq specs rfl rfl rfl) hgt
        (fun hr htr => absurd ⟨hr, htr⟩ hnr)
  cases o with
  | value v => simpa [tuOnSrcNext] using hbase
  | done => simpa [tuOnSrcNext] using hstop
  | error e => simpa [tuOnSrcNext] using hstop


theorem tuRequestStop_pt {P0 : List Nat} {N0 : Nat} (rec : Rec) (hrec : AllOK specs rec) (x : TU)
    (h : PT specs P0 N0 x) (hgs : Good x.s) (hgt : Good x.t)
    (hsr : x.st.srcRunning = true → x.sig = none ∧ ¬ (x.st.ready = true ∧ x.st.trigRunning = true))
    (hrs : x.st.ready = true → x.st.trigRunning = true → x.sig = none) :
    PT specs P0 N0 (tuRequestStop rec x) := by
  unfold tuRequestStop
  by_cases hsrc : x.st.src = true
  · rw [if_pos hsrc]; exact h
  · rw [if_neg hsrc]
    dsimp only
    by_cases hr : x.st.srcRunning = true
    · rw [if_pos (by simpa using hr)]
      obtain ⟨hsn, hnr⟩ := hsr hr
      cases hs : (rec .stop x.s).2.2 with
      | none =>
        simp only
        refine tuStopTrig_pt specs rec hrec _ ?_ hgt hrs
        exact pt_scall specs rec hrec x h hsn .stop hgs trivial _ rfl rfl (Or.inr ⟨by simp [hs], hsn⟩)
      | some sg =>
        cases sg with
        | clean e =>
          simp only
          refine tuStopTrig_pt specs rec hrec _ ?_ hgt hrs
          exact pt_scall specs rec hrec x h hsn .stop hgs trivial _ rfl rfl (Or.inr ⟨by simp [hs], hsn⟩)
        | next o =>
          simp only
          have hp1 : PT specs P0 N0
              { ({ x with st := { x.st with src := true }, s := (rec .stop x.s).1,
                          outs := x.outs ++ (rec .stop x.s).2.1 } : TU) with sig := some (.next o) } :=
            pt_scall specs rec hrec x h hsn .stop hgs trivial _ rfl rfl (Or.inl ⟨o, hs, rfl⟩)
          have hon := tuOnSrcNext_pt specs rec hrec
            ({ x with st := { x.st with src := true }, s := (rec .stop x.s).1, outs := x.outs ++ (rec .stop x.s).2.1 } : TU)
            o hp1 hgt hnr
          rw [tuOnSrcNext_eq_of_src rec _ o rfl] at hon ⊢
          exact tuStopTrig_pt specs rec hrec _ hon hgt (fun h1 h2 => absurd ⟨h1, h2⟩ hnr)
    · rw [if_neg (by simpa using hr)]
      exact tuStopTrig_pt specs rec hrec _ (h.of_eq specs rfl rfl rfl) hgt hrs

/-- `x` is the state right after next(trigger) signalled (its result `t'` already stored in `x.t`) -/
theorem tuOnTrigNext_pt {P0 : List Nat} {N0 : Nat} (rec : Rec) (hrec : AllOK specs rec) (x : TU)
    (h : PT specs P0 N0 x) (hgs : Good x.s) (hgt : Good x.t) (hti : x.t.ph = .idle)
    (hready : x.st.ready = true → x.sig = none)
    (hsr : x.st.srcRunning = true → x.sig = none ∧ ¬ (x.st.ready = true ∧ x.st.trigRunning = true)) :
    PT specs P0 N0 (tuOnTrigNext rec x) := by
  unfold tuOnTrigNext
  dsimp only
  by_cases hr : x.st.ready = true
  · rw [if_pos hr]
    exact tuStartTrigCleanup_pt specs rec hrec _ (h.of_eq specs rfl rfl rfl) (hready hr) hgt hti
  · rw [if_neg hr]
    have := tuRequestStop_pt specs rec hrec { x with st := { x.st with trigRunning := false } }
      (h.of_eq specs rfl rfl rfl) hgs hgt
      (fun h1 => ⟨(hsr h1).1, fun h2 => by simp at h2⟩) (fun _ h2 => by simp at h2)
    exact this.of_eq specs rfl rfl rfl

end Unifex.Stream
