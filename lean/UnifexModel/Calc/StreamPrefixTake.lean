/-
  Calc/StreamPrefixTake.lean — take_until keeps the value contract and the fuel contract.
-/
import UnifexModel.Calc.StreamPrefixBase

namespace Unifex.Stream
open Unifex.Calc (Outcome Fn)
variable (specs : Nat → SrcSpec)

/-- the three contracts of the evaluator at smaller fuel -/
structure AllOK (rec : Rec) : Prop where
  ok : RecOK rec
  phi : PhiOK specs rec
  need : NeedOK specs rec

/-- value / fuel bookkeeping of an intermediate take_until state relative to the state the call started from
    (`P0` = phi of the source then, `N0` = need of the node then) -/
structure PT (P0 : List Nat) (N0 : Nat) (x : TU) : Prop where
  nta : x.s.NoTake
  ntt : x.t.NoTake
  sia : SI2 x.s
  sit : SI2 x.t
  le : x.s.need specs + x.t.need specs + 1 ≤ N0
  trk : match x.sig with
    | some (.next (.value v)) =>
      (∃ tail, P0 = v :: tail ∧ x.s.phi specs <+: tail) ∧ x.s.need specs + x.t.need specs + 1 < N0
    | some (.next _) => True
    | _ => x.s.phi specs <+: P0

/-- PT only looks at the two children and the pending signal -/
theorem PT.of_eq {P0 : List Nat} {N0 : Nat} {x y : TU} (h : PT specs P0 N0 x) (hs : y.s = x.s) (ht : y.t = x.t)
    (hg : y.sig = x.sig) : PT specs P0 N0 y := by
  obtain ⟨a, b, c, d, e, f⟩ := h
  exact ⟨hs ▸ a, ht ▸ b, hs ▸ c, ht ▸ d, by rw [hs, ht]; exact e, by rw [hs, ht, hg]; exact f⟩

/-- with no signal pending, `clean` may be set -/
theorem PT.to_clean {P0 : List Nat} {N0 : Nat} {x y : TU} (h : PT specs P0 N0 x) (hx : x.sig = none) (hs : y.s = x.s)
    (ht : y.t = x.t) (e : Option Nat) (hg : y.sig = some (.clean e)) : PT specs P0 N0 y := by
  obtain ⟨a, b, c, d, e', f⟩ := h
  refine ⟨hs ▸ a, ht ▸ b, hs ▸ c, ht ▸ d, by rw [hs, ht]; exact e', ?_⟩
  rw [hg, hs]
  simpa [hx] using f

theorem tuJoin_shape (x : TU) :
    (tuJoin x).s = x.s ∧ (tuJoin x).t = x.t ∧ ((tuJoin x).sig = x.sig ∨ ∃ e, (tuJoin x).sig = some (.clean e)) := by
  unfold tuJoin
  split
  · exact ⟨rfl, rfl, Or.inr ⟨_, rfl⟩⟩
  · exact ⟨rfl, rfl, Or.inl rfl⟩

theorem tuJoin_pt {P0 : List Nat} {N0 : Nat} (x : TU) (h : PT specs P0 N0 x) (hx : x.sig = none) :
    PT specs P0 N0 (tuJoin x) := by
  obtain ⟨h1, h2, h3⟩ := tuJoin_shape x
  rcases h3 with h3 | ⟨e, h3⟩
  · exact h.of_eq specs h1 h2 h3
  · exact h.to_clean specs hx h1 h2 e h3

theorem tuJoinSrc_pt {P0 : List Nat} {N0 : Nat} (x : TU) (e : Option Nat) (h : PT specs P0 N0 x) (hx : x.sig = none) :
    PT specs P0 N0 (tuJoinSrc x e) := by
  unfold tuJoinSrc
  exact tuJoin_pt specs _ (h.of_eq specs rfl rfl rfl) hx

theorem tuJoinTrig_pt {P0 : List Nat} {N0 : Nat} (x : TU) (e : Option Nat) (h : PT specs P0 N0 x) (hx : x.sig = none) :
    PT specs P0 N0 (tuJoinTrig x e) := by
  unfold tuJoinTrig
  exact tuJoin_pt specs _ (h.of_eq specs rfl rfl rfl) hx

/-- a call on the trigger side: only fuel and the auxiliary invariant matter -/
theorem pt_tcall {P0 : List Nat} {N0 : Nat} (rec : Rec) (hrec : AllOK specs rec) (x : TU) (h : PT specs P0 N0 x)
    (c : Call) (hg : Good x.t) (hl : Legal c x.t) (y : TU) (hs : y.s = x.s) (ht : y.t = (rec c x.t).1)
    (hsig : y.sig = x.sig) : PT specs P0 N0 y := by
  obtain ⟨nt, si, _, _⟩ := hrec.phi c x.t hg hl h.sit h.ntt
  obtain ⟨_, le, _⟩ := hrec.need c x.t h.ntt
  obtain ⟨a, b, c', d, e, f⟩ := h
  refine ⟨hs ▸ a, ht ▸ nt, hs ▸ c', ht ▸ si, by rw [hs, ht]; omega, ?_⟩
  rw [hsig, hs]
  cases hx : x.sig with
  | none => simpa [hx] using f
  | some sg =>
    cases sg with
    | clean e => simpa [hx] using f
    | next o =>
      cases o with
      | value v =>
        simp only [hx] at f
        exact ⟨f.1, by rw [ht]; omega⟩
      | done => trivial
      | error e => trivial


/-- a call on the source side while no signal is pending -/
theorem pt_scall {P0 : List Nat} {N0 : Nat} (rec : Rec) (hrec : AllOK specs rec) (x : TU) (h : PT specs P0 N0 x)
    (hx : x.sig = none) (c : Call) (hg : Good x.s) (hl : Legal c x.s) (y : TU) (hs : y.s = (rec c x.s).1)
    (ht : y.t = x.t)
    (hsig : (∃ o, (rec c x.s).2.2 = some (.next o) ∧ y.sig = some (.next o)) ∨
            ((∀ o, (rec c x.s).2.2 ≠ some (.next o)) ∧ y.sig = none)) : PT specs P0 N0 y := by
  obtain ⟨nt, si, hv, hn⟩ := hrec.phi c x.s hg hl h.sia h.nta
  obtain ⟨_, le, lt⟩ := hrec.need c x.s h.nta
  obtain ⟨a, b, c', d, e, f⟩ := h
  simp only [hx] at f
  refine ⟨hs ▸ nt, ht ▸ b, hs ▸ si, ht ▸ d, by rw [hs, ht]; omega, ?_⟩
  rcases hsig with ⟨o, h1, h2⟩ | ⟨h1, h2⟩
  · rw [h2, hs, ht]
    cases o with
    | value v =>
      obtain ⟨tail, h5, h6⟩ := hv v h1
      rw [h5] at f
      obtain ⟨t3, h7, h8⟩ := prefix_cons_of f
      exact ⟨⟨t3, h7, h6.trans h8⟩, by have := lt v h1; omega⟩
    | done => trivial
    | error e => trivial
  · rw [h2, hs]
    exact (hn h1).trans f


theorem tuStartTrigCleanup_pt {P0 : List Nat} {N0 : Nat} (rec : Rec) (hrec : AllOK specs rec) (x : TU)
    (h : PT specs P0 N0 x) (hx : x.sig = none) (hg : Good x.t) (hti : x.t.ph = .idle) :
    PT specs P0 N0 (tuStartTrigCleanup rec x) := by
  unfold tuStartTrigCleanup
  dsimp only
  have h1 := pt_tcall specs rec hrec x h .cleanup hg hti
    { x with t := (rec .cleanup x.t).1, outs := x.outs ++ (rec .cleanup x.t).2.1,
             st := { x.st with trigOpCtor := x.st.trigOpCtor + 1 } } rfl rfl rfl
  split
  · exact tuJoinTrig_pt specs _ _ h1 hx
  · exact h1

/-- in a consistent state: the trigger's next() still running although cleanupReady_ is set means cleanup()
    is waiting for it, so no signal is pending -/
theorem tuok_ready_sig {ph0 : Ph} {x : TU} (hx : TUOK ph0 x) (hr : x.st.ready = true) (htr : x.st.trigRunning = true) :
    x.sig = none := by
  obtain ⟨_, _, hi, htk⟩ := hx
  have h14 := hi.t14
  have h11 := hi.t11 htr
  have hph : x.st.ph = .cleaning := by
    cases hp : x.st.ph with
    | idle => have := h14 (Or.inl hp) hr; simp_all
    | nexting => have := h14 (Or.inr hp) hr; simp_all
    | cleaning => rfl
    | cleaned => have := (hi.t9 hp).2; rcases h11 with h | h <;> simp_all
  cases hs : x.sig with
  | none => rfl
  | some z => cases z <;> simp_all [Track]

theorem tuStopTrig_pt {P0 : List Nat} {N0 : Nat} (rec : Rec) (hrec : AllOK specs rec) (x : TU)
    (h : PT specs P0 N0 x) (hgt : Good x.t)
    (hrs : x.st.ready = true → x.st.trigRunning = true → x.sig = none) :
    PT specs P0 N0 (tuStopTrig rec x) := by
  unfold tuStopTrig
  by_cases htr : x.st.trigRunning = true
  · rw [if_pos htr]
    dsimp only
    obtain ⟨g, f1, _, _, _, _⟩ := hrec.ok .stop x.t hgt trivial
    have h1 := pt_tcall specs rec hrec x h .stop hgt trivial
      { x with t := (rec .stop x.t).1, outs := x.outs ++ (rec .stop x.t).2.1 } rfl rfl rfl
    split
    · rename_i o ho
      by_cases hr : x.st.ready = true
      · rw [if_pos (by simpa using hr)]
        exact tuStartTrigCleanup_pt specs rec hrec _ (h1.of_eq specs rfl rfl rfl) (hrs hr htr) g (f1 _ ho).1
      · rw [if_neg (by simpa using hr)]
        exact h1.of_eq specs rfl rfl rfl
    · exact h1
  · rw [if_neg htr]; exact h

theorem tuOnSrcNext_eq_of_src (rec : Rec) (x : TU) (o : Outcome) (h : x.st.src = true) :
    tuOnSrcNext rec x o = { x with st := { x.st with srcRunning := false, ph := .idle }, sig := some (.next o) } := by
  cases o <;> simp [tuOnSrcNext, h]

/-- `x1` is the state right after next(source) signalled `o` (signal not yet recorded) -/
theorem tuOnSrcNext_pt {P0 : List Nat} {N0 : Nat} (rec : Rec) (hrec : AllOK specs rec) (x1 : TU) (o : Outcome)
    (h1 : PT specs P0 N0 { x1 with sig := some (.next o) }) (hgt : Good x1.t)
    (hnr : ¬ (x1.st.ready = true ∧ x1.st.trigRunning = true)) :
    PT specs P0 N0 (tuOnSrcNext rec x1 o) := by
  have hbase : PT specs P0 N0 { x1 with st := { x1.st with srcRunning := false, ph := .idle }, sig := some (.next o) } :=
    h1.of_eq specs rfl rfl rfl
  have hstop : PT specs P0 N0 (if x1.st.src = true then
        ({ x1 with st := { x1.st with srcRunning := false, ph := .idle }, sig := some (.next o) } : TU)
      else tuStopTrig rec { x1 with st := { x1.st with srcRunning := false, ph := .idle, src := true },
                                    sig := some (.next o) }) := by
    by_cases hs : x1.st.src = true
    · rw [if_pos hs]; exact hbase
    · rw [if_neg hs]
      exact tuStopTrig_pt specs rec hrec _ (h1.of_eq specs rfl rfl rfl) hgt
        (fun hr htr => absurd ⟨hr, htr⟩ hnr)
  cases o with
  | value v => simpa [tuOnSrcNext] using hbase
  | done => simpa [tuOnSrcNext] using hstop
  | error e => simpa [tuOnSrcNext] using hstop


theorem tuRequestStop_pt {P0 : List Nat} {N0 : Nat} (rec : Rec) (hrec : AllOK specs rec) (x : TU)
    (h : PT specs P0 N0 x) (hgs : Good x.s) (hgt : Good x.t)
    (hsr : x.st.srcRunning = true → x.sig = none ∧ ¬ (x.st.ready = true ∧ x.st.trigRunning = true))
    (hrs : x.st.ready = true → x.st.trigRunning = true → x.sig = none) :
    PT specs P0 N0 (tuRequestStop rec x) := by
  unfold tuRequestStop
  by_cases hsrc : x.st.src = true
  · rw [if_pos hsrc]; exact h
  · rw [if_neg hsrc]
    dsimp only
    by_cases hr : x.st.srcRunning = true
    · rw [if_pos (by simpa using hr)]
      obtain ⟨hsn, hnr⟩ := hsr hr
      cases hs : (rec .stop x.s).2.2 with
      | none =>
        simp only
        refine tuStopTrig_pt specs rec hrec _ ?_ hgt hrs
        exact pt_scall specs rec hrec x h hsn .stop hgs trivial _ rfl rfl (Or.inr ⟨by simp [hs], hsn⟩)
      | some sg =>
        cases sg with
        | clean e =>
          simp only
          refine tuStopTrig_pt specs rec hrec _ ?_ hgt hrs
          exact pt_scall specs rec hrec x h hsn .stop hgs trivial _ rfl rfl (Or.inr ⟨by simp [hs], hsn⟩)
        | next o =>
          simp only
          have hp1 : PT specs P0 N0
              { ({ x with st := { x.st with src := true }, s := (rec .stop x.s).1,
                          outs := x.outs ++ (rec .stop x.s).2.1 } : TU) with sig := some (.next o) } :=
            pt_scall specs rec hrec x h hsn .stop hgs trivial _ rfl rfl (Or.inl ⟨o, hs, rfl⟩)
          have hon := tuOnSrcNext_pt specs rec hrec
            ({ x with st := { x.st with src := true }, s := (rec .stop x.s).1, outs := x.outs ++ (rec .stop x.s).2.1 } : TU)
            o hp1 hgt hnr
          rw [tuOnSrcNext_eq_of_src rec _ o rfl] at hon ⊢
          exact tuStopTrig_pt specs rec hrec _ hon hgt (fun h1 h2 => absurd ⟨h1, h2⟩ hnr)
    · rw [if_neg (by simpa using hr)]
      exact tuStopTrig_pt specs rec hrec _ (h.of_eq specs rfl rfl rfl) hgt hrs

/-- `x` is the state right after next(trigger) signalled (its result `t'` already stored in `x.t`) -/
theorem tuOnTrigNext_pt {P0 : List Nat} {N0 : Nat} (rec : Rec) (hrec : AllOK specs rec) (x : TU)
    (h : PT specs P0 N0 x) (hgs : Good x.s) (hgt : Good x.t) (hti : x.t.ph = .idle)
    (hready : x.st.ready = true → x.sig = none)
    (hsr : x.st.srcRunning = true → x.sig = none ∧ ¬ (x.st.ready = true ∧ x.st.trigRunning = true)) :
    PT specs P0 N0 (tuOnTrigNext rec x) := by
  unfold tuOnTrigNext
  dsimp only
  by_cases hr : x.st.ready = true
  · rw [if_pos hr]
    exact tuStartTrigCleanup_pt specs rec hrec _ (h.of_eq specs rfl rfl rfl) (hready hr) hgt hti
  · rw [if_neg hr]
    have := tuRequestStop_pt specs rec hrec { x with st := { x.st with trigRunning := false } }
      (h.of_eq specs rfl rfl rfl) hgs hgt
      (fun h1 => ⟨(hsr h1).1, fun h2 => by simp at h2⟩) (fun _ h2 => by simp at h2)
    exact this.of_eq specs rfl rfl rfl

theorem takeTrigStart_pt {P0 : List Nat} {N0 : Nat} (rec : Rec) (hrec : AllOK specs rec) (x1 : TU)
    (h : PT specs P0 N0 x1) (hx : x1.sig = none) (hgs : Good x1.s) (hgt : Good x1.t)
    (hl : x1.st.trigStarted = false → Legal (.next x1.st.src) x1.t)
    (hrd : x1.st.trigStarted = false → x1.st.ready = false) (hsr : x1.st.srcRunning = false) :
    PT specs P0 N0 (takeTrigStart rec x1) := by
  unfold takeTrigStart
  by_cases hts : x1.st.trigStarted = true
  · rw [if_pos hts]; exact h
  · rw [if_neg hts]
    have hts' : x1.st.trigStarted = false := by simpa using hts
    dsimp only
    obtain ⟨g, f1, _, _, _, _⟩ := hrec.ok _ x1.t hgt (hl hts')
    have h1 := pt_tcall specs rec hrec x1 h _ hgt (hl hts')
      { x1 with t := (rec (.next x1.st.src) x1.t).1, outs := x1.outs ++ (rec (.next x1.st.src) x1.t).2.1,
                st := { x1.st with trigStarted := true } } rfl rfl rfl
    split
    · rename_i o ho
      exact tuOnTrigNext_pt specs rec hrec _ h1 hgs g (f1 _ ho).1 (fun hr => by simp [hrd hts'] at hr)
        (fun hr => by simp [hsr] at hr)
    · exact h1.of_eq specs rfl rfl rfl

theorem takeSrcStart_pt {P0 : List Nat} {N0 : Nat} (rec : Rec) (hrec : AllOK specs rec) (x3 : TU)
    (h : PT specs P0 N0 x3) (hx : x3.sig = none) (hgs : Good x3.s) (hgt : Good x3.t)
    (hl : Legal (.next x3.st.src) x3.s) (hnr : ¬ (x3.st.ready = true ∧ x3.st.trigRunning = true)) :
    PT specs P0 N0 (takeSrcStart rec x3) := by
  unfold takeSrcStart
  dsimp only
  cases hs : (rec (.next x3.st.src) x3.s).2.2 with
  | none =>
    simp only
    exact pt_scall specs rec hrec x3 h hx _ hgs hl _ rfl rfl (Or.inr ⟨by simp [hs], hx⟩)
  | some sg =>
    cases sg with
    | clean e =>
      simp only
      exact pt_scall specs rec hrec x3 h hx _ hgs hl _ rfl rfl (Or.inr ⟨by simp [hs], hx⟩)
    | next o =>
      simp only
      refine tuOnSrcNext_pt specs rec hrec _ o ?_ hgt hnr
      exact pt_scall specs rec hrec x3 h hx _ hgs hl _ rfl rfl (Or.inl ⟨o, hs, rfl⟩)

theorem takeEvSrc_pt {P0 : List Nat} {N0 : Nat} (rec : Rec) (hrec : AllOK specs rec) (ev : Call) (hl : Legal ev x0.s)
    (h : PT specs P0 N0 x0) (hx : x0.sig = none) (hgs : Good x0.s) (hgt : Good x0.t)
    (hnr : (∃ o, (rec ev x0.s).2.2 = some (.next o)) → ¬ (x0.st.ready = true ∧ x0.st.trigRunning = true)) :
    PT specs P0 N0 (takeEvSrc rec ev x0) := by
  unfold takeEvSrc
  dsimp only
  cases hs : (rec ev x0.s).2.2 with
  | none =>
    simp only
    exact pt_scall specs rec hrec x0 h hx _ hgs hl _ rfl rfl (Or.inr ⟨by simp [hs], hx⟩)
  | some sg =>
    cases sg with
    | clean e =>
      simp only
      refine tuJoinSrc_pt specs _ e ?_ hx
      exact pt_scall specs rec hrec x0 h hx _ hgs hl _ rfl rfl (Or.inr ⟨by simp [hs], hx⟩)
    | next o =>
      simp only
      refine tuOnSrcNext_pt specs rec hrec _ o ?_ hgt (hnr ⟨o, hs⟩)
      exact pt_scall specs rec hrec x0 h hx _ hgs hl _ rfl rfl (Or.inl ⟨o, hs, rfl⟩)


theorem tuok_sig_of_srcRunning {ph0 : Ph} {x : TU} (hx : TUOK ph0 x) (hr : x.st.srcRunning = true) :
    x.sig = none ∧ ¬ (x.st.ready = true ∧ x.st.trigRunning = true) := by
  obtain ⟨_, _, hi, htk⟩ := hx
  have hph := (hi.t12 hr).1
  constructor
  · cases hs : x.sig with
    | none => rfl
    | some z => cases z <;> simp_all [Track]
  · rintro ⟨h1, h2⟩
    have := hi.t14 (Or.inr hph) h1
    simp_all

theorem tuok_sig_of_cleaning {ph0 : Ph} {x : TU} (hx : TUOK ph0 x) (hph : x.st.ph = .cleaning) : x.sig = none := by
  obtain ⟨_, _, hi, htk⟩ := hx
  cases hs : x.sig with
  | none => rfl
  | some z => cases z <;> simp_all [Track]

theorem takeEvTrig_pt {P0 : List Nat} {N0 : Nat} (rec : Rec) (hrec : AllOK specs rec) (ev : Call) (hev : ev.isEvent)
    (ph0 : Ph) (x2 : TU) (hx : TUOK ph0 x2) (h : PT specs P0 N0 x2) :
    PT specs P0 N0 (takeEvTrig rec ev x2) := by
  have hl : Legal ev x2.t := by cases ev <;> simp_all [Legal, Call.isEvent]
  have hnn : ¬ ∃ s, ev = .next s := by rintro ⟨s, rfl⟩; exact hev
  have hnc : ev ≠ .cleanup := by rintro rfl; exact hev
  obtain ⟨g, f1, f2, _, _, _⟩ := hrec.ok ev x2.t hx.gt hl
  unfold takeEvTrig
  dsimp only
  have h1 := pt_tcall specs rec hrec x2 h ev hx.gt hl
    { x2 with t := (rec ev x2.t).1, outs := x2.outs ++ (rec ev x2.t).2.1 } rfl rfl rfl
  cases hs : (rec ev x2.t).2.2 with
  | none => simpa using h1
  | some sg =>
    cases sg with
    | next o =>
      simp only
      obtain ⟨hti, hwas⟩ := f1 o hs
      have htn : x2.t.ph = .nexting := by
        rcases hwas with h' | h'
        · exact h'
        · exact absurd h' hnn
      have htr := hx.inv.t16 htn
      exact tuOnTrigNext_pt specs rec hrec _ h1 hx.ga g hti (fun hr => tuok_ready_sig (x := x2) hx hr htr)
        (fun hr => tuok_sig_of_srcRunning (x := x2) hx hr)
    | clean e =>
      simp only
      obtain ⟨_, hwas⟩ := f2 e hs
      have htc : x2.t.ph = .cleaning := by
        rcases hwas with h' | h'
        · exact h'
        · exact absurd h' hnc
      have hph : x2.st.ph = .cleaning := by
        rcases hx.inv.t7 (Or.inl htc) with h' | h'
        · exact h'
        · have := (hx.inv.t9 h').2; simp_all
      exact tuJoinTrig_pt specs _ e h1 (tuok_sig_of_cleaning (x := x2) hx hph)


theorem cleanupTail2_pt {P0 : List Nat} {N0 : Nat} (rec : Rec) (hrec : AllOK specs rec) (a t : Op) (st0 : TakeSt)
    (outs : List Out) (h : PT specs P0 N0 ⟨a, t, st0, outs, none⟩) (hgt : Good t) (hrd0 : st0.ready = false) :
    PT specs P0 N0 (cleanupTail2 rec ⟨a, t, st0, outs, none⟩) := by
  unfold cleanupTail2
  by_cases htr : st0.trigRunning = true
  · obtain ⟨g, f1, _, _, _, _⟩ := hrec.ok .stop t hgt trivial
    have e1 : tuStopTrig rec ⟨a, t, st0, outs, none⟩ =
        (match (rec .stop t).2.2 with
         | some (.next _) => ⟨a, (rec .stop t).1, { st0 with trigRunning := false, ready := true }, outs ++ (rec .stop t).2.1, none⟩
         | _ => ⟨a, (rec .stop t).1, st0, outs ++ (rec .stop t).2.1, none⟩) := by
      simp only [tuStopTrig, htr, if_true]
      split <;> simp_all
    rw [e1]
    have h1 : ∀ st', PT specs P0 N0 ⟨a, (rec .stop t).1, st', outs ++ (rec .stop t).2.1, none⟩ := fun st' =>
      pt_tcall specs rec hrec _ h .stop hgt trivial _ rfl rfl rfl
    cases hs : (rec .stop t).2.2 with
    | none => simp only [hrd0, Bool.false_eq_true, if_false]; exact h1 _
    | some y =>
      cases y with
      | clean e => simp only [hrd0, Bool.false_eq_true, if_false]; exact h1 _
      | next o =>
        simp only [if_true]
        exact tuStartTrigCleanup_pt specs rec hrec _ (h1 _) rfl g (f1 o hs).1
  · have htr' : st0.trigRunning = false := by simpa using htr
    rw [tframe_stopTrig rec _ htr']
    simp only [hrd0, Bool.false_eq_true, if_false]
    exact h.of_eq specs rfl rfl rfl

theorem takeCleanupTail_pt {P0 : List Nat} {N0 : Nat} (rec : Rec) (hrec : AllOK specs rec) (a t : Op) (st : TakeSt)
    (outs : List Out) (h : PT specs P0 N0 ⟨a, t, st, outs, none⟩) (hgt : Good t) (hsr : st.srcRunning = false)
    (hrdy : st.ready = true → t.ph = .idle) :
    PT specs P0 N0 (takeCleanupTail rec ⟨a, t, st, outs, none⟩) := by
  by_cases hrd : st.ready = true
  · have e : takeCleanupTail rec ⟨a, t, st, outs, none⟩ = tuStartTrigCleanup rec ⟨a, t, st, outs, none⟩ := by
      simp [takeCleanupTail, hrd]
    rw [e]
    exact tuStartTrigCleanup_pt specs rec hrec _ h rfl hgt (hrdy hrd)
  · have hrd' : st.ready = false := by simpa using hrd
    by_cases hsrc : st.src = true
    · have e : takeCleanupTail rec ⟨a, t, st, outs, none⟩ = ⟨a, t, { st with ready := true }, outs, none⟩ := by
        simp [takeCleanupTail, tuRequestStop, hrd', hsrc]
      rw [e]
      exact h.of_eq specs rfl rfl rfl
    · have hsrc' : st.src = false := by simpa using hsrc
      have e : takeCleanupTail rec ⟨a, t, st, outs, none⟩ = cleanupTail2 rec ⟨a, t, { st with src := true }, outs, none⟩ := by
        simp [takeCleanupTail, tuRequestStop, cleanupTail2, hrd', hsrc', hsr]
      rw [e]
      exact cleanupTail2_pt specs rec hrec a t _ outs (h.of_eq specs rfl rfl rfl) hgt hrd'


theorem pt_init (a t : Op) (st' : TakeSt) (outs : List Out) (hsi : SI2 (.takeUntil a t st'))
    (hnt : (Op.takeUntil a t st').NoTake) (N0 : Nat) (hN : a.need specs + t.need specs + 1 ≤ N0) :
    PT specs (a.phi specs) N0 ⟨a, t, st', outs, none⟩ :=
  ⟨hnt.1, hnt.2, hsi.1, hsi.2, hN, List.prefix_refl _⟩

/-- from the bookkeeping of the final intermediate state to the node's value and fuel contracts -/
theorem contracts_of_pt (c : Call) (a t : Op) (st : TakeSt) (y : TU)
    (h : PT specs (a.phi specs) ((Op.takeUntil a t st).need specs) y) :
    PhiPost specs c (.takeUntil a t st) y.res ∧ NeedPost specs (.takeUntil a t st) y.res := by
  obtain ⟨nta, ntt, sia, sit, le, trk⟩ := h
  refine ⟨⟨⟨nta, ntt⟩, ⟨sia, sit⟩, ?_, ?_⟩, ⟨⟨nta, ntt⟩, by simpa [TU.res, Op.need] using le, ?_⟩⟩
  · intro v hv
    simp only [TU.res] at hv
    simp only [hv] at trk
    simpa [Op.phi, TU.res] using trk.1
  · intro hn
    simp only [TU.res] at hn
    cases hs : y.sig with
    | none => simpa [hs, Op.phi, TU.res] using trk
    | some sg =>
      cases sg with
      | next o => exact absurd hs (hn o)
      | clean e => simpa [hs, Op.phi, TU.res] using trk
  · intro v hv
    simp only [TU.res] at hv
    simp only [hv] at trk
    simpa [TU.res, Op.need] using trk.2

theorem takeUntil_contracts (rec : Rec) (hrec : AllOK specs rec) (c : Call) (a t : Op) (st : TakeSt)
    (hg : Good (.takeUntil a t st)) (hl : Legal c (.takeUntil a t st)) (hsi : SI2 (.takeUntil a t st))
    (hnt : (Op.takeUntil a t st).NoTake) :
    PhiPost specs c (.takeUntil a t st) (takeStep rec c a t st) ∧
    NeedPost specs (.takeUntil a t st) (takeStep rec c a t st) := by
  obtain ⟨hga, hgt, hi⟩ := hg
  have hN : a.need specs + t.need specs + 1 ≤ (Op.takeUntil a t st).need specs := by simp [Op.need]
  have init : ∀ st' outs, PT specs (a.phi specs) ((Op.takeUntil a t st).need specs) ⟨a, t, st', outs, none⟩ :=
    fun st' outs => pt_init specs a t st' outs hsi hnt _ hN
  cases c with
  | stop =>
    by_cases hph : st.ph = .nexting
    · have e : takeStep rec .stop a t st = (tuRequestStop rec ⟨a, t, st, [], none⟩).res := by simp [takeStep, hph]
      rw [e]
      refine contracts_of_pt specs .stop a t st _ (tuRequestStop_pt specs rec hrec _ (init _ _) hga hgt
        (fun _ => ⟨rfl, fun h => ?_⟩) (fun _ _ => rfl))
      have := hi.t14 (Or.inr hph) h.1
      simp_all
    · have e : takeStep rec .stop a t st = (⟨a, t, st, [], none⟩ : TU).res := by
        cases h : st.ph <;> simp_all [takeStep]
      rw [e]
      exact contracts_of_pt specs .stop a t st _ (init _ _)
  | compNext j =>
    have hev : (Call.compNext j).isEvent := trivial
    have hl' : Legal (Call.compNext j) a := trivial
    have e : takeStep rec (.compNext j) a t st = (takeEvTrig rec (.compNext j) (takeEvSrc rec (.compNext j) ⟨a, t, st, [], none⟩)).res := rfl
    rw [e]
    have hx2 := take_ev_src_ok rec hrec.ok (.compNext j) hev (by simp) a t st hga hgt hi
    have hp2 : PT specs (a.phi specs) ((Op.takeUntil a t st).need specs) (takeEvSrc rec (.compNext j) ⟨a, t, st, [], none⟩) := by
      refine takeEvSrc_pt specs rec hrec (.compNext j) hl' (init _ _) rfl hga hgt ?_
      rintro ⟨o, ho⟩ ⟨h1, h2⟩
      obtain ⟨_, f1, _, _, _, _⟩ := hrec.ok (.compNext j) a hga hl'
      have han : a.ph = .nexting := by
        rcases (f1 o ho).2 with h' | ⟨s', h'⟩
        · exact h'
        · simp at h'
      have := hi.t14 (Or.inr (hi.t5 han)) h1
      simp_all
    exact contracts_of_pt specs (.compNext j) a t st _ (takeEvTrig_pt specs rec hrec (.compNext j) hev st.ph _ hx2 hp2)
  | compClean j =>
    have hev : (Call.compClean j).isEvent := trivial
    have hl' : Legal (Call.compClean j) a := trivial
    have e : takeStep rec (.compClean j) a t st = (takeEvTrig rec (.compClean j) (takeEvSrc rec (.compClean j) ⟨a, t, st, [], none⟩)).res := rfl
    rw [e]
    have hx2 := take_ev_src_ok rec hrec.ok (.compClean j) hev (by simp) a t st hga hgt hi
    have hp2 : PT specs (a.phi specs) ((Op.takeUntil a t st).need specs) (takeEvSrc rec (.compClean j) ⟨a, t, st, [], none⟩) := by
      refine takeEvSrc_pt specs rec hrec (.compClean j) hl' (init _ _) rfl hga hgt ?_
      rintro ⟨o, ho⟩ ⟨h1, h2⟩
      obtain ⟨_, f1, _, _, _, _⟩ := hrec.ok (.compClean j) a hga hl'
      have han : a.ph = .nexting := by
        rcases (f1 o ho).2 with h' | ⟨s', h'⟩
        · exact h'
        · simp at h'
      have := hi.t14 (Or.inr (hi.t5 han)) h1
      simp_all
    exact contracts_of_pt specs (.compClean j) a t st _ (takeEvTrig_pt specs rec hrec (.compClean j) hev st.ph _ hx2 hp2)
  | next stopped =>
    have hph : st.ph = .idle := hl.1
    have hai := hi.t2 hph
    have hsr : st.srcRunning = false := by
      cases h : st.srcRunning
      · rfl
      · have := (hi.t12 h).1; simp_all
    have e : takeStep rec (.next stopped) a t st = (takeNext rec stopped ⟨a, t, st, [], none⟩).res := by
      simp [takeStep, hph]
    rw [e]
    obtain ⟨h2, hf2, hq2⟩ := take_trigStart_ok rec hrec.ok a t st hga hgt hi hph
    have hp2 : PT specs (a.phi specs) ((Op.takeUntil a t st).need specs)
        (takeTrigStart rec ⟨a, t, { st with ph := .nexting }, [], none⟩) := by
      refine takeTrigStart_pt specs rec hrec _ (init _ _) rfl hga hgt ?_ ?_ hsr
      · intro h
        have := hi.t4 h
        exact ⟨this.1, by simp [this.2.1]⟩
      · intro h
        exact (hi.t4 h).2.2.2 hph
    simp only [takeNext]
    generalize takeTrigStart rec ⟨a, t, { st with ph := .nexting }, [], none⟩ = x2 at *
    have hs2 : x2.st.srcRunning = false := by rw [hf2.2]; exact hsr
    have hsig2 : x2.sig = none := hq2.1
    have hph2 : x2.st.ph = .nexting := hq2.2
    have h3 : TUOK .nexting (if stopped = true then tuRequestStop rec x2 else x2) ∧
        Frame x2 (if stopped = true then tuRequestStop rec x2 else x2) ∧
        Quiet x2 (if stopped = true then tuRequestStop rec x2 else x2) ∧
        PT specs (a.phi specs) ((Op.takeUntil a t st).need specs) (if stopped = true then tuRequestStop rec x2 else x2) := by
      cases stopped with
      | false => exact ⟨h2, Frame.refl _, ⟨rfl, rfl⟩, hp2⟩
      | true =>
        have hc : x2.st.ready = false ∨ x2.st.trigRunning = false := by
          cases hr : x2.st.ready
          · exact Or.inl rfl
          · exact Or.inr (h2.inv.t14 (Or.inr hph2) hr)
        exact ⟨tuRequestStop_ok rec hrec.ok .nexting x2 h2, frame_requestStop rec x2 hs2, quiet_requestStop rec x2 hs2 hc,
          tuRequestStop_pt specs rec hrec x2 hp2 h2.ga h2.gt (fun h => by simp [hs2] at h) (fun _ _ => hsig2)⟩
    generalize (if stopped = true then tuRequestStop rec x2 else x2) = x3 at *
    obtain ⟨h3a, h3f, h3q, h3p⟩ := h3
    have hs3 : x3.s = a := by rw [h3f.1, hf2.1]
    have hsig3 : x3.sig = none := by rw [h3q.1, hq2.1]
    have hph3 : x3.st.ph = .nexting := by rw [h3q.2, hq2.2]
    refine contracts_of_pt specs (.next stopped) a t st _
      (takeSrcStart_pt specs rec hrec x3 h3p hsig3 h3a.ga h3a.gt ⟨by rw [hs3]; exact hai, h3a.inv.t1⟩ ?_)
    rintro ⟨h1, h2'⟩
    have := h3a.inv.t14 (Or.inr hph3) h1
    simp_all
  | cleanup =>
    have hph : st.ph = .idle := hl
    have hai := hi.t2 hph
    have hsr : st.srcRunning = false := by
      cases h : st.srcRunning
      · rfl
      · have := (hi.t12 h).1; simp_all
    have hj : st.joined = false := by
      cases h : st.joined
      · rfl
      · have := ((hi.t8 (by simp [hph])).1.1 h)
        have h7 := hi.t7
        rcases this with h' | h'
        · simp_all
        · have := h7 (Or.inr h'); simp_all
    have e : takeStep rec .cleanup a t st = (takeCleanup rec ⟨a, t, st, [], none⟩).res := by
      simp [takeStep, hph]
    rw [e]
    obtain ⟨_, f1, _, _, _, _⟩ := hrec.ok .cleanup a hga hai
    simp only [takeCleanup]
    have hnn : ∀ o, (rec .cleanup a).2.2 ≠ some (.next o) := by
      intro o ho
      have := (f1 o ho).2
      simp [hai] at this
    have hp1 : ∀ st', PT specs (a.phi specs) ((Op.takeUntil a t st).need specs)
        ⟨(rec .cleanup a).1, t, st', [] ++ (rec .cleanup a).2.1, none⟩ := fun st' =>
      pt_scall specs rec hrec ⟨a, t, st, [], none⟩ (init _ _) rfl .cleanup hga hai _ rfl rfl (Or.inr ⟨hnn, rfl⟩)
    refine contracts_of_pt specs .cleanup a t st _ ?_
    cases hs : (rec .cleanup a).2.2 with
    | none =>
      dsimp only
      exact takeCleanupTail_pt specs rec hrec _ t _ _ (hp1 _) hgt hsr (fun hr => hi.t3 (Or.inl hph) hr)
    | some y =>
      cases y with
      | next o => exact absurd hs (hnn o)
      | clean e' =>
        have e2 : tuJoinSrc ⟨(rec .cleanup a).1, t, { st with ph := .cleaning, srcOpCtor := st.srcOpCtor + 1 },
              [] ++ (rec .cleanup a).2.1, none⟩ e' =
            ⟨(rec .cleanup a).1, t, { st with ph := .cleaning, srcOpCtor := st.srcOpCtor + 1, srcOpDtor := st.srcOpDtor + 1, srcErr := firstErr e' st.srcErr, joined := true }, [] ++ (rec .cleanup a).2.1, none⟩ := by
          simp [tuJoinSrc, tuJoin, hj]
        dsimp only
        rw [e2]
        exact takeCleanupTail_pt specs rec hrec _ t _ _ (hp1 _) hgt hsr (fun hr => hi.t3 (Or.inl hph) hr)

/-- fuel bookkeeping of an intermediate take_until state (needs no protocol facts: `Op.need` never grows, and the
    pending value signal always comes from a source call that made it shrink) -/
structure NT (N0 : Nat) (x : TU) : Prop where
  nta : x.s.NoTake
  ntt : x.t.NoTake
  le : x.s.need specs + x.t.need specs + 1 ≤ N0
  lt : ∀ v, x.sig = some (.next (.value v)) → x.s.need specs + x.t.need specs + 1 < N0

theorem NT.of_eq {N0 : Nat} {x y : TU} (h : NT specs N0 x) (hs : y.s = x.s) (ht : y.t = x.t)
    (hg : ∀ v, y.sig = some (.next (.value v)) → x.sig = some (.next (.value v))) : NT specs N0 y :=
  ⟨hs ▸ h.nta, ht ▸ h.ntt, by rw [hs, ht]; exact h.le, fun v hv => by rw [hs, ht]; exact h.lt v (hg v hv)⟩

theorem nt_tcall {N0 : Nat} (rec : Rec) (hn : NeedOK specs rec) (x : TU) (h : NT specs N0 x) (c : Call) (y : TU)
    (hs : y.s = x.s) (ht : y.t = (rec c x.t).1)
    (hg : ∀ v, y.sig = some (.next (.value v)) → x.sig = some (.next (.value v))) : NT specs N0 y := by
  obtain ⟨nt, le, _⟩ := hn c x.t h.ntt
  exact ⟨hs ▸ h.nta, ht ▸ nt, by rw [hs, ht]; have := h.le; omega,
    fun v hv => by rw [hs, ht]; have := h.lt v (hg v hv); omega⟩

theorem nt_scall {N0 : Nat} (rec : Rec) (hn : NeedOK specs rec) (x : TU) (h : NT specs N0 x) (c : Call) (y : TU)
    (hs : y.s = (rec c x.s).1) (ht : y.t = x.t)
    (hg : ∀ v, y.sig = some (.next (.value v)) →
      x.sig = some (.next (.value v)) ∨ (rec c x.s).2.2 = some (.next (.value v))) : NT specs N0 y := by
  obtain ⟨nt, le, lt⟩ := hn c x.s h.nta
  refine ⟨hs ▸ nt, ht ▸ h.ntt, by rw [hs, ht]; have := h.le; omega, fun v hv => ?_⟩
  rw [hs, ht]
  rcases hg v hv with h1 | h1
  · have := h.lt v h1; omega
  · have := lt v h1; have := h.le; omega

theorem tuJoin_nt {N0 : Nat} (x : TU) (h : NT specs N0 x) : NT specs N0 (tuJoin x) := by
  obtain ⟨h1, h2, h3⟩ := tuJoin_shape x
  refine h.of_eq specs h1 h2 (fun v hv => ?_)
  rcases h3 with h3 | ⟨e, h3⟩
  · rw [← h3]; exact hv
  · rw [h3] at hv; simp at hv

theorem tuJoinSrc_nt {N0 : Nat} (x : TU) (e : Option Nat) (h : NT specs N0 x) : NT specs N0 (tuJoinSrc x e) := by
  unfold tuJoinSrc; exact tuJoin_nt specs _ (h.of_eq specs rfl rfl (fun _ hv => hv))

theorem tuJoinTrig_nt {N0 : Nat} (x : TU) (e : Option Nat) (h : NT specs N0 x) : NT specs N0 (tuJoinTrig x e) := by
  unfold tuJoinTrig; exact tuJoin_nt specs _ (h.of_eq specs rfl rfl (fun _ hv => hv))

theorem tuStartTrigCleanup_nt {N0 : Nat} (rec : Rec) (hn : NeedOK specs rec) (x : TU) (h : NT specs N0 x) :
    NT specs N0 (tuStartTrigCleanup rec x) := by
  unfold tuStartTrigCleanup
  dsimp only
  have h1 := nt_tcall specs rec hn x h .cleanup
    { x with t := (rec .cleanup x.t).1, outs := x.outs ++ (rec .cleanup x.t).2.1,
             st := { x.st with trigOpCtor := x.st.trigOpCtor + 1 } } rfl rfl (fun _ hv => hv)
  split
  · exact tuJoinTrig_nt specs _ _ h1
  · exact h1

theorem tuStopTrig_nt {N0 : Nat} (rec : Rec) (hn : NeedOK specs rec) (x : TU) (h : NT specs N0 x) :
    NT specs N0 (tuStopTrig rec x) := by
  unfold tuStopTrig
  split
  · dsimp only
    have h1 := nt_tcall specs rec hn x h .stop
      { x with t := (rec .stop x.t).1, outs := x.outs ++ (rec .stop x.t).2.1 } rfl rfl (fun _ hv => hv)
    split
    · split
      · exact tuStartTrigCleanup_nt specs rec hn _ (h1.of_eq specs rfl rfl (fun _ hv => hv))
      · exact h1.of_eq specs rfl rfl (fun _ hv => hv)
    · exact h1
  · exact h

/-- `h1` is the bookkeeping of the state with the source's signal already recorded -/
theorem tuOnSrcNext_nt {N0 : Nat} (rec : Rec) (hn : NeedOK specs rec) (x1 : TU) (o : Outcome)
    (h1 : NT specs N0 { x1 with sig := some (.next o) }) : NT specs N0 (tuOnSrcNext rec x1 o) := by
  have hb : ∀ st', NT specs N0 { x1 with st := st', sig := some (.next o) } := fun st' =>
    h1.of_eq specs rfl rfl (fun _ hv => hv)
  unfold tuOnSrcNext
  dsimp only
  split
  · exact hb _
  · split
    · exact hb _
    · exact tuStopTrig_nt specs rec hn _ (hb _)

theorem tuRequestStop_nt {N0 : Nat} (rec : Rec) (hn : NeedOK specs rec) (x : TU) (h : NT specs N0 x) :
    NT specs N0 (tuRequestStop rec x) := by
  unfold tuRequestStop
  split
  · exact h
  · dsimp only
    refine tuStopTrig_nt specs rec hn _ ?_
    split
    · split
      · rename_i o ho
        refine tuOnSrcNext_nt specs rec hn _ o ?_
        exact nt_scall specs rec hn x h .stop _ rfl rfl (fun v hv => Or.inr (by
          simp only [Option.some.injEq, Sig.next.injEq] at hv; rw [ho, hv]))
      · rename_i hnn
        refine nt_scall specs rec hn x h .stop _ rfl rfl (fun v hv => Or.inl hv)
    · exact h.of_eq specs rfl rfl (fun _ hv => hv)

theorem tuOnTrigNext_nt {N0 : Nat} (rec : Rec) (hn : NeedOK specs rec) (x : TU) (h : NT specs N0 x) :
    NT specs N0 (tuOnTrigNext rec x) := by
  unfold tuOnTrigNext
  dsimp only
  split
  · exact tuStartTrigCleanup_nt specs rec hn _ (h.of_eq specs rfl rfl (fun _ hv => hv))
  · have h2 := tuRequestStop_nt specs rec hn { x with st := { x.st with trigRunning := false } }
      (h.of_eq specs rfl rfl (fun _ hv => hv))
    exact ⟨h2.nta, h2.ntt, h2.le, h2.lt⟩


theorem takeStep_need (rec : Rec) (hn : NeedOK specs rec) (c : Call) (a t : Op) (st : TakeSt)
    (hnt : (Op.takeUntil a t st).NoTake) : NeedPost specs (.takeUntil a t st) (takeStep rec c a t st) := by
  have init : ∀ st' outs, NT specs ((Op.takeUntil a t st).need specs) ⟨a, t, st', outs, none⟩ := fun st' outs =>
    ⟨hnt.1, hnt.2, by simp [Op.need], by simp⟩
  have fin : ∀ y : TU, NT specs ((Op.takeUntil a t st).need specs) y → NeedPost specs (.takeUntil a t st) y.res :=
    fun y h => ⟨⟨h.nta, h.ntt⟩, by simpa [TU.res, Op.need] using h.le,
      fun v hv => by simpa [TU.res, Op.need] using h.lt v (by simpa [TU.res] using hv)⟩
  have srcStart : ∀ x3 : TU, NT specs ((Op.takeUntil a t st).need specs) x3 →
      NT specs ((Op.takeUntil a t st).need specs) (takeSrcStart rec x3) := by
    intro x3 h3
    unfold takeSrcStart
    dsimp only
    split
    · rename_i o ho
      refine tuOnSrcNext_nt specs rec hn _ o ?_
      exact nt_scall specs rec hn x3 h3 _ _ rfl rfl (fun v hv => Or.inr (by
        simp only [Option.some.injEq, Sig.next.injEq] at hv; rw [ho, hv]))
    · exact nt_scall specs rec hn x3 h3 _ _ rfl rfl (fun v hv => Or.inl hv)
  have trigStart : ∀ x1 : TU, NT specs ((Op.takeUntil a t st).need specs) x1 →
      NT specs ((Op.takeUntil a t st).need specs) (takeTrigStart rec x1) := by
    intro x1 h1
    unfold takeTrigStart
    split
    · exact h1
    · dsimp only
      have h2 := nt_tcall specs rec hn x1 h1 (.next x1.st.src)
        { x1 with t := (rec (.next x1.st.src) x1.t).1, outs := x1.outs ++ (rec (.next x1.st.src) x1.t).2.1,
                  st := { x1.st with trigStarted := true } } rfl rfl (fun _ hv => hv)
      split
      · exact tuOnTrigNext_nt specs rec hn _ h2
      · exact h2.of_eq specs rfl rfl (fun _ hv => hv)
  have tail : ∀ x2 : TU, NT specs ((Op.takeUntil a t st).need specs) x2 →
      NT specs ((Op.takeUntil a t st).need specs) (takeCleanupTail rec x2) := by
    intro x2 h2
    unfold takeCleanupTail
    split
    · exact tuStartTrigCleanup_nt specs rec hn _ h2
    · dsimp only
      have h3 := tuRequestStop_nt specs rec hn x2 h2
      split
      · exact tuStartTrigCleanup_nt specs rec hn _ h3
      · exact ⟨h3.nta, h3.ntt, h3.le, h3.lt⟩
  have evSrc : ∀ (ev : Call) (x0 : TU), NT specs ((Op.takeUntil a t st).need specs) x0 → x0.sig = none →
      NT specs ((Op.takeUntil a t st).need specs) (takeEvSrc rec ev x0) := by
    intro ev x0 h0 hs0
    unfold takeEvSrc
    dsimp only
    split
    · rename_i o ho
      refine tuOnSrcNext_nt specs rec hn _ o ?_
      exact nt_scall specs rec hn x0 h0 _ _ rfl rfl (fun v hv => Or.inr (by
        simp only [Option.some.injEq, Sig.next.injEq] at hv; rw [ho, hv]))
    · refine tuJoinSrc_nt specs _ _ ?_
      exact nt_scall specs rec hn x0 h0 _ _ rfl rfl (fun v hv => Or.inl hv)
    · exact nt_scall specs rec hn x0 h0 _ _ rfl rfl (fun v hv => Or.inl hv)
  have evTrig : ∀ (ev : Call) (x2 : TU), NT specs ((Op.takeUntil a t st).need specs) x2 →
      NT specs ((Op.takeUntil a t st).need specs) (takeEvTrig rec ev x2) := by
    intro ev x2 h2
    unfold takeEvTrig
    dsimp only
    have h3 := nt_tcall specs rec hn x2 h2 ev
      { x2 with t := (rec ev x2.t).1, outs := x2.outs ++ (rec ev x2.t).2.1 } rfl rfl (fun _ hv => hv)
    split
    · exact tuOnTrigNext_nt specs rec hn _ h3
    · exact tuJoinTrig_nt specs _ _ h3
    · exact h3
  cases c with
  | next stopped =>
    simp only [takeStep]
    split
    · refine fin _ ?_
      unfold takeNext
      dsimp only
      refine srcStart _ ?_
      split
      · exact tuRequestStop_nt specs rec hn _ (trigStart _ (init _ _))
      · exact trigStart _ (init _ _)
    · exact fin _ (init _ _)
  | stop =>
    simp only [takeStep]
    split
    · exact fin _ (tuRequestStop_nt specs rec hn _ (init _ _))
    · exact fin _ (init _ _)
  | cleanup =>
    simp only [takeStep]
    split
    · refine fin _ ?_
      unfold takeCleanup
      dsimp only
      refine tail _ ?_
      have h1 : NT specs ((Op.takeUntil a t st).need specs)
          ⟨(rec .cleanup a).1, t, { st with ph := .cleaning, srcOpCtor := st.srcOpCtor + 1 }, [] ++ (rec .cleanup a).2.1, none⟩ :=
        nt_scall specs rec hn ⟨a, t, st, [], none⟩ (init _ _) .cleanup _ rfl rfl (fun v hv => by simp at hv)
      split
      · exact tuJoinSrc_nt specs _ _ h1
      · exact h1
    · exact fin _ (init _ _)
  | compNext j => exact fin _ (evTrig _ _ (evSrc _ _ (init _ _) rfl))
  | compClean j => exact fin _ (evTrig _ _ (evSrc _ _ (init _ _) rfl))

end Unifex.Stream
