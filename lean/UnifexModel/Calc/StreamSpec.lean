/-
  Calc/StreamSpec.lean — the denotational reading of the stream adaptors: the sequence of elements a
  stream yields and how it ends (`none` = done, `some e` = error e), as a list function per adaptor:

      range lo hi      = [lo, hi)                     (range_stream: `next_ < max_`)
      single v         = [v]
      src i            = the scripted values up to the first done / error
      transform f      = map f          (cut at the first element on which f throws; the throw is the end)
      filter p         = List.filter p  (cut at the first element on which p throws)
      type_erase, cleanup_adapt_stream = identity on the elements
      stop_immediately = identity, or empty if stop was already requested
      take_until s t   = s with stop requested (an inline trigger fires during the first next())
      reduce_stream    = foldl over exactly those elements ; for_each = each of them once, in order

  Short enough to read in a minute; `Props/C13.lean` proves that the operational semantics
  (`Stream.deliver` / `Stream.rootStep`, which is what is compared with the real code) computes
  exactly this for every stream whose sources complete inline.
-/
import UnifexModel.Calc.Stream

namespace Unifex.Stream
open Unifex.Calc (Outcome Fn)

variable (specs : Nat → SrcSpec)

/-- elements and end (`none` = done, `some e` = error) -/
abbrev Den := List Nat × Option Nat

def NextSpec.outcome : NextSpec → Outcome
  | .inl o => o
  | .pend o _ => o

def scriptDen : List NextSpec → Den
  | [] => ([], none)
  | sp :: rest =>
    match sp.outcome with
    | .value v => (v :: (scriptDen rest).1, (scriptDen rest).2)
    | .error e => ([], some e)
    | .done => ([], none)

def mapDen (f : Fn) : List Nat → Option Nat → Den
  | [], t => ([], t)
  | x :: xs, t =>
    match f.app x with
    | .value y => (y :: (mapDen f xs t).1, (mapDen f xs t).2)
    | .error e => ([], some e)
    | .done => ([], none)

def filterDen (p : Pred) : List Nat → Option Nat → Den
  | [], t => ([], t)
  | x :: xs, t =>
    match p.app x with
    | .keep => (x :: (filterDen p xs t).1, (filterDen p xs t).2)
    | .drop => filterDen p xs t
    | .throw e => ([], some e)

def UnKind.den (k : UnKind) (d : Den) : Den :=
  match k with
  | .transform f => mapDen f d.1 d.2
  | .nextAdapt f => mapDen f d.1 d.2
  | _ => d

/-- the elements of a stream expression; `stopped` = stop already requested on the consumer's token -/
def SExpr.den : SExpr → Bool → Den
  | .range lo hi, _ => (List.range' lo (hi - lo), none)
  | .single v, _ => ([v], none)
  | .neverS, _ => ([], none)
  | .src i, _ => scriptDen (specs i).nexts
  | .un k s, st => k.den (s.den st)
  | .filter p s, st => filterDen p (s.den st).1 (s.den st).2
  | .stopImmediately s, st => if st then ([], none) else s.den false
  | .takeUntil s _, _ => s.den true

/-- the result of cleanup() of a stream on which next() has been called (`none` = done) -/
def SExpr.cden : SExpr → Bool → Option Nat
  | .src i, _ => (specs i).clean.err
  | .un k s, st => (k.mapClean (s.cden st)).1
  | .filter _ s, st => s.cden st
  | .stopImmediately s, st => if st then none else s.cden false
  | .takeUntil s t, _ => firstErr (s.cden true) (t.cden false)
  | _, _ => none

/-- reduce_stream / for_each over the elements `l` ending with `t`: the elements handed to the
    reducer, the final state, and the error to report (end of the stream or thrown by the reducer) -/
def consSpec (c : Consumer) : Nat → List Nat → Option Nat → List Nat × Nat × Option Nat
  | acc, [], t => ([], acc, t)
  | acc, x :: xs, t =>
    match c.step acc x with
    | .ok acc' => (x :: (consSpec c acc' xs t).1, (consSpec c acc' xs t).2)
    | .error e => ([x], acc, some e)

/-- all sources of the expression complete inside start() (next and cleanup) -/
def SrcSpec.Inline (s : SrcSpec) : Prop :=
  (∀ n ∈ s.nexts, ∃ o, n = .inl o) ∧ ∃ e, s.clean = .inl e

def SExpr.Inline : SExpr → Prop
  | .range _ _ => True
  | .single _ => True
  | .neverS => False
  | .src i => (specs i).Inline
  | .un _ s => s.Inline
  | .filter _ s => s.Inline
  | .stopImmediately s => s.Inline
  | .takeUntil s t => s.Inline ∧ t.Inline

end Unifex.Stream
